/-
  Pulsar.Proofs.RapidOpts — what the options `NoEmptyLists` and `DisallowNilMessages` guarantee for the
  message one `setFields` call fills (a loop invariant of `genFields`), lifted to every message of the
  generated tree by the generic theorem of Proofs/RapidScalars.lean.
-/
import Pulsar.Proofs.RapidScalars
import Pulsar.Proofs.ReflectCor
namespace Pulsar.Rapidproto
open Pulsar

theorem rp_post_any {α} (r : R α) : Post r (fun _ _ => True) := fun _ _ _ _ => trivial

/-! ### the flag `setFields` returns -/

theorem rp_setFields_flag (S : Schema) (o : GenOpts) (E : List Int) (fuel depth i : Nat) (v : Val)
    (ds : List Draw) : Post (setFields S o E fuel depth i v ds)
      (fun r _ => r.1 = decide (depth ≤ Extracted.depthLimit) ∧ (r.1 = true → r.2.isNone = false)) := by
  cases fuel with
  | zero =>
    simp only [setFields]
    split
    · exact rp_post_ok ⟨by simp; omega, by simp⟩
    · exact rp_post_stuck
  | succ fuel =>
    simp only [setFields]
    split
    · exact rp_post_ok ⟨by simp; omega, by simp⟩
    · exact rp_post_map (fun _ _ _ _ => ⟨by simp; omega, fun _ => rfl⟩)

/-! ### lengths of generated lists -/

theorem rp_len_listScalars (o : GenOpts) (E : List Int) (k : Kind) : ∀ (n : Nat) (es : List Val) (ds : List Draw),
    Post (listScalars o E k n es ds) (fun es' _ => es'.length = es.length + n)
  | 0, es, ds => rp_post_ok rfl
  | n+1, es, ds => by
    simp only [listScalars]
    refine rp_post_bind (rp_post_any _) (fun v rest tr _ _ => ?_)
    exact rp_post_mono (rp_len_listScalars o E k n _ rest) (fun es' _ h => by rw [h]; simp; omega)

theorem rp_len_listMsgs (S : Schema) {child : Nat → Val → List Draw → R (Bool × Val)}
    (hflag : ∀ mi v ds, Post (child mi v ds) (fun r _ => r.1 = true)) (mi : Nat) :
    ∀ (n i : Nat) (es : List Val) (ds : List Draw),
    Post (listMsgs S child mi n i es ds) (fun es' _ => es'.length = es.length + n)
  | 0, _, es, ds => rp_post_ok rfl
  | n+1, i, es, ds => by
    simp only [listMsgs]
    refine rp_post_bind (hflag mi _ ds) (fun r rest tr _ hr => ?_)
    rw [if_pos hr]
    exact rp_post_mono (rp_len_listMsgs S hflag mi n (i+1) _ rest) (fun es' _ h => by rw [h]; simp; omega)

/-! ### the frame of `genField` -/

/-- what `genField` on field `j` can do to the other slots: nothing, or clear a member of a oneof group -/
def Frame (fs : List FieldDesc) (j : Nat) (slots slots' : List Val) : Prop :=
  slots'.length ≤ slots.length ∧
  ∀ k, k ≠ j → k < slots'.length →
    slots'.getD k .none = slots.getD k .none ∨
    ∃ f' g, fs[k]? = some f' ∧ f'.group? = some g ∧ slots'.getD k .none = .none

theorem rp_frame_set (fs : List FieldDesc) (j : Nat) (slots : List Val) (x : Val) :
    Frame fs j slots (slots.set j x) := by
  refine ⟨by simp, fun k hk _ => Or.inl ?_⟩
  exact getD_set_ne Val.none slots j k x (fun h => hk h.symm)

theorem rp_frame_clear_set (fs : List FieldDesc) (g j : Nat) (slots : List Val) (x : Val) :
    Frame fs j slots ((clearGroup fs g slots).set j x) := by
  refine ⟨by simp [clearGroup_eq]; omega, fun k hk hlen => ?_⟩
  rw [getD_set_ne Val.none _ j k x (fun h => hk h.symm)]
  simp only [List.length_set, clearGroup_eq, List.length_map, List.length_zip] at hlen
  have hkf : k < fs.length := by omega
  have hfk : fs[k]? = some fs[k] := List.getElem?_eq_getElem hkf
  rw [clearGroup_eq, getD_map_zip (fun p : FieldDesc × Val => if p.1.group? == some g then Val.none else p.2)
    Val.none Val.none fs slots k fs[k] hfk (by omega)]
  cases hg : fs[k].group? == some g
  · exact Or.inl (by simp)
  · exact Or.inr ⟨fs[k], g, hfk, by simpa using hg, by simp⟩

theorem rp_frame_genField (S : Schema) (o : GenOpts) (E : List Int) (child : Nat → Val → List Draw → R (Bool × Val))
    (fs : List FieldDesc) (f : FieldDesc) (j : Nat) (slots : List Val) (ds : List Draw) :
    Post (genField S o E child fs f j slots ds) (fun slots' _ => Frame fs j slots slots') := by
  unfold genField
  cases f.shape <;> cases f.elem <;> simp only []
  · exact rp_post_map (fun _ _ _ _ => rp_frame_set _ _ _ _)
  · exact rp_post_map (fun _ _ _ _ => rp_frame_set _ _ _ _)
  · exact rp_post_bind (rp_post_any _) (fun _ _ _ _ _ => rp_post_map (fun _ _ _ _ => rp_frame_set _ _ _ _))
  · exact rp_post_bind (rp_post_any _) (fun _ _ _ _ _ => rp_post_map (fun _ _ _ _ => rp_frame_set _ _ _ _))
  · exact rp_post_map (fun _ _ _ _ => rp_frame_clear_set _ _ _ _ _)
  · split
    · exact rp_post_map (fun _ _ _ _ => rp_frame_set _ _ _ _)
    · exact rp_post_map (fun _ _ _ _ => rp_frame_clear_set _ _ _ _ _)
  · exact rp_post_bind (rp_post_any _) (fun _ _ _ _ _ => rp_post_map (fun _ _ _ _ => rp_frame_set _ _ _ _))
  · exact rp_post_bind (rp_post_any _) (fun _ _ _ _ _ => rp_post_map (fun _ _ _ _ => rp_frame_set _ _ _ _))

/-! ### the loop invariant -/

/-- A per-field predicate `L` that (1) `genField` establishes for the field it fills — from the weaker `L0`
    that the field satisfied before —, (2) holds (as does `L0`) for a cleared oneof member and (3) follows from
    `L0` for fields that can be skipped, holds for every field after the loop, when `L0` held for every field
    before it. (`L0 = fun _ _ => true`: nothing is assumed about the message the loop starts from.) -/
theorem rp_loop_genFields {p : Ev → Bool} (S : Schema) (o : GenOpts) (E : List Int)
    (child : Nat → Val → List Draw → R (Bool × Val))
    (fs : List FieldDesc) (L0 L : FieldDesc → Val → Bool)
    (hnone : ∀ f g, f.group? = some g → L f .none = true)
    (hnone0 : ∀ f g, f.group? = some g → L0 f .none = true)
    (hskip : ∀ f x, isMsgKind f = true → o.disallowNil = false → L0 f x = true → L f x = true)
    (hstep : ∀ f j slots ds, fs[j]? = some f → Post (genField S o E child fs f j slots ds)
      (fun slots' tr => InRP p tr → j < slots'.length → L0 f (slots.getD j .none) = true →
        L f (slots'.getD j .none) = true)) :
    ∀ (rem : List FieldDesc) (j : Nat) (slots : List Val) (ds : List Draw), fs.drop j = rem →
    Post (genFields S o E child fs j rem slots ds) (fun slots' tr => InRP p tr →
      (∀ k f, fs[k]? = some f → k < j → k < slots.length → L f (slots.getD k .none) = true) →
      (∀ k f, fs[k]? = some f → j ≤ k → k < slots.length → L0 f (slots.getD k .none) = true) →
      (∀ k f, fs[k]? = some f → k < slots'.length → L f (slots'.getD k .none) = true))
  | [], j, slots, ds, hdrop => by
    refine rp_post_ok (fun _ h _ k f hf hk => h k f hf ?_ hk)
    have : fs.length ≤ j := by simpa using hdrop
    have := lt_of_getElem?_some hf
    omega
  | f :: rem, j, slots, ds, hdrop => by
    have hf : fs[j]? = some f := by
      have := congrArg List.head? hdrop
      simpa [List.head?_drop] using this
    have hdrop' : fs.drop (j+1) = rem := by
      have := congrArg List.tail hdrop
      simpa [List.tail_drop] using this
    simp only [genFields]
    refine rp_post_bind (rp_post_draw _ ds) (fun g rest tr _ _ => ?_)
    split
    · rename_i hsk
      simp only [Bool.and_eq_true, Bool.not_eq_true'] at hsk
      refine rp_post_mono (rp_loop_genFields S o E child fs L0 L hnone hnone0 hskip hstep rem (j+1) slots rest hdrop')
        (fun slots' tr' h' hin hinv hinv0 => h' hin.right (fun k f' hf' hk hkl => ?_)
          (fun k f' hf' hk hkl => hinv0 k f' hf' (by omega) hkl))
      by_cases hkj : k = j
      · subst hkj
        rw [hf] at hf'; cases hf'
        exact hskip f _ hsk.1.2 hsk.2 (hinv0 k f hf (Nat.le_refl _) hkl)
      · exact hinv k f' hf' (by omega) hkl
    · refine rp_post_bind (rp_post_and (rp_frame_genField S o E child fs f j slots rest)
        (hstep f j slots rest hf)) (fun slots1 rest' tr1 _ h1 => ?_)
      obtain ⟨⟨hlen, hfr⟩, hnew⟩ := h1
      refine rp_post_mono (rp_loop_genFields S o E child fs L0 L hnone hnone0 hskip hstep rem (j+1) slots1 rest' hdrop')
        (fun slots' tr' h' hin hinv hinv0 => h' hin.right.right (fun k f' hf' hk hkl => ?_)
          (fun k f' hf' hk hkl => ?_))
      · by_cases hkj : k = j
        · subst hkj
          rw [hf] at hf'; cases hf'
          exact hnew hin.right.left hkl (hinv0 k f hf (Nat.le_refl _) (by omega))
        · rcases hfr k hkj hkl with h | ⟨f'', g', hf'', hg', h⟩
          · rw [h]; exact hinv k f' hf' (by omega) (by omega)
          · rw [hf'] at hf''; cases hf''
            rw [h]; exact hnone _ _ hg'
      · rcases hfr k (by omega) hkl with h | ⟨f'', g', hf'', hg', h⟩
        · rw [h]; exact hinv0 k f' hf' (by omega) (by omega)
        · rw [hf'] at hf''; cases hf''
          rw [h]; exact hnone0 _ _ hg'

theorem rp_zip_all_of_forall {P : FieldDesc × Val → Bool} {fs : List FieldDesc} {slots : List Val}
    (h : ∀ k f, fs[k]? = some f → k < slots.length → P (f, slots.getD k .none) = true) :
    (fs.zip slots).all P = true := by
  rw [List.all_eq_true]
  intro p hp
  obtain ⟨k, hk⟩ := List.mem_iff_getElem?.1 hp
  rw [List.getElem?_zip_eq_some] at hk
  have hkl : k < slots.length := lt_of_getElem?_some hk.2
  have := h k p.1 hk.1 hkl
  rw [List.getD_eq_getElem?_getD, hk.2] at this
  simpa using this

/-- the loop lemma at the level of `setFields`: a per-field predicate established by `genField` below the
    limit (from `L0`, which the fields of the message given to `setFields` satisfy) holds for every field of
    the message returned -/
theorem rp_local_setFields {p : Ev → Bool} (S : Schema) (o : GenOpts) (E : List Int)
    (L0 L : Nat → FieldDesc → Val → Bool)
    (hnone : ∀ d f g, f.group? = some g → L d f .none = true)
    (hnone0 : ∀ d f g, f.group? = some g → L0 d f .none = true)
    (hskip : ∀ d f x, isMsgKind f = true → o.disallowNil = false → L0 d f x = true → L d f x = true)
    (hstep : ∀ fuel depth fs f j slots ds, depth ≤ Extracted.depthLimit → fs[j]? = some f →
      Post (genField S o E (setFields S o E fuel (depth+1)) fs f j slots ds)
        (fun slots' tr => InRP p tr → j < slots'.length → L0 depth f (slots.getD j .none) = true →
          L depth f (slots'.getD j .none) = true))
    (fuel depth i : Nat) (v : Val) (ds : List Draw) :
    Post (setFields S o E fuel depth i v ds) (fun r tr => InRP p tr →
      depth ≤ Extracted.depthLimit →
      ((S.msg i).fields.zip v.slots).all (fun q => L0 depth q.1 q.2) = true →
      ((S.msg i).fields.zip r.2.slots).all (fun q => L depth q.1 q.2) = true) := by
  cases fuel with
  | zero =>
    simp only [setFields]
    split
    · exact rp_post_ok (fun _ h => by omega)
    · exact rp_post_stuck
  | succ fuel =>
    simp only [setFields]
    split
    · exact rp_post_ok (fun _ h => by omega)
    · rename_i hd
      refine rp_post_map (rp_post_mono (rp_loop_genFields S o E _ (S.msg i).fields (L0 depth) (L depth)
        (hnone depth) (hnone0 depth)
        (hskip depth) (fun f j slots ds hf => hstep fuel depth _ f j slots ds (by omega) hf)
        _ 0 v.slots ds (by simp)) (fun slots' tr h' hin _ h0 => ?_))
      simp only [Val.slots]
      exact rp_zip_all_of_forall (fun k f hf hk => h' hin (fun _ _ _ hlt _ => by omega)
        (fun k f hf _ hk => List.all_eq_true.1 h0 _ (rp_getD_mem_zip hf hk)) k f hf hk)

/-! ### `everywhere` is the generic predicate with a trivial scalar part -/

theorem rp_evElem_eq (child : Nat → Val → Bool) (e : Elem) (v : Val) :
    evElem child e v = spElem unkSp child e v := by
  cases e <;> rfl

theorem rp_evSlot_eq (child : Nat → Val → Bool) (f : FieldDesc) (v : Val) :
    evSlot child f v = spSlot unkSp child f v := by
  unfold evSlot spSlot
  cases f.shape with
  | singular => exact rp_evElem_eq _ _ _
  | repeated p =>
    show v.elems.all (evElem child f.elem) = v.elems.all (spElem unkSp child f.elem)
    have : evElem child f.elem = spElem unkSp child f.elem := by funext x; exact rp_evElem_eq _ _ _
    rw [this]
  | map kk =>
    show v.elems.all _ = v.elems.all (spEntry unkSp child kk f.elem)
    have : (fun en : Val => evElem child f.elem en.value) = spEntry unkSp child kk f.elem := by
      funext en; simp only [rp_evElem_eq, spEntry, unkSp, Bool.true_and]
    rw [this]
  | oneof g => cases v <;> simp only [rp_evElem_eq]

theorem rp_everywhere_eq (mp : Nat → Nat → Val → Bool) (S : Schema) : ∀ (n d i : Nat) (v : Val),
    everywhere mp S n d i v = spOK unkSp mp S n d i v
  | 0, _, _, _ => rfl
  | n+1, d, i, v => by
    have : everywhere mp S n (d+1) = spOK unkSp mp S n (d+1) := by
      funext i v; exact rp_everywhere_eq mp S n (d+1) i v
    simp only [everywhere, spOK, this, rp_evSlot_eq]

theorem rp_mpTrue_any_ok (S : Schema) (mp : Nat → Nat → Val → Bool) : MpOK S mpTrue mp :=
  ⟨fun _ _ _ _ => rfl, fun _ _ => rfl, fun _ _ => rfl⟩

/-! ### `NoEmptyLists` -/

theorem rp_count_ge_one {c : Draw} (h : InR [⟨.count 1, c⟩]) : 1 ≤ c.getInt.toNat := by
  have := rp_inR_single h
  simp [Gen.inRange] at this
  omega

theorem rp_getD_set_self {slots : List Val} {j : Nat} {x : Val} (h : j < (slots.set j x).length) :
    (slots.set j x).getD j Val.none = x :=
  getD_set_self Val.none slots j x (by simpa using h)

theorem rp_nel_step (S : Schema) (o : GenOpts) (E : List Int) (ho : o.noEmptyLists = true)
    (fuel depth : Nat) (fs : List FieldDesc) (f : FieldDesc) (j : Nat) (slots : List Val) (ds : List Draw)
    (_hd : depth ≤ Extracted.depthLimit) :
    Post (genField S o E (setFields S o E fuel (depth+1)) fs f j slots ds)
      (fun slots' tr => InR tr → j < slots'.length →
        nelField o.disallowNil depth f (slots'.getD j .none) = true) := by
  unfold genField
  cases hs : f.shape with
  | repeated p =>
    cases he : f.elem with
    | scalar k =>
      simp only [ho, if_true]
      refine rp_post_bind (rp_post_draw _ ds) (fun c rest tr _ hc => ?_)
      refine rp_post_map (rp_post_mono (rp_len_listScalars o E k _ _ rest) (fun es' tr' hl hin hj => ?_))
      rw [rp_getD_set_self hj]
      have := rp_count_ge_one (hc.1 ▸ hin.left)
      simp only [nelField, hs, he, Val.elems]
      exact decide_eq_true (by omega)
    | message mi =>
      simp only [ho, if_true]
      by_cases hneed : (o.disallowNil && decide (depth < Extracted.depthLimit)) = true
      · have hlt : depth < Extracted.depthLimit := by
          simp only [Bool.and_eq_true, decide_eq_true_eq] at hneed; exact hneed.2
        have hflag : ∀ mi v ds, Post (setFields S o E fuel (depth+1) mi v ds) (fun r _ => r.1 = true) :=
          fun mi v ds => rp_post_mono (rp_setFields_flag S o E fuel (depth+1) mi v ds)
            (fun r _ h => by rw [h.1]; simp; omega)
        refine rp_post_bind (rp_post_draw _ ds) (fun c rest tr _ hc => ?_)
        refine rp_post_map (rp_post_mono (rp_len_listMsgs S hflag mi _ 0 _ rest) (fun es' tr' hl hin hj => ?_))
        rw [rp_getD_set_self hj]
        have := rp_count_ge_one (hc.1 ▸ hin.left)
        simp only [nelField, hs, he, Val.elems, Bool.or_eq_true]
        exact Or.inr (decide_eq_true (by omega))
      · refine rp_post_mono (rp_post_any _) (fun _ _ _ _ _ => ?_)
        have : (o.disallowNil && decide (depth < Extracted.depthLimit)) = false := by simpa using hneed
        simp [nelField, hs, he, this]
  | singular =>
    refine rp_post_mono (rp_post_any _) (fun _ _ _ _ _ => ?_)
    cases he : f.elem <;> simp [nelField, hs, he]
  | oneof g =>
    refine rp_post_mono (rp_post_any _) (fun _ _ _ _ _ => ?_)
    cases he : f.elem <;> simp [nelField, hs, he]
  | map kk =>
    refine rp_post_mono (rp_post_any _) (fun _ _ _ _ _ => ?_)
    cases he : f.elem <;> simp [nelField, hs, he]

theorem rp_nelField_none (needMsg : Bool) (d : Nat) (f : FieldDesc) (g : Nat) (h : f.group? = some g) :
    nelField needMsg d f .none = true := by
  unfold FieldDesc.group? at h
  cases hs : f.shape <;> simp [hs] at h
  cases he : f.elem <;> simp [nelField, hs, he]

theorem rp_nelField_skip (d : Nat) (f : FieldDesc) (x : Val) (h : isMsgKind f = true) :
    nelField false d f x = true := by
  unfold isMsgKind at h
  cases hs : f.shape <;> cases he : f.elem <;> simp [hs, he] at h <;> simp [nelField, hs, he]

theorem rp_nel_MpStep (S : Schema) (o : GenOpts) (E : List Int) (ho : o.noEmptyLists = true) :
    MpStep Ev.inRange S o E mpTrue (nelLocal S o.disallowNil) := by
  intro fuel depth i v ds r rest tr h hin _
  by_cases hd : depth ≤ Extracted.depthLimit
  · have := rp_local_setFields S o E (fun _ _ _ => true) (nelField o.disallowNil)
      (fun d f g hg => rp_nelField_none _ d f g hg) (fun _ _ _ _ => rfl)
      (fun d f x hk hdn _ => by rw [hdn]; exact rp_nelField_skip d f x hk)
      (fun fuel depth fs f j slots ds hd _ =>
        rp_post_mono (rp_nel_step S o E ho fuel depth fs f j slots ds hd) (fun _ _ h hin hj _ => h hin hj))
      fuel depth i v ds r rest tr h hin hd (by simp)
    simp only [nelLocal, Bool.or_eq_true]
    exact Or.inr this
  · simp only [nelLocal, Bool.or_eq_true, decide_eq_true_eq]
    exact Or.inl (by omega)

/-- with `NoEmptyLists` and in-range draws, `setFields` turns a message whose sub-messages satisfy the
    guarantee everywhere into one that satisfies it everywhere, itself included -/
theorem rp_nel_setFields (S : Schema) (o : GenOpts) (E : List Int) (ho : o.noEmptyLists = true)
    (fuel N depth i : Nat) (v : Val) (ds : List Draw) :
    Post (setFields S o E fuel depth i v ds) (fun r tr => InR tr →
      spPre unkSp mpTrue (nelLocal S o.disallowNil) S N depth i v = true →
      everywhere (nelLocal S o.disallowNil) S N depth i r.2 = true) := by
  intro r rest tr h hin hv
  rw [rp_everywhere_eq]
  exact rp_sp_setFields (rp_unk_SpGen o E) rp_unk_SpZero S (rp_mpTrue_any_ok S _) (rp_nel_MpStep S o E ho)
    fuel N depth i v ds r rest tr h hin hv

/-! ### `DisallowNilMessages` -/

def nonilField (d : Nat) (f : FieldDesc) (x : Val) : Bool :=
  decide (d ≥ Extracted.depthLimit) || presentField f x

theorem rp_nonil_step (S : Schema) (o : GenOpts) (E : List Int)
    (fuel depth : Nat) (fs : List FieldDesc) (f : FieldDesc) (j : Nat) (slots : List Val) (ds : List Draw) :
    Post (genField S o E (setFields S o E fuel (depth+1)) fs f j slots ds)
      (fun slots' tr => InR tr → j < slots'.length → nonilField depth f (slots'.getD j .none) = true) := by
  by_cases hlt : depth < Extracted.depthLimit
  · unfold genField
    cases hs : f.shape with
    | singular =>
      cases he : f.elem with
      | scalar k =>
        refine rp_post_mono (rp_post_any _) (fun _ _ _ _ _ => ?_)
        simp [nonilField, presentField, hs, he]
      | message mi =>
        simp only []
        refine rp_post_map (rp_post_mono (rp_setFields_flag S o E fuel (depth+1) mi _ ds) (fun r tr hr _ hj => ?_))
        rw [rp_getD_set_self hj]
        have h1 : r.1 = true := by rw [hr.1]; simp; omega
        simp only [h1, if_true, nonilField, presentField, hs, he, Bool.or_eq_true, Bool.not_eq_true']
        exact Or.inr (hr.2 h1)
    | repeated p =>
      refine rp_post_mono (rp_post_any _) (fun _ _ _ _ _ => ?_)
      cases he : f.elem <;> simp [nonilField, presentField, hs, he]
    | oneof g =>
      refine rp_post_mono (rp_post_any _) (fun _ _ _ _ _ => ?_)
      cases he : f.elem <;> simp [nonilField, presentField, hs, he]
    | map kk =>
      refine rp_post_mono (rp_post_any _) (fun _ _ _ _ _ => ?_)
      cases he : f.elem <;> simp [nonilField, presentField, hs, he]
  · refine rp_post_mono (rp_post_any _) (fun _ _ _ _ _ => ?_)
    simp only [nonilField, Bool.or_eq_true, decide_eq_true_eq]
    exact Or.inl (by omega)

theorem rp_nonil_MpStep (S : Schema) (o : GenOpts) (E : List Int) (ho : o.disallowNil = true) :
    MpStep Ev.inRange S o E mpTrue (nonilLocal S) := by
  intro fuel depth i v ds r rest tr h hin _
  by_cases hd : depth < Extracted.depthLimit
  · have := rp_local_setFields S o E (fun _ _ _ => true) nonilField
      (fun d f g hg => by
        unfold FieldDesc.group? at hg
        cases hs : f.shape <;> simp [hs] at hg
        cases he : f.elem <;> simp [nonilField, presentField, hs, he]) (fun _ _ _ _ => rfl)
      (fun d f x _ hdn _ => by rw [ho] at hdn; cases hdn)
      (fun fuel depth fs f j slots ds _ _ =>
        rp_post_mono (rp_nonil_step S o E fuel depth fs f j slots ds) (fun _ _ h hin hj _ => h hin hj))
      fuel depth i v ds r rest tr h hin (by omega) (by simp)
    simp only [nonilLocal, Bool.or_eq_true]
    refine Or.inr ?_
    rw [List.all_eq_true] at this ⊢
    intro p hp
    have := this p hp
    simp only [nonilField, Bool.or_eq_true, decide_eq_true_eq] at this
    rcases this with h | h
    · omega
    · exact h
  · simp only [nonilLocal, Bool.or_eq_true, decide_eq_true_eq]
    exact Or.inl (by omega)

theorem rp_nonil_setFields (S : Schema) (o : GenOpts) (E : List Int) (ho : o.disallowNil = true)
    (fuel N depth i : Nat) (v : Val) (ds : List Draw) :
    Post (setFields S o E fuel depth i v ds) (fun r tr => InR tr →
      spPre unkSp mpTrue (nonilLocal S) S N depth i v = true →
      everywhere (nonilLocal S) S N depth i r.2 = true) := by
  intro r rest tr h hin hv
  rw [rp_everywhere_eq]
  exact rp_sp_setFields (rp_unk_SpGen o E) rp_unk_SpZero S (rp_mpTrue_any_ok S _) (rp_nonil_MpStep S o E ho)
    fuel N depth i v ds r rest tr h hin hv

end Pulsar.Rapidproto
