/-
  Helper lemmas for C15 (runtime varint helpers vs. protowire).
-/
import Pulsar.Runtime
namespace Pulsar

/-! ## bitLen / sov / soz -/

theorem bitLen_zero : bitLen 0 = 0 := by rw [bitLen]; simp

theorem bitLen_pos {n : Nat} (h : n ≠ 0) : bitLen n = bitLen (n / 2) + 1 := by
  rw [bitLen]; simp [h]

theorem bitLen_le_of_lt_two_pow : ∀ (k n : Nat), n < 2 ^ k → bitLen n ≤ k := by
  intro k
  induction k with
  | zero => intro n h; have : n = 0 := by simpa using h
            subst this; rw [bitLen_zero]; exact Nat.le_refl 0
  | succ k ih =>
    intro n h
    by_cases hn : n = 0
    · subst hn; rw [bitLen_zero]; omega
    · rw [bitLen_pos hn]
      have : n / 2 < 2 ^ k := by rw [Nat.pow_succ] at h; omega
      have := ih _ this
      omega

theorem bitLen_ge_128 {n : Nat} (h : 128 ≤ n) : bitLen n = bitLen (n / 128) + 7 := by
  rw [bitLen_pos (n := n) (by omega), bitLen_pos (n := n / 2) (by omega),
    bitLen_pos (n := n / 2 / 2) (by omega), bitLen_pos (n := n / 2 / 2 / 2) (by omega),
    bitLen_pos (n := n / 2 / 2 / 2 / 2) (by omega),
    bitLen_pos (n := n / 2 / 2 / 2 / 2 / 2) (by omega),
    bitLen_pos (n := n / 2 / 2 / 2 / 2 / 2 / 2) (by omega)]
  have : n / 2 / 2 / 2 / 2 / 2 / 2 / 2 = n / 128 := by omega
  rw [this]

theorem or_one_ne_zero (x : Nat) : x ||| 1 ≠ 0 := by
  intro h
  have := Nat.or_eq_zero_iff.mp h
  omega

theorem or_one_div_two (x : Nat) : (x ||| 1) / 2 = x / 2 := by
  rw [Nat.or_div_two]; simp

theorem bitLen_or_one_of_ne_zero {x : Nat} (h : x ≠ 0) : bitLen (x ||| 1) = bitLen x := by
  rw [bitLen_pos (or_one_ne_zero x), or_one_div_two, bitLen_pos h]

theorem sov_lt_128 {x : Nat} (h : x < 128) : sov x = 1 := by
  unfold sov
  have h1 : x ||| 1 < 2 ^ 7 := Nat.or_lt_two_pow (by omega) (by omega)
  have h2 := bitLen_le_of_lt_two_pow 7 _ h1
  have h3 := bitLen_pos (or_one_ne_zero x)
  omega

theorem sov_ge_128 {x : Nat} (h : 128 ≤ x) : sov x = sov (x / 128) + 1 := by
  unfold sov
  rw [bitLen_or_one_of_ne_zero (x := x) (by omega),
    bitLen_or_one_of_ne_zero (x := x / 128) (by omega), bitLen_ge_128 h]
  omega

theorem sov_pos (x : Nat) : 0 < sov x := by
  by_cases h : x < 128
  · rw [sov_lt_128 h]; omega
  · rw [sov_ge_128 (by omega)]; omega

theorem varint_lt_128 {x : Nat} (h : x < 128) : varint x = [x.toUInt8] := by
  rw [varint]; simp [h]

theorem varint_ge_128 {x : Nat} (h : 128 ≤ x) :
    varint x = (x % 128 + 128).toUInt8 :: varint (x / 128) := by
  rw [varint]; simp [Nat.not_lt.mpr h]

theorem sov_eq_varint_length (x : Nat) : sov x = (varint x).length := by
  induction x using Nat.strongRecOn with
  | _ x ih =>
    by_cases h : x < 128
    · rw [sov_lt_128 h, varint_lt_128 h]; rfl
    · have h' : 128 ≤ x := by omega
      rw [sov_ge_128 h', varint_ge_128 h', ih (x / 128) (by omega)]; rfl

theorem sov_300 : sov 300 = 2 := by
  rw [sov_eq_varint_length, varint_ge_128 (by omega), varint_lt_128 (by omega)]; rfl

theorem xor_two_pow_sub_one {y n : Nat} (h : y < 2 ^ n) : y ^^^ (2 ^ n - 1) = 2 ^ n - (y + 1) := by
  apply Nat.eq_of_testBit_eq
  intro i
  rw [Nat.testBit_xor, Nat.testBit_two_pow_sub_one, Nat.testBit_two_pow_sub_succ h]
  by_cases hi : i < n
  · simp [hi]
  · have : y < 2 ^ i := Nat.lt_of_lt_of_le h (Nat.pow_le_pow_right (by omega) (by omega))
    simp [hi, Nat.testBit_lt_two_pow this]

theorem soz_arg_eq_zigzag64 (x : Nat) (hx : x < 18446744073709551616) :
    ((x * 2) % 18446744073709551616) ^^^
      (if x < 9223372036854775808 then 0 else 18446744073709551615) = zigzag64 x := by
  unfold zigzag64
  by_cases h : x < 9223372036854775808
  · simp only [h, if_true, Nat.xor_zero]; omega
  · simp only [h, if_false]
    have hy : (x * 2) % 18446744073709551616 < 2 ^ 64 := by omega
    have := xor_two_pow_sub_one hy
    simp only [show (2:Nat) ^ 64 = 18446744073709551616 from by decide,
      show 18446744073709551616 - 1 = 18446744073709551615 from by decide] at this
    rw [this]; omega

theorem soz_eq_varint_length (x : Nat) (hx : x < 18446744073709551616) :
    soz x = (varint (zigzag64 x)).length := by
  unfold soz
  rw [soz_arg_eq_zigzag64 x hx, sov_eq_varint_length]

/-! ## encodeVarint -/

theorem setAt_neg (d : Bytes) (i : Int) (b : UInt8) (h : i < 0) : setAt d i b = .panic := by
  simp [setAt, h]

theorem setAt_nat (d : Bytes) (p : Nat) (b : UInt8) :
    setAt d (p : Int) b = if p < d.length then .ok (d.set p b) else .panic := by
  have : ¬ ((p : Int) < 0) := by omega
  simp [setAt, this]

theorem encodeVarintLoop_neg (d : Bytes) (i : Int) (v : Nat) (h : i < 0) :
    encodeVarintLoop d i v = .panic := by
  rw [encodeVarintLoop]
  split
  · exact setAt_neg _ _ _ h
  · rw [setAt_neg _ _ _ h]

theorem set_eq_take_cons_drop (d : Bytes) (p : Nat) (b : UInt8) (h : p < d.length) :
    d.set p b = d.take p ++ [b] ++ d.drop (p + 1) := by
  rw [List.set_eq_take_append_cons_drop]; simp [h]

theorem encodeVarintLoop_nat (v : Nat) : ∀ (d : Bytes) (p : Nat),
    encodeVarintLoop d (p : Int) v =
      if p + sov v ≤ d.length then .ok (d.take p ++ varint v ++ d.drop (p + sov v)) else .panic := by
  induction v using Nat.strongRecOn with
  | _ v ih =>
    intro d p
    by_cases h : v < 128
    · rw [encodeVarintLoop, dif_pos h, setAt_nat, sov_lt_128 h, varint_lt_128 h]
      by_cases hp : p < d.length
      · rw [if_pos hp, if_pos (by omega), set_eq_take_cons_drop d p _ hp]
      · rw [if_neg hp, if_neg (by omega)]
    · have h' : 128 ≤ v := by omega
      rw [encodeVarintLoop, dif_neg h, setAt_nat, sov_ge_128 h', varint_ge_128 h']
      by_cases hp : p < d.length
      · rw [if_pos hp]
        simp only []
        have hc : ((p : Int) + 1) = ((p + 1 : Nat) : Int) := by omega
        rw [hc, ih (v / 128) (by omega), List.length_set]
        by_cases hq : p + 1 + sov (v / 128) ≤ d.length
        · rw [if_pos hq, if_pos (by omega)]
          have e1 : List.take (p + 1) (d.set p (v % 128 + 128).toUInt8)
              = d.take p ++ [(v % 128 + 128).toUInt8] := by
            rw [List.take_succ_eq_append_getElem (by rw [List.length_set]; exact hp),
              List.take_set_of_le (Nat.le_refl p), List.getElem_set_self]
          have e2 : List.drop (p + 1 + sov (v / 128)) (d.set p (v % 128 + 128).toUInt8)
              = d.drop (p + 1 + sov (v / 128)) := List.drop_set_of_lt (by omega)
          rw [e1, e2]
          have e3 : p + (sov (v / 128) + 1) = p + 1 + sov (v / 128) := by omega
          rw [e3]; simp
        · rw [if_neg hq, if_neg (by omega)]
      · rw [if_neg hp, if_neg (by have := sov_pos (v / 128); omega)]

theorem encodeVarint_spec (d : Bytes) (off v : Nat) :
    encodeVarint d off v =
      if sov v ≤ off ∧ off ≤ d.length
      then .ok (d.take (off - sov v) ++ varint v ++ d.drop off, ((off - sov v : Nat) : Int))
      else .panic := by
  unfold encodeVarint
  by_cases hs : sov v ≤ off
  · have hb : ((off : Int) - (sov v : Int)) = ((off - sov v : Nat) : Int) := by omega
    simp only [hb]
    rw [encodeVarintLoop_nat]
    have e : off - sov v + sov v = off := by omega
    rw [e]
    by_cases hl : off ≤ d.length
    · simp [hs, hl]
    · simp [hl]
  · have hb : ((off : Int) - (sov v : Int)) < 0 := by omega
    simp only []
    rw [encodeVarintLoop_neg _ _ _ hb]
    simp [hs]

/-! ## skip: one-iteration normal form -/

/-- The `switch wireType` of `runtime.Skip`, after the tag has been read. -/
def skipAfter (rest1 : Bytes) (consumed1 wt depth : Nat) : Res (Bytes × Nat × Nat) :=
  if wt = 0 then
    match skipReadVarint 0 0 rest1 with
    | .ok (_, m, r) => .ok (r, consumed1 + m, depth)
    | .err e => .err e
    | .panic => .panic
  else if wt = 1 then .ok (rest1.drop 8, consumed1 + 8, depth)
  else if wt = 2 then
    match skipReadVarint 0 0 rest1 with
    | .ok (len, m, r) =>
      if len ≥ 9223372036854775808 then .err .invalidLength
      else .ok (r.drop len, consumed1 + m + len, depth)
    | .err e => .err e
    | .panic => .panic
  else if wt = 3 then .ok (rest1, consumed1, depth + 1)
  else if wt = 4 then
    if depth = 0 then .err .endGroup else .ok (rest1, consumed1, depth - 1)
  else if wt = 5 then .ok (rest1.drop 4, consumed1 + 4, depth)
  else .err .illegalWire

theorem skipLoop_succ (fuel : Nat) (rest : Bytes) (c depth : Nat) :
    skipLoop (fuel + 1) rest c depth =
      if rest = [] then .err .eof else
      match skipReadVarint 0 0 rest with
      | .err e => .err e
      | .panic => .panic
      | .ok (wire, n, rest1) =>
        match skipAfter rest1 (c + n) (wire % 8) depth with
        | .err e => .err e
        | .panic => .panic
        | .ok (rest2, c2, d2) =>
          if c2 ≥ 9223372036854775808 then .err .invalidLength
          else if d2 = 0 then .ok c2
          else skipLoop fuel rest2 c2 d2 := by
  rfl

/-! ## skipReadVarint -/

theorem skipReadVarint_ne_panic (bs : Bytes) : ∀ k acc, skipReadVarint k acc bs ≠ .panic := by
  induction bs with
  | nil => intro k acc; simp [skipReadVarint]
  | cons b tl ih =>
    intro k acc
    rw [skipReadVarint]
    split
    · simp
    · simp only []
      split
      · simp
      · split
        · simp
        · exact ih _ _

theorem skipReadVarint_count (bs : Bytes) : ∀ k acc v n rest,
    skipReadVarint k acc bs = .ok (v, n, rest) → n + rest.length = k + bs.length ∧ k < n := by
  induction bs with
  | nil => intro k acc v n rest h; simp [skipReadVarint] at h
  | cons b tl ih =>
    intro k acc v n rest h
    rw [skipReadVarint] at h
    split at h
    · simp at h
    · simp only [] at h
      split at h
      · simp only [Res.ok.injEq, Prod.mk.injEq] at h
        obtain ⟨_, rfl, rfl⟩ := h
        simp only [List.length_cons]; omega
      · split at h
        · simp at h
        · have := ih _ _ _ _ _ h
          simp only [List.length_cons]; omega

theorem varint_acc_bound {k acc x : Nat} (hacc : acc < 2 ^ (7 * k)) (hx : x < 128) :
    acc + x * 2 ^ (7 * k) < 2 ^ (7 * (k + 1)) := by
  have e : 2 ^ (7 * (k + 1)) = 128 * 2 ^ (7 * k) := by
    rw [Nat.mul_add, Nat.pow_add]; simp [Nat.mul_comm]
  have : x * 2 ^ (7 * k) ≤ 127 * 2 ^ (7 * k) := Nat.mul_le_mul_right _ (by omega)
  rw [e]; omega

theorem consumeVarintAux_skip (bs : Bytes) : ∀ k shift acc v rest,
    shift = 7 * k → k ≤ 9 → acc < 2 ^ (7 * k) →
    consumeVarintAux k shift acc bs = .ok (v, rest) →
    ∃ n, skipReadVarint k acc bs = .ok (v, n, rest) := by
  induction bs with
  | nil => intro k shift acc v rest _ _ _ h; simp [consumeVarintAux] at h
  | cons b tl ih =>
    intro k shift acc v rest hs hk hacc h
    subst hs
    have hb : b.toNat < 256 := UInt8.toNat_lt b
    rw [consumeVarintAux] at h
    rw [skipReadVarint]
    have hk10 : ¬ (k ≥ 10) := by omega
    simp only [hk10, if_false]
    split at h
    · -- tenth byte
      rename_i hk9
      subst hk9
      split at h
      · rename_i hb2
        simp only [Res.ok.injEq, Prod.mk.injEq] at h
        obtain ⟨rfl, rfl⟩ := h
        have hb128 : b.toNat < 128 := by omega
        simp only [hb128, if_true]
        have hm : b.toNat % 128 = b.toNat := by omega
        rw [hm]
        have : acc + b.toNat * 2 ^ (7 * 9) < 18446744073709551616 := by
          simp only [Nat.reduceMul, Nat.reducePow] at hacc ⊢; omega
        rw [Nat.mod_eq_of_lt this]
        exact ⟨_, rfl⟩
      · simp at h
    · rename_i hk9
      have hk8 : k + 1 ≤ 9 := by omega
      have hP : 2 ^ (7 * (k + 1)) ≤ 18446744073709551616 := by
        have : 2 ^ (7 * (k + 1)) ≤ 2 ^ 64 := Nat.pow_le_pow_right (by omega) (by omega)
        simpa using this
      have hbound := varint_acc_bound (k := k) (acc := acc) (x := b.toNat % 128) hacc (by omega)
      have hmod : (acc + b.toNat % 128 * 2 ^ (7 * k)) % 18446744073709551616
          = acc + b.toNat % 128 * 2 ^ (7 * k) := Nat.mod_eq_of_lt (by omega)
      rw [hmod]
      split at h
      · rename_i hb128
        simp only [Res.ok.injEq, Prod.mk.injEq] at h
        obtain ⟨rfl, rfl⟩ := h
        simp only [hb128, if_true]
        have hm : b.toNat % 128 = b.toNat := by omega
        rw [hm]
        exact ⟨_, rfl⟩
      · rename_i hb128
        have hk' : ¬ (k + 1 ≥ 10) := by omega
        simp only [hb128, hk', if_false]
        have hm : b.toNat - 128 = b.toNat % 128 := by omega
        rw [hm] at h
        exact ih (k + 1) (7 * k + 7) _ v rest (by omega) hk8 hbound h

theorem consumeVarint_skip {bs : Bytes} {v : Nat} {rest : Bytes}
    (h : consumeVarint bs = .ok (v, rest)) :
    ∃ n, skipReadVarint 0 0 bs = .ok (v, n, rest) ∧ n + rest.length = bs.length ∧ 0 < n := by
  obtain ⟨n, hn⟩ := consumeVarintAux_skip bs 0 0 0 v rest (by omega) (by omega) (by simp) h
  have := skipReadVarint_count bs 0 0 v n rest hn
  exact ⟨n, hn, by omega, by omega⟩

theorem consumeTag_skip {bs : Bytes} {num typ : Nat} {rest1 : Bytes}
    (h : consumeTag bs = .ok (num, typ, rest1)) :
    ∃ wire n, skipReadVarint 0 0 bs = .ok (wire, n, rest1) ∧ wire % 8 = typ ∧
      n + rest1.length = bs.length ∧ 0 < n := by
  unfold consumeTag at h
  split at h
  · rename_i v rest hv
    simp only [] at h
    split at h
    · simp at h
    · split at h
      · simp at h
      · simp only [Res.ok.injEq, Prod.mk.injEq] at h
        obtain ⟨_, rfl, rfl⟩ := h
        obtain ⟨n, hn, hl, hp⟩ := consumeVarint_skip hv
        exact ⟨v, n, hn, rfl, hl, hp⟩
  · simp at h
  · simp at h

/-! ## skipAfter / skipLoop basic facts -/

theorem skipAfter_ne_panic (r : Bytes) (c wt d : Nat) : skipAfter r c wt d ≠ .panic := by
  unfold skipAfter
  have := skipReadVarint_ne_panic r 0 0
  repeat' split
  all_goals first | (rename_i heq; exact absurd heq this) | simp

theorem skipAfter_ok {r : Bytes} {c wt d : Nat} {r2 : Bytes} {c2 d2 : Nat}
    (h : skipAfter r c wt d = .ok (r2, c2, d2)) : c ≤ c2 ∧ r2.length ≤ r.length := by
  unfold skipAfter at h
  split at h
  · split at h
    · rename_i hv
      have := skipReadVarint_count _ _ _ _ _ _ hv
      simp only [Res.ok.injEq, Prod.mk.injEq] at h
      obtain ⟨rfl, rfl, rfl⟩ := h
      omega
    · simp at h
    · simp at h
  split at h
  · simp only [Res.ok.injEq, Prod.mk.injEq] at h
    obtain ⟨rfl, rfl, rfl⟩ := h
    simp only [List.length_drop]; omega
  split at h
  · split at h
    · rename_i hv
      have := skipReadVarint_count _ _ _ _ _ _ hv
      split at h
      · simp at h
      · simp only [Res.ok.injEq, Prod.mk.injEq] at h
        obtain ⟨rfl, rfl, rfl⟩ := h
        simp only [List.length_drop]; omega
    · simp at h
    · simp at h
  split at h
  · simp only [Res.ok.injEq, Prod.mk.injEq] at h
    obtain ⟨rfl, rfl, rfl⟩ := h
    omega
  split at h
  · split at h
    · simp at h
    · simp only [Res.ok.injEq, Prod.mk.injEq] at h
      obtain ⟨rfl, rfl, rfl⟩ := h
      omega
  split at h
  · simp only [Res.ok.injEq, Prod.mk.injEq] at h
    obtain ⟨rfl, rfl, rfl⟩ := h
    simp only [List.length_drop]; omega
  · simp at h

theorem skipLoop_ne_panic (fuel : Nat) : ∀ rest c k, skipLoop fuel rest c k ≠ .panic := by
  induction fuel with
  | zero => intro rest c k; simp [skipLoop]
  | succ f ih =>
    intro rest c k
    rw [skipLoop_succ]
    split
    · simp
    · split
      · simp
      · rename_i heq; exact absurd heq (skipReadVarint_ne_panic _ _ _)
      · split
        · simp
        · rename_i heq; exact absurd heq (skipAfter_ne_panic _ _ _ _)
        · split
          · simp
          · split
            · simp
            · exact ih _ _ _

theorem skipLoop_progress (fuel : Nat) : ∀ rest c k n, skipLoop fuel rest c k = .ok n → c < n := by
  induction fuel with
  | zero => intro rest c k n h; simp [skipLoop] at h
  | succ f ih =>
    intro rest c k n h
    rw [skipLoop_succ] at h
    split at h
    · simp at h
    · split at h
      · simp at h
      · simp at h
      · rename_i wire m rest1 hv
        have hcnt := skipReadVarint_count _ _ _ _ _ _ hv
        split at h
        · simp at h
        · simp at h
        · rename_i r2 c2 d2 ha
          have hok := skipAfter_ok ha
          split at h
          · simp at h
          · split at h
            · simp only [Res.ok.injEq] at h; omega
            · have := ih _ _ _ _ h; omega

/-- Once the fuel covers the remaining input, its exact value is irrelevant. -/
theorem skipLoop_fuel (F1 : Nat) : ∀ (F2 : Nat) (rest : Bytes) (c k : Nat),
    rest.length ≤ F1 → rest.length ≤ F2 → skipLoop F1 rest c k = skipLoop F2 rest c k := by
  induction F1 with
  | zero =>
    intro F2 rest c k h1 _
    have : rest = [] := List.eq_nil_of_length_eq_zero (by omega)
    subst this
    cases F2 with
    | zero => rfl
    | succ F2 => rw [skipLoop_succ]; simp [skipLoop]
  | succ F1 ih =>
    intro F2 rest c k h1 h2
    cases F2 with
    | zero =>
      have : rest = [] := List.eq_nil_of_length_eq_zero (by omega)
      subst this
      rw [skipLoop_succ]; simp [skipLoop]
    | succ F2 =>
      rw [skipLoop_succ, skipLoop_succ]
      split
      · rfl
      · split
        · rfl
        · rfl
        · rename_i wire m rest1 hv
          have hcnt := skipReadVarint_count _ _ _ _ _ _ hv
          split
          · rfl
          · rfl
          · rename_i r2 c2 d2 ha
            have hok := skipAfter_ok ha
            split
            · rfl
            · split
              · rfl
              · exact ih _ _ _ _ (by omega) (by omega)

/-- `skipLoop` with the canonical fuel (the remaining input length). -/
def skipL (rest : Bytes) (c k : Nat) : Res Nat := skipLoop rest.length rest c k

theorem skip_eq_skipL (bs : Bytes) : skip bs = skipL bs 0 0 := rfl

/-- One iteration of the loop, in terms of `skipL`, with the byte accounting done. -/
theorem skipL_step {bs : Bytes} {wire n : Nat} {rest1 : Bytes} {c k : Nat} {r2 : Bytes} {c2 d2 : Nat}
    (h1 : skipReadVarint 0 0 bs = .ok (wire, n, rest1))
    (h2 : skipAfter rest1 (c + n) (wire % 8) k = .ok (r2, c2, d2))
    (hc : c2 < 9223372036854775808) :
    skipL bs c k = if d2 = 0 then .ok c2 else skipL r2 c2 d2 := by
  have hcnt := skipReadVarint_count _ _ _ _ _ _ h1
  have hok := skipAfter_ok h2
  have hne : bs ≠ [] := by
    intro e; subst e; simp [skipReadVarint] at h1
  obtain ⟨F, hF⟩ : ∃ F, bs.length = F + 1 := ⟨bs.length - 1, by omega⟩
  unfold skipL
  rw [hF, skipLoop_succ]
  have hc' : ¬ (c2 ≥ 9223372036854775808) := by omega
  simp only [hne, if_false, h1, h2, hc']
  split
  · rfl
  · exact skipLoop_fuel _ _ _ _ _ (by omega) (Nat.le_refl _)

/-! ## protowire record structure vs. the flat depth counter of `Skip` -/

theorem skipAfter_varint {r : Bytes} {v m : Nat} {r' : Bytes} (c k : Nat)
    (h : skipReadVarint 0 0 r = .ok (v, m, r')) : skipAfter r c 0 k = .ok (r', c + m, k) := by
  simp [skipAfter, h]

theorem skipAfter_bytes {r : Bytes} {v m : Nat} {r' : Bytes} (c k : Nat)
    (h : skipReadVarint 0 0 r = .ok (v, m, r')) (hv : v < 9223372036854775808) :
    skipAfter r c 2 k = .ok (r'.drop v, c + m + v, k) := by
  have : ¬ (v ≥ 9223372036854775808) := by omega
  simp [skipAfter, h, this]

/-- Main invariant: a protowire value (resp. group body) accepted by `consumeValue`
    (resp. `consumeGroup`) is walked by `Skip`'s loop, at any current depth `k`, ending exactly at the
    same remaining input, with `iNdEx` advanced by the number of bytes protowire consumed. -/
theorem skip_consume (f : Nat) :
    (∀ d num typ (bs rest1 rest2 : Bytes) c, consumeTag bs = .ok (num, typ, rest1) →
      consumeValue f d num typ rest1 = .ok rest2 → c + bs.length < 9223372036854775808 →
      rest2.length < bs.length ∧ ∀ k, skipL bs c k =
        if k = 0 then .ok (c + (bs.length - rest2.length))
        else skipL rest2 (c + (bs.length - rest2.length)) k) ∧
    (∀ d num (bs rest : Bytes) c, consumeGroup f d num bs = .ok rest →
      c + bs.length < 9223372036854775808 →
      rest.length < bs.length ∧ ∀ k, skipL bs c (k + 1) =
        if k = 0 then .ok (c + (bs.length - rest.length))
        else skipL rest (c + (bs.length - rest.length)) k) := by
  induction f with
  | zero =>
    refine ⟨?_, ?_⟩
    · intro d num typ bs rest1 rest2 c _ hv; simp [consumeValue] at hv
    · intro d num bs rest c hg; simp [consumeGroup] at hg
  | succ f ih =>
    obtain ⟨ihV, ihG⟩ := ih
    refine ⟨?_, ?_⟩
    · intro d num typ bs rest1 rest2 c ht hv hc
      obtain ⟨wire, n, h1, hw, hlen, hn⟩ := consumeTag_skip ht
      rw [consumeValue] at hv
      split at hv
      · -- wire type 0: varint
        rename_i ht0
        split at hv
        · rename_i v r hcv
          simp only [Res.ok.injEq] at hv; subst hv
          obtain ⟨m, hm, hml, hmp⟩ := consumeVarint_skip hcv
          refine ⟨by omega, fun k => ?_⟩
          have h2 : skipAfter rest1 (c + n) (wire % 8) k = .ok (r, c + n + m, k) := by
            rw [hw, ht0]; exact skipAfter_varint _ _ hm
          have hstep := skipL_step h1 h2 (by omega)
          have e : c + n + m = c + (bs.length - r.length) := by omega
          rw [e] at hstep; exact hstep
        · simp at hv
        · simp at hv
      split at hv
      · -- wire type 5: fixed32
        rename_i ht5
        split at hv
        · simp at hv
        · rename_i hl4
          simp only [Res.ok.injEq] at hv; subst hv
          have hdl : (rest1.drop 4).length = rest1.length - 4 := List.length_drop
          refine ⟨by omega, fun k => ?_⟩
          have h2 : skipAfter rest1 (c + n) (wire % 8) k = .ok (rest1.drop 4, c + n + 4, k) := by
            rw [hw, ht5]; simp [skipAfter]
          have hstep := skipL_step h1 h2 (by omega)
          have e : c + n + 4 = c + (bs.length - (rest1.drop 4).length) := by omega
          rw [e] at hstep; exact hstep
      split at hv
      · -- wire type 1: fixed64
        rename_i ht1
        split at hv
        · simp at hv
        · rename_i hl8
          simp only [Res.ok.injEq] at hv; subst hv
          have hdl : (rest1.drop 8).length = rest1.length - 8 := List.length_drop
          refine ⟨by omega, fun k => ?_⟩
          have h2 : skipAfter rest1 (c + n) (wire % 8) k = .ok (rest1.drop 8, c + n + 8, k) := by
            rw [hw, ht1]; simp [skipAfter]
          have hstep := skipL_step h1 h2 (by omega)
          have e : c + n + 8 = c + (bs.length - (rest1.drop 8).length) := by omega
          rw [e] at hstep; exact hstep
      split at hv
      · -- wire type 2: length-delimited
        rename_i ht2
        split at hv
        · rename_i v r hcv
          split at hv
          · simp at hv
          · rename_i hvl
            simp only [Res.ok.injEq] at hv; subst hv
            obtain ⟨m, hm, hml, hmp⟩ := consumeVarint_skip hcv
            have hdl : (r.drop v).length = r.length - v := List.length_drop
            refine ⟨by omega, fun k => ?_⟩
            have h2 : skipAfter rest1 (c + n) (wire % 8) k = .ok (r.drop v, c + n + m + v, k) := by
              rw [hw, ht2]; exact skipAfter_bytes _ _ hm (by omega)
            have hstep := skipL_step h1 h2 (by omega)
            have e : c + n + m + v = c + (bs.length - (r.drop v).length) := by omega
            rw [e] at hstep; exact hstep
        · simp at hv
        · simp at hv
      split at hv
      · -- wire type 3: start group
        rename_i ht3
        split at hv
        · simp at hv
        · obtain ⟨hlt, hG⟩ := ihG _ _ _ _ (c + n) hv (by omega)
          refine ⟨by omega, fun k => ?_⟩
          have h2 : skipAfter rest1 (c + n) (wire % 8) k = .ok (rest1, c + n, k + 1) := by
            rw [hw, ht3]; simp [skipAfter]
          have hstep := skipL_step h1 h2 (by omega)
          rw [hstep, if_neg (by omega), hG k]
          have e : c + n + (rest1.length - rest2.length) = c + (bs.length - rest2.length) := by
            omega
          rw [e]
      split at hv
      · simp at hv
      · simp at hv
    · intro d num bs rest c hg hc
      rw [consumeGroup] at hg
      split at hg
      · rename_i num2 typ2 rest1 ht
        obtain ⟨wire, n, h1, hw, hlen, hn⟩ := consumeTag_skip ht
        split at hg
        · -- end group
          rename_i ht4
          split at hg
          · simp only [Res.ok.injEq] at hg; subst hg
            refine ⟨by omega, fun k => ?_⟩
            have h2 : skipAfter rest1 (c + n) (wire % 8) (k + 1) = .ok (rest1, c + n, k) := by
              rw [hw, ht4]; simp [skipAfter]
            have hstep := skipL_step h1 h2 (by omega)
            have e : c + n = c + (bs.length - rest1.length) := by omega
            rw [e] at hstep; exact hstep
          · simp at hg
        · split at hg
          · rename_i rest2 hval
            obtain ⟨hlt2, hV⟩ := ihV _ _ _ _ _ _ c ht hval hc
            obtain ⟨hlt, hG⟩ := ihG _ _ _ _ (c + (bs.length - rest2.length)) hg (by omega)
            refine ⟨by omega, fun k => ?_⟩
            rw [hV (k + 1), if_neg (by omega), hG k]
            have e : c + (bs.length - rest2.length) + (rest2.length - rest.length)
                = c + (bs.length - rest.length) := by omega
            rw [e]
          · simp at hg
          · simp at hg
      · simp at hg
      · simp at hg

theorem skip_len_of_consumeField (bs : Bytes) (n : Nat) (hl : bs.length < 9223372036854775808)
    (h : consumeField bs = .ok n) : skip bs = .ok n := by
  unfold consumeField at h
  split at h
  · rename_i num typ rest ht
    split at h
    · rename_i rest2 hv
      simp only [Res.ok.injEq] at h; subst h
      obtain ⟨_, hV⟩ := (skip_consume _).1 _ _ _ _ _ _ 0 ht hv (by omega)
      rw [skip_eq_skipL, hV 0]; simp
    · simp at h
    · simp at h
  · simp at h
  · simp at h

theorem skip_ne_panic (bs : Bytes) : skip bs ≠ .panic := skipLoop_ne_panic _ _ _ _

theorem skip_progress (bs : Bytes) (n : Nat) (h : skip bs = .ok n) : 0 < n := by
  have := skipLoop_progress _ _ _ _ _ h; omega

end Pulsar
