import Pulsar.Runtime
namespace Pulsar
end Pulsar
