/-
  Pulsar.Proofs.Gen — lemmas about the generator decision logic (`Pulsar.Gen`): feature selection,
  per-file decision, reserved-name rewrite, flattened message order, message index, descriptor path.
-/
import Pulsar.Gen
import Pulsar.Proofs.EncodeSort
namespace Pulsar.Gen
open Pulsar

/-! ### generic list facts -/

theorem nodup_map_of_inj_on {α β : Type} {f : α → β} {l : List α}
    (h : ∀ a ∈ l, ∀ b ∈ l, f a = f b → a = b) (hn : l.Nodup) : (l.map f).Nodup := by
  rw [List.Nodup, List.pairwise_map]
  exact List.Pairwise.imp_of_mem (fun ha hb hne heq => hne (h _ ha _ hb heq)) hn

theorem nodup_of_nodup_map {α β : Type} (f : α → β) {l : List α} (h : (l.map f).Nodup) : l.Nodup := by
  rw [List.Nodup, List.pairwise_map] at h
  exact h.imp (fun hne heq => hne (by rw [heq]))

/-- equal entries of a duplicate-free list sit at the same index -/
theorem nodup_getElem?_inj {α : Type} {l : List α} (hn : l.Nodup) {i j : Nat} {a : α}
    (hi : l[i]? = some a) (hj : l[j]? = some a) : i = j := by
  obtain ⟨hi', hia⟩ := List.getElem?_eq_some_iff.1 hi
  obtain ⟨hj', hja⟩ := List.getElem?_eq_some_iff.1 hj
  exact (List.getElem_inj (h₀ := hi') (h₁ := hj') hn).1 (hia.trans hja.symm)

theorem sublist_pair_idxOf {α : Type} [BEq α] [LawfulBEq α] {a b : α} (hab : a ≠ b) :
    ∀ {l : List α}, [a, b].Sublist l → l.Nodup → l.idxOf a < l.idxOf b := by
  intro l
  induction l with
  | nil => intro h; cases h
  | cons x xs ih =>
    intro hs hn
    rw [List.nodup_cons] at hn
    rcases List.sublist_cons_iff.1 hs with h | ⟨r, hr, hsub⟩
    · have ha : a ∈ xs := h.subset (by simp)
      have hb : b ∈ xs := h.subset (by simp)
      have hxa : x ≠ a := fun e => hn.1 (e ▸ ha)
      have hxb : x ≠ b := fun e => hn.1 (e ▸ hb)
      have := ih h hn.2
      have ea : (x == a) = false := beq_eq_false_iff_ne.2 hxa
      have eb : (x == b) = false := beq_eq_false_iff_ne.2 hxb
      simp only [List.idxOf_cons, ea, eb, cond_false]
      omega
    · injection hr with hax _
      subst hax
      have eb : (a == b) = false := beq_eq_false_iff_ne.2 hab
      simp [List.idxOf_cons, eb]

/-! ### feature selection -/

def nameLt (a b : String × Bool) : Bool := decide (a.1 < b.1)

theorem insertByName_eq (x : String × Bool) (l : List (String × Bool)) : insertByName x l = ins nameLt x l := by
  induction l with
  | nil => rfl
  | cons y ys ih => simp [insertByName, ins, ih, nameLt]

theorem sortByName_eq (l : List (String × Bool)) : sortByName l = isort nameLt l := by
  induction l with
  | nil => rfl
  | cons y ys ih => simp [sortByName, isort, ih, insertByName_eq]

theorem nameLt_trans (a b c : String × Bool) : nameLt a b = true → nameLt b c = true → nameLt a c = true := by
  simp only [nameLt, decide_eq_true_eq]
  exact String.lt_trans

theorem nameLt_asymm (a b : String × Bool) : nameLt a b = true → nameLt b a = true → False := by
  simp only [nameLt, decide_eq_true_eq]
  exact fun h => String.lt_asymm h

theorem nameLt_total (a b : String × Bool) (h : a.1 ≠ b.1) : nameLt a b = true ∨ nameLt b a = true := by
  simp only [nameLt, decide_eq_true_eq]
  by_cases hab : a.1 < b.1
  · exact Or.inl hab
  · by_cases hba : b.1 < a.1
    · exact Or.inr hba
    · exact absurd (String.le_antisymm (String.not_lt.1 hba) (String.not_lt.1 hab)) h

def keys (m : List (String × Bool)) : List String := m.map (·.1)

theorem sortByName_perm (l : List (String × Bool)) : (sortByName l).Perm l := by
  rw [sortByName_eq]; exact isort_perm nameLt l

theorem sortByName_sorted (l : List (String × Bool)) (hk : (keys l).Nodup) :
    (sortByName l).Pairwise (fun a b => a.1 < b.1) := by
  rw [sortByName_eq]
  have htot : l.Pairwise (fun a b => nameLt a b = true ∨ nameLt b a = true) := by
    rw [keys, List.Nodup, List.pairwise_map] at hk
    exact hk.imp (fun h => nameLt_total _ _ h)
  exact (isort_pairwise nameLt nameLt_trans l htot).imp (fun h => by simpa [nameLt] using h)

/-- the sorted list of a duplicate-free key set does not depend on the order it is presented in -/
theorem sortByName_perm_eq {l₁ l₂ : List (String × Bool)} (hp : l₁.Perm l₂) (hk : (keys l₂).Nodup) :
    sortByName l₁ = sortByName l₂ := by
  have hk₁ : (keys l₁).Nodup := by
    unfold keys at *
    exact ((hp.map _).nodup_iff).2 hk
  have s₁ := sortByName_sorted l₁ hk₁
  have s₂ := sortByName_sorted l₂ hk
  have pp : (sortByName l₁).Perm (sortByName l₂) :=
    ((sortByName_perm l₁).trans hp).trans (sortByName_perm l₂).symm
  refine sorted_perm_unique nameLt nameLt_asymm pp ?_ ?_
  · exact s₁.imp (fun h => by simpa [nameLt] using h)
  · exact s₂.imp (fun h => by simpa [nameLt] using h)

theorem keys_mapSet_nodup (m : List (String × Bool)) (k : String) (v : Bool) (h : (keys m).Nodup) :
    (keys (mapSet m k v)).Nodup := by
  simp only [keys, mapSet, List.map_cons]
  rw [List.nodup_cons]
  constructor
  · simp
  · exact List.Nodup.sublist (List.filter_sublist.map _) h

theorem collect_keys_nodup (reg : List (String × Bool)) (hreg : (keys reg).Nodup) :
    ∀ (names : List String) (all : Bool) (acc r : List (String × Bool)), (keys acc).Nodup →
      collect reg names all acc = .ok r → (keys r).Nodup := by
  intro names
  induction names with
  | nil =>
    intro all acc r ha h
    simp only [collect, Except.ok.injEq] at h
    subst h
    cases all
    · exact ha
    · exact hreg
  | cons n ns ih =>
    intro all acc r ha h
    simp only [collect] at h
    split at h
    · exact ih _ _ _ ha h
    · split at h
      · cases h
      · exact ih _ _ _ (keys_mapSet_nodup _ _ _ ha) h

theorem findFeatures_order_independent (reg : List (String × Bool)) (names : List String)
    (o₁ o₂ : List (String × Bool) → List (String × Bool))
    (h₁ : ∀ l, (o₁ l).Perm l) (h₂ : ∀ l, (o₂ l).Perm l) (hreg : (keys reg).Nodup) :
    findFeatures reg names o₁ = findFeatures reg names o₂ := by
  unfold findFeatures
  cases hc : collect reg names false [] with
  | error e => rfl
  | ok r =>
    have hk := collect_keys_nodup reg hreg names false [] r (by simp [keys]) hc
    simp only
    rw [sortByName_perm_eq (h₁ r) hk, sortByName_perm_eq (h₂ r) hk]

/-- an unregistered name other than "all" is an error wherever it stands (also behind an "all") -/
theorem collect_unknown (reg : List (String × Bool)) (n : String) (post : List String)
    (hn : n ≠ "all") (hl : reg.lookup n = none) :
    ∀ (pre : List String) (all : Bool) (acc : List (String × Bool)),
      ∃ e, collect reg (pre ++ n :: post) all acc = .error e := by
  intro pre
  induction pre with
  | nil => intro all acc; exact ⟨n, by simp [collect, hn, hl]⟩
  | cons p ps ih =>
    intro all acc
    simp only [List.cons_append, collect]
    split
    · exact ih _ _
    · cases reg.lookup p with
      | none => exact ⟨p, rfl⟩
      | some g => exact ih _ _

theorem collect_known (reg : List (String × Bool)) :
    ∀ (names : List String) (all : Bool) (acc : List (String × Bool)),
      (∀ n ∈ names, n = "all" ∨ (reg.lookup n).isSome = true) →
        ∃ r, collect reg names all acc = .ok r := by
  intro names
  induction names with
  | nil => intro all acc _; exact ⟨_, rfl⟩
  | cons n ns ih =>
    intro all acc h
    have hns : ∀ m ∈ ns, m = "all" ∨ (reg.lookup m).isSome = true :=
      fun m hm => h m (List.mem_cons_of_mem _ hm)
    simp only [collect]
    split
    · exact ih _ _ hns
    · rename_i hne
      rcases h n (by simp) with h1 | h1
      · exact absurd h1 hne
      · cases hl : reg.lookup n with
        | none => rw [hl] at h1; cases h1
        | some g => exact ih _ _ hns

/-- once the flag is set (or "all" is among the names still to come) and every name is known, the
    answer is every registered feature -/
theorem collect_all (reg : List (String × Bool)) :
    ∀ (names : List String) (all : Bool) (acc : List (String × Bool)),
      (∀ n ∈ names, n = "all" ∨ (reg.lookup n).isSome = true) → (all = true ∨ "all" ∈ names) →
        collect reg names all acc = .ok reg := by
  intro names
  induction names with
  | nil =>
    intro all acc _ ha
    rcases ha with ha | ha
    · simp [collect, ha]
    · cases ha
  | cons n ns ih =>
    intro all acc h ha
    have hns : ∀ m ∈ ns, m = "all" ∨ (reg.lookup m).isSome = true :=
      fun m hm => h m (List.mem_cons_of_mem _ hm)
    simp only [collect]
    split
    · exact ih _ _ hns (Or.inl rfl)
    · rename_i hne
      have ha' : all = true ∨ "all" ∈ ns := by
        rcases ha with ha | ha
        · exact Or.inl ha
        · rcases List.mem_cons.1 ha with e | e
          · exact absurd e.symm hne
          · exact Or.inr e
      rcases h n (by simp) with h1 | h1
      · exact absurd h1 hne
      · cases hl : reg.lookup n with
        | none => rw [hl] at h1; cases h1
        | some g => exact ih _ _ hns ha'

/-- without "all", exactly the requested names are selected -/
theorem collect_keys_mem (reg : List (String × Bool)) :
    ∀ (names : List String) (acc r : List (String × Bool)), "all" ∉ names →
      collect reg names false acc = .ok r → ∀ k, k ∈ keys r ↔ (k ∈ names ∨ k ∈ keys acc) := by
  intro names
  induction names with
  | nil => intro acc r _ h k; simp [collect] at h; simp [h]
  | cons n ns ih =>
    intro acc r hall h k
    have hn : n ≠ "all" := fun e => hall (by simp [e])
    have hns : "all" ∉ ns := fun e => hall (by simp [e])
    simp only [collect, hn, if_false] at h
    cases hl : reg.lookup n with
    | none => rw [hl] at h; cases h
    | some g =>
      rw [hl] at h
      rw [ih _ _ hns h k]
      simp only [keys, mapSet, List.map_cons, List.mem_cons, List.mem_map, List.mem_filter, bne_iff_ne]
      constructor
      · rintro (h1 | h1 | ⟨e, ⟨he, _⟩, hek⟩)
        · exact Or.inl (Or.inr h1)
        · exact Or.inl (Or.inl h1)
        · exact Or.inr ⟨e, he, hek⟩
      · rintro ((h1 | h1) | ⟨e, he, hek⟩)
        · exact Or.inr (Or.inl h1)
        · exact Or.inl h1
        · by_cases hkn : k = n
          · exact Or.inr (Or.inl hkn)
          · exact Or.inr (Or.inr ⟨e, ⟨he, by rw [hek]; exact hkn⟩, hek⟩)

/-! ### per-file decision -/

theorem featureLoop_generated (path : String) :
    ∀ (fs : List (String × Bool)) (i : Nat) (seen : List (String × Nat)),
      (featureLoop path i fs seen).1 = fs.any (·.2) := by
  intro fs
  induction fs with
  | nil => intro i seen; rfl
  | cons f fs ih =>
    intro i seen
    obtain ⟨n, g⟩ := f
    cases g with
    | true => simp [featureLoop]
    | false => simp [featureLoop, ih]

theorem generateFile_emitted (feats : List (String × Bool)) (seen : List (String × Nat)) (lp : List String)
    (f : FileIn) : (generateFile feats seen lp f).1.emitted = (f.requested && f.proto3 && emits feats) := by
  unfold generateFile
  cases f.requested <;> cases f.proto3 <;> simp [emits, featureLoop_generated]

theorem generateFile_ran (feats : List (String × Bool)) (seen : List (String × Nat)) (lp : List String)
    (f : FileIn) : (generateFile feats seen lp f).1.ran =
      if f.requested && f.proto3 then featureNames feats else [] := by
  unfold generateFile
  cases f.requested <;> cases f.proto3 <;> simp

theorem generateAll_get (feats : List (String × Bool)) (lp : List String) (f : FileIn) (post : List FileIn) :
    ∀ (pre : List FileIn) (seen : List (String × Nat)),
      ∃ s, (generateAll feats lp seen (pre ++ f :: post))[pre.length]? = some (generateFile feats s lp f).1 := by
  intro pre
  induction pre with
  | nil => intro seen; exact ⟨seen, by simp [generateAll]⟩
  | cons p ps ih =>
    intro seen
    obtain ⟨s, hs⟩ := ih (generateFile feats seen lp p).2
    exact ⟨s, by simpa [generateAll] using hs⟩

theorem generateAll_mem (feats : List (String × Bool)) (lp : List String) :
    ∀ (files : List FileIn) (seen : List (String × Nat)) (o : FileOut), o ∈ generateAll feats lp seen files →
      ∃ f ∈ files, ∃ s, o = (generateFile feats s lp f).1 := by
  intro files
  induction files with
  | nil => intro seen o h; simp [generateAll] at h
  | cons f fs ih =>
    intro seen o h
    simp only [generateAll, List.mem_cons] at h
    rcases h with h | h
    · exact ⟨f, by simp, seen, h⟩
    · obtain ⟨g, hg, s, hs⟩ := ih _ _ h
      exact ⟨g, List.mem_cons_of_mem _ hg, s, hs⟩

/-! ### reserved names -/

/-- no reserved name is another reserved name plus "_" (re-checked whenever the extracted table changes) -/
theorem reserved_suffix_free :
    Extracted.reservedFieldNames.all (fun a => Extracted.reservedFieldNames.all (fun b => a ++ "_" != b)) = true := by
  decide

theorem rewriteName_not_reserved (n : String) : rewriteName n ∉ Extracted.reservedFieldNames := by
  unfold rewriteName
  split
  · rename_i h
    have hn : n ∈ Extracted.reservedFieldNames := List.contains_iff_mem.1 h
    intro hm
    have := List.all_eq_true.1 (List.all_eq_true.1 reserved_suffix_free n hn) _ hm
    simp at this
  · rename_i h
    intro hm
    exact h (List.contains_iff_mem.2 hm)

theorem rewriteName_of_not_mem (m : String) (h : m ∉ Extracted.reservedFieldNames) : rewriteName m = m := by
  unfold rewriteName
  split
  · rename_i hc; exact absurd (List.contains_iff_mem.1 hc) h
  · rfl

theorem rewriteName_idem (n : String) : rewriteName (rewriteName n) = rewriteName n :=
  rewriteName_of_not_mem _ (rewriteName_not_reserved n)

/-! ### the map scan -/

theorem scan_foldl_some {α : Type} (p : α → Bool) (v : Nat) :
    ∀ (l : List (α × Nat)) (acc : Option Nat), (∀ e ∈ l, p e.1 = true → e.2 = v) →
      (acc = some v ∨ ∃ e ∈ l, p e.1 = true) →
      l.foldl (fun acc e => if p e.1 then some e.2 else acc) acc = some v := by
  intro l
  induction l with
  | nil =>
    intro acc _ h
    rcases h with h | ⟨e, he, _⟩
    · exact h
    · cases he
  | cons x xs ih =>
    intro acc hall h
    simp only [List.foldl_cons]
    apply ih _ (fun e he => hall e (List.mem_cons_of_mem _ he))
    by_cases hx : p x.1 = true
    · left; simp [hx, hall x (by simp) hx]
    · rcases h with h | ⟨e, he, hpe⟩
      · left; simp [hx, h]
      · rcases List.mem_cons.1 he with rfl | he
        · exact absurd hpe hx
        · right; exact ⟨e, he, hpe⟩

theorem scan_foldl_none {α : Type} (p : α → Bool) :
    ∀ (l : List (α × Nat)) (acc : Option Nat), (∀ e ∈ l, p e.1 = false) →
      l.foldl (fun acc e => if p e.1 then some e.2 else acc) acc = acc := by
  intro l
  induction l with
  | nil => intro acc _; rfl
  | cons x xs ih =>
    intro acc h
    simp only [List.foldl_cons, h x (by simp)]
    exact ih _ (fun e he => h e (List.mem_cons_of_mem _ he))

theorem scan_foldl_isSome {α : Type} (p : α → Bool) :
    ∀ (l : List (α × Nat)) (acc : Option Nat), (acc.isSome = true ∨ ∃ e ∈ l, p e.1 = true) →
      (l.foldl (fun acc e => if p e.1 then some e.2 else acc) acc).isSome = true := by
  intro l
  induction l with
  | nil =>
    intro acc h
    rcases h with h | ⟨e, he, _⟩
    · exact h
    · cases he
  | cons x xs ih =>
    intro acc h
    simp only [List.foldl_cons]
    apply ih
    by_cases hx : p x.1 = true
    · left; simp [hx]
    · rcases h with h | ⟨e, he, hpe⟩
      · left; simpa [hx] using h
      · rcases List.mem_cons.1 he with rfl | he
        · exact absurd hpe hx
        · right; exact ⟨e, he, hpe⟩

theorem scanLast_eq_some {α : Type} (p : α → Bool) (l : List (α × Nat)) (v : Nat)
    (hall : ∀ e ∈ l, p e.1 = true → e.2 = v) (hex : ∃ e ∈ l, p e.1 = true) : scanLast p l = some v :=
  scan_foldl_some p v l none hall (Or.inr hex)

theorem scanLast_eq_none {α : Type} (p : α → Bool) (l : List (α × Nat))
    (hall : ∀ e ∈ l, p e.1 = false) : scanLast p l = none :=
  scan_foldl_none p l none hall

/-- when all matching entries carry the same index, the iteration order is irrelevant -/
theorem scanLast_perm {α : Type} (p : α → Bool) {l₁ l₂ : List (α × Nat)} (hp : l₁.Perm l₂)
    (huniq : ∀ e ∈ l₁, ∀ e' ∈ l₁, p e.1 = true → p e'.1 = true → e.2 = e'.2) :
    scanLast p l₁ = scanLast p l₂ := by
  by_cases h : ∃ e ∈ l₁, p e.1 = true
  · obtain ⟨e, he, hpe⟩ := h
    rw [scanLast_eq_some p l₁ e.2 (fun e' he' hp' => huniq e' he' e he hp' hpe) ⟨e, he, hpe⟩]
    rw [scanLast_eq_some p l₂ e.2
      (fun e' he' hp' => huniq e' (hp.mem_iff.2 he') e he hp' hpe) ⟨e, hp.mem_iff.1 he, hpe⟩]
  · have hn : ∀ e ∈ l₁, p e.1 = false := by
      intro e he
      cases hpe : p e.1 with
      | false => rfl
      | true => exact absurd ⟨e, he, hpe⟩ h
    rw [scanLast_eq_none p l₁ hn, scanLast_eq_none p l₂ (fun e he => hn e (hp.mem_iff.2 he))]

/-! ### flattened order -/

theorem walkTree_node (n : String) (cs : List MsgTree) :
    walkTree (.node n cs) = (List.range cs.length).map ([·]) ++ walkList 0 cs := by
  simp [walkTree]

theorem walkList_nil (i : Nat) : walkList i [] = [] := by simp [walkList]

theorem walkList_cons (i : Nat) (m : MsgTree) (ms : List MsgTree) :
    walkList i (m :: ms) = (walkTree m).map (i :: ·) ++ walkList (i + 1) ms := by
  simp [walkList]

theorem allPositions_eq (tops : List MsgTree) : allPositions tops = walkTree (.node "" tops) := by
  rw [walkTree_node]; rfl

theorem mem_walkList {r : Pos} : ∀ {ms : List MsgTree} {i : Nat},
    r ∈ walkList i ms ↔ ∃ j m rest, ms[j]? = some m ∧ rest ∈ walkTree m ∧ r = (i + j) :: rest := by
  intro ms
  induction ms with
  | nil => intro i; simp [walkList_nil]
  | cons m ms ih =>
    intro i
    rw [walkList_cons, List.mem_append, ih]
    constructor
    · rintro (h | ⟨j, m', rest, hj, hr, he⟩)
      · obtain ⟨rest, hr, he⟩ := List.mem_map.1 h
        exact ⟨0, m, rest, by simp, hr, by simp [← he]⟩
      · exact ⟨j + 1, m', rest, by simpa using hj, hr, by rw [he]; congr 1; omega⟩
    · rintro ⟨j, m', rest, hj, hr, he⟩
      cases j with
      | zero =>
        simp at hj
        subst hj
        exact Or.inl (List.mem_map.2 ⟨rest, hr, by simp [he]⟩)
      | succ j =>
        exact Or.inr ⟨j, m', rest, by simpa using hj, hr, by rw [he]; congr 1; omega⟩

theorem nodeAt_nil (ms : List MsgTree) : nodeAt ms [] = none := by
  cases ms <;> rfl

theorem nodeAt_single (ms : List MsgTree) (i : Nat) : nodeAt ms [i] = ms[i]? := by
  simp [nodeAt]

theorem nodeAt_cons_cons (ms : List MsgTree) (i j : Nat) (rest : Pos) :
    nodeAt ms (i :: j :: rest) = match ms[i]? with
      | some (.node _ cs) => nodeAt cs (j :: rest)
      | none => none := by
  rfl

/-- a valid position starts at an existing message; the remainder is valid below it -/
theorem nodeAt_cons_isSome {ms : List MsgTree} {i : Nat} {rest : Pos} :
    (nodeAt ms (i :: rest)).isSome = true ↔
      ∃ m, ms[i]? = some m ∧ (rest = [] ∨ (nodeAt m.children rest).isSome = true) := by
  cases rest with
  | nil =>
    rw [nodeAt_single]
    constructor
    · intro h
      cases hm : ms[i]? with
      | none => rw [hm] at h; cases h
      | some m => exact ⟨m, rfl, Or.inl rfl⟩
    · rintro ⟨m, hm, _⟩; rw [hm]; rfl
  | cons j rest =>
    rw [nodeAt_cons_cons]
    constructor
    · intro h
      cases hm : ms[i]? with
      | none => rw [hm] at h; cases h
      | some m =>
        rw [hm] at h
        cases m with
        | node n cs => exact ⟨.node n cs, rfl, Or.inr h⟩
    · rintro ⟨m, hm, h⟩
      rw [hm]
      cases m with
      | node n cs =>
        rcases h with h | h
        · cases h
        · exact h

theorem mem_walkTree : ∀ {r : Pos} {t : MsgTree},
    r ∈ walkTree t ↔ (nodeAt t.children r).isSome = true := by
  intro r
  induction r with
  | nil =>
    intro t
    cases t with
    | node n cs =>
      rw [walkTree_node, nodeAt_nil]
      simp [mem_walkList]
  | cons k rest ih =>
    intro t
    cases t with
    | node n cs =>
      rw [walkTree_node, List.mem_append, mem_walkList, nodeAt_cons_isSome]
      simp only [MsgTree.children]
      constructor
      · rintro (h | ⟨j, m, rest', hj, hr, he⟩)
        · obtain ⟨a, ha, he⟩ := List.mem_map.1 h
          injection he with h1 h2
          subst h1
          have hlt : a < cs.length := List.mem_range.1 ha
          exact ⟨cs[a], by simp [hlt], Or.inl h2.symm⟩
        · injection he with h1 h2
          have hk : k = j := by omega
          subst hk; subst h2
          exact ⟨m, hj, Or.inr (ih.1 hr)⟩
      · rintro ⟨m, hm, h | h⟩
        · subst h
          left
          have hlt : k < cs.length := by
            obtain ⟨hlt, _⟩ := List.getElem?_eq_some_iff.1 hm
            exact hlt
          exact List.mem_map.2 ⟨k, List.mem_range.2 hlt, rfl⟩
        · right
          exact ⟨k, m, rest, hm, ih.2 h, by simp⟩

/-- the flattened list holds exactly the messages of the file -/
theorem mem_allPositions {tops : List MsgTree} {p : Pos} :
    p ∈ allPositions tops ↔ (nodeAt tops p).isSome = true := by
  rw [allPositions_eq, mem_walkTree]; rfl

theorem ne_nil_of_mem_walkTree {r : Pos} {t : MsgTree} (h : r ∈ walkTree t) : r ≠ [] := by
  intro e
  subst e
  rw [mem_walkTree, nodeAt_nil] at h
  cases h

theorem cons_inj_map {i : Nat} {l : List Pos} (h : l.Nodup) : (l.map (i :: ·)).Nodup :=
  nodup_map_of_inj_on (fun a _ b _ e => by injection e) h

mutual
theorem nodup_walkTree : ∀ (t : MsgTree), (walkTree t).Nodup
  | .node n cs => by
    rw [walkTree_node, List.nodup_append]
    refine ⟨?_, nodup_walkList 0 cs, ?_⟩
    · exact nodup_map_of_inj_on (fun a _ b _ e => by injection e) List.nodup_range
    · intro a ha b hb
      obtain ⟨k, _, hk⟩ := List.mem_map.1 ha
      obtain ⟨j, m, rest, _, hr, he⟩ := mem_walkList.1 hb
      intro hab
      rw [← hk, he] at hab
      injection hab with _ h2
      exact ne_nil_of_mem_walkTree hr h2.symm
theorem nodup_walkList : ∀ (i : Nat) (ms : List MsgTree), (walkList i ms).Nodup
  | i, [] => by simp [walkList_nil]
  | i, m :: ms => by
    rw [walkList_cons, List.nodup_append]
    refine ⟨cons_inj_map (nodup_walkTree m), nodup_walkList (i + 1) ms, ?_⟩
    intro a ha b hb
    obtain ⟨r, _, hk⟩ := List.mem_map.1 ha
    obtain ⟨j, m', rest, _, _, he⟩ := mem_walkList.1 hb
    intro hab
    rw [← hk, he] at hab
    injection hab with h1 _
    omega
end

theorem nodup_allPositions (tops : List MsgTree) : (allPositions tops).Nodup := by
  rw [allPositions_eq]; exact nodup_walkTree _

theorem sub_walkList {m : MsgTree} : ∀ {ms : List MsgTree} {i j : Nat}, ms[j]? = some m →
    ((walkTree m).map ((i + j) :: ·)).Sublist (walkList i ms) := by
  intro ms
  induction ms with
  | nil => intro i j h; simp at h
  | cons x xs ih =>
    intro i j h
    rw [walkList_cons]
    cases j with
    | zero =>
      simp at h
      subst h
      exact List.sublist_append_left _ _
    | succ j =>
      have h' : xs[j]? = some m := by simpa using h
      have := ih (i := i + 1) (j := j) h'
      have e : i + 1 + j = i + (j + 1) := by omega
      rw [e] at this
      exact this.trans (List.sublist_append_right _ _)

/-- inside the flattened order a message precedes each of its children -/
theorem before_walkTree (i : Nat) : ∀ (p : Pos) (t : MsgTree), p ≠ [] → (p ++ [i]) ∈ walkTree t →
    [p, p ++ [i]].Sublist (walkTree t) := by
  intro p
  induction p with
  | nil => intro t h; exact absurd rfl h
  | cons k p' ih =>
    intro t _ hmem
    cases t with
    | node n cs =>
      rw [walkTree_node] at hmem ⊢
      have hW : (k :: (p' ++ [i])) ∈ walkList 0 cs := by
        rcases List.mem_append.1 hmem with h | h
        · obtain ⟨a, _, he⟩ := List.mem_map.1 h
          injection he with _ h2
          cases p' <;> simp at h2
        · exact h
      obtain ⟨j, m, rest, hj, hr, he⟩ := mem_walkList.1 hW
      injection he with h1 h2
      have hk : k = j := by omega
      subst hk; subst h2
      have hsubW := sub_walkList (i := 0) hj
      rw [Nat.zero_add] at hsubW
      by_cases hp' : p' = []
      · subst hp'
        have hlt : k < cs.length := (List.getElem?_eq_some_iff.1 hj).1
        have h1 : [[k]].Sublist ((List.range cs.length).map ([·])) :=
          List.singleton_sublist.2 (List.mem_map.2 ⟨k, List.mem_range.2 hlt, rfl⟩)
        have h2 : [[k] ++ [i]].Sublist (walkList 0 cs) := List.singleton_sublist.2 hW
        exact h1.append h2
      · have := (ih m hp' hr).map (k :: ·)
        exact (this.trans hsubW).trans (List.sublist_append_right _ _)

/-! ### message index -/

theorem byPtr_mem {tops : List MsgTree} {e : Pos × Nat} :
    e ∈ byPtr tops ↔ (allPositions tops)[e.2]? = some e.1 := List.mem_zipIdx_iff_getElem?

theorem idxOf_getElem? {α : Type} [BEq α] [LawfulBEq α] {l : List α} {a : α} (h : a ∈ l) :
    l[l.idxOf a]? = some a := by
  have hlt : l.idxOf a < l.length := List.idxOf_lt_length_iff.2 h
  rw [List.getElem?_eq_some_iff]
  exact ⟨hlt, List.getElem_idxOf hlt⟩

/-- entries of the by-pointer map whose messages have the same full name carry the same index -/
theorem byPtr_unique {tops : List MsgTree} (hu : (allMessages tops).Nodup) {e e' : Pos × Nat}
    (he : e ∈ byPtr tops) (he' : e' ∈ byPtr tops) (hn : fullName tops e.1 = fullName tops e'.1) :
    e.2 = e'.2 := by
  have h1 : (allMessages tops)[e.2]? = some (fullName tops e.1) := by
    simp [allMessages, List.getElem?_map, byPtr_mem.1 he]
  have h2 : (allMessages tops)[e'.2]? = some (fullName tops e.1) := by
    simp [allMessages, List.getElem?_map, byPtr_mem.1 he', hn]
  exact nodup_getElem?_inj hu h1 h2

theorem msgIndex_eq (o : List (Pos × Nat) → List (Pos × Nat)) (hperm : ∀ l, (o l).Perm l)
    (tops : List MsgTree) (pos : Pos) (hu : (allMessages tops).Nodup) (hmem : pos ∈ allPositions tops) :
    msgIndex o tops pos = some ((allPositions tops).idxOf pos) := by
  have hself : (pos, (allPositions tops).idxOf pos) ∈ byPtr tops := byPtr_mem.2 (idxOf_getElem? hmem)
  apply scanLast_eq_some
  · intro e he hp
    have he' : e ∈ byPtr tops := (hperm _).mem_iff.1 he
    exact byPtr_unique hu he' hself (by simpa using hp)
  · exact ⟨_, (hperm _).mem_iff.2 hself, by simp⟩

/-! ### descriptor path -/

theorem findIdx_of_distinct : ∀ {ms : List MsgTree} {i : Nat} {m : MsgTree},
    (ms.map MsgTree.name).Nodup → ms[i]? = some m →
      ms.findIdx? (fun x => x.name == m.name) = some i := by
  intro ms
  induction ms with
  | nil => intro i m _ h; simp at h
  | cons x xs ih =>
    intro i m hn h
    rw [List.map_cons, List.nodup_cons] at hn
    rw [List.findIdx?_cons]
    cases i with
    | zero =>
      simp at h
      subst h
      simp
    | succ i =>
      have h' : xs[i]? = some m := by simpa using h
      have hmem : m.name ∈ xs.map MsgTree.name :=
        List.mem_map.2 ⟨m, (List.mem_iff_getElem?.2 ⟨i, h'⟩), rfl⟩
      have hne : (x.name == m.name) = false := beq_eq_false_iff_ne.2 (fun e => hn.1 (e ▸ hmem))
      simp [hne, ih hn.2 h']

theorem uniqAll_get : ∀ {ms : List MsgTree} {i : Nat} {n : String} {cs : List MsgTree},
    uniqAll ms = true → ms[i]? = some (.node n cs) → namesDistinct cs = true ∧ uniqAll cs = true := by
  intro ms
  induction ms with
  | nil => intro i n cs _ h; simp at h
  | cons x xs ih =>
    intro i n cs hu h
    simp only [uniqAll, Bool.and_eq_true] at hu
    cases i with
    | zero =>
      simp at h
      subst h
      simpa [uniqTree] using hu.1
    | succ i => exact ih hu.2 (by simpa using h)

theorem resolve_findParents : ∀ (p : Pos) (ms : List MsgTree),
    namesDistinct ms = true → uniqAll ms = true → (nodeAt ms p).isSome = true →
      resolve ms (findParents ms p) = some p := by
  intro p
  induction p with
  | nil => intro ms _ _ h; rw [nodeAt_nil] at h; cases h
  | cons i rest ih =>
    intro ms hd hu hv
    obtain ⟨m, hm, hrest⟩ := nodeAt_cons_isSome.1 hv
    cases m with
    | node n cs =>
      have hidx : ms.findIdx? (fun x => x.name == n) = some i :=
        findIdx_of_distinct (by simpa [namesDistinct] using hd) hm
      simp only [findParents, hm, resolve, hidx]
      obtain ⟨hd', hu'⟩ := uniqAll_get hu hm
      rcases hrest with h | h
      · subst h
        simp [findParents, resolve]
      · simp only [MsgTree.children] at h
        rw [ih cs hd' hu' h]
        rfl

end Pulsar.Gen
