/-
  Lemmas on the type / dependency tables (Pulsar.GenTables).
-/
import Pulsar.GenTables
namespace Pulsar.Gen

/-- every dependency recorded so far points at the row of its type -/
def TypeTab.Good (t : TypeTab) (names : List String) : Prop :=
  t.goTypes.Nodup ∧ t.deps.length = names.length ∧
    ∀ k (h : k < names.length), t.goTypes[t.deps.getD k 0]? = some names[k]

theorem TypeTab.decl_goTypes_prefix (t : TypeTab) (name : String) :
    ∃ ext, (t.decl name).goTypes = t.goTypes ++ ext ∧ (t.decl name).deps = t.deps ∧ name ∈ (t.decl name).goTypes := by
  unfold TypeTab.decl
  split
  · rename_i h; exact ⟨[], by simp, rfl, h⟩
  · exact ⟨[name], rfl, rfl, by simp⟩

theorem TypeTab.decl_nodup (t : TypeTab) (name : String) (h : t.goTypes.Nodup) : (t.decl name).goTypes.Nodup := by
  unfold TypeTab.decl
  split
  · exact h
  · rename_i hn
    simp only
    rw [List.nodup_append]
    refine ⟨h, by simp, ?_⟩
    intro a ha b hb
    simp only [List.mem_singleton] at hb
    subst hb
    intro hab; subst hab; exact hn ha

theorem getElem?_prefix {α} (l ext : List α) (i : Nat) (x : α) (h : l[i]? = some x) : (l ++ ext)[i]? = some x := by
  have hi : i < l.length := by
    cases Nat.lt_or_ge i l.length with
    | inl h' => exact h'
    | inr h' => rw [List.getElem?_eq_none h'] at h; simp at h
  rw [List.getElem?_append_left hi]; exact h

theorem TypeTab.dep_good (t : TypeTab) (names : List String) (name : String) (h : t.Good names) :
    (t.dep name).Good (names ++ [name]) := by
  obtain ⟨hnd, hlen, hk⟩ := h
  obtain ⟨ext, hg, hd, hmem⟩ := t.decl_goTypes_prefix name
  have hnd' := t.decl_nodup name hnd
  unfold TypeTab.dep
  simp only
  refine ⟨hnd', by simp [hd, hlen], ?_⟩
  intro k hkl
  simp only [List.length_append, List.length_singleton] at hkl
  by_cases hlast : k = names.length
  · subst hlast
    have e1 : ((t.decl name).deps ++ [List.idxOf name (t.decl name).goTypes]).getD names.length 0
        = List.idxOf name (t.decl name).goTypes := by
      rw [hd, ← hlen]; simp
    rw [e1]
    have hlt := List.idxOf_lt_length_iff.mpr hmem
    rw [List.getElem?_eq_getElem hlt, List.getElem_idxOf hlt]
    simp
  · have hk' : k < names.length := by omega
    have e1 : ((t.decl name).deps ++ [List.idxOf name (t.decl name).goTypes]).getD k 0 = t.deps.getD k 0 := by
      rw [hd]
      simp only [List.getD_eq_getElem?_getD]
      rw [List.getElem?_append_left (by omega)]
    rw [e1, hg]
    have := hk k hk'
    rw [List.getElem_append_left (by omega)]
    exact getElem?_prefix _ _ _ _ this

theorem foldl_dep_good (ns : List String) : ∀ (t : TypeTab) (names : List String), t.Good names →
    (ns.foldl TypeTab.dep t).Good (names ++ ns) := by
  induction ns with
  | nil => intro t names h; simpa using h
  | cons n ns ih =>
    intro t names h
    have := ih (t.dep n) (names ++ [n]) (t.dep_good names n h)
    simpa [List.foldl_cons, List.append_assoc] using this

theorem foldl_decl_nodup (ns : List String) : ∀ (t : TypeTab), t.goTypes.Nodup →
    (ns.foldl TypeTab.decl t).goTypes.Nodup ∧ (ns.foldl TypeTab.decl t).deps = t.deps := by
  induction ns with
  | nil => intro t h; exact ⟨h, rfl⟩
  | cons n ns ih =>
    intro t h
    obtain ⟨_, _, hd, _⟩ := t.decl_goTypes_prefix n
    have := ih (t.decl n) (t.decl_nodup n h)
    exact ⟨this.1, by rw [List.foldl_cons, this.2, hd]⟩

/-- declaring distinct names into an empty table lists exactly them, in order -/
theorem foldl_decl_distinct (ns : List String) : ∀ (t : TypeTab), (t.goTypes ++ ns).Nodup →
    (ns.foldl TypeTab.decl t).goTypes = t.goTypes ++ ns := by
  induction ns with
  | nil => intro t _; simp
  | cons n ns ih =>
    intro t h
    have hn : n ∉ t.goTypes := by
      intro hm
      rw [List.nodup_append] at h
      exact h.2.2 n hm n (by simp) rfl
    have e : (t.decl n).goTypes = t.goTypes ++ [n] := by
      unfold TypeTab.decl; rw [if_neg hn]
    rw [List.foldl_cons, ih (t.decl n) (by rw [e]; simpa [List.append_assoc] using h), e]
    simp

/-- rows are only ever appended -/
theorem foldl_dep_prefix (ns : List String) : ∀ (t : TypeTab), ∃ ext, (ns.foldl TypeTab.dep t).goTypes = t.goTypes ++ ext := by
  induction ns with
  | nil => intro t; exact ⟨[], by simp⟩
  | cons n ns ih =>
    intro t
    obtain ⟨e1, h1, _, _⟩ := t.decl_goTypes_prefix n
    obtain ⟨e2, h2⟩ := ih (t.dep n)
    refine ⟨e1 ++ e2, ?_⟩
    rw [List.foldl_cons, h2]
    show (t.decl n).goTypes ++ e2 = _
    rw [h1, List.append_assoc]

/-- every row is a declared type or a dependency -/
theorem foldl_dep_mem (ns : List String) : ∀ (t : TypeTab) (x : String), x ∈ (ns.foldl TypeTab.dep t).goTypes →
    x ∈ t.goTypes ∨ x ∈ ns := by
  induction ns with
  | nil => intro t x h; exact Or.inl h
  | cons n ns ih =>
    intro t x h
    rw [List.foldl_cons] at h
    cases ih (t.dep n) x h with
    | inl h1 =>
      have : (t.dep n).goTypes = (t.decl n).goTypes := rfl
      rw [this] at h1
      unfold TypeTab.decl at h1
      split at h1
      · exact Or.inl h1
      · simp only [List.mem_append, List.mem_singleton] at h1
        cases h1 with
        | inl h2 => exact Or.inl h2
        | inr h2 => exact Or.inr (by simp [h2])
    | inr h1 => exact Or.inr (by simp [h1])

end Pulsar.Gen
