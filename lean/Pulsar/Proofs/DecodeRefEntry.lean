/-
  Map entries: `unmarshalMap`'s loop (reference) vs. `unmarshalMapField`'s loop (generated).
-/
import Pulsar.Proofs.DecodeRefReaders
namespace Pulsar

/-- Agreement of the nested decoders, as far as the record loops need it: on a non-nil target and a
    payload shorter than 2^63 bytes, reference success implies generated success with the same value,
    which is again non-nil. -/
def ChildAgree (cs ci : Nat → Val → Bytes → Res Val) : Prop :=
  ∀ i into p v, into.isNone = false → p.length < 9223372036854775808 →
    cs i into p = .ok v → ci i into p = .ok v ∧ v.isNone = false

@[simp] theorem emptyMsg_isNone (S : Schema) (i : Nat) : (emptyMsg S i).isNone = false := rfl

/-- relation between the generated code's `mapvalue` variable and protobuf-go's `NewValue()`-initialised
    value: a message value is allocated lazily by the generated code. -/
def VRel (S : Schema) (e : Elem) (vi vs : Val) : Prop :=
  match e with
  | .scalar _ => vi = vs
  | .message mi => (vi = .none ∧ vs = emptyMsg S mi) ∨ (vi = vs ∧ vs.isNone = false)

theorem entry_agree (S : Schema) (cs ci : Nat → Val → Bytes → Res Val) (H : ChildAgree cs ci)
    (kk : Kind) (e : Elem) :
    ∀ (fuel : Nat) (p t : Bytes) (k vi vs k' vs' : Val),
      (p ++ t).length < 9223372036854775808 → VRel S e vi vs →
      specEntryLoop true cs kk e fuel p k vs = .ok (k', vs') →
      ∃ vi', implEntryLoop ci S kk e fuel (p ++ t) p.length k vi = .ok (k', vi') ∧ VRel S e vi' vs' := by
  intro fuel
  induction fuel with
  | zero =>
    intro p t k vi vs k' vs' _ hrel h
    simp only [specEntryLoop, Res.ok.injEq, Prod.mk.injEq] at h
    obtain ⟨rfl, rfl⟩ := h
    exact ⟨vi, by simp [implEntryLoop], hrel⟩
  | succ fuel ih =>
    intro p t k vi vs k' vs' hl hrel h
    rw [specEntryLoop] at h
    rw [implEntryLoop]
    split at h
    · rename_i hp; subst hp
      simp only [Res.ok.injEq, Prod.mk.injEq] at h
      obtain ⟨rfl, rfl⟩ := h
      exact ⟨vi, by simp, hrel⟩
    · rename_i hp
      have hp0 : p.length ≠ 0 := fun e => hp (List.eq_nil_of_length_eq_zero e)
      rw [if_neg hp0]
      split at h
      · simp at h
      · simp at h
      · rename_i num wt r ht
        split at h
        · simp at h
        · rename_i hnum
          obtain ⟨wire, hread, hfn, hwt, h1, hlen⟩ :=
            consumeTag_read (consumeTag_append t ht) (by omega)
          simp only [hread, hfn]
          simp only [Bool.true_and] at h
          have hlt : (r ++ t).length < 9223372036854775808 := by omega
          have hrl : r.length < p.length := consumeTag_length ht
          split at h
          · -- key record
            rename_i hn1
            simp only [hn1, if_true]
            split at h
            · split at h
              · rename_i kv r' hs
                have hlen' := specReadScalar_length hs
                have hi := specReadScalar_impl hlt (specReadScalar_append t hs)
                simp only [implReadMapField, hi]
                have e1 : p.length - ((p ++ t).length - (r' ++ t).length) = r'.length := by
                  simp only [List.length_append]; omega
                rw [e1]
                exact ih r' t _ vi vs k' vs'
                  (by simp only [List.length_append] at hl ⊢; omega) hrel h
              · simp at h
              · simp at h
            · simp at h
          · rename_i hn1
            simp only [hn1, if_false]
            split at h
            · -- value record
              rename_i hn2
              simp only [hn2, if_true]
              cases e with
              | scalar vk =>
                simp only [] at h
                split at h
                · split at h
                  · rename_i vv r' hs
                    have hlen' := specReadScalar_length hs
                    have hi := specReadScalar_impl hlt (specReadScalar_append t hs)
                    simp only [implReadMapField, hi]
                    have e1 : p.length - ((p ++ t).length - (r' ++ t).length) = r'.length := by
                      simp only [List.length_append]; omega
                    rw [e1]
                    exact ih r' t _ vv vv k' vs'
                      (by simp only [List.length_append] at hl ⊢; omega) rfl h
                  · simp at h
                  · simp at h
                · simp at h
              | message mi =>
                simp only [] at h
                split at h
                · split at h
                  · rename_i n r1 hcv
                    split at h
                    · simp at h
                    · rename_i hn
                      have hr1 := consumeVarint_length hcv
                      split at h
                      · rename_i v' hc
                        have hn' : ¬ n > (r1 ++ t).length := by
                          simp only [List.length_append]; omega
                        have hrd := readLenDelim_of_consume (consumeVarint_append t hcv) hn' hlt
                        rw [take_append_of_le' _ _ _ (by omega),
                          drop_append_of_le _ _ _ (by omega)] at hrd
                        have hinto : (if vi.isNone then emptyMsg S mi else vi) = vs := by
                          rcases hrel with ⟨rfl, rfl⟩ | ⟨rfl, hv⟩
                          · rfl
                          · simp [hv]
                        have hvs : vs.isNone = false := by
                          rcases hrel with ⟨_, rfl⟩ | ⟨_, hv⟩
                          · rfl
                          · exact hv
                        obtain ⟨hci, hv'⟩ := H mi vs (r1.take n) v' hvs
                          (by simp only [List.length_take, List.length_append] at hl ⊢; omega) hc
                        simp only [implReadMapField, hrd, hinto, hci]
                        have e1 : p.length - ((p ++ t).length - (r1.drop n ++ t).length)
                            = (r1.drop n).length := by
                          simp only [List.length_append, List.length_drop]; omega
                        rw [e1]
                        exact ih (r1.drop n) t _ v' v' k' vs'
                          (by simp only [List.length_append, List.length_drop] at hl ⊢; omega)
                          (Or.inr ⟨rfl, hv'⟩) h
                      · simp at h
                      · simp at h
                  · simp at h
                  · simp at h
                · simp at h
            · -- any other number
              rename_i hn2
              simp only [hn2, if_false]
              simp only [Bool.false_eq_true, if_false] at h
              split at h
              · rename_i r' hv
                have hv' := (consume_append _).1 _ _ _ _ _ t hv
                obtain ⟨hs, hlt', hd⟩ := unknown_record (consumeTag_append t ht) hv' hl
                have e0 : (p ++ t).length - (r' ++ t).length = p.length - r'.length := by
                  simp only [List.length_append]; omega
                have hr'l : r'.length < p.length := by
                  simp only [List.length_append] at hlt'; omega
                rw [e0] at hs hd
                simp only [hs, hd]
                rw [if_neg (by omega)]
                have e1 : p.length - (p.length - r'.length) = r'.length := by omega
                rw [e1]
                exact ih r' t _ vi vs k' vs'
                  (by simp only [List.length_append] at hl ⊢; omega) hrel h
              · simp at h
              · simp at h

end Pulsar
