/-
  Helper lemmas for C08/C09: the IMPL machine refines the SPEC machine (leaf reads, leaf writes, then
  the addressing prefixes by induction on the op), and keeps the state well-typed.
  (Sorting: Proofs/ReflectSort; field level: Proofs/ReflectSlot; positional lists: Proofs/ReflectMsg.)
-/
import Pulsar.Proofs.ReflectMsg
namespace Pulsar

/-! ### leaf writes -/

section
variable (S : Schema) (n : Nat)

/-- field-level refinement of every write op on a field (child fuel `n+1`) -/
theorem writeF_refines {fs : List FieldDesc} {f : FieldDesc} {j : Nat} {o : WOp} {v : Val}
    (hj : fs[j]? = some f) (hfld : WOp.field? o = some j)
    (hok : o.ok (msgOK S false (n+1)) fs = true)
    (hv : slotOK (msgOK S false (n+1)) false f v = true) :
    FWrel (repNorm S (n+1)) f (Reflect.writeF S f v o)
      (SpecReflect.writeF S f (repSlot (repNorm S (n+1)) f v) (o.abs (repNorm S (n+1)) fs)) ∧
    FWok (msgOK S false (n+1)) f (Reflect.writeF S f v o) := by
  cases o <;> simp only [WOp.field?, Option.some.injEq, reduceCtorEq] at hfld <;> subst hfld <;>
    simp only [WOp.ok, hj] at hok <;>
    simp only [Reflect.writeF, SpecReflect.writeF, WOp.abs, hj]
  · exact setF_refines S (n+1) hok
  · exact clearF_refines S (n+1) f
  · exact mutF_refines S n hv
  · exact lsetF_refines S (n+1) _ hv hok
  · exact lappF_refines S (n+1) hv hok
  · exact lappmF_refines S n hv
  · exact ltruncF_refines S (n+1) _ hv
  · simp only [Bool.and_eq_true] at hok
    exact msetF_refines S (n+1) hv hok.1 hok.2
  · exact mclrF_refines S (n+1) _ hv
  · exact mmutF_refines S n hv hok

/-- a `put` on a oneof member never activates a member that was not active -/
theorem writeF_mono {f : FieldDesc} {o : WOp} {v x : Val} (h : Reflect.writeF S f v o = .put x)
    (hf : f.isOneof = true) (hx : x.isNone = false) : v.isNone = false := by
  unfold FieldDesc.isOneof at hf
  cases hs : f.shape <;> simp [hs] at hf
  cases o <;> simp only [Reflect.writeF, Reflect.setF, Reflect.clearF, Reflect.mutF, Reflect.lsetF, Reflect.lappF,
    Reflect.lappmF, Reflect.ltruncF, Reflect.msetF, Reflect.mclrF, Reflect.mmutF, hs, reduceCtorEq] at h
  · split at h <;> cases h
  · simp only [FieldDesc.zero, hs, FW.put.injEq] at h
    subst h; simp [Val.isNone] at hx
  · cases he : f.elem <;> simp only [he, reduceCtorEq] at h
    cases v with
    | one y => rfl
    | _ => simp at h
end

theorem WOp.field?_abs (c : Nat → Val → Val) (fs : List FieldDesc) (o : WOp) :
    WOp.field? (o.abs c fs) = WOp.field? o := by
  cases o <;> simp only [WOp.abs, WOp.field?] <;> split <;> rfl

theorem write_field (S : Schema) (i : Nat) (slots : List Val) (u : Bytes) (o : WOp) (j : Nat)
    (h : WOp.field? o = some j) :
    Reflect.write S i (.msg slots u) o =
      (match (S.msg i).fields[j]? with
       | some f => applyFW (S.msg i).fields f j slots u (Reflect.writeF S f (slots.getD j .none) o)
       | none => (.msg slots u, .panic)) := by
  cases o <;> simp only [WOp.field?, Option.some.injEq, reduceCtorEq] at h <;> subst h <;> rfl

theorem spec_write_field (S : Schema) (i : Nat) (slots : List Val) (u : Bytes) (o : WOp) (j : Nat)
    (h : WOp.field? o = some j) :
    SpecReflect.write S i (.msg slots u) o =
      (match (S.msg i).fields[j]? with
       | some f => applyFW (S.msg i).fields f j slots u (SpecReflect.writeF S f (slots.getD j .none) o)
       | none => (.msg slots u, .panic)) := by
  cases o <;> simp only [WOp.field?, Option.some.injEq, reduceCtorEq] at h <;> subst h <;> rfl

theorem slotOK_getD {S : Schema} {n i : Nat} {slots : List Val} {u : Bytes} {j : Nat} {f : FieldDesc}
    (hm : msgOK S false (n+1) i (.msg slots u) = true) (hf : (S.msg i).fields[j]? = some f) :
    slotOK (msgOK S false n) false f (slots.getD j .none) = true := by
  rw [msgOK_succ] at hm
  simp only [Bool.and_eq_true, beq_iff_eq] at hm
  obtain ⟨⟨hlen, hall⟩, _⟩ := hm
  have hjl : j < slots.length := hlen ▸ lt_of_getElem?_some hf
  exact List.all_eq_true.1 hall _ (mem_zip_getD Val.none _ slots j f hf hjl)

theorem msgOK_length {S : Schema} {n i : Nat} {slots : List Val} {u : Bytes}
    (hm : msgOK S false (n+1) i (.msg slots u) = true) : slots.length = (S.msg i).fields.length := by
  rw [msgOK_succ] at hm
  simp only [Bool.and_eq_true, beq_iff_eq] at hm
  exact hm.1.1

/-- leaf writes: outputs agree, states stay related, the IMPL state stays well-typed -/
theorem write_refines (S : Schema) (n i : Nat) (s : Val) (o : WOp)
    (hs : msgOK S false (n+2) i s = true)
    (hok : o.ok (msgOK S false (n+1)) (S.msg i).fields = true) :
    (Reflect.write S i s o).2
      = (SpecReflect.write S i (abs S (n+2) i s) (o.abs (repNorm S (n+1)) (S.msg i).fields)).2 ∧
    abs S (n+2) i (Reflect.write S i s o).1
      = (SpecReflect.write S i (abs S (n+2) i s) (o.abs (repNorm S (n+1)) (S.msg i).fields)).1 ∧
    msgOK S false (n+2) i (Reflect.write S i s o).1 = true := by
  obtain ⟨slots, u, rfl⟩ := rf_msgOK_isMsg hs
  simp only [abs, repNorm_succ]
  cases hfld : WOp.field? o with
  | none =>
    cases o <;> simp only [WOp.field?, reduceCtorEq] at hfld
    · exact ⟨rfl, rfl, hs⟩
    · refine ⟨rfl, ?_, msgOK_emptyMsg S false (n+1) i⟩
      exact repNorm_emptyMsg S (n+2) i
  | some j =>
    rw [write_field S i slots u o j hfld,
      spec_write_field S i _ u _ j ((WOp.field?_abs _ _ o).trans hfld)]
    cases hf : (S.msg i).fields[j]? with
    | none => exact ⟨rfl, rfl, hs⟩
    | some f =>
      simp only []
      have hv := slotOK_getD hs hf
      obtain ⟨hrel, hfok⟩ := writeF_refines S n hf hfld hok hv
      have hA := absSlots_getD (repNorm S (n+1)) (S.msg i).fields slots j f hf (msgOK_length hs)
      have hr := applyFW_refines (repNorm S (n+1)) (S.msg i).fields f j slots u hf hrel
      have hk := applyFW_ok S (n+1) i f j slots u hs hf hfok
        (fun x hx hfo hxn => writeF_mono S hx hfo hxn)
      obtain ⟨sl', u', hsl⟩ := rf_msgOK_isMsg hk
      refine ⟨?_, ?_, hk⟩
      · rw [hA]; exact hr.1
      · rw [hsl, repNorm_succ]
        have := hr.2
        rw [hsl] at this
        rw [hA]; exact this

/-! ### leaf reads -/

@[simp] theorem Val.slots_msg (sl : List Val) (u : Bytes) : (Val.msg sl u).slots = sl := rfl
@[simp] theorem Val.unknown_msg (sl : List Val) (u : Bytes) : (Val.msg sl u).unknown = u := rfl
@[simp] theorem Val.isNone_msg (sl : List Val) (u : Bytes) : (Val.msg sl u).isNone = false := rfl

theorem repSlot_isNone_of_group (c : Nat → Val → Val) {f : FieldDesc} {g : Nat} (h : f.group? = some g) (v : Val) :
    (repSlot c f v).isNone = v.isNone := by
  unfold FieldDesc.group? at h
  cases hs : f.shape <;> simp [hs] at h
  rw [repSlot_oneof _ _ _ hs]
  cases v <;> rfl

theorem whichFrom_abs (c : Nat → Val → Val) (g : Nat) : ∀ (fs : List FieldDesc) (slots : List Val) (k : Nat),
    whichFrom g k fs (absSlots c fs slots) = whichFrom g k fs slots
  | [], _, _ => by simp [whichFrom]
  | _ :: _, [], _ => by simp [whichFrom, absSlots]
  | f :: fs, v :: vs, k => by
    have ih := whichFrom_abs c g fs vs (k+1)
    simp only [absSlots, List.zip_cons_cons, List.map_cons, whichFrom] at ih ⊢
    cases hg : f.group? == some g
    · simpa using ih
    · have : f.group? = some g := by simpa using hg
      rw [repSlot_isNone_of_group c this]
      cases v.isNone <;> simp [ih]

theorem not_oneNil_of_slotOK {child : Nat → Val → Bool} (hc : ∀ i, child i .oneNil = false) {f : FieldDesc} {v : Val}
    (h : slotOK child false f v = true) : isOneNil v = false := by
  cases v <;> try rfl
  exfalso
  unfold slotOK at h
  cases hs : f.shape <;> simp [hs] at h
  cases he : f.elem <;> simp [he, elemOK, scalarOK, Val.isNone, hc] at h

theorem msgOK_oneNil (S : Schema) (junk : Bool) (n i : Nat) : msgOK S junk n i .oneNil = false := by
  cases n <;> rfl

theorem idxFilter_abs (S : Schema) (n : Nat) : ∀ (fs : List FieldDesc) (slots : List Val) (k : Nat),
    (fs.zip slots).all (fun p => slotOK (msgOK S false n) false p.1 p.2) = true →
    idxFilter SpecReflect.hasF k fs (absSlots (repNorm S n) fs slots) = idxFilter Reflect.hasF k fs slots
  | [], _, _, _ => by simp [idxFilter]
  | _ :: _, [], _, _ => by simp [idxFilter, absSlots]
  | f :: fs, v :: vs, k, h => by
    simp only [List.zip_cons_cons, List.all_cons, Bool.and_eq_true] at h
    have ih := idxFilter_abs S n fs vs (k+1) h.2
    simp only [absSlots, List.zip_cons_cons, List.map_cons, idxFilter] at ih ⊢
    rw [hasF_refines S n h.1, ih]

theorem any_oneNil_false (S : Schema) (n : Nat) : ∀ (fs : List FieldDesc) (slots : List Val),
    slots.length = fs.length →
    (fs.zip slots).all (fun p => slotOK (msgOK S false n) false p.1 p.2) = true →
    slots.any isOneNil = false
  | [], [], _, _ => rfl
  | [], _ :: _, h, _ => by simp at h
  | _ :: _, [], h, _ => by simp at h
  | f :: fs, v :: vs, hl, h => by
    simp only [List.zip_cons_cons, List.all_cons, Bool.and_eq_true, List.length_cons, Nat.add_right_cancel_iff] at h hl
    simp only [List.any_cons, not_oneNil_of_slotOK (msgOK_oneNil S false n) h.1, any_oneNil_false S n fs vs hl h.2,
      Bool.or_self]

theorem idxFilter_zero_spec : ∀ (fs : List FieldDesc) (k : Nat),
    idxFilter SpecReflect.hasF k fs (fs.map FieldDesc.zero) = []
  | [], _ => rfl
  | f :: fs, k => by
    simp only [List.map_cons, idxFilter, idxFilter_zero_spec fs (k+1), List.append_nil]
    have : SpecReflect.hasF f f.zero = false := by
      unfold SpecReflect.hasF FieldDesc.zero
      cases f.shape <;> cases f.elem <;> simp [specPresent, Val.isNone, Val.elems]
      rename_i k; cases k <;> simp [Kind.isBlob, Val.getBlob, Val.getBits]
    simp [this]

theorem idxFilter_zero_impl : ∀ (fs : List FieldDesc) (k : Nat),
    idxFilter Reflect.hasF k fs (fs.map FieldDesc.zero) = []
  | [], _ => rfl
  | f :: fs, k => by
    simp only [List.map_cons, idxFilter, idxFilter_zero_impl fs (k+1), List.append_nil]
    have : Reflect.hasF f f.zero = false := by
      unfold Reflect.hasF FieldDesc.zero
      cases f.shape <;> cases f.elem <;> simp [implPresent, Val.isNone, Val.elems]
      rename_i k; cases k <;> simp [Kind.isBlob, Val.getBlob, Val.getBits]
    simp [this]

theorem repElem_scalar_eq_normKey (c : Nat → Val → Val) (k : Kind) (v : Val) :
    repElem c (.scalar k) v = normKey v := by
  cases v <;> rfl

/-! ### the generated getters -/

/-- The generated getter returns what `Get` returns, rendered in the getter's tokens — on every slot value
    except the typed-nil oneof wrapper (where the getter panics, see `getterF_oneNil`). No typing hypothesis. -/
theorem getterF_eq_asGetter_getF (f : FieldDesc) (v : Val) (h : isOneNil v = false) :
    Reflect.getterF f v = (Reflect.getF f v).asGetter := by
  unfold Reflect.getterF Reflect.getF
  cases hs : f.shape with
  | singular =>
    simp only []
    cases f.elem with
    | scalar k => simp only [outElem]; split <;> rfl
    | message mi => rfl
  | oneof g =>
    simp only []
    cases v <;> simp only [isOneNil, reduceCtorEq] at h <;>
      (cases f.elem with
       | scalar k => simp only [outElem]; split <;> rfl
       | message mi => rfl)
  | repeated p =>
    simp only []
    cases v.elems <;> rfl
  | map kk =>
    simp only []
    cases v.elems <;> rfl

/-- on the typed-nil wrapper the member getter and `Get` both answer the default (fix 8687e51) -/
theorem getterF_oneNil (f : FieldDesc) (g : Nat) (hs : f.shape = .oneof g) :
    Reflect.getterF f .oneNil = outElem f.elem (Elem.zeroVar f.elem) ∧
    Reflect.getF f .oneNil = outElem f.elem (Elem.zeroVar f.elem) := by
  simp only [Reflect.getterF, Reflect.getF, hs, and_self]

/-- the zero value the getter returns for a nil receiver is the getter's value on the field of `&T{}` -/
theorem getterF_zero (f : FieldDesc) : Reflect.getterF f f.zero = Reflect.getterZero f := by
  unfold Reflect.getterF Reflect.getterZero FieldDesc.zero
  cases f.shape <;> cases f.elem <;> simp only [Val.elems, List.length_nil]
  · rename_i k; simp only [Elem.zeroVar]
  · rfl

/-- ops whose output comes from the codec -/
def ROp.usesCodec : ROp → Bool
  | .size => true
  | .enc => true
  | _ => false

theorem read_refines_msg (S : Schema) (n i : Nat) (s : Val) (o : ROp)
    (hs : msgOK S false (n+1) i s = true) (hc : o.usesCodec = false) :
    SpecReflect.read S i (abs S (n+1) i s) o = Reflect.read S i s o := by
  obtain ⟨slots, u, rfl⟩ := rf_msgOK_isMsg hs
  have hlen := msgOK_length hs
  have hall : ((S.msg i).fields.zip slots).all (fun p => slotOK (msgOK S false n) false p.1 p.2) = true := by
    rw [msgOK_succ] at hs
    simp only [Bool.and_eq_true] at hs
    exact hs.1.2
  simp only [abs, repNorm_succ]
  cases o <;> simp only [ROp.usesCodec, reduceCtorEq] at hc <;>
    simp only [SpecReflect.read, Reflect.read, Val.isNone_msg, Bool.false_eq_true, if_false, Val.slot,
      Val.slots_msg, Val.unknown_msg]
  case has j =>
    cases hf : (S.msg i).fields[j]? with
    | none => rfl
    | some f =>
      simp only []
      rw [absSlots_getD _ _ _ _ f hf hlen, hasF_refines S n (slotOK_getD hs hf)]
  case get j =>
    cases hf : (S.msg i).fields[j]? with
    | none => rfl
    | some f =>
      simp only []
      rw [absSlots_getD _ _ _ _ f hf hlen, getF_refines S n (slotOK_getD hs hf)]
  case which g => rw [whichFrom_abs]
  case range =>
    rw [idxFilter_abs S n _ _ _ hall]
  case llen j =>
    cases hf : (S.msg i).fields[j]? with
    | none => rfl
    | some f =>
      simp only []
      cases hsh : f.shape <;> simp only []
      rw [absSlots_getD _ _ _ _ f hf hlen, repSlot_repeated _ _ _ hsh, Val.elems_list, List.length_map]
  case lget j k =>
    cases hf : (S.msg i).fields[j]? with
    | none => rfl
    | some f =>
      simp only []
      cases hsh : f.shape <;> simp only []
      rw [absSlots_getD _ _ _ _ f hf hlen, repSlot_repeated _ _ _ hsh, Val.elems_list, List.getElem?_map]
      cases (slots.getD j Val.none).elems[k]? with
      | none => rfl
      | some e => simp only [Option.map_some, outElem_repElem]
  case mlen j =>
    cases hf : (S.msg i).fields[j]? with
    | none => rfl
    | some f =>
      simp only []
      cases hsh : f.shape <;> simp only []
      rw [absSlots_getD _ _ _ _ f hf hlen, repSlot_map _ _ _ hsh, Val.elems_map, length_sortEntries, List.length_map]
  case mhas j k =>
    cases hf : (S.msg i).fields[j]? with
    | none => rfl
    | some f =>
      simp only []
      cases hsh : f.shape <;> simp only []
      rw [absSlots_getD _ _ _ _ f hf hlen, repSlot_map _ _ _ hsh, Val.elems_map,
        any_perm (rf_sortEntries_perm _ _), any_map_normEntry]
  case mget j k =>
    cases hf : (S.msg i).fields[j]? with
    | none => rfl
    | some f =>
      simp only []
      cases hsh : f.shape <;> simp only []
      rename_i kk
      obtain ⟨nn, es, hes, hen, hd⟩ := slotOK_map hsh (slotOK_getD hs hf)
      have hd' := (rf_distinctKeys_iff kk es).1 hd
      rw [absSlots_getD _ _ _ _ f hf hlen, repSlot_map _ _ _ hsh, Val.elems_map, hes, Val.elems_map,
        findEntry_perm k (rf_sortEntries_perm _ _) (distinct_sort (distinct_map_normEntry _ kk f.elem hd')),
        findEntry_map_normEntry]
      cases findEntry kk es k with
      | none => rfl
      | some en => simp only [Option.map_some, normEntry_value, outElem_repElem]
  case mrange j =>
    cases hf : (S.msg i).fields[j]? with
    | none => rfl
    | some f =>
      simp only []
      cases hsh : f.shape <;> simp only []
      rename_i kk
      rw [absSlots_getD _ _ _ _ f hf hlen, repSlot_map _ _ _ hsh, Val.elems_map, sortEntries_eq,
        sortBy_map (klt kk) (normEntry (repNorm S n) kk f.elem) (klt_normEntry _ kk f.elem), List.map_map,
        sortEntries_eq]
      congr 1
  case getter j =>
    cases hf : (S.msg i).fields[j]? with
    | none => rfl
    | some f =>
      simp only []
      have hv := slotOK_getD hs hf
      rw [absSlots_getD _ _ _ _ f hf hlen, getF_refines S n hv,
        getterF_eq_asGetter_getF f _ (not_oneNil_of_slotOK (msgOK_oneNil S false n) hv)]

/-! ### the nil receiver / the invalid message -/

theorem any_oneNil_zero : ∀ (fs : List FieldDesc), (fs.map FieldDesc.zero).any isOneNil = false
  | [] => rfl
  | f :: fs => by
    simp only [List.map_cons, List.any_cons, any_oneNil_zero fs, Bool.or_false]
    unfold FieldDesc.zero
    cases f.shape <;> cases f.elem <;> simp [isOneNil]
    rename_i k; cases k <;> simp [Kind.isBlob]

theorem emptyMsg_slot' (S : Schema) (i j : Nat) (f : FieldDesc) (hf : (S.msg i).fields[j]? = some f) :
    (emptyMsg S i).slot j = f.zero := by
  simp only [Val.slot, emptyMsg, Val.slots_msg, List.getD, List.getElem?_map, hf]
  rfl

/-- IMPL: every read except `valid` (and the codec ops, see `C09_nil_codec`) gives on the nil receiver what
    it gives on the empty message -/
theorem impl_read_none (S : Schema) (i : Nat) (o : ROp) (hv : o ≠ .valid) (hc : o.usesCodec = false) :
    Reflect.read S i .none o = Reflect.read S i (emptyMsg S i) o := by
  cases o <;> simp only [ROp.usesCodec, reduceCtorEq] at hc <;> try rfl
  · simp only [Reflect.read, emptyMsg, Val.isNone, Val.slots_msg, any_oneNil_zero, idxFilter_zero_impl]
    rfl
  · exact absurd rfl hv
  · rename_i j
    simp only [Reflect.read, Val.isNone, if_true, emptyMsg, Bool.false_eq_true, if_false]
    cases hf : (S.msg i).fields[j]? with
    | none => rfl
    | some f =>
      simp only []
      rw [← getterF_zero f, ← emptyMsg_slot' S i j f hf]
      rfl

theorem spec_read_none (S : Schema) (i : Nat) (o : ROp) (hv : o ≠ .valid) (hc : o.usesCodec = false) :
    SpecReflect.read S i .none o = SpecReflect.read S i (emptyMsg S i) o := by
  cases o <;> simp only [ROp.usesCodec, reduceCtorEq] at hc <;> try rfl
  · exact absurd rfl hv

theorem read_refines_none (S : Schema) (i : Nat) (o : ROp) (hc : o.usesCodec = false) :
    SpecReflect.read S i .none o = Reflect.read S i .none o := by
  by_cases hv : o = .valid
  · subst hv; rfl
  · rw [spec_read_none S i o hv hc, impl_read_none S i o hv hc]
    have := read_refines_msg S 0 i (emptyMsg S i) o (msgOK_emptyMsg S false 0 i) hc
    rw [abs, repNorm_emptyMsg] at this
    exact this

/-! ### read paths -/

theorem Op.usesCodec_r (o : ROp) : (Op.r o).usesCodec = o.usesCodec := by
  cases o <;> rfl

theorem emptyMsg_slot (S : Schema) (i j : Nat) (f : FieldDesc) (hf : (S.msg i).fields[j]? = some f) :
    (emptyMsg S i).slot j = f.zero := by
  simp only [Val.slot, emptyMsg, Val.slots_msg, List.getD, List.getElem?_map, hf]
  rfl

theorem isNone_eq {v : Val} (h : v.isNone = true) : v = .none := by
  cases v <;> simp [Val.isNone] at h; rfl

theorem repElem_msg_of_ok {S : Schema} {m mi : Nat} {c : Val} (h : msgOK S false m mi c = true) :
    repElem (repNorm S m) (.message mi) c = abs S m mi c := by
  obtain ⟨sl, u, rfl⟩ := rf_msgOK_isMsg h
  simp [repElem, abs, Val.isNone]

theorem elemOK_msg_false {child : Nat → Val → Bool} {mi : Nat} {c : Val}
    (h : elemOK child (.message mi) false c = true) : child mi c = true := by
  simpa [elemOK] using h

theorem stepR_none (S : Schema) : ∀ (op : Op) (i : Nat), op.usesCodec = false →
    SpecReflect.stepR S i .none op = Reflect.stepR S i .none op
  | .r o, i, hc => read_refines_none S i o (by rw [← Op.usesCodec_r]; exact hc)
  | .w _, _, _ => rfl
  | .in j op, i, hc => by
    simp only [SpecReflect.stepR, Reflect.stepR, Val.isNone, if_true]
    cases hf : (S.msg i).fields[j]? with
    | none => rfl
    | some f =>
      simp only [emptyMsg_slot S i j f hf]
      cases he : f.elem with
      | scalar k => rfl
      | message mi =>
        cases hs : f.shape <;> simp only [FieldDesc.zero, hs, he]
        · exact stepR_none S op mi hc
        · exact stepR_none S op mi hc
  | .at j k op, i, hc => by
    simp only [SpecReflect.stepR, Reflect.stepR, Val.isNone, if_true]
    cases hf : (S.msg i).fields[j]? with
    | none => rfl
    | some f =>
      simp only [emptyMsg_slot S i j f hf]
      cases he : f.elem with
      | scalar k => rfl
      | message mi => cases hs : f.shape <;> simp [FieldDesc.zero, hs, he]
  | .mv j k op, i, hc => by
    simp only [SpecReflect.stepR, Reflect.stepR, Val.isNone, if_true]
    cases hf : (S.msg i).fields[j]? with
    | none => rfl
    | some f =>
      simp only [emptyMsg_slot S i j f hf]
      cases he : f.elem with
      | scalar k => rfl
      | message mi => cases hs : f.shape <;> simp [FieldDesc.zero, hs, he, findEntry]

theorem stepR_refines (S : Schema) : ∀ (op : Op) (n i : Nat) (s : Val), msgOK S false n i s = true →
    op.usesCodec = false → SpecReflect.stepR S i (abs S n i s) op = Reflect.stepR S i s op
  | _, 0, _, _, hs, _ => by simp [msgOK] at hs
  | .r o, n+1, i, s, hs, hc => read_refines_msg S n i s o hs (by rw [← Op.usesCodec_r]; exact hc)
  | .w _, _+1, _, _, _, _ => rfl
  | .in j op, n+1, i, s, hs, hc => by
    obtain ⟨slots, u, rfl⟩ := rf_msgOK_isMsg hs
    have hlen := msgOK_length hs
    simp only [abs, repNorm_succ, SpecReflect.stepR, Reflect.stepR, Val.isNone_msg, Bool.false_eq_true, if_false,
      Val.slot, Val.slots_msg]
    cases hf : (S.msg i).fields[j]? with
    | none => rfl
    | some f =>
      simp only [absSlots_getD _ _ _ _ f hf hlen]
      have hv := slotOK_getD hs hf
      cases he : f.elem with
      | scalar k => rfl
      | message mi =>
        cases hsh : f.shape <;> simp only []
        · -- singular
          have hv' := slotOK_singular hsh hv
          simp only [he, elemOK, Bool.and_true, Bool.or_eq_true] at hv'
          rw [repSlot_singular _ _ hsh, he]
          rcases hv' with hnone | hok
          · rw [isNone_eq hnone]
            simp only [repElem, Val.isNone, if_true]
            exact stepR_none S op mi hc
          · rw [repElem_msg_of_ok hok]
            exact stepR_refines S op n mi _ hok hc
        · -- oneof
          rw [repSlot_oneof _ _ _ hsh]
          rcases slotOK_oneof hsh hv with hnone | ⟨c, hc', hok⟩
          · rw [hnone]; exact stepR_none S op mi hc
          · rw [hc']
            rw [he] at hok ⊢
            simp only [repElem_msg_of_ok (elemOK_msg_false hok)]
            exact stepR_refines S op n mi _ (elemOK_msg_false hok) hc
  | .at j k op, n+1, i, s, hs, hc => by
    obtain ⟨slots, u, rfl⟩ := rf_msgOK_isMsg hs
    have hlen := msgOK_length hs
    simp only [abs, repNorm_succ, SpecReflect.stepR, Reflect.stepR, Val.isNone_msg, Bool.false_eq_true, if_false,
      Val.slot, Val.slots_msg]
    cases hf : (S.msg i).fields[j]? with
    | none => rfl
    | some f =>
      simp only [absSlots_getD _ _ _ _ f hf hlen]
      have hv := slotOK_getD hs hf
      cases he : f.elem with
      | scalar k => rfl
      | message mi =>
        cases hsh : f.shape <;> simp only []
        obtain ⟨nn, es, hes, hall⟩ := slotOK_repeated hsh hv
        rw [repSlot_repeated _ _ _ hsh, hes, Val.elems_list, Val.elems_list, List.getElem?_map]
        cases hk : es[k]? with
        | none => rfl
        | some c =>
          have hcm : c ∈ es := List.mem_of_getElem? hk
          have hok := List.all_eq_true.1 hall c hcm
          rw [he] at hok ⊢
          simp only [Option.map_some, repElem_msg_of_ok (elemOK_msg_false hok)]
          exact stepR_refines S op n mi _ (elemOK_msg_false hok) hc
  | .mv j k op, n+1, i, s, hs, hc => by
    obtain ⟨slots, u, rfl⟩ := rf_msgOK_isMsg hs
    have hlen := msgOK_length hs
    simp only [abs, repNorm_succ, SpecReflect.stepR, Reflect.stepR, Val.isNone_msg, Bool.false_eq_true, if_false,
      Val.slot, Val.slots_msg]
    cases hf : (S.msg i).fields[j]? with
    | none => rfl
    | some f =>
      simp only [absSlots_getD _ _ _ _ f hf hlen]
      have hv := slotOK_getD hs hf
      cases he : f.elem with
      | scalar k => rfl
      | message mi =>
        cases hsh : f.shape <;> simp only []
        rename_i kk
        obtain ⟨nn, es, hes, hall, hd⟩ := slotOK_map hsh hv
        have hd' := (rf_distinctKeys_iff kk es).1 hd
        rw [repSlot_map _ _ _ hsh, hes, Val.elems_map, Val.elems_map,
          findEntry_perm k (rf_sortEntries_perm _ _) (distinct_sort (distinct_map_normEntry _ kk f.elem hd')),
          findEntry_map_normEntry]
        cases hk : findEntry kk es k with
        | none => rfl
        | some en =>
          have hem : en ∈ es := List.mem_of_find?_eq_some hk
          obtain ⟨k0, v0, rfl, _, hok⟩ := entryOK_inv (List.all_eq_true.1 hall en hem)
          rw [he] at hok ⊢
          simp only [Option.map_some, normEntry_value, Val.value_entry, repElem_msg_of_ok (elemOK_msg_false hok)]
          exact stepR_refines S op n mi _ (elemOK_msg_false hok) hc

/-! ### write paths -/

theorem reattach_refines {s s' : Val} {r r' : Val × Out} {k k' : Val → Val} (absf : Val → Val) (P : Val → Prop)
    (h2 : r.2 = r'.2) (hs : absf s = s') (hk : absf (k r.1) = k' r'.1) (hPs : P s) (hPk : P (k r.1)) :
    (Reflect.reattach s r k).2 = (Reflect.reattach s' r' k').2 ∧
    absf (Reflect.reattach s r k).1 = (Reflect.reattach s' r' k').1 ∧
    P (Reflect.reattach s r k).1 := by
  unfold Reflect.reattach
  rw [← h2]
  cases r.2 <;> first | exact ⟨rfl, hs, hPs⟩ | exact ⟨rfl, hk, hPk⟩

theorem findEntry_congr_key (kk : Kind) (es : List Val) {k k' : Val} (h1 : k'.getBits = k.getBits)
    (h2 : k'.getBlob = k.getBlob) : findEntry kk es k' = findEntry kk es k := by
  unfold findEntry
  congr 1
  funext en
  exact kbeqOf_of_bits_blob kk h1 h2 _

theorem Op.abs_in (S : Schema) (n i j : Nat) (op : Op) (f : FieldDesc) (mi : Nat)
    (hf : (S.msg i).fields[j]? = some f) (he : f.elem = .message mi) :
    Op.abs S (n+1) i (.in j op) = .in j (Op.abs S n mi op) := by
  simp only [Op.abs, hf, he]

theorem Op.abs_at (S : Schema) (n i j k : Nat) (op : Op) (f : FieldDesc) (mi : Nat)
    (hf : (S.msg i).fields[j]? = some f) (he : f.elem = .message mi) :
    Op.abs S (n+1) i (.at j k op) = .at j k (Op.abs S n mi op) := by
  simp only [Op.abs, hf, he]

theorem Op.abs_mv (S : Schema) (n i j : Nat) (k : Val) (op : Op) (f : FieldDesc) (mi : Nat)
    (hf : (S.msg i).fields[j]? = some f) (he : f.elem = .message mi) :
    Op.abs S (n+1) i (.mv j k op) = .mv j k (Op.abs S n mi op) := by
  simp only [Op.abs, hf, he]

theorem Op.ok_pos {S : Schema} {n i : Nat} {op : Op} (h : Op.ok S n i op = true) : ∃ m, n = m + 1 := by
  cases n with
  | zero => simp [Op.ok] at h
  | succ m => exact ⟨m, rfl⟩

/-- the three facts carried through the induction -/
def Refines (S : Schema) (n i : Nat) (r r' : Val × Out) : Prop :=
  r.2 = r'.2 ∧ abs S n i r.1 = r'.1 ∧ msgOK S false n i r.1 = true

/-- re-attaching a refined child result to a singular message field / oneof member / list element / map
    value: shared closing step of the four prefix cases -/
theorem reattach_step (S : Schema) (m i mi : Nat) (s s' : Val) (r r' : Val × Out) (k k' : Val → Val)
    (ih : Refines S (m+1) mi r r') (hs : msgOK S false (m+2) i s = true) (hss : abs S (m+2) i s = s')
    (hk : repNorm S (m+2) i (k r.1) = k' (repNorm S (m+1) mi r.1))
    (hP : msgOK S false (m+2) i (k r.1) = true) :
    Refines S (m+2) i (Reflect.reattach s r k) (Reflect.reattach s' r' k') := by
  obtain ⟨ih1, ih2, ih3⟩ := ih
  refine reattach_refines (abs S (m+2) i) (fun v => msgOK S false (m+2) i v = true) ih1 hss ?_ hs hP
  rw [← ih2]; exact hk

theorem stepW_refines (S : Schema) : ∀ (op : Op) (n i : Nat) (s : Val), msgOK S false n i s = true →
    Op.ok S n i op = true → op.isWrite = true →
    Refines S n i (Reflect.stepW S i s op) (SpecReflect.stepW S i (abs S n i s) (Op.abs S n i op))
  | _, 0, _, _, hs, _, _ => by simp [msgOK] at hs
  | .r _, _+1, _, _, _, _, hw => by simp [Op.isWrite] at hw
  | .w o, n+1, i, s, hs, hok, _ => by
    simp only [Op.ok, Bool.and_eq_true, decide_eq_true_eq] at hok
    obtain ⟨m, rfl⟩ : ∃ m, n = m + 1 := ⟨n - 1, by omega⟩
    simp only [Op.abs, Reflect.stepW, SpecReflect.stepW]
    exact write_refines S m i s o hs hok.2
  | .in j op, n+1, i, s, hs, hok, hw => by
    obtain ⟨slots, u, rfl⟩ := rf_msgOK_isMsg hs
    have hlen := msgOK_length hs
    cases hf : (S.msg i).fields[j]? with
    | none =>
      simp only [Op.abs, hf, abs, repNorm_succ, Reflect.stepW, SpecReflect.stepW]
      exact ⟨rfl, rfl, hs⟩
    | some f =>
      have hv := slotOK_getD hs hf
      cases he : f.elem with
      | scalar k0 =>
        simp only [Op.abs, hf, he, abs, repNorm_succ, Reflect.stepW, SpecReflect.stepW]
        exact ⟨rfl, rfl, hs⟩
      | message mi =>
        have hok' : Op.ok S n mi op = true := by simpa only [Op.ok, hf, he] using hok
        obtain ⟨m, rfl⟩ := Op.ok_pos hok'
        have hw' : op.isWrite = true := hw
        rw [Op.abs_in S _ i j op f mi hf he]
        simp only [abs, repNorm_succ, Reflect.stepW, SpecReflect.stepW, hf, he,
          absSlots_getD _ _ _ _ f hf hlen]
        cases hsh : f.shape with
        | singular =>
          simp only []
          have hv' := slotOK_singular hsh hv
          simp only [he, elemOK, Bool.and_true, Bool.or_eq_true] at hv'
          rw [repSlot_singular _ _ hsh, he, repElem_isNone]
          -- the child the write goes to, on both sides
          obtain ⟨c0, hc0, hci, hcs⟩ : ∃ c0, msgOK S false (m+1) mi c0 = true ∧
              (if (slots.getD j Val.none).isNone = true then emptyMsg S mi else slots.getD j Val.none) = c0 ∧
              (if (slots.getD j Val.none).isNone = true then emptyMsg S mi
                else repElem (repNorm S (m+1)) (.message mi) (slots.getD j Val.none)) = abs S (m+1) mi c0 := by
            rcases hv' with h | h
            · exact ⟨emptyMsg S mi, msgOK_emptyMsg S false m mi, if_pos h,
                by rw [if_pos h, abs, repNorm_emptyMsg]⟩
            · obtain ⟨sl, u', hsl⟩ := rf_msgOK_isMsg h
              refine ⟨slots.getD j Val.none, h, ?_, ?_⟩
              · rw [hsl]; rfl
              · rw [← repElem_msg_of_ok h, hsl]; rfl
          rw [hci, hcs]
          have ih := stepW_refines S op (m+1) mi c0 hc0 hok' hw'
          refine reattach_step S m i mi _ _ _ _ _ _ ih hs rfl ?_ ?_
          · simp only [repNorm_succ, absSlots_set _ _ _ _ _ f hf, repSlot_singular _ _ hsh, he]
            rw [repElem_msg_of_ok ih.2.2]; rfl
          · exact applyFW_ok S (m+1) i f j slots u hs hf (fw := .put (Reflect.stepW S mi c0 op).1)
              (by simp only [FWok, slotOK, hsh, he, elemOK, ih.2.2, Bool.or_true])
              (by intro x _ hfo; simp [FieldDesc.isOneof, hsh] at hfo)
        | oneof g =>
          simp only []
          rw [repSlot_oneof _ _ _ hsh]
          rcases slotOK_oneof hsh hv with hnone | ⟨c, hc', hcok⟩
          · rw [hnone]
            simp only []
            have hc0 := msgOK_emptyMsg S false m mi
            have ih := stepW_refines S op (m+1) mi _ hc0 hok' hw'
            rw [abs, repNorm_emptyMsg] at ih
            refine reattach_step S m i mi _ _ _ _ _ _ ih hs rfl ?_ ?_
            · simp only [repNorm_succ, absSlots_set _ _ _ _ _ f hf, absSlots_clearGroup,
                repSlot_oneof _ _ _ hsh, he]
              rw [repElem_msg_of_ok ih.2.2]; rfl
            · have := applyFW_ok S (m+1) i f j slots u hs hf
                (fw := .putOne (Reflect.stepW S mi (emptyMsg S mi) op).1)
                (by simp only [FWok, he, elemOK, ih.2.2, Bool.or_true])
                (by intro x hx; cases hx)
              simpa only [applyFW, hsh] using this
          · rw [hc']
            simp only []
            rw [he] at hcok
            have hc0 := elemOK_msg_false hcok
            have ih := stepW_refines S op (m+1) mi c hc0 hok' hw'
            rw [he, repElem_msg_of_ok hc0]
            refine reattach_step S m i mi _ _ _ _ _ _ ih hs rfl ?_ ?_
            · simp only [repNorm_succ, absSlots_set _ _ _ _ _ f hf, repSlot_oneof _ _ _ hsh, he]
              rw [repElem_msg_of_ok ih.2.2]; rfl
            · exact applyFW_ok S (m+1) i f j slots u hs hf (fw := .put (.one (Reflect.stepW S mi c op).1))
                (by simp only [FWok, slotOK, hsh, he, elemOK, ih.2.2, Bool.or_true])
                (by intro x hx _ _; rw [hc']; rfl)
        | repeated p => exact ⟨rfl, rfl, hs⟩
        | map kk => exact ⟨rfl, rfl, hs⟩
  | .at j k op, n+1, i, s, hs, hok, hw => by
    obtain ⟨slots, u, rfl⟩ := rf_msgOK_isMsg hs
    have hlen := msgOK_length hs
    cases hf : (S.msg i).fields[j]? with
    | none =>
      simp only [Op.abs, hf, abs, repNorm_succ, Reflect.stepW, SpecReflect.stepW]
      exact ⟨rfl, rfl, hs⟩
    | some f =>
      have hv := slotOK_getD hs hf
      cases he : f.elem with
      | scalar k0 =>
        simp only [Op.abs, hf, he, abs, repNorm_succ, Reflect.stepW, SpecReflect.stepW]
        exact ⟨rfl, rfl, hs⟩
      | message mi =>
        have hok' : Op.ok S n mi op = true := by simpa only [Op.ok, hf, he] using hok
        obtain ⟨m, rfl⟩ := Op.ok_pos hok'
        have hw' : op.isWrite = true := hw
        rw [Op.abs_at S _ i j k op f mi hf he]
        simp only [abs, repNorm_succ, Reflect.stepW, SpecReflect.stepW, hf, he,
          absSlots_getD _ _ _ _ f hf hlen]
        cases hsh : f.shape with
        | repeated p =>
          simp only []
          obtain ⟨nn, es, hes, hall⟩ := slotOK_repeated hsh hv
          rw [repSlot_repeated _ _ _ hsh, hes, Val.elems_list, Val.elems_list, List.getElem?_map]
          cases hk : es[k]? with
          | none => exact ⟨rfl, rfl, hs⟩
          | some c =>
            simp only [Option.map_some]
            have hcm : c ∈ es := List.mem_of_getElem? hk
            have hcok := List.all_eq_true.1 hall c hcm
            rw [he] at hcok
            have hc0 := elemOK_msg_false hcok
            have ih := stepW_refines S op (m+1) mi c hc0 hok' hw'
            rw [he, repElem_msg_of_ok hc0]
            refine reattach_step S m i mi _ _ _ _ _ _ ih hs rfl ?_ ?_
            · simp only [repNorm_succ, absSlots_set _ _ _ _ _ f hf, repSlot_repeated _ _ _ hsh,
                Val.elems_list, List.map_set, he]
              rw [repElem_msg_of_ok ih.2.2]; rfl
            · exact applyFW_ok S (m+1) i f j slots u hs hf
                (fw := .put (.list true (es.set k (Reflect.stepW S mi c op).1)))
                (by
                  simp only [FWok, slotOK, hsh]
                  exact all_set _ es k _ hall (by simp only [he, elemOK, ih.2.2, Bool.or_true]))
                (by intro x _ hfo; simp [FieldDesc.isOneof, hsh] at hfo)
        | singular => exact ⟨rfl, rfl, hs⟩
        | oneof g => exact ⟨rfl, rfl, hs⟩
        | map kk => exact ⟨rfl, rfl, hs⟩
  | .mv j k op, n+1, i, s, hs, hok, hw => by
    obtain ⟨slots, u, rfl⟩ := rf_msgOK_isMsg hs
    have hlen := msgOK_length hs
    cases hf : (S.msg i).fields[j]? with
    | none =>
      simp only [Op.abs, hf, abs, repNorm_succ, Reflect.stepW, SpecReflect.stepW]
      exact ⟨rfl, rfl, hs⟩
    | some f =>
      have hv := slotOK_getD hs hf
      cases he : f.elem with
      | scalar k0 =>
        simp only [Op.abs, hf, he, abs, repNorm_succ, Reflect.stepW, SpecReflect.stepW]
        exact ⟨rfl, rfl, hs⟩
      | message mi =>
        have hw' : op.isWrite = true := hw
        have hok2 : keyArgOK f k = true ∧ Op.ok S n mi op = true := by
          simpa only [Op.ok, hf, he, hw', Bool.not_true, Bool.false_or, Bool.and_eq_true] using hok
        obtain ⟨hkey, hok'⟩ := hok2
        obtain ⟨m, rfl⟩ := Op.ok_pos hok'
        rw [Op.abs_mv S _ i j k op f mi hf he]
        simp only [abs, repNorm_succ, Reflect.stepW, SpecReflect.stepW, hf, he,
          absSlots_getD _ _ _ _ f hf hlen]
        cases hsh : f.shape with
        | map kk =>
          simp only []
          obtain ⟨nn, es, hes, hall, hd⟩ := slotOK_map hsh hv
          have hd' := (rf_distinctKeys_iff kk es).1 hd
          simp only [keyArgOK, hsh] at hkey
          obtain ⟨k', hk1, hk2, hk3, hk4, hk5⟩ := store_check_key (repNorm S (m+1)) hkey
          rw [repSlot_map _ _ _ hsh, hes, Val.elems_map, Val.elems_map, hk1, hk2]
          simp only []
          rw [he] at hall
          have hfind : findEntry kk (sortEntries kk (es.map (normEntry (repNorm S (m+1)) kk f.elem)))
                (repElem (repNorm S (m+1)) (.scalar kk) k')
              = (findEntry kk es k').map (normEntry (repNorm S (m+1)) kk f.elem) := by
            rw [findEntry_perm _ (rf_sortEntries_perm _ _) (distinct_sort (distinct_map_normEntry _ kk f.elem hd')),
              findEntry_map_normEntry]
            congr 1
            exact findEntry_congr_key kk es (repElem_getBits _ _ _) (repElem_getBlob _ _ _)
          rw [hfind]
          -- the child on both sides
          obtain ⟨c0, hc0, hci, hcs⟩ : ∃ c0, msgOK S false (m+1) mi c0 = true ∧
              valueOr (findEntry kk es k') (emptyMsg S mi) = c0 ∧
              valueOr ((findEntry kk es k').map (normEntry (repNorm S (m+1)) kk f.elem)) (emptyMsg S mi)
                = abs S (m+1) mi c0 := by
            cases hfe : findEntry kk es k' with
            | none =>
              exact ⟨emptyMsg S mi, msgOK_emptyMsg S false m mi, rfl, by rw [abs, repNorm_emptyMsg]; rfl⟩
            | some en =>
              have hem : en ∈ es := List.mem_of_find?_eq_some hfe
              obtain ⟨k0, v0, rfl, _, hok0⟩ := entryOK_inv (List.all_eq_true.1 hall en hem)
              refine ⟨v0, elemOK_msg_false hok0, rfl, ?_⟩
              simp only [Option.map_some, valueOr, normEntry_value, Val.value_entry, he]
              exact repElem_msg_of_ok (elemOK_msg_false hok0)
          rw [hci, hcs]
          have ih := stepW_refines S op (m+1) mi c0 hc0 hok' hw'
          refine reattach_step S m i mi _ _ _ _ _ _ ih hs rfl ?_ ?_
          · simp only [repNorm_succ, absSlots_set _ _ _ _ _ f hf, repSlot_map _ _ _ hsh, Val.elems_map]
            rw [mapPut_map_normEntry, he, repElem_msg_of_ok ih.2.2,
              sort_mapPut_sort _ _ (distinct_map_normEntry _ kk _ hd')
                (keysOK_map_normEntry _ kk _ (keysOK_of_entries hall)) (by rw [scalarOK_repElem]; exact hk3)]
            rfl
          · exact applyFW_ok S (m+1) i f j slots u hs hf
                (fw := .put (.map true (mapPut (kbeqOf kk) es k' (Reflect.stepW S mi c0 op).1)))
                (by
                  simp only [FWok]
                  refine slotOK_map_intro S (m+1) hsh true (all_mapPut _ es k' _ (by rw [he]; exact hall) ?_)
                    (distinct_mapPut k' _ hd')
                  simp only [entryOK, hk3, he, elemOK, ih.2.2, Bool.or_true, Bool.and_self])
                (by intro x _ hfo; simp [FieldDesc.isOneof, hsh] at hfo)
        | singular => exact ⟨rfl, rfl, hs⟩
        | oneof g => exact ⟨rfl, rfl, hs⟩
        | repeated p => exact ⟨rfl, rfl, hs⟩

/-! ### one step, histories -/

theorem Op.abs_of_read (S : Schema) : ∀ (op : Op) (n i : Nat), op.isWrite = false → Op.abs S n i op = op
  | _, 0, _, _ => rfl
  | .r _, _+1, _, _ => rfl
  | .w _, _+1, _, h => by simp [Op.isWrite] at h
  | .in j op, n+1, i, h => by
    simp only [Op.abs]
    cases (S.msg i).fields[j]? with
    | none => rfl
    | some f =>
      cases he : f.elem with
      | scalar k0 => simp only [he]
      | message mi => simp only [he]; rw [Op.abs_of_read S op n _ h]
  | .at j k op, n+1, i, h => by
    simp only [Op.abs]
    cases (S.msg i).fields[j]? with
    | none => rfl
    | some f =>
      cases he : f.elem with
      | scalar k0 => simp only [he]
      | message mi => simp only [he]; rw [Op.abs_of_read S op n _ h]
  | .mv j k op, n+1, i, h => by
    simp only [Op.abs]
    cases (S.msg i).fields[j]? with
    | none => rfl
    | some f =>
      cases he : f.elem with
      | scalar k0 => simp only [he]
      | message mi => simp only [he]; rw [Op.abs_of_read S op n _ h]

theorem Op.isWrite_abs (S : Schema) : ∀ (op : Op) (n i : Nat), (Op.abs S n i op).isWrite = op.isWrite
  | _, 0, _ => rfl
  | .r _, _+1, _ => rfl
  | .w _, _+1, _ => rfl
  | .in j op, n+1, i => by
    simp only [Op.abs]
    cases (S.msg i).fields[j]? with
    | none => rfl
    | some f =>
      cases he : f.elem with
      | scalar k0 => simp only [he]
      | message mi => simp only [he, Op.isWrite]; exact Op.isWrite_abs S op n _
  | .at j k op, n+1, i => by
    simp only [Op.abs]
    cases (S.msg i).fields[j]? with
    | none => rfl
    | some f =>
      cases he : f.elem with
      | scalar k0 => simp only [he]
      | message mi => simp only [he, Op.isWrite]; exact Op.isWrite_abs S op n _
  | .mv j k op, n+1, i => by
    simp only [Op.abs]
    cases (S.msg i).fields[j]? with
    | none => rfl
    | some f =>
      cases he : f.elem with
      | scalar k0 => simp only [he]
      | message mi => simp only [he, Op.isWrite]; exact Op.isWrite_abs S op n _

/-- one step: outputs agree (codec ops excepted), abstract states agree, the IMPL state stays typed -/
theorem step_refines (S : Schema) (n i : Nat) (s : Val) (op : Op)
    (hs : msgOK S false n i s = true) (hok : Op.ok S n i op = true) :
    (op.usesCodec = false →
      (Reflect.step S i s op).2 = (SpecReflect.step S i (abs S n i s) (Op.abs S n i op)).2) ∧
    abs S n i (Reflect.step S i s op).1 = (SpecReflect.step S i (abs S n i s) (Op.abs S n i op)).1 ∧
    msgOK S false n i (Reflect.step S i s op).1 = true := by
  unfold Reflect.step SpecReflect.step
  rw [Op.isWrite_abs]
  cases hw : op.isWrite with
  | true =>
    simp only [if_true]
    obtain ⟨h1, h2, h3⟩ := stepW_refines S op n i s hs hok hw
    exact ⟨fun _ => h1, h2, h3⟩
  | false =>
    simp only [Bool.false_eq_true, if_false]
    refine ⟨fun hc => ?_, by first | rfl | trivial, hs⟩
    rw [Op.abs_of_read S op n i hw]
    exact (stepR_refines S op n i s hs hc).symm

theorem OutsEq_refl : ∀ (l : List Out), OutsEq l l
  | [] => trivial
  | a :: l => by
    have ih := OutsEq_refl l
    simp only [OutsEq, OutEq, true_and]; exact ih

theorem run_refines_aux (S : Schema) (n i : Nat) : ∀ (ops : List Op) (s : Val) (acc : List Out),
    msgOK S false n i s = true → (∀ op ∈ ops, Op.ok S n i op = true ∧ op.usesCodec = false) →
    (ops.foldl (fun a op => let r := Reflect.step S i a.1 op; (r.1, a.2 ++ [r.2])) (s, acc)).2
      = ((ops.map (Op.abs S n i)).foldl
          (fun a op => let r := SpecReflect.step S i a.1 op; (r.1, a.2 ++ [r.2])) (abs S n i s, acc)).2 ∧
    abs S n i (ops.foldl (fun a op => let r := Reflect.step S i a.1 op; (r.1, a.2 ++ [r.2])) (s, acc)).1
      = ((ops.map (Op.abs S n i)).foldl
          (fun a op => let r := SpecReflect.step S i a.1 op; (r.1, a.2 ++ [r.2])) (abs S n i s, acc)).1 ∧
    msgOK S false n i
      (ops.foldl (fun a op => let r := Reflect.step S i a.1 op; (r.1, a.2 ++ [r.2])) (s, acc)).1 = true
  | [], s, acc, hs, _ => ⟨rfl, rfl, hs⟩
  | op :: ops, s, acc, hs, hops => by
    have hop := hops op (List.mem_cons_self)
    obtain ⟨h1, h2, h3⟩ := step_refines S n i s op hs hop.1
    simp only [List.foldl_cons, List.map_cons]
    rw [← h1 hop.2, ← h2]
    exact run_refines_aux S n i ops _ _ h3 (fun o ho => hops o (List.mem_cons_of_mem _ ho))

end Pulsar
