/-
  Pulsar.Proofs.EncodeExample — a concrete schema and well-typed values, used by the non-vacuity
  examples of C02/C04/C05: two message types; scalar kinds of every wire type, a packed list, an
  unpacked list, two maps (one with message values), a two-member oneof, a nested message, unknown bytes.
-/
import Pulsar.Typing
namespace Pulsar.Example
open Pulsar

def exS : Schema := ⟨[
  ⟨[ ⟨1, .scalar .int32, .singular⟩,
     ⟨2, .scalar .string, .singular⟩,
     ⟨3, .scalar .sint64, .repeated true⟩,
     ⟨4, .message 1, .map .string⟩,
     ⟨9, .scalar .bool, .oneof 0⟩,
     ⟨6, .message 1, .oneof 0⟩,
     ⟨7, .message 1, .singular⟩,
     ⟨8, .scalar .bytes, .repeated false⟩,
     ⟨5, .scalar .double, .singular⟩ ]⟩,
  ⟨[ ⟨1, .scalar .uint64, .singular⟩,
     ⟨2, .scalar .fixed32, .map .int32⟩,
     ⟨3, .scalar .sint32, .singular⟩ ]⟩ ]⟩

def exInner (a : Nat) : Val :=
  .msg [.bits a, .map true [.entry (.bits 4294967295) (.bits 7), .entry (.bits 3) (.bits 9)], .bits 4294967295] []

/-- a populated value of message 0 (depth 2). The map entries are stored out of key order. -/
def exV : Val :=
  .msg [ .bits 4294967290,
         .blob true [104, 105],
         .list true [.bits 3, .bits 18446744073709551615],
         .map true [.entry (.blob true [98]) (exInner 1), .entry (.blob true [97]) (exInner 300)],
         .none,
         .one (exInner 0),
         exInner 5,
         .list true [.blob true [1], .blob false []],
         .bits 9223372036854775808 ]
       [152, 6, 1]

/-- the same message held differently: nil-vs-empty flags flipped, map entries stored in another order. -/
def exW : Val :=
  .msg [ .bits 4294967290,
         .blob false [104, 105],
         .list false [.bits 3, .bits 18446744073709551615],
         .map false [.entry (.blob false [97]) (exInner 300), .entry (.blob true [98]) (exInner 1)],
         .none,
         .one (exInner 0),
         exInner 5,
         .list true [.blob false [1], .blob true []],
         .bits 9223372036854775808 ]
       [152, 6, 1]

theorem exS_wf : exS.WF = true := by decide
theorem exV_ok : msgOK exS false 2 0 exV = true := by decide
theorem exW_ok : msgOK exS false 2 0 exW = true := by decide

end Pulsar.Example
