/-
  Strict acceptance implies plain acceptance with the same value: the strict flag only turns some
  unknown-field paths into errors.
-/
import Pulsar.Typing
namespace Pulsar

section Strict
variable (cT cF : Nat → Val → Bytes → Res Val)
  (HC : ∀ i into p v, cT i into p = .ok v → cF i into p = .ok v)
include HC

theorem strict_entry (kk : Kind) (e : Elem) :
    ∀ (fuel : Nat) (p : Bytes) (k v : Val) (res : Val × Val),
      specEntryLoop true cT kk e fuel p k v = .ok res →
      specEntryLoop false cF kk e fuel p k v = .ok res := by
  intro fuel
  induction fuel with
  | zero => intro p k v res h; simpa [specEntryLoop] using h
  | succ fuel ih =>
    intro p k v res h
    rw [specEntryLoop] at h ⊢
    split at h
    · rename_i hb; rw [if_pos hb]; exact h
    · rename_i hb; rw [if_neg hb]
      split at h
      · simp at h
      · simp at h
      · rename_i num wt r ht
        simp only []
        split at h
        · simp at h
        · rename_i hnum; rw [if_neg hnum]
          simp only [Bool.true_and] at h
          (try simp only [Bool.false_and, Bool.false_eq_true, if_false])
          split at h
          · rename_i hn1; rw [if_pos hn1]
            split at h
            · rename_i hw; rw [if_pos hw]
              split at h
              · rename_i k' r' hs
                (try simp only [hs]); exact ih _ _ _ _ h
              · simp at h
              · simp at h
            · simp at h
          · rename_i hn1; rw [if_neg hn1]
            split at h
            · rename_i hn2; rw [if_pos hn2]
              split at h
              · rename_i vk
                (try simp only [])
                split at h
                · rename_i hw; rw [if_pos hw]
                  split at h
                  · rename_i v' r' hs
                    (try simp only [hs]); exact ih _ _ _ _ h
                  · simp at h
                  · simp at h
                · simp at h
              · rename_i mi
                (try simp only [])
                split at h
                · rename_i hw; rw [if_pos hw]
                  split at h
                  · rename_i n r1 hcv
                    (try simp only [hcv])
                    split at h
                    · simp at h
                    · rename_i hn; rw [if_neg hn]
                      split at h
                      · rename_i v' hc
                        (try simp only [HC _ _ _ _ hc]); exact ih _ _ _ _ h
                      · simp at h
                      · simp at h
                  · simp at h
                  · simp at h
                · simp at h
            · rename_i hn2; rw [if_neg hn2]
              simp only [Bool.false_eq_true, if_false] at h
              split at h
              · rename_i r' hv
                (try simp only [hv]); exact ih _ _ _ _ h
              · simp at h
              · simp at h

theorem strict_loop (S : Schema) (i : Nat) (o : UOpts) :
    ∀ (fuel : Nat) (m : Val) (bs : Bytes) (v : Val),
      specDecodeLoop true S i o cT fuel m bs = .ok v →
      specDecodeLoop false S i o cF fuel m bs = .ok v := by
  intro fuel
  induction fuel with
  | zero => intro m bs v h; simpa [specDecodeLoop] using h
  | succ fuel ih =>
    intro m bs v h
    rw [specDecodeLoop] at h ⊢
    split at h
    · rename_i hb; rw [if_pos hb]; exact h
    · rename_i hb; rw [if_neg hb]
      split at h
      · simp at h
      · simp at h
      · rename_i num wt r ht
        simp only []
        split at h
        · simp at h
        · rename_i hnum; rw [if_neg hnum]
          simp only [Bool.true_and, if_true] at h
          (try simp only [Bool.false_and, Bool.false_eq_true, if_false])
          split at h
          · rename_i hf
            (try simp only [hf])
            simp only [Bool.false_eq_true, if_false] at h
            split at h
            · rename_i r' hv
              (try simp only [hv]); exact ih _ _ _ h
            · simp at h
            · simp at h
          · rename_i j f hf
            (try simp only [hf])
            split at h
            · -- singular scalar
              rename_i k hsh hel
              (try simp only [hsh, hel])
              split at h
              · rename_i hw; rw [if_pos hw]
                split at h
                · rename_i x r' hs
                  (try simp only [hs]); exact ih _ _ _ h
                · simp at h
                · simp at h
              · simp at h
            · -- oneof scalar
              rename_i g k hsh hel
              (try simp only [hsh, hel])
              split at h
              · rename_i hw; rw [if_pos hw]
                split at h
                · rename_i x r' hs
                  (try simp only [hs]); exact ih _ _ _ h
                · simp at h
                · simp at h
              · simp at h
            · -- singular message
              rename_i mi hsh hel
              (try simp only [hsh, hel])
              split at h
              · rename_i hw; rw [if_pos hw]
                split at h
                · rename_i n r1 hcv
                  (try simp only [hcv])
                  split at h
                  · simp at h
                  · rename_i hn; rw [if_neg hn]
                    split at h
                    · rename_i x hc
                      (try simp only [HC _ _ _ _ hc]); exact ih _ _ _ h
                    · simp at h
                    · simp at h
                · simp at h
                · simp at h
              · simp at h
            · -- oneof message
              rename_i g mi hsh hel
              (try simp only [hsh, hel])
              split at h
              · rename_i hw; rw [if_pos hw]
                split at h
                · rename_i n r1 hcv
                  (try simp only [hcv])
                  split at h
                  · simp at h
                  · rename_i hn; rw [if_neg hn]
                    split at h
                    · rename_i x hc
                      (try simp only [HC _ _ _ _ hc]); exact ih _ _ _ h
                    · simp at h
                    · simp at h
                · simp at h
                · simp at h
              · simp at h
            · -- repeated scalar
              rename_i pk k hsh hel
              (try simp only [hsh, hel])
              split at h
              · rename_i hw; rw [if_pos hw]
                split at h
                · rename_i n r1 hcv
                  (try simp only [hcv])
                  split at h
                  · simp at h
                  · rename_i hn; rw [if_neg hn]
                    split at h
                    · rename_i vs hp
                      (try simp only [hp]); exact ih _ _ _ h
                    · simp at h
                    · simp at h
                · simp at h
                · simp at h
              · rename_i hw; rw [if_neg hw]
                split at h
                · rename_i hw2; rw [if_pos hw2]
                  split at h
                  · rename_i x r' hs
                    (try simp only [hs]); exact ih _ _ _ h
                  · simp at h
                  · simp at h
                · simp at h
            · -- repeated message
              rename_i pk mi hsh hel
              (try simp only [hsh, hel])
              split at h
              · rename_i hw; rw [if_pos hw]
                split at h
                · rename_i n r1 hcv
                  (try simp only [hcv])
                  split at h
                  · simp at h
                  · rename_i hn; rw [if_neg hn]
                    split at h
                    · rename_i x hc
                      (try simp only [HC _ _ _ _ hc]); exact ih _ _ _ h
                    · simp at h
                    · simp at h
                · simp at h
                · simp at h
              · simp at h
            · -- map
              rename_i kk hsh
              (try simp only [hsh])
              split at h
              · rename_i hw; rw [if_pos hw]
                split at h
                · rename_i n r1 hcv
                  (try simp only [hcv])
                  split at h
                  · simp at h
                  · rename_i hn; rw [if_neg hn]
                    split at h
                    · rename_i k x hc
                      (try simp only [strict_entry cT cF HC _ _ _ _ _ _ _ hc]); exact ih _ _ _ h
                    · simp at h
                    · simp at h
                · simp at h
                · simp at h
              · simp at h

end Strict

theorem strict_into (S : Schema) (o : UOpts) :
    ∀ (fuel depth i : Nat) (into : Val) (bs : Bytes) (v : Val),
      specDecodeInto true S o fuel depth i into bs = .ok v →
      specDecodeInto false S o fuel depth i into bs = .ok v := by
  intro fuel
  induction fuel with
  | zero => intro depth i into bs v h; simpa [specDecodeInto] using h
  | succ fuel ih =>
    intro depth i into bs v h
    rw [specDecodeInto] at h ⊢
    split at h
    · simp at h
    · rename_i hd
      rw [if_neg hd]
      exact strict_loop _ _ (fun i' into' p v' hc => ih _ _ _ _ _ hc) S i o _ _ _ _ h

end Pulsar
