/-
  Known fields: each branch of the reference loop's per-field handling against `implKnownField`.
-/
import Pulsar.Proofs.DecodeRefEntry
namespace Pulsar

theorem setSlot_isNone (m : Val) (j : Nat) (v : Val) : (m.setSlot j v).isNone = m.isNone := by
  cases m <;> rfl

/-- `NewValue()` of a map's value type. -/
def specV0 (S : Schema) (e : Elem) : Val :=
  match e with | .message mi => emptyMsg S mi | .scalar k => Elem.zeroVar (.scalar k)

section Known
variable (S : Schema) (fs : List FieldDesc) (cs ci : Nat → Val → Bytes → Res Val)
  (j : Nat) (f : FieldDesc) (wt : Nat) (m : Val) (r : Bytes)

theorem known_singular_scalar {k : Kind} {v : Val} {r' : Bytes}
    (hs : f.shape = .singular) (he : f.elem = .scalar k) (hl : r.length < 9223372036854775808)
    (hw : wt = k.specWireType) (hr : specReadScalar k r = .ok (v, r')) :
    implKnownField S fs ci j f wt m r = .ok (m.setSlot j v, r') := by
  unfold implKnownField
  simp only [hs, he, hw, wireType_eq, specReadScalar_impl hl hr]
  simp

theorem known_oneof_scalar {g : Nat} {k : Kind} {v : Val} {r' : Bytes}
    (hs : f.shape = .oneof g) (he : f.elem = .scalar k) (hl : r.length < 9223372036854775808)
    (hw : wt = k.specWireType) (hr : specReadScalar k r = .ok (v, r')) :
    implKnownField S fs ci j f wt m r =
      .ok ((Val.msg (clearGroup fs g m.slots) m.unknown).setSlot j (.one v), r') := by
  unfold implKnownField
  simp only [hs, he, hw, wireType_eq, specReadScalar_impl hl hr]
  simp

theorem known_singular_message (H : ChildAgree cs ci) {mi n : Nat} {v : Val} {r1 : Bytes}
    (hs : f.shape = .singular) (he : f.elem = .message mi) (hl : r.length < 9223372036854775808)
    (hw : wt = 2) (hcv : consumeVarint r = .ok (n, r1)) (hn : ¬ n > r1.length)
    (hc : cs mi (if (m.slot j).isNone then emptyMsg S mi else m.slot j) (r1.take n) = .ok v) :
    implKnownField S fs ci j f wt m r = .ok (m.setSlot j v, r1.drop n) ∧ v.isNone = false := by
  have hr1 := consumeVarint_length hcv
  have hinto : (if (m.slot j).isNone then emptyMsg S mi else m.slot j).isNone = false := by
    split
    · rfl
    · rename_i h; simpa using h
  obtain ⟨hci, hv⟩ := H _ _ _ _ hinto (by simp only [List.length_take]; omega) hc
  refine ⟨?_, hv⟩
  unfold implKnownField
  simp only [hs, he, hw, readLenDelim_of_consume hcv hn hl, hci]
  simp

theorem known_oneof_message (H : ChildAgree cs ci) {g mi n : Nat} {v : Val} {r1 : Bytes}
    (hs : f.shape = .oneof g) (he : f.elem = .message mi) (hl : r.length < 9223372036854775808)
    (hw : wt = 2) (hcv : consumeVarint r = .ok (n, r1)) (hn : ¬ n > r1.length)
    (hc : cs mi (match m.slot j with
                 | .one x => (if x.isNone then emptyMsg S mi else x)
                 | _ => emptyMsg S mi) (r1.take n) = .ok v) :
    implKnownField S fs ci j f wt m r =
      .ok ((Val.msg (clearGroup fs g m.slots) m.unknown).setSlot j (.one v), r1.drop n) ∧
      v.isNone = false := by
  have hr1 := consumeVarint_length hcv
  have hinto : (match m.slot j with
                 | .one x => (if x.isNone then emptyMsg S mi else x)
                 | _ => emptyMsg S mi).isNone = false := by
    split
    · split
      · rfl
      · rename_i h; simpa using h
    · rfl
  obtain ⟨hci, hv⟩ := H _ _ _ _ hinto (by simp only [List.length_take]; omega) hc
  refine ⟨?_, hv⟩
  unfold implKnownField
  simp only [hs, he, hw, readLenDelim_of_consume hcv hn hl]
  erw [hci]
  simp

theorem known_repeated_message (H : ChildAgree cs ci) {pk : Bool} {mi n : Nat} {v : Val} {r1 : Bytes}
    (hs : f.shape = .repeated pk) (he : f.elem = .message mi) (hl : r.length < 9223372036854775808)
    (hw : wt = 2) (hcv : consumeVarint r = .ok (n, r1)) (hn : ¬ n > r1.length)
    (hc : cs mi (emptyMsg S mi) (r1.take n) = .ok v) :
    implKnownField S fs ci j f wt m r =
      .ok (m.setSlot j (.list true ((m.slot j).elems ++ [v])), r1.drop n) ∧ v.isNone = false := by
  have hr1 := consumeVarint_length hcv
  obtain ⟨hci, hv⟩ := H _ _ _ _ (emptyMsg_isNone S mi) (by simp only [List.length_take]; omega) hc
  refine ⟨?_, hv⟩
  unfold implKnownField
  simp only [hs, he, hw, readLenDelim_of_consume hcv hn hl, hci]
  simp

theorem known_repeated_unpacked {pk : Bool} {k : Kind} {v : Val} {r' : Bytes}
    (hs : f.shape = .repeated pk) (he : f.elem = .scalar k) (hl : r.length < 9223372036854775808)
    (hw : wt = k.specWireType) (hr : specReadScalar k r = .ok (v, r')) :
    implKnownField S fs ci j f wt m r =
      .ok (m.setSlot j (.list true ((m.slot j).elems ++ [v])), r') := by
  unfold implKnownField
  simp only [hs, he, wireType_eq, specReadScalar_impl hl hr]
  by_cases hb : k.specWireType = 2
  · simp [hb, hw]
  · simp [hb, hw]

theorem known_repeated_packed {pk : Bool} {k : Kind} {n : Nat} {vs : List Val} {r1 : Bytes}
    (hs : f.shape = .repeated pk) (he : f.elem = .scalar k) (hl : r.length < 9223372036854775808)
    (hw : wt = 2 ∧ k.packable = true)
    (hcv : consumeVarint r = .ok (n, r1)) (hn : ¬ n > r1.length)
    (hp : specPackedLoop k n (r1.take n) [] = .ok vs) :
    implKnownField S fs ci j f wt m r =
      .ok (m.setSlot j (.list (match m.slot j with | .list nn _ => nn || !vs.isEmpty | _ => !vs.isEmpty)
        ((m.slot j).elems ++ vs)), r1.drop n) := by
  have hr1 := consumeVarint_length hcv
  obtain ⟨hw2, hpk⟩ := hw
  have hb : k.specWireType ≠ 2 := by
    intro e
    have := (specWireType_eq_2 k).1 e
    simp [Kind.packable, this] at hpk
  have hpa := packed_agree k n (r1.take n) (r1.drop n) [] vs (by simp only [List.length_take]; omega)
    (by rw [List.take_append_drop]; omega) hp
  rw [List.take_append_drop, List.length_take, Nat.min_eq_left (by omega)] at hpa
  unfold implKnownField
  simp only [hs, he, wireType_eq, hw2, readVarint_of_consumeVarint hcv, hpa]
  have h2 : ¬ (2 = k.specWireType) := fun e => hb e.symm
  have h3 : ¬ n ≥ 9223372036854775808 := by omega
  simp [hb, h2, h3, hn]
  rfl

theorem known_map (H : ChildAgree cs ci) {kk : Kind} {e : Elem} {n : Nat} {k v : Val} {r1 : Bytes}
    (hs : f.shape = .map kk) (he : f.elem = e) (hl : r.length < 9223372036854775808)
    (hw : wt = 2) (hcv : consumeVarint r = .ok (n, r1)) (hn : ¬ n > r1.length)
    (hc : specEntryLoop true cs kk e n (r1.take n) (Elem.zeroVar (.scalar kk)) (specV0 S e) = .ok (k, v)) :
    implKnownField S fs ci j f wt m r =
      .ok (m.setSlot j (.map true (mapPut (kbeqOf kk) (m.slot j).elems k v)), r1.drop n) := by
  have hr1 := consumeVarint_length hcv
  have hrel : VRel S e e.zeroVar (specV0 S e) := by
    cases e with
    | scalar k => rfl
    | message mi => exact Or.inl ⟨rfl, rfl⟩
  obtain ⟨vi', hi, hrel'⟩ := entry_agree S cs ci H kk e n (r1.take n) [] _ _ _ _ _
    (by rw [List.append_nil, List.length_take]; omega) hrel hc
  rw [List.append_nil, List.length_take, Nat.min_eq_left (by omega)] at hi
  have hfin : (match e with
      | .message mi => (if vi'.isNone then emptyMsg S mi else vi')
      | .scalar _ => vi') = v := by
    cases e with
    | scalar k => exact hrel'
    | message mi =>
      rcases hrel' with ⟨rfl, rfl⟩ | ⟨rfl, hv⟩
      · rfl
      · simp [hv]
  have h3 : ¬ n ≥ 9223372036854775808 := by omega
  unfold implKnownField
  simp only [hs, he, hw, readVarint_of_consumeVarint hcv, hi]
  cases e with
  | scalar k => simp only [] at hfin; simp [h3, hn, hfin]
  | message mi => simp only [] at hfin; simp [h3, hn, hfin]

end Known
end Pulsar
