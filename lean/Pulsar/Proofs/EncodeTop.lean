/-
  Pulsar.Proofs.EncodeTop — entry-point level: `checkInitialized` does not panic on well-typed values,
  the length of the encoding does not depend on the map-entry order, and the summary theorems the
  C02/C04 properties are read off from.
-/
import Pulsar.Proofs.EncodeMsg
namespace Pulsar

/-! ### `checkInitialized` -/

theorem walkFields_head {S : Schema} {fuel : Nat}
    (ih : ∀ j x, msgOK S false fuel j x = true → walkPanics S fuel j x = false)
    (f : FieldDesc) (v : Val) (rest : List (FieldDesc × Val))
    (hp : slotOK (msgOK S false fuel) false f v = true) (hrest : walkFields S fuel rest = false) :
    walkFields S fuel ((f, v) :: rest) = false := by
  obtain ⟨num, elem, shape⟩ := f
  cases shape with
  | singular =>
    cases elem with
    | scalar k =>
      cases v <;> simp [slotOK, elemOK, scalarOK] at hp <;> simp [walkFields, hrest]
    | message j =>
      simp only [slotOK, elemOK, Bool.and_true] at hp
      cases v
      case none => simp [walkFields, hrest, Val.isNone]
      case msg s u =>
        have : msgOK S false fuel j (.msg s u) = true := by simpa [Val.isNone] using hp
        simp [walkFields, hrest, ih _ _ this]
      all_goals
        exfalso
        simp only [Val.isNone, Bool.false_or] at hp
        have := msgOK_isMsg hp
        simp at this
  | repeated pk =>
    cases v <;> simp [slotOK] at hp
    case list nn es =>
      cases elem with
      | scalar k => simp [walkFields, hrest]
      | message j =>
        rw [walkFields.eq_5 S fuel _ rest _ j pk rfl rfl (by intro h; cases h), hrest, Bool.or_false]
        simp only [Val.elems]
        rw [List.any_eq_false]
        intro x hx
        have := hp x hx
        simp only [elemOK, Bool.and_false, Bool.false_or] at this
        simp [ih _ _ this]
  | map kk =>
    cases v <;> simp [slotOK] at hp
    case map nn es =>
      cases elem with
      | scalar k => simp [walkFields, hrest]
      | message j =>
        rw [walkFields.eq_6 S fuel _ rest _ j kk rfl rfl (by intro h; cases h), hrest, Bool.or_false]
        simp only [Val.elems]
        rw [List.any_eq_false]
        intro en hen
        have := hp.1 en hen
        cases en <;> simp [entryOK, elemOK] at this
        case entry k x => simp [Val.value, ih _ _ this.2]
  | oneof g =>
    cases v <;> simp [slotOK] at hp
    case none => cases elem <;> simp [walkFields, hrest]
    case one x =>
      cases elem with
      | scalar k => simp [walkFields, hrest]
      | message j =>
        simp only [elemOK, Bool.and_false, Bool.false_or] at hp
        simp [walkFields, hrest, ih _ _ hp]

theorem walkFields_false {S : Schema} {fuel : Nat}
    (ih : ∀ j x, msgOK S false fuel j x = true → walkPanics S fuel j x = false) :
    ∀ (fvs : List (FieldDesc × Val)),
      (∀ p ∈ fvs, slotOK (msgOK S false fuel) false p.1 p.2 = true) → walkFields S fuel fvs = false := by
  intro fvs
  induction fvs with
  | nil => intro _; simp [walkFields]
  | cons p rest ihr =>
    intro h
    obtain ⟨f, v⟩ := p
    exact walkFields_head ih f v rest (h (f, v) List.mem_cons_self)
      (ihr (fun q hq => h q (List.mem_cons_of_mem _ hq)))

theorem walkPanics_false {S : Schema} : ∀ (fuel i : Nat) (v : Val),
    msgOK S false fuel i v = true → walkPanics S fuel i v = false := by
  intro fuel
  induction fuel with
  | zero => intro i v h; simp [msgOK] at h
  | succ fuel ih =>
    intro i v h
    obtain ⟨slots, u, rfl⟩ := msgOK_isMsg h
    simp only [msgOK, msgOKLvl, Bool.and_eq_true, List.all_eq_true] at h
    rw [walkPanics]
    simp only [Val.isNone, Bool.false_eq_true, if_false, Val.slots]
    exact walkFields_false ih _ h.1.2

/-! ### the length does not depend on the entry order -/

section lengths
variable {c c' : Nat → Val → Bytes}

theorem specElem_length_congr (hc : ∀ j x, (c j x).length = (c' j x).length) (e : Elem) (v : Val) :
    (specElem c e v).length = (specElem c' e v).length := by
  cases e with
  | scalar k => rfl
  | message i => simp [specElem, hc]

theorem specEntry_length_congr (hc : ∀ j x, (c j x).length = (c' j x).length) (kk : Kind) (e : Elem)
    (en : Val) : (specEntry c kk e en).length = (specEntry c' kk e en).length := by
  simp [specEntry, specElem_length_congr hc]

theorem gField_length_congr {ord ord' : Kind → List Val → List Val}
    (hord : ∀ kk es, (ord kk es).Perm (ord' kk es))
    (hc : ∀ j x, (c j x).length = (c' j x).length) (f : FieldDesc) (v : Val) :
    (gField ord c f v).length = (gField ord' c' f v).length := by
  unfold gField
  cases f.shape with
  | singular =>
    cases f.elem with
    | scalar k => rfl
    | message i => simp only; split <;> simp [specElem_length_congr hc]
  | oneof g =>
    cases v <;> simp [specElem_length_congr hc]
  | repeated pk =>
    simp only
    split
    · rfl
    · have hl : (v.elems.map (specElem c f.elem)).flatten.length =
          (v.elems.map (specElem c' f.elem)).flatten.length := by
        simp only [List.length_flatten, List.map_map]
        congr 1
        apply List.map_congr_left
        intro x _
        exact specElem_length_congr hc _ _
      split
      · simp only [List.length_append, hl]
      · simp only [List.length_flatten, List.map_map]
        congr 1
        apply List.map_congr_left
        intro x _
        simp [specElem_length_congr hc]
  | map kk =>
    simp only [List.length_flatten, List.map_map]
    have h1 : (ord kk v.elems).map (List.length ∘ fun en =>
          tag f.num 2 ++ varint (specEntry c kk f.elem en).length ++ specEntry c kk f.elem en) =
        (ord kk v.elems).map (List.length ∘ fun en =>
          tag f.num 2 ++ varint (specEntry c' kk f.elem en).length ++ specEntry c' kk f.elem en) := by
      apply List.map_congr_left
      intro en _
      simp [specEntry_length_congr hc]
    rw [h1]
    exact ((hord kk v.elems).map _).sum_nat

theorem gEncode_length_congr (S : Schema) {ord ord' : Kind → List Val → List Val}
    (hord : ∀ kk es, (ord kk es).Perm (ord' kk es)) :
    ∀ (fuel i : Nat) (v : Val), (gEncode S ord fuel i v).length = (gEncode S ord' fuel i v).length := by
  intro fuel
  induction fuel with
  | zero => intro i v; rfl
  | succ fuel ih =>
    intro i v
    simp only [gEncode]
    split
    · rfl
    · simp only [gEncodeLvl, List.length_append, List.length_flatten, List.map_map]
      congr 2
      apply List.map_congr_left
      intro p _
      exact gField_length_congr hord ih p.1 p.2

end lengths

/-! ### summary -/

/-- Everything C02/C04 need, in one statement: on a well-typed value of a well-formed schema the
    generated Marshal succeeds with the bytes `gEncode (ordOf o)`, Size is their length, which is the
    length of the reference encoding; with Deterministic the bytes are the reference encoding. -/
theorem marshal_ok {S : Schema} (hS : S.WF = true) (o : MOpts) (hord : ∀ kk es, (ordOf o kk es).Perm es)
    (fuel i : Nat) (v : Val) (hi : i < S.msgs.length) (hv : msgOK S false fuel i v = true) :
    implMarshal S o fuel i v = .ok (gEncode S (ordOf o) fuel i v) ∧
    implSize S o fuel i v = (gEncode S (ordOf o) fuel i v).length ∧
    (gEncode S (ordOf o) fuel i v).length = (specEncode S fuel i v).length ∧
    (o.det = true → gEncode S (ordOf o) fuel i v = specEncode S fuel i v) := by
  obtain ⟨h1, h2⟩ := closure_ok hS o hord fuel i v hi hv
  refine ⟨?_, h2, ?_, ?_⟩
  · simp [implMarshal, h1, walkPanics_false fuel i v hv]
  · rw [specEncode_eq_g]
    exact gEncode_length_congr S
      (fun kk es => (hord kk es).trans (sortEntries_perm kk es).symm) fuel i v
  · intro hdet
    rw [specEncode_eq_g, ordOf_det o hdet]

end Pulsar
