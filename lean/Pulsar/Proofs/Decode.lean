/-
  Pulsar.Proofs.Decode — helper lemmas about the generated unmarshal closure (C06, C14).
  Split over several files; this module re-exports them.
-/
import Pulsar.Proofs.DecodeReaders
import Pulsar.Proofs.DecodeNoPanic
import Pulsar.Proofs.DecodeFuel
import Pulsar.Proofs.DecodeNoNil
import Pulsar.Proofs.DecodeDiscard
import Pulsar.Proofs.DecodeDepth
import Pulsar.Proofs.DecodeDeep
import Pulsar.Proofs.MarshalTotal
import Pulsar.Proofs.DecodeGood
