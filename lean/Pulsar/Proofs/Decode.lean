import Pulsar.Typing
import Pulsar.Proofs.Runtime
namespace Pulsar
end Pulsar
