/-
  Helper lemmas for the codec ops (`size` / `enc`) of the reflection machines, and for the UTF-8 invariant:

  * fuel stability: `msgOK`, `specEncode`, `utf8OK` only look `v.depth` levels down;
  * `utf8OK` does not depend on the representation (`repNorm`);
  * leaf and path refinement of the codec ops (C02 + C04 + C05 composed), then of *every* read path;
  * `Op.utf8`: the string arguments of a write op are valid UTF-8; such ops preserve `utf8OK`.
-/
import Pulsar.Proofs.ReflectCor
import Pulsar.Proofs.Encode
import Pulsar.Proofs.ValDepth
namespace Pulsar

/-! ### typing bounds the depth -/

theorem rc_scalarOK_depth {k : Kind} {v : Val} (h : scalarOK k v = true) : v.depth = 0 := by
  cases v <;> simp [scalarOK] at h <;> simp

theorem rc_elemOK_depth {child : Nat → Val → Bool} {n : Nat} (hc : ∀ i v, child i v = true → v.depth ≤ n)
    {e : Elem} {b : Bool} {v : Val} (h : elemOK child e b v = true) : v.depth ≤ n := by
  cases e with
  | scalar k =>
    simp only [elemOK] at h
    rw [rc_scalarOK_depth h]; omega
  | message i =>
    simp only [elemOK, Bool.or_eq_true, Bool.and_eq_true] at h
    rcases h with h | h
    · rw [isNone_eq h.1]; simp
    · exact hc i v h

theorem rc_slotOK_depth {child : Nat → Val → Bool} {n : Nat} (hc : ∀ i v, child i v = true → v.depth ≤ n)
    {f : FieldDesc} {v : Val} (h : slotOK child false f v = true) : v.depth ≤ n := by
  cases hs : f.shape with
  | singular => exact rc_elemOK_depth hc (slotOK_singular hs h)
  | repeated p =>
    obtain ⟨nn, es, rfl, hall⟩ := slotOK_repeated hs h
    simp only [Val.depth_list]
    exact Val.depthList_le (fun x hx => rc_elemOK_depth hc (List.all_eq_true.1 hall x hx))
  | map kk =>
    obtain ⟨nn, es, rfl, hall, _⟩ := slotOK_map hs h
    simp only [Val.depth_map]
    refine Val.depthList_le (fun x hx => ?_)
    obtain ⟨k, v, rfl, hk, hv⟩ := entryOK_inv (List.all_eq_true.1 hall x hx)
    have := rc_elemOK_depth hc hv
    simp only [Val.depth_entry, rc_scalarOK_depth hk]
    omega
  | oneof g =>
    rcases slotOK_oneof hs h with rfl | ⟨x, rfl, hx⟩
    · simp
    · simp only [Val.depth_one]; exact rc_elemOK_depth hc hx

theorem rc_msgOK_slots {S : Schema} {n i : Nat} {slots : List Val} {u : Bytes}
    (hm : msgOK S false (n+1) i (.msg slots u) = true) :
    ∀ p ∈ (S.msg i).fields.zip slots, slotOK (msgOK S false n) false p.1 p.2 = true := by
  rw [msgOK_succ] at hm
  simp only [Bool.and_eq_true] at hm
  exact List.all_eq_true.1 hm.1.2

theorem rc_mem_zip_of_mem_right {α β} : ∀ {fs : List α} {vs : List β} {v : β}, vs.length = fs.length → v ∈ vs →
    ∃ f, (f, v) ∈ fs.zip vs
  | [], [], _, _, h => by cases h
  | [], _ :: _, _, hl, _ => by simp at hl
  | _ :: _, [], _, hl, _ => by simp at hl
  | f :: fs, w :: vs, v, hl, h => by
    rcases List.mem_cons.1 h with rfl | h
    · exact ⟨f, by simp⟩
    · obtain ⟨f', hf'⟩ := rc_mem_zip_of_mem_right (fs := fs) (by simpa using hl) h
      exact ⟨f', by simp [hf']⟩

/-- a value typed with fuel `n` has nesting depth at most `n` -/
theorem rc_msgOK_depth_le (S : Schema) : ∀ (n i : Nat) (v : Val), msgOK S false n i v = true → v.depth ≤ n := by
  intro n
  induction n with
  | zero => intro i v h; simp [msgOK] at h
  | succ n ih =>
    intro i v h
    obtain ⟨slots, u, rfl⟩ := rf_msgOK_isMsg h
    have hlen := msgOK_length h
    have hall := rc_msgOK_slots h
    simp only [Val.depth_msg]
    have : Val.depthList slots ≤ n := by
      refine Val.depthList_le (fun x hx => ?_)
      obtain ⟨f, hf⟩ := rc_mem_zip_of_mem_right hlen hx
      exact rc_slotOK_depth (fun j c hc => ih j c hc) (hall _ hf)
    omega

/-! ### `msgOK` only needs fuel ≥ depth -/

theorem rc_elemOK_fuel {child child' : Nat → Val → Bool} {m : Nat}
    (hc : ∀ i v, v.depth ≤ m → child i v = true → child' i v = true)
    {e : Elem} {b : Bool} {v : Val} (hd : v.depth ≤ m) (h : elemOK child e b v = true) :
    elemOK child' e b v = true := by
  cases e with
  | scalar k => exact h
  | message i =>
    simp only [elemOK, Bool.or_eq_true, Bool.and_eq_true] at h ⊢
    rcases h with h | h
    · exact Or.inl h
    · exact Or.inr (hc i v hd h)

theorem rc_slotOK_fuel {child child' : Nat → Val → Bool} {m : Nat}
    (hc : ∀ i v, v.depth ≤ m → child i v = true → child' i v = true)
    {f : FieldDesc} {v : Val} (hd : v.depth ≤ m) (h : slotOK child false f v = true) :
    slotOK child' false f v = true := by
  cases hs : f.shape with
  | singular =>
    have := rc_elemOK_fuel hc hd (slotOK_singular hs h)
    simpa only [slotOK, hs] using this
  | repeated p =>
    obtain ⟨nn, es, rfl, hall⟩ := slotOK_repeated hs h
    simp only [slotOK, hs, List.all_eq_true]
    intro x hx
    exact rc_elemOK_fuel hc (Nat.le_trans (Val.depth_elem_le (v := .list nn es) hx) hd)
      (List.all_eq_true.1 hall x hx)
  | map kk =>
    obtain ⟨nn, es, rfl, hall, hdist⟩ := slotOK_map hs h
    simp only [slotOK, hs, Bool.and_eq_true, List.all_eq_true]
    refine ⟨fun x hx => ?_, hdist⟩
    have hxd : x.depth ≤ m := Nat.le_trans (Val.depth_elem_le (v := .map nn es) hx) hd
    obtain ⟨k, v, rfl, hk, hv⟩ := entryOK_inv (List.all_eq_true.1 hall x hx)
    simp only [entryOK, hk, Bool.true_and]
    refine rc_elemOK_fuel hc ?_ hv
    simp only [Val.depth_entry] at hxd; omega
  | oneof g =>
    rcases slotOK_oneof hs h with rfl | ⟨x, rfl, hx⟩
    · simp only [slotOK, hs]
    · simp only [slotOK, hs]
      exact rc_elemOK_fuel hc (by simpa using hd) hx

/-- a value typed with some fuel is typed with any fuel that covers its depth -/
theorem rc_msgOK_fuel (S : Schema) : ∀ (n m i : Nat) (v : Val), msgOK S false n i v = true → v.depth ≤ m →
    msgOK S false m i v = true := by
  intro n
  induction n with
  | zero => intro m i v h; simp [msgOK] at h
  | succ n ih =>
    intro m i v h hd
    obtain ⟨slots, u, rfl⟩ := rf_msgOK_isMsg h
    simp only [Val.depth_msg] at hd
    obtain ⟨m, rfl⟩ : ∃ m', m = m' + 1 := ⟨m - 1, by omega⟩
    have hall := rc_msgOK_slots h
    rw [msgOK_succ] at h ⊢
    simp only [Bool.and_eq_true] at h ⊢
    refine ⟨⟨h.1.1, ?_⟩, h.2⟩
    rw [List.all_eq_true]
    intro p hp
    have hpd : p.2.depth ≤ m := by
      have := Val.depth_le_depthList (List.of_mem_zip hp).2
      omega
    exact rc_slotOK_fuel (fun j c hcd hc => ih m j c hc hcd) hpd (hall p hp)

/-! ### `specEncode` only needs fuel ≥ depth -/

theorem rc_specElem_congr {c c' : Nat → Val → Bytes} {m : Nat} (hc : ∀ i v, v.depth ≤ m → c i v = c' i v)
    (e : Elem) {v : Val} (hd : v.depth ≤ m) : specElem c e v = specElem c' e v := by
  cases e with
  | scalar k => rfl
  | message i => simp only [specElem, hc i v hd]

theorem rc_specField_congr {c c' : Nat → Val → Bytes} {m : Nat} (hc : ∀ i v, v.depth ≤ m → c i v = c' i v)
    (f : FieldDesc) {v : Val} (hd : v.depth ≤ m) : specField c f v = specField c' f v := by
  unfold specField
  cases hs : f.shape with
  | singular =>
    simp only []
    cases he : f.elem with
    | scalar k => rfl
    | message i => simp only [← he, rc_specElem_congr hc f.elem hd]
  | oneof g =>
    cases v <;> try rfl
    simp only [rc_specElem_congr hc f.elem (by simpa using hd)]
  | repeated p =>
    have hmap : ∀ (g : Bytes → Bytes),
        v.elems.map (fun x => g (specElem c f.elem x)) = v.elems.map (fun x => g (specElem c' f.elem x)) := by
      intro g
      apply List.map_congr_left
      intro x hx
      rw [rc_specElem_congr hc f.elem (Nat.le_trans (Val.depth_elem_le hx) hd)]
    simp only []
    have h1 := hmap id
    have h2 := hmap (fun b => specTag f ++ b)
    simp only [id] at h1
    rw [show (fun x => specElem c f.elem x) = specElem c f.elem from rfl,
        show (fun x => specElem c' f.elem x) = specElem c' f.elem from rfl] at h1
    rw [h1, h2]
  | map kk =>
    simp only []
    congr 1
    apply List.map_congr_left
    intro en hen
    have hen' : en ∈ v.elems := (sortEntries_perm kk v.elems).mem_iff.1 hen
    have hvd : en.value.depth ≤ m :=
      Nat.le_trans (Val.depth_value_le en) (Nat.le_trans (Val.depth_elem_le hen') hd)
    simp only [specEntry, rc_specElem_congr hc f.elem hvd]

theorem rc_specEncode_not_msg (S : Schema) (F i : Nat) (v : Val) (h : ∀ s u, v ≠ .msg s u) :
    specEncode S F i v = [] := by
  cases F with
  | zero => rfl
  | succ F =>
    cases v <;> first
      | exact absurd rfl (h _ _)
      | simp [specEncode, specEncodeLvl, Val.isNone, Val.slots, Val.unknown, sortFV]

theorem rc_not_msg_of_depth_zero {v : Val} (h : v.depth = 0) : ∀ s u, v ≠ .msg s u := by
  intro s u hv
  rw [hv] at h
  simp at h

theorem rc_specEncode_fuel (S : Schema) : ∀ (F1 F2 i : Nat) (v : Val), v.depth ≤ F1 → v.depth ≤ F2 →
    specEncode S F1 i v = specEncode S F2 i v := by
  intro F1
  induction F1 with
  | zero =>
    intro F2 i v h1 _
    have := rc_not_msg_of_depth_zero (v := v) (by omega)
    rw [rc_specEncode_not_msg S 0 i v this, rc_specEncode_not_msg S F2 i v this]
  | succ F1 ih =>
    intro F2 i v h1 h2
    cases F2 with
    | zero =>
      have := rc_not_msg_of_depth_zero (v := v) (by omega)
      rw [rc_specEncode_not_msg S _ i v this, rc_specEncode_not_msg S 0 i v this]
    | succ F2 =>
      cases v with
      | msg slots u =>
        simp only [Val.depth_msg] at h1 h2
        simp only [specEncode, Val.isNone_msg, Bool.false_eq_true, if_false, specEncodeLvl, Val.slots_msg]
        congr 2
        apply List.map_congr_left
        intro p hp
        rw [sortFV_eq, mem_isort] at hp
        have hs := Val.depth_le_depthList (List.of_mem_zip hp).2
        exact rc_specField_congr (m := min F1 F2) (fun j x hx => ih F2 j x (by omega) (by omega)) p.1 (by omega)
      | _ =>
        rw [rc_specEncode_not_msg S _ i _ (by intro s u h; cases h),
          rc_specEncode_not_msg S _ i _ (by intro s u h; cases h)]

/-! ### `utf8OK`: fuel stability and independence of the representation -/

theorem rc_all_congr {α} {p q : α → Bool} : ∀ {l : List α}, (∀ x ∈ l, p x = q x) → l.all p = l.all q
  | [], _ => rfl
  | a :: l, h => by
    simp only [List.all_cons, h a List.mem_cons_self,
      rc_all_congr (l := l) (fun x hx => h x (List.mem_cons_of_mem _ hx))]

theorem rc_all_perm {α} {p : α → Bool} {L M : List α} (hp : L.Perm M) : L.all p = M.all p := by
  induction hp with
  | nil => rfl
  | cons x _ ih => simp only [List.all_cons, ih]
  | swap x y l => simp only [List.all_cons, Bool.and_left_comm]
  | trans _ _ ih1 ih2 => exact ih1.trans ih2

theorem rc_utf8Elem_congr {c c' : Nat → Val → Bool} {m : Nat} (hc : ∀ i v, v.depth ≤ m → c i v = c' i v)
    (e : Elem) {v : Val} (hd : v.depth ≤ m) : utf8Elem c e v = utf8Elem c' e v := by
  cases e with
  | scalar k => cases k <;> rfl
  | message i => simp only [utf8Elem, hc i v hd]

theorem rc_utf8Slot_congr {c c' : Nat → Val → Bool} {m : Nat} (hc : ∀ i v, v.depth ≤ m → c i v = c' i v)
    (f : FieldDesc) {v : Val} (hd : v.depth ≤ m) : utf8Slot c f v = utf8Slot c' f v := by
  unfold utf8Slot
  cases hs : f.shape with
  | singular => exact rc_utf8Elem_congr hc f.elem hd
  | repeated p =>
    exact rc_all_congr (fun x hx => rc_utf8Elem_congr hc f.elem (Nat.le_trans (Val.depth_elem_le hx) hd))
  | map kk =>
    refine rc_all_congr (fun en hen => ?_)
    have hvd : en.value.depth ≤ m :=
      Nat.le_trans (Val.depth_value_le en) (Nat.le_trans (Val.depth_elem_le hen) hd)
    simp only [rc_utf8Elem_congr hc f.elem hvd]
  | oneof g =>
    cases v <;> try rfl
    exact rc_utf8Elem_congr hc f.elem (by simpa using hd)

theorem rc_utf8OK_not_msg (S : Schema) (F i : Nat) (v : Val) (h : ∀ s u, v ≠ .msg s u) :
    utf8OK S F i v = true := by
  cases F with
  | zero => rfl
  | succ F =>
    cases v <;> first
      | exact absurd rfl (h _ _)
      | simp [utf8OK, Val.slots]

theorem rc_utf8OK_fuel (S : Schema) : ∀ (F1 F2 i : Nat) (v : Val), v.depth ≤ F1 → v.depth ≤ F2 →
    utf8OK S F1 i v = utf8OK S F2 i v := by
  intro F1
  induction F1 with
  | zero =>
    intro F2 i v h1 _
    have := rc_not_msg_of_depth_zero (v := v) (by omega)
    rw [rc_utf8OK_not_msg S 0 i v this, rc_utf8OK_not_msg S F2 i v this]
  | succ F1 ih =>
    intro F2 i v h1 h2
    cases F2 with
    | zero =>
      have := rc_not_msg_of_depth_zero (v := v) (by omega)
      rw [rc_utf8OK_not_msg S _ i v this, rc_utf8OK_not_msg S 0 i v this]
    | succ F2 =>
      cases v with
      | msg slots u =>
        simp only [Val.depth_msg] at h1 h2
        simp only [utf8OK, Val.slots_msg]
        refine rc_all_congr (fun p hp => ?_)
        have hs := Val.depth_le_depthList (List.of_mem_zip hp).2
        exact rc_utf8Slot_congr (m := min F1 F2) (fun j x hx => ih F2 j x (by omega) (by omega)) p.1 (by omega)
      | _ =>
        rw [rc_utf8OK_not_msg S _ i _ (by intro s u h; cases h),
          rc_utf8OK_not_msg S _ i _ (by intro s u h; cases h)]

theorem rc_utf8Elem_repElem {U : Nat → Val → Bool} {rn : Nat → Val → Val}
    (h : ∀ i v, U i (rn i v) = U i v) (hn : ∀ i v, (rn i v).isNone = v.isNone) (e : Elem) (v : Val) :
    utf8Elem U e (repElem rn e v) = utf8Elem U e v := by
  cases e with
  | scalar k => cases k <;> cases v <;> rfl
  | message i =>
    cases hv : v.isNone with
    | true => simp only [repElem, hv, if_true]
    | false => simp only [repElem, hv, Bool.false_eq_true, if_false, utf8Elem, hn, h]

theorem rc_utf8Slot_repSlot {U : Nat → Val → Bool} {rn : Nat → Val → Val}
    (h : ∀ i v, U i (rn i v) = U i v) (hn : ∀ i v, (rn i v).isNone = v.isNone) (f : FieldDesc) (v : Val) :
    utf8Slot U f (repSlot rn f v) = utf8Slot U f v := by
  cases hs : f.shape with
  | singular =>
    rw [repSlot_singular _ _ hs]
    simp only [utf8Slot, hs]
    exact rc_utf8Elem_repElem h hn f.elem v
  | repeated p =>
    rw [repSlot_repeated _ _ _ hs]
    simp only [utf8Slot, hs, Val.elems_list, List.all_map]
    exact rc_all_congr (fun x _ => rc_utf8Elem_repElem h hn f.elem x)
  | map kk =>
    rw [repSlot_map _ _ _ hs]
    simp only [utf8Slot, hs, Val.elems_map]
    rw [rc_all_perm (rf_sortEntries_perm kk _), List.all_map]
    refine rc_all_congr (fun en _ => ?_)
    simp only [Function.comp, normEntry_key, normEntry_value, repElem_getBlob, rc_utf8Elem_repElem h hn]
  | oneof g =>
    rw [repSlot_oneof _ _ _ hs]
    cases v <;> try rfl
    simp only [utf8Slot, hs]
    exact rc_utf8Elem_repElem h hn f.elem _

/-- `utf8OK` is a property of the message value, not of its representation -/
theorem rc_utf8OK_repNorm (S : Schema) : ∀ (n i : Nat) (v : Val), utf8OK S n i (repNorm S n i v) = utf8OK S n i v
  | 0, _, _ => rfl
  | n+1, i, v => by
    cases v with
    | msg slots u =>
      rw [repNorm_succ]
      simp only [utf8OK, Val.slots_msg, absSlots]
      rw [zip_map_right (fun f v => repSlot (repNorm S n) f v), List.all_map]
      exact rc_all_congr (fun p _ => rc_utf8Slot_repSlot (fun j x => rc_utf8OK_repNorm S n j x)
        (fun j x => repNorm_isNone S n j x) p.1 p.2)
    | _ => rfl

/-! ### the codec ops: leaves -/

/-- `size` and `enc` on a well-typed message with valid UTF-8: the generated code's `proto.Size` /
    deterministic `proto.Marshal` on the Go struct agree with the reference encoder on the abstract message
    (C04, C02, C05 composed; the fuels `depth + 1` used by the two machines are immaterial). -/
theorem rc_read_codec_msg (S : Schema) (hS : S.WF = true) (n i : Nat) (s : Val) (hi : i < S.msgs.length)
    (hs : msgOK S false n i s = true) (hu : utf8OK S n i s = true) (o : ROp) (hc : o.usesCodec = true) :
    SpecReflect.read S i (abs S n i s) o = Reflect.read S i s o := by
  -- the IMPL side, at the fuel the machine uses
  have hd := rc_msgOK_depth_le S n i s hs
  have hs' : msgOK S false (s.depth + 1) i s = true := rc_msgOK_fuel S n _ i s hs (by omega)
  obtain ⟨h1, h2, h3, h4⟩ := marshal_ok hS Reflect.mopts (fun kk es => sortEntries_perm kk es) (s.depth + 1) i s hi hs'
  -- the SPEC side
  obtain ⟨hok, henc⟩ := repNorm_ok S n i s hs
  have hd' := rc_msgOK_depth_le S n i _ hok
  have hE : specEncode S ((abs S n i s).depth + 1) i (abs S n i s) = specEncode S (s.depth + 1) i s := by
    unfold abs
    rw [rc_specEncode_fuel S _ n i _ (by omega) hd', henc]
    exact rc_specEncode_fuel S n (s.depth + 1) i s hd (by omega)
  have hU : utf8OK S ((abs S n i s).depth + 1) i (abs S n i s) = true := by
    unfold abs
    rw [rc_utf8OK_fuel S _ n i _ (by omega) hd', rc_utf8OK_repNorm, hu]
  cases o <;> simp only [ROp.usesCodec, Bool.false_eq_true] at hc
  · simp only [SpecReflect.read, Reflect.read, hE, h2, h3]
  · simp only [SpecReflect.read, Reflect.read, SpecReflect.encOf, hU, if_true, hE, h1, h4 rfl]

theorem rc_depth_none_succ : Val.none.depth + 1 = 1 := by simp

/-- … and on the nil receiver / the invalid message: no bytes on both sides -/
theorem rc_read_codec_none (S : Schema) (i : Nat) (o : ROp) (hc : o.usesCodec = true) :
    SpecReflect.read S i .none o = Reflect.read S i .none o := by
  cases o <;> simp only [ROp.usesCodec, Bool.false_eq_true] at hc
  · simp only [SpecReflect.read, Reflect.read, implSize_none, rc_depth_none_succ, specEncode, Val.isNone, if_true,
      List.length_nil]
  · simp only [SpecReflect.read, Reflect.read, SpecReflect.encOf, implMarshal_none, rc_depth_none_succ, specEncode,
      Val.isNone, if_true, utf8OK, Val.slots, List.zip_nil_right, List.all_nil]

/-! ### the codec ops: read paths (every read op, codec or not) -/

theorem rc_utf8Slot_none (U : Nat → Val → Bool) (f : FieldDesc) : utf8Slot U f .none = true := by
  unfold utf8Slot
  cases f.shape <;> simp only [Val.elems, List.all_nil]
  cases he : f.elem with
  | scalar k => cases k <;> simp [utf8Elem, Val.getBlob, utf8Valid]
  | message i => simp [utf8Elem, Val.isNone]

theorem rc_utf8Slot_getD {U : Nat → Val → Bool} {fs : List FieldDesc} {slots : List Val} {j : Nat} {f : FieldDesc}
    (h : (fs.zip slots).all (fun p => utf8Slot U p.1 p.2) = true) (hf : fs[j]? = some f) :
    utf8Slot U f (slots.getD j .none) = true := by
  by_cases hj : j < slots.length
  · exact List.all_eq_true.1 h _ (mem_zip_getD Val.none fs slots j f hf hj)
  · rw [List.getD_eq_getElem?_getD, List.getElem?_eq_none (by omega)]
    exact rc_utf8Slot_none U f

theorem rc_utf8OK_succ (S : Schema) (n i : Nat) (slots : List Val) (u : Bytes) :
    utf8OK S (n+1) i (.msg slots u)
      = ((S.msg i).fields.zip slots).all (fun p => utf8Slot (utf8OK S n) p.1 p.2) := rfl

theorem rc_field_msg_lt {S : Schema} (hS : S.WF = true) {i j mi : Nat} {f : FieldDesc} (hi : i < S.msgs.length)
    (hf : (S.msg i).fields[j]? = some f) (he : f.elem = .message mi) : mi < S.msgs.length := by
  have := MsgDesc.wf_field (Schema.msg_wf hS hi) (List.mem_of_getElem? hf)
  simp only [FieldDesc.wf, he, Bool.and_eq_true, decide_eq_true_eq] at this
  exact this.1.2

theorem rc_stepR_none_all (S : Schema) : ∀ (op : Op) (i : Nat),
    SpecReflect.stepR S i .none op = Reflect.stepR S i .none op
  | .r o, i => by
    cases hc : o.usesCodec with
    | false => exact read_refines_none S i o hc
    | true => exact rc_read_codec_none S i o hc
  | .w _, _ => rfl
  | .in j op, i => by
    simp only [SpecReflect.stepR, Reflect.stepR, Val.isNone, if_true]
    cases hf : (S.msg i).fields[j]? with
    | none => rfl
    | some f =>
      simp only [emptyMsg_slot S i j f hf]
      cases he : f.elem with
      | scalar k => rfl
      | message mi =>
        cases hs : f.shape <;> simp only [FieldDesc.zero, hs, he]
        · exact rc_stepR_none_all S op mi
        · exact rc_stepR_none_all S op mi
  | .at j k op, i => by
    simp only [SpecReflect.stepR, Reflect.stepR, Val.isNone, if_true]
    cases hf : (S.msg i).fields[j]? with
    | none => rfl
    | some f =>
      simp only [emptyMsg_slot S i j f hf]
      cases he : f.elem with
      | scalar k => rfl
      | message mi => cases hs : f.shape <;> simp [FieldDesc.zero, hs, he]
  | .mv j k op, i => by
    simp only [SpecReflect.stepR, Reflect.stepR, Val.isNone, if_true]
    cases hf : (S.msg i).fields[j]? with
    | none => rfl
    | some f =>
      simp only [emptyMsg_slot S i j f hf]
      cases he : f.elem with
      | scalar k => rfl
      | message mi => cases hs : f.shape <;> simp [FieldDesc.zero, hs, he, findEntry]

/-- every read op, at every path, gives the same output on the Go struct and on the abstract message —
    `size` / `enc` included, provided the strings are valid UTF-8 -/
theorem rc_stepR_all (S : Schema) (hS : S.WF = true) : ∀ (op : Op) (n i : Nat) (s : Val), i < S.msgs.length →
    msgOK S false n i s = true → utf8OK S n i s = true →
    SpecReflect.stepR S i (abs S n i s) op = Reflect.stepR S i s op
  | _, 0, _, _, _, hs, _ => by simp [msgOK] at hs
  | .r o, n+1, i, s, hi, hs, hu => by
    cases hc : o.usesCodec with
    | false => exact read_refines_msg S n i s o hs hc
    | true => exact rc_read_codec_msg S hS (n+1) i s hi hs hu o hc
  | .w _, _+1, _, _, _, _, _ => rfl
  | .in j op, n+1, i, s, hi, hs, hu => by
    obtain ⟨slots, u, rfl⟩ := rf_msgOK_isMsg hs
    have hlen := msgOK_length hs
    rw [rc_utf8OK_succ] at hu
    simp only [abs, repNorm_succ, SpecReflect.stepR, Reflect.stepR, Val.isNone_msg, Bool.false_eq_true, if_false,
      Val.slot, Val.slots_msg]
    cases hf : (S.msg i).fields[j]? with
    | none => rfl
    | some f =>
      simp only [absSlots_getD _ _ _ _ f hf hlen]
      have hv := slotOK_getD hs hf
      have huv := rc_utf8Slot_getD hu hf
      cases he : f.elem with
      | scalar k => rfl
      | message mi =>
        have hmi := rc_field_msg_lt hS hi hf he
        cases hsh : f.shape <;> simp only []
        · -- singular
          have hv' := slotOK_singular hsh hv
          simp only [he, elemOK, Bool.and_true, Bool.or_eq_true] at hv'
          rw [repSlot_singular _ _ hsh, he]
          rcases hv' with hnone | hok
          · rw [isNone_eq hnone]
            simp only [repElem, Val.isNone, if_true]
            exact rc_stepR_none_all S op mi
          · rw [repElem_msg_of_ok hok]
            have hcu : utf8OK S n mi (slots.getD j Val.none) = true := by
              simp only [utf8Slot, hsh, he, utf8Elem, msgOK_not_none hok, Bool.false_or] at huv
              exact huv
            exact rc_stepR_all S hS op n mi _ hmi hok hcu
        · -- oneof
          rw [repSlot_oneof _ _ _ hsh]
          rcases slotOK_oneof hsh hv with hnone | ⟨c, hc', hok⟩
          · rw [hnone]; exact rc_stepR_none_all S op mi
          · rw [hc'] at huv ⊢
            rw [he] at hok ⊢
            have hok' := elemOK_msg_false hok
            simp only [repElem_msg_of_ok hok']
            have hcu : utf8OK S n mi c = true := by
              simp only [utf8Slot, hsh, he, utf8Elem, msgOK_not_none hok', Bool.false_or] at huv
              exact huv
            exact rc_stepR_all S hS op n mi _ hmi hok' hcu
  | .at j k op, n+1, i, s, hi, hs, hu => by
    obtain ⟨slots, u, rfl⟩ := rf_msgOK_isMsg hs
    have hlen := msgOK_length hs
    rw [rc_utf8OK_succ] at hu
    simp only [abs, repNorm_succ, SpecReflect.stepR, Reflect.stepR, Val.isNone_msg, Bool.false_eq_true, if_false,
      Val.slot, Val.slots_msg]
    cases hf : (S.msg i).fields[j]? with
    | none => rfl
    | some f =>
      simp only [absSlots_getD _ _ _ _ f hf hlen]
      have hv := slotOK_getD hs hf
      have huv := rc_utf8Slot_getD hu hf
      cases he : f.elem with
      | scalar k => rfl
      | message mi =>
        have hmi := rc_field_msg_lt hS hi hf he
        cases hsh : f.shape <;> simp only []
        obtain ⟨nn, es, hes, hall⟩ := slotOK_repeated hsh hv
        rw [repSlot_repeated _ _ _ hsh, hes, Val.elems_list, Val.elems_list, List.getElem?_map]
        cases hk : es[k]? with
        | none => rfl
        | some c =>
          have hcm : c ∈ es := List.mem_of_getElem? hk
          have hok := List.all_eq_true.1 hall c hcm
          rw [he] at hok ⊢
          have hok' := elemOK_msg_false hok
          simp only [Option.map_some, repElem_msg_of_ok hok']
          have hcu : utf8OK S n mi c = true := by
            simp only [utf8Slot, hsh, hes, Val.elems_list, he] at huv
            have := List.all_eq_true.1 huv c hcm
            simpa only [utf8Elem, msgOK_not_none hok', Bool.false_or] using this
          exact rc_stepR_all S hS op n mi _ hmi hok' hcu
  | .mv j k op, n+1, i, s, hi, hs, hu => by
    obtain ⟨slots, u, rfl⟩ := rf_msgOK_isMsg hs
    have hlen := msgOK_length hs
    rw [rc_utf8OK_succ] at hu
    simp only [abs, repNorm_succ, SpecReflect.stepR, Reflect.stepR, Val.isNone_msg, Bool.false_eq_true, if_false,
      Val.slot, Val.slots_msg]
    cases hf : (S.msg i).fields[j]? with
    | none => rfl
    | some f =>
      simp only [absSlots_getD _ _ _ _ f hf hlen]
      have hv := slotOK_getD hs hf
      have huv := rc_utf8Slot_getD hu hf
      cases he : f.elem with
      | scalar k => rfl
      | message mi =>
        have hmi := rc_field_msg_lt hS hi hf he
        cases hsh : f.shape <;> simp only []
        rename_i kk
        obtain ⟨nn, es, hes, hall, hd⟩ := slotOK_map hsh hv
        have hd' := (rf_distinctKeys_iff kk es).1 hd
        rw [repSlot_map _ _ _ hsh, hes, Val.elems_map, Val.elems_map,
          findEntry_perm k (rf_sortEntries_perm _ _) (distinct_sort (distinct_map_normEntry _ kk f.elem hd')),
          findEntry_map_normEntry]
        cases hk : findEntry kk es k with
        | none => rfl
        | some en =>
          have hem : en ∈ es := List.mem_of_find?_eq_some hk
          obtain ⟨k0, v0, rfl, _, hok⟩ := entryOK_inv (List.all_eq_true.1 hall _ hem)
          rw [he] at hok ⊢
          have hok' := elemOK_msg_false hok
          simp only [Option.map_some, normEntry_value, Val.value_entry, repElem_msg_of_ok hok']
          have hcu : utf8OK S n mi v0 = true := by
            simp only [utf8Slot, hsh, hes, Val.elems_map, he] at huv
            have := List.all_eq_true.1 huv _ hem
            simp only [Val.value_entry, utf8Elem, msgOK_not_none hok', Bool.false_or, Bool.and_eq_true] at this
            exact this.2
          exact rc_stepR_all S hS op n mi _ hmi hok' hcu

/-! ### the UTF-8 invariant

  `Op.utf8 S n i op`: every string the op stores (a `Set`/`Append` argument, a map key that `Map.Set` /
  `Map.Mutable` may insert — also on the way to a nested write) is valid UTF-8, at every depth of a message
  argument. Such ops keep `utf8OK` of the state; no typing hypothesis is needed for that. -/

def keyUtf8 (f : FieldDesc) (k : Val) : Bool :=
  match f.shape with | .map kk => kk != .string || utf8Valid k.getBlob | _ => true

def setArgUtf8 (U : Nat → Val → Bool) (f : FieldDesc) (a : Val) : Bool :=
  match f.shape with
  | .singular => utf8Elem U f.elem a
  | .oneof _ => utf8Elem U f.elem a
  | _ => utf8Slot U f a

def WOp.utf8 (U : Nat → Val → Bool) (fs : List FieldDesc) : WOp → Bool
  | .set j a => (match fs[j]? with | some f => setArgUtf8 U f a | none => true)
  | .lset j _ a => (match fs[j]? with | some f => utf8Elem U f.elem a | none => true)
  | .lapp j a => (match fs[j]? with | some f => utf8Elem U f.elem a | none => true)
  | .mset j k a => (match fs[j]? with | some f => keyUtf8 f k && utf8Elem U f.elem a | none => true)
  | .mmut j k => (match fs[j]? with | some f => keyUtf8 f k | none => true)
  | _ => true

/-- the strings `op` may store in a target of type `i` are valid UTF-8 (checked down to `fuel` levels, the
    same fuel `utf8OK` is stated with) -/
def Op.utf8 (S : Schema) : Nat → Nat → Op → Bool
  | 0, _, _ => true
  | fuel+1, i, op =>
    let fs := (S.msg i).fields
    match op with
    | .r _ => true
    | .w o => o.utf8 (utf8OK S fuel) fs
    | .in j op =>
      (match fs[j]? with
       | some f => (match f.elem with | .message mi => Op.utf8 S fuel mi op | _ => true)
       | none => true)
    | .at j _ op =>
      (match fs[j]? with
       | some f => (match f.elem with | .message mi => Op.utf8 S fuel mi op | _ => true)
       | none => true)
    | .mv j k op =>
      (match fs[j]? with
       | some f => (match f.elem with
                    | .message mi => (!op.isWrite || keyUtf8 f k) && Op.utf8 S fuel mi op
                    | _ => true)
       | none => true)

theorem rc_utf8Valid_nil : utf8Valid [] = true := by simp [utf8Valid]

theorem rc_utf8Slot_zero (U : Nat → Val → Bool) (f : FieldDesc) : utf8Slot U f f.zero = true := by
  unfold utf8Slot FieldDesc.zero
  cases f.shape <;> cases he : f.elem <;> simp [utf8Elem, Val.isNone, Val.elems]
  rename_i k
  cases k <;> simp [Kind.isBlob, Val.getBlob, rc_utf8Valid_nil]

theorem rc_utf8OK_emptyMsg (S : Schema) (n i : Nat) : utf8OK S n i (emptyMsg S i) = true := by
  cases n with
  | zero => rfl
  | succ n =>
    simp only [emptyMsg, rc_utf8OK_succ]
    exact all_zip_zero (fun f v => utf8Slot (utf8OK S n) f v) (rc_utf8Slot_zero _) _

theorem rc_utf8Elem_scalar_congr (U : Nat → Val → Bool) (k : Kind) {x a : Val} (h : x.getBlob = a.getBlob) :
    utf8Elem U (.scalar k) x = utf8Elem U (.scalar k) a := by
  cases k <;> simp [utf8Elem, h]

theorem rc_storeElem_utf8 {U : Nat → Val → Bool} {e : Elem} {a x : Val} (h : Reflect.storeElem e a = some x)
    (ha : utf8Elem U e a = true) : utf8Elem U e x = true := by
  cases e with
  | scalar k => rw [rc_utf8Elem_scalar_congr U k (storeElem_scalar_bits h).2]; exact ha
  | message i =>
    cases a <;> simp only [Reflect.storeElem, Option.some.injEq, reduceCtorEq] at h <;> subst h <;> exact ha

/-- `utf8Elem` of a message-typed element gives `utf8OK` of it (a nil pointer has no strings) -/
theorem rc_utf8OK_of_elem {S : Schema} {n mi : Nat} {c : Val} (h : utf8Elem (utf8OK S n) (.message mi) c = true) :
    utf8OK S n mi c = true := by
  cases hc : c.isNone with
  | true => rw [isNone_eq hc]; exact rc_utf8OK_not_msg S n mi _ (by intro s u h; cases h)
  | false => simpa only [utf8Elem, hc, Bool.false_or] using h

theorem rc_utf8Elem_of_OK {S : Schema} {n mi : Nat} {c : Val} (h : utf8OK S n mi c = true) :
    utf8Elem (utf8OK S n) (.message mi) c = true := by
  simp only [utf8Elem, h, Bool.or_true]

/-- what a field-level outcome must satisfy to keep the invariant -/
def FWutf8 (U : Nat → Val → Bool) (f : FieldDesc) : FW → Prop
  | .panic => True
  | .put v => utf8Slot U f v = true
  | .putOne v => utf8Elem U f.elem v = true

theorem rc_all_append {α} (p : α → Bool) {l : List α} {x : α} (h : l.all p = true) (hx : p x = true) :
    (l ++ [x]).all p = true := by
  simp only [List.all_append, h, List.all_cons, hx, List.all_nil, Bool.and_self]

theorem rc_all_filter {α} (p q : α → Bool) {l : List α} (h : l.all p = true) : (l.filter q).all p = true := by
  rw [List.all_eq_true] at *
  exact fun x hx => h x (List.mem_filter.1 hx).1

theorem rc_keyUtf8_store {f : FieldDesc} {kk : Kind} {k k' : Val} (hsh : f.shape = .map kk)
    (hk : keyUtf8 f k = true) (hst : Reflect.storeElem (.scalar kk) k = some k') :
    (kk != .string || utf8Valid k'.getBlob) = true := by
  simp only [keyUtf8, hsh] at hk
  rw [(storeElem_scalar_bits hst).2]; exact hk

theorem rc_writeF_utf8 (S : Schema) (n : Nat) {fs : List FieldDesc} {f : FieldDesc} {j : Nat} {o : WOp} {v : Val}
    (hj : fs[j]? = some f) (hfld : WOp.field? o = some j)
    (hok : o.utf8 (utf8OK S n) fs = true) (hv : utf8Slot (utf8OK S n) f v = true) :
    FWutf8 (utf8OK S n) f (Reflect.writeF S f v o) := by
  cases o <;> simp only [WOp.field?, Option.some.injEq, reduceCtorEq] at hfld <;> subst hfld <;>
    simp only [WOp.utf8, hj] at hok <;> simp only [Reflect.writeF]
  case set a =>
    unfold Reflect.setF
    cases hsh : f.shape with
    | singular =>
      simp only [setArgUtf8, hsh] at hok
      cases hst : Reflect.storeElem f.elem a with
      | none => trivial
      | some x => simp only [FWutf8, utf8Slot, hsh]; exact rc_storeElem_utf8 hst hok
    | oneof g =>
      simp only [setArgUtf8, hsh] at hok
      cases hst : Reflect.storeElem f.elem a with
      | none => trivial
      | some x => exact rc_storeElem_utf8 hst hok
    | repeated p =>
      simp only [setArgUtf8, hsh] at hok
      cases a <;> try trivial
      rename_i nn es
      cases nn <;> first | trivial | (simpa only [FWutf8, utf8Slot, hsh] using hok)
    | map kk =>
      simp only [setArgUtf8, hsh] at hok
      cases a <;> try trivial
      rename_i nn es
      cases nn <;> first | trivial | (simpa only [FWutf8, utf8Slot, hsh] using hok)
  case clear => exact rc_utf8Slot_zero _ f
  case «mut» =>
    unfold Reflect.mutF
    cases hsh : f.shape with
    | singular =>
      cases he : f.elem with
      | scalar k => trivial
      | message mi =>
        simp only [FWutf8, utf8Slot, hsh, he]
        simp only [utf8Slot, hsh, he] at hv
        cases hc : v.isNone with
        | true => simp only [if_true]; exact rc_utf8Elem_of_OK (rc_utf8OK_emptyMsg S n mi)
        | false => simpa only [Bool.false_eq_true, if_false] using hv
    | repeated p =>
      simp only [FWutf8]
      simpa only [utf8Slot, hsh, Val.elems_list] using hv
    | map kk =>
      simp only [FWutf8]
      simpa only [utf8Slot, hsh, Val.elems_map] using hv
    | oneof g =>
      cases he : f.elem with
      | scalar k => trivial
      | message mi =>
        cases v <;> simp only [FWutf8] <;> try exact (he ▸ rc_utf8Elem_of_OK (rc_utf8OK_emptyMsg S n mi))
        rename_i y
        cases y <;> simp only [FWutf8] <;>
          first | exact hv | exact (he ▸ rc_utf8Elem_of_OK (rc_utf8OK_emptyMsg S n mi))
  case lset i a =>
    unfold Reflect.lsetF
    cases hsh : f.shape <;> try trivial
    cases hst : Reflect.storeElem f.elem a with
    | none => trivial
    | some x =>
      simp only []
      split
      · simp only [FWutf8, utf8Slot, hsh, Val.elems_list]
        simp only [utf8Slot, hsh] at hv
        exact all_set _ _ _ _ hv (rc_storeElem_utf8 hst hok)
      · trivial
  case lapp a =>
    unfold Reflect.lappF
    cases hsh : f.shape <;> try trivial
    cases hst : Reflect.storeElem f.elem a with
    | none => trivial
    | some x =>
      simp only [FWutf8, utf8Slot, hsh, Val.elems_list]
      simp only [utf8Slot, hsh] at hv
      exact rc_all_append _ hv (rc_storeElem_utf8 hst hok)
  case lappm =>
    unfold Reflect.lappmF
    cases hsh : f.shape <;> try trivial
    cases he : f.elem with
    | scalar k => trivial
    | message mi =>
      simp only [FWutf8, utf8Slot, hsh, Val.elems_list, he]
      simp only [utf8Slot, hsh, he] at hv
      exact rc_all_append _ hv (rc_utf8Elem_of_OK (rc_utf8OK_emptyMsg S n mi))
  case ltrunc m =>
    unfold Reflect.ltruncF
    cases hsh : f.shape <;> try trivial
    simp only []
    split
    · simp only [FWutf8, utf8Slot, hsh, Val.elems_list]
      simp only [utf8Slot, hsh] at hv
      exact all_take _ _ _ hv
    · trivial
  case mset k a =>
    unfold Reflect.msetF
    cases hsh : f.shape <;> try trivial
    rename_i kk
    simp only [Bool.and_eq_true] at hok
    simp only []
    cases hk : Reflect.storeElem (.scalar kk) k with
    | none => trivial
    | some k' =>
      cases hst : Reflect.storeElem f.elem a with
      | none => trivial
      | some x =>
        simp only [FWutf8, utf8Slot, hsh, Val.elems_map]
        simp only [utf8Slot, hsh] at hv
        refine all_mapPut _ _ _ _ hv ?_
        simp only [Val.key, Val.value, rc_keyUtf8_store hsh hok.1 hk, rc_storeElem_utf8 hst hok.2, Bool.and_self]
  case mclr k =>
    unfold Reflect.mclrF
    cases hsh : f.shape <;> try trivial
    simp only [FWutf8, utf8Slot, hsh, Val.elems_map, mapDel]
    simp only [utf8Slot, hsh] at hv
    exact rc_all_filter _ _ hv
  case mmut k =>
    unfold Reflect.mmutF
    cases hsh : f.shape <;> try trivial
    rename_i kk
    cases he : f.elem with
    | scalar k0 => trivial
    | message mi =>
      simp only []
      cases hk : Reflect.storeElem (.scalar kk) k with
      | none => trivial
      | some k' =>
        simp only [utf8Slot, hsh, he] at hv
        simp only []
        split
        · simpa only [FWutf8, utf8Slot, hsh, he, Val.elems_map] using hv
        · simp only [FWutf8, utf8Slot, hsh, he, Val.elems_map]
          refine rc_all_append _ hv ?_
          simp only [Val.key, Val.value, rc_keyUtf8_store hsh hok hk,
            rc_utf8Elem_of_OK (rc_utf8OK_emptyMsg S n mi), Bool.and_self]

theorem rc_all_clearGroup {U : Nat → Val → Bool} (fs : List FieldDesc) (g : Nat) (slots : List Val)
    (h : (fs.zip slots).all (fun p => utf8Slot U p.1 p.2) = true) :
    (fs.zip (clearGroup fs g slots)).all (fun p => utf8Slot U p.1 p.2) = true := by
  rw [zip_clearGroup, List.all_map, List.all_eq_true]
  intro p hp
  simp only [Function.comp]
  split
  · exact rc_utf8Slot_none U p.1
  · exact List.all_eq_true.1 h p hp

theorem rc_all_zip_set {U : Nat → Val → Bool} {fs : List FieldDesc} {slots : List Val} {j : Nat} {f : FieldDesc}
    {v : Val} (hf : fs[j]? = some f) (h : (fs.zip slots).all (fun p => utf8Slot U p.1 p.2) = true)
    (hv : utf8Slot U f v = true) : (fs.zip (slots.set j v)).all (fun p => utf8Slot U p.1 p.2) = true := by
  rw [zip_set_right fs slots j v f hf]
  exact all_set _ _ _ _ h hv

theorem rc_applyFW_utf8 (S : Schema) (n i : Nat) (f : FieldDesc) (j : Nat) (slots : List Val) (u : Bytes) (fw : FW)
    (hf : (S.msg i).fields[j]? = some f) (hu : utf8OK S (n+1) i (.msg slots u) = true)
    (hfw : FWutf8 (utf8OK S n) f fw) :
    utf8OK S (n+1) i (applyFW (S.msg i).fields f j slots u fw).1 = true := by
  rw [rc_utf8OK_succ] at hu
  cases fw with
  | panic => exact hu
  | put v => exact rc_all_zip_set hf hu hfw
  | putOne v =>
    unfold applyFW
    cases hsh : f.shape with
    | oneof g =>
      refine rc_all_zip_set hf (rc_all_clearGroup _ g _ hu) ?_
      simpa only [FWutf8, utf8Slot, hsh] using hfw
    | singular => exact hu
    | repeated p => exact hu
    | map kk => exact hu

theorem rc_write_utf8 (S : Schema) (n i : Nat) (s : Val) (o : WOp) (hu : utf8OK S (n+1) i s = true)
    (hok : o.utf8 (utf8OK S n) (S.msg i).fields = true) :
    utf8OK S (n+1) i (Reflect.write S i s o).1 = true := by
  cases s with
  | msg slots u =>
    cases hfld : WOp.field? o with
    | none =>
      cases o <;> simp only [WOp.field?, reduceCtorEq] at hfld
      · exact hu
      · exact rc_utf8OK_emptyMsg S (n+1) i
    | some j =>
      rw [write_field S i slots u o j hfld]
      cases hf : (S.msg i).fields[j]? with
      | none => exact hu
      | some f =>
        simp only []
        rw [rc_utf8OK_succ] at hu
        exact rc_applyFW_utf8 S n i f j slots u _ hf hu
          (rc_writeF_utf8 S n hf hfld hok (rc_utf8Slot_getD hu hf))
  | _ => exact hu

theorem rc_reattach_cases (s : Val) (r : Val × Out) (k : Val → Val) :
    (Reflect.reattach s r k).1 = s ∨ (Reflect.reattach s r k).1 = k r.1 := by
  unfold Reflect.reattach
  cases r.2 <;> first | exact Or.inl rfl | exact Or.inr rfl

theorem rc_stepW_utf8 (S : Schema) : ∀ (op : Op) (n i : Nat) (s : Val), utf8OK S n i s = true →
    Op.utf8 S n i op = true → op.isWrite = true → utf8OK S n i (Reflect.stepW S i s op).1 = true
  | _, 0, _, _, _, _, _ => rfl
  | .r _, _+1, _, _, _, _, hw => by simp [Op.isWrite] at hw
  | .w o, n+1, i, s, hu, hok, _ => by
    simp only [Op.utf8] at hok
    exact rc_write_utf8 S n i s o hu hok
  | .in j op, n+1, i, s, hu, hok, hw => by
    cases s with
    | msg slots u =>
      cases hf : (S.msg i).fields[j]? with
      | none => simp only [Reflect.stepW, hf]; exact hu
      | some f =>
        have hall := hu
        rw [rc_utf8OK_succ] at hall
        have hv := rc_utf8Slot_getD hall hf
        cases he : f.elem with
        | scalar k0 => simp only [Reflect.stepW, hf, he]; exact hu
        | message mi =>
          simp only [Reflect.stepW, hf, he]
          have hok' : Op.utf8 S n mi op = true := by simpa only [Op.utf8, hf, he] using hok
          have hw' : op.isWrite = true := hw
          cases hsh : f.shape with
          | singular =>
            simp only []
            simp only [utf8Slot, hsh, he] at hv
            have hc0 : utf8OK S n mi (if (slots.getD j Val.none).isNone = true then emptyMsg S mi
                else slots.getD j Val.none) = true := by
              split
              · exact rc_utf8OK_emptyMsg S n mi
              · exact rc_utf8OK_of_elem hv
            have ih := rc_stepW_utf8 S op n mi _ hc0 hok' hw'
            rcases rc_reattach_cases (.msg slots u) (Reflect.stepW S mi (if (slots.getD j Val.none).isNone = true
                then emptyMsg S mi else slots.getD j Val.none) op) (fun c' => .msg (slots.set j c') u) with h | h
            · rw [h]; exact hu
            · rw [h, rc_utf8OK_succ]
              refine rc_all_zip_set hf hall ?_
              simp only [utf8Slot, hsh, he]
              exact rc_utf8Elem_of_OK ih
          | oneof g =>
            simp only []
            cases hc : slots.getD j Val.none with
            | one c =>
              simp only []
              rw [hc] at hv
              simp only [utf8Slot, hsh, he] at hv
              have ih := rc_stepW_utf8 S op n mi c (rc_utf8OK_of_elem hv) hok' hw'
              rcases rc_reattach_cases (.msg slots u) (Reflect.stepW S mi c op)
                  (fun c' => .msg (slots.set j (.one c')) u) with h | h
              · rw [h]; exact hu
              · rw [h, rc_utf8OK_succ]
                refine rc_all_zip_set hf hall ?_
                simp only [utf8Slot, hsh, he]
                exact rc_utf8Elem_of_OK ih
            | oneNil => exact hu
            | _ =>
              simp only []
              have ih := rc_stepW_utf8 S op n mi (emptyMsg S mi) (rc_utf8OK_emptyMsg S n mi) hok' hw'
              rcases rc_reattach_cases (.msg slots u) (Reflect.stepW S mi (emptyMsg S mi) op)
                  (fun c' => .msg ((clearGroup (S.msg i).fields g slots).set j (.one c')) u) with h | h
              · rw [h]; exact hu
              · rw [h, rc_utf8OK_succ]
                refine rc_all_zip_set hf (rc_all_clearGroup _ g _ hall) ?_
                simp only [utf8Slot, hsh, he]
                exact rc_utf8Elem_of_OK ih
          | repeated p => exact hu
          | map kk => exact hu
    | _ => exact hu
  | .at j k op, n+1, i, s, hu, hok, hw => by
    cases s with
    | msg slots u =>
      cases hf : (S.msg i).fields[j]? with
      | none => simp only [Reflect.stepW, hf]; exact hu
      | some f =>
        have hall := hu
        rw [rc_utf8OK_succ] at hall
        have hv := rc_utf8Slot_getD hall hf
        cases he : f.elem with
        | scalar k0 => simp only [Reflect.stepW, hf, he]; exact hu
        | message mi =>
          simp only [Reflect.stepW, hf, he]
          have hok' : Op.utf8 S n mi op = true := by simpa only [Op.utf8, hf, he] using hok
          have hw' : op.isWrite = true := hw
          cases hsh : f.shape with
          | repeated p =>
            simp only []
            simp only [utf8Slot, hsh, he] at hv
            cases hk : (slots.getD j Val.none).elems[k]? with
            | none => exact hu
            | some c =>
              simp only []
              have hcu := List.all_eq_true.1 hv c (List.mem_of_getElem? hk)
              have ih := rc_stepW_utf8 S op n mi c (rc_utf8OK_of_elem hcu) hok' hw'
              rcases rc_reattach_cases (.msg slots u) (Reflect.stepW S mi c op)
                  (fun c' => .msg (slots.set j (.list true ((slots.getD j Val.none).elems.set k c'))) u) with h | h
              · rw [h]; exact hu
              · rw [h, rc_utf8OK_succ]
                refine rc_all_zip_set hf hall ?_
                simp only [utf8Slot, hsh, he, Val.elems_list]
                exact all_set _ _ _ _ hv (rc_utf8Elem_of_OK ih)
          | singular => exact hu
          | oneof g => exact hu
          | map kk => exact hu
    | _ => exact hu
  | .mv j k op, n+1, i, s, hu, hok, hw => by
    cases s with
    | msg slots u =>
      cases hf : (S.msg i).fields[j]? with
      | none => simp only [Reflect.stepW, hf]; exact hu
      | some f =>
        have hall := hu
        rw [rc_utf8OK_succ] at hall
        have hv := rc_utf8Slot_getD hall hf
        cases he : f.elem with
        | scalar k0 => simp only [Reflect.stepW, hf, he]; exact hu
        | message mi =>
          simp only [Reflect.stepW, hf, he]
          have hw' : op.isWrite = true := hw
          have hok2 : keyUtf8 f k = true ∧ Op.utf8 S n mi op = true := by
            simpa only [Op.utf8, hf, he, hw', Bool.not_true, Bool.false_or, Bool.and_eq_true] using hok
          obtain ⟨hkey, hok'⟩ := hok2
          cases hsh : f.shape with
          | map kk =>
            simp only []
            simp only [utf8Slot, hsh, he] at hv
            cases hk : Reflect.storeElem (.scalar kk) k with
            | none => exact hu
            | some k' =>
              simp only []
              have hc0 : utf8OK S n mi (valueOr (findEntry kk (slots.getD j Val.none).elems k') (emptyMsg S mi))
                  = true := by
                cases hfe : findEntry kk (slots.getD j Val.none).elems k' with
                | none => exact rc_utf8OK_emptyMsg S n mi
                | some en =>
                  have := List.all_eq_true.1 hv en (List.mem_of_find?_eq_some hfe)
                  simp only [Bool.and_eq_true] at this
                  exact rc_utf8OK_of_elem this.2
              have ih := rc_stepW_utf8 S op n mi _ hc0 hok' hw'
              rcases rc_reattach_cases (.msg slots u)
                  (Reflect.stepW S mi (valueOr (findEntry kk (slots.getD j Val.none).elems k') (emptyMsg S mi)) op)
                  (fun c' => .msg (slots.set j (.map true
                    (mapPut (kbeqOf kk) (slots.getD j Val.none).elems k' c'))) u) with h | h
              · rw [h]; exact hu
              · rw [h, rc_utf8OK_succ]
                refine rc_all_zip_set hf hall ?_
                simp only [utf8Slot, hsh, he, Val.elems_map]
                refine all_mapPut _ _ _ _ hv ?_
                simp only [Val.key, Val.value, rc_keyUtf8_store hsh hkey hk, rc_utf8Elem_of_OK ih, Bool.and_self]
          | singular => exact hu
          | oneof g => exact hu
          | repeated p => exact hu
    | _ => exact hu

/-- one step of the IMPL machine keeps every string valid UTF-8 -/
theorem rc_step_utf8 (S : Schema) (n i : Nat) (s : Val) (op : Op) (hu : utf8OK S n i s = true)
    (hok : Op.utf8 S n i op = true) : utf8OK S n i (Reflect.step S i s op).1 = true := by
  unfold Reflect.step
  cases hw : op.isWrite with
  | true => simp only [if_true]; exact rc_stepW_utf8 S op n i s hu hok hw
  | false => simpa only [Bool.false_eq_true, if_false] using hu

/-! ### one step and histories, every op -/

/-- one step, any op (codec or not): outputs agree, abstract states agree, the IMPL state stays well-typed and
    keeps its strings valid -/
theorem rc_step_refines_all (S : Schema) (hS : S.WF = true) (n i : Nat) (s : Val) (op : Op) (hi : i < S.msgs.length)
    (hs : msgOK S false n i s = true) (hu : utf8OK S n i s = true) (hok : Op.ok S n i op = true)
    (hop : Op.utf8 S n i op = true) :
    (Reflect.step S i s op).2 = (SpecReflect.step S i (abs S n i s) (Op.abs S n i op)).2 ∧
    abs S n i (Reflect.step S i s op).1 = (SpecReflect.step S i (abs S n i s) (Op.abs S n i op)).1 ∧
    msgOK S false n i (Reflect.step S i s op).1 = true ∧
    utf8OK S n i (Reflect.step S i s op).1 = true := by
  obtain ⟨_, h2, h3⟩ := step_refines S n i s op hs hok
  refine ⟨?_, h2, h3, rc_step_utf8 S n i s op hu hop⟩
  unfold Reflect.step SpecReflect.step
  rw [Op.isWrite_abs]
  cases hw : op.isWrite with
  | true =>
    simp only [if_true]
    exact (stepW_refines S op n i s hs hok hw).1
  | false =>
    simp only [Bool.false_eq_true, if_false]
    rw [Op.abs_of_read S op n i hw]
    exact (rc_stepR_all S hS op n i s hi hs hu).symm

theorem rc_run_refines_all (S : Schema) (hS : S.WF = true) (n i : Nat) (hi : i < S.msgs.length) :
    ∀ (ops : List Op) (s : Val) (acc : List Out),
    msgOK S false n i s = true → utf8OK S n i s = true →
    (∀ op ∈ ops, Op.ok S n i op = true ∧ Op.utf8 S n i op = true) →
    (ops.foldl (fun a op => let r := Reflect.step S i a.1 op; (r.1, a.2 ++ [r.2])) (s, acc)).2
      = ((ops.map (Op.abs S n i)).foldl
          (fun a op => let r := SpecReflect.step S i a.1 op; (r.1, a.2 ++ [r.2])) (abs S n i s, acc)).2 ∧
    abs S n i (ops.foldl (fun a op => let r := Reflect.step S i a.1 op; (r.1, a.2 ++ [r.2])) (s, acc)).1
      = ((ops.map (Op.abs S n i)).foldl
          (fun a op => let r := SpecReflect.step S i a.1 op; (r.1, a.2 ++ [r.2])) (abs S n i s, acc)).1 ∧
    msgOK S false n i
      (ops.foldl (fun a op => let r := Reflect.step S i a.1 op; (r.1, a.2 ++ [r.2])) (s, acc)).1 = true ∧
    utf8OK S n i
      (ops.foldl (fun a op => let r := Reflect.step S i a.1 op; (r.1, a.2 ++ [r.2])) (s, acc)).1 = true
  | [], s, acc, hs, hu, _ => ⟨rfl, rfl, hs, hu⟩
  | op :: ops, s, acc, hs, hu, hops => by
    have hop := hops op (List.mem_cons_self)
    obtain ⟨h1, h2, h3, h4⟩ := rc_step_refines_all S hS n i s op hi hs hu hop.1 hop.2
    simp only [List.foldl_cons, List.map_cons]
    rw [← h1, ← h2]
    exact rc_run_refines_all S hS n i hi ops _ _ h3 h4 (fun o ho => hops o (List.mem_cons_of_mem _ ho))

/-- read ops store nothing -/
theorem rc_utf8_of_read (S : Schema) : ∀ (op : Op) (n i : Nat), op.isWrite = false → Op.utf8 S n i op = true
  | _, 0, _, _ => rfl
  | .r _, _+1, _, _ => rfl
  | .w _, _+1, _, h => by simp [Op.isWrite] at h
  | .in j op, n+1, i, h => by
    simp only [Op.utf8]
    cases (S.msg i).fields[j]? with
    | none => rfl
    | some f =>
      cases he : f.elem with
      | scalar k0 => simp only [he]
      | message mi => simp only [he]; exact rc_utf8_of_read S op n mi h
  | .at j k op, n+1, i, h => by
    simp only [Op.utf8]
    cases (S.msg i).fields[j]? with
    | none => rfl
    | some f =>
      cases he : f.elem with
      | scalar k0 => simp only [he]
      | message mi => simp only [he]; exact rc_utf8_of_read S op n mi h
  | .mv j k op, n+1, i, h => by
    simp only [Op.utf8]
    cases (S.msg i).fields[j]? with
    | none => rfl
    | some f =>
      cases he : f.elem with
      | scalar k0 => simp only [he]
      | message mi =>
        have h' : op.isWrite = false := h
        simp only [he, h', Bool.not_false, Bool.true_or, Bool.true_and]
        exact rc_utf8_of_read S op n mi h'

theorem rc_usesCodec_isRead : ∀ (op : Op), op.usesCodec = true → op.isWrite = false
  | .r _, _ => rfl
  | .w _, h => by simp [Op.usesCodec] at h
  | .in _ op, h => rc_usesCodec_isRead op h
  | .at _ _ op, h => rc_usesCodec_isRead op h
  | .mv _ _ op, h => rc_usesCodec_isRead op h

end Pulsar
