/-
  Pulsar.Proofs.RapidBridge — every update the draw-level rapidproto model (Pulsar/Rapidproto.lean) makes to
  a message is the abstract semantics of the protoreflect call rapidproto.go makes at that point: the
  field-level functions of the SPEC machine (`SpecReflect.*F`, Pulsar/Reflect.lean), lifted to the message
  by `applyFW` (`.put x` = `slots.set j x`, `.putOne x` = `(clearGroup fs g slots).set j (.one x)`).
  The scalar lemmas come in two forms: for a drawn scalar (`scalarVal E k d`) and — `…_val` — for any value that
  passes `typecheckSingular` unchanged, which covers the values of a field mapper (`GenOpts.mapper`) that
  have the shape of their kind and no non-nil flag (`rp_bridge_check_val`).
-/
import Pulsar.Rapidproto
namespace Pulsar.Rapidproto
open Pulsar

/-- a generated scalar passes `typecheckSingular` unchanged -/
theorem rp_bridge_check (E : List Int) (k : Kind) (d : Draw) :
    SpecReflect.checkElem (.scalar k) (scalarVal E k d) = some (scalarVal E k d) := by
  cases k <;> simp [SpecReflect.checkElem, scalarVal, Kind.isBlob]

/-- `msg.Set(field, scalar)` on a singular field -/
theorem rp_bridge_set_singular (E : List Int) {f : FieldDesc} {k : Kind} (d : Draw)
    (hs : f.shape = .singular) (he : f.elem = .scalar k) :
    SpecReflect.setF f (scalarVal E k d) = .put (scalarVal E k d) := by
  simp [SpecReflect.setF, hs, he, rp_bridge_check]

/-- `msg.Set(field, scalar)` on a oneof member: the group's other members are dropped -/
theorem rp_bridge_set_oneof (E : List Int) {f : FieldDesc} {k : Kind} {g : Nat} (d : Draw)
    (hs : f.shape = .oneof g) (he : f.elem = .scalar k) :
    SpecReflect.setF f (scalarVal E k d) = .putOne (scalarVal E k d) := by
  simp [SpecReflect.setF, hs, he, rp_bridge_check]

theorem rp_bridge_applyFW_put (fs : List FieldDesc) (f : FieldDesc) (j : Nat) (slots : List Val) (u : Bytes) (x : Val) :
    (applyFW fs f j slots u (.put x)).1 = .msg (slots.set j x) u := rfl

theorem rp_bridge_applyFW_putOne (fs : List FieldDesc) (f : FieldDesc) (j : Nat) (slots : List Val) (u : Bytes)
    (x : Val) {g : Nat} (hs : f.shape = .oneof g) :
    (applyFW fs f j slots u (.putOne x)).1 = .msg ((clearGroup fs g slots).set j (.one x)) u := by
  simp [applyFW, hs]

/-- `msg.Mutable(field)` on a list / map field: the stored elements -/
theorem rp_bridge_mut_list (S : Schema) {f : FieldDesc} {p : Bool} (cur : Val) (hs : f.shape = .repeated p) :
    SpecReflect.mutF S f cur = .put (.list false cur.elems) := by
  simp [SpecReflect.mutF, hs]

theorem rp_bridge_mut_map (S : Schema) {f : FieldDesc} {kk : Kind} (cur : Val) (hs : f.shape = .map kk) :
    SpecReflect.mutF S f cur = .put (.map false cur.elems) := by
  simp [SpecReflect.mutF, hs]

/-- `msg.Mutable(field)` on a singular message field: the existing message or a new empty one -/
theorem rp_bridge_mut_singular (S : Schema) {f : FieldDesc} {mi : Nat} (cur : Val)
    (hs : f.shape = .singular) (he : f.elem = .message mi) :
    SpecReflect.mutF S f cur = .put (if cur.isNone then emptyMsg S mi else cur) := by
  simp [SpecReflect.mutF, hs, he]

/-- `msg.Mutable(field)` on a oneof message member that is held / not held -/
theorem rp_bridge_mut_oneof_held (S : Schema) {f : FieldDesc} {mi g : Nat} (x : Val)
    (hs : f.shape = .oneof g) (he : f.elem = .message mi) :
    SpecReflect.mutF S f (.one x) = .put (.one x) := by
  simp [SpecReflect.mutF, hs, he]

theorem rp_bridge_mut_oneof_new (S : Schema) {f : FieldDesc} {mi g : Nat} (cur : Val)
    (hs : f.shape = .oneof g) (he : f.elem = .message mi) (hc : ∀ x, cur ≠ .one x) :
    SpecReflect.mutF S f cur = .putOne (emptyMsg S mi) := by
  cases cur <;> simp [SpecReflect.mutF, hs, he]
  exact absurd rfl (hc _)

/-- `msg.Clear(field)` on a singular message field / a oneof member -/
theorem rp_bridge_clear {f : FieldDesc} (h : f.shape = .singular ∧ (∃ mi, f.elem = .message mi) ∨ ∃ g, f.shape = .oneof g) :
    SpecReflect.clearF f = .put .none := by
  rcases h with ⟨hs, mi, he⟩ | ⟨g, hs⟩ <;> simp [SpecReflect.clearF, FieldDesc.zero, *]

/-- `list.Append(scalar)` -/
theorem rp_bridge_lapp (E : List Int) {f : FieldDesc} {p : Bool} {k : Kind} (es : List Val) (d : Draw)
    (hs : f.shape = .repeated p) (he : f.elem = .scalar k) :
    SpecReflect.lappF f (.list false es) (scalarVal E k d) = .put (.list false (es ++ [scalarVal E k d])) := by
  simp [SpecReflect.lappF, hs, he, rp_bridge_check, Val.elems]

/-- `list.AppendMutable()` -/
theorem rp_bridge_lappm (S : Schema) {f : FieldDesc} {p : Bool} {mi : Nat} (es : List Val)
    (hs : f.shape = .repeated p) (he : f.elem = .message mi) :
    SpecReflect.lappmF S f (.list false es) = .put (.list false (es ++ [emptyMsg S mi])) := by
  simp [SpecReflect.lappmF, hs, he, Val.elems]

/-- `list.Truncate(i)` within the list (`C18_draws_total`: it always is) -/
theorem rp_bridge_ltrunc {f : FieldDesc} {p : Bool} (es : List Val) (i : Nat)
    (hs : f.shape = .repeated p) (hi : i ≤ es.length) :
    SpecReflect.ltruncF f (.list false es) i = .put (.list false (es.take i)) := by
  simp [SpecReflect.ltruncF, hs, Val.elems, hi]

/-- `m.Set(key, value)` -/
theorem rp_bridge_mset (E : List Int) {f : FieldDesc} {kk vk : Kind} (es : List Val) (dk dv : Draw)
    (hs : f.shape = .map kk) (he : f.elem = .scalar vk) :
    SpecReflect.msetF f (.map false es) (scalarVal E kk dk) (scalarVal E vk dv) =
      .put (.map false (sortEntries kk (mapPut (kbeqOf kk) es (scalarVal E kk dk) (scalarVal E vk dv)))) := by
  simp [SpecReflect.msetF, hs, he, rp_bridge_check, Val.elems]

/-- `m.Clear(key)` -/
theorem rp_bridge_mclr {f : FieldDesc} {kk : Kind} (es : List Val) (k : Val) (hs : f.shape = .map kk) :
    SpecReflect.mclrF f (.map false es) k = .put (.map false (mapDel kk es k)) := by
  simp [SpecReflect.mclrF, hs, Val.elems]

/-- `m.Mutable(key)`: nothing changes when the key is present (the value returned is the stored one:
    `valueOr (findEntry …)`), otherwise a new empty message is stored at the key -/
theorem rp_bridge_mmut (S : Schema) (E : List Int) {f : FieldDesc} {kk : Kind} {mi : Nat} (es : List Val) (dk : Draw)
    (hs : f.shape = .map kk) (he : f.elem = .message mi) :
    SpecReflect.mmutF S f (.map false es) (scalarVal E kk dk) =
      if es.any (fun en => kbeqOf kk en.key (scalarVal E kk dk)) then .put (.map false es)
      else .put (.map false (sortEntries kk (es ++ [.entry (scalarVal E kk dk) (emptyMsg S mi)]))) := by
  simp [SpecReflect.mmutF, hs, he, rp_bridge_check, Val.elems]

/-! ### the same for any checked scalar (field-mapper values) -/

/-- a value of the shape of its kind, without the non-nil flag (the abstract form of a blob), passes
    `typecheckSingular` unchanged: what `MapperTyped` mapper values in abstract form satisfy -/
theorem rp_bridge_check_val {k : Kind} {v : Val} (hk : scalarOK k v = true) (hb : ∀ b, v ≠ .blob true b) :
    SpecReflect.checkElem (.scalar k) v = some v := by
  cases v with
  | bits n =>
    simp only [scalarOK, Bool.and_eq_true, Bool.not_eq_true'] at hk
    simp [SpecReflect.checkElem, hk.1]
  | blob f b =>
    simp only [scalarOK] at hk
    cases f with
    | true => exact absurd rfl (hb b)
    | false => simp [SpecReflect.checkElem, hk]
  | _ => simp [scalarOK] at hk

theorem rp_bridge_set_singular_val {f : FieldDesc} {k : Kind} (v : Val)
    (hv : SpecReflect.checkElem (.scalar k) v = some v) (hs : f.shape = .singular) (he : f.elem = .scalar k) :
    SpecReflect.setF f v = .put v := by
  simp [SpecReflect.setF, hs, he, hv]

theorem rp_bridge_set_oneof_val {f : FieldDesc} {k : Kind} {g : Nat} (v : Val)
    (hv : SpecReflect.checkElem (.scalar k) v = some v) (hs : f.shape = .oneof g) (he : f.elem = .scalar k) :
    SpecReflect.setF f v = .putOne v := by
  simp [SpecReflect.setF, hs, he, hv]

theorem rp_bridge_lapp_val {f : FieldDesc} {p : Bool} {k : Kind} (es : List Val) (v : Val)
    (hv : SpecReflect.checkElem (.scalar k) v = some v) (hs : f.shape = .repeated p) (he : f.elem = .scalar k) :
    SpecReflect.lappF f (.list false es) v = .put (.list false (es ++ [v])) := by
  simp [SpecReflect.lappF, hs, he, hv, Val.elems]

theorem rp_bridge_mset_val {f : FieldDesc} {kk vk : Kind} (es : List Val) (k v : Val)
    (hk : SpecReflect.checkElem (.scalar kk) k = some k) (hv : SpecReflect.checkElem (.scalar vk) v = some v)
    (hs : f.shape = .map kk) (he : f.elem = .scalar vk) :
    SpecReflect.msetF f (.map false es) k v =
      .put (.map false (sortEntries kk (mapPut (kbeqOf kk) es k v))) := by
  simp [SpecReflect.msetF, hs, he, hk, hv, Val.elems]

theorem rp_bridge_mmut_val (S : Schema) {f : FieldDesc} {kk : Kind} {mi : Nat} (es : List Val) (k : Val)
    (hk : SpecReflect.checkElem (.scalar kk) k = some k) (hs : f.shape = .map kk) (he : f.elem = .message mi) :
    SpecReflect.mmutF S f (.map false es) k =
      if es.any (fun en => kbeqOf kk en.key k) then .put (.map false es)
      else .put (.map false (sortEntries kk (es ++ [.entry k (emptyMsg S mi)]))) := by
  simp [SpecReflect.mmutF, hs, he, hk, Val.elems]

end Pulsar.Rapidproto
