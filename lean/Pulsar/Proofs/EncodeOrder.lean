/-
  Pulsar.Proofs.EncodeOrder — the back-filled buffer and the field order: writing chunks back to front
  yields the reversed concatenation, and the reversed write order of the generated marshal closure
  (plain fields descending, then oneof groups descending) is the reference `LegacyFieldOrder`.
-/
import Pulsar.Proofs.EncodeSort
namespace Pulsar

/-! ### the back-filled buffer -/

theorem writeAll_ok (cs : List Bytes) : ∀ (n : Nat) (s : Bytes), (cs.map List.length).sum ≤ n →
    (BackBuf.mk n s).writeAll (cs.map Res.ok) =
      .ok ⟨n - (cs.map List.length).sum, cs.reverse.flatten ++ s⟩ := by
  induction cs with
  | nil => intro n s _; simp [BackBuf.writeAll]
  | cons c cs ih =>
    intro n s h
    simp only [List.map_cons, List.sum_cons] at h
    have hc : c.length ≤ n := by omega
    simp only [List.map_cons, BackBuf.writeAll, BackBuf.write, hc, if_true]
    rw [ih (n - c.length) (c ++ s) (by omega)]
    simp only [List.sum_cons, List.reverse_cons, List.flatten_append, List.flatten_cons,
      List.flatten_nil, List.append_nil, List.append_assoc]
    congr 2
    omega

/-! ### order relations -/

theorem legacyLt_trans (a b c : FieldDesc × Val) :
    legacyLt a b = true → legacyLt b c = true → legacyLt a c = true := by
  unfold legacyLt
  cases a.1.group? <;> cases b.1.group? <;> cases c.1.group? <;> simp <;> omega

theorem legacyLt_asymm (a b : FieldDesc × Val) :
    legacyLt a b = true → legacyLt b a = true → False := by
  unfold legacyLt
  cases a.1.group? <;> cases b.1.group? <;> simp <;> omega

theorem legacyLt_total (a b : FieldDesc × Val) (h : a.1.num ≠ b.1.num) :
    legacyLt a b = true ∨ legacyLt b a = true := by
  unfold legacyLt
  cases a.1.group? <;> cases b.1.group? <;> simp <;> omega

theorem numGt_trans (a b c : FieldDesc × Val) :
    numGt a b = true → numGt b c = true → numGt a c = true := by
  simp only [numGt, decide_eq_true_eq]; omega

theorem numGt_total (a b : FieldDesc × Val) (h : a.1.num ≠ b.1.num) :
    numGt a b = true ∨ numGt b a = true := by
  simp only [numGt, decide_eq_true_eq]; omega

theorem isOneof_eq_isSome (f : FieldDesc) : f.isOneof = f.group?.isSome := by
  unfold FieldDesc.isOneof FieldDesc.group?
  cases f.shape <;> rfl

/-! ### oneof groups -/

theorem le_foldl_max (l : List Nat) : ∀ init, init ≤ l.foldl max init ∧ ∀ g ∈ l, g ≤ l.foldl max init := by
  induction l with
  | nil => intro init; simp
  | cons x xs ih =>
    intro init
    simp only [List.foldl_cons]
    obtain ⟨h1, h2⟩ := ih (max init x)
    refine ⟨by omega, ?_⟩
    intro g hg
    rcases List.mem_cons.1 hg with rfl | hg
    · omega
    · exact h2 g hg

theorem mem_groupsOf {fs : List FieldDesc} {f : FieldDesc} {g : Nat} (hf : f ∈ fs)
    (hg : f.group? = some g) : g ∈ groupsOf fs := by
  have hmem : g ∈ fs.filterMap FieldDesc.group? := List.mem_filterMap.2 ⟨f, hf, hg⟩
  simp only [groupsOf, List.mem_filter, List.mem_range, List.contains_iff_mem]
  refine ⟨?_, hmem⟩
  have := (le_foldl_max (fs.filterMap FieldDesc.group?) 0).2 g hmem
  omega

theorem groupsOf_sorted (fs : List FieldDesc) : (groupsOf fs).Pairwise (· < ·) := by
  unfold groupsOf
  exact List.pairwise_lt_range.filter _

theorem groupsOf_nodup (fs : List FieldDesc) : (groupsOf fs).Nodup :=
  (groupsOf_sorted fs).imp (fun h => Nat.ne_of_lt h)

section perm
variable {α : Type}

theorem flatMap_congr' {β : Type} {f g : β → List α} (l : List β) (h : ∀ a ∈ l, f a = g a) :
    l.flatMap f = l.flatMap g := by
  induction l with
  | nil => rfl
  | cons x xs ih =>
    simp only [List.flatMap_cons, h x List.mem_cons_self,
      ih (fun a ha => h a (List.mem_cons_of_mem _ ha))]

theorem pairwise_of_length_le_one {R : α → α → Prop} : ∀ {l : List α}, l.length ≤ 1 → l.Pairwise R
  | [], _ => List.Pairwise.nil
  | [a], _ => List.pairwise_singleton _ _
  | _ :: _ :: _, h => by simp at h

theorem flatMap_ite_perm (x : α) (F : Nat → List α) (g0 : Nat) :
    ∀ (gs : List Nat), gs.Nodup → g0 ∈ gs →
      (gs.flatMap (fun g => if g0 = g then x :: F g else F g)).Perm (x :: gs.flatMap F) := by
  intro gs
  induction gs with
  | nil => intro _ h; cases h
  | cons g gs ih =>
    intro hnd hmem
    rw [List.nodup_cons] at hnd
    simp only [List.flatMap_cons]
    by_cases hg : g0 = g
    · subst hg
      have : gs.flatMap (fun g => if g0 = g then x :: F g else F g) = gs.flatMap F := by
        apply flatMap_congr'
        intro g hg
        have : g0 ≠ g := fun h => hnd.1 (h ▸ hg)
        simp [this]
      simp [this]
    · have hmem' : g0 ∈ gs := by
        rcases List.mem_cons.1 hmem with h | h
        · exact absurd h hg
        · exact h
      simp only [hg, if_false]
      exact (List.Perm.append_left _ (ih hnd.2 hmem')).trans List.perm_middle

end perm

/-- grouping the oneof members by group is a permutation of the oneof members. -/
theorem groups_flatMap_perm (gs : List Nat) (hnd : gs.Nodup) (l : List (FieldDesc × Val))
    (hall : ∀ p ∈ l, ∀ g, p.1.group? = some g → g ∈ gs) :
    (gs.flatMap (fun g => l.filter (fun p => p.1.group? == some g))).Perm
      (l.filter (fun p => p.1.isOneof)) := by
  induction l with
  | nil => simp
  | cons x xs ih =>
    have ih' := ih (fun p hp => hall p (List.mem_cons_of_mem _ hp))
    cases hx : x.1.group? with
    | none =>
      have h1 : x.1.isOneof = false := by rw [isOneof_eq_isSome, hx]; rfl
      have : (fun g => (x :: xs).filter (fun p => p.1.group? == some g)) =
          (fun g => xs.filter (fun p => p.1.group? == some g)) := by
        funext g; simp [hx]
      rw [this, List.filter_cons]
      simpa [h1] using ih'
    | some g0 =>
      have h1 : x.1.isOneof = true := by rw [isOneof_eq_isSome, hx]; rfl
      have : (fun g => (x :: xs).filter (fun p => p.1.group? == some g)) =
          (fun g => if g0 = g then x :: xs.filter (fun p => p.1.group? == some g)
                    else xs.filter (fun p => p.1.group? == some g)) := by
        funext g; simp [List.filter_cons, hx]
      rw [this, List.filter_cons]
      simp only [h1, if_true]
      exact (flatMap_ite_perm x _ g0 gs hnd (hall x List.mem_cons_self g0 hx)).trans
        (List.Perm.cons x ih')

/-! ### the order lemma -/

/-- a pair that can contribute bytes: everything except an inactive oneof member. -/
def live (p : FieldDesc × Val) : Bool := !(p.1.isOneof && p.2.isNone)

theorem flatten_map_filter_live (gF : FieldDesc × Val → Bytes)
    (hnil : ∀ p, live p = false → gF p = []) (l : List (FieldDesc × Val)) :
    (l.map gF).flatten = ((l.filter live).map gF).flatten := by
  induction l with
  | nil => rfl
  | cons x xs ih =>
    by_cases hx : live x = true
    · simp [hx, ih]
    · have hx' : live x = false := by simpa using hx
      simp [hx', ih, hnil x hx']

/-- The write sequence of the generated closure, read back to front, is a permutation of all
    (field, value) pairs. -/
theorem implOrder_perm (fvs : List (FieldDesc × Val)) :
    ((sortDesc (fvs.filter (fun p => !p.1.isOneof))).reverse ++
      (groupsOf (fvs.map (·.1))).flatMap (fun g => fvs.filter (fun p => p.1.group? == some g))).Perm fvs := by
  have h1 : ((sortDesc (fvs.filter (fun p => !p.1.isOneof))).reverse).Perm
      (fvs.filter (fun p => !p.1.isOneof)) := by
    rw [sortDesc_eq]; exact (List.reverse_perm _).trans (isort_perm _ _)
  have h2 := groups_flatMap_perm (groupsOf (fvs.map (·.1))) (groupsOf_nodup _) fvs
    (fun p hp g hg => mem_groupsOf (List.mem_map_of_mem hp) hg)
  refine (List.Perm.append h1 h2).trans ?_
  refine List.perm_append_comm.trans ?_
  exact List.filter_append_perm (fun p => p.1.isOneof) fvs

theorem implOrder_eq_legacy (fvs : List (FieldDesc × Val))
    (hdist : fvs.Pairwise (fun a b => a.1.num ≠ b.1.num))
    (hone : ∀ g, (fvs.filter (fun q => q.1.group? == some g && !q.2.isNone)).length ≤ 1) :
    (sortFV fvs).filter live =
      ((sortDesc (fvs.filter (fun p => !p.1.isOneof))).reverse ++
        (groupsOf (fvs.map (·.1))).flatMap (fun g => fvs.filter (fun p => p.1.group? == some g))).filter live := by
  apply sorted_perm_unique legacyLt legacyLt_asymm
  · refine List.Perm.filter _ ?_
    rw [sortFV_eq]
    exact (isort_perm _ _).trans (implOrder_perm fvs).symm
  · apply List.Pairwise.filter
    rw [sortFV_eq]
    apply isort_pairwise legacyLt legacyLt_trans
    exact hdist.imp (fun {a b} h => legacyLt_total a b h)
  · rw [List.filter_append, List.pairwise_append]
    refine ⟨?_, ?_, ?_⟩
    · -- plain part
      apply List.Pairwise.filter
      rw [List.pairwise_reverse, sortDesc_eq]
      have hp : (fvs.filter (fun p => !p.1.isOneof)).Pairwise (fun a b => numGt a b = true ∨ numGt b a = true) :=
        (hdist.filter _).imp (fun {a b} h => numGt_total a b h)
      have hs := isort_pairwise numGt numGt_trans _ hp
      -- all elements are plain
      have hall : ∀ a ∈ isort numGt (fvs.filter (fun p => !p.1.isOneof)), a.1.group? = none := by
        intro a ha
        have := (mem_isort numGt).1 ha
        simp only [List.mem_filter, isOneof_eq_isSome] at this
        cases h : a.1.group? with
        | none => rfl
        | some g => simp [h] at this
      have hs' : (isort numGt (fvs.filter (fun p => !p.1.isOneof))).Pairwise
          (fun a b => a.1.group? = none ∧ b.1.group? = none ∧ numGt a b = true) := by
        rw [List.pairwise_iff_forall_sublist] at hs ⊢
        intro a b hab
        have ha : a ∈ isort numGt (fvs.filter (fun p => !p.1.isOneof)) := hab.subset (by simp)
        have hb : b ∈ isort numGt (fvs.filter (fun p => !p.1.isOneof)) := hab.subset (by simp)
        exact ⟨hall a ha, hall b hb, hs hab⟩
      refine hs'.imp ?_
      intro a b ⟨ha, hb, hgt⟩
      simp only [numGt, decide_eq_true_eq] at hgt
      simp only [legacyLt, ha, hb, decide_eq_true_eq]
      omega
    · -- oneof part
      rw [List.filter_flatMap, List.pairwise_flatMap]
      refine ⟨?_, ?_⟩
      · intro g _
        have hlen : ((fvs.filter (fun p => p.1.group? == some g)).filter live).length ≤ 1 := by
          have : (fvs.filter (fun p => p.1.group? == some g)).filter live =
              fvs.filter (fun q => q.1.group? == some g && !q.2.isNone) := by
            rw [List.filter_filter]
            apply List.filter_congr
            intro p _
            by_cases hp : p.1.group? = some g
            · simp [live, isOneof_eq_isSome, hp]
            · have hb : (p.1.group? == some g) = false := beq_eq_false_iff_ne.2 hp
              rw [hb]; simp
          rw [this]; exact hone g
        exact pairwise_of_length_le_one hlen
      · refine (groupsOf_sorted _).imp ?_
        intro g h hgh x hx y hy
        simp only [List.mem_filter, beq_iff_eq] at hx hy
        simp only [legacyLt, hx.1.2, hy.1.2]
        simp [hgh]
    · -- plain before oneof
      intro x hx y hy
      have hxp : x.1.group? = none := by
        have := (List.mem_filter.1 hx).1
        rw [List.mem_reverse, sortDesc_eq, mem_isort] at this
        simp only [List.mem_filter, isOneof_eq_isSome] at this
        cases h : x.1.group? with
        | none => rfl
        | some g => simp [h] at this
      have hyo : ∃ g, y.1.group? = some g := by
        have := (List.mem_filter.1 hy).1
        simp only [List.mem_flatMap, List.mem_filter, beq_iff_eq] at this
        obtain ⟨g, _, _, hg⟩ := this
        exact ⟨g, hg⟩
      obtain ⟨g, hg⟩ := hyo
      simp [legacyLt, hxp, hg]

/-- Concatenating per-field bytes in reference order = in the (reversed) write order of the
    generated closure, provided inactive oneof members contribute nothing. -/
theorem flatten_legacy_eq_implOrder (gF : FieldDesc × Val → Bytes)
    (hnil : ∀ p, live p = false → gF p = []) (fvs : List (FieldDesc × Val))
    (hdist : fvs.Pairwise (fun a b => a.1.num ≠ b.1.num))
    (hone : ∀ g, (fvs.filter (fun q => q.1.group? == some g && !q.2.isNone)).length ≤ 1) :
    ((sortFV fvs).map gF).flatten =
      ((sortDesc (fvs.filter (fun p => !p.1.isOneof))).reverse.map gF).flatten ++
      (((groupsOf (fvs.map (·.1))).flatMap
          (fun g => fvs.filter (fun p => p.1.group? == some g))).map gF).flatten := by
  rw [flatten_map_filter_live gF hnil (sortFV fvs), implOrder_eq_legacy fvs hdist hone,
    ← flatten_map_filter_live gF hnil, List.map_append, List.flatten_append]

end Pulsar
