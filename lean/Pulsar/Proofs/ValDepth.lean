/-
  Pulsar.Proofs.ValDepth — elementary facts about `Val.depth` / `Val.depthList`.
-/
import Pulsar.Typing
namespace Pulsar

@[simp] theorem Val.depth_msg (s : List Val) (u : Bytes) : (Val.msg s u).depth = 1 + Val.depthList s := by
  simp [Val.depth]
@[simp] theorem Val.depth_list (nn : Bool) (e : List Val) : (Val.list nn e).depth = Val.depthList e := by
  simp [Val.depth]
@[simp] theorem Val.depth_map (nn : Bool) (e : List Val) : (Val.map nn e).depth = Val.depthList e := by
  simp [Val.depth]
@[simp] theorem Val.depth_entry (k v : Val) : (Val.entry k v).depth = max k.depth v.depth := by
  simp [Val.depth]
@[simp] theorem Val.depth_one (v : Val) : (Val.one v).depth = v.depth := by
  simp [Val.depth]
@[simp] theorem Val.depth_bits (n : Nat) : (Val.bits n).depth = 0 := by simp [Val.depth]
@[simp] theorem Val.depth_blob (nn : Bool) (b : Bytes) : (Val.blob nn b).depth = 0 := by simp [Val.depth]
@[simp] theorem Val.depth_none : Val.none.depth = 0 := by simp [Val.depth]
@[simp] theorem Val.depth_oneNil : Val.oneNil.depth = 0 := by simp [Val.depth]
@[simp] theorem Val.depthList_nil : Val.depthList [] = 0 := by simp [Val.depthList]
@[simp] theorem Val.depthList_cons (v : Val) (vs : List Val) :
    Val.depthList (v :: vs) = max v.depth (Val.depthList vs) := by simp [Val.depthList]

theorem Val.depth_le_depthList {x : Val} {l : List Val} (h : x ∈ l) : x.depth ≤ Val.depthList l := by
  induction l with
  | nil => cases h
  | cons a l ih =>
    simp only [Val.depthList_cons]
    rcases List.mem_cons.1 h with rfl | h
    · omega
    · have := ih h; omega

theorem Val.depthList_le {l : List Val} {n : Nat} (h : ∀ x ∈ l, x.depth ≤ n) : Val.depthList l ≤ n := by
  induction l with
  | nil => simp
  | cons a l ih =>
    simp only [Val.depthList_cons]
    have := h a List.mem_cons_self
    have := ih (fun x hx => h x (List.mem_cons_of_mem _ hx))
    omega

theorem Val.depthList_append (a b : List Val) :
    Val.depthList (a ++ b) = max (Val.depthList a) (Val.depthList b) := by
  induction a with
  | nil => simp
  | cons x a ih => simp only [List.cons_append, Val.depthList_cons, ih]; omega

theorem Val.depthList_elems_le (v : Val) : Val.depthList v.elems ≤ v.depth := by
  cases v <;> simp [Val.elems]

theorem Val.depth_elem_le {x v : Val} (h : x ∈ v.elems) : x.depth ≤ v.depth :=
  Nat.le_trans (Val.depth_le_depthList h) (Val.depthList_elems_le v)

theorem Val.depth_value_le (en : Val) : en.value.depth ≤ en.depth := by
  cases en <;> simp [Val.value]; omega

theorem Val.depth_key_le (en : Val) : en.key.depth ≤ en.depth := by
  cases en <;> simp [Val.key]; omega

theorem Val.depthList_slots_lt {v : Val} (h : v.slots ≠ []) : Val.depthList v.slots < v.depth := by
  cases v <;> simp_all [Val.slots]

theorem Val.depth_slot_le (m : Val) (j : Nat) : (m.slot j).depth ≤ m.depth := by
  unfold Val.slot
  rw [List.getD_eq_getElem?_getD]
  cases hj : m.slots[j]? with
  | none => simp
  | some x =>
    simp only [Option.getD_some]
    have hx := List.mem_of_getElem? hj
    have := Val.depth_le_depthList hx
    cases m <;> simp_all [Val.slots]
    omega

/-- a value of depth 0 is not a message -/
theorem Val.depth_pos_of_msg (s : List Val) (u : Bytes) : 0 < (Val.msg s u).depth := by simp; omega

end Pulsar
