/-
  Pulsar.Proofs.Roundtrip — C01: assembly of the round-trip development.

  * RtWire   : protowire readers on protowire writers (varint, tag, fixed, zig-zag); `consumeValue` fuel
  * RtScalar : scalar read-back per kind; packed runs
  * RtStep   : one record of the reference decoder loop per field shape; the `Steps` relation
  * RtField  : records, map entries, runs of records
  * RtSlot   : `field_rt` — one field, all shapes
  * RtMsg    : `fields_rt` (known fields in legacy order), `unknown_rt` (unknown records)
  * RtTree   : `level_rt`, `tree_rt`
  and here: the statements at `specUnmarshalStrict` / `implUnmarshal`, for any map-entry order.
-/
import Pulsar.Proofs.RtTree
import Pulsar.Proofs.EncodeTop
import Pulsar.Proofs.DecodeRef
namespace Pulsar

/-- The reference decoder (strict) reads the order-generalised reference encoding back as an
    equivalent value, provided the encoding is shorter than 2^64 bytes (every length prefix must be
    a valid varint). -/
theorem spec_roundtrip_g {S : Schema} (hS : S.WF = true) {ord : Kind → List Val → List Val}
    (hord : ∀ kk es, (ord kk es).Perm es) (fuel i : Nat) (v : Val) (hi : i < S.msgs.length)
    (hv : msgOK S false fuel i v = true) (hu : utf8OK S fuel i v = true) (hk : unknownOK S fuel i v = true)
    (hd : fuel ≤ 10000) (hlen : (gEncode S ord fuel i v).length < 18446744073709551616) :
    ∃ w, specUnmarshalStrict S {} i (emptyMsg S i) (gEncode S ord fuel i v) = .ok w ∧ Equiv S fuel i w v := by
  obtain ⟨w, hw, hrep, _⟩ := tree_rt hS hord fuel i v ((gEncode S ord fuel i v).length + 1) 10000 hi hv hu hk
    hlen (Nat.le_refl _) hd
  refine ⟨w, ?_, hrep⟩
  simpa [specUnmarshalStrict] using hw

/-- the same through the generated code: Marshal (any options) then Unmarshal into a fresh message. -/
theorem impl_roundtrip {S : Schema} (hS : S.WF = true) (fuel i : Nat) (v : Val) (o : MOpts)
    (hperm : ∀ es, (o.perm es).Perm es) (hi : i < S.msgs.length)
    (hv : msgOK S false fuel i v = true) (hu : utf8OK S fuel i v = true) (hk : unknownOK S fuel i v = true)
    (hd : fuel ≤ 10000) :
    ∃ bs w, implMarshal S o fuel i v = .ok bs ∧
      (bs.length < 9223372036854775808 →
        implUnmarshal S {} i (emptyMsg S i) bs = .ok w ∧ Equiv S fuel i w v) := by
  have hord := ordOf_perm o hperm
  obtain ⟨hm, _, _, _⟩ := marshal_ok hS o hord fuel i v hi hv
  by_cases hl : (gEncode S (ordOf o) fuel i v).length < 9223372036854775808
  · obtain ⟨w, hw, he⟩ := spec_roundtrip_g hS hord fuel i v hi hv hu hk hd (by omega)
    exact ⟨_, w, hm, fun _ => ⟨unmarshal_agree S {} i _ _ w hl (fun _ => rfl) (Or.inl rfl) hw, he⟩⟩
  · exact ⟨_, v, hm, fun h => absurd h hl⟩

end Pulsar
