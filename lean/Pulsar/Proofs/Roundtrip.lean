import Pulsar.Proofs.Encode
import Pulsar.Proofs.DecodeRef
namespace Pulsar
end Pulsar
