/-
  Pulsar.Proofs.Erase — `eraseUnknown` without its fuel, and the shape invariant (`Sh`) under which
  erasing commutes with every step of the decoder (C14_discard).
-/
import Pulsar.Proofs.ValDepth
namespace Pulsar

/-! ## shape invariant: message-typed positions hold nil or a (well-shaped) message value,
    containers have their constructor -/

def shElem (child : Nat → Val → Bool) (e : Elem) (v : Val) : Bool :=
  match e with
  | .scalar _ => true
  | .message i => v.isNone || child i v

def shSlot (child : Nat → Val → Bool) (f : FieldDesc) (v : Val) : Bool :=
  match f.shape, v with
  | .singular, v => shElem child f.elem v
  | .repeated _, .list _ es => es.all (shElem child f.elem)
  | .map _, .map _ es => es.all (fun en => shElem child f.elem en.value)
  | .oneof _, .one x => shElem child f.elem x
  | .oneof _, _ => true
  | _, _ => false

def shaped (S : Schema) : Nat → Nat → Val → Bool
  | 0, _, _ => false
  | fuel+1, i, v =>
    match v with
    | .msg slots _ =>
      slots.length == (S.msg i).fields.length &&
      ((S.msg i).fields.zip slots).all (fun p => shSlot (shaped S fuel) p.1 p.2)
    | _ => false

theorem all_congr_mem {α : Type} {l : List α} {p q : α → Bool} (h : ∀ a ∈ l, p a = q a) :
    l.all p = l.all q := by
  induction l with
  | nil => rfl
  | cons a l ih =>
    simp only [List.all_cons]
    rw [h a List.mem_cons_self, ih (fun x hx => h x (List.mem_cons_of_mem _ hx))]

/-! ## congruence: a slot only consults the child on sub-values of no greater depth -/

theorem eraseElem_congr {c1 c2 : Nat → Val → Val} (e : Elem) (v : Val)
    (h : ∀ i, c1 i v = c2 i v) : eraseElem c1 e v = eraseElem c2 e v := by
  unfold eraseElem
  split
  · rfl
  · rw [h]

theorem eraseSlot_congr {c1 c2 : Nat → Val → Val} (f : FieldDesc) (v : Val)
    (h : ∀ i x, x.depth ≤ v.depth → c1 i x = c2 i x) : eraseSlot c1 f v = eraseSlot c2 f v := by
  unfold eraseSlot
  split
  · exact eraseElem_congr _ _ (fun i => h i _ (Nat.le_refl _))
  · congr 1
    apply List.map_congr_left
    intro x hx
    exact eraseElem_congr _ _ (fun i => h i _ (by simpa using Val.depth_le_depthList hx))
  · congr 1
    apply List.map_congr_left
    intro en hen
    congr 1
    refine eraseElem_congr _ _ (fun i => h i _ ?_)
    have := Val.depth_le_depthList hen
    have := Val.depth_value_le en
    simp only [Val.depth_map]; omega
  · rename_i x
    congr 1
    exact eraseElem_congr _ _ (fun i => h i _ (by simp))
  · rfl

theorem shElem_congr {c1 c2 : Nat → Val → Bool} (e : Elem) (v : Val)
    (h : ∀ i, c1 i v = c2 i v) : shElem c1 e v = shElem c2 e v := by
  unfold shElem
  split
  · rfl
  · rw [h]

theorem shSlot_congr {c1 c2 : Nat → Val → Bool} (f : FieldDesc) (v : Val)
    (h : ∀ i x, x.depth ≤ v.depth → c1 i x = c2 i x) : shSlot c1 f v = shSlot c2 f v := by
  unfold shSlot
  split
  · exact shElem_congr _ _ (fun i => h i _ (Nat.le_refl _))
  · apply all_congr_mem
    intro x hx
    exact shElem_congr _ _ (fun i => h i _ (by simpa using Val.depth_le_depthList hx))
  · apply all_congr_mem
    intro en hen
    refine shElem_congr _ _ (fun i => h i _ ?_)
    have := Val.depth_le_depthList hen
    have := Val.depth_value_le en
    simp only [Val.depth_map]; omega
  · rename_i x
    exact shElem_congr _ _ (fun i => h i _ (by simp))
  · rfl
  · rfl

/-! ## fuel stability (by depth) -/

theorem eraseUnknown_of_depth_zero (S : Schema) (F i : Nat) (v : Val) (h : v.depth = 0) :
    eraseUnknown S F i v = v := by
  cases F with
  | zero => rfl
  | succ F => cases v <;> simp_all [eraseUnknown]

theorem eraseUnknown_fuel (S : Schema) : ∀ (F1 F2 i : Nat) (v : Val), v.depth ≤ F1 → v.depth ≤ F2 →
    eraseUnknown S F1 i v = eraseUnknown S F2 i v := by
  intro F1
  induction F1 with
  | zero =>
    intro F2 i v h1 _
    rw [eraseUnknown_of_depth_zero S 0 i v (by omega), eraseUnknown_of_depth_zero S F2 i v (by omega)]
  | succ F1 ih =>
    intro F2 i v h1 h2
    cases F2 with
    | zero =>
      rw [eraseUnknown_of_depth_zero S _ i v (by omega), eraseUnknown_of_depth_zero S 0 i v (by omega)]
    | succ F2 =>
      cases v with
      | msg slots u =>
        simp only [eraseUnknown]
        congr 1
        apply List.map_congr_left
        intro p hp
        have hs := Val.depth_le_depthList (List.of_mem_zip hp).2
        simp only [Val.depth_msg] at h1 h2
        exact eraseSlot_congr _ _ (fun i' x hx => ih F2 i' x (by omega) (by omega))
      | _ => rfl

theorem shaped_of_depth_zero (S : Schema) (F i : Nat) (v : Val) (h : v.depth = 0) :
    shaped S F i v = false := by
  cases F with
  | zero => rfl
  | succ F => cases v <;> simp_all [shaped]

theorem shaped_fuel (S : Schema) : ∀ (F1 F2 i : Nat) (v : Val), v.depth ≤ F1 → v.depth ≤ F2 →
    shaped S F1 i v = shaped S F2 i v := by
  intro F1
  induction F1 with
  | zero =>
    intro F2 i v h1 _
    rw [shaped_of_depth_zero S 0 i v (by omega), shaped_of_depth_zero S F2 i v (by omega)]
  | succ F1 ih =>
    intro F2 i v h1 h2
    cases F2 with
    | zero =>
      rw [shaped_of_depth_zero S _ i v (by omega), shaped_of_depth_zero S 0 i v (by omega)]
    | succ F2 =>
      cases v with
      | msg slots u =>
        simp only [shaped]
        congr 1
        apply all_congr_mem
        intro p hp
        have hs := Val.depth_le_depthList (List.of_mem_zip hp).2
        simp only [Val.depth_msg] at h1 h2
        exact shSlot_congr _ _ (fun i' x hx => ih F2 i' x (by omega) (by omega))
      | _ => rfl

/-! ## the fuel-free forms -/

/-- erase every unknown set of `v` (a value of message type `i`) -/
def E (S : Schema) (i : Nat) (v : Val) : Val := eraseUnknown S (v.depth + 1) i v
/-- `v` is a well-shaped non-nil message value of type `i` -/
def Sh (S : Schema) (i : Nat) (v : Val) : Bool := shaped S (v.depth + 1) i v

theorem eraseUnknown_eq_E (S : Schema) (F i : Nat) (v : Val) (h : v.depth ≤ F) : eraseUnknown S F i v = E S i v :=
  eraseUnknown_fuel S _ _ i v h (by omega)

theorem shaped_eq_Sh (S : Schema) (F i : Nat) (v : Val) (h : v.depth ≤ F) : shaped S F i v = Sh S i v :=
  shaped_fuel S _ _ i v h (by omega)

/-- one slot of a message of type `i` -/
def ES (S : Schema) (f : FieldDesc) (v : Val) : Val := eraseSlot (E S) f v
def ShS (S : Schema) (f : FieldDesc) (v : Val) : Bool := shSlot (Sh S) f v

theorem E_msg (S : Schema) (i : Nat) (slots : List Val) (u : Bytes) :
    E S i (Val.msg slots u) = Val.msg (((S.msg i).fields.zip slots).map (fun p => ES S p.1 p.2)) [] := by
  simp only [E, eraseUnknown, ES]
  congr 1
  apply List.map_congr_left
  intro p hp
  have hs := Val.depth_le_depthList (List.of_mem_zip hp).2
  exact eraseSlot_congr _ _ (fun i' x hx => eraseUnknown_eq_E S _ i' x (by simp only [Val.depth_msg]; omega))

theorem Sh_msg (S : Schema) (i : Nat) (slots : List Val) (u : Bytes) :
    Sh S i (Val.msg slots u) =
      (slots.length == (S.msg i).fields.length && ((S.msg i).fields.zip slots).all (fun p => ShS S p.1 p.2)) := by
  simp only [Sh, shaped, ShS]
  congr 1
  apply all_congr_mem
  intro p hp
  have hs := Val.depth_le_depthList (List.of_mem_zip hp).2
  exact shSlot_congr _ _ (fun i' x hx => shaped_eq_Sh S _ i' x (by simp only [Val.depth_msg]; omega))

theorem Sh_is_msg {S : Schema} {i : Nat} {v : Val} (h : Sh S i v = true) : ∃ slots u, v = Val.msg slots u := by
  cases v with
  | msg s u => exact ⟨s, u, rfl⟩
  | _ => simp [Sh, shaped] at h

theorem E_of_not_msg (S : Schema) (i : Nat) (v : Val) (h : ∀ s u, v ≠ Val.msg s u) : E S i v = v := by
  cases v with
  | msg s u => exact absurd rfl (h s u)
  | _ => rfl

end Pulsar
