/-
  Pulsar.Proofs.RtTree — the round trip through the reference decoder at one level and over the
  whole tree, for the reference encoder generalised over the map-entry order.
-/
import Pulsar.Proofs.RtMsg
namespace Pulsar

section level
variable {S : Schema} {i : Nat} {cd : Nat → Val → Bytes → Res Val}
  {B : Nat} {cOK cU cK : Nat → Val → Bool} {child : Nat → Val → Bytes} {rn : Nat → Val → Val}

theorem level_rt (hS : S.WF = true) (hi : i < S.msgs.length)
    (H : RtChild S S.msgs.length B cOK cU cK child cd rn) (hB : B ≤ 18446744073709551616)
    {ord : Kind → List Val → List Val} (hord : ∀ kk es, (ord kk es).Perm es)
    {slots : List Val} {u : Bytes}
    (hv : msgOKLvl S false cOK i (.msg slots u) = true)
    (hu : ((S.msg i).fields.zip slots).all (fun p => utf8Slot cU p.1 p.2) = true)
    (hk1 : unknownRecordsOK (S.msg i).fields u.length u = true)
    (hk2 : ((S.msg i).fields.zip slots).all (fun p => unknownSlot cK p.1 p.2) = true)
    (hlen : (gEncodeLvl S ord i child (.msg slots u)).length ≤ B) :
    ∃ ss', (∀ fuel, (gEncodeLvl S ord i child (.msg slots u)).length ≤ fuel →
        specDecodeLoop true S i {} cd fuel (emptyMsg S i) (gEncodeLvl S ord i child (.msg slots u)) =
          .ok (.msg ss' u)) ∧
      ((S.msg i).fields.zip ss').map (fun p => repSlot rn p.1 p.2) =
        ((S.msg i).fields.zip slots).map (fun p => repSlot rn p.1 p.2) := by
  simp only [msgOKLvl, Bool.and_eq_true, beq_iff_eq, List.all_eq_true] at hv hu hk2
  obtain ⟨⟨hslen, hslots⟩, hone⟩ := hv
  have hmwf := Schema.msg_wf hS hi
  have hdist := MsgDesc.wf_distinct hmwf
  have hperm : (sortFV ((S.msg i).fields.zip slots)).Perm ((S.msg i).fields.zip slots) := by
    rw [sortFV_eq]; exact isort_perm _ _
  simp only [gEncodeLvl, Val.slots, Val.unknown, List.length_append] at hlen ⊢
  obtain ⟨ss', hl', hfin, hst⟩ := fields_rt (S := S) (i := i) (cd := cd) H hB hord hmwf (u := [])
    hslen (fun p hp => ⟨hslots p hp, hu p hp, hk2 p hp⟩) hone
    (sortFV ((S.msg i).fields.zip slots)) (fun p hp => hperm.mem_iff.1 hp)
    (hperm.symm.pairwise (zip_distinct hdist slots) (fun {a b} h => Ne.symm h))
    ((S.msg i).fields.map FieldDesc.zero) u (by simp)
    (by
      intro j f v hf hv
      refine ⟨fun _ => ?_, fun hnin => absurd (hperm.mem_iff.2 (index_mem_zip hf hv)) hnin⟩
      simp [List.getD_eq_getElem?_getD, hf])
    (by omega)
  have hst2 := hst.trans (unknown_rt (S := S) (i := i) (cd := cd) u.length u [] ss' hk1)
  refine ⟨ss', ?_, ?_⟩
  · intro fuel hf
    obtain ⟨fuel', _, he⟩ := hst2 fuel (by simpa using hf)
    have : emptyMsg S i = Val.msg ((S.msg i).fields.map FieldDesc.zero) [] := rfl
    rw [this, he, loop_nil]
    simp
  · exact zip_map_congr (fun f v => repSlot rn f v) _ ss' slots hl' hslen
      (fun j f v hf hv => hfin j f v hf hv)

end level

/-! ### the tree -/

theorem tree_rt {S : Schema} (hS : S.WF = true) {ord : Kind → List Val → List Val}
    (hord : ∀ kk es, (ord kk es).Perm es) :
    ∀ (fuel i : Nat) (v : Val) (F depth : Nat), i < S.msgs.length →
      msgOK S false fuel i v = true → utf8OK S fuel i v = true → unknownOK S fuel i v = true →
      (gEncode S ord fuel i v).length < 18446744073709551616 →
      (gEncode S ord fuel i v).length + 1 ≤ F → fuel ≤ depth →
      ∃ w, specDecodeInto true S {} F depth i (emptyMsg S i) (gEncode S ord fuel i v) = .ok w ∧
        repNorm S fuel i w = repNorm S fuel i v ∧ w.isNone = false := by
  intro fuel
  induction fuel with
  | zero => intro i v F depth _ h; simp [msgOK] at h
  | succ fuel ih =>
    intro i v F depth hi hv hu hk hlen hF hdepth
    obtain ⟨slots, u, rfl⟩ := msgOK_isMsg hv
    obtain ⟨F', rfl⟩ : ∃ F', F = F' + 1 := ⟨F - 1, by omega⟩
    have hg : gEncode S ord (fuel + 1) i (.msg slots u) =
        gEncodeLvl S ord i (gEncode S ord fuel) (.msg slots u) := by
      simp [gEncode, Val.isNone]
    rw [hg] at hlen hF ⊢
    have H : RtChild S S.msgs.length (gEncodeLvl S ord i (gEncode S ord fuel) (.msg slots u)).length
        (msgOK S false fuel) (utf8OK S fuel) (unknownOK S fuel) (gEncode S ord fuel)
        (specDecodeInto true S {} F' (depth - 1)) (repNorm S fuel) := by
      refine ⟨fun j x hx => msgOK_not_none hx, ?_⟩
      intro j x hj hx hxu hxk hxl
      exact ih j x F' (depth - 1) hj hx hxu hxk (by omega) (by omega) (by omega)
    simp only [msgOK] at hv
    simp only [utf8OK, Val.slots] at hu
    simp only [unknownOK, Val.unknown, Val.slots, Bool.and_eq_true] at hk
    obtain ⟨ss', hdec, hrep⟩ := level_rt hS hi H (by omega) hord hv hu hk.1 hk.2 (Nat.le_refl _)
    refine ⟨.msg ss' u, ?_, ?_, rfl⟩
    · rw [specDecodeInto]
      rw [if_neg (by omega)]
      exact hdec _ (Nat.le_refl _)
    · simp only [repNorm, hrep]

end Pulsar
