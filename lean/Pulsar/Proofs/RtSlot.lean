/-
  Pulsar.Proofs.RtSlot — the field-level round trip `field_rt`: all shapes assembled.
-/
import Pulsar.Proofs.RtField
namespace Pulsar

/-! ### sorting a permutation of entries with distinct keys -/

theorem sortEntries_perm_eq (kk : Kind) {l₁ l₂ : List Val} (hp : l₁.Perm l₂)
    (hok : ∀ en ∈ l₁, scalarOK kk en.key = true) (hd : distinctKeys kk l₁ = true) :
    sortEntries kk l₁ = sortEntries kk l₂ := by
  have hok2 : ∀ en ∈ l₂, scalarOK kk en.key = true := fun en h => hok en (hp.mem_iff.2 h)
  have hd2 : distinctKeys kk l₂ = true := by
    rw [distinctKeys_iff] at hd ⊢
    exact hp.pairwise hd (fun {x y} h => by rw [kbeqOf_comm]; exact h)
  exact sorted_perm_unique (entryLt kk) (entryLt_asymm kk)
    (((sortEntries_perm kk l₁).trans hp).trans (sortEntries_perm kk l₂).symm)
    (sortEntries_sorted kk l₁ hok hd) (sortEntries_sorted kk l₂ hok2 hd2)

theorem isNone_eq_true {v : Val} (h : v.isNone = true) : v = .none := by
  cases v <;> simp [Val.isNone] at h; rfl

section level
variable {S : Schema} {i n B : Nat} {cOK cU cK : Nat → Val → Bool} {child : Nat → Val → Bytes}
  {cd : Nat → Val → Bytes → Res Val} {rn : Nat → Val → Val}

local notation "LL" => specDecodeLoop true S i {} cd

theorem length_le_flatten_of_mem {α : Type} {g : α → Bytes} {l : List α} {x : α} (h : x ∈ l) :
    (g x).length ≤ (l.map g).flatten.length := by
  induction l with
  | nil => cases h
  | cons y ys ih =>
    simp only [List.map_cons, List.flatten_cons, List.length_append]
    rcases List.mem_cons.1 h with rfl | h
    · omega
    · have := ih h; omega

variable (H : RtChild S n B cOK cU cK child cd rn) (hB : B ≤ 18446744073709551616)
include H hB

theorem field_rt {ord : Kind → List Val → List Val} (hord : ∀ kk es, (ord kk es).Perm es)
    {f : FieldDesc} {j : Nat} {ss : List Val} {u : Bytes}
    (hfind : findField (S.msg i).fields f.num = some (j, f)) (hwf : f.wf n = true) {v : Val}
    (hv : slotOK cOK false f v = true) (hu : utf8Slot cU f v = true) (hk : unknownSlot cK f v = true)
    (hlen : (gField ord child f v).length ≤ B) (hj : j < ss.length) (hcur : ss.getD j .none = f.zero)
    (hclr : ∀ g, f.shape = .oneof g → v.isNone = false → clearGroup (S.msg i).fields g ss = ss)
    (rest : Bytes) :
    ∃ v', Steps LL (.msg ss u) (gField ord child f v ++ rest) (.msg (ss.set j v') u) rest ∧
      repSlot rn f v' = repSlot rn f v := by
  have habsent : ∀ v', v' = f.zero → gField ord child f v = [] → repSlot rn f v' = repSlot rn f v →
      ∃ v', Steps LL (.msg ss u) (gField ord child f v ++ rest) (.msg (ss.set j v') u) rest ∧
        repSlot rn f v' = repSlot rn f v := by
    intro v' hv' hg hrep
    refine ⟨v', ?_, hrep⟩
    rw [hg, hv', ← hcur, rt_set_getD_self ss j hj]
    exact Steps.refl _ _ _
  have htagpos := tag_length_pos f.num
  cases hs : f.shape with
  | singular =>
    simp only [slotOK, hs] at hv
    simp only [utf8Slot, hs] at hu
    simp only [unknownSlot, hs] at hk
    cases he : f.elem with
    | scalar k =>
      have hv' : scalarOK k v = true := by simpa [elemOK, he] using hv
      by_cases hp : specPresent k v = true
      · have hg : gField ord child f v = specTag f ++ specScalar k v := by
          simp [gField, hs, he, hp]
        rw [hg] at hlen ⊢
        refine ⟨decScalar k v, rec_singular_scalar hfind hwf hs he hv' ?_ ?_ rest, ?_⟩
        · intro hk'; subst hk'; simpa [utf8Elem, he] using hu
        · have := getBlob_length_le hv'
          have := htagpos k.specWireType
          rw [specTag_scalar he] at hlen
          simp only [List.length_append] at hlen; omega
        · simp [repSlot, hs, he, decScalar_rep]
      · apply habsent f.zero rfl
        · simp [gField, hs, he, hp]
        · simp only [repSlot, hs, he, FieldDesc.zero]
          by_cases hb : k.isBlob = true
          · obtain ⟨nn, b, rfl⟩ := scalarOK_blob hv' hb
            have : b = [] := by simpa [specPresent, hb, Val.getBlob] using hp
            subst this
            simp [hb, repElem]
          · have hb' : k.isBlob = false := by simpa using hb
            obtain ⟨m, rfl, _⟩ := scalarOK_bits hv' hb'
            have : m = 0 := by simpa [specPresent, hb', Val.getBits] using hp
            subst this
            simp [hb']
    | message mi =>
      by_cases hnone : v.isNone = true
      · have := isNone_eq_true hnone; subst this
        apply habsent f.zero rfl
        · simp [gField, hs, he, Val.isNone]
        · simp [FieldDesc.zero, hs, he]
      · have hnone' : v.isNone = false := by simpa using hnone
        have hg : gField ord child f v = specTag f ++ specElem child (.message mi) v := by
          simp [gField, hs, he, hnone']
        rw [hg] at hlen ⊢
        have hx : elemOK cOK (.message mi) false v = true := by
          simp only [he, elemOK, hnone', Bool.false_and, Bool.false_or] at hv
          simpa [elemOK] using hv
        rw [he] at hu hk
        have hcl : (child mi v).length < B := by
          have := htagpos 2
          rw [specTag_message he] at hlen
          simp only [specElem, List.length_append] at hlen; omega
        obtain ⟨w, hst, hrep⟩ := rec_singular_message (ss := ss) (u := u) H hB hfind hwf hs he
          (by rw [hcur]; simp [FieldDesc.zero, hs, he]) hx hu hk hcl rest
        exact ⟨w, hst, by simpa [repSlot, hs, he] using hrep⟩
  | oneof g =>
    simp only [slotOK, hs] at hv
    simp only [utf8Slot, hs] at hu
    simp only [unknownSlot, hs] at hk
    have hz : f.zero = .none := by cases he : f.elem <;> simp [FieldDesc.zero, hs, he]
    cases v <;> simp at hv
    case none =>
      apply habsent f.zero rfl
      · simp [gField, hs]
      · rw [hz]
    case one x =>
      have hclr' := hclr g hs rfl
      have hg : gField ord child f (.one x) = specTag f ++ specElem child f.elem x := by
        simp [gField, hs]
      rw [hg] at hlen ⊢
      cases he : f.elem with
      | scalar k =>
        rw [he] at hv hu hlen
        have hv' : scalarOK k x = true := by simpa [elemOK] using hv
        refine ⟨.one (decScalar k x), rec_oneof_scalar hfind hwf hs he hclr' hv' ?_ ?_ rest, ?_⟩
        · intro hk'; subst hk'; simpa [utf8Elem] using hu
        · have := getBlob_length_le hv'
          have := htagpos k.specWireType
          rw [specTag_scalar he] at hlen
          simp only [specElem, List.length_append] at hlen; omega
        · simp [repSlot, hs, he, decScalar_rep]
      | message mi =>
        rw [he] at hv hu hk hlen
        have hcl : (child mi x).length < B := by
          have := htagpos 2
          rw [specTag_message he] at hlen
          simp only [specElem, List.length_append] at hlen; omega
        obtain ⟨w, hst, hrep⟩ := rec_oneof_message (ss := ss) (u := u) H hB hfind hwf hs he
          (by rw [hcur, hz]) hclr' hv hu hk hcl rest
        exact ⟨.one w, hst, by simpa [repSlot, hs, he] using hrep⟩
  | repeated pk =>
    simp only [slotOK, hs] at hv
    simp only [utf8Slot, hs] at hu
    simp only [unknownSlot, hs] at hk
    have hz : f.zero = .list false [] := by cases he : f.elem <;> simp [FieldDesc.zero, hs, he]
    cases v <;> simp at hv
    case list nn es =>
      simp only [Val.elems, List.all_eq_true] at hu hk
      by_cases hemp : es = []
      · subst hemp
        apply habsent f.zero rfl
        · simp [gField, hs, Val.elems]
        · rw [hz]; simp [repSlot, hs, Val.elems]
      · have hemp' : es.isEmpty = false := by simpa using hemp
        cases pk with
        | true =>
          obtain ⟨k, he, hblob⟩ := FieldDesc.wf_packed hwf hs
          have hg : gField ord child f (.list nn es) =
              tag f.num 2 ++ varint ((es.map (specScalar k)).flatten).length ++ (es.map (specScalar k)).flatten := by
            simp only [gField, hs, Val.elems, hemp', he, Bool.false_eq_true, if_false, if_true]
            rfl
          rw [hg] at hlen ⊢
          have hes : ∀ x ∈ es, scalarOK k x = true := by
            intro x hx; have := hv x hx; rw [he] at this; simpa [elemOK] using this
          have hst := rec_packed (S := S) (i := i) (cd := cd) (ss := ss) (u := u) hfind hwf hs he hblob
            (nn := false) (acc := []) (by rw [hcur, hz]) hes
            (by have := htagpos 2; simp only [List.length_append] at hlen; omega) rest
          refine ⟨_, hst, ?_⟩
          simp [repSlot, hs, Val.elems]
        | false =>
          have hg : gField ord child f (.list nn es) =
              (es.map (fun x => specTag f ++ specElem child f.elem x)).flatten := by
            simp [gField, hs, Val.elems, hemp']
          rw [hg] at hlen ⊢
          have hbound : ∀ x ∈ es, (specTag f ++ specElem child f.elem x).length ≤ B := fun x hx =>
            Nat.le_trans (length_le_flatten_of_mem (g := fun x => specTag f ++ specElem child f.elem x) hx) hlen
          cases he : f.elem with
          | scalar k =>
            rw [he] at hv hu hbound
            have hnp : ¬ (k.specWireType = 2 ∧ k.packable = true) := by
              rw [specWireType_eq_2]; simp [Kind.packable]
            obtain ⟨es', hR, hst⟩ := records_list (S := S) (i := i) (cd := cd) (j := j) (u := u)
              (enc := fun x => specTag f ++ specElem child (.scalar k) x)
              (P := fun x => x ∈ es) (R := fun x x' => x' = decScalar k x)
              (by
                intro x hx ss' rest' _
                have hv' : scalarOK k x = true := by simpa [elemOK] using hv x hx
                refine ⟨_, rfl, rec_repeated_scalar hfind hwf hs he hnp hv' ?_ ?_ rest'⟩
                · intro hk'; subst hk'; simpa [utf8Elem] using hu x hx
                · have := getBlob_length_le hv'
                  have := htagpos k.specWireType
                  have := hbound x hx
                  rw [specTag_scalar he] at this
                  simp only [specElem, List.length_append] at this; omega)
              es (fun x hx => hx) ss false [] rest hj (by rw [hcur, hz])
            refine ⟨_, hst, ?_⟩
            simp only [repSlot, hs, Val.elems, List.nil_append, he]
            rw [All2.map_eq (g := repElem rn (.scalar k)) (h := repElem rn (.scalar k))
              (fun a b hab => by rw [hab, decScalar_rep]) hR]
          | message mi =>
            rw [he] at hv hu hk hbound
            obtain ⟨es', hR, hst⟩ := records_list (S := S) (i := i) (cd := cd) (j := j) (u := u)
              (enc := fun x => specTag f ++ specElem child (.message mi) x)
              (P := fun x => x ∈ es)
              (R := fun x x' => repElem rn (.message mi) x' = repElem rn (.message mi) x)
              (by
                intro x hx ss' rest' _
                have hcl : (child mi x).length < B := by
                  have := htagpos 2
                  have := hbound x hx
                  rw [specTag_message he] at this
                  simp only [specElem, List.length_append] at this; omega
                obtain ⟨w, hst, hrep⟩ := rec_repeated_message (ss := ss') (u := u) H hB hfind hwf hs he
                  (hv x hx) (hu x hx) (hk x hx) hcl rest'
                exact ⟨w, hrep, hst⟩)
              es (fun x hx => hx) ss false [] rest hj (by rw [hcur, hz])
            refine ⟨_, hst, ?_⟩
            simp only [repSlot, hs, Val.elems, List.nil_append, he]
            rw [All2.map_eq (g := repElem rn (.message mi)) (h := repElem rn (.message mi))
              (fun a b hab => hab) hR]
  | map kk =>
    simp only [slotOK, hs] at hv
    simp only [utf8Slot, hs] at hu
    simp only [unknownSlot, hs] at hk
    have hz : f.zero = .map false [] := by cases he : f.elem <;> simp [FieldDesc.zero, hs, he]
    cases v <;> simp at hv
    case map nn es =>
      obtain ⟨hents, hdist⟩ := hv
      simp only [Val.elems, List.all_eq_true] at hu hk
      have hg : gField ord child f (.map nn es) =
          ((ord kk es).map (fun en => tag f.num 2 ++ varint (specEntry child kk f.elem en).length ++
              specEntry child kk f.elem en)).flatten := by
        simp [gField, hs, Val.elems]
      rw [hg] at hlen ⊢
      have hperm := hord kk es
      have hmem : ∀ en, en ∈ ord kk es → en ∈ es := fun en h => hperm.mem_iff.1 h
      have hpw : (ord kk es).Pairwise (fun a b => kbeqOf kk a.key b.key = false) :=
        hperm.symm.pairwise ((distinctKeys_iff kk es).1 hdist) (fun {x y} h => by rw [kbeqOf_comm]; exact h)
      obtain ⟨l', hR, hst⟩ := records_map (u := u) H hB hfind hwf hs (ord kk es)
        (by
          intro en hen
          refine ⟨hents en (hmem en hen), hu en (hmem en hen), hk en (hmem en hen), ?_⟩
          have := length_le_flatten_of_mem (g := fun en => tag f.num 2 ++
            varint (specEntry child kk f.elem en).length ++ specEntry child kk f.elem en) hen
          have := htagpos 2
          simp only [List.length_append] at *
          omega)
        hpw ss false [] rest hj (by rw [hcur, hz]) (by intro a ha; cases ha)
      refine ⟨_, hst, ?_⟩
      simp only [repSlot, hs, Val.elems, List.nil_append]
      congr 1
      have hmap : l'.map (fun en => Val.entry (repElem rn (.scalar kk) en.key) (repElem rn f.elem en.value)) =
          (ord kk es).map (fun en => Val.entry (repElem rn (.scalar kk) en.key) (repElem rn f.elem en.value)) := by
        apply All2.map_eq _ hR
        rintro a b ⟨x', rfl, hx'⟩
        simp only [Val.key_entry, Val.value_entry, decScalar_rep, hx']
      rw [hmap]
      symm
      apply sortEntries_perm_eq kk (hperm.symm.map _)
      · intro en hen
        obtain ⟨a, ha, rfl⟩ := List.mem_map.1 hen
        rw [Val.key_entry, scalarOK_rep]
        have := hents a ha
        cases a <;> simp [entryOK] at this
        exact this.1
      · rw [distinctKeys_iff, List.pairwise_map]
        refine ((distinctKeys_iff kk es).1 hdist).imp ?_
        intro a b hab
        rw [Val.key_entry, Val.key_entry]
        rw [kbeqOf_congr kk (repScalar_getBits rn kk _) (repScalar_getBlob rn kk _)
          (repScalar_getBits rn kk _) (repScalar_getBlob rn kk _)]
        exact hab

end level
end Pulsar
