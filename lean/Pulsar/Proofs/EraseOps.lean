/-
  Pulsar.Proofs.EraseOps — erasing unknown fields commutes with the value operations the decoder
  performs (slot read/write, oneof clearing, list append, map put), and those keep the shape invariant.
-/
import Pulsar.Proofs.Erase
import Pulsar.Decode
namespace Pulsar

variable (S : Schema)

/-- element-level erase / shape -/
abbrev eE (e : Elem) (v : Val) : Val := eraseElem (E S) e v
abbrev sE (e : Elem) (v : Val) : Bool := shElem (Sh S) e v

@[simp] theorem eE_scalar (k : Kind) (v : Val) : eE S (.scalar k) v = v := rfl
@[simp] theorem sE_scalar (k : Kind) (v : Val) : sE S (.scalar k) v = true := rfl
theorem eE_message (i : Nat) (v : Val) : eE S (.message i) v = if v.isNone then v else E S i v := rfl
theorem sE_message (i : Nat) (v : Val) : sE S (.message i) v = (v.isNone || Sh S i v) := rfl

theorem Sh_not_none {i : Nat} {v : Val} (h : Sh S i v = true) : v.isNone = false := by
  obtain ⟨s, u, rfl⟩ := Sh_is_msg h; rfl

theorem E_isNone {i : Nat} {v : Val} (h : Sh S i v = true) : (E S i v).isNone = false := by
  obtain ⟨s, u, rfl⟩ := Sh_is_msg h; rw [E_msg]; rfl

/-- a well-shaped message value erases to its `E` at an element position -/
theorem eE_of_Sh {i : Nat} {v : Val} (h : Sh S i v = true) : eE S (.message i) v = E S i v := by
  rw [eE_message, Sh_not_none S h]; rfl

theorem sE_of_Sh {i : Nat} {v : Val} (h : Sh S i v = true) : sE S (.message i) v = true := by
  rw [sE_message, h]; simp

/-! ## slots -/

@[simp] theorem ES_none (f : FieldDesc) : ES S f .none = .none := by
  unfold ES eraseSlot
  split <;> simp_all [eraseElem]
  split <;> simp [Val.isNone]

theorem zipmap_getD {fs : List FieldDesc} (G : FieldDesc → Val → Val) (hG : ∀ f, G f .none = .none) :
    ∀ (slots : List Val) (j : Nat) (f : FieldDesc), fs[j]? = some f →
      ((fs.zip slots).map (fun p => G p.1 p.2)).getD j .none = G f (slots.getD j .none) := by
  induction fs with
  | nil => intro slots j f h; simp at h
  | cons a fs ih =>
    intro slots j f h
    cases slots with
    | nil => simp [hG]
    | cons s slots =>
      cases j with
      | zero => simp at h; subst h; simp
      | succ j =>
        simp only [List.getElem?_cons_succ] at h
        simpa using ih slots j f h

theorem zipmap_set {fs : List FieldDesc} (G : FieldDesc → Val → Val) :
    ∀ (slots : List Val) (j : Nat) (f : FieldDesc) (v : Val), fs[j]? = some f →
      (fs.zip (slots.set j v)).map (fun p => G p.1 p.2) = ((fs.zip slots).map (fun p => G p.1 p.2)).set j (G f v) := by
  induction fs with
  | nil => intro slots j f v h; simp at h
  | cons a fs ih =>
    intro slots j f v h
    cases slots with
    | nil => simp
    | cons s slots =>
      cases j with
      | zero => simp at h; subst h; simp
      | succ j =>
        simp only [List.getElem?_cons_succ] at h
        simp [ih slots j f v h]

theorem zipall_set {fs : List FieldDesc} (P : FieldDesc → Val → Bool) :
    ∀ (slots : List Val) (j : Nat) (f : FieldDesc) (v : Val), fs[j]? = some f → P f v = true →
      (fs.zip slots).all (fun p => P p.1 p.2) = true → (fs.zip (slots.set j v)).all (fun p => P p.1 p.2) = true := by
  induction fs with
  | nil => intro slots j f v h; simp at h
  | cons a fs ih =>
    intro slots j f v h hv hall
    cases slots with
    | nil => simp
    | cons s slots =>
      cases j with
      | zero =>
        simp at h; subst h
        simp only [List.set_cons_zero, List.zip_cons_cons, List.all_cons, Bool.and_eq_true] at hall ⊢
        exact ⟨hv, hall.2⟩
      | succ j =>
        simp only [List.getElem?_cons_succ] at h
        simp only [List.set_cons_succ, List.zip_cons_cons, List.all_cons, Bool.and_eq_true] at hall ⊢
        exact ⟨hall.1, ih slots j f v h hv hall.2⟩

theorem zipall_getD {fs : List FieldDesc} (P : FieldDesc → Val → Bool) :
    ∀ (slots : List Val) (j : Nat) (f : FieldDesc), fs[j]? = some f → j < slots.length →
      (fs.zip slots).all (fun p => P p.1 p.2) = true → P f (slots.getD j .none) = true := by
  induction fs with
  | nil => intro slots j f h; simp at h
  | cons a fs ih =>
    intro slots j f h hj hall
    cases slots with
    | nil => simp at hj
    | cons s slots =>
      simp only [List.zip_cons_cons, List.all_cons, Bool.and_eq_true] at hall
      cases j with
      | zero => simp at h; subst h; simpa using hall.1
      | succ j =>
        simp only [List.getElem?_cons_succ] at h
        simpa using ih slots j f h (by simpa using hj) hall.2

theorem clearGroup_cons (a : FieldDesc) (fs : List FieldDesc) (g : Nat) (s : Val) (slots : List Val) :
    clearGroup (a :: fs) g (s :: slots) =
      (if a.group? == some g then Val.none else s) :: clearGroup fs g slots := by
  simp [clearGroup]

theorem clearGroup_nil_right (fs : List FieldDesc) (g : Nat) : clearGroup fs g [] = [] := by
  simp [clearGroup]

theorem clearGroup_length (fs : List FieldDesc) (g : Nat) (slots : List Val) (h : slots.length = fs.length) :
    (clearGroup fs g slots).length = fs.length := by
  simp [clearGroup, h]

theorem zipmap_clearGroup {fs : List FieldDesc} (g : Nat) (G : FieldDesc → Val → Val) (hG : ∀ f, G f .none = .none) :
    ∀ (slots : List Val),
      (fs.zip (clearGroup fs g slots)).map (fun p => G p.1 p.2) =
        clearGroup fs g ((fs.zip slots).map (fun p => G p.1 p.2)) := by
  induction fs with
  | nil => intro slots; simp [clearGroup]
  | cons a fs ih =>
    intro slots
    cases slots with
    | nil => simp [clearGroup]
    | cons s slots =>
      rw [clearGroup_cons]
      simp only [List.zip_cons_cons, List.map_cons]
      rw [clearGroup_cons, ih slots]
      congr 1
      split
      · exact hG a
      · rfl

theorem zipall_clearGroup {fs : List FieldDesc} (g : Nat) (P : FieldDesc → Val → Bool)
    (hP : ∀ f, f.group? = some g → P f .none = true) :
    ∀ (slots : List Val), (fs.zip slots).all (fun p => P p.1 p.2) = true →
      (fs.zip (clearGroup fs g slots)).all (fun p => P p.1 p.2) = true := by
  induction fs with
  | nil => intro slots _; simp
  | cons a fs ih =>
    intro slots hall
    cases slots with
    | nil => simp [clearGroup]
    | cons s slots =>
      rw [clearGroup_cons]
      simp only [List.zip_cons_cons, List.all_cons, Bool.and_eq_true] at hall ⊢
      refine ⟨?_, ih slots hall.2⟩
      split
      · rename_i h; exact hP a (by simpa using h)
      · exact hall.1

/-! ## message-level lemmas -/

theorem Sh_msg_iff {i : Nat} {slots : List Val} {u : Bytes} :
    Sh S i (Val.msg slots u) = true ↔
      slots.length = (S.msg i).fields.length ∧ ((S.msg i).fields.zip slots).all (fun p => ShS S p.1 p.2) = true := by
  rw [Sh_msg]; simp

theorem E_slot {i j : Nat} {f : FieldDesc} (slots : List Val) (u : Bytes) (hf : (S.msg i).fields[j]? = some f) :
    (E S i (Val.msg slots u)).slot j = ES S f ((Val.msg slots u).slot j) := by
  rw [E_msg]
  simp only [Val.slot, Val.slots]
  exact zipmap_getD (ES S) (ES_none S) slots j f hf

theorem ShS_slot {i j : Nat} {f : FieldDesc} {slots : List Val} {u : Bytes} (hf : (S.msg i).fields[j]? = some f)
    (h : Sh S i (Val.msg slots u) = true) : ShS S f ((Val.msg slots u).slot j) = true := by
  obtain ⟨hl, hall⟩ := (Sh_msg_iff S).1 h
  simp only [Val.slot, Val.slots]
  have hj : j < (S.msg i).fields.length := by
    rcases Nat.lt_or_ge j (S.msg i).fields.length with h | h
    · exact h
    · rw [List.getElem?_eq_none h] at hf; cases hf
  exact zipall_getD (ShS S) slots j f hf (by omega) hall

theorem E_setSlot {i j : Nat} {f : FieldDesc} (slots : List Val) (u : Bytes) (v : Val)
    (hf : (S.msg i).fields[j]? = some f) :
    E S i ((Val.msg slots u).setSlot j v) = (E S i (Val.msg slots u)).setSlot j (ES S f v) := by
  simp only [Val.setSlot, E_msg]
  rw [zipmap_set (ES S) slots j f v hf]

theorem Sh_setSlot {i j : Nat} {f : FieldDesc} {slots : List Val} {u : Bytes} {v : Val}
    (hf : (S.msg i).fields[j]? = some f) (h : Sh S i (Val.msg slots u) = true) (hv : ShS S f v = true) :
    Sh S i ((Val.msg slots u).setSlot j v) = true := by
  obtain ⟨hl, hall⟩ := (Sh_msg_iff S).1 h
  simp only [Val.setSlot]
  rw [Sh_msg_iff]
  exact ⟨by simpa using hl, zipall_set (ShS S) slots j f v hf hv hall⟩

theorem E_unknown {i : Nat} (slots : List Val) (u u' : Bytes) :
    E S i (Val.msg slots u') = E S i (Val.msg slots u) := by
  rw [E_msg, E_msg]

theorem Sh_unknown {i : Nat} {slots : List Val} {u : Bytes} (u' : Bytes) (h : Sh S i (Val.msg slots u) = true) :
    Sh S i (Val.msg slots u') = true := by
  rw [Sh_msg] at h ⊢; exact h

theorem ShS_none_of_group {f : FieldDesc} {g : Nat} (h : f.group? = some g) : ShS S f .none = true := by
  unfold FieldDesc.group? at h
  unfold ShS shSlot
  split at h
  · rename_i hs; simp [hs]
  · cases h

theorem E_clearGroup {i : Nat} (g : Nat) (slots : List Val) (u : Bytes) :
    E S i (Val.msg (clearGroup (S.msg i).fields g slots) u) =
      Val.msg (clearGroup (S.msg i).fields g (E S i (Val.msg slots u)).slots) (E S i (Val.msg slots u)).unknown := by
  rw [E_msg, E_msg]
  simp only [Val.slots, Val.unknown]
  rw [zipmap_clearGroup g (ES S) (ES_none S)]

theorem Sh_clearGroup {i : Nat} (g : Nat) {slots : List Val} {u : Bytes} (h : Sh S i (Val.msg slots u) = true) :
    Sh S i (Val.msg (clearGroup (S.msg i).fields g slots) u) = true := by
  obtain ⟨hl, hall⟩ := (Sh_msg_iff S).1 h
  rw [Sh_msg_iff]
  exact ⟨clearGroup_length _ _ _ hl, zipall_clearGroup g (ShS S) (fun f hf => ShS_none_of_group S hf) slots hall⟩

/-! ## `emptyMsg` -/

theorem ES_zero (f : FieldDesc) : ES S f f.zero = f.zero := by
  unfold ES eraseSlot FieldDesc.zero
  cases hs : f.shape <;> cases he : f.elem <;> simp [eraseElem, Val.isNone]

theorem ShS_zero (f : FieldDesc) : ShS S f f.zero = true := by
  unfold ShS shSlot FieldDesc.zero
  cases hs : f.shape <;> cases he : f.elem <;> simp [shElem, Val.isNone]

theorem zip_all_self (fs : List FieldDesc) (z : FieldDesc → Val) (P : FieldDesc → Val → Bool) :
    (fs.zip (fs.map z)).all (fun p => P p.1 p.2) = fs.all (fun f => P f (z f)) := by
  induction fs with
  | nil => rfl
  | cons a fs ih => simp [ih]

theorem zip_map_self {β : Type} (fs : List FieldDesc) (z : FieldDesc → Val) (G : FieldDesc → Val → β) :
    (fs.zip (fs.map z)).map (fun p => G p.1 p.2) = fs.map (fun f => G f (z f)) := by
  induction fs with
  | nil => rfl
  | cons a fs ih => simp [ih]

theorem E_emptyMsg (i : Nat) : E S i (emptyMsg S i) = emptyMsg S i := by
  unfold emptyMsg
  rw [E_msg, zip_map_self]
  congr 1
  apply List.map_congr_left
  intro f _
  exact ES_zero S f

theorem Sh_emptyMsg (i : Nat) : Sh S i (emptyMsg S i) = true := by
  unfold emptyMsg
  rw [Sh_msg_iff]
  refine ⟨by simp, ?_⟩
  rw [zip_all_self, List.all_eq_true]
  intro f _
  exact ShS_zero S f

end Pulsar
