/-
  Helper lemmas for C08: the map-key order is a strict total order on well-typed keys, insertion sort
  is the unique sorted permutation of a list with distinct keys, and the map primitives (`mapPut`,
  `mapDel`, `findEntry`) commute with sorting.
-/
import Pulsar.Reflect
namespace Pulsar

/-! ### byte strings -/
theorem bytesLt_cons (a b : UInt8) (as bs : Bytes) :
    bytesLt (a :: as) (b :: bs) = true ↔ (a.toNat < b.toNat ∨ (a = b ∧ bytesLt as bs = true)) := by
  simp [bytesLt, UInt8.lt_iff_toNat_lt]

theorem bytesLt_asymm : ∀ (a b : Bytes), bytesLt a b = true → bytesLt b a = false
  | [], [], h => by simp [bytesLt] at h
  | [], _ :: _, _ => by simp [bytesLt]
  | _ :: _, [], h => by simp [bytesLt] at h
  | a :: as, b :: bs, h => by
    rw [bytesLt_cons] at h
    apply Bool.eq_false_iff.2
    intro h'
    rw [bytesLt_cons] at h'
    rcases h with h | ⟨rfl, h⟩ <;> rcases h' with h' | ⟨e, h'⟩
    · omega
    · subst e; omega
    · omega
    · have := bytesLt_asymm as bs h; simp [this] at h'

theorem rf_bytesLt_trans : ∀ (a b c : Bytes), bytesLt a b = true → bytesLt b c = true → bytesLt a c = true
  | [], _, [], _, h2 => by cases ‹Bytes› <;> simp [bytesLt] at *
  | [], _, _ :: _, _, _ => by simp [bytesLt]
  | _ :: _, [], _, h1, _ => by simp [bytesLt] at h1
  | _ :: _, _ :: _, [], _, h2 => by simp [bytesLt] at h2
  | a :: as, b :: bs, c :: cs, h1, h2 => by
    rw [bytesLt_cons] at *
    rcases h1 with h1 | ⟨rfl, h1⟩ <;> rcases h2 with h2 | ⟨e, h2⟩
    · left; omega
    · subst e; left; omega
    · left; omega
    · subst e; right; exact ⟨rfl, rf_bytesLt_trans as bs cs h1 h2⟩

theorem rf_bytesLt_total : ∀ (a b : Bytes), bytesLt a b = false → bytesLt b a = false → a = b
  | [], [], _, _ => rfl
  | [], _ :: _, h, _ => by simp [bytesLt] at h
  | _ :: _, [], _, h => by simp [bytesLt] at h
  | a :: as, b :: bs, h1, h2 => by
    have h1' := Bool.eq_false_iff.1 h1
    have h2' := Bool.eq_false_iff.1 h2
    rw [Ne, bytesLt_cons] at h1' h2'
    have hab : a = b := by
      apply UInt8.toNat_inj.1
      omega
    subst hab
    have e : as = bs := rf_bytesLt_total as bs
      (by cases h : bytesLt as bs <;> simp_all) (by cases h : bytesLt bs as <;> simp_all)
    rw [e]

/-! ### keys -/

theorem rf_toInt32_inj {a b : Nat} (ha : a < 4294967296) (hb : b < 4294967296)
    (h : toInt32 a = toInt32 b) : a = b := by
  unfold toInt32 wrap32 at h
  simp only at h
  split at h <;> split at h <;> omega

theorem rf_toInt64_inj {a b : Nat} (ha : a < 18446744073709551616) (hb : b < 18446744073709551616)
    (h : toInt64 a = toInt64 b) : a = b := by
  unfold toInt64 wrap64 at h
  simp only at h
  split at h <;> split at h <;> omega

theorem rf_scalarOK_bits {k : Kind} {v : Val} (h : scalarOK k v = true) (hk : k.isBlob = false) :
    ∃ n, v = .bits n ∧ n < 2 ^ k.width := by
  cases v <;> simp [scalarOK, hk] at h
  rename_i n
  refine ⟨n, rfl, ?_⟩
  split at h
  · rename_i hb
    have : k = .bool := by simpa using hb
    subst this; simp [Kind.width]; omega
  · exact h

theorem rf_scalarOK_blob {k : Kind} {v : Val} (h : scalarOK k v = true) (hk : k.isBlob = true) :
    ∃ nn b, v = .blob nn b := by
  cases v <;> simp [scalarOK, hk] at h
  exact ⟨_, _, rfl⟩


theorem rf_keyLt_asymm (k : Kind) (a b : Val) (h : keyLt k a b = true) : keyLt k b a = false := by
  cases k <;> simp only [keyLt, decide_eq_true_eq, decide_eq_false_iff_not] at * <;>
    first | omega | exact bytesLt_asymm _ _ h

theorem rf_keyLt_trans (k : Kind) (a b c : Val) (h1 : keyLt k a b = true) (h2 : keyLt k b c = true) :
    keyLt k a c = true := by
  cases k <;> simp only [keyLt, decide_eq_true_eq] at * <;>
    first | omega | exact rf_bytesLt_trans _ _ _ h1 h2

theorem rf_keyLt_total (k : Kind) (a b : Val) (ha : scalarOK k a = true) (hb : scalarOK k b = true)
    (h1 : keyLt k a b = false) (h2 : keyLt k b a = false) : kbeqOf k a b = true := by
  by_cases hk : k.isBlob = true
  · obtain ⟨_, x, rfl⟩ := rf_scalarOK_blob ha hk
    obtain ⟨_, y, rfl⟩ := rf_scalarOK_blob hb hk
    have : x = y := by
      cases k <;> simp [Kind.isBlob] at hk <;> simp only [keyLt, Val.getBlob] at h1 h2 <;>
        exact rf_bytesLt_total _ _ h1 h2
    simp [kbeqOf, hk, Val.getBlob, this]
  · have hk' : k.isBlob = false := by simpa using hk
    obtain ⟨x, rfl, hx⟩ := rf_scalarOK_bits ha hk'
    obtain ⟨y, rfl, hy⟩ := rf_scalarOK_bits hb hk'
    have : x = y := by
      cases k <;> simp [Kind.isBlob] at hk' <;>
        simp only [keyLt, Val.getBits, Kind.width] at h1 h2 hx hy <;>
        have h1 := of_decide_eq_false h1 <;> have h2 := of_decide_eq_false h2 <;>
        first
          | omega
          | (apply rf_toInt32_inj (by omega) (by omega); omega)
          | (apply rf_toInt64_inj (by omega) (by omega); omega)
    simp [kbeqOf, hk', Val.getBits, this]

theorem kbeqOf_symm (k : Kind) (a b : Val) : kbeqOf k a b = kbeqOf k b a := by
  unfold kbeqOf; split
  · exact Bool.beq_comm
  · exact Bool.beq_comm

theorem kbeqOf_refl (k : Kind) (a : Val) : kbeqOf k a a = true := by
  unfold kbeqOf; split <;> simp

theorem kbeqOf_trans (k : Kind) (a b c : Val) (h1 : kbeqOf k a b = true) (h2 : kbeqOf k b c = true) :
    kbeqOf k a c = true := by
  unfold kbeqOf at *; split at h1 <;> simp_all

/-- key-equal keys are interchangeable on either side of `kbeqOf` -/
theorem kbeqOf_congr_left (k : Kind) (a b c : Val) (h : kbeqOf k a b = true) :
    kbeqOf k a c = kbeqOf k b c := by
  unfold kbeqOf at *; split at h <;> simp_all

theorem kbeqOf_congr_right (k : Kind) (a b c : Val) (h : kbeqOf k a b = true) :
    kbeqOf k c a = kbeqOf k c b := by
  rw [kbeqOf_symm k c a, kbeqOf_symm k c b]; exact kbeqOf_congr_left k a b c h

/-- a key-equal key does not change the order -/
theorem keyLt_congr_left (k : Kind) (a b c : Val) (h : kbeqOf k a b = true)
    (ha : scalarOK k a = true) (hb : scalarOK k b = true) : keyLt k a c = keyLt k b c := by
  by_cases hk : k.isBlob = true
  · obtain ⟨_, x, rfl⟩ := rf_scalarOK_blob ha hk
    obtain ⟨_, y, rfl⟩ := rf_scalarOK_blob hb hk
    have : x = y := by simpa [kbeqOf, hk, Val.getBlob] using h
    subst this
    cases k <;> simp [Kind.isBlob] at hk <;> simp [keyLt, Val.getBlob]
  · have hk' : k.isBlob = false := by simpa using hk
    obtain ⟨x, rfl, _⟩ := rf_scalarOK_bits ha hk'
    obtain ⟨y, rfl, _⟩ := rf_scalarOK_bits hb hk'
    have : x = y := by simpa [kbeqOf, hk', Val.getBits] using h
    subst this; rfl

/-! ### insertion sort -/

/-- the order on entries -/
def klt (kk : Kind) (a b : Val) : Bool := keyLt kk a.key b.key

theorem sortEntries_eq (kk : Kind) (es : List Val) : sortEntries kk es = sortBy (klt kk) es := rfl

/-- sorted (non-strictly) by key -/
def SortedK (kk : Kind) (l : List Val) : Prop := l.Pairwise (fun a b => klt kk b a = false)

/-- pairwise distinct keys, in the orientation of `distinctKeys` -/
def DistinctK (kk : Kind) (l : List Val) : Prop := l.Pairwise (fun a b => kbeqOf kk b.key a.key = false)

def KeysOK (kk : Kind) (l : List Val) : Prop := ∀ e ∈ l, scalarOK kk e.key = true

theorem rf_distinctKeys_iff (kk : Kind) : ∀ (l : List Val), distinctKeys kk l = true ↔ DistinctK kk l
  | [] => by simp [distinctKeys, DistinctK]
  | e :: es => by
    have ih := rf_distinctKeys_iff kk es
    simp only [distinctKeys, DistinctK, Bool.and_eq_true, Bool.not_eq_true', List.pairwise_cons] at *
    rw [ih]
    constructor
    · rintro ⟨h1, h2⟩
      refine ⟨fun b hb => ?_, h2⟩
      cases hx : kbeqOf kk b.key e.key
      · rfl
      · have : es.any (fun e' => kbeqOf kk e'.key e.key) = true := List.any_eq_true.2 ⟨b, hb, hx⟩
        simp [this] at h1
    · rintro ⟨h1, h2⟩
      refine ⟨?_, h2⟩
      cases hx : es.any (fun e' => kbeqOf kk e'.key e.key)
      · rfl
      · obtain ⟨b, hb, hb'⟩ := List.any_eq_true.1 hx
        simp [h1 b hb] at hb'

theorem insertBy_perm (lt : Val → Val → Bool) (x : Val) : ∀ l, (insertBy lt x l).Perm (x :: l)
  | [] => List.Perm.refl _
  | y :: ys => by
    unfold insertBy
    split
    · exact List.Perm.refl _
    · exact ((insertBy_perm lt x ys).cons y).trans (List.Perm.swap x y ys)

theorem sortBy_perm (lt : Val → Val → Bool) : ∀ l, (sortBy lt l).Perm l
  | [] => List.Perm.refl _
  | x :: xs => (insertBy_perm lt x _).trans ((sortBy_perm lt xs).cons x)

theorem insertBy_sorted (kk : Kind) (x : Val) :
    ∀ l, SortedK kk l → SortedK kk (insertBy (klt kk) x l)
  | [], _ => by simp [insertBy, SortedK]
  | y :: ys, h => by
    unfold SortedK at h
    rw [List.pairwise_cons] at h
    unfold insertBy
    split
    · rename_i hxy
      unfold SortedK
      rw [List.pairwise_cons]
      refine ⟨fun z hz => ?_, List.pairwise_cons.2 h⟩
      rcases List.mem_cons.1 hz with rfl | hz
      · exact rf_keyLt_asymm _ _ _ hxy
      · cases hzx : klt kk z x
        · rfl
        · have := rf_keyLt_trans kk _ _ _ hzx hxy
          have h' := h.1 z hz
          unfold klt at h'; rw [this] at h'; cases h'
    · rename_i hxy
      unfold SortedK
      rw [List.pairwise_cons]
      refine ⟨fun z hz => ?_, insertBy_sorted kk x ys h.2⟩
      rcases List.mem_cons.1 ((insertBy_perm _ x ys).mem_iff.1 hz) with rfl | hz
      · simpa using hxy
      · exact h.1 z hz

theorem sortBy_sorted (kk : Kind) : ∀ l, SortedK kk (sortBy (klt kk) l)
  | [] => by simp [sortBy, SortedK]
  | x :: xs => insertBy_sorted kk x _ (sortBy_sorted kk xs)

theorem distinct_eq_of_kbeq {kk : Kind} : ∀ {D : List Val}, DistinctK kk D → ∀ {a b : Val}, a ∈ D → b ∈ D →
    kbeqOf kk a.key b.key = true → a = b
  | [], _, _, _, ha, _, _ => by cases ha
  | d :: ds, hd, a, b, ha, hb, hab => by
    unfold DistinctK at hd
    rw [List.pairwise_cons] at hd
    rcases List.mem_cons.1 ha with ea | ha' <;> rcases List.mem_cons.1 hb with eb | hb'
    · rw [ea, eb]
    · subst ea; have := hd.1 b hb'; rw [kbeqOf_symm] at this; rw [this] at hab; cases hab
    · subst eb; have := hd.1 a ha'; rw [this] at hab; cases hab
    · exact distinct_eq_of_kbeq hd.2 ha' hb' hab

/-- two sorted permutations of a list with distinct, well-typed keys are equal -/
theorem rf_sorted_perm_unique {kk : Kind} {D M N : List Val} (hd : DistinctK kk D) (hk : KeysOK kk D)
    (hM : M.Perm D) (hN : N.Perm D) (sM : SortedK kk M) (sN : SortedK kk N) : M = N := by
  refine List.Perm.eq_of_pairwise (le := fun a b => klt kk b a = false) ?_ sM sN (hM.trans hN.symm)
  intro a b ha hb h1 h2
  have ha' := hM.mem_iff.1 ha
  have hb' := hN.mem_iff.1 hb
  exact distinct_eq_of_kbeq hd ha' hb' (rf_keyLt_total kk _ _ (hk a ha') (hk b hb') h2 h1)

theorem sortEntries_eq_of_perm {kk : Kind} {L M : List Val} (hp : M.Perm L) (hd : DistinctK kk L)
    (hk : KeysOK kk L) : sortEntries kk M = sortEntries kk L :=
  rf_sorted_perm_unique hd hk ((sortBy_perm _ M).trans hp) (sortBy_perm _ L) (sortBy_sorted kk M) (sortBy_sorted kk L)

theorem sortEntries_eq_of_sorted {kk : Kind} {L M : List Val} (hp : M.Perm L) (hs : SortedK kk M)
    (hd : DistinctK kk L) (hk : KeysOK kk L) : sortEntries kk L = M :=
  rf_sorted_perm_unique hd hk (sortBy_perm _ L) hp (sortBy_sorted kk L) hs

theorem DistinctK.perm {kk : Kind} {L M : List Val} (hd : DistinctK kk L) (hp : L.Perm M) : DistinctK kk M :=
  List.Pairwise.perm hd hp (by intro x y h; rw [kbeqOf_symm]; exact h)

theorem KeysOK.perm {kk : Kind} {L M : List Val} (hk : KeysOK kk L) (hp : L.Perm M) : KeysOK kk M :=
  fun e he => hk e (hp.mem_iff.2 he)

theorem distinct_sort {kk : Kind} {L : List Val} (hd : DistinctK kk L) : DistinctK kk (sortEntries kk L) :=
  hd.perm (sortBy_perm _ L).symm

theorem keysOK_sort {kk : Kind} {L : List Val} (hk : KeysOK kk L) : KeysOK kk (sortEntries kk L) :=
  hk.perm (sortBy_perm _ L).symm

/-- sorting commutes with a map that does not change the keys' order -/
theorem sortBy_map (lt : Val → Val → Bool) (g : Val → Val) (hg : ∀ a b, lt (g a) (g b) = lt a b) :
    ∀ l, sortBy lt (l.map g) = (sortBy lt l).map g
  | [] => rfl
  | x :: xs => by
    simp only [List.map_cons, sortBy]
    rw [sortBy_map lt g hg xs]
    generalize sortBy lt xs = ys
    induction ys with
    | nil => rfl
    | cons y ys ih => simp only [List.map_cons, insertBy, hg]; split <;> simp [ih]

/-! ### `any`, `find?` under permutation -/

theorem any_perm {p : Val → Bool} {L M : List Val} (hp : L.Perm M) : L.any p = M.any p := by
  cases h : M.any p
  · cases h' : L.any p
    · rfl
    · obtain ⟨x, hx, hpx⟩ := List.any_eq_true.1 h'
      have : M.any p = true := List.any_eq_true.2 ⟨x, hp.mem_iff.1 hx, hpx⟩
      rw [h] at this; cases this
  · obtain ⟨x, hx, hpx⟩ := List.any_eq_true.1 h
    exact List.any_eq_true.2 ⟨x, hp.mem_iff.2 hx, hpx⟩

theorem find?_unique {p : Val → Bool} : ∀ {L : List Val} {a : Val}, a ∈ L → p a = true →
    (∀ b ∈ L, p b = true → b = a) → L.find? p = some a
  | [], _, h, _, _ => by cases h
  | d :: ds, a, ha, hpa, hu => by
    rw [List.find?_cons]
    cases hd : p d
    · rcases List.mem_cons.1 ha with rfl | ha
      · rw [hd] at hpa; cases hpa
      · exact find?_unique ha hpa (fun b hb => hu b (List.mem_cons_of_mem _ hb))
    · simp [hu d (List.mem_cons_self) hd]

theorem findEntry_perm {kk : Kind} {L M : List Val} (k : Val) (hp : L.Perm M) (hd : DistinctK kk L) :
    findEntry kk L k = findEntry kk M k := by
  unfold findEntry
  cases h : L.find? (fun en => kbeqOf kk en.key k) with
  | none =>
    symm; rw [List.find?_eq_none] at *
    exact fun x hx => h x (hp.mem_iff.2 hx)
  | some a =>
    symm
    have ha := List.mem_of_find?_eq_some h
    have hpa := List.find?_some h
    refine find?_unique (hp.mem_iff.1 ha) hpa (fun b hb hpb => ?_)
    refine distinct_eq_of_kbeq hd (hp.mem_iff.2 hb) ha ?_
    have hpa : kbeqOf kk a.key k = true := hpa
    have hpb : kbeqOf kk b.key k = true := hpb
    rw [kbeqOf_symm kk a.key k] at hpa
    exact kbeqOf_trans kk _ _ _ hpb hpa

/-! ### `mapPut` / `mapDel` and sorting -/

@[simp] theorem Val.key_entry (k v : Val) : (Val.entry k v).key = k := rfl
@[simp] theorem Val.value_entry (k v : Val) : (Val.entry k v).value = v := rfl

theorem mapPut_perm {kk : Kind} {L M : List Val} (k x : Val) (hp : L.Perm M) :
    (mapPut (kbeqOf kk) L k x).Perm (mapPut (kbeqOf kk) M k x) := by
  unfold mapPut
  rw [any_perm hp]
  split
  · exact hp.map _
  · exact hp.append_right _

theorem keysOK_mapPut {kk : Kind} {L : List Val} (k x : Val) (hk : KeysOK kk L) (hkk : scalarOK kk k = true) :
    KeysOK kk (mapPut (kbeqOf kk) L k x) := by
  unfold mapPut
  split
  · intro e he
    obtain ⟨a, ha, rfl⟩ := List.mem_map.1 he
    split
    · exact hkk
    · exact hk a ha
  · intro e he
    rcases List.mem_append.1 he with he | he
    · exact hk e he
    · simp at he; subst he; exact hkk

theorem distinct_mapPut {kk : Kind} {L : List Val} (k x : Val) (hd : DistinctK kk L) :
    DistinctK kk (mapPut (kbeqOf kk) L k x) := by
  unfold mapPut
  split
  · unfold DistinctK at *
    rw [List.pairwise_map]
    refine hd.imp ?_
    intro a b hab
    by_cases ha : kbeqOf kk a.key k = true <;> by_cases hb : kbeqOf kk b.key k = true
    · rw [kbeqOf_symm kk a.key k] at ha
      have := kbeqOf_trans kk _ _ _ hb ha
      rw [this] at hab; cases hab
    · simp only [ha, hb, if_true]
      simpa using hb
    · simp only [ha, hb, if_true]
      cases h : kbeqOf kk k a.key
      · simp [h]
      · rw [kbeqOf_symm] at h; exact absurd h ha
    · simp only [ha, hb]; exact hab
  · rename_i hany
    unfold DistinctK at *
    rw [List.pairwise_append]
    refine ⟨hd, by simp, ?_⟩
    intro a ha b hb
    simp at hb; subst hb
    cases h : kbeqOf kk (Val.entry k x).key a.key
    · rfl
    · exfalso; apply hany
      refine List.any_eq_true.2 ⟨a, ha, ?_⟩
      rw [kbeqOf_symm]; simpa using h

theorem sort_mapPut_sort {kk : Kind} {L : List Val} (k x : Val) (hd : DistinctK kk L) (hk : KeysOK kk L)
    (hkk : scalarOK kk k = true) :
    sortEntries kk (mapPut (kbeqOf kk) (sortEntries kk L) k x) = sortEntries kk (mapPut (kbeqOf kk) L k x) :=
  sortEntries_eq_of_perm (mapPut_perm k x (sortBy_perm _ L)) (distinct_mapPut k x hd) (keysOK_mapPut k x hk hkk)

theorem sort_mapDel {kk : Kind} {L : List Val} (k : Val) (hd : DistinctK kk L) (hk : KeysOK kk L) :
    sortEntries kk (mapDel kk L k) = mapDel kk (sortEntries kk L) k := by
  unfold mapDel
  refine sortEntries_eq_of_sorted ((sortBy_perm _ L).filter _) ?_ ?_ ?_
  · exact List.Pairwise.filter _ (sortBy_sorted kk L)
  · exact List.Pairwise.filter _ hd
  · exact fun e he => hk e (List.mem_filter.1 he).1

theorem distinct_mapDel {kk : Kind} {L : List Val} (k : Val) (hd : DistinctK kk L) : DistinctK kk (mapDel kk L k) :=
  List.Pairwise.filter _ hd

theorem distinct_append_new {kk : Kind} {L : List Val} (e : Val) (hd : DistinctK kk L)
    (hnew : L.any (fun en => kbeqOf kk en.key e.key) = false) : DistinctK kk (L ++ [e]) := by
  unfold DistinctK at *
  rw [List.pairwise_append]
  refine ⟨hd, by simp, ?_⟩
  intro a ha b hb
  simp at hb; subst hb
  cases h : kbeqOf kk b.key a.key
  · rfl
  · have : L.any (fun en => kbeqOf kk en.key b.key) = true :=
      List.any_eq_true.2 ⟨a, ha, by rw [kbeqOf_symm]; exact h⟩
    rw [hnew] at this; cases this

theorem sort_append_sort {kk : Kind} {L : List Val} (e : Val) (hd : DistinctK kk L) (hk : KeysOK kk L)
    (hke : scalarOK kk e.key = true) (hnew : L.any (fun en => kbeqOf kk en.key e.key) = false) :
    sortEntries kk (sortEntries kk L ++ [e]) = sortEntries kk (L ++ [e]) := by
  refine sortEntries_eq_of_perm ((sortBy_perm _ L).append_right _) (distinct_append_new e hd hnew) ?_
  intro a ha
  rcases List.mem_append.1 ha with ha | ha
  · exact hk a ha
  · simp at ha; subst ha; exact hke

theorem sortEntries_idem {kk : Kind} {L : List Val} (hd : DistinctK kk L) (hk : KeysOK kk L) :
    sortEntries kk (sortEntries kk L) = sortEntries kk L :=
  sortEntries_eq_of_perm (sortBy_perm _ L) hd hk

end Pulsar
