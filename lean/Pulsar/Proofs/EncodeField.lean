/-
  Pulsar.Proofs.EncodeField — the reference encoder generalised over the map-entry order (`gField`,
  `gEncodeLvl`, `gEncode`), and the field-level correspondence: for a well-typed slot the generated
  marshal code produces exactly `gField (ordOf o)` and the generated size code its length.
-/
import Pulsar.Proofs.EncodeScalar
import Pulsar.Proofs.EncodeSort
namespace Pulsar

/-! ### reference encoder, generalised over the order of map entries -/

/-- `specField` with the map-entry order as a parameter (`specField = gField sortEntries`). -/
def gField (ord : Kind → List Val → List Val) (child : Nat → Val → Bytes) (f : FieldDesc) (v : Val) : Bytes :=
  match f.shape with
  | .singular =>
    (match f.elem with
     | .scalar k => if specPresent k v then specTag f ++ specScalar k v else []
     | .message _ => if v.isNone then [] else specTag f ++ specElem child f.elem v)
  | .oneof _ =>
    (match v with
     | .one x => specTag f ++ specElem child f.elem x
     | _ => [])
  | .repeated packed =>
    if v.elems.isEmpty then []
    else if packed then
      let body := (v.elems.map (specElem child f.elem)).flatten
      tag f.num 2 ++ varint body.length ++ body
    else (v.elems.map (fun x => specTag f ++ specElem child f.elem x)).flatten
  | .map kk =>
    ((ord kk v.elems).map (fun en =>
      let body := specEntry child kk f.elem en
      tag f.num 2 ++ varint body.length ++ body)).flatten

def gEncodeLvl (S : Schema) (ord : Kind → List Val → List Val) (i : Nat) (child : Nat → Val → Bytes) (v : Val) : Bytes :=
  ((sortFV ((S.msg i).fields.zip v.slots)).map (fun p => gField ord child p.1 p.2)).flatten ++ v.unknown

def gEncode (S : Schema) (ord : Kind → List Val → List Val) : Nat → Nat → Val → Bytes
  | 0, _, _ => []
  | fuel+1, i, v => if v.isNone then [] else gEncodeLvl S ord i (gEncode S ord fuel) v

/-- the entry order the generated code uses under options `o`. -/
def ordOf (o : MOpts) : Kind → List Val → List Val :=
  fun kk es => if o.det then sortEntries kk es else o.perm es

theorem specField_eq_gField (child : Nat → Val → Bytes) (f : FieldDesc) (v : Val) :
    specField child f v = gField sortEntries child f v := rfl

theorem specEncodeLvl_eq_g (S : Schema) (i : Nat) (child : Nat → Val → Bytes) (v : Val) :
    specEncodeLvl S i child v = gEncodeLvl S sortEntries i child v := rfl

theorem specEncode_eq_g (S : Schema) (fuel i : Nat) (v : Val) :
    specEncode S fuel i v = gEncode S sortEntries fuel i v := by
  induction fuel generalizing i v with
  | zero => rfl
  | succ fuel ih =>
    have : specEncode S fuel = gEncode S sortEntries fuel := by funext j x; exact ih j x
    simp only [specEncode, gEncode, this, specEncodeLvl_eq_g]

theorem sortEntries_perm (kk : Kind) (es : List Val) : (sortEntries kk es).Perm es := by
  unfold sortEntries; rw [sortBy_eq]; exact isort_perm _ _

theorem ordOf_det (o : MOpts) (h : o.det = true) : ordOf o = sortEntries := by
  funext kk es; simp [ordOf, h]

theorem ordOf_perm (o : MOpts) (hperm : ∀ es, (o.perm es).Perm es) (kk : Kind) (es : List Val) :
    (ordOf o kk es).Perm es := by
  unfold ordOf; split
  · exact sortEntries_perm kk es
  · exact hperm es

/-! ### facts from `FieldDesc.wf` -/

theorem FieldDesc.wf_num {n : Nat} {f : FieldDesc} (h : f.wf n = true) : f.num < 536870912 := by
  simp [FieldDesc.wf] at h; omega

theorem FieldDesc.wf_elem {n : Nat} {f : FieldDesc} (h : f.wf n = true) :
    ∀ i, f.elem = .message i → i < n := by
  intro i hi
  simp [FieldDesc.wf, hi] at h; omega

theorem FieldDesc.wf_packed {n : Nat} {f : FieldDesc} (h : f.wf n = true) (hs : f.shape = .repeated true) :
    ∃ k, f.elem = .scalar k ∧ k.isBlob = false := by
  cases he : f.elem with
  | scalar k =>
    refine ⟨k, rfl, ?_⟩
    simp [FieldDesc.wf, hs, he, Kind.packable] at h
    exact h.2
  | message i => simp [FieldDesc.wf, hs, he] at h

/-! ### list helpers -/

theorem concatRes_map_ok {α : Type} (F : α → Res Bytes) (g : α → Bytes) (l : List α)
    (h : ∀ x ∈ l, F x = .ok (g x)) : concatRes (l.map F) = .ok (l.map g).flatten := by
  induction l with
  | nil => rfl
  | cons x xs ih =>
    simp only [List.map_cons, concatRes, h x List.mem_cons_self,
      ih (fun y hy => h y (List.mem_cons_of_mem _ hy)), List.flatten_cons]

theorem sum_map_eq_length_flatten {α : Type} (s : α → Nat) (g : α → Bytes) (l : List α)
    (h : ∀ x ∈ l, s x = (g x).length) : (l.map s).sum = (l.map g).flatten.length := by
  induction l with
  | nil => rfl
  | cons x xs ih =>
    simp only [List.map_cons, List.sum_cons, List.flatten_cons, List.length_append,
      h x List.mem_cons_self, ih (fun y hy => h y (List.mem_cons_of_mem _ hy))]

/-! ### child hypothesis -/

/-- What the level lemmas assume about the next nesting level: on well-typed children the generated
    marshal returns `child`'s bytes, the generated size their length, and they are non-nil. -/
def ChildOK (n : Nat) (childOK : Nat → Val → Bool) (child : Nat → Val → Bytes)
    (childEnc : Nat → Val → Res Bytes) (childSize : Nat → Val → Nat) : Prop :=
  ∀ j x, j < n → childOK j x = true →
    childEnc j x = .ok (child j x) ∧ childSize j x = (child j x).length ∧ x.isNone = false

section field
variable {n : Nat} {childOK : Nat → Val → Bool} {child : Nat → Val → Bytes}
  {childEnc : Nat → Val → Res Bytes} {childSize : Nat → Val → Nat}

theorem keySize_eq_tag_length {num wt : Nat} (hn : num < 536870912) (hw : wt < 8) :
    keySize num wt = (tag num wt).length := by
  rw [keySize_eq_length, keyBytes_eq_tag num wt hn hw]

theorem elem_ok (H : ChildOK n childOK child childEnc childSize) {e : Elem} {v : Val}
    (he : ∀ i, e = .message i → i < n) (hv : elemOK childOK e false v = true) :
    implElemBytes childEnc e v = .ok (specElem child e v) ∧
    implElemSize childSize e v = (specElem child e v).length ∧
    (∀ i, e = .message i → v.isNone = false) := by
  cases e with
  | scalar k =>
    have hv' : scalarOK k v = true := by simpa [elemOK] using hv
    refine ⟨?_, ?_, ?_⟩
    · simp [implElemBytes, specElem, implScalarBytes_eq_spec hv']
    · simp only [implElemSize, specElem]
      rw [implScalarSize_eq_length hv', implScalarBytes_eq_spec hv']
    · intro i hi; cases hi
  | message i =>
    have hv' : childOK i v = true := by simpa [elemOK] using hv
    obtain ⟨h1, h2, h3⟩ := H i v (he i rfl) hv'
    refine ⟨?_, ?_, ?_⟩
    · simp [implElemBytes, specElem, h1]
    · simp only [implElemSize, specElem, h2, List.length_append, sov_eq_varint_length]
      omega
    · intro _ _; exact h3

theorem specTag_eq_keyBytes {f : FieldDesc} (hwf : f.wf n = true) :
    keyBytes f.num f.elem.wireType = specTag f := by
  rw [keyBytes_eq_tag _ _ (FieldDesc.wf_num hwf) (elem_wireType_lt_8 _), elem_wireType_eq]
  rfl

theorem entry_ok (H : ChildOK n childOK child childEnc childSize) {num : Nat} {kk : Kind} {e : Elem} {en : Val}
    (hn : num < 536870912) (he : ∀ i, e = .message i → i < n)
    (hv : entryOK childOK false kk e en = true) :
    implEntryBytes childEnc num kk e en =
      .ok (tag num 2 ++ varint (specEntry child kk e en).length ++ specEntry child kk e en) ∧
    implEntrySize childSize num kk e en =
      (tag num 2 ++ varint (specEntry child kk e en).length ++ specEntry child kk e en).length := by
  cases en <;> simp [entryOK] at hv
  case entry k v =>
    obtain ⟨hk, hv⟩ := hv
    obtain ⟨h1, h2, h3⟩ := elem_ok H he hv
    have hbody : keyBytes 1 (Extracted.wireType kk) ++ implScalarBytes kk k ++ keyBytes 2 e.wireType ++
        specElem child e v = specEntry child kk e (.entry k v) := by
      simp only [specEntry, Val.key, Val.value]
      rw [keyBytes_eq_tag 1 _ (by omega) (wireType_lt_8 _), wireType_eq_spec,
        keyBytes_eq_tag 2 _ (by omega) (elem_wireType_lt_8 _), elem_wireType_eq,
        implScalarBytes_eq_spec hk]
      rfl
    have hlen : (specEntry child kk e (.entry k v)).length =
        keySize 1 (Extracted.wireType kk) + implScalarSize kk k + keySize 2 e.wireType +
          (specElem child e v).length := by
      rw [← hbody]
      simp only [List.length_append, ← keySize_eq_length, implScalarSize_eq_length hk]
    refine ⟨?_, ?_⟩
    · simp only [implEntryBytes, Val.value, h1, Val.key]
      rw [hbody, keyBytes_eq_tag num _ hn (by decide)]
      rfl
    · cases e with
      | scalar k' =>
        simp only [implElemSize] at h2
        have hM : keySize 1 (Extracted.wireType kk) + implScalarSize kk k +
            (keySize 2 (Extracted.wireType k') + implScalarSize k' v) =
            (specEntry child kk (.scalar k') (.entry k v)).length := by
          rw [hlen, h2]; simp only [Elem.wireType]; omega
        simp only [implEntrySize, Val.key, Val.value]
        rw [hM]
        simp only [List.length_append, sov_eq_varint_length,
          keySize_eq_tag_length hn (show Extracted.messageWireType < 8 by decide)]
        simp only [Extracted.messageWireType]
        omega
      | message i =>
        simp only [implElemSize] at h2
        have hM : keySize 1 (Extracted.wireType kk) + implScalarSize kk k +
            (childSize i v + (keySize 2 Extracted.messageWireType + sov (childSize i v))) =
            (specEntry child kk (.message i) (.entry k v)).length := by
          rw [hlen, ← h2]; simp only [Elem.wireType]; omega
        simp only [implEntrySize, Val.key, Val.value, h3 i rfl, Bool.false_eq_true, if_false]
        rw [hM]
        simp only [List.length_append, sov_eq_varint_length,
          keySize_eq_tag_length hn (show Extracted.messageWireType < 8 by decide)]
        simp only [Extracted.messageWireType]
        omega

/-- Field-level correspondence (bytes and size) for a well-typed slot of a well-formed field. -/
theorem field_ok (H : ChildOK n childOK child childEnc childSize) (o : MOpts)
    (hmem : ∀ kk es x, x ∈ ordOf o kk es → x ∈ es)
    {f : FieldDesc} {v : Val} (hwf : f.wf n = true) (hv : slotOK childOK false f v = true) :
    implFieldBytes o childEnc f v = .ok (gField (ordOf o) child f v) ∧
    implFieldSize o childSize f v = (gField (ordOf o) child f v).length := by
  have hkey := specTag_eq_keyBytes hwf
  have hksz : keySize f.num f.elem.wireType = (specTag f).length := by
    rw [keySize_eq_length, hkey]
  have helem := FieldDesc.wf_elem hwf
  have hnum := FieldDesc.wf_num hwf
  cases hs : f.shape with
  | singular =>
    simp only [slotOK, hs] at hv
    cases hel : f.elem with
    | scalar k =>
      have hv' : scalarOK k v = true := by simpa [elemOK, hel] using hv
      simp only [implFieldBytes, implFieldSize, gField, hs, hel, implPresent_eq_spec]
      rw [hel] at hkey hksz
      by_cases hp : specPresent k v = true
      · simp only [hp, if_true, hkey, hksz, List.length_append,
          implScalarBytes_eq_spec hv', implScalarSize_eq_length hv', and_self]
      · simp [hp]
    | message i =>
      simp only [implFieldBytes, implFieldSize, gField, hs, hel]
      by_cases hnone : v.isNone = true
      · simp [hnone]
      · have hv' : elemOK childOK (.message i) false v = true := by
          simp only [hel, elemOK] at hv
          simp only [elemOK]
          simp at hnone
          simpa [hnone] using hv
        obtain ⟨h1, h2, _⟩ := elem_ok H (e := .message i) (fun j hj => helem j (hel ▸ hj)) hv'
        rw [hel] at hkey hksz
        simp only [hnone, h1, h2, hkey, hksz]
        simp
  | oneof g =>
    simp only [slotOK, hs] at hv
    cases v <;> simp at hv
    case none => simp [implFieldBytes, implFieldSize, gField, hs]
    case one x =>
      obtain ⟨h1, h2, _⟩ := elem_ok H helem hv
      simp only [implFieldBytes, implFieldSize, gField, hs, h1, h2, hkey, hksz, List.length_append,
        and_self]
  | repeated packed =>
    simp only [slotOK, hs] at hv
    cases v <;> simp at hv
    case list nn es =>
      simp only [implFieldBytes, implFieldSize, gField, hs, Val.elems]
      by_cases hemp : es.isEmpty = true
      · simp [hemp]
      · simp only [hemp, if_false, Bool.false_eq_true]
        have hall : ∀ x ∈ es, implElemBytes childEnc f.elem x = .ok (specElem child f.elem x) ∧
            implElemSize childSize f.elem x = (specElem child f.elem x).length :=
          fun x hx => let ⟨a, b, _⟩ := elem_ok H helem (hv x hx); ⟨a, b⟩
        cases packed with
        | true =>
          obtain ⟨k, hel, hblob⟩ := FieldDesc.wf_packed hwf hs
          simp only [if_true, hel]
          have hb : es.map (implScalarBytes k) = es.map (specElem child (.scalar k)) := by
            apply List.map_congr_left
            intro x hx
            have := hv x hx
            rw [hel] at this
            simp only [specElem]
            exact implScalarBytes_eq_spec (by simpa [elemOK] using this)
          have hsum : (es.map (implScalarSize k)).sum =
              (es.map (specElem child (.scalar k))).flatten.length := by
            apply sum_map_eq_length_flatten
            intro x hx
            have := (hall x hx).2
            rw [hel] at this
            simpa [implElemSize] using this
          refine ⟨?_, ?_⟩
          · simp only [hb]
            rw [keyBytes_eq_tag _ _ hnum (by decide)]
            have hgen : ∀ r : Nat, r = (es.map (specElem child (.scalar k))).flatten.length →
                (if r = (es.map (specElem child (.scalar k))).flatten.length then
                  Res.ok (tag f.num 2 ++ varint r ++ (es.map (specElem child (.scalar k))).flatten)
                 else Res.panic) =
                Res.ok (tag f.num 2 ++ varint (es.map (specElem child (.scalar k))).flatten.length ++
                  (es.map (specElem child (.scalar k))).flatten) := by
              intro r hr; subst hr; simp
            apply hgen
            split
            · exact hsum
            · rfl
          · have hs2 : (es.map (implElemSize childSize (.scalar k))).sum =
                (es.map (specElem child (.scalar k))).flatten.length := by
              apply sum_map_eq_length_flatten
              intro x hx
              have := (hall x hx).2
              rw [hel] at this
              exact this
            simp only [hs2, List.length_append, sov_eq_varint_length,
              keySize_eq_tag_length hnum (show 2 < 8 by decide)]
        | false =>
          simp only [Bool.false_eq_true, if_false]
          refine ⟨?_, ?_⟩
          · apply concatRes_map_ok
            intro x hx
            simp only [(hall x hx).1, hkey]
          · apply sum_map_eq_length_flatten
            intro x hx
            simp only [(hall x hx).2, hksz, List.length_append]
  | map kk =>
    simp only [slotOK, hs] at hv
    cases v <;> simp at hv
    case map nn es =>
      simp only [implFieldBytes, implFieldSize, gField, hs, Val.elems]
      have hord : (if o.det = true then sortEntries kk es else o.perm es) = ordOf o kk es := rfl
      rw [hord]
      have hall : ∀ en ∈ ordOf o kk es, entryOK childOK false kk f.elem en = true :=
        fun en hen => hv.1 en (hmem kk es en hen)
      refine ⟨?_, ?_⟩
      · apply concatRes_map_ok
        intro en hen
        exact (entry_ok H hnum helem (hall en hen)).1
      · apply sum_map_eq_length_flatten
        intro en hen
        exact (entry_ok H hnum helem (hall en hen)).2

end field
end Pulsar
