/-
  Pulsar.Proofs.DecodeAlloc — the allocation-accounting decoder of `Pulsar.DecodeAlloc`
  (a) is the decoder of `Pulsar.Decode` (second components agree), and
  (b) allocates at most `Alloc.K` bytes per input byte, whatever the outcome.
-/
import Pulsar.DecodeAlloc
import Pulsar.Proofs.DecodeReaders
namespace Pulsar
open Alloc

set_option linter.unusedSimpArgs false

/-! ## (a) the accounting decoder is the decoder -/

theorem al_packedLoop_snd (k : Kind) : ∀ (fuel : Nat) (rest : Bytes) (rem : Nat) (acc : List Val) (a : Nat),
    (implPackedLoopAlloc k fuel rest rem acc a).2 = implPackedLoop k fuel rest rem acc := by
  intro fuel
  induction fuel with
  | zero => intro rest rem acc a; rfl
  | succ fuel ih =>
    intro rest rem acc a
    rw [implPackedLoopAlloc, implPackedLoop]
    split
    · rfl
    · cases hs : implReadScalar k rest with
      | ok x => obtain ⟨v, r⟩ := x; exact ih _ _ _ _
      | err e => rfl
      | panic => rfl

section child
variable (cA : Nat → Val → Bytes → Nat × Res Val)

theorem al_readMapField_snd (S : Schema) (e : Elem) (old : Val) (rest : Bytes) :
    (implReadMapFieldAlloc cA S e old rest).2 =
      implReadMapField (fun i into p => (cA i into p).2) S e old rest := by
  unfold implReadMapFieldAlloc implReadMapField
  cases e with
  | message i =>
    simp only []
    cases hr : readLenDelim rest with
    | ok x => obtain ⟨p, r⟩ := x; rfl
    | err e => rfl
    | panic => rfl
  | scalar k =>
    simp only []
    cases hs : implReadScalar k rest with
    | ok x => obtain ⟨v, r⟩ := x; rfl
    | err e => rfl
    | panic => rfl

theorem al_entryLoop_snd (S : Schema) (kk : Kind) (e : Elem) :
    ∀ (fuel : Nat) (rest : Bytes) (rem : Nat) (k v : Val) (a : Nat),
    (implEntryLoopAlloc cA S kk e fuel rest rem k v a).2 =
      implEntryLoop (fun i into p => (cA i into p).2) S kk e fuel rest rem k v := by
  intro fuel
  induction fuel with
  | zero => intro rest rem k v a; rfl
  | succ fuel ih =>
    intro rest rem k v a
    rw [implEntryLoopAlloc, implEntryLoop]
    split
    · rfl
    · cases hv : readVarint rest with
      | err e => rfl
      | panic => rfl
      | ok x =>
        obtain ⟨wire, r⟩ := x
        simp only []
        split
        · rw [← al_readMapField_snd]
          generalize implReadMapFieldAlloc cA S (.scalar kk) k r = c
          obtain ⟨a1, res⟩ := c
          cases res with
          | ok y => obtain ⟨k', r'⟩ := y; exact ih _ _ _ _ _
          | err e => rfl
          | panic => rfl
        · split
          · rw [← al_readMapField_snd]
            generalize implReadMapFieldAlloc cA S e v r = c
            obtain ⟨a1, res⟩ := c
            cases res with
            | ok y => obtain ⟨v', r'⟩ := y; exact ih _ _ _ _ _
            | err e => rfl
            | panic => rfl
          · cases hs : skip rest with
            | ok n =>
              simp only []
              split
              · rfl
              · exact ih _ _ _ _ _
            | err e => rfl
            | panic => rfl

theorem al_knownField_snd (S : Schema) (fs : List FieldDesc) (j : Nat) (f : FieldDesc) (wt : Nat) (m : Val)
    (rest : Bytes) :
    (implKnownFieldAlloc S fs cA j f wt m rest).2 =
      implKnownField S fs (fun i into p => (cA i into p).2) j f wt m rest := by
  cases hsh : f.shape <;> cases hel : f.elem <;>
    simp only [implKnownFieldAlloc, implKnownField, hsh, hel]
  case singular.scalar k =>
    by_cases h1 : (wt != Extracted.wireType k) = true
    · simp only [h1, ↓reduceIte, Bool.false_eq_true]
    · simp only [h1, ↓reduceIte, Bool.false_eq_true]
      cases hs : implReadScalar k rest with
      | ok x => obtain ⟨v, r⟩ := x; rfl
      | err e => rfl
      | panic => rfl
  case singular.message i =>
    by_cases h1 : (wt != 2) = true
    · simp only [h1, ↓reduceIte, Bool.false_eq_true]
    · simp only [h1, ↓reduceIte, Bool.false_eq_true]
      cases hr : readLenDelim rest with
      | ok x => obtain ⟨p, r⟩ := x; rfl
      | err e => rfl
      | panic => rfl
  case repeated.scalar pk k =>
    by_cases h1 : (Extracted.wireType k != 2) = true
    · simp only [h1, ↓reduceIte, Bool.false_eq_true]
      by_cases h2 : wt = Extracted.wireType k
      · simp only [h2, ↓reduceIte, Bool.false_eq_true]
        cases hs : implReadScalar k rest with
        | ok x => obtain ⟨v, r⟩ := x; rfl
        | err e => rfl
        | panic => rfl
      · simp only [h2, ↓reduceIte, Bool.false_eq_true]
        by_cases h3 : wt = 2
        · simp only [h3, ↓reduceIte, Bool.false_eq_true]
          cases hv : readVarint rest with
          | ok x =>
            obtain ⟨n, r⟩ := x
            simp only []
            by_cases h4 : n ≥ 9223372036854775808
            · simp only [h4, ↓reduceIte, Bool.false_eq_true]
            · simp only [h4, ↓reduceIte, Bool.false_eq_true]
              by_cases h5 : n > r.length
              · simp only [h5, ↓reduceIte, Bool.false_eq_true]
              · simp only [h5, ↓reduceIte, Bool.false_eq_true]
                rw [← al_packedLoop_snd k n r n [] (packedPrealloc k (r.take n) (m.slot j).elems.length)]
                generalize implPackedLoopAlloc k n r n [] _ = c
                obtain ⟨a1, res⟩ := c
                cases res with
                | ok y => obtain ⟨vs, r'⟩ := y; rfl
                | err e => rfl
                | panic => rfl
          | err e => rfl
          | panic => rfl
        · simp only [h3, ↓reduceIte, Bool.false_eq_true]
    · simp only [h1, ↓reduceIte, Bool.false_eq_true]
      by_cases h2 : (wt != 2) = true
      · simp only [h2, ↓reduceIte, Bool.false_eq_true]
      · simp only [h2, ↓reduceIte, Bool.false_eq_true]
        cases hs : implReadScalar k rest with
        | ok x => obtain ⟨v, r⟩ := x; rfl
        | err e => rfl
        | panic => rfl
  case repeated.message pk i =>
    by_cases h1 : (wt != 2) = true
    · simp only [h1, ↓reduceIte, Bool.false_eq_true]
    · simp only [h1, ↓reduceIte, Bool.false_eq_true]
      cases hr : readLenDelim rest with
      | ok x => obtain ⟨p, r⟩ := x; rfl
      | err e => rfl
      | panic => rfl
  case oneof.scalar g k =>
    by_cases h1 : (wt != Extracted.wireType k) = true
    · simp only [h1, ↓reduceIte, Bool.false_eq_true]
    · simp only [h1, ↓reduceIte, Bool.false_eq_true]
      cases hs : implReadScalar k rest with
      | ok x => obtain ⟨v, r⟩ := x; rfl
      | err e => rfl
      | panic => rfl
  case oneof.message g i =>
    by_cases h1 : (wt != 2) = true
    · simp only [h1, ↓reduceIte, Bool.false_eq_true]
    · simp only [h1, ↓reduceIte, Bool.false_eq_true]
      cases hr : readLenDelim rest with
      | ok x =>
        obtain ⟨p, r⟩ := x
        simp only []
        generalize cA i _ p = c
        obtain ⟨a1, res⟩ := c
        cases res with
        | ok v => rfl
        | err e => rfl
        | panic => rfl
      | err e => rfl
      | panic => rfl
  case map.scalar kk k =>
    by_cases h1 : (wt != 2) = true
    · simp only [h1, ↓reduceIte, Bool.false_eq_true]
    · simp only [h1, ↓reduceIte, Bool.false_eq_true]
      cases hv : readVarint rest with
      | ok x =>
        obtain ⟨n, r⟩ := x
        simp only []
        by_cases h4 : n ≥ 9223372036854775808
        · simp only [h4, ↓reduceIte, Bool.false_eq_true]
        · simp only [h4, ↓reduceIte, Bool.false_eq_true]
          by_cases h5 : n > r.length
          · simp only [h5, ↓reduceIte, Bool.false_eq_true]
          · simp only [h5, ↓reduceIte, Bool.false_eq_true]
            rw [← al_entryLoop_snd cA S kk (.scalar k) n (r.take n) n _ _
              (match m.slot j with | .map true _ => 0 | _ => mapHdrCost)]
            generalize implEntryLoopAlloc cA S kk (.scalar k) n (r.take n) n _ _ _ = c
            obtain ⟨a1, res⟩ := c
            cases res with
            | ok y => obtain ⟨k', v'⟩ := y; rfl
            | err e => rfl
            | panic => rfl
      | err e => rfl
      | panic => rfl
  case map.message kk i =>
    by_cases h1 : (wt != 2) = true
    · simp only [h1, ↓reduceIte, Bool.false_eq_true]
    · simp only [h1, ↓reduceIte, Bool.false_eq_true]
      cases hv : readVarint rest with
      | ok x =>
        obtain ⟨n, r⟩ := x
        simp only []
        by_cases h4 : n ≥ 9223372036854775808
        · simp only [h4, ↓reduceIte, Bool.false_eq_true]
        · simp only [h4, ↓reduceIte, Bool.false_eq_true]
          by_cases h5 : n > r.length
          · simp only [h5, ↓reduceIte, Bool.false_eq_true]
          · simp only [h5, ↓reduceIte, Bool.false_eq_true]
            rw [← al_entryLoop_snd cA S kk (.message i) n (r.take n) n _ _
              (match m.slot j with | .map true _ => 0 | _ => mapHdrCost)]
            generalize implEntryLoopAlloc cA S kk (.message i) n (r.take n) n _ _ _ = c
            obtain ⟨a1, res⟩ := c
            cases res with
            | ok y => obtain ⟨k', v'⟩ := y; rfl
            | err e => rfl
            | panic => rfl
      | err e => rfl
      | panic => rfl

theorem al_loop_snd (S : Schema) (i : Nat) (o : UOpts) :
    ∀ (fuel : Nat) (m : Val) (rest : Bytes) (a : Nat),
    (implUnmarshalLoopAlloc S i o cA fuel m rest a).2 =
      implUnmarshalLoop S i o (fun i into p => (cA i into p).2) fuel m rest := by
  intro fuel
  induction fuel with
  | zero => intro m rest a; rfl
  | succ fuel ih =>
    intro m rest a
    rw [implUnmarshalLoopAlloc, implUnmarshalLoop]
    by_cases h0 : rest = []
    · simp only [h0, ↓reduceIte]
    · simp only [h0, ↓reduceIte]
      cases hv : readVarint rest with
      | err e => rfl
      | panic => rfl
      | ok x =>
        obtain ⟨wire, r⟩ := x
        simp only []
        by_cases h1 : wire % 8 = 4
        · simp only [h1, ↓reduceIte]
        · simp only [h1, ↓reduceIte]
          by_cases h2 : (wire / 8) % 4294967296 = 0 ∨ (wire / 8) % 4294967296 ≥ 2147483648
          · simp only [h2, ↓reduceIte]
          · simp only [h2, ↓reduceIte]
            cases hf : findField (S.msg i).fields ((wire / 8) % 4294967296) with
            | some jf =>
              obtain ⟨j, f⟩ := jf
              simp only []
              rw [← al_knownField_snd]
              generalize implKnownFieldAlloc S (S.msg i).fields cA j f (wire % 8) m r = c
              obtain ⟨a1, res⟩ := c
              cases res with
              | ok y =>
                obtain ⟨m', r'⟩ := y
                simp only []
                by_cases h3 : r'.length < rest.length
                · simp only [h3, ↓reduceIte]; exact ih _ _ _
                · simp only [h3, ↓reduceIte]
              | err e => rfl
              | panic => rfl
            | none =>
              simp only []
              cases hs : skip rest with
              | ok n =>
                simp only []
                by_cases h3 : n > rest.length
                · simp only [h3, ↓reduceIte]
                · simp only [h3, ↓reduceIte]
                  cases hsl : sliceTo rest n with
                  | ok raw =>
                    simp only []
                    by_cases h4 : n = 0
                    · simp only [h4, ↓reduceIte]
                    · simp only [h4, ↓reduceIte]; exact ih _ _ _
                  | err e => rfl
                  | panic => rfl
              | err e => rfl
              | panic => rfl

end child

/-- The accounting decoder computes exactly the outcome of the generated closure. -/
theorem al_value_agrees (S : Schema) (o : UOpts) : ∀ (fuel : Nat) (depth : Int) (i : Nat) (into : Val) (bs : Bytes),
    (implUnmarshalAlloc S o fuel depth i into bs).2 = implUnmarshalClosure S o fuel depth i into bs := by
  intro fuel
  induction fuel with
  | zero => intro depth i into bs; rfl
  | succ fuel ih =>
    intro depth i into bs
    rw [implUnmarshalAlloc, implUnmarshalClosure]
    by_cases h0 : into.isNone = true
    · simp only [h0, ↓reduceIte]
    · simp only [h0, ↓reduceIte, Bool.false_eq_true]
      by_cases h1 : depth < 0
      · simp only [h1, ↓reduceIte]
      · simp only [h1, ↓reduceIte]
        rw [al_loop_snd]
        have : (fun i into p => (implUnmarshalAlloc S o fuel (nestedLimit depth) i into p).2) =
            implUnmarshalClosure S o fuel (nestedLimit depth) := by
          funext i into p; exact ih _ _ _ _
        rw [this]

/-! ## (b) every allocation is paid for by input bytes of the same record -/

theorem al_goSize_le (k : Kind) : k.goSize ≤ 24 := by cases k <;> decide

/-- a decoded scalar consumes its length prefix / first byte, plus every byte it copies -/
theorem al_readScalar_consume {k : Kind} {rest : Bytes} {v : Val} {r : Bytes}
    (h : implReadScalar k rest = .ok (v, r)) : v.blobLen + r.length + 1 ≤ rest.length := by
  cases k <;> simp only [implReadScalar] at h <;> split at h <;>
    simp only [Res.ok.injEq, Prod.mk.injEq, reduceCtorEq] at h
  all_goals
    rename_i hr
    obtain ⟨rfl, rfl⟩ := h
    simp only [Val.blobLen]
    first
    | (have := readFixed_ok hr; omega)
    | (have := readLenDelim_ok hr; omega)
    | (have := readVarint_ok hr; omega)

theorem al_appendCost_le {k : Kind} {rest : Bytes} {v : Val} {r : Bytes}
    (h : implReadScalar k rest = .ok (v, r)) : appendCost k v + 48 * r.length ≤ 48 * rest.length := by
  have h1 := al_readScalar_consume h
  have h2 := al_goSize_le k
  simp only [appendCost, growFactor]
  omega

/-- the appends of a packed run: at most 48 bytes per input byte consumed, whatever the outcome -/
theorem al_packedLoop_le (k : Kind) : ∀ (fuel : Nat) (rest : Bytes) (rem : Nat) (acc : List Val) (a : Nat),
    (implPackedLoopAlloc k fuel rest rem acc a).1 + 48 * (implPackedLoopAlloc k fuel rest rem acc a).2.remLen
      ≤ a + 48 * rest.length := by
  intro fuel
  induction fuel with
  | zero => intro rest rem acc a; simp only [implPackedLoopAlloc, Res.remLen]; omega
  | succ fuel ih =>
    intro rest rem acc a
    rw [implPackedLoopAlloc]
    split
    · simp only [Res.remLen]; omega
    · cases hs : implReadScalar k rest with
      | ok x =>
        obtain ⟨v, r⟩ := x
        simp only []
        have h1 := al_appendCost_le hs
        have h2 := ih r (rem - (rest.length - r.length)) (acc ++ [v]) (a + appendCost k v)
        omega
      | err e => simp only [Res.remLen]; omega
      | panic => simp only [Res.remLen]; omega

/-- a packed run that ends normally has consumed at least its declared length -/
theorem al_packedLoop_consumed (k : Kind) : ∀ (fuel : Nat) (rest : Bytes) (rem : Nat) (acc vs : List Val) (r' : Bytes),
    rem ≤ fuel → implPackedLoop k fuel rest rem acc = .ok (vs, r') → r'.length + rem ≤ rest.length := by
  intro fuel
  induction fuel with
  | zero =>
    intro rest rem acc vs r' hf h
    simp only [implPackedLoop, Res.ok.injEq, Prod.mk.injEq] at h
    obtain ⟨_, rfl⟩ := h; omega
  | succ fuel ih =>
    intro rest rem acc vs r' hf h
    rw [implPackedLoop] at h
    split at h
    · simp only [Res.ok.injEq, Prod.mk.injEq] at h
      obtain ⟨_, rfl⟩ := h; omega
    · cases hs : implReadScalar k rest with
      | ok x =>
        obtain ⟨v, r⟩ := x
        rw [hs] at h
        simp only [] at h
        have h1 := implReadScalar_ok hs
        have h2 := ih _ _ _ _ _ (by omega) h
        omega
      | err e => rw [hs] at h; simp at h
      | panic => rw [hs] at h; simp at h

/-- the pre-allocation of a packed run is at most 8 bytes per payload byte -/
theorem al_prealloc_le (k : Kind) (payload : Bytes) (curLen : Nat) :
    packedPrealloc k payload curLen ≤ 8 * payload.length := by
  unfold packedPrealloc
  split
  · have hc : payload.countP (fun b => b < 128) ≤ payload.length := List.countP_le_length
    cases k <;> simp only [packedElementCount, Kind.goSize] <;> omega
  · omega

section bound
variable {cA : Nat → Val → Bytes → Nat × Res Val}

/-- one key/value record of a map entry: the lazily allocated message and everything the nested decode
    allocates are paid by the length prefix and the payload -/
theorem al_readMapField_le (hc : ∀ i into p, (cA i into p).1 ≤ K * p.length)
    (S : Schema) (e : Elem) (old : Val) (rest : Bytes) :
    (implReadMapFieldAlloc cA S e old rest).1 + K * (implReadMapFieldAlloc cA S e old rest).2.remLen
      ≤ K * rest.length := by
  unfold implReadMapFieldAlloc
  cases e with
  | message i =>
    simp only []
    cases hr : readLenDelim rest with
    | ok x =>
      obtain ⟨p, r⟩ := x
      simp only []
      have h1 := readLenDelim_ok hr
      have h2 := hc i (if old.isNone then emptyMsg S i else old) p
      generalize cA i (if old.isNone then emptyMsg S i else old) p = c at h2 ⊢
      obtain ⟨a1, res⟩ := c
      have h3 : (if old.isNone = true then msgCost else 0) ≤ 64 := by split <;> simp [msgCost]
      simp only [K, callCost] at h2 ⊢
      cases res <;> simp only [Res.remLen] <;> omega
    | err e => simp only [Res.remLen]; omega
    | panic => simp only [Res.remLen]; omega
  | scalar k =>
    simp only []
    cases hs : implReadScalar k rest with
    | ok x =>
      obtain ⟨v, r⟩ := x
      have h1 := al_readScalar_consume hs
      simp only [Res.remLen, K]; omega
    | err e => simp only [Res.remLen]; omega
    | panic => simp only [Res.remLen]; omega

/-- the records of one map entry: at most `K` bytes per byte of the entry -/
theorem al_entryLoop_le (hc : ∀ i into p, (cA i into p).1 ≤ K * p.length)
    (S : Schema) (kk : Kind) (e : Elem) :
    ∀ (fuel : Nat) (rest : Bytes) (rem : Nat) (k v : Val) (a : Nat),
    (implEntryLoopAlloc cA S kk e fuel rest rem k v a).1 ≤ a + K * rest.length := by
  intro fuel
  induction fuel with
  | zero => intro rest rem k v a; simp only [implEntryLoopAlloc]; omega
  | succ fuel ih =>
    intro rest rem k v a
    rw [implEntryLoopAlloc]
    split
    · omega
    · cases hv : readVarint rest with
      | err e => simp only []; omega
      | panic => simp only []; omega
      | ok x =>
        obtain ⟨wire, r⟩ := x
        simp only []
        have hr := readVarint_ok hv
        split
        · have hb := al_readMapField_le hc S (.scalar kk) k r
          generalize implReadMapFieldAlloc cA S (.scalar kk) k r = c at hb ⊢
          obtain ⟨a1, res⟩ := c
          simp only [K] at hb ⊢
          cases res with
          | ok y =>
            obtain ⟨k', r'⟩ := y
            simp only [Res.remLen] at hb ⊢
            have := ih r' (rem - (rest.length - r'.length)) k' v (a + a1)
            simp only [K] at this
            omega
          | err e => simp only [Res.remLen] at hb ⊢; omega
          | panic => simp only [Res.remLen] at hb ⊢; omega
        · split
          · have hb := al_readMapField_le hc S e v r
            generalize implReadMapFieldAlloc cA S e v r = c at hb ⊢
            obtain ⟨a1, res⟩ := c
            simp only [K] at hb ⊢
            cases res with
            | ok y =>
              obtain ⟨v', r'⟩ := y
              simp only [Res.remLen] at hb ⊢
              have := ih r' (rem - (rest.length - r'.length)) k v' (a + a1)
              simp only [K] at this
              omega
            | err e => simp only [Res.remLen] at hb ⊢; omega
            | panic => simp only [Res.remLen] at hb ⊢; omega
          · cases hs : skip rest with
            | ok n =>
              simp only []
              split
              · omega
              · have := ih (rest.drop n) (rem - n) k v a
                simp only [List.length_drop, K] at this ⊢
                omega
            | err e => simp only []; omega
            | panic => simp only []; omega

/-- the invariant of one known-field record: what it allocates plus `K` per byte it leaves is at most `K` per
    byte it was given, plus `K` for the tag byte read before it -/
def AlRec (rest : Bytes) (c : Nat × Res (Val × Bytes)) : Prop :=
  c.1 + K * c.2.remLen ≤ K * rest.length + K

theorem al_rec_err (rest : Bytes) (e : Err) : AlRec rest (0, .err e) := by
  simp only [AlRec, Res.remLen]; omega

theorem al_rec_panic (rest : Bytes) : AlRec rest (0, .panic) := by
  simp only [AlRec, Res.remLen]; omega

theorem al_knownField_le (hc : ∀ i into p, (cA i into p).1 ≤ K * p.length)
    (S : Schema) (fs : List FieldDesc) (j : Nat) (f : FieldDesc) (wt : Nat) (m : Val) (rest : Bytes) :
    AlRec rest (implKnownFieldAlloc S fs cA j f wt m rest) := by
  cases hsh : f.shape <;> cases hel : f.elem <;>
    simp only [implKnownFieldAlloc, hsh, hel]
  case singular.scalar k =>
    by_cases h1 : (wt != Extracted.wireType k) = true
    · simp only [h1, ↓reduceIte, Bool.false_eq_true]; exact al_rec_err _ _
    · simp only [h1, ↓reduceIte, Bool.false_eq_true]
      cases hs : implReadScalar k rest with
      | ok x =>
        obtain ⟨v, r⟩ := x
        have := al_readScalar_consume hs
        simp only [AlRec, Res.remLen, K]; omega
      | err e => exact al_rec_err _ _
      | panic => exact al_rec_panic _
  case singular.message i =>
    by_cases h1 : (wt != 2) = true
    · simp only [h1, ↓reduceIte, Bool.false_eq_true]; exact al_rec_err _ _
    · simp only [h1, ↓reduceIte, Bool.false_eq_true]
      cases hr : readLenDelim rest with
      | ok x =>
        obtain ⟨p, r⟩ := x
        simp only []
        have h1 := readLenDelim_ok hr
        have h2 := hc i (if (m.slot j).isNone then emptyMsg S i else m.slot j) p
        generalize cA i (if (m.slot j).isNone then emptyMsg S i else m.slot j) p = c at h2 ⊢
        obtain ⟨a1, res⟩ := c
        have h3 : (if (m.slot j).isNone = true then msgCost else 0) ≤ 64 := by split <;> simp [msgCost]
        simp only [K] at h2
        simp only [AlRec, K, callCost]
        cases res <;> simp only [Res.remLen] <;> omega
      | err e => exact al_rec_err _ _
      | panic => exact al_rec_panic _
  case repeated.scalar pk k =>
    have happ : ∀ v r, implReadScalar k rest = .ok (v, r) →
        AlRec rest (appendCost k v, .ok (m.setSlot j (.list true ((m.slot j).elems ++ [v])), r)) := by
      intro v r hs
      have := al_appendCost_le hs
      have := implReadScalar_ok hs
      simp only [AlRec, Res.remLen, K]; omega
    by_cases h1 : (Extracted.wireType k != 2) = true
    · simp only [h1, ↓reduceIte, Bool.false_eq_true]
      by_cases h2 : wt = Extracted.wireType k
      · simp only [h2, ↓reduceIte, Bool.false_eq_true]
        cases hs : implReadScalar k rest with
        | ok x => obtain ⟨v, r⟩ := x; exact happ v r hs
        | err e => exact al_rec_err _ _
        | panic => exact al_rec_panic _
      · simp only [h2, ↓reduceIte, Bool.false_eq_true]
        by_cases h3 : wt = 2
        · simp only [h3, ↓reduceIte, Bool.false_eq_true]
          cases hv : readVarint rest with
          | ok x =>
            obtain ⟨n, r⟩ := x
            simp only []
            have hr := readVarint_ok hv
            by_cases h4 : n ≥ 9223372036854775808
            · simp only [h4, ↓reduceIte, Bool.false_eq_true]; exact al_rec_err _ _
            · simp only [h4, ↓reduceIte, Bool.false_eq_true]
              by_cases h5 : n > r.length
              · simp only [h5, ↓reduceIte, Bool.false_eq_true]; exact al_rec_err _ _
              · simp only [h5, ↓reduceIte, Bool.false_eq_true]
                have hpre := al_prealloc_le k (r.take n) (m.slot j).elems.length
                have hlen : (r.take n).length = n := by simp only [List.length_take]; omega
                rw [hlen] at hpre
                have hb := al_packedLoop_le k n r n [] (packedPrealloc k (r.take n) (m.slot j).elems.length)
                have hcons := al_packedLoop_consumed k n r n []
                rw [← al_packedLoop_snd k n r n [] (packedPrealloc k (r.take n) (m.slot j).elems.length)] at hcons
                generalize implPackedLoopAlloc k n r n [] _ = c at hb hcons ⊢
                obtain ⟨a1, res⟩ := c
                cases res with
                | ok y =>
                  obtain ⟨vs, r'⟩ := y
                  have := hcons vs r' (Nat.le_refl _) rfl
                  simp only [Res.remLen] at hb
                  simp only [AlRec, Res.remLen, K]; omega
                | err e => simp only [Res.remLen] at hb; simp only [AlRec, Res.remLen, K]; omega
                | panic => simp only [Res.remLen] at hb; simp only [AlRec, Res.remLen, K]; omega
          | err e => exact al_rec_err _ _
          | panic => exact al_rec_panic _
        · simp only [h3, ↓reduceIte, Bool.false_eq_true]; exact al_rec_err _ _
    · simp only [h1, ↓reduceIte, Bool.false_eq_true]
      by_cases h2 : (wt != 2) = true
      · simp only [h2, ↓reduceIte, Bool.false_eq_true]; exact al_rec_err _ _
      · simp only [h2, ↓reduceIte, Bool.false_eq_true]
        cases hs : implReadScalar k rest with
        | ok x => obtain ⟨v, r⟩ := x; exact happ v r hs
        | err e => exact al_rec_err _ _
        | panic => exact al_rec_panic _
  case repeated.message pk i =>
    by_cases h1 : (wt != 2) = true
    · simp only [h1, ↓reduceIte, Bool.false_eq_true]; exact al_rec_err _ _
    · simp only [h1, ↓reduceIte, Bool.false_eq_true]
      cases hr : readLenDelim rest with
      | ok x =>
        obtain ⟨p, r⟩ := x
        simp only []
        have h1 := readLenDelim_ok hr
        have h2 := hc i (emptyMsg S i) p
        generalize cA i (emptyMsg S i) p = c at h2 ⊢
        obtain ⟨a1, res⟩ := c
        simp only [K] at h2
        simp only [AlRec, K, growFactor, ptrSize, msgCost, callCost]
        cases res <;> simp only [Res.remLen] <;> omega
      | err e => exact al_rec_err _ _
      | panic => exact al_rec_panic _
  case oneof.scalar g k =>
    by_cases h1 : (wt != Extracted.wireType k) = true
    · simp only [h1, ↓reduceIte, Bool.false_eq_true]; exact al_rec_err _ _
    · simp only [h1, ↓reduceIte, Bool.false_eq_true]
      cases hs : implReadScalar k rest with
      | ok x =>
        obtain ⟨v, r⟩ := x
        have := al_readScalar_consume hs
        simp only [AlRec, Res.remLen, K, boxCost]; omega
      | err e => exact al_rec_err _ _
      | panic => exact al_rec_panic _
  case oneof.message g i =>
    by_cases h1 : (wt != 2) = true
    · simp only [h1, ↓reduceIte, Bool.false_eq_true]; exact al_rec_err _ _
    · simp only [h1, ↓reduceIte, Bool.false_eq_true]
      cases hr : readLenDelim rest with
      | ok x =>
        obtain ⟨p, r⟩ := x
        simp only []
        have h1 := readLenDelim_ok hr
        generalize hcq : cA i _ p = c
        have h2 : c.1 ≤ K * p.length := by rw [← hcq]; exact hc i _ p
        obtain ⟨a1, res⟩ := c
        simp only [K] at h2
        cases res <;> simp only [AlRec, K, boxCost, callCost, Res.remLen] <;> split <;>
          (try split) <;> (try simp only [msgCost]) <;> omega
      | err e => exact al_rec_err _ _
      | panic => exact al_rec_panic _
  all_goals
    -- the two map cases (scalar / message value)
    rename_i kk _
    by_cases h1 : (wt != 2) = true
    · simp only [h1, ↓reduceIte, Bool.false_eq_true]; exact al_rec_err _ _
    · simp only [h1, ↓reduceIte, Bool.false_eq_true]
      cases hv : readVarint rest with
      | ok x =>
        obtain ⟨n, r⟩ := x
        simp only []
        have hr := readVarint_ok hv
        by_cases h4 : n ≥ 9223372036854775808
        · simp only [h4, ↓reduceIte, Bool.false_eq_true]; exact al_rec_err _ _
        · simp only [h4, ↓reduceIte, Bool.false_eq_true]
          by_cases h5 : n > r.length
          · simp only [h5, ↓reduceIte, Bool.false_eq_true]; exact al_rec_err _ _
          · simp only [h5, ↓reduceIte, Bool.false_eq_true]
            have hlen : (r.take n).length = n := by simp only [List.length_take]; omega
            generalize hcq : implEntryLoopAlloc cA S kk _ n (r.take n) n _ _ _ = c
            have hb : c.1 ≤ 48 + K * n := by
              rw [← hcq]
              refine Nat.le_trans (al_entryLoop_le hc S kk _ n (r.take n) n _ _ _) ?_
              rw [hlen]
              split <;> (try simp only [mapHdrCost]) <;> omega
            obtain ⟨a1, res⟩ := c
            simp only [K] at hb
            cases res with
            | ok y =>
              obtain ⟨k', v'⟩ := y
              simp only [AlRec, Res.remLen, K, List.length_drop]
              repeat' split
              all_goals (try simp only [msgCost, mapEntryCost])
              all_goals omega
            | err e => simp only [AlRec, Res.remLen, K]; omega
            | panic => simp only [AlRec, Res.remLen, K]; omega
      | err e => exact al_rec_err _ _
      | panic => exact al_rec_panic _

/-- the record loop: at most `K` bytes per remaining input byte on top of the running total -/
theorem al_loop_le (hc : ∀ i into p, (cA i into p).1 ≤ K * p.length) (S : Schema) (i : Nat) (o : UOpts) :
    ∀ (fuel : Nat) (m : Val) (rest : Bytes) (a : Nat),
    (implUnmarshalLoopAlloc S i o cA fuel m rest a).1 ≤ a + K * rest.length := by
  intro fuel
  induction fuel with
  | zero => intro m rest a; simp only [implUnmarshalLoopAlloc]; omega
  | succ fuel ih =>
    intro m rest a
    rw [implUnmarshalLoopAlloc]
    split
    · omega
    · cases hv : readVarint rest with
      | err e => simp only []; omega
      | panic => simp only []; omega
      | ok x =>
        obtain ⟨wire, r⟩ := x
        simp only []
        have hr := readVarint_ok hv
        split
        · omega
        · split
          · omega
          · cases hf : findField (S.msg i).fields ((wire / 8) % 4294967296) with
            | some jf =>
              obtain ⟨j, f⟩ := jf
              simp only []
              have hb := al_knownField_le hc S (S.msg i).fields j f (wire % 8) m r
              generalize implKnownFieldAlloc S (S.msg i).fields cA j f (wire % 8) m r = c at hb ⊢
              obtain ⟨a1, res⟩ := c
              simp only [AlRec, K] at hb
              cases res with
              | ok y =>
                obtain ⟨m', r'⟩ := y
                simp only [Res.remLen] at hb
                simp only []
                split
                · have := ih m' r' (a + a1)
                  simp only [K] at this ⊢
                  omega
                · simp only [K]; omega
              | err e => simp only [Res.remLen] at hb; simp only [K]; omega
              | panic => simp only [Res.remLen] at hb; simp only [K]; omega
            | none =>
              simp only []
              cases hs : skip rest with
              | ok n =>
                simp only []
                split
                · omega
                · rename_i hn
                  rw [sliceTo_of_le (by omega)]
                  simp only []
                  have hlen : (rest.take n).length = n := by simp only [List.length_take]; omega
                  rw [hlen]
                  have hd : (if o.discard = true then 0 else growFactor * n) ≤ 2 * n := by
                    split <;> (try simp only [growFactor]) <;> omega
                  split
                  · simp only [K]; omega
                  · have := ih (if o.discard = true then m else Val.msg m.slots (m.unknown ++ rest.take n))
                      (rest.drop n) (a + (if o.discard = true then 0 else growFactor * n))
                    simp only [List.length_drop, K] at this ⊢
                    omega
              | err e => simp only []; omega
              | panic => simp only []; omega

end bound

/-- **Linear allocation.** Whatever the schema, options, budget, target and input — and whatever the outcome
    (message, error, or panic) — the generated closure asks the allocator for at most `K` bytes per input
    byte. -/
theorem al_alloc_le (S : Schema) (o : UOpts) : ∀ (fuel : Nat) (depth : Int) (i : Nat) (into : Val) (bs : Bytes),
    (implUnmarshalAlloc S o fuel depth i into bs).1 ≤ K * bs.length := by
  intro fuel
  induction fuel with
  | zero => intro depth i into bs; simp only [implUnmarshalAlloc]; omega
  | succ fuel ih =>
    intro depth i into bs
    rw [implUnmarshalAlloc]
    split
    · omega
    · split
      · omega
      · have := al_loop_le (cA := implUnmarshalAlloc S o fuel (nestedLimit depth))
          (fun i into p => ih _ i into p) S i o bs.length into bs 0
        omega

end Pulsar
