/-
  Pulsar.Proofs.DecodeGood — everything the decoder builds (from a fresh target) is `Good`: zig-zag
  scalars in range, no typed-nil oneof wrapper; so `proto.Marshal` of a decoded message cannot panic
  (C06_post_usable, for schemas without packed message fields).
-/
import Pulsar.Proofs.MarshalTotal
import Pulsar.Proofs.DecodeNoNil
namespace Pulsar.PU
open Pulsar

/-! ## decoded scalars are in range -/

theorem skipReadVarint_lt (bs : Bytes) : ∀ k acc v n rest,
    skipReadVarint k acc bs = .ok (v, n, rest) → v < 18446744073709551616 := by
  induction bs with
  | nil => intro k acc v n rest h; simp [skipReadVarint] at h
  | cons b tl ih =>
    intro k acc v n rest h
    rw [skipReadVarint] at h
    split at h
    · simp at h
    · simp only [] at h
      split at h
      · simp only [Res.ok.injEq, Prod.mk.injEq] at h
        obtain ⟨rfl, _, _⟩ := h
        exact Nat.mod_lt _ (by decide)
      · split at h
        · simp at h
        · exact ih _ _ _ _ _ h

theorem readVarint_lt {bs : Bytes} {v : Nat} {r : Bytes} (h : readVarint bs = .ok (v, r)) :
    v < 18446744073709551616 := by
  unfold readVarint at h
  split at h
  · rename_i hs
    simp only [Res.ok.injEq, Prod.mk.injEq] at h
    obtain ⟨rfl, _⟩ := h
    exact skipReadVarint_lt _ _ _ _ _ _ hs
  · simp at h
  · simp at h

theorem unzigzag32_lt (z : Nat) (h : z < 4294967296) : unzigzag32 z < 4294967296 := by
  unfold unzigzag32; split <;> omega

theorem unzigzag64_lt (z : Nat) (h : z < 18446744073709551616) : unzigzag64 z < 18446744073709551616 := by
  unfold unzigzag64; split <;> omega

theorem implReadScalar_range {k : Kind} {rest : Bytes} {v : Val} {r : Bytes}
    (h : implReadScalar k rest = .ok (v, r)) : rangeOK k v = true := by
  cases k <;> try rfl
  · -- sint32
    simp only [implReadScalar] at h
    split at h
    · simp only [Res.ok.injEq, Prod.mk.injEq] at h
      obtain ⟨rfl, _⟩ := h
      simp only [rangeOK, Val.getBits]
      exact decide_eq_true (unzigzag32_lt _ (Nat.mod_lt _ (by decide)))
    · simp at h
    · simp at h
  · -- sint64
    simp only [implReadScalar] at h
    split at h
    · have := readVarint_lt ‹readVarint _ = Res.ok _›
      simp only [Res.ok.injEq, Prod.mk.injEq] at h
      obtain ⟨rfl, _⟩ := h
      simp only [rangeOK, Val.getBits]
      exact decide_eq_true (unzigzag64_lt _ this)
    · simp at h
    · simp at h

theorem rangeOK_zeroVar (k : Kind) : rangeOK k (Elem.zeroVar (.scalar k)) = true := by
  cases k <;> rfl

theorem implPackedLoop_range (k : Kind) : ∀ (fuel : Nat) (rest : Bytes) (rem : Nat) (acc vs : List Val) (r : Bytes),
    (∀ x ∈ acc, rangeOK k x = true) → implPackedLoop k fuel rest rem acc = .ok (vs, r) →
    ∀ x ∈ vs, rangeOK k x = true := by
  intro fuel
  induction fuel with
  | zero =>
    intro rest rem acc vs r ha h
    simp only [implPackedLoop, Res.ok.injEq, Prod.mk.injEq] at h
    obtain ⟨rfl, _⟩ := h; exact ha
  | succ fuel ih =>
    intro rest rem acc vs r ha h
    rw [implPackedLoop] at h
    split at h
    · simp only [Res.ok.injEq, Prod.mk.injEq] at h
      obtain ⟨rfl, _⟩ := h; exact ha
    · cases hs : implReadScalar k rest with
      | ok a =>
        obtain ⟨v, r0⟩ := a
        rw [hs] at h
        simp only [] at h
        refine ih _ _ _ _ _ ?_ h
        intro x hx
        rcases List.mem_append.1 hx with hx | hx
        · exact ha x hx
        · simp only [List.mem_singleton] at hx
          subst hx; exact implReadScalar_range hs
      | err e => rw [hs] at h; simp at h
      | panic => rw [hs] at h; simp at h

/-! ## the invariant, fuel-free -/

variable (S : Schema)

/-- good at every marshal fuel -/
def GoodAll (i : Nat) (v : Val) : Prop := ∀ fuel, Good S fuel i v
def GE (e : Elem) (v : Val) : Prop := ∀ fuel, GElem (Good S fuel) e v
def GS (f : FieldDesc) (v : Val) : Prop := ∀ fuel, GSlot (Good S fuel) f v
/-- the slots of `m` (as a message of type `i`) are good -/
def LvlGood (i : Nat) (m : Val) : Prop := ∀ p ∈ (S.msg i).fields.zip m.slots, GS S p.1 p.2

/-- no packed repeated message field (protoc rejects them; implied by `Schema.WF`) -/
def NoPackedMsg : Prop := ∀ i, ∀ f ∈ (S.msg i).fields, f.shape = .repeated true → ∃ k, f.elem = .scalar k

theorem goodAll_of_lvl {i : Nat} {m : Val} (h : LvlGood S i m) : GoodAll S i m := by
  intro fuel
  cases fuel with
  | zero => trivial
  | succ fuel => exact Or.inr (fun p hp => h p hp fuel)

theorem goodAll_none {i : Nat} {m : Val} (h : m.isNone = true) : GoodAll S i m := by
  intro fuel
  cases fuel with
  | zero => trivial
  | succ fuel => exact Or.inl h

theorem lvl_of_goodAll {i : Nat} {m : Val} (hn : m.isNone = false) (h : GoodAll S i m) : LvlGood S i m := by
  intro p hp fuel
  rcases h (fuel + 1) with h | h
  · rw [hn] at h; cases h
  · exact h p hp

theorem GE_message {i : Nat} {v : Val} : GE S (.message i) v ↔ GoodAll S i v := Iff.rfl
theorem GE_scalar {k : Kind} {v : Val} : GE S (.scalar k) v ↔ rangeOK k v = true :=
  ⟨fun h => h 0, fun h _ => h⟩

theorem GS_singular {f : FieldDesc} (hs : f.shape = .singular) {v : Val} :
    GS S f v ↔ (v.isNone = true ∨ GE S f.elem v) := by
  constructor
  · intro h
    by_cases hn : v.isNone = true
    · exact Or.inl hn
    · refine Or.inr (fun fuel => ?_)
      have := h fuel
      simp only [GSlot, hs] at this
      exact this.resolve_left hn
  · intro h fuel
    simp only [GSlot, hs]
    exact h.imp id (fun h => h fuel)

theorem GS_oneof {f : FieldDesc} {g : Nat} (hs : f.shape = .oneof g) {v : Val} :
    GS S f v ↔ (v ≠ .oneNil ∧ ∀ x, v = .one x → GE S f.elem x) := by
  constructor
  · intro h
    have h0 := h 0
    simp only [GSlot, hs] at h0
    refine ⟨h0.1, fun x hx fuel => ?_⟩
    have := h fuel
    simp only [GSlot, hs] at this
    exact this.2 x hx
  · intro h fuel
    simp only [GSlot, hs]
    exact ⟨h.1, fun x hx => h.2 x hx fuel⟩

theorem GS_repeated {f : FieldDesc} {pk : Bool} (hs : f.shape = .repeated pk) {v : Val} :
    GS S f v ↔ ((pk = true → ∃ k, f.elem = .scalar k) ∧ ∀ x ∈ v.elems, GE S f.elem x) := by
  constructor
  · intro h
    have h0 := h 0
    simp only [GSlot, hs] at h0
    refine ⟨h0.1, fun x hx fuel => ?_⟩
    have := h fuel
    simp only [GSlot, hs] at this
    exact this.2 x hx
  · intro h fuel
    simp only [GSlot, hs]
    exact ⟨h.1, fun x hx => h.2 x hx fuel⟩

theorem GS_map {f : FieldDesc} {kk : Kind} (hs : f.shape = .map kk) {v : Val} :
    GS S f v ↔ ∀ en ∈ v.elems, rangeOK kk en.key = true ∧ GE S f.elem en.value := by
  constructor
  · intro h en hen
    have h0 := h 0
    simp only [GSlot, hs] at h0
    refine ⟨(h0 en hen).1, fun fuel => ?_⟩
    have := h fuel
    simp only [GSlot, hs] at this
    exact (this en hen).2
  · intro h fuel
    simp only [GSlot, hs]
    exact fun en hen => ⟨(h en hen).1, (h en hen).2 fuel⟩

/-- a nil slot is good (given the schema condition for packed fields) -/
theorem GS_none {f : FieldDesc} (hp : f.shape = .repeated true → ∃ k, f.elem = .scalar k) : GS S f .none := by
  cases hs : f.shape with
  | singular => exact (GS_singular S hs).2 (Or.inl rfl)
  | oneof g => exact (GS_oneof S hs).2 ⟨(by intro h; cases h), (by intro x h; cases h)⟩
  | repeated pk =>
    refine (GS_repeated S hs).2 ⟨fun h => hp (by rw [hs, h]), ?_⟩
    intro x hx; simp [Val.elems] at hx
  | map kk =>
    refine (GS_map S hs).2 ?_
    intro x hx; simp [Val.elems] at hx

theorem GS_zero {f : FieldDesc} (hp : f.shape = .repeated true → ∃ k, f.elem = .scalar k) : GS S f f.zero := by
  cases hs : f.shape with
  | singular =>
    cases he : f.elem with
    | scalar k =>
      have hz : f.zero = if k.isBlob then .blob false [] else .bits 0 := by simp [FieldDesc.zero, hs, he]
      rw [hz]
      refine (GS_singular S hs).2 (Or.inr ?_)
      rw [he, GE_scalar]
      cases k <;> rfl
    | message i =>
      have hz : f.zero = .none := by simp [FieldDesc.zero, hs, he]
      rw [hz]
      exact GS_none S hp
  | oneof g =>
    have hz : f.zero = .none := by simp [FieldDesc.zero, hs]
    rw [hz]
    exact GS_none S hp
  | repeated pk =>
    have hz : f.zero = .list false [] := by simp [FieldDesc.zero, hs]
    rw [hz]
    refine (GS_repeated S hs).2 ⟨fun h => hp (by rw [hs, h]), ?_⟩
    intro x hx; simp [Val.elems] at hx
  | map kk =>
    have hz : f.zero = .map false [] := by simp [FieldDesc.zero, hs]
    rw [hz]
    refine (GS_map S hs).2 ?_
    intro x hx; simp [Val.elems] at hx

theorem lvlGood_emptyMsg (hS : NoPackedMsg S) (i : Nat) : LvlGood S i (emptyMsg S i) := by
  intro p hp
  simp only [emptyMsg, Val.slots] at hp
  have h1 := List.of_mem_zip hp
  have h2 : p.2 = p.1.zero := by
    clear h1
    generalize (S.msg i).fields = fs at hp
    induction fs with
    | nil => simp at hp
    | cons a fs ih =>
      simp only [List.map_cons, List.zip_cons_cons, List.mem_cons] at hp
      rcases hp with rfl | hp
      · rfl
      · exact ih hp
  rw [h2]
  exact GS_zero S (hS i p.1 h1.1)

theorem goodAll_emptyMsg (hS : NoPackedMsg S) (i : Nat) : GoodAll S i (emptyMsg S i) :=
  goodAll_of_lvl S (lvlGood_emptyMsg S hS i)

/-! ## slot operations keep the level good -/

theorem mem_zip_set {fs : List FieldDesc} : ∀ (slots : List Val) (j : Nat) (f : FieldDesc) (v : Val) (p : FieldDesc × Val),
    fs[j]? = some f → p ∈ fs.zip (slots.set j v) → p ∈ fs.zip slots ∨ p = (f, v) := by
  induction fs with
  | nil => intro slots j f v p h; simp at h
  | cons a fs ih =>
    intro slots j f v p h hp
    cases slots with
    | nil => simp at hp
    | cons s slots =>
      cases j with
      | zero =>
        simp at h; subst h
        simp only [List.set_cons_zero, List.zip_cons_cons, List.mem_cons] at hp ⊢
        rcases hp with hp | hp
        · exact Or.inr hp
        · exact Or.inl (Or.inr hp)
      | succ j =>
        simp only [List.getElem?_cons_succ] at h
        simp only [List.set_cons_succ, List.zip_cons_cons, List.mem_cons] at hp ⊢
        rcases hp with hp | hp
        · exact Or.inl (Or.inl hp)
        · rcases ih slots j f v p h hp with h' | h'
          · exact Or.inl (Or.inr h')
          · exact Or.inr h'

theorem zip_getD_prop {fs : List FieldDesc} (P : FieldDesc → Val → Prop) :
    ∀ (slots : List Val) (j : Nat) (f : FieldDesc), fs[j]? = some f → P f .none →
      (∀ p ∈ fs.zip slots, P p.1 p.2) → P f (slots.getD j .none) := by
  induction fs with
  | nil => intro slots j f h; simp at h
  | cons a fs ih =>
    intro slots j f h hn hall
    cases slots with
    | nil => simpa using hn
    | cons s slots =>
      cases j with
      | zero =>
        simp at h; subst h
        simpa using hall (a, s) (by simp)
      | succ j =>
        simp only [List.getElem?_cons_succ] at h
        simpa using ih slots j f h hn (fun p hp => hall p (by simp [hp]))

theorem mem_zip_clearGroup {fs : List FieldDesc} (g : Nat) : ∀ (slots : List Val) (p : FieldDesc × Val),
    p ∈ fs.zip (clearGroup fs g slots) → p ∈ fs.zip slots ∨ (p.2 = .none ∧ p.1.group? = some g) := by
  induction fs with
  | nil => intro slots p hp; simp at hp
  | cons a fs ih =>
    intro slots p hp
    cases slots with
    | nil => simp [clearGroup] at hp
    | cons s slots =>
      have hc : clearGroup (a :: fs) g (s :: slots) =
          (if a.group? == some g then Val.none else s) :: clearGroup fs g slots := by simp [clearGroup]
      rw [hc] at hp
      simp only [List.zip_cons_cons, List.mem_cons] at hp ⊢
      rcases hp with hp | hp
      · by_cases hg : (a.group? == some g) = true
        · simp only [hg, if_true] at hp
          subst hp
          exact Or.inr ⟨rfl, by simpa using hg⟩
        · simp only [hg] at hp
          exact Or.inl (Or.inl hp)
      · rcases ih slots p hp with h | h
        · exact Or.inl (Or.inr h)
        · exact Or.inr h

section ops
variable {S}
variable {i j : Nat} {f : FieldDesc} {m : Val}

theorem lvlGood_setSlot (hf : (S.msg i).fields[j]? = some f) (hm : LvlGood S i m) {v : Val} (hv : GS S f v) :
    LvlGood S i (m.setSlot j v) := by
  cases m with
  | msg s u =>
    intro p hp
    simp only [Val.setSlot, Val.slots] at hp
    rcases mem_zip_set s j f v p hf hp with h | h
    · exact hm p h
    · subst h; exact hv
  | _ => exact hm

theorem lvlGood_slot (hf : (S.msg i).fields[j]? = some f) (hm : LvlGood S i m)
    (hp : f.shape = .repeated true → ∃ k, f.elem = .scalar k) : GS S f (m.slot j) :=
  zip_getD_prop (GS S) m.slots j f hf (GS_none S hp) hm

theorem GS_none_of_group {g : Nat} {f : FieldDesc} (h : f.group? = some g) : GS S f .none := by
  apply GS_none
  intro hs
  unfold FieldDesc.group? at h
  rw [hs] at h
  cases h

theorem lvlGood_clearGroup (hm : LvlGood S i m) (g : Nat) (u : Bytes) :
    LvlGood S i (Val.msg (clearGroup (S.msg i).fields g m.slots) u) := by
  intro p hp
  simp only [Val.slots] at hp
  rcases mem_zip_clearGroup g m.slots p hp with h | ⟨h1, h2⟩
  · exact hm p h
  · rw [h1]; exact GS_none_of_group h2

theorem lvlGood_unknown (hm : LvlGood S i m) (u : Bytes) : LvlGood S i (Val.msg m.slots u) := hm

end ops

/-! ## the decoder keeps it -/

theorem mapPut_prop (kb : Val → Val → Bool) (es : List Val) (k v : Val) (P : Val → Prop)
    (hes : ∀ en ∈ es, P en) (hnew : P (.entry k v)) : ∀ en ∈ mapPut kb es k v, P en := by
  intro en hen
  unfold mapPut at hen
  split at hen
  · obtain ⟨e0, he0, rfl⟩ := List.mem_map.1 hen
    split
    · exact hnew
    · exact hes e0 he0
  · rcases List.mem_append.1 hen with hen | hen
    · exact hes en hen
    · simp only [List.mem_singleton] at hen
      subst hen
      exact hnew

section dec
variable {S}
variable {c : Nat → Val → Bytes → Res Val}

/-- the child decoder keeps good targets good -/
def ChildGood (S : Schema) (c : Nat → Val → Bytes → Res Val) : Prop :=
  ∀ i into p v, GoodAll S i into → c i into p = .ok v → GoodAll S i v

theorem goodAll_target (hS : NoPackedMsg S) (i : Nat) {cur : Val} (h : cur.isNone = true ∨ GoodAll S i cur) :
    GoodAll S i (if cur.isNone then emptyMsg S i else cur) := by
  split
  · exact goodAll_emptyMsg S hS i
  · rename_i hn; exact h.resolve_left hn

theorem implReadMapField_good (hS : NoPackedMsg S) (hc : ChildGood S c) {e : Elem} {old : Val} {rest : Bytes}
    {v : Val} {r : Bytes} (ho : old.isNone = true ∨ GE S e old)
    (h : implReadMapField c S e old rest = .ok (v, r)) : GE S e v := by
  cases e with
  | scalar k => exact (GE_scalar S).2 (implReadScalar_range h)
  | message i =>
    simp only [implReadMapField] at h
    cases hr : readLenDelim rest with
    | ok a =>
      obtain ⟨p, r0⟩ := a
      rw [hr] at h
      simp only [] at h
      cases hcv : c i (if old.isNone then emptyMsg S i else old) p with
      | ok w =>
        rw [hcv] at h
        simp only [Res.ok.injEq, Prod.mk.injEq] at h
        obtain ⟨rfl, _⟩ := h
        exact hc _ _ _ _ (goodAll_target hS i ho) hcv
      | err e => rw [hcv] at h; simp at h
      | panic => rw [hcv] at h; simp at h
    | err e => rw [hr] at h; simp at h
    | panic => rw [hr] at h; simp at h

theorem implEntryLoop_good (hS : NoPackedMsg S) (hc : ChildGood S c) (kk : Kind) (e : Elem) :
    ∀ (fuel : Nat) (rest : Bytes) (rem : Nat) (k v k' v' : Val), rangeOK kk k = true →
      (v.isNone = true ∨ GE S e v) →
      implEntryLoop c S kk e fuel rest rem k v = .ok (k', v') →
      rangeOK kk k' = true ∧ (v'.isNone = true ∨ GE S e v') := by
  intro fuel
  induction fuel with
  | zero =>
    intro rest rem k v k' v' hk hv h
    simp only [implEntryLoop, Res.ok.injEq, Prod.mk.injEq] at h
    obtain ⟨rfl, rfl⟩ := h; exact ⟨hk, hv⟩
  | succ fuel ih =>
    intro rest rem k v k' v' hk hv h
    rw [implEntryLoop] at h
    split at h
    · simp only [Res.ok.injEq, Prod.mk.injEq] at h
      obtain ⟨rfl, rfl⟩ := h; exact ⟨hk, hv⟩
    · cases hvr : readVarint rest with
      | err e => rw [hvr] at h; simp at h
      | panic => rw [hvr] at h; simp at h
      | ok a =>
        obtain ⟨wire, r⟩ := a
        rw [hvr] at h
        simp only [] at h
        split at h
        · cases hm : implReadMapField c S (.scalar kk) k r with
          | ok q =>
            obtain ⟨k1, r1⟩ := q
            rw [hm] at h
            exact ih _ _ _ _ _ _ (implReadScalar_range hm) hv h
          | err e => rw [hm] at h; simp at h
          | panic => rw [hm] at h; simp at h
        · split at h
          · cases hm : implReadMapField c S e v r with
            | ok q =>
              obtain ⟨v1, r1⟩ := q
              rw [hm] at h
              exact ih _ _ _ _ _ _ hk (Or.inr (implReadMapField_good hS hc hv hm)) h
            | err e => rw [hm] at h; simp at h
            | panic => rw [hm] at h; simp at h
          · cases hs : skip rest with
            | ok n =>
              rw [hs] at h
              simp only [] at h
              split at h
              · simp at h
              · exact ih _ _ _ _ _ _ hk hv h
            | err e => rw [hs] at h; simp at h
            | panic => rw [hs] at h; simp at h

theorem GE_of_scalar_read {e : Elem} {k : Kind} (he : e = .scalar k) {rest : Bytes} {v : Val} {r : Bytes}
    (h : implReadScalar k rest = .ok (v, r)) : GE S e v := by
  subst he; exact (GE_scalar S).2 (implReadScalar_range h)

theorem implKnownField_good (hS : NoPackedMsg S) (hc : ChildGood S c) {i j : Nat} {f : FieldDesc} {wt : Nat}
    {m : Val} {rest : Bytes} {m' : Val} {r' : Bytes}
    (hf : (S.msg i).fields[j]? = some f) (hm : LvlGood S i m)
    (h : implKnownField S (S.msg i).fields c j f wt m rest = .ok (m', r')) : LvlGood S i m' := by
  have hmem : f ∈ (S.msg i).fields := List.mem_of_getElem? hf
  have hpk := hS i f hmem
  have hcur := lvlGood_slot hf hm hpk
  cases hsh : f.shape with
  | singular =>
    cases hel : f.elem with
    | scalar k =>
      simp only [implKnownField, hsh, hel] at h
      split at h
      · simp at h
      · cases hs : implReadScalar k rest with
        | ok a =>
          obtain ⟨v, r⟩ := a
          rw [hs] at h
          simp only [Res.ok.injEq, Prod.mk.injEq] at h
          obtain ⟨rfl, _⟩ := h
          exact lvlGood_setSlot hf hm ((GS_singular S hsh).2 (Or.inr (GE_of_scalar_read hel hs)))
        | err e => rw [hs] at h; simp at h
        | panic => rw [hs] at h; simp at h
    | message mi =>
      simp only [implKnownField, hsh, hel] at h
      split at h
      · simp at h
      · cases hr : readLenDelim rest with
        | ok a =>
          obtain ⟨p, r⟩ := a
          rw [hr] at h
          simp only [] at h
          split at h
          · rename_i v hcv
            simp only [Res.ok.injEq, Prod.mk.injEq] at h
            obtain ⟨rfl, _⟩ := h
            have hc0 := (GS_singular S hsh).1 hcur
            rw [hel] at hc0
            have := hc _ _ _ _ (goodAll_target hS mi hc0) hcv
            exact lvlGood_setSlot hf hm ((GS_singular S hsh).2 (Or.inr (by rw [hel]; exact this)))
          · simp at h
          · simp at h
        | err e => rw [hr] at h; simp at h
        | panic => rw [hr] at h; simp at h
  | repeated pk =>
    obtain ⟨hpk', hels⟩ := (GS_repeated S hsh).1 hcur
    have happ : ∀ (nn : Bool) (vs : List Val), (∀ x ∈ vs, GE S f.elem x) →
        LvlGood S i (m.setSlot j (.list nn ((m.slot j).elems ++ vs))) := by
      intro nn vs hvs
      refine lvlGood_setSlot hf hm ((GS_repeated S hsh).2 ⟨hpk', ?_⟩)
      intro x hx
      simp only [Val.elems] at hx
      rcases List.mem_append.1 hx with hx | hx
      · exact hels x hx
      · exact hvs x hx
    cases hel : f.elem with
    | scalar k =>
      simp only [implKnownField, hsh, hel] at h
      have hone : ∀ {v : Val} {r : Bytes}, implReadScalar k rest = .ok (v, r) → ∀ nn,
          LvlGood S i (m.setSlot j (.list nn ((m.slot j).elems ++ [v]))) := by
        intro v r hs nn
        apply happ
        intro x hx
        simp only [List.mem_singleton] at hx
        subst hx
        exact GE_of_scalar_read hel hs
      split at h
      · split at h
        · cases hs : implReadScalar k rest with
          | ok a =>
            obtain ⟨v, r⟩ := a
            rw [hs] at h
            simp only [Res.ok.injEq, Prod.mk.injEq] at h
            obtain ⟨rfl, _⟩ := h
            exact hone hs _
          | err e => rw [hs] at h; simp at h
          | panic => rw [hs] at h; simp at h
        · split at h
          · cases hv : readVarint rest with
            | ok a =>
              obtain ⟨n, r⟩ := a
              rw [hv] at h
              simp only [] at h
              split at h
              · simp at h
              · split at h
                · simp at h
                · cases hp : implPackedLoop k n r n [] with
                  | ok q =>
                    obtain ⟨vs, r1⟩ := q
                    rw [hp] at h
                    simp only [Res.ok.injEq, Prod.mk.injEq] at h
                    obtain ⟨rfl, _⟩ := h
                    apply happ
                    intro x hx
                    rw [hel]
                    exact (GE_scalar S).2 (implPackedLoop_range k _ _ _ _ _ _ (by intro y hy; cases hy) hp x hx)
                  | err e => rw [hp] at h; simp at h
                  | panic => rw [hp] at h; simp at h
            | err e => rw [hv] at h; simp at h
            | panic => rw [hv] at h; simp at h
          · simp at h
      · split at h
        · simp at h
        · cases hs : implReadScalar k rest with
          | ok a =>
            obtain ⟨v, r⟩ := a
            rw [hs] at h
            simp only [Res.ok.injEq, Prod.mk.injEq] at h
            obtain ⟨rfl, _⟩ := h
            exact hone hs _
          | err e => rw [hs] at h; simp at h
          | panic => rw [hs] at h; simp at h
    | message mi =>
      simp only [implKnownField, hsh, hel] at h
      split at h
      · simp at h
      · cases hr : readLenDelim rest with
        | ok a =>
          obtain ⟨p, r⟩ := a
          rw [hr] at h
          simp only [] at h
          split at h
          · rename_i v hcv
            simp only [Res.ok.injEq, Prod.mk.injEq] at h
            obtain ⟨rfl, _⟩ := h
            have := hc _ _ _ _ (goodAll_emptyMsg S hS mi) hcv
            apply happ
            intro x hx
            simp only [List.mem_singleton] at hx
            subst hx
            rw [hel]; exact this
          · simp at h
          · simp at h
        | err e => rw [hr] at h; simp at h
        | panic => rw [hr] at h; simp at h
  | oneof g =>
    have hset : ∀ v, GE S f.elem v →
        LvlGood S i ((Val.msg (clearGroup (S.msg i).fields g m.slots) m.unknown).setSlot j (.one v)) := by
      intro v hv
      refine lvlGood_setSlot hf (lvlGood_clearGroup hm g _) ((GS_oneof S hsh).2 ⟨(by intro h; cases h), ?_⟩)
      intro x hx
      cases hx
      exact hv
    cases hel : f.elem with
    | scalar k =>
      simp only [implKnownField, hsh, hel] at h
      split at h
      · simp at h
      · cases hs : implReadScalar k rest with
        | ok a =>
          obtain ⟨v, r⟩ := a
          rw [hs] at h
          simp only [Res.ok.injEq, Prod.mk.injEq] at h
          obtain ⟨rfl, _⟩ := h
          exact hset v (GE_of_scalar_read hel hs)
        | err e => rw [hs] at h; simp at h
        | panic => rw [hs] at h; simp at h
    | message mi =>
      simp only [implKnownField, hsh, hel] at h
      split at h
      · simp at h
      · cases hr : readLenDelim rest with
        | ok a =>
          obtain ⟨p, r⟩ := a
          rw [hr] at h
          simp only [] at h
          split at h
          · rename_i v hcv
            simp only [Res.ok.injEq, Prod.mk.injEq] at h
            obtain ⟨rfl, _⟩ := h
            have hone := ((GS_oneof S hsh).1 hcur).2
            have hgv : GoodAll S mi v := by
              refine hc _ _ _ _ ?_ hcv
              split
              · rename_i x hx
                have := hone x hx
                rw [hel] at this
                exact goodAll_target hS mi (Or.inr this)
              · exact goodAll_emptyMsg S hS mi
            exact hset v (by rw [hel]; exact hgv)
          · simp at h
          · simp at h
        | err e => rw [hr] at h; simp at h
        | panic => rw [hr] at h; simp at h
  | map kk =>
    have hents := (GS_map S hsh).1 hcur
    simp only [implKnownField, hsh] at h
    split at h
    · simp at h
    · cases hv : readVarint rest with
      | ok a =>
        obtain ⟨n, r⟩ := a
        rw [hv] at h
        simp only [] at h
        split at h
        · simp at h
        · split at h
          · simp at h
          · cases he : implEntryLoop c S kk f.elem n (r.take n) n (Elem.zeroVar (.scalar kk)) f.elem.zeroVar with
            | ok q =>
              obtain ⟨k', v'⟩ := q
              rw [he] at h
              simp only [Res.ok.injEq, Prod.mk.injEq] at h
              obtain ⟨rfl, _⟩ := h
              have hz : f.elem.zeroVar.isNone = true ∨ GE S f.elem f.elem.zeroVar := by
                cases hel : f.elem with
                | scalar k => exact Or.inr ((GE_scalar S).2 (rangeOK_zeroVar k))
                | message mi => exact Or.inl rfl
              obtain ⟨hk', hv'⟩ := implEntryLoop_good hS hc kk f.elem _ _ _ _ _ _ _ (rangeOK_zeroVar kk) hz he
              have hput : ∀ vv, GE S f.elem vv →
                  LvlGood S i (m.setSlot j (.map true (mapPut (kbeqOf kk) (m.slot j).elems k' vv))) := by
                intro vv hvv
                refine lvlGood_setSlot hf hm ((GS_map S hsh).2 ?_)
                exact mapPut_prop (kbeqOf kk) (m.slot j).elems k' vv
                  (fun en => rangeOK kk en.key = true ∧ GE S f.elem en.value) hents ⟨hk', hvv⟩
              apply hput
              split
              · rename_i mi hmi
                rw [hmi] at hv'
                have := goodAll_target hS mi hv'
                rw [hmi]; exact this
              · rename_i k hk
                rw [hk] at hv' ⊢
                rcases hv' with hn | hg
                · -- a scalar map value is never nil
                  exact (GE_scalar S).2 (by
                    cases v' <;> simp [Val.isNone] at hn
                    cases k <;> rfl)
                · exact hg
            | err e => rw [he] at h; simp at h
            | panic => rw [he] at h; simp at h
      | err e => rw [hv] at h; simp at h
      | panic => rw [hv] at h; simp at h

theorem implUnmarshalLoop_good (hS : NoPackedMsg S) (hc : ChildGood S c) (i : Nat) (o : UOpts) :
    ∀ (fuel : Nat) (m : Val) (rest : Bytes) (v : Val), LvlGood S i m →
      implUnmarshalLoop S i o c fuel m rest = .ok v → LvlGood S i v := by
  intro fuel
  induction fuel with
  | zero =>
    intro m rest v hm h
    simp only [implUnmarshalLoop, Res.ok.injEq] at h
    subst h; exact hm
  | succ fuel ih =>
    intro m rest v hm h
    rw [implUnmarshalLoop] at h
    split at h
    · simp only [Res.ok.injEq] at h; subst h; exact hm
    · cases hv : readVarint rest with
      | err e => rw [hv] at h; simp at h
      | panic => rw [hv] at h; simp at h
      | ok a =>
        obtain ⟨wire, r⟩ := a
        rw [hv] at h
        simp only [] at h
        split at h
        · simp at h
        · split at h
          · simp at h
          · split at h
            · rename_i j f hf
              cases hk : implKnownField S (S.msg i).fields c j f (wire % 8) m r with
              | ok q =>
                obtain ⟨m', r'⟩ := q
                rw [hk] at h
                simp only [] at h
                have hm' := implKnownField_good hS hc (findField_getElem? hf) hm hk
                split at h
                · exact ih _ _ _ hm' h
                · simp only [Res.ok.injEq] at h; subst h; exact hm'
              | err e => rw [hk] at h; simp at h
              | panic => rw [hk] at h; simp at h
            · cases hs : skip rest with
              | ok n =>
                rw [hs] at h
                simp only [] at h
                split at h
                · simp at h
                · cases hsl : sliceTo rest n with
                  | ok raw =>
                    rw [hsl] at h
                    simp only [] at h
                    have hm' : LvlGood S i (if o.discard = true then m else Val.msg m.slots (m.unknown ++ raw)) := by
                      split
                      · exact hm
                      · exact lvlGood_unknown hm _
                    split at h
                    · simp only [Res.ok.injEq] at h; subst h; exact hm'
                    · exact ih _ _ _ hm' h
                  | err e => rw [hsl] at h; simp at h
                  | panic => rw [hsl] at h; simp at h
              | err e => rw [hs] at h; simp at h
              | panic => rw [hs] at h; simp at h

end dec

theorem implUnmarshalClosure_good (S : Schema) (hS : NoPackedMsg S) (o : UOpts) : ∀ (fuel : Nat) (depth : Int),
    ChildGood S (implUnmarshalClosure S o fuel depth) := by
  intro fuel
  induction fuel with
  | zero =>
    intro depth i into p v hi h
    simp only [implUnmarshalClosure, Res.ok.injEq] at h
    subst h; exact hi
  | succ fuel ih =>
    intro depth i into p v hi h
    rw [implUnmarshalClosure] at h
    split at h
    · simp only [Res.ok.injEq] at h; subst h; exact hi
    · rename_i hn
      split at h
      · simp at h
      · exact goodAll_of_lvl S (implUnmarshalLoop_good hS (ih _) i o _ _ _ _
          (lvl_of_goodAll S (by simpa using hn) hi) h)

theorem noPackedMsg_of_WF (S : Schema) (h : S.WF = true) : NoPackedMsg S := by
  intro i f hf hsh
  unfold Schema.msg at hf
  rw [List.getD_eq_getElem?_getD] at hf
  cases hi : S.msgs[i]? with
  | none => rw [hi] at hf; simp at hf
  | some md =>
    rw [hi] at hf
    simp only [Option.getD_some] at hf
    have hmd := List.mem_of_getElem? hi
    unfold Schema.WF at h
    rw [List.all_eq_true] at h
    have h1 := h md hmd
    unfold MsgDesc.wf at h1
    simp only [Bool.and_eq_true, List.all_eq_true] at h1
    have h2 := h1.1 f hf
    unfold FieldDesc.wf at h2
    simp only [Bool.and_eq_true] at h2
    have h3 := h2.2
    rw [hsh] at h3
    cases hel : f.elem with
    | scalar k => exact ⟨k, rfl⟩
    | message mi => rw [hel] at h3; simp at h3

/-- `proto.Marshal` (any options whose map order is a sub-multiset of the entries, any fuel) of a
    message `proto.Unmarshal` accepted into a fresh target does not panic, for schemas without packed
    message fields. -/
theorem implMarshal_decoded_ne_panic (S : Schema) (hS : NoPackedMsg S) (o : UOpts) (i : Nat) (bs : Bytes) (v : Val)
    (mo : MOpts) (hperm : mo.det = false → ∀ l x, x ∈ mo.perm l → x ∈ l) (fuel : Nat)
    (h : implUnmarshal S o i (emptyMsg S i) bs = .ok v) : implMarshal S mo fuel i v ≠ .panic := by
  intro hp
  have hnn := implUnmarshal_ok_noNil h
  have hp' := implMarshal_panic_of_noNil hnn hp
  have hg := implUnmarshalClosure_good S hS o _ _ _ _ _ _ (goodAll_emptyMsg S hS i) (implUnmarshal_ok_closure h)
  obtain ⟨b, hb, _⟩ := marshalClosure_ok S mo hperm fuel i v (hg fuel)
  rw [hb] at hp'
  cases hp'

/-- and `proto.Size` agrees with the number of bytes written -/
theorem implMarshal_decoded_size (S : Schema) (hS : NoPackedMsg S) (o : UOpts) (i : Nat) (bs : Bytes) (v : Val)
    (mo : MOpts) (hperm : mo.det = false → ∀ l x, x ∈ mo.perm l → x ∈ l) (fuel : Nat)
    (h : implUnmarshal S o i (emptyMsg S i) bs = .ok v) :
    ∃ b, implMarshal S mo fuel i v = .ok b ∧ b.length = implSize S mo fuel i v := by
  have hnn := implUnmarshal_ok_noNil h
  have hg := implUnmarshalClosure_good S hS o _ _ _ _ _ _ (goodAll_emptyMsg S hS i) (implUnmarshal_ok_closure h)
  obtain ⟨b, hb, hl⟩ := marshalClosure_ok S mo hperm fuel i v (hg fuel)
  refine ⟨b, ?_, hl⟩
  unfold implMarshal
  rw [hb, walkPanics_noNil S _ _ _ hnn]
  simp

end Pulsar.PU
