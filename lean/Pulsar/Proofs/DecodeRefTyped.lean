/-
  Well-typed junk-free values (`msgOK S false`) are non-nil messages on which the
  `checkInitialized` walk does not panic.
-/
import Pulsar.Proofs.DecodeRefWalk
namespace Pulsar

theorem msgOK_isMsg {S : Schema} {junk : Bool} {n i : Nat} {v : Val}
    (h : msgOK S junk n i v = true) : ∃ s u, v = .msg s u := by
  cases n with
  | zero => simp [msgOK] at h
  | succ n =>
    unfold msgOK msgOKLvl at h
    cases v <;> simp at h
    exact ⟨_, _, rfl⟩

theorem msgOK_noPanic {S : Schema} {n i : Nat} {v : Val} (_h : msgOK S false n i v = true) :
    NoPanic S i v := noPanic_all S i v

end Pulsar
