/-
  Pulsar.Proofs.DecodeNoNil — the decoder never creates a typed-nil oneof wrapper (`.oneNil`),
  hence protobuf-go's initialisation walk over a decoded message cannot panic (C06_no_panic).
-/
import Pulsar.Proofs.DecodeFuel
namespace Pulsar

mutual
/-- no `.oneNil` anywhere inside the value -/
def Val.noNil : Val → Bool
  | .oneNil => false
  | .msg s _ => Val.noNilList s
  | .list _ e => Val.noNilList e
  | .map _ e => Val.noNilList e
  | .entry k v => k.noNil && v.noNil
  | .one v => v.noNil
  | .bits _ => true
  | .blob _ _ => true
  | .none => true
def Val.noNilList : List Val → Bool
  | [] => true
  | v :: vs => v.noNil && Val.noNilList vs
end

theorem Val.noNilList_eq_all (l : List Val) : Val.noNilList l = l.all Val.noNil := by
  induction l with
  | nil => simp [Val.noNilList]
  | cons a l ih => simp [Val.noNilList, ih]

theorem Val.noNilList_iff (l : List Val) : Val.noNilList l = true ↔ ∀ x ∈ l, x.noNil = true := by
  rw [Val.noNilList_eq_all]; simp

theorem Val.noNil_slots {m : Val} (h : m.noNil = true) : Val.noNilList m.slots = true := by
  cases m <;> simp_all [Val.noNil, Val.slots, Val.noNilList]

theorem Val.noNil_elems {m : Val} (h : m.noNil = true) : Val.noNilList m.elems = true := by
  cases m <;> simp_all [Val.noNil, Val.elems, Val.noNilList]

theorem Val.noNil_value {m : Val} (h : m.noNil = true) : m.value.noNil = true := by
  cases m <;> simp_all [Val.noNil, Val.value]

theorem Val.noNil_slot {m : Val} (h : m.noNil = true) (j : Nat) : (m.slot j).noNil = true := by
  have := (Val.noNilList_iff _).1 (Val.noNil_slots h)
  unfold Val.slot
  rw [List.getD_eq_getElem?_getD]
  cases hj : m.slots[j]? with
  | none => simp [Val.noNil]
  | some x => simp only [Option.getD_some]; exact this x (List.mem_of_getElem? hj)

theorem Val.noNil_setSlot {m v : Val} (hm : m.noNil = true) (hv : v.noNil = true) (j : Nat) :
    (m.setSlot j v).noNil = true := by
  cases m with
  | msg s u =>
    simp only [Val.setSlot, Val.noNil]
    simp only [Val.noNil] at hm
    rw [Val.noNilList_iff] at hm ⊢
    intro x hx
    rcases List.mem_or_eq_of_mem_set hx with h | h
    · exact hm x h
    · subst h; exact hv
  | _ => simpa [Val.setSlot] using hm

theorem noNil_msg_unknown {s : List Val} {u u' : Bytes} (h : (Val.msg s u).noNil = true) :
    (Val.msg s u').noNil = true := by
  simpa [Val.noNil] using h

theorem noNil_clearGroup (fs : List FieldDesc) (g : Nat) (slots : List Val)
    (h : Val.noNilList slots = true) : Val.noNilList (clearGroup fs g slots) = true := by
  rw [Val.noNilList_iff] at h ⊢
  intro x hx
  simp only [clearGroup, List.mem_map] at hx
  obtain ⟨p, hp, rfl⟩ := hx
  split
  · simp [Val.noNil]
  · exact h _ (List.of_mem_zip hp).2

theorem noNil_mapPut (kbeq : Val → Val → Bool) (es : List Val) (k v : Val)
    (hes : Val.noNilList es = true) (hk : k.noNil = true) (hv : v.noNil = true) :
    Val.noNilList (mapPut kbeq es k v) = true := by
  rw [Val.noNilList_iff] at hes ⊢
  intro x hx
  unfold mapPut at hx
  split at hx
  · simp only [List.mem_map] at hx
    obtain ⟨e, he, rfl⟩ := hx
    split
    · simp [Val.noNil, hk, hv]
    · exact hes e he
  · simp only [List.mem_append, List.mem_singleton] at hx
    rcases hx with h | rfl
    · exact hes x h
    · simp [Val.noNil, hk, hv]

theorem noNil_zero (f : FieldDesc) : f.zero.noNil = true := by
  unfold FieldDesc.zero
  split <;> (try split) <;> simp [Val.noNil, Val.noNilList]

theorem noNil_emptyMsg (S : Schema) (i : Nat) : (emptyMsg S i).noNil = true := by
  simp only [emptyMsg, Val.noNil]
  rw [Val.noNilList_iff]
  intro x hx
  simp only [List.mem_map] at hx
  obtain ⟨f, _, rfl⟩ := hx
  exact noNil_zero f

theorem noNil_zeroVar (e : Elem) : e.zeroVar.noNil = true := by
  unfold Elem.zeroVar
  split <;> (try split) <;> simp [Val.noNil]

theorem noNilList_append {a b : List Val} (ha : Val.noNilList a = true) (hb : Val.noNilList b = true) :
    Val.noNilList (a ++ b) = true := by
  rw [Val.noNilList_iff] at *
  intro x hx
  rcases List.mem_append.1 hx with h | h
  · exact ha x h
  · exact hb x h

/-! ## readers produce nil-free values -/

theorem implReadScalar_noNil {k : Kind} {rest : Bytes} {v : Val} {r : Bytes}
    (h : implReadScalar k rest = .ok (v, r)) : v.noNil = true := by
  cases k <;> simp only [implReadScalar] at h <;> split at h <;>
    simp only [Res.ok.injEq, Prod.mk.injEq, reduceCtorEq] at h
  all_goals
    obtain ⟨rfl, _⟩ := h
    simp [Val.noNil]

theorem implPackedLoop_noNil (k : Kind) : ∀ (fuel : Nat) (rest : Bytes) (rem : Nat) (acc vs : List Val) (r : Bytes),
    Val.noNilList acc = true → implPackedLoop k fuel rest rem acc = .ok (vs, r) → Val.noNilList vs = true := by
  intro fuel
  induction fuel with
  | zero =>
    intro rest rem acc vs r ha h
    simp only [implPackedLoop, Res.ok.injEq, Prod.mk.injEq] at h
    obtain ⟨rfl, _⟩ := h; exact ha
  | succ fuel ih =>
    intro rest rem acc vs r ha h
    rw [implPackedLoop] at h
    split at h
    · simp only [Res.ok.injEq, Prod.mk.injEq] at h
      obtain ⟨rfl, _⟩ := h; exact ha
    · cases hs : implReadScalar k rest with
      | ok a =>
        obtain ⟨v, r0⟩ := a
        rw [hs] at h
        simp only [] at h
        refine ih _ _ _ _ _ (noNilList_append ha ?_) h
        simp [Val.noNilList, implReadScalar_noNil hs]
      | err e => rw [hs] at h; simp at h
      | panic => rw [hs] at h; simp at h

section child
variable {c : Nat → Val → Bytes → Res Val}

/-- the child decoder keeps nil-free targets nil-free -/
def ChildNoNil (c : Nat → Val → Bytes → Res Val) : Prop :=
  ∀ i into p v, into.noNil = true → c i into p = .ok v → v.noNil = true

theorem implReadMapField_noNil (hc : ChildNoNil c) {S : Schema} {e : Elem} {old : Val} {rest : Bytes}
    {v : Val} {r : Bytes} (ho : old.noNil = true)
    (h : implReadMapField c S e old rest = .ok (v, r)) : v.noNil = true := by
  unfold implReadMapField at h
  split at h
  · split at h
    · simp only [] at h
      split at h
      · rename_i hcv
        simp only [Res.ok.injEq, Prod.mk.injEq] at h
        obtain ⟨rfl, _⟩ := h
        refine hc _ _ _ _ ?_ hcv
        split
        · exact noNil_emptyMsg _ _
        · exact ho
      · simp at h
      · simp at h
    · simp at h
    · simp at h
  · exact implReadScalar_noNil h

theorem implEntryLoop_noNil (hc : ChildNoNil c) (S : Schema) (kk : Kind) (e : Elem) :
    ∀ (fuel : Nat) (rest : Bytes) (rem : Nat) (k v k' v' : Val), k.noNil = true → v.noNil = true →
      implEntryLoop c S kk e fuel rest rem k v = .ok (k', v') → k'.noNil = true ∧ v'.noNil = true := by
  intro fuel
  induction fuel with
  | zero =>
    intro rest rem k v k' v' hk hv h
    simp only [implEntryLoop, Res.ok.injEq, Prod.mk.injEq] at h
    obtain ⟨rfl, rfl⟩ := h; exact ⟨hk, hv⟩
  | succ fuel ih =>
    intro rest rem k v k' v' hk hv h
    rw [implEntryLoop] at h
    split at h
    · simp only [Res.ok.injEq, Prod.mk.injEq] at h
      obtain ⟨rfl, rfl⟩ := h; exact ⟨hk, hv⟩
    · cases hvr : readVarint rest with
      | err e => rw [hvr] at h; simp at h
      | panic => rw [hvr] at h; simp at h
      | ok a =>
        obtain ⟨wire, r⟩ := a
        rw [hvr] at h
        simp only [] at h
        split at h
        · cases hm : implReadMapField c S (.scalar kk) k r with
          | ok b =>
            obtain ⟨k1, r1⟩ := b
            rw [hm] at h
            exact ih _ _ _ _ _ _ (implReadMapField_noNil hc hk hm) hv h
          | err e => rw [hm] at h; simp at h
          | panic => rw [hm] at h; simp at h
        · split at h
          · cases hm : implReadMapField c S e v r with
            | ok b =>
              obtain ⟨v1, r1⟩ := b
              rw [hm] at h
              exact ih _ _ _ _ _ _ hk (implReadMapField_noNil hc hv hm) h
            | err e => rw [hm] at h; simp at h
            | panic => rw [hm] at h; simp at h
          · cases hs : skip rest with
            | ok n =>
              rw [hs] at h
              simp only [] at h
              split at h
              · simp at h
              · exact ih _ _ _ _ _ _ hk hv h
            | err e => rw [hs] at h; simp at h
            | panic => rw [hs] at h; simp at h

theorem noNil_list_snoc {cur v : Val} (nn : Bool) (hc : cur.noNil = true) (hv : v.noNil = true) :
    (Val.list nn (cur.elems ++ [v])).noNil = true := by
  simp only [Val.noNil]
  exact noNilList_append (Val.noNil_elems hc) (by simp [Val.noNilList, hv])

theorem noNil_clear_set {fs : List FieldDesc} {g : Nat} {m v : Val} (j : Nat)
    (hm : m.noNil = true) (hv : v.noNil = true) :
    ((Val.msg (clearGroup fs g m.slots) m.unknown).setSlot j (.one v)).noNil = true := by
  apply Val.noNil_setSlot
  · simp only [Val.noNil]; exact noNil_clearGroup _ _ _ (Val.noNil_slots hm)
  · simpa [Val.noNil] using hv

theorem implKnownField_noNil (hc : ChildNoNil c) {S : Schema} {fs : List FieldDesc} {j : Nat} {f : FieldDesc}
    {wt : Nat} {m : Val} {rest : Bytes} {m' : Val} {r' : Bytes} (hm : m.noNil = true)
    (h : implKnownField S fs c j f wt m rest = .ok (m', r')) : m'.noNil = true := by
  have hcur := Val.noNil_slot hm j
  unfold implKnownField at h
  simp only [] at h
  split at h
  · -- repeated scalar
    rename_i k _ _
    split at h
    · split at h
      · cases hs : implReadScalar k rest with
        | ok a =>
          obtain ⟨v, r⟩ := a
          rw [hs] at h
          simp only [Res.ok.injEq, Prod.mk.injEq] at h
          obtain ⟨rfl, _⟩ := h
          exact Val.noNil_setSlot hm (noNil_list_snoc _ hcur (implReadScalar_noNil hs)) j
        | err e => rw [hs] at h; simp at h
        | panic => rw [hs] at h; simp at h
      · split at h
        · cases hv : readVarint rest with
          | ok a =>
            obtain ⟨n, r⟩ := a
            rw [hv] at h
            simp only [] at h
            split at h
            · simp at h
            · split at h
              · simp at h
              · cases hp : implPackedLoop k n r n [] with
                | ok b =>
                  obtain ⟨vs, r1⟩ := b
                  rw [hp] at h
                  simp only [Res.ok.injEq, Prod.mk.injEq] at h
                  obtain ⟨rfl, _⟩ := h
                  apply Val.noNil_setSlot hm
                  simp only [Val.noNil]
                  exact noNilList_append (Val.noNil_elems hcur)
                    (implPackedLoop_noNil k _ _ _ _ _ _ (by simp [Val.noNilList]) hp)
                | err e => rw [hp] at h; simp at h
                | panic => rw [hp] at h; simp at h
          | err e => rw [hv] at h; simp at h
          | panic => rw [hv] at h; simp at h
        · simp at h
    · split at h
      · simp at h
      · cases hs : implReadScalar k rest with
        | ok a =>
          obtain ⟨v, r⟩ := a
          rw [hs] at h
          simp only [Res.ok.injEq, Prod.mk.injEq] at h
          obtain ⟨rfl, _⟩ := h
          exact Val.noNil_setSlot hm (noNil_list_snoc _ hcur (implReadScalar_noNil hs)) j
        | err e => rw [hs] at h; simp at h
        | panic => rw [hs] at h; simp at h
  · -- repeated message
    rename_i i _ _
    split at h
    · simp at h
    · cases hr : readLenDelim rest with
      | ok a =>
        obtain ⟨p, r⟩ := a
        rw [hr] at h
        simp only [] at h
        cases hcv : c i (emptyMsg S i) p with
        | ok v =>
          rw [hcv] at h
          simp only [Res.ok.injEq, Prod.mk.injEq] at h
          obtain ⟨rfl, _⟩ := h
          exact Val.noNil_setSlot hm (noNil_list_snoc _ hcur (hc _ _ _ _ (noNil_emptyMsg _ _) hcv)) j
        | err e => rw [hcv] at h; simp at h
        | panic => rw [hcv] at h; simp at h
      | err e => rw [hr] at h; simp at h
      | panic => rw [hr] at h; simp at h
  · -- singular scalar
    rename_i k _ _
    split at h
    · simp at h
    · cases hs : implReadScalar k rest with
      | ok a =>
        obtain ⟨v, r⟩ := a
        rw [hs] at h
        simp only [Res.ok.injEq, Prod.mk.injEq] at h
        obtain ⟨rfl, _⟩ := h
        exact Val.noNil_setSlot hm (implReadScalar_noNil hs) j
      | err e => rw [hs] at h; simp at h
      | panic => rw [hs] at h; simp at h
  · -- singular message
    rename_i i _ _
    split at h
    · simp at h
    · cases hr : readLenDelim rest with
      | ok a =>
        obtain ⟨p, r⟩ := a
        rw [hr] at h
        simp only [] at h
        have hinto : (if (m.slot j).isNone then emptyMsg S i else m.slot j).noNil = true := by
          split
          · exact noNil_emptyMsg _ _
          · exact hcur
        cases hcv : c i (if (m.slot j).isNone then emptyMsg S i else m.slot j) p with
        | ok v =>
          rw [hcv] at h
          simp only [Res.ok.injEq, Prod.mk.injEq] at h
          obtain ⟨rfl, _⟩ := h
          exact Val.noNil_setSlot hm (hc _ _ _ _ hinto hcv) j
        | err e => rw [hcv] at h; simp at h
        | panic => rw [hcv] at h; simp at h
      | err e => rw [hr] at h; simp at h
      | panic => rw [hr] at h; simp at h
  · -- oneof scalar
    rename_i g k _ _
    split at h
    · simp at h
    · cases hs : implReadScalar k rest with
      | ok a =>
        obtain ⟨v, r⟩ := a
        rw [hs] at h
        simp only [Res.ok.injEq, Prod.mk.injEq] at h
        obtain ⟨rfl, _⟩ := h
        exact noNil_clear_set j hm (implReadScalar_noNil hs)
      | err e => rw [hs] at h; simp at h
      | panic => rw [hs] at h; simp at h
  · -- oneof message
    rename_i g i _ _
    split at h
    · simp at h
    · cases hr : readLenDelim rest with
      | ok a =>
        obtain ⟨p, r⟩ := a
        rw [hr] at h
        simp only [] at h
        split at h
        · rename_i v hcv
          simp only [Res.ok.injEq, Prod.mk.injEq] at h
          obtain ⟨rfl, _⟩ := h
          refine noNil_clear_set j hm (hc _ _ _ _ ?_ hcv)
          split
          · rename_i x hx
            rw [hx] at hcur
            split
            · exact noNil_emptyMsg _ _
            · simpa [Val.noNil] using hcur
          · exact noNil_emptyMsg _ _
        · simp at h
        · simp at h
      | err e => rw [hr] at h; simp at h
      | panic => rw [hr] at h; simp at h
  · -- map
    rename_i kk _
    split at h
    · simp at h
    · cases hv : readVarint rest with
      | ok a =>
        obtain ⟨n, r⟩ := a
        rw [hv] at h
        simp only [] at h
        split at h
        · simp at h
        · split at h
          · simp at h
          · cases he : implEntryLoop c S kk f.elem n (r.take n) n (Elem.zeroVar (.scalar kk)) f.elem.zeroVar with
            | ok b =>
              obtain ⟨k', v'⟩ := b
              rw [he] at h
              simp only [Res.ok.injEq, Prod.mk.injEq] at h
              obtain ⟨rfl, _⟩ := h
              obtain ⟨hk', hv'⟩ := implEntryLoop_noNil hc S kk f.elem _ _ _ _ _ _ _
                (noNil_zeroVar _) (noNil_zeroVar _) he
              apply Val.noNil_setSlot hm
              simp only [Val.noNil]
              apply noNil_mapPut _ _ _ _ (Val.noNil_elems hcur) hk'
              split
              · split
                · exact noNil_emptyMsg _ _
                · exact hv'
              · exact hv'
            | err e => rw [he] at h; simp at h
            | panic => rw [he] at h; simp at h
      | err e => rw [hv] at h; simp at h
      | panic => rw [hv] at h; simp at h

theorem implUnmarshalLoop_noNil (hc : ChildNoNil c) (S : Schema) (i : Nat) (o : UOpts) :
    ∀ (fuel : Nat) (m : Val) (rest : Bytes) (v : Val), m.noNil = true →
      implUnmarshalLoop S i o c fuel m rest = .ok v → v.noNil = true := by
  intro fuel
  induction fuel with
  | zero =>
    intro m rest v hm h
    simp only [implUnmarshalLoop, Res.ok.injEq] at h
    subst h; exact hm
  | succ fuel ih =>
    intro m rest v hm h
    rw [implUnmarshalLoop] at h
    split at h
    · simp only [Res.ok.injEq] at h; subst h; exact hm
    · cases hv : readVarint rest with
      | err e => rw [hv] at h; simp at h
      | panic => rw [hv] at h; simp at h
      | ok a =>
        obtain ⟨wire, r⟩ := a
        rw [hv] at h
        simp only [] at h
        split at h
        · simp at h
        · split at h
          · simp at h
          · split at h
            · rename_i j f hf
              cases hk : implKnownField S (S.msg i).fields c j f (wire % 8) m r with
              | ok b =>
                obtain ⟨m', r'⟩ := b
                rw [hk] at h
                simp only [] at h
                have hm' := implKnownField_noNil hc hm hk
                split at h
                · exact ih _ _ _ hm' h
                · simp only [Res.ok.injEq] at h; subst h; exact hm'
              | err e => rw [hk] at h; simp at h
              | panic => rw [hk] at h; simp at h
            · cases hs : skip rest with
              | ok n =>
                rw [hs] at h
                simp only [] at h
                split at h
                · simp at h
                · cases hsl : sliceTo rest n with
                  | ok raw =>
                    rw [hsl] at h
                    simp only [] at h
                    have hm' : (if o.discard = true then m else Val.msg m.slots (m.unknown ++ raw)).noNil = true := by
                      split
                      · exact hm
                      · simp only [Val.noNil]; exact Val.noNil_slots hm
                    split at h
                    · simp only [Res.ok.injEq] at h; subst h; exact hm'
                    · exact ih _ _ _ hm' h
                  | err e => rw [hsl] at h; simp at h
                  | panic => rw [hsl] at h; simp at h
              | err e => rw [hs] at h; simp at h
              | panic => rw [hs] at h; simp at h

end child

theorem implUnmarshalClosure_noNil (S : Schema) (o : UOpts) : ∀ (fuel : Nat) (depth : Int),
    ChildNoNil (implUnmarshalClosure S o fuel depth) := by
  intro fuel
  induction fuel with
  | zero =>
    intro depth i into p v hi h
    simp only [implUnmarshalClosure, Res.ok.injEq] at h
    subst h; exact hi
  | succ fuel ih =>
    intro depth i into p v hi h
    rw [implUnmarshalClosure] at h
    split at h
    · simp only [Res.ok.injEq] at h; subst h; exact hi
    · split at h
      · simp at h
      · exact implUnmarshalLoop_noNil (ih _) S i o _ _ _ _ hi h

/-! ## the initialisation walk on nil-free values -/

theorem walkFields_noNil (S : Schema) (fuel : Nat)
    (hw : ∀ i v, v.noNil = true → walkPanics S fuel i v = false) :
    ∀ (l : List (FieldDesc × Val)), (∀ p ∈ l, p.2.noNil = true) → walkFields S fuel l = false := by
  intro l
  induction l with
  | nil => intro _; simp [walkFields]
  | cons p l ih =>
    intro hl
    obtain ⟨f, v⟩ := p
    have hv : v.noNil = true := hl (f, v) (List.mem_cons_self)
    rw [walkFields.eq_def]
    simp only []
    rw [ih (fun q hq => hl q (List.mem_cons_of_mem _ hq))]
    simp only [Bool.or_false]
    split
    · simp [Val.noNil] at hv
    · rw [hw _ _ hv]; simp
    · rename_i x
      exact hw _ _ (by simpa [Val.noNil] using hv)
    · simp only [List.any_eq_false]
      intro x hx
      have := (Val.noNilList_iff _).1 (Val.noNil_elems hv) x hx
      simp [hw _ _ this]
    · simp only [List.any_eq_false]
      intro x hx
      have := (Val.noNilList_iff _).1 (Val.noNil_elems hv) x hx
      simp [hw _ _ (Val.noNil_value this)]
    · rfl

theorem walkPanics_noNil (S : Schema) : ∀ (fuel i : Nat) (v : Val), v.noNil = true → walkPanics S fuel i v = false := by
  intro fuel
  induction fuel with
  | zero => intro i v _; simp [walkPanics]
  | succ fuel ih =>
    intro i v hv
    rw [walkPanics]
    split
    · rfl
    · apply walkFields_noNil S fuel ih
      intro p hp
      exact (Val.noNilList_iff _).1 (Val.noNil_slots hv) _ (List.of_mem_zip hp).2

/-- `proto.Unmarshal` into a fresh target never panics. -/
theorem implUnmarshal_fresh_ne_panic (S : Schema) (o : UOpts) (i : Nat) (bs : Bytes) :
    implUnmarshal S o i (emptyMsg S i) bs ≠ .panic := by
  rw [implUnmarshal_fresh]
  cases hc : implUnmarshalClosure S o (bs.length + 1) 10000 i (emptyMsg S i) bs with
  | ok v =>
    simp only []
    rw [walkPanics_noNil S _ _ _ (implUnmarshalClosure_noNil S o _ _ _ _ _ _ (noNil_emptyMsg S i) hc)]
    simp
  | err e => simp
  | panic => exact absurd hc (implUnmarshalClosure_ne_panic _ _ _ _ _ _ _)

/-- what `proto.Unmarshal` into a fresh target returns is nil-free -/
theorem implUnmarshal_ok_noNil {S : Schema} {o : UOpts} {i : Nat} {bs : Bytes} {v : Val}
    (h : implUnmarshal S o i (emptyMsg S i) bs = .ok v) : v.noNil = true :=
  implUnmarshalClosure_noNil S o _ _ _ _ _ _ (noNil_emptyMsg S i) (implUnmarshal_ok_closure h)

/-- `proto.Marshal` panics only if the marshal closure does, on nil-free values -/
theorem implMarshal_panic_of_noNil {S : Schema} {mo : MOpts} {fuel i : Nat} {v : Val} (hv : v.noNil = true)
    (h : implMarshal S mo fuel i v = .panic) : implMarshalClosure S mo fuel i v = .panic := by
  unfold implMarshal at h
  cases hc : implMarshalClosure S mo fuel i v with
  | ok b => rw [hc, walkPanics_noNil S _ _ _ hv] at h; simp at h
  | err e => rw [hc] at h; simp at h
  | panic => rfl

/-- `proto.Unmarshal` into a fresh message returns what the closure returns -/
theorem implUnmarshal_fresh_of_closure {S : Schema} {o : UOpts} {i : Nat} {bs : Bytes} {v : Val}
    (h : implUnmarshalClosure S o (bs.length + 1) 10000 i (emptyMsg S i) bs = .ok v) :
    implUnmarshal S o i (emptyMsg S i) bs = .ok v := by
  rw [implUnmarshal_fresh, h]
  simp only []
  rw [walkPanics_noNil S _ _ _ (implUnmarshalClosure_noNil S o _ _ _ _ _ _ (noNil_emptyMsg S i) h)]
  simp

end Pulsar
