/-
  Pulsar.Proofs.GoSrcBase — shared by the lemmas that relate the functions translated from the Go source on every
  run (`Pulsar/ExtractedFns.lean`, namespace `Pulsar.Xf`, written by /verif/tools/go2lean) to the hand-written
  models. Straight-line functions are closed by one generic tactic (`go_cases`: split every `if`, then linear integer
  arithmetic), so a rewrite of the source inside the translated fragment that computes the same function still
  proves; loops need an induction each. One file per function group, so that a function the translator cannot
  handle takes only its own group out of the build.
-/
import Pulsar.GoSem
import Pulsar.Proofs.Timepb
namespace Pulsar
open Pulsar

/-- closes goals `translated = model` after unfolding: case split on every `if`, then arithmetic -/
macro "go_cases" : tactic => `(tactic| (repeat' split) <;> (try simp_all) <;> (try omega))

theorem Res.bind_assoc' {α β γ : Type} (r : Res α) (f : α → Res β) (g : β → Res γ) :
    (r >>= f) >>= g = r >>= fun a => f a >>= g := by
  cases r <;> rfl

end Pulsar
