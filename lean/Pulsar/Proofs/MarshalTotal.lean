/-
  Pulsar.Proofs.MarshalTotal — the generated marshal closure does not panic on values whose scalars are
  in range and that hold no typed-nil oneof wrapper: every field chunk is exactly as long as the size
  closure predicted, so the back-filled buffer never underflows. (Used for C06_post_usable; kept in
  its own namespace so that it cannot clash with the encoder proofs.)
-/
import Pulsar.Typing
import Pulsar.Proofs.Runtime
namespace Pulsar.PU
open Pulsar

/-! ## scalars -/

/-- the two kinds whose size expression and marshal bytes only agree on in-range bit patterns -/
def rangeOK (k : Kind) (v : Val) : Bool :=
  match k with
  | .sint32 => decide (v.getBits < 4294967296)
  | .sint64 => decide (v.getBits < 18446744073709551616)
  | _ => true

theorem le_length (w n : Nat) : (le w n).length = w := by
  induction w generalizing n with
  | zero => rfl
  | succ w ih => simp [le, ih]

theorem zigzag_sext32 (n : Nat) (h : n < 4294967296) : zigzag64 (sext32 n) = zigzag32 n := by
  unfold zigzag64 sext32 zigzag32
  split <;> split <;> omega

theorem scalar_length (k : Kind) (v : Val) (h : rangeOK k v = true) :
    (implScalarBytes k v).length = implScalarSize k v := by
  cases k <;> simp only [implScalarBytes, implScalarSize, fixed64, fixed32, le_length,
    sov_eq_varint_length, List.length_append, List.length_cons, List.length_nil]
  · -- sint32
    simp only [rangeOK, decide_eq_true_eq] at h
    rw [soz_eq_varint_length _ (by unfold sext32; split <;> omega), zigzag_sext32 _ h]
  · -- sint64
    simp only [rangeOK, decide_eq_true_eq] at h
    rw [soz_eq_varint_length _ h]
  · omega
  · omega

/-! ## keys -/

theorem keySizeLoop_eq (x : Nat) : keySizeLoop x = (keyBytesLoop x).length := by
  induction x using Nat.strongRecOn with
  | ind x ih =>
    rw [keySizeLoop, keyBytesLoop]
    split
    · rename_i h
      simp only [List.length_cons]
      rw [ih (x / 128) (by omega)]
    · rfl

theorem keySize_eq (num wt : Nat) : keySize num wt = (keyBytes num wt).length :=
  keySizeLoop_eq _

/-! ## elements and fields, relative to a child encoder/sizer pair -/

section level
variable (o : MOpts) (childEnc : Nat → Val → Res Bytes) (childSize : Nat → Val → Nat)

/-- the child encoder succeeds on `v` and writes exactly as many bytes as the child sizer says -/
def ChildOK (i : Nat) (v : Val) : Prop := ∃ b, childEnc i v = .ok b ∧ b.length = childSize i v

def ElemOK (e : Elem) (v : Val) : Prop :=
  match e with
  | .scalar k => rangeOK k v = true
  | .message i => ChildOK childEnc childSize i v

theorem elem_ok {e : Elem} {v : Val} (h : ElemOK childEnc childSize e v) :
    ∃ b, implElemBytes childEnc e v = .ok b ∧ b.length = implElemSize childSize e v := by
  cases e with
  | scalar k => exact ⟨_, rfl, scalar_length k v h⟩
  | message i =>
    obtain ⟨b, hb, hl⟩ := h
    refine ⟨varint b.length ++ b, by simp [implElemBytes, hb], ?_⟩
    simp only [implElemSize, List.length_append, sov_eq_varint_length, hl]
    omega

theorem concatRes_ok {α : Type} (F : α → Res Bytes) (G : α → Nat) :
    ∀ (xs : List α), (∀ x ∈ xs, ∃ b, F x = .ok b ∧ b.length = G x) →
      ∃ bs, concatRes (xs.map F) = .ok bs ∧ bs.length = (xs.map G).sum := by
  intro xs
  induction xs with
  | nil => intro _; exact ⟨[], rfl, rfl⟩
  | cons x xs ih =>
    intro h
    obtain ⟨b, hb, hl⟩ := h x List.mem_cons_self
    obtain ⟨bs, hbs, hls⟩ := ih (fun y hy => h y (List.mem_cons_of_mem _ hy))
    refine ⟨b ++ bs, ?_, ?_⟩
    · simp [concatRes, hb, hbs]
    · simp [hl, hls]

theorem flatten_length_map {α : Type} (F : α → Bytes) (G : α → Nat) (xs : List α)
    (h : ∀ x ∈ xs, (F x).length = G x) : (xs.map F).flatten.length = (xs.map G).sum := by
  induction xs with
  | nil => rfl
  | cons x xs ih =>
    simp only [List.map_cons, List.flatten_cons, List.length_append, List.sum_cons]
    rw [h x List.mem_cons_self, ih (fun y hy => h y (List.mem_cons_of_mem _ hy))]

/-- what a slot must satisfy for its field chunk to come out as long as its size term -/
def FieldOK (f : FieldDesc) (v : Val) : Prop :=
  match f.shape with
  | .singular => v.isNone = true ∨ ElemOK childEnc childSize f.elem v
  | .oneof _ => v ≠ .oneNil ∧ ∀ x, v = .one x → ElemOK childEnc childSize f.elem x
  | .repeated pk => (pk = true → ∃ k, f.elem = .scalar k) ∧ ∀ x ∈ v.elems, ElemOK childEnc childSize f.elem x
  | .map kk => ∀ en ∈ v.elems, rangeOK kk en.key = true ∧ ElemOK childEnc childSize f.elem en.value

theorem mem_insertBy {lt : Val → Val → Bool} {x y : Val} {l : List Val} (h : y ∈ insertBy lt x l) :
    y = x ∨ y ∈ l := by
  induction l with
  | nil => simp [insertBy] at h; exact Or.inl h
  | cons a l ih =>
    simp only [insertBy] at h
    split at h
    · rcases List.mem_cons.1 h with h | h
      · exact Or.inl h
      · exact Or.inr h
    · rcases List.mem_cons.1 h with h | h
      · exact Or.inr (h ▸ List.mem_cons_self)
      · rcases ih h with h | h
        · exact Or.inl h
        · exact Or.inr (List.mem_cons_of_mem _ h)

theorem mem_sortBy {lt : Val → Val → Bool} {y : Val} {l : List Val} (h : y ∈ sortBy lt l) : y ∈ l := by
  induction l with
  | nil => simp [sortBy] at h
  | cons a l ih =>
    simp only [sortBy] at h
    rcases mem_insertBy h with h | h
    · exact h ▸ List.mem_cons_self
    · exact List.mem_cons_of_mem _ (ih h)

theorem entry_ok (hsz0 : ∀ i v, v.isNone = true → childSize i v = 0) (num : Nat) (kk : Kind) (e : Elem) (en : Val)
    (hk : rangeOK kk en.key = true) (hv : ElemOK childEnc childSize e en.value) :
    ∃ b, implEntryBytes childEnc num kk e en = .ok b ∧ b.length = implEntrySize childSize num kk e en := by
  obtain ⟨vb, hvb, hvl⟩ := elem_ok childEnc childSize hv
  refine ⟨keyBytes num Extracted.messageWireType ++
      varint (keyBytes 1 (Extracted.wireType kk) ++ implScalarBytes kk en.key ++ keyBytes 2 e.wireType ++ vb).length ++
      (keyBytes 1 (Extracted.wireType kk) ++ implScalarBytes kk en.key ++ keyBytes 2 e.wireType ++ vb),
    by simp only [implEntryBytes, hvb], ?_⟩
  have hkl := scalar_length kk en.key hk
  cases e with
  | scalar k =>
    simp only [implElemSize] at hvl
    simp only [implEntrySize, List.length_append, ← keySize_eq, hkl, hvl, sov_eq_varint_length, Elem.wireType,
      Extracted.messageWireType, Nat.add_assoc]
    omega
  | message i =>
    simp only [implElemSize] at hvl
    by_cases hn : en.value.isNone = true
    · have h0 := hsz0 i _ hn
      rw [h0] at hvl
      simp only [implEntrySize, hn, if_true, List.length_append, ← keySize_eq, hkl, hvl, sov_eq_varint_length,
        Elem.wireType, Extracted.messageWireType]
      simp only [Nat.zero_add, Nat.add_assoc, Nat.add_comm, Nat.add_left_comm]
    · simp only [implEntrySize, hn, Bool.false_eq_true, if_false, List.length_append, ← keySize_eq, hkl, hvl,
        sov_eq_varint_length, Elem.wireType, Extracted.messageWireType]
      simp only [Nat.add_assoc, Nat.add_comm, Nat.add_left_comm]

theorem field_ok (hsz0 : ∀ i v, v.isNone = true → childSize i v = 0)
    (hperm : o.det = false → ∀ l x, x ∈ o.perm l → x ∈ l)
    {f : FieldDesc} {v : Val} (h : FieldOK childEnc childSize f v) :
    ∃ b, implFieldBytes o childEnc f v = .ok b ∧ b.length = implFieldSize o childSize f v := by
  unfold FieldOK at h
  cases hsh : f.shape with
  | singular =>
    simp only [hsh] at h
    cases hel : f.elem with
    | scalar k =>
      simp only [implFieldBytes, implFieldSize, hsh, hel]
      split
      · rename_i hp
        rcases h with h | h
        · -- a nil in a scalar slot reads as zero / empty: not present
          exfalso
          cases v <;> simp_all [Val.isNone]
          cases k <;> simp [implPresent, Val.getBits, Val.getBlob] at hp
        · rw [hel] at h
          refine ⟨_, rfl, ?_⟩
          simp only [List.length_append, ← keySize_eq, scalar_length k v h, Elem.wireType]
      · exact ⟨[], rfl, rfl⟩
    | message mi =>
      simp only [implFieldBytes, implFieldSize, hsh, hel]
      split
      · exact ⟨[], rfl, rfl⟩
      · rename_i hn
        rcases h with h | h
        · exact absurd h hn
        · rw [hel] at h
          obtain ⟨b, hb, hl⟩ := elem_ok childEnc childSize h
          refine ⟨keyBytes f.num (Elem.message mi).wireType ++ b, by simp only [hb], ?_⟩
          simp only [List.length_append, ← keySize_eq, hl, Elem.wireType]
  | oneof g =>
    simp only [hsh] at h
    obtain ⟨hnil, hone⟩ := h
    simp only [implFieldBytes, implFieldSize, hsh]
    cases v with
    | one x =>
      obtain ⟨b, hb, hl⟩ := elem_ok childEnc childSize (hone x rfl)
      refine ⟨keyBytes f.num f.elem.wireType ++ b, by simp only [hb], ?_⟩
      simp only [List.length_append, ← keySize_eq, hl]
    | oneNil => exact absurd rfl hnil
    | _ => exact ⟨[], rfl, rfl⟩
  | repeated pk =>
    simp only [hsh] at h
    obtain ⟨hpk, hall⟩ := h
    simp only [implFieldBytes, implFieldSize, hsh]
    split
    · exact ⟨[], rfl, rfl⟩
    · cases pk with
      | true =>
        obtain ⟨k, hk⟩ := hpk rfl
        simp only [hk, if_true]
        rw [hk] at hall
        have hbody : (v.elems.map (implScalarBytes k)).flatten.length = (v.elems.map (implScalarSize k)).sum :=
          flatten_length_map _ _ _ (fun x hx => scalar_length k x (hall x hx))
        have hfin : ∀ reserved : Nat, reserved = (v.elems.map (implScalarBytes k)).flatten.length →
            ∃ b, (if reserved = (v.elems.map (implScalarBytes k)).flatten.length
                then Res.ok (keyBytes f.num 2 ++ varint reserved ++ (v.elems.map (implScalarBytes k)).flatten)
                else Res.panic) = Res.ok b ∧
              b.length = keySize f.num 2 + sov (v.elems.map (implElemSize childSize (Elem.scalar k))).sum +
                (v.elems.map (implElemSize childSize (Elem.scalar k))).sum := by
          intro reserved hr
          refine ⟨keyBytes f.num 2 ++ varint reserved ++ (v.elems.map (implScalarBytes k)).flatten, by simp [hr], ?_⟩
          have : (v.elems.map (implElemSize childSize (Elem.scalar k))) = v.elems.map (implScalarSize k) := rfl
          simp only [List.length_append, ← keySize_eq, sov_eq_varint_length, this, ← hbody, hr]
        cases hw : Extracted.wireType k with
        | zero => exact hfin _ hbody.symm
        | succ n => exact hfin _ rfl
      | false =>
        simp only [Bool.false_eq_true, if_false]
        refine concatRes_ok (fun x => match implElemBytes childEnc f.elem x with
            | .ok b => .ok (keyBytes f.num f.elem.wireType ++ b) | .err e => .err e | .panic => .panic)
          (fun x => keySize f.num f.elem.wireType + implElemSize childSize f.elem x) v.elems ?_
        intro x hx
        obtain ⟨b, hb, hl⟩ := elem_ok childEnc childSize (hall x hx)
        exact ⟨keyBytes f.num f.elem.wireType ++ b, by simp only [hb],
          by simp only [List.length_append, ← keySize_eq, hl]⟩
  | map kk =>
    simp only [hsh] at h
    simp only [implFieldBytes, implFieldSize, hsh]
    apply concatRes_ok
    intro en hen
    have hmem : en ∈ v.elems := by
      split at hen
      · exact mem_sortBy hen
      · rename_i hd
        exact hperm (by simpa using hd) _ _ hen
    exact entry_ok childEnc childSize hsz0 f.num kk f.elem en (h en hmem).1 (h en hmem).2

end level

/-! ## the write sequence visits every field exactly once -/

section sums
variable (w : FieldDesc × Val → Nat)

theorem sum_map_reverse {α : Type} (f : α → Nat) (l : List α) : (l.reverse.map f).sum = (l.map f).sum := by
  rw [List.map_reverse, List.sum_reverse]

theorem sum_map_flatMap {α β : Type} (f : β → Nat) (X : α → List β) (gs : List α) :
    ((gs.flatMap X).map f).sum = (gs.map (fun g => ((X g).map f).sum)).sum := by
  induction gs with
  | nil => rfl
  | cons g gs ih => simp [List.flatMap_cons, List.sum_append, ih]

theorem sum_map_add {α : Type} (A B : α → Nat) (l : List α) :
    (l.map (fun g => A g + B g)).sum = (l.map A).sum + (l.map B).sum := by
  induction l with
  | nil => rfl
  | cons a l ih => simp only [List.map_cons, List.sum_cons, ih]; omega

theorem sum_map_zero {α : Type} (l : List α) : (l.map (fun _ => 0)).sum = 0 := by
  induction l with
  | nil => rfl
  | cons a l ih => simp [ih]

theorem sum_indicator (a g0 : Nat) : ∀ (G : List Nat), G.Nodup → g0 ∈ G →
    (G.map (fun g => if g0 = g then a else 0)).sum = a := by
  intro G
  induction G with
  | nil => intro _ h; cases h
  | cons x G ih =>
    intro hnd hmem
    rw [List.nodup_cons] at hnd
    simp only [List.map_cons, List.sum_cons]
    by_cases hx : g0 = x
    · subst hx
      have : (G.map (fun g => if g0 = g then a else 0)) = G.map (fun _ => 0) := by
        apply List.map_congr_left
        intro g hg
        have : g0 ≠ g := fun h => hnd.1 (h ▸ hg)
        simp [this]
      rw [this, sum_map_zero]; simp
    · rcases List.mem_cons.1 hmem with h | h
      · exact absurd h hx
      · simp only [hx, if_false, ih hnd.2 h]; omega

theorem isOneof_of_group {f : FieldDesc} {g : Nat} (h : f.group? = some g) : f.isOneof = true := by
  unfold FieldDesc.group? at h
  unfold FieldDesc.isOneof
  split at h
  · rfl
  · cases h

theorem isOneof_of_group_none {f : FieldDesc} (h : f.group? = none) : f.isOneof = false := by
  unfold FieldDesc.group? at h
  unfold FieldDesc.isOneof
  split at h
  · cases h
  · rfl

theorem sum_groups (G : List Nat) (hnd : G.Nodup) : ∀ (fvs : List (FieldDesc × Val)),
    (∀ p ∈ fvs, ∀ g, p.1.group? = some g → g ∈ G) →
    (G.map (fun g => ((fvs.filter (fun p => p.1.group? == some g)).map w).sum)).sum =
      ((fvs.filter (fun p => p.1.isOneof)).map w).sum := by
  intro fvs
  induction fvs with
  | nil => intro _; simp [sum_map_zero]
  | cons p fvs ih =>
    intro hmem
    have ih' := ih (fun q hq => hmem q (List.mem_cons_of_mem _ hq))
    cases hg : p.1.group? with
    | none =>
      have h1 : ∀ g, (p.1.group? == some g) = false := by intro g; simp [hg]
      simp only [List.filter_cons, h1, isOneof_of_group_none hg, Bool.false_eq_true, if_false]
      exact ih'
    | some g0 =>
      have hin := hmem p List.mem_cons_self g0 hg
      have h1 : ∀ g, ((List.filter (fun q => q.1.group? == some g) (p :: fvs)).map w).sum =
          (if g0 = g then w p else 0) + ((List.filter (fun q => q.1.group? == some g) fvs).map w).sum := by
        intro g
        simp only [List.filter_cons, hg]
        by_cases hgg : g0 = g
        · subst hgg; simp
        · have : (some g0 == some g) = false := by simp [hgg]
          simp [this, hgg]
      simp only [h1, sum_map_add, sum_indicator (w p) g0 G hnd hin, ih']
      simp [isOneof_of_group hg]

theorem sum_filter_split {α : Type} (f : α → Nat) (q : α → Bool) (l : List α) :
    ((l.filter q).map f).sum + ((l.filter (fun x => !q x)).map f).sum = (l.map f).sum := by
  induction l with
  | nil => rfl
  | cons a l ih =>
    simp only [List.filter_cons, List.map_cons, List.sum_cons]
    cases q a <;> simp <;> omega

theorem sum_insertDesc (x : FieldDesc × Val) (l : List (FieldDesc × Val)) :
    ((insertDesc x l).map w).sum = w x + (l.map w).sum := by
  induction l with
  | nil => simp [insertDesc]
  | cons a l ih =>
    simp only [insertDesc]
    split
    · simp
    · simp only [List.map_cons, List.sum_cons, ih]; omega

theorem sum_sortDesc (l : List (FieldDesc × Val)) : ((sortDesc l).map w).sum = (l.map w).sum := by
  induction l with
  | nil => rfl
  | cons a l ih => simp only [sortDesc, sum_insertDesc, ih, List.map_cons, List.sum_cons]

theorem mem_insertDesc {x y : FieldDesc × Val} {l : List (FieldDesc × Val)} (h : y ∈ insertDesc x l) :
    y = x ∨ y ∈ l := by
  induction l with
  | nil => simp [insertDesc] at h; exact Or.inl h
  | cons a l ih =>
    simp only [insertDesc] at h
    split at h
    · rcases List.mem_cons.1 h with h | h
      · exact Or.inl h
      · exact Or.inr h
    · rcases List.mem_cons.1 h with h | h
      · exact Or.inr (h ▸ List.mem_cons_self)
      · rcases ih h with h | h
        · exact Or.inl h
        · exact Or.inr (List.mem_cons_of_mem _ h)

theorem mem_sortDesc {y : FieldDesc × Val} {l : List (FieldDesc × Val)} (h : y ∈ sortDesc l) : y ∈ l := by
  induction l with
  | nil => simp [sortDesc] at h
  | cons a l ih =>
    simp only [sortDesc] at h
    rcases mem_insertDesc h with h | h
    · exact h ▸ List.mem_cons_self
    · exact List.mem_cons_of_mem _ (ih h)

theorem le_foldl_max (l : List Nat) : ∀ (init : Nat), init ≤ l.foldl max init ∧ ∀ g ∈ l, g ≤ l.foldl max init := by
  induction l with
  | nil => intro init; exact ⟨Nat.le_refl _, fun g h => by cases h⟩
  | cons a l ih =>
    intro init
    simp only [List.foldl_cons]
    obtain ⟨h1, h2⟩ := ih (max init a)
    refine ⟨by omega, ?_⟩
    intro g hg
    rcases List.mem_cons.1 hg with rfl | hg
    · omega
    · exact h2 g hg

theorem groupsOf_nodup (fs : List FieldDesc) : (groupsOf fs).Nodup := by
  unfold groupsOf
  exact List.Pairwise.filter _ List.nodup_range

theorem mem_groupsOf {fs : List FieldDesc} {f : FieldDesc} {g : Nat} (hf : f ∈ fs) (hg : f.group? = some g) :
    g ∈ groupsOf fs := by
  unfold groupsOf
  have hmem : g ∈ fs.filterMap FieldDesc.group? := List.mem_filterMap.2 ⟨f, hf, hg⟩
  simp only [List.mem_filter, List.mem_range, List.contains_iff_mem]
  exact ⟨by have := (le_foldl_max (fs.filterMap FieldDesc.group?) 0).2 g hmem; omega, hmem⟩

/-- the fields in the order the marshal closure writes them (after the unknown bytes) -/
def writeOrder (fvs : List (FieldDesc × Val)) : List (FieldDesc × Val) :=
  (groupsOf (fvs.map (·.1))).reverse.flatMap (fun g => (fvs.filter (fun p => p.1.group? == some g)).reverse) ++
    sortDesc (fvs.filter (fun p => !p.1.isOneof))

theorem implWriteSeq_eq (o : MOpts) (childEnc : Nat → Val → Res Bytes) (fvs : List (FieldDesc × Val)) (u : Bytes) :
    implWriteSeq o childEnc fvs u = .ok u :: (writeOrder fvs).map (fun p => implFieldBytes o childEnc p.1 p.2) := by
  simp only [implWriteSeq, writeOrder, List.map_append, List.map_flatMap, List.cons_append, List.nil_append]

theorem mem_writeOrder {fvs : List (FieldDesc × Val)} {p : FieldDesc × Val} (h : p ∈ writeOrder fvs) : p ∈ fvs := by
  unfold writeOrder at h
  rcases List.mem_append.1 h with h | h
  · obtain ⟨g, _, hp⟩ := List.mem_flatMap.1 h
    exact (List.mem_filter.1 (List.mem_reverse.1 hp)).1
  · exact (List.mem_filter.1 (mem_sortDesc h)).1

theorem sum_writeOrder (fvs : List (FieldDesc × Val)) : ((writeOrder fvs).map w).sum = (fvs.map w).sum := by
  unfold writeOrder
  rw [List.map_append, List.sum_append, sum_map_flatMap, sum_map_reverse, sum_sortDesc]
  have h1 : (fun g => ((fvs.filter (fun p => p.1.group? == some g)).reverse.map w).sum) =
      (fun g => ((fvs.filter (fun p => p.1.group? == some g)).map w).sum) := by
    funext g; exact sum_map_reverse w _
  rw [h1, sum_groups w _ (groupsOf_nodup _) fvs ?_, sum_filter_split]
  intro p hp g hg
  exact mem_groupsOf (List.mem_map.2 ⟨p, hp, rfl⟩) hg

end sums

/-! ## one level of the marshal closure -/

theorem writeAll_ok {α : Type} (F : α → Res Bytes) (G : α → Nat) :
    ∀ (xs : List α) (b : BackBuf), (∀ x ∈ xs, ∃ c, F x = .ok c ∧ c.length = G x) → (xs.map G).sum ≤ b.i →
      ∃ b', b.writeAll (xs.map F) = .ok b' ∧ b'.i + b'.suffix.length = b.i + b.suffix.length := by
  intro xs
  induction xs with
  | nil => intro b _ _; exact ⟨b, rfl, rfl⟩
  | cons x xs ih =>
    intro b h hsum
    obtain ⟨c, hc, hl⟩ := h x List.mem_cons_self
    simp only [List.map_cons, List.sum_cons] at hsum
    have hfit : c.length ≤ b.i := by omega
    obtain ⟨b', hb', hinv⟩ := ih ⟨b.i - c.length, c ++ b.suffix⟩
      (fun y hy => h y (List.mem_cons_of_mem _ hy)) (by simp only []; omega)
    refine ⟨b', ?_, ?_⟩
    · simp only [List.map_cons, BackBuf.writeAll, BackBuf.write, hc, hfit, if_true]
      exact hb'
    · simp only [List.length_append] at hinv
      omega

theorem lvl_ok (S : Schema) (i : Nat) (o : MOpts) (childEnc : Nat → Val → Res Bytes) (childSize : Nat → Val → Nat)
    (hsz0 : ∀ i v, v.isNone = true → childSize i v = 0)
    (hperm : o.det = false → ∀ l x, x ∈ o.perm l → x ∈ l) (v : Val)
    (hf : ∀ p ∈ (S.msg i).fields.zip v.slots, FieldOK childEnc childSize p.1 p.2) :
    ∃ b, implMarshalLvl S i o (implSizeLvl S i o childSize v) childEnc v = .ok b ∧
      b.length = implSizeLvl S i o childSize v := by
  unfold implMarshalLvl
  rw [implWriteSeq_eq]
  have hsz : implSizeLvl S i o childSize v =
      (((S.msg i).fields.zip v.slots).map (fun p => implFieldSize o childSize p.1 p.2)).sum + v.unknown.length := rfl
  -- the unknown bytes fit
  have hu : v.unknown.length ≤ implSizeLvl S i o childSize v := by omega
  simp only [BackBuf.writeAll, BackBuf.write, hu, if_true]
  obtain ⟨b', hb', hinv⟩ := writeAll_ok (fun p : FieldDesc × Val => implFieldBytes o childEnc p.1 p.2)
    (fun p => implFieldSize o childSize p.1 p.2) (writeOrder ((S.msg i).fields.zip v.slots))
    ⟨implSizeLvl S i o childSize v - v.unknown.length, v.unknown ++ []⟩
    (fun p hp => field_ok o childEnc childSize hsz0 hperm (hf p (mem_writeOrder hp)))
    (by rw [sum_writeOrder]; simp only []; omega)
  rw [hb']
  refine ⟨_, rfl, ?_⟩
  simp only [List.length_append, List.length_replicate, List.length_nil] at hinv ⊢
  omega

/-! ## the whole tree -/

/-- schema-driven, per marshal fuel: scalars of the zig-zag kinds are in range, no typed-nil oneof
    wrapper, no packed message field. A nil message is fine; fuel `0` marshals nothing. -/
def GElem (child : Nat → Val → Prop) (e : Elem) (v : Val) : Prop :=
  match e with
  | .scalar k => rangeOK k v = true
  | .message i => child i v

def GSlot (child : Nat → Val → Prop) (f : FieldDesc) (v : Val) : Prop :=
  match f.shape with
  | .singular => v.isNone = true ∨ GElem child f.elem v
  | .oneof _ => v ≠ .oneNil ∧ ∀ x, v = .one x → GElem child f.elem x
  | .repeated pk => (pk = true → ∃ k, f.elem = .scalar k) ∧ ∀ x ∈ v.elems, GElem child f.elem x
  | .map kk => ∀ en ∈ v.elems, rangeOK kk en.key = true ∧ GElem child f.elem en.value

def Good (S : Schema) : Nat → Nat → Val → Prop
  | 0, _, _ => True
  | fuel+1, i, v => v.isNone = true ∨ ∀ p ∈ (S.msg i).fields.zip v.slots, GSlot (Good S fuel) p.1 p.2

theorem GSlot_mono {c1 c2 : Nat → Val → Prop} (h : ∀ i v, c1 i v → c2 i v) {f : FieldDesc} {v : Val}
    (hs : GSlot c1 f v) : GSlot c2 f v := by
  have he : ∀ e x, GElem c1 e x → GElem c2 e x := by
    intro e x hx
    cases e with
    | scalar k => exact hx
    | message i => exact h i x hx
  unfold GSlot at hs ⊢
  split
  · rename_i hsh; simp only [hsh] at hs; exact hs.imp id (he _ _)
  · rename_i hsh; simp only [hsh] at hs; exact ⟨hs.1, fun x hx => he _ _ (hs.2 x hx)⟩
  · rename_i hsh; simp only [hsh] at hs; exact ⟨hs.1, fun x hx => he _ _ (hs.2 x hx)⟩
  · rename_i hsh; simp only [hsh] at hs; exact fun en hen => ⟨(hs en hen).1, he _ _ (hs en hen).2⟩

theorem implSize_none (S : Schema) (o : MOpts) (fuel i : Nat) (v : Val) (h : v.isNone = true) :
    implSize S o fuel i v = 0 := by
  cases fuel with
  | zero => rfl
  | succ fuel => simp [implSize, h]

theorem marshalClosure_ok (S : Schema) (o : MOpts) (hperm : o.det = false → ∀ l x, x ∈ o.perm l → x ∈ l) :
    ∀ (fuel i : Nat) (v : Val), Good S fuel i v →
      ∃ b, implMarshalClosure S o fuel i v = .ok b ∧ b.length = implSize S o fuel i v := by
  intro fuel
  induction fuel with
  | zero => intro i v _; exact ⟨[], rfl, rfl⟩
  | succ fuel ih =>
    intro i v hg
    simp only [implMarshalClosure, implSize]
    split
    · exact ⟨[], rfl, rfl⟩
    · rename_i hn
      rcases hg with hg | hg
      · exact absurd hg hn
      · apply lvl_ok S i o (implMarshalClosure S o fuel) (implSize S o fuel) (implSize_none S o fuel) hperm v
        intro p hp
        have := GSlot_mono (c2 := ChildOK (implMarshalClosure S o fuel) (implSize S o fuel)) (fun i' x hx => ih i' x hx)
          (hg p hp)
        exact this

end Pulsar.PU
