/-
  Pulsar.Proofs.DecodeReaders — facts about the primitive readers of the generated closure:
  they never panic (every `sliceTo` is guarded) and every successful read consumes input.
-/
import Pulsar.Typing
import Pulsar.Proofs.Runtime
namespace Pulsar

/-! ## sliceTo -/

theorem sliceTo_of_le {rest : Bytes} {n : Nat} (h : n ≤ rest.length) :
    sliceTo rest n = .ok (rest.take n) := by
  simp [sliceTo, h]

theorem sliceTo_ne_panic_of_le {rest : Bytes} {n : Nat} (h : n ≤ rest.length) :
    sliceTo rest n ≠ .panic := by
  simp [sliceTo, h]

/-! ## readVarint -/

theorem readVarint_ne_panic (bs : Bytes) : readVarint bs ≠ .panic := by
  unfold readVarint
  have := skipReadVarint_ne_panic bs 0 0
  cases h : skipReadVarint 0 0 bs with
  | ok a => simp
  | err e => simp
  | panic => exact absurd h this

theorem readVarint_ok {bs : Bytes} {v : Nat} {r : Bytes} (h : readVarint bs = .ok (v, r)) :
    r.length < bs.length := by
  unfold readVarint at h
  cases hs : skipReadVarint 0 0 bs with
  | ok a =>
    obtain ⟨v', n, r'⟩ := a
    rw [hs] at h
    simp only [Res.ok.injEq, Prod.mk.injEq] at h
    obtain ⟨rfl, rfl⟩ := h
    have := skipReadVarint_count bs 0 0 _ _ _ hs
    omega
  | err e => rw [hs] at h; simp at h
  | panic => rw [hs] at h; simp at h

theorem readVarint_nil : readVarint [] = .err .eof := by
  simp [readVarint, skipReadVarint]

/-! ## readLenDelim -/

/-- normal form of `readLenDelim` without the (unreachable) slice panic. -/
theorem readLenDelim_eq (rest : Bytes) :
    readLenDelim rest =
      match readVarint rest with
      | .ok (n, r) =>
        if n ≥ 9223372036854775808 then .err .invalidLength
        else if n > r.length then .err .eof
        else .ok (r.take n, r.drop n)
      | .err e => .err e
      | .panic => .panic := by
  unfold readLenDelim
  cases h : readVarint rest with
  | ok a =>
    obtain ⟨n, r⟩ := a
    simp only []
    split
    · rfl
    · split
      · rfl
      · rename_i h1 h2
        rw [sliceTo_of_le (by omega)]
  | err e => rfl
  | panic => rfl

theorem readLenDelim_ne_panic (rest : Bytes) : readLenDelim rest ≠ .panic := by
  rw [readLenDelim_eq]
  have := readVarint_ne_panic rest
  cases h : readVarint rest with
  | ok a =>
    obtain ⟨n, r⟩ := a
    simp only []
    split
    · simp
    · split <;> simp
  | err e => simp
  | panic => exact absurd h this

theorem readLenDelim_ok {rest p r : Bytes} (h : readLenDelim rest = .ok (p, r)) :
    p.length + r.length < rest.length := by
  rw [readLenDelim_eq] at h
  cases hv : readVarint rest with
  | ok a =>
    obtain ⟨n, r0⟩ := a
    rw [hv] at h
    simp only [] at h
    have := readVarint_ok hv
    split at h
    · simp at h
    · split at h
      · simp at h
      · simp only [Res.ok.injEq, Prod.mk.injEq] at h
        obtain ⟨rfl, rfl⟩ := h
        simp only [List.length_take, List.length_drop]
        omega
  | err e => rw [hv] at h; simp at h
  | panic => rw [hv] at h; simp at h

/-! ## readFixed -/

theorem readFixed_eq (w : Nat) (rest : Bytes) :
    readFixed w rest = if w > rest.length then .err .eof else .ok (ofLE (rest.take w), rest.drop w) := by
  unfold readFixed
  split
  · rfl
  · rw [sliceTo_of_le (by omega)]

theorem readFixed_ne_panic (w : Nat) (rest : Bytes) : readFixed w rest ≠ .panic := by
  rw [readFixed_eq]; split <;> simp

theorem readFixed_ok {w : Nat} {rest : Bytes} {n : Nat} {r : Bytes} (h : readFixed w rest = .ok (n, r)) :
    r.length + w = rest.length := by
  rw [readFixed_eq] at h
  split at h
  · simp at h
  · simp only [Res.ok.injEq, Prod.mk.injEq] at h
    obtain ⟨_, rfl⟩ := h
    simp only [List.length_drop]; omega

/-! ## implReadScalar -/

theorem implReadScalar_ne_panic (k : Kind) (rest : Bytes) : implReadScalar k rest ≠ .panic := by
  have h8 := readFixed_ne_panic 8 rest
  have h4 := readFixed_ne_panic 4 rest
  have hl := readLenDelim_ne_panic rest
  have hv := readVarint_ne_panic rest
  cases k <;> simp only [implReadScalar] <;> split <;> simp_all

theorem implReadScalar_ok {k : Kind} {rest : Bytes} {v : Val} {r : Bytes}
    (h : implReadScalar k rest = .ok (v, r)) : r.length < rest.length := by
  cases k <;> simp only [implReadScalar] at h <;> split at h <;>
    simp only [Res.ok.injEq, Prod.mk.injEq, reduceCtorEq] at h
  all_goals
    rename_i hr
    obtain ⟨_, rfl⟩ := h
    first
    | (have := readFixed_ok hr; omega)
    | (have := readLenDelim_ok hr; omega)
    | (have := readVarint_ok hr; omega)

/-! ## findField -/

theorem findField_getElem? {fs : List FieldDesc} {num j : Nat} {f : FieldDesc}
    (h : findField fs num = some (j, f)) : fs[j]? = some f := by
  unfold findField at h
  cases hfind : fs.zipIdx.find? (fun p => p.1.num == num) with
  | none => rw [hfind] at h; cases h
  | some p =>
    rw [hfind] at h
    simp only [Option.map_some, Option.some.injEq, Prod.mk.injEq] at h
    obtain ⟨rfl, rfl⟩ := h
    exact List.mem_zipIdx_iff_getElem?.1 (List.mem_of_find?_eq_some hfind)

theorem findField_mem {fs : List FieldDesc} {num j : Nat} {f : FieldDesc}
    (h : findField fs num = some (j, f)) : f ∈ fs :=
  List.mem_of_getElem? (findField_getElem? h)

end Pulsar
