/-
  Pulsar.Proofs.RtWire — wire-level read-back lemmas for the round trip (C01): protowire's readers
  applied to what protowire's writers produced (`varint`, `tag`, `le`, zig-zag), and fuel-independence
  of `consumeValue` / `consumeGroup`.
-/
import Pulsar.Proofs.DecodeRefReaders
import Pulsar.Proofs.EncodeScalar
namespace Pulsar

/-! ### bytes -/

theorem toUInt8_toNat {n : Nat} (h : n < 256) : n.toUInt8.toNat = n := by
  simp [Nat.toUInt8, Nat.mod_eq_of_lt h]

/-! ### varints -/

theorem consumeVarintAux_varint (rest : Bytes) : ∀ (j n k shift acc : Nat), k + j = 9 → n < 2 * 128 ^ j →
    consumeVarintAux k shift acc (varint n ++ rest) = .ok (acc + n * 2 ^ shift, rest) := by
  intro j
  induction j with
  | zero =>
    intro n k shift acc hk hn
    have hk9 : k = 9 := by omega
    have hn2 : n < 2 := by simpa using hn
    rw [varint_lt_128 (by omega)]
    simp only [List.cons_append, List.nil_append, consumeVarintAux, hk9, if_true,
      toUInt8_toNat (show n < 256 by omega), hn2]
  | succ j ih =>
    intro n k shift acc hk hn
    have hk9 : k ≠ 9 := by omega
    by_cases h128 : n < 128
    · rw [varint_lt_128 h128]
      simp only [List.cons_append, List.nil_append, consumeVarintAux, hk9, if_false,
        toUInt8_toNat (show n < 256 by omega), h128, if_true]
    · have hge : 128 ≤ n := by omega
      rw [varint_ge_128 hge]
      have hb : (n % 128 + 128).toUInt8.toNat = n % 128 + 128 := toUInt8_toNat (by omega)
      simp only [List.cons_append, consumeVarintAux, hk9, if_false, hb]
      rw [if_neg (by omega)]
      have hdiv : n / 128 < 2 * 128 ^ j := by
        rw [Nat.div_lt_iff_lt_mul (by omega)]
        rw [Nat.pow_succ] at hn
        omega
      rw [ih (n / 128) (k + 1) (shift + 7) _ (by omega) hdiv]
      have e1 : n % 128 + 128 - 128 = n % 128 := by omega
      have e2 : (2 : Nat) ^ (shift + 7) = 128 * 2 ^ shift := by
        rw [Nat.pow_add]; simp [Nat.mul_comm]
      rw [e1, e2]
      have e3 : n / 128 * (128 * 2 ^ shift) = (128 * (n / 128)) * 2 ^ shift := by
        rw [← Nat.mul_assoc, Nat.mul_comm (n / 128) 128]
      have e4 : n * 2 ^ shift = (128 * (n / 128) + n % 128) * 2 ^ shift := by
        rw [Nat.div_add_mod]
      rw [e3, e4, Nat.add_mul]
      simp only [Res.ok.injEq, Prod.mk.injEq, and_true]
      omega

theorem consumeVarint_varint {n : Nat} (h : n < 18446744073709551616) (rest : Bytes) :
    consumeVarint (varint n ++ rest) = .ok (n, rest) := by
  unfold consumeVarint
  rw [consumeVarintAux_varint rest 9 n 0 0 0 (by omega) (by simpa using h)]
  simp

theorem consumeTag_tag {num wt : Nat} (h1 : 1 ≤ num) (h2 : num < 536870912) (hw : wt < 8) (rest : Bytes) :
    consumeTag (tag num wt ++ rest) = .ok (num, wt, rest) := by
  unfold tag
  have := consumeTag_of_varint (consumeVarint_varint (n := num * 8 + wt) (by omega) rest)
    (by omega) (by omega)
  rw [this]
  have e1 : (num * 8 + wt) / 8 = num := by omega
  have e2 : (num * 8 + wt) % 8 = wt := by omega
  rw [e1, e2]

theorem varint_ne_nil (n : Nat) : varint n ≠ [] := by
  rw [varint]; split <;> simp

theorem varint_length_pos (n : Nat) : 0 < (varint n).length :=
  List.length_pos_iff.2 (varint_ne_nil n)

theorem tag_length_pos (num wt : Nat) : 0 < (tag num wt).length := varint_length_pos _

/-! ### fixed-width -/

theorem ofLE_le : ∀ (w n : Nat), ofLE (le w n) = n % 256 ^ w
  | 0, n => by simp [le, ofLE, Nat.mod_one]
  | w+1, n => by
    simp only [le, ofLE, ofLE_le w, toUInt8_toNat (Nat.mod_lt n (by omega : 256 > 0))]
    rw [Nat.pow_succ, Nat.mul_comm (256 ^ w) 256, Nat.mod_mul]

theorem ofLE_le_of_lt {w n : Nat} (h : n < 256 ^ w) : ofLE (le w n) = n := by
  rw [ofLE_le, Nat.mod_eq_of_lt h]

theorem take_le_append (w n : Nat) (rest : Bytes) : (le w n ++ rest).take w = le w n := by
  rw [List.take_append_of_le_length (by rw [length_le]; exact Nat.le_refl _)]
  rw [List.take_of_length_le (by rw [length_le]; exact Nat.le_refl _)]

theorem drop_le_append (w n : Nat) (rest : Bytes) : (le w n ++ rest).drop w = rest := by
  have h := List.drop_left (l₁ := le w n) (l₂ := rest)
  rwa [length_le] at h

theorem take_append_length {α} (a b : List α) : (a ++ b).take a.length = a := List.take_left

theorem drop_append_length {α} (a b : List α) : (a ++ b).drop a.length = b := List.drop_left

/-! ### zig-zag -/

theorem unzigzag64_zigzag64 {n : Nat} (h : n < 18446744073709551616) : unzigzag64 (zigzag64 n) = n := by
  unfold unzigzag64 zigzag64
  split <;> split <;> omega

theorem zigzag64_lt {n : Nat} (h : n < 18446744073709551616) : zigzag64 n < 18446744073709551616 := by
  unfold zigzag64; split <;> omega

theorem unzigzag32_zigzag {n : Nat} (h : n < 4294967296) :
    unzigzag32 (zigzag64 (sext32 n) % 4294967296) = n := by
  unfold unzigzag32 zigzag64 sext32
  split <;> split <;> split <;> omega

theorem sext32_mod {n : Nat} (h : n < 4294967296) : sext32 n % 4294967296 = n := by
  unfold sext32; split <;> omega

/-! ### `consumeValue` / `consumeGroup` do not depend on the fuel once it suffices -/

theorem consume_mono (f : Nat) :
    (∀ f' d num typ (p r : Bytes), f ≤ f' → consumeValue f d num typ p = .ok r →
      consumeValue f' d num typ p = .ok r) ∧
    (∀ f' d num (p r : Bytes), f ≤ f' → consumeGroup f d num p = .ok r →
      consumeGroup f' d num p = .ok r) := by
  induction f with
  | zero =>
    exact ⟨fun f' d num typ p r _ h => by simp [consumeValue] at h,
           fun f' d num p r _ h => by simp [consumeGroup] at h⟩
  | succ f ih =>
    obtain ⟨ihV, ihG⟩ := ih
    refine ⟨?_, ?_⟩
    · intro f' d num typ p r hf h
      obtain ⟨g, rfl⟩ : ∃ g, f' = g + 1 := ⟨f' - 1, by omega⟩
      rw [consumeValue] at h ⊢
      by_cases h3 : typ = 3
      · subst h3
        simp only [show ¬ (3 = 0) by decide, show ¬ (3 = 5) by decide, show ¬ (3 = 1) by decide,
          show ¬ (3 = 2) by decide, if_false, if_true] at h ⊢
        split at h
        · simp at h
        · rename_i hd
          rw [if_neg hd]
          exact ihG _ _ _ _ _ (by omega) h
      · simp only [h3, if_false] at h ⊢
        exact h
    · intro f' d num p r hf h
      obtain ⟨g, rfl⟩ : ∃ g, f' = g + 1 := ⟨f' - 1, by omega⟩
      rw [consumeGroup] at h ⊢
      split at h
      · rename_i num2 typ2 rest ht
        split at h
        · rename_i h4; simp only [h4, if_true] at h ⊢; exact h
        · rename_i h4
          simp only [h4, if_false]
          split at h
          · rename_i rest2 hv
            rw [ihV _ _ _ _ _ _ (by omega) hv]
            exact ihG _ _ _ _ _ (by omega) h
          · simp at h
          · simp at h
      · simp at h
      · simp at h

theorem consume_enough (f : Nat) :
    (∀ d num typ (p r : Bytes), consumeValue f d num typ p = .ok r →
      consumeValue (2 * p.length + 2) d num typ p = .ok r) ∧
    (∀ d num (p r : Bytes), consumeGroup f d num p = .ok r →
      consumeGroup (2 * p.length + 1) d num p = .ok r) := by
  induction f with
  | zero =>
    exact ⟨fun d num typ p r h => by simp [consumeValue] at h,
           fun d num p r h => by simp [consumeGroup] at h⟩
  | succ f ih =>
    obtain ⟨ihV, ihG⟩ := ih
    refine ⟨?_, ?_⟩
    · intro d num typ p r h
      rw [consumeValue] at h ⊢
      by_cases h3 : typ = 3
      · subst h3
        simp only [show ¬ (3 = 0) by decide, show ¬ (3 = 5) by decide, show ¬ (3 = 1) by decide,
          show ¬ (3 = 2) by decide, if_false, if_true] at h ⊢
        split at h
        · simp at h
        · rename_i hd
          rw [if_neg hd]
          exact ihG _ _ _ _ h
      · simp only [h3, if_false] at h ⊢
        exact h
    · intro d num p r h
      rw [consumeGroup] at h ⊢
      split at h
      · rename_i num2 typ2 rest ht
        have hl := consumeTag_length ht
        split at h
        · rename_i h4; simp only [h4, if_true] at h ⊢; exact h
        · rename_i h4
          simp only [h4, if_false]
          split at h
          · rename_i rest2 hv
            obtain ⟨pre, hpre⟩ := (consume_suffix f).1 _ _ _ _ _ hv
            have hl2 : rest2.length ≤ rest.length := by rw [hpre]; simp
            rw [(consume_mono _).1 _ _ _ _ _ _ (by omega) (ihV _ _ _ _ _ hv)]
            exact (consume_mono _).2 _ _ _ _ _ (by omega) (ihG _ _ _ _ h)
          · simp at h
          · simp at h
      · simp at h
      · simp at h

/-- the fuel the decoder uses is enough whenever any fuel is. -/
theorem consumeValue_fuel {f d num typ : Nat} {p r : Bytes}
    (h : consumeValue f d num typ p = .ok r) : consumeValue (2 * p.length + 2) d num typ p = .ok r :=
  (consume_enough f).1 d num typ p r h

end Pulsar
