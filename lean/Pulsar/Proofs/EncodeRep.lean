/-
  Pulsar.Proofs.EncodeRep — option/representation independence (C05):
  * with Deterministic set, the map-iteration order `perm` is never consulted;
  * `repNorm` preserves well-typedness and the reference encoding.
-/
import Pulsar.Proofs.EncodeTop
import Pulsar.Proofs.EncodeKeyOrder
namespace Pulsar

/-! ### Deterministic ⇒ `perm` is irrelevant (no typing needed) -/

theorem implFieldSize_det (π π' : List Val → List Val) (cs : Nat → Val → Nat) (f : FieldDesc) (v : Val) :
    implFieldSize ⟨true, π⟩ cs f v = implFieldSize ⟨true, π'⟩ cs f v := by
  unfold implFieldSize; rfl

theorem implFieldBytes_det (π π' : List Val → List Val) (ce : Nat → Val → Res Bytes) (f : FieldDesc) (v : Val) :
    implFieldBytes ⟨true, π⟩ ce f v = implFieldBytes ⟨true, π'⟩ ce f v := by
  unfold implFieldBytes; rfl

theorem implSize_det (S : Schema) (π π' : List Val → List Val) :
    ∀ fuel, implSize S ⟨true, π⟩ fuel = implSize S ⟨true, π'⟩ fuel := by
  intro fuel
  induction fuel with
  | zero => rfl
  | succ fuel ih =>
    funext i v
    simp only [implSize, implSizeLvl, ih]
    rfl

theorem implMarshalClosure_det (S : Schema) (π π' : List Val → List Val) :
    ∀ fuel, implMarshalClosure S ⟨true, π⟩ fuel = implMarshalClosure S ⟨true, π'⟩ fuel := by
  intro fuel
  induction fuel with
  | zero => rfl
  | succ fuel ih =>
    funext i v
    have hw : ∀ ce fvs u, implWriteSeq ⟨true, π⟩ ce fvs u = implWriteSeq ⟨true, π'⟩ ce fvs u := by
      intro ce fvs u
      have : (fun p : FieldDesc × Val => implFieldBytes ⟨true, π⟩ ce p.1 p.2) =
          (fun p => implFieldBytes ⟨true, π'⟩ ce p.1 p.2) := by
        funext p; exact implFieldBytes_det π π' _ _ _
      simp only [implWriteSeq, this]
    simp only [implMarshalClosure, implMarshalLvl, ih, implSize_det S π π' (fuel + 1), hw]

theorem implMarshal_det (S : Schema) (π π' : List Val → List Val) (fuel i : Nat) (v : Val) :
    implMarshal S ⟨true, π⟩ fuel i v = implMarshal S ⟨true, π'⟩ fuel i v := by
  simp only [implMarshal, implMarshalClosure_det S π π' fuel]

/-! ### `repElem` on scalars touches nothing the encoder looks at -/

theorem repScalar_getBits (rn : Nat → Val → Val) (k : Kind) (v : Val) :
    (repElem rn (.scalar k) v).getBits = v.getBits := by
  cases v <;> rfl

theorem repScalar_getBlob (rn : Nat → Val → Val) (k : Kind) (v : Val) :
    (repElem rn (.scalar k) v).getBlob = v.getBlob := by
  cases v <;> rfl

theorem specScalar_congr (k : Kind) {v w : Val} (hb : w.getBits = v.getBits) (hl : w.getBlob = v.getBlob) :
    specScalar k w = specScalar k v := by
  cases k <;> simp [specScalar, hb, hl]

theorem specPresent_congr (k : Kind) {v w : Val} (hb : w.getBits = v.getBits) (hl : w.getBlob = v.getBlob) :
    specPresent k w = specPresent k v := by
  simp [specPresent, hb, hl]

theorem scalarOK_rep (rn : Nat → Val → Val) (k k' : Kind) (v : Val) :
    scalarOK k (repElem rn (.scalar k') v) = scalarOK k v := by
  cases v <;> rfl

theorem keyLt_congr (kk : Kind) {a a' b b' : Val} (ha1 : a'.getBits = a.getBits) (ha2 : a'.getBlob = a.getBlob)
    (hb1 : b'.getBits = b.getBits) (hb2 : b'.getBlob = b.getBlob) : keyLt kk a' b' = keyLt kk a b := by
  cases kk <;> simp [keyLt, ha1, ha2, hb1, hb2]

theorem kbeqOf_congr (kk : Kind) {a a' b b' : Val} (ha1 : a'.getBits = a.getBits) (ha2 : a'.getBlob = a.getBlob)
    (hb1 : b'.getBits = b.getBits) (hb2 : b'.getBlob = b.getBlob) : kbeqOf kk a' b' = kbeqOf kk a b := by
  simp [kbeqOf, ha1, ha2, hb1, hb2]

theorem repNorm_not_none (S : Schema) (fuel i : Nat) (v : Val) (h : v.isNone = false) :
    (repNorm S fuel i v).isNone = false := by
  cases fuel with
  | zero => exact h
  | succ fuel => cases v <;> simp_all [repNorm, Val.isNone]

/-! ### one level -/

/-- What the level lemmas assume about the next nesting level. -/
structure RepChild (childOK : Nat → Val → Bool) (child : Nat → Val → Bytes) (rn : Nat → Val → Val) : Prop where
  ok : ∀ j x, childOK j x = true → childOK j (rn j x) = true
  enc : ∀ j x, childOK j x = true → child j (rn j x) = child j x
  nn : ∀ j x, childOK j x = true → x.isNone = false
  rnn : ∀ j x, x.isNone = false → (rn j x).isNone = false

section level
variable {childOK : Nat → Val → Bool} {child : Nat → Val → Bytes} {rn : Nat → Val → Val}

theorem specElem_rep (H : RepChild childOK child rn) {e : Elem} {v : Val}
    (hv : elemOK childOK e false v = true) :
    specElem child e (repElem rn e v) = specElem child e v ∧
    elemOK childOK e false (repElem rn e v) = true := by
  cases e with
  | scalar k =>
    refine ⟨?_, ?_⟩
    · simp only [specElem]
      exact specScalar_congr k (repScalar_getBits rn k v) (repScalar_getBlob rn k v)
    · simp only [elemOK] at hv ⊢
      rw [scalarOK_rep]; exact hv
  | message i =>
    have hv' : childOK i v = true := by simpa [elemOK] using hv
    have hnn := H.nn i v hv'
    simp only [repElem, hnn, Bool.false_eq_true, if_false, specElem, H.enc i v hv', elemOK,
      H.ok i v hv', Bool.or_true, and_self]

/-- the entry normalisation inside `repSlot`. -/
def repEntry (rn : Nat → Val → Val) (kk : Kind) (e : Elem) (en : Val) : Val :=
  .entry (repElem rn (.scalar kk) en.key) (repElem rn e en.value)

theorem entryLt_repEntry (kk : Kind) (e : Elem) (a b : Val) :
    entryLt kk (repEntry rn kk e a) (repEntry rn kk e b) = entryLt kk a b := by
  unfold entryLt repEntry
  simp only [Val.key]
  exact keyLt_congr kk (repScalar_getBits rn kk _) (repScalar_getBlob rn kk _)
    (repScalar_getBits rn kk _) (repScalar_getBlob rn kk _)

theorem entry_rep (H : RepChild childOK child rn) {kk : Kind} {e : Elem} {en : Val}
    (hv : entryOK childOK false kk e en = true) :
    specEntry child kk e (repEntry rn kk e en) = specEntry child kk e en ∧
    entryOK childOK false kk e (repEntry rn kk e en) = true := by
  cases en <;> simp [entryOK] at hv
  case entry k x =>
    obtain ⟨h1, h2⟩ := specElem_rep H hv.2
    refine ⟨?_, ?_⟩
    · simp only [specEntry, repEntry, Val.key, Val.value, h1]
      rw [specScalar_congr kk (repScalar_getBits rn kk k) (repScalar_getBlob rn kk k)]
    · simp only [entryOK, repEntry, Val.key, Val.value, h2, scalarOK_rep, hv.1, Bool.and_self]

theorem repSlot_isNone (f : FieldDesc) (v : Val) (h : f.isOneof = true) :
    (repSlot rn f v).isNone = v.isNone := by
  unfold FieldDesc.isOneof at h
  unfold repSlot
  cases hs : f.shape <;> simp [hs] at h
  cases v <;> rfl

/-- `repSlot` preserves well-typedness of a slot and the reference bytes of the field. -/
theorem slot_rep (H : RepChild childOK child rn) {f : FieldDesc} {v : Val}
    (hv : slotOK childOK false f v = true) :
    specField child f (repSlot rn f v) = specField child f v ∧
    slotOK childOK false f (repSlot rn f v) = true := by
  cases hs : f.shape with
  | singular =>
    simp only [slotOK, hs] at hv
    cases hel : f.elem with
    | scalar k =>
      rw [hel] at hv
      simp only [specField, repSlot, slotOK, hs, hel]
      refine ⟨?_, ?_⟩
      · rw [specScalar_congr k (repScalar_getBits rn k v) (repScalar_getBlob rn k v),
          specPresent_congr k (repScalar_getBits rn k v) (repScalar_getBlob rn k v)]
      · simp only [elemOK] at hv ⊢
        rw [scalarOK_rep]; exact hv
    | message i =>
      rw [hel] at hv
      simp only [specField, repSlot, slotOK, hs, hel]
      by_cases hnone : v.isNone = true
      · simp only [repElem, hnone, if_true]
        exact ⟨trivial, hv⟩
      · have hnone' : v.isNone = false := by simpa using hnone
        have hv' : elemOK childOK (.message i) false v = true := by
          simp only [elemOK, hnone', Bool.false_and, Bool.false_or] at hv ⊢
          exact hv
        obtain ⟨h1, h2⟩ := specElem_rep H hv'
        have hrn : (repElem rn (.message i) v).isNone = false := by
          simp only [repElem, hnone', Bool.false_eq_true, if_false]
          exact H.rnn i v hnone'
        refine ⟨?_, ?_⟩
        · simp only [hrn, hnone', Bool.false_eq_true, if_false, h1]
        · simp only [elemOK, Bool.and_false, Bool.false_or] at h2
          simp only [elemOK, h2, Bool.or_true]
  | oneof g =>
    simp only [slotOK, hs] at hv
    cases v <;> simp at hv
    case none => simp [specField, repSlot, slotOK, hs]
    case one x =>
      obtain ⟨h1, h2⟩ := specElem_rep H hv
      simp only [specField, repSlot, slotOK, hs, h1, h2, and_self]
  | repeated pk =>
    simp only [slotOK, hs] at hv
    cases v <;> simp at hv
    case list nn es =>
      have hall : ∀ x ∈ es, specElem child f.elem (repElem rn f.elem x) = specElem child f.elem x ∧
          elemOK childOK f.elem false (repElem rn f.elem x) = true :=
        fun x hx => specElem_rep H (hv x hx)
      have hm1 : (es.map (repElem rn f.elem)).map (specElem child f.elem) = es.map (specElem child f.elem) := by
        rw [List.map_map]
        exact List.map_congr_left (fun x hx => (hall x hx).1)
      have hm2 : (es.map (repElem rn f.elem)).map (fun x => specTag f ++ specElem child f.elem x) =
          es.map (fun x => specTag f ++ specElem child f.elem x) := by
        rw [List.map_map]
        exact List.map_congr_left (fun x hx => by simp only [Function.comp, (hall x hx).1])
      refine ⟨?_, ?_⟩
      · simp only [specField, repSlot, hs, Val.elems, hm1, hm2, List.isEmpty_map]
        rfl
      · simp only [slotOK, repSlot, hs, Val.elems, List.all_map, List.all_eq_true]
        exact fun x hx => (hall x hx).2
  | map kk =>
    simp only [slotOK, hs] at hv
    cases v <;> simp at hv
    case map nn es =>
      obtain ⟨hents, hd⟩ := hv
      have hall : ∀ en ∈ es, specEntry child kk f.elem (repEntry rn kk f.elem en) = specEntry child kk f.elem en ∧
          entryOK childOK false kk f.elem (repEntry rn kk f.elem en) = true :=
        fun en hen => entry_rep H (hents en hen)
      have hkeys : ∀ en ∈ es, scalarOK kk en.key = true := by
        intro en hen
        have := hents en hen
        cases en <;> simp [entryOK] at this
        exact this.1
      -- the stored entries of the normal form
      have hrep : repSlot rn f (.map nn es) =
          .map false (sortEntries kk (es.map (repEntry rn kk f.elem))) := by
        simp only [repSlot, hs, Val.elems]; rfl
      have hsort1 : sortEntries kk (es.map (repEntry rn kk f.elem)) =
          (sortEntries kk es).map (repEntry rn kk f.elem) := by
        rw [sortEntries_eq_isort, sortEntries_eq_isort]
        exact isort_map (entryLt kk) (entryLt kk) _ (entryLt_repEntry kk f.elem) es
      have hsorted : ((sortEntries kk es).map (repEntry rn kk f.elem)).Pairwise
          (fun a b => entryLt kk a b = true) := by
        rw [List.pairwise_map]
        exact (sortEntries_sorted kk es hkeys hd).imp (fun {a b} h => by rw [entryLt_repEntry]; exact h)
      refine ⟨?_, ?_⟩
      · rw [hrep]
        simp only [specField, hs, Val.elems]
        rw [hsort1, sortEntries_of_sorted kk _ hsorted, List.map_map]
        congr 1
        apply List.map_congr_left
        intro en hen
        have hen' : en ∈ es := (sortEntries_perm kk es).mem_iff.1 hen
        simp only [Function.comp, (hall en hen').1]
      · rw [hrep]
        simp only [slotOK, hs, Bool.and_eq_true, List.all_eq_true]
        refine ⟨?_, ?_⟩
        · intro x hx
          rw [hsort1, List.mem_map] at hx
          obtain ⟨en, hen, rfl⟩ := hx
          exact (hall en ((sortEntries_perm kk es).mem_iff.1 hen)).2
        · rw [distinctKeys_iff]
          have hp : (es.map (repEntry rn kk f.elem)).Pairwise
              (fun e e' => kbeqOf kk e.key e'.key = false) := by
            rw [List.pairwise_map]
            refine ((distinctKeys_iff kk es).1 hd).imp ?_
            intro a b h
            simp only [repEntry, Val.key]
            rw [kbeqOf_congr kk (repScalar_getBits rn kk _) (repScalar_getBlob rn kk _)
              (repScalar_getBits rn kk _) (repScalar_getBlob rn kk _)]
            exact h
          exact (sortEntries_perm kk _).symm.pairwise hp
            (fun {x y} h => by rw [kbeqOf_comm]; exact h)

end level

/-! ### zip / sort plumbing -/

theorem zip_map_zip (R : FieldDesc → Val → Val) : ∀ (fs : List FieldDesc) (vs : List Val),
    fs.zip ((fs.zip vs).map (fun p => R p.1 p.2)) = (fs.zip vs).map (fun p => (p.1, R p.1 p.2))
  | [], _ => rfl
  | _ :: _, [] => rfl
  | f :: fs, v :: vs => by simp [zip_map_zip R fs vs]

theorem sortFV_map_snd (h : FieldDesc × Val → FieldDesc × Val) (hh : ∀ p, (h p).1 = p.1)
    (l : List (FieldDesc × Val)) : sortFV (l.map h) = (sortFV l).map h := by
  rw [sortFV_eq, sortFV_eq]
  apply isort_map legacyLt legacyLt h
  intro a b
  simp only [legacyLt, hh]

theorem oneofOK_map (h : FieldDesc × Val → FieldDesc × Val) (hh : ∀ p, (h p).1 = p.1)
    (hn : ∀ p, p.1.isOneof = true → (h p).2.isNone = p.2.isNone)
    (l : List (FieldDesc × Val)) (hl : oneofOK l = true) : oneofOK (l.map h) = true := by
  unfold oneofOK at hl ⊢
  rw [List.all_eq_true] at hl ⊢
  intro q hq
  obtain ⟨p, hp, rfl⟩ := List.mem_map.1 hq
  have := hl p hp
  rw [hh]
  cases hg : p.1.group? with
  | none => rfl
  | some g =>
    rw [hg] at this
    have hpo : p.1.isOneof = true := by rw [isOneof_eq_isSome, hg]; rfl
    simp only [hn p hpo]
    have hf : (l.map h).filter (fun q => q.1.group? == some g && !q.2.isNone) =
        (l.filter (fun q => q.1.group? == some g && !q.2.isNone)).map h := by
      rw [List.filter_map]
      congr 1
      apply List.filter_congr
      intro r _
      simp only [Function.comp, hh]
      by_cases hr : r.1.group? = some g
      · have hro : r.1.isOneof = true := by rw [isOneof_eq_isSome, hr]; rfl
        simp [hn r hro]
      · have hb : (r.1.group? == some g) = false := beq_eq_false_iff_ne.2 hr
        simp [hb]
    rw [hf, List.length_map]
    exact this

/-! ### the tree -/

theorem repNorm_ok (S : Schema) : ∀ (fuel i : Nat) (v : Val), msgOK S false fuel i v = true →
    msgOK S false fuel i (repNorm S fuel i v) = true ∧
    specEncode S fuel i (repNorm S fuel i v) = specEncode S fuel i v := by
  intro fuel
  induction fuel with
  | zero => intro i v h; simp [msgOK] at h
  | succ fuel ih =>
    intro i v hv
    have H : RepChild (msgOK S false fuel) (specEncode S fuel) (repNorm S fuel) :=
      ⟨fun j x hx => (ih j x hx).1, fun j x hx => (ih j x hx).2, fun j x hx => msgOK_not_none hx,
       fun j x hx => repNorm_not_none S fuel j x hx⟩
    obtain ⟨slots, u, rfl⟩ := msgOK_isMsg hv
    simp only [msgOK, msgOKLvl, Bool.and_eq_true, beq_iff_eq, List.all_eq_true] at hv
    obtain ⟨⟨hlen, hslots⟩, hone⟩ := hv
    let h : FieldDesc × Val → FieldDesc × Val := fun p => (p.1, repSlot (repNorm S fuel) p.1 p.2)
    have hzip : (S.msg i).fields.zip (((S.msg i).fields.zip slots).map
        (fun p => repSlot (repNorm S fuel) p.1 p.2)) = ((S.msg i).fields.zip slots).map h :=
      zip_map_zip _ _ _
    have hall : ∀ p ∈ (S.msg i).fields.zip slots,
        specField (specEncode S fuel) p.1 (repSlot (repNorm S fuel) p.1 p.2) =
          specField (specEncode S fuel) p.1 p.2 ∧
        slotOK (msgOK S false fuel) false p.1 (repSlot (repNorm S fuel) p.1 p.2) = true :=
      fun p hp => slot_rep H (hslots p hp)
    refine ⟨?_, ?_⟩
    · simp only [repNorm, msgOK, msgOKLvl, Bool.and_eq_true, beq_iff_eq, List.all_eq_true, hzip]
      refine ⟨⟨?_, ?_⟩, ?_⟩
      · simp only [List.length_map, List.length_zip, hlen]; omega
      · intro q hq
        obtain ⟨p, hp, rfl⟩ := List.mem_map.1 hq
        exact (hall p hp).2
      · exact oneofOK_map h (fun _ => rfl) (fun p hp => repSlot_isNone p.1 p.2 hp) _ hone
    · simp only [repNorm, specEncode, Val.isNone, Bool.false_eq_true, if_false, specEncodeLvl,
        Val.slots, Val.unknown, hzip]
      rw [sortFV_map_snd h (fun _ => rfl), List.map_map]
      congr 2
      apply List.map_congr_left
      intro p hp
      rw [sortFV_eq, mem_isort] at hp
      exact (hall p hp).1

end Pulsar
