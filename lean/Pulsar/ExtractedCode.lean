/-
  GENERATED on every run by ./check (harness/cmd/vfacts, a go/ast walk) from the code that the working-tree
  generator emits for the whole corpus and from the checked-in *.pulsar.go files. Do not edit.
  Only the lists that the theorems constrain are here (counts are in the evidence file), so that the file is
  byte-identical whenever nothing relevant changed.
-/
namespace Pulsar.ExtractedCode

/-- statements inside read paths (fast-reflection reads, list/map view reads, getters, ProtoReflect, the size and
    marshal closures) that write through the message (receiver-rooted assignment, delete, copy) -/
def readPathWrites : List String := []

/-- the forms in which sub-slices of the input buffer are used inside unmarshal closures -/
def inputFlowKinds : List String := ["append-copy", "copy-copy", "fixed-read", "nested-decode", "range-read", "skip-read", "string-copy"]

/-- uses of a sub-slice of the input buffer that are none of the known copying / reading forms -/
def inputFlowOther : List String := []

/-- (re)bindings of the buffer a marshal closure returns to storage it did not make itself -/
def marshalBufOther : List String := []

/-- package-level variables of the runtime package (runtime/*.go) other than error values: state that would
    survive a call into the helpers every generated closure uses -/
def runtimeState : List String := []

/-- addresses of message memory handed to a call inside a getter, ProtoReflect, a size or a marshal closure
    (`f(&x.field)`): the callee could keep or write through them -/
def readPathEscapes : List String := []

/-- files the extractor could not parse -/
def errors : List String := []

end Pulsar.ExtractedCode
