/-
  Pulsar.Typing — decidable well-typedness of values against a schema (`msgOK`): the domain of the
  codec theorems. `junk = true` additionally admits the Go-only degenerate states (nil list elements,
  nil message-typed map values, typed-nil oneof wrappers, wrappers holding a nil message).
-/
import Pulsar.Entry
namespace Pulsar

/-- scalar value in range of its Go type -/
def scalarOK (k : Kind) (v : Val) : Bool :=
  match v with
  | .bits n => !k.isBlob && (if k == .bool then decide (n < 2) else decide (n < 2 ^ k.width))
  | .blob _ _ => k.isBlob
  | _ => false

def distinctKeys (kk : Kind) : List Val → Bool
  | [] => true
  | e :: es => !(es.any (fun e' => kbeqOf kk e'.key e.key)) && distinctKeys kk es

/-- at most one member of every oneof group is held -/
def oneofOK (fvs : List (FieldDesc × Val)) : Bool :=
  fvs.all (fun p => match p.1.group? with
    | none => true
    | some g => p.2.isNone ||
        ((fvs.filter (fun q => q.1.group? == some g && !q.2.isNone)).length ≤ 1))

/-- element (scalar, or message pointer; `nilOK`: a nil pointer is admissible here).
    `child i v`: `v` is a well-typed non-nil message of type `i` (one level down). -/
def elemOK (child : Nat → Val → Bool) (e : Elem) (nilOK : Bool) (v : Val) : Bool :=
  match e with
  | .scalar k => scalarOK k v
  | .message i => (v.isNone && nilOK) || child i v

def entryOK (child : Nat → Val → Bool) (junk : Bool) (kk : Kind) (e : Elem) (en : Val) : Bool :=
  match en with
  | .entry k v => scalarOK kk k && elemOK child e junk v
  | _ => false

def slotOK (child : Nat → Val → Bool) (junk : Bool) (f : FieldDesc) (v : Val) : Bool :=
  match f.shape with
  | .singular => elemOK child f.elem true v
  | .repeated _ => (match v with | .list _ es => es.all (elemOK child f.elem junk) | _ => false)
  | .map kk => (match v with
      | .map _ es => es.all (entryOK child junk kk f.elem) && distinctKeys kk es
      | _ => false)
  | .oneof _ =>
    (match v with
     | .none => true
     | .one x => elemOK child f.elem junk x
     | .oneNil => junk
     | _ => false)

/-- one level: a `.msg` with one well-typed slot per field and at most one member per oneof. -/
def msgOKLvl (S : Schema) (junk : Bool) (child : Nat → Val → Bool) (i : Nat) (v : Val) : Bool :=
  match v with
  | .msg slots _ =>
    slots.length == (S.msg i).fields.length &&
    ((S.msg i).fields.zip slots).all (fun p => slotOK child junk p.1 p.2) &&
    oneofOK ((S.msg i).fields.zip slots)
  | _ => false

/-- `v` is a non-nil, well-typed value of message type `i`, of nesting depth ≤ fuel. -/
def msgOK (S : Schema) (junk : Bool) : Nat → Nat → Val → Bool
  | 0, _, _ => false
  | fuel+1, i, v => msgOKLvl S junk (msgOK S junk fuel) i v

/-- every string (field, element, map key/value, oneof member) is valid UTF-8, at every depth. -/
def utf8Elem (child : Nat → Val → Bool) (e : Elem) (v : Val) : Bool :=
  match e with
  | .scalar .string => utf8Valid v.getBlob
  | .scalar _ => true
  | .message i => v.isNone || child i v

def utf8Slot (child : Nat → Val → Bool) (f : FieldDesc) (v : Val) : Bool :=
  match f.shape with
  | .singular => utf8Elem child f.elem v
  | .repeated _ => v.elems.all (utf8Elem child f.elem)
  | .map kk => v.elems.all (fun en => (kk != .string || utf8Valid en.key.getBlob) && utf8Elem child f.elem en.value)
  | .oneof _ => (match v with | .one x => utf8Elem child f.elem x | _ => true)

def utf8OK (S : Schema) : Nat → Nat → Val → Bool
  | 0, _, _ => true
  | fuel+1, i, v => ((S.msg i).fields.zip v.slots).all (fun p => utf8Slot (utf8OK S fuel) p.1 p.2)

/-! ### Representation-independent form (for "equal messages", C05)

  Two Go structs hold the same message value when they differ only in nil-vs-empty containers / byte
  slices and in the (unobservable) order of map entries. `repNorm` erases exactly that: all `nonNil`
  flags are cleared and map entries are sorted by key. Scalars stay bit patterns. -/

def repElem (child : Nat → Val → Val) (e : Elem) (v : Val) : Val :=
  match e with
  | .scalar _ => (match v with | .blob _ b => .blob false b | x => x)
  | .message i => if v.isNone then v else child i v

def repSlot (child : Nat → Val → Val) (f : FieldDesc) (v : Val) : Val :=
  match f.shape with
  | .singular => repElem child f.elem v
  | .repeated _ => .list false (v.elems.map (repElem child f.elem))
  | .map kk =>
    .map false (sortEntries kk (v.elems.map (fun en => .entry (repElem child (.scalar kk) en.key) (repElem child f.elem en.value))))
  | .oneof _ => (match v with | .one x => .one (repElem child f.elem x) | x => x)

def repNorm (S : Schema) : Nat → Nat → Val → Val
  | 0, _, v => v
  | fuel+1, i, v =>
    match v with
    | .msg slots u => .msg (((S.msg i).fields.zip slots).map (fun p => repSlot (repNorm S fuel) p.1 p.2)) u
    | x => x

/-- same message value, possibly represented differently -/
def Equiv (S : Schema) (fuel i : Nat) (v w : Val) : Prop := repNorm S fuel i v = repNorm S fuel i w

/-! ### Unknown-field sets a decoder can have stored

  `unknownOK`: at every level the unknown bytes are a sequence of complete records (as
  `protowire.ConsumeField` accepts them) whose numbers are ≤ 2^29−1 and are not fields of that message. -/

def unknownRecordsOK (fs : List FieldDesc) : (fuel : Nat) → Bytes → Bool
  | 0, bs => bs.isEmpty
  | fuel+1, bs =>
    if bs.isEmpty then true
    else match consumeTag bs, consumeField bs with
      | .ok (num, _, _), .ok n =>
        decide (num ≤ 536870911) && !(fs.any (fun f => f.num == num)) && decide (0 < n) &&
          unknownRecordsOK fs fuel (bs.drop n)
      | _, _ => false

def unknownElem (child : Nat → Val → Bool) (e : Elem) (v : Val) : Bool :=
  match e with
  | .scalar _ => true
  | .message i => v.isNone || child i v

def unknownSlot (child : Nat → Val → Bool) (f : FieldDesc) (v : Val) : Bool :=
  match f.shape with
  | .singular => unknownElem child f.elem v
  | .repeated _ => v.elems.all (unknownElem child f.elem)
  | .map _ => v.elems.all (fun en => unknownElem child f.elem en.value)
  | .oneof _ => (match v with | .one x => unknownElem child f.elem x | _ => true)

def unknownOK (S : Schema) : Nat → Nat → Val → Bool
  | 0, _, _ => true
  | fuel+1, i, v =>
    unknownRecordsOK (S.msg i).fields v.unknown.length v.unknown &&
    ((S.msg i).fields.zip v.slots).all (fun p => unknownSlot (unknownOK S fuel) p.1 p.2)

/-- erase unknown fields at every level (what DiscardUnknown must produce) -/
def eraseElem (child : Nat → Val → Val) (e : Elem) (v : Val) : Val :=
  match e with
  | .scalar _ => v
  | .message i => if v.isNone then v else child i v

def eraseSlot (child : Nat → Val → Val) (f : FieldDesc) (v : Val) : Val :=
  match f.shape, v with
  | .singular, v => eraseElem child f.elem v
  | .repeated _, .list nn es => .list nn (es.map (eraseElem child f.elem))
  | .map _, .map nn es => .map nn (es.map (fun en => .entry en.key (eraseElem child f.elem en.value)))
  | .oneof _, .one x => .one (eraseElem child f.elem x)
  | _, v => v

def eraseUnknown (S : Schema) : Nat → Nat → Val → Val
  | 0, _, v => v
  | fuel+1, i, v =>
    match v with
    | .msg slots _ => .msg (((S.msg i).fields.zip slots).map (fun p => eraseSlot (eraseUnknown S fuel) p.1 p.2)) []
    | x => x

end Pulsar
