/-
  Pulsar.ReflectSyntax — line-protocol syntax of reflection histories (REFLECT_PROTOCOL.md): op parser,
  output printer, and the two commands `refl` / `rrefl`. Driver side only; not used by any theorem.
-/
import Pulsar.Syntax
import Pulsar.Reflect
namespace Pulsar.Syntax
open Pulsar

def printOut : Out → String
  | .bool b => if b then "t" else "f"
  | .bits n => "b" ++ natToHex n
  | .str b => "s" ++ hexOfBytes b
  | .msgv v => if v then "M1" else "M0"
  | .listv v n => "L" ++ (if v then "1" else "0") ++ ":" ++ toString n
  | .mapv v n => "P" ++ (if v then "1" else "0") ++ ":" ++ toString n
  | .glist n => "L:" ++ toString n
  | .gmap n => "P:" ++ toString n
  | .which none => "-"
  | .which (some j) => toString j
  | .fields js => "[" ++ ",".intercalate (js.map toString) ++ "]"
  | .keys ks => "[" ++ ",".intercalate (ks.map printVal) ++ "]"
  | .unk b => "u" ++ hexOfBytes b
  | .nat n => toString n
  | .enc (.ok b) => "x" ++ hexOfBytes b
  | .enc (.err _) => "err"
  | .enc .panic => "panic"
  | .ok => "ok"
  | .panic => "panic"
  | .absent => "absent"

/-- a value argument: all remaining tokens of the op -/
def argVal (toks : List String) : Option Val :=
  match parseVal (toks.length + 1) toks with
  | some (v, []) => some v
  | _ => none

/-- a key argument: one scalar token -/
def argKey (tok : String) : Option Val :=
  match parseVal 2 [tok] with
  | some (v, []) => some v
  | _ => none

def parseOp : (fuel : Nat) → List String → Option Op
  | 0, _ => none
  | fuel+1, toks =>
    match toks with
    | "in" :: j :: rest => do let j ← j.toNat?; let op ← parseOp fuel rest; pure (.in j op)
    | "at" :: j :: n :: rest => do let j ← j.toNat?; let n ← n.toNat?; let op ← parseOp fuel rest; pure (.at j n op)
    | "mv" :: j :: k :: rest => do let j ← j.toNat?; let k ← argKey k; let op ← parseOp fuel rest; pure (.mv j k op)
    | ["has", j] => j.toNat?.map (fun j => .r (.has j))
    | ["get", j] => j.toNat?.map (fun j => .r (.get j))
    | ["getter", j] => j.toNat?.map (fun j => .r (.getter j))
    | ["which", g] => g.toNat?.map (fun g => .r (.which g))
    | ["range"] => some (.r .range)
    | ["getu"] => some (.r .getu)
    | ["valid"] => some (.r .valid)
    | ["llen", j] => j.toNat?.map (fun j => .r (.llen j))
    | ["lget", j, n] => do let j ← j.toNat?; let n ← n.toNat?; pure (.r (.lget j n))
    | ["mlen", j] => j.toNat?.map (fun j => .r (.mlen j))
    | ["mhas", j, k] => do let j ← j.toNat?; let k ← argKey k; pure (.r (.mhas j k))
    | ["mget", j, k] => do let j ← j.toNat?; let k ← argKey k; pure (.r (.mget j k))
    | ["mrange", j] => j.toNat?.map (fun j => .r (.mrange j))
    | ["size"] => some (.r .size)
    | ["enc"] => some (.r .enc)
    | "set" :: j :: rest => do let j ← j.toNat?; let v ← argVal rest; pure (.w (.set j v))
    | ["clear", j] => j.toNat?.map (fun j => .w (.clear j))
    | ["mut", j] => j.toNat?.map (fun j => .w (.mut j))
    -- `mutset j` = Mutable(fd) followed by Set(fd, that same view): storing a field's own mutable view
    -- back is the identity (the view aliases the field), so it is the model's `mut`
    | ["mutset", j] => j.toNat?.map (fun j => .w (.mut j))
    | ["newf", j] => j.toNat?.map (fun j => .r (.newf j))
    | ["setu"] => some (.w (.setu []))
    | ["setu", hex] =>
      let h := if hex.startsWith "u" then (hex.drop 1).toString else hex
      (bytesOfHex h).map (fun b => .w (.setu b))
    | "lset" :: j :: n :: rest => do let j ← j.toNat?; let n ← n.toNat?; let v ← argVal rest; pure (.w (.lset j n v))
    | "lapp" :: j :: rest => do let j ← j.toNat?; let v ← argVal rest; pure (.w (.lapp j v))
    | ["lappm", j] => j.toNat?.map (fun j => .w (.lappm j))
    | ["ltrunc", j, n] => do let j ← j.toNat?; let n ← n.toNat?; pure (.w (.ltrunc j n))
    | "mset" :: j :: k :: rest => do let j ← j.toNat?; let k ← argKey k; let v ← argVal rest; pure (.w (.mset j k v))
    | ["mclr", j, k] => do let j ← j.toNat?; let k ← argKey k; pure (.w (.mclr j k))
    | ["mmut", j, k] => do let j ← j.toNat?; let k ← argKey k; pure (.w (.mmut j k))
    | ["reset"] => some (.w .reset)
    | _ => none

/-- split a token list at the token `;` -/
def splitSemi : List String → List String → List (List String) → List (List String)
  | [], cur, acc => acc ++ [cur]
  | ";" :: rest, cur, acc => splitSemi rest [] (acc ++ [cur])
  | t :: rest, cur, acc => splitSemi rest (cur ++ [t]) acc

/-- nesting an op can add to the state: prefixes + deepest value argument + one allocated level -/
def opHeight : Op → Nat
  | .r _ => 0
  | .w (.set _ v) | .w (.lset _ _ v) | .w (.lapp _ v) | .w (.mset _ _ v) => v.depth + 1
  | .w _ => 1
  | .in _ o | .at _ _ o | .mv _ _ o => opHeight o + 1

/-- `<n-ops> <op> ; … ; <init-val>` → ops and initial value -/
def parseHistory (toks : List String) : Option (List Op × Val) :=
  match toks with
  | n :: rest =>
    (match n.toNat?, (splitSemi rest [] []).reverse with
     | some n, initToks :: opToksRev =>
       (match argVal initToks, opToksRev.reverse.mapM (fun t => parseOp (t.length + 1) t) with
        | some v, some ops => if ops.length == n then some (ops, v) else none
        | _, _ => none)
     | _, _ => none)
  | [] => none

def printRun (outs : List Out) (final : String) : String :=
  " ; ".intercalate (outs.map printOut ++ ["final " ++ final])

/-- `refl`: IMPL machine; the final state is printed as the Go struct view with sorted map entries. -/
def cmdRefl (S : Schema) (i : Nat) (toks : List String) : String :=
  match parseHistory toks with
  | some (ops, v) =>
    let r := Reflect.run S i v ops
    printRun r.2 (printVal (canonMsg S (r.1.depth + 1) i r.1))
  | none => "bad-op"

/-- `rrefl`: SPEC machine on the abstraction of the initial value, with abstract arguments. -/
def cmdRrefl (S : Schema) (i : Nat) (toks : List String) : String :=
  match parseHistory toks with
  | some (ops, v) =>
    let fuel := v.depth + (ops.map opHeight).sum + 2
    let r := SpecReflect.run S i (abs S fuel i v) (ops.map (Op.abs S fuel i))
    printRun r.2 (printVal (repNorm S (r.1.depth + 1) i r.1))
  | none => "bad-op"

end Pulsar.Syntax
