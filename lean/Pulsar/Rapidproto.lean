/-
  Pulsar.Rapidproto — the decision logic of /repo/rapidproto/rapidproto.go that is not "ask rapid for
  a draw": value ranges of the Timestamp / Duration generators (constants regenerated from the source
  into Pulsar.Extracted), the enum draw (index → declared number), the FieldMask store, the nesting
  limit. rapid itself is a black box supplying draws; theorems quantify over all draws.
-/
import Pulsar.Timepb
import Pulsar.Extracted
namespace Pulsar.Rapidproto
open Pulsar Pulsar.Timepb

def inRange (x : Int) (r : Int × Int) : Prop := r.1 ≤ x ∧ x ≤ r.2

/-- `genTimestamp`: `setSecondsNanosFields(msg, seconds, nanos)` with the two draws. -/
def genTimestamp (secondsDraw nanosDraw : Int) : SN := ⟨secondsDraw, nanosDraw⟩
/-- `genDuration` -/
def genDuration (secondsDraw nanosDraw : Int) : SN := ⟨secondsDraw, nanosDraw⟩

/-- `genScalarFieldValue` for enums: the draw is an index into the declared values
    (`rapid.Int32Range(0, len-1)`), the value stored is that value's number. -/
def genEnum (declared : List Int) (indexDraw : Nat) : Int := declared.getD indexDraw 0

/-- `genFieldMask`: the drawn paths are appended to a new list which is then stored in the message. -/
def genFieldMask (pathsDraw : List String) : List String := [] ++ pathsDraw

/-- `setFields`: returns false (nothing generated) beyond the nesting limit. -/
def descends (depth : Nat) : Bool := !(decide (depth > Extracted.depthLimit))

/-- number of nested `setFields` calls along one branch starting at `depth`: structural in the fuel
    `depthLimit + 1 - depth`, which is what makes generation terminate on recursive message types. -/
def branchCalls : (fuel : Nat) → (depth : Nat) → Nat
  | 0, _ => 1                                  -- depth > limit: the call returns false immediately
  | fuel+1, depth => 1 + branchCalls fuel (depth + 1)

end Pulsar.Rapidproto
