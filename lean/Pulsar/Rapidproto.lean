/-
  Pulsar.Rapidproto — the decision logic of /repo/rapidproto/rapidproto.go.

  Part 1 (kept from the first model): value ranges of the Timestamp / Duration generators (constants
  regenerated from the source into Pulsar.Extracted), the enum draw (index → declared number), the
  FieldMask store, the nesting limit.

  Part 2 (draw level, RAPID_PROTOCOL.md): `MessageGenerator` is a deterministic function of the sequence
  of values `rapid` hands out. rapid itself is a black box supplying draws (`Draw`); `setFields` /
  `generate` replay a draw sequence; theorems (Properties/C18Draws.lean) quantify over all draw sequences.
  Options modelled: `NoEmptyLists`, `DisallowNilMessages` and `FieldMaps` (`GenOpts.mapper`, by kind); not
  modelled: Any type URLs / interface hints.

  Representation. The generator is defined **directly on `Val`**, on the abstract (`repNorm`) form of a
  message: blobs carry no nil flag, lists are `.list false es`, maps are `.map false es` with the entries
  sorted by key, a oneof member is `.none` / `.one v`. Every update is the abstract semantics of the
  protoreflect call the Go code makes, i.e. the field-level functions of the SPEC machine
  (`SpecReflect.mutF`, `setF`, `clearF`, `lappF`, `lappmF`, `ltruncF`, `msetF`, `mclrF`, `mmutF` lifted
  by `applyFW`); the equalities are the `rp_bridge_*` lemmas of Proofs/RapidBridge.lean.
-/
import Pulsar.Timepb
import Pulsar.Extracted
import Pulsar.Reflect
namespace Pulsar.Rapidproto
open Pulsar Pulsar.Timepb

def inRange (x : Int) (r : Int × Int) : Prop := r.1 ≤ x ∧ x ≤ r.2

/-- `genTimestamp`: `setSecondsNanosFields(msg, seconds, nanos)` with the two draws. -/
def genTimestamp (secondsDraw nanosDraw : Int) : SN := ⟨secondsDraw, nanosDraw⟩
/-- `genDuration` -/
def genDuration (secondsDraw nanosDraw : Int) : SN := ⟨secondsDraw, nanosDraw⟩

/-- `genScalarFieldValue` for enums: the draw is an index into the declared values
    (`rapid.Int32Range(0, len-1)`), the value stored is that value's number. -/
def genEnum (declared : List Int) (indexDraw : Nat) : Int := declared.getD indexDraw 0

/-- `genFieldMask`: the drawn paths are appended to a new list which is then stored in the message. -/
def genFieldMask (pathsDraw : List String) : List String := [] ++ pathsDraw

/-- `setFields`: returns false (nothing generated) beyond the nesting limit. -/
def descends (depth : Nat) : Bool := !(decide (depth > Extracted.depthLimit))

/-- number of nested `setFields` calls along one branch starting at `depth`: structural in the fuel
    `depthLimit + 1 - depth`, which is what makes generation terminate on recursive message types. -/
def branchCalls : (fuel : Nat) → (depth : Nat) → Nat
  | 0, _ => 1                                  -- depth > limit: the call returns false immediately
  | fuel+1, depth => 1 + branchCalls fuel (depth + 1)

/-! ## Draw level -/

/-- One value handed out by `rapid.X().Draw(t, label)`, as the draw log shows it. A numeric token does
    not say which Go type it had, so it carries every reading (`none` = the text is not of that form). -/
inductive Draw
  | bool (b : Bool)                                   -- `Bool()`
  | num (i : Option Int) (f32 f64 : Option Nat)       -- integer reading / IEEE bits as float32 / float64
  | str (b : Bytes)                                   -- `String()`, `StringMatching`
  | bytes (b : Bytes)                                 -- `SliceOf(Byte())`
  | strs (l : List Bytes)                             -- `SliceOfN(StringMatching(…),1,5)`
  deriving Repr, Inhabited, DecidableEq

namespace Draw
def getBool : Draw → Bool | bool b => b | _ => false
def getInt : Draw → Int | num (some i) _ _ => i | _ => 0
def getF32 : Draw → Nat | num _ (some n) _ => n | _ => 0
def getF64 : Draw → Nat | num _ _ (some n) => n | _ => 0
def getBlob : Draw → Bytes | str b => b | bytes b => b | _ => []
end Draw

/-- `GeneratorOptions` (the modelled part: no Any type URLs).
    `mapper` models `FieldMaps`: `genScalarFieldValue` first asks every `FieldMapper` `fm(t, field, name)`; the
    first one answering `(v, true)` decides the value and NO draw is consumed for that scalar. The model takes
    the combined answer of the mapper list as a pure function of the field's KIND (`none` = no mapper
    answers; this is how the engine's mappers answer — a mapper that looks at the field name or draws from
    `t` itself is not modelled). Mappers are offered every scalar: singular and oneof scalar fields, list
    elements, map keys and scalar map values; never a message field. -/
structure GenOpts where
  noEmptyLists : Bool := false
  disallowNil : Bool := false
  mapper : Kind → Option Val := fun _ => none
  deriving Inhabited

/-- the rapid generator a draw is taken from -/
inductive Gen
  | flag                     -- `Bool()` drawn by the generator itself: the `gen-<name>` and `empty` draws
  | bool | int32 | uint32 | int64 | uint64 | float32 | float64 | string | bytes
  | count (min : Nat)        -- `IntRange(min, 10)`
  | enumIdx (n : Nat)        -- `Int32Range(0, n-1)`
  deriving Repr, Inhabited, DecidableEq

/-- the draw has the Go type of the generator (a token of another type makes the replay `stuck`) -/
def Gen.accepts : Gen → Draw → Bool
  | .flag, .bool _ => true
  | .bool, .bool _ => true
  | .string, .str _ => true
  | .bytes, .bytes _ => true
  | .float32, .num _ (some _) _ => true
  | .float64, .num _ _ (some _) => true
  | .int32, .num (some _) _ _ => true
  | .uint32, .num (some _) _ _ => true
  | .int64, .num (some _) _ _ => true
  | .uint64, .num (some _) _ _ => true
  | .count _, .num (some _) _ _ => true
  | .enumIdx _, .num (some _) _ _ => true
  | _, _ => false

/-- the draw lies in the range of the generator: rapid's contract. For `String()` this is the
    assumption that rapid yields valid UTF-8. -/
def Gen.inRange : Gen → Draw → Bool
  | .flag, _ => true
  | .bool, _ => true
  | .bytes, _ => true
  | .string, d => utf8Valid d.getBlob
  | .float32, d => decide (d.getF32 < 4294967296)
  | .float64, d => decide (d.getF64 < 18446744073709551616)
  | .int32, d => decide (-2147483648 ≤ d.getInt ∧ d.getInt < 2147483648)
  | .uint32, d => decide (0 ≤ d.getInt ∧ d.getInt < 4294967296)
  | .int64, d => decide (-9223372036854775808 ≤ d.getInt ∧ d.getInt < 9223372036854775808)
  | .uint64, d => decide (0 ≤ d.getInt ∧ d.getInt < 18446744073709551616)
  | .count min, d => decide ((min : Int) ≤ d.getInt ∧ d.getInt ≤ (Extracted.listMax : Int))
  | .enumIdx n, d => decide (0 ≤ d.getInt ∧ d.getInt < (n : Int))

/-- a consumed draw together with the generator that consumed it -/
structure Ev where
  gen : Gen
  draw : Draw
  deriving Repr, Inhabited, DecidableEq

def Ev.inRange (e : Ev) : Bool := e.gen.inRange e.draw

/-- why a replay cannot continue. `fuel` and `truncate` never occur (`C18_draws_total`). -/
inductive Why
  | wrongType    -- the next draw has another type than the generator the code calls
  | missing      -- no draw left
  | leftover     -- generation finished without consuming every draw
  | fuel         -- the recursion fuel of the model ran out
  | truncate     -- `list.Truncate(i)` with `i` larger than the length of the list
  deriving Repr, Inhabited, DecidableEq

/-- outcome of replaying draws: a result, the draws not yet consumed and the consumed draws (in order,
    each with its generator); or `stuck`, with the number of draws that were still unconsumed (the
    position in the original sequence is its length minus this number). -/
inductive R (α : Type)
  | ok (a : α) (rest : List Draw) (tr : List Ev)
  | stuck (remaining : Nat) (why : Why)
  deriving Repr

namespace R
def bind {α β} (r : R α) (f : α → List Draw → R β) : R β :=
  match r with
  | .ok a rest tr =>
    (match f a rest with
     | .ok b rest' tr' => .ok b rest' (tr ++ tr')
     | .stuck p w => .stuck p w)
  | .stuck p w => .stuck p w

def map {α β} (g : α → β) (r : R α) : R β :=
  match r with
  | .ok a rest tr => .ok (g a) rest tr
  | .stuck p w => .stuck p w
end R

/-- `rapid.G.Draw`: take the next draw, which must have the generator's type -/
def draw (g : Gen) : List Draw → R Draw
  | [] => .stuck 0 .missing
  | d :: ds => if g.accepts d then .ok d ds [⟨g, d⟩] else .stuck (ds.length + 1) .wrongType

/-- `genScalarFieldValue`: the generator called for a kind (`E`: the declared enum numbers) -/
def scalarGen (E : List Int) : Kind → Gen
  | .int32 | .sint32 | .sfixed32 => .int32
  | .uint32 | .fixed32 => .uint32
  | .int64 | .sint64 | .sfixed64 => .int64
  | .uint64 | .fixed64 => .uint64
  | .bool => .bool
  | .bytes => .bytes
  | .float => .float32
  | .double => .float64
  | .string => .string
  | .enum => .enumIdx E.length

/-- … and the stored value: the bit pattern of the field's width (two's complement truncation for
    integers), 0/1 for bool, the declared number of the drawn index for enums (`genEnum`). -/
def scalarVal (E : List Int) (k : Kind) (d : Draw) : Val :=
  match k with
  | .int32 | .sint32 | .sfixed32 | .uint32 | .fixed32 => .bits (ofInt32 d.getInt)
  | .int64 | .sint64 | .sfixed64 | .uint64 | .fixed64 => .bits (ofInt64 d.getInt)
  | .bool => .bits (if d.getBool then 1 else 0)
  | .bytes | .string => .blob false d.getBlob
  | .float => .bits (d.getF32 % 4294967296)
  | .double => .bits (d.getF64 % 18446744073709551616)
  | .enum => .bits (ofInt32 (genEnum E d.getInt.toNat))

/-- `genScalarFieldValue`: the mapper's value as it is, without consuming a draw, when a mapper answers for
    the kind; otherwise the draw of the kind's generator. -/
def genScalar (o : GenOpts) (E : List Int) (k : Kind) (ds : List Draw) : R Val :=
  match o.mapper k with
  | some w => .ok w ds []
  | none => (draw (scalarGen E k) ds).map (scalarVal E k)

/-- `field.Kind() == protoreflect.MessageKind`: message-typed fields of every cardinality **and every map
    field** (a map field's kind is that of its entry message). -/
def isMsgKind (f : FieldDesc) : Bool :=
  match f.shape, f.elem with
  | .map _, _ => true
  | _, .message _ => true
  | _, .scalar _ => false

/-- list of scalars: `for i < n { list.Append(genScalarFieldValue) }` -/
def listScalars (o : GenOpts) (E : List Int) (k : Kind) : Nat → List Val → List Draw → R (List Val)
  | 0, es, ds => .ok es ds []
  | n+1, es, ds => (genScalar o E k ds).bind fun v rest => listScalars o E k n (es ++ [v]) rest

/-- list of messages: `for i < n { if !setFields(list.AppendMutable(), depth+1) { list.Truncate(i) } }`.
    `i` is the loop index — not the length before the append. `child mi v` is `setFields(v, depth+1)` for
    a message of type `mi`. -/
def listMsgs (S : Schema) (child : Nat → Val → List Draw → R (Bool × Val)) (mi : Nat) :
    Nat → Nat → List Val → List Draw → R (List Val)
  | 0, _, es, ds => .ok es ds []
  | n+1, i, es, ds =>
    (child mi (emptyMsg S mi) ds).bind fun r rest =>
      if r.1 then listMsgs S child mi n (i+1) (es ++ [r.2]) rest
      else if i ≤ (es ++ [r.2]).length then listMsgs S child mi n (i+1) ((es ++ [r.2]).take i) rest
      else .stuck rest.length .truncate

/-- map with scalar values: `key ← draw; value ← draw; m.Set(key, value)` -/
def mapScalars (o : GenOpts) (E : List Int) (kk vk : Kind) : Nat → List Val → List Draw → R (List Val)
  | 0, es, ds => .ok es ds []
  | n+1, es, ds =>
    (genScalar o E kk ds).bind fun k rest =>
      (genScalar o E vk rest).bind fun v rest' =>
        mapScalars o E kk vk n (sortEntries kk (mapPut (kbeqOf kk) es k v)) rest'

/-- map with message values: `key ← draw; if !setFields(m.Mutable(key), depth+1) { m.Clear(key) }`;
    `m.Mutable(key)` is the existing value when the key was drawn before. -/
def mapMsgs (S : Schema) (o : GenOpts) (E : List Int) (child : Nat → Val → List Draw → R (Bool × Val)) (kk : Kind)
    (mi : Nat) : Nat → List Val → List Draw → R (List Val)
  | 0, es, ds => .ok es ds []
  | n+1, es, ds =>
    (genScalar o E kk ds).bind fun k rest =>
      (child mi (valueOr (findEntry kk es k) (emptyMsg S mi)) rest).bind fun r rest' =>
        mapMsgs S o E child kk mi n
          (if r.1 then sortEntries kk (mapPut (kbeqOf kk) es k r.2) else mapDel kk es k) rest'

/-- `setFieldValue` on field `j` (descriptor `f`) of a message whose slots are `slots` -/
def genField (S : Schema) (o : GenOpts) (E : List Int) (child : Nat → Val → List Draw → R (Bool × Val))
    (fs : List FieldDesc) (f : FieldDesc) (j : Nat) (slots : List Val) (ds : List Draw) : R (List Val) :=
  let cur := slots.getD j .none
  match f.shape, f.elem with
  | .repeated _, .scalar k =>
    (draw (.count (if o.noEmptyLists then 1 else 0)) ds).bind fun n rest =>
      (listScalars o E k n.getInt.toNat cur.elems rest).map fun es => slots.set j (.list false es)
  | .repeated _, .message mi =>
    (draw (.count (if o.noEmptyLists then 1 else 0)) ds).bind fun n rest =>
      (listMsgs S child mi n.getInt.toNat 0 cur.elems rest).map fun es => slots.set j (.list false es)
  | .map kk, .scalar vk =>
    (draw (.count 0) ds).bind fun n rest =>
      (mapScalars o E kk vk n.getInt.toNat cur.elems rest).map fun es => slots.set j (.map false es)
  | .map kk, .message mi =>
    (draw (.count 0) ds).bind fun n rest =>
      (mapMsgs S o E child kk mi n.getInt.toNat cur.elems rest).map fun es => slots.set j (.map false es)
  | .singular, .message mi =>
    -- Mutable: the existing message or a new empty one; Clear when setFields returned false
    (child mi (if cur.isNone then emptyMsg S mi else cur) ds).map fun r =>
      slots.set j (if r.1 then r.2 else .none)
  | .oneof g, .message mi =>
    (match cur with
     | .one x =>
       (child mi x ds).map fun r => slots.set j (if r.1 then .one r.2 else .none)
     | _ =>
       -- Mutable stores a new wrapper: the other members of the group are dropped, also when the
       -- field is cleared again afterwards
       (child mi (emptyMsg S mi) ds).map fun r =>
         (clearGroup fs g slots).set j (if r.1 then .one r.2 else .none))
  | .singular, .scalar k => (genScalar o E k ds).map fun v => slots.set j v
  | .oneof g, .scalar k => (genScalar o E k ds).map fun v => (clearGroup fs g slots).set j (.one v)

/-- the loop of `setFields` over the fields (`rem`: the fields from index `j` on) -/
def genFields (S : Schema) (o : GenOpts) (E : List Int) (child : Nat → Val → List Draw → R (Bool × Val))
    (fs : List FieldDesc) : Nat → List FieldDesc → List Val → List Draw → R (List Val)
  | _, [], slots, ds => .ok slots ds []
  | j, f :: rem, slots, ds =>
    (draw .flag ds).bind fun g rest =>
      if !g.getBool && isMsgKind f && !o.disallowNil then genFields S o E child fs (j+1) rem slots rest
      else (genField S o E child fs f j slots rest).bind fun slots' rest' =>
        genFields S o E child fs (j+1) rem slots' rest'

/-- `opts.setFields(t, _, msg, depth)` on the message `v` of type `i`: `(ok, message afterwards)`.
    Fuel: `Extracted.depthLimit + 2 - depth` suffices (`C18_draws_total`). -/
def setFields (S : Schema) (o : GenOpts) (E : List Int) :
    (fuel : Nat) → (depth : Nat) → (i : Nat) → Val → List Draw → R (Bool × Val)
  | 0, depth, _, v, ds =>
    if depth > Extracted.depthLimit then .ok (false, v) ds [] else .stuck ds.length .fuel
  | fuel+1, depth, i, v, ds =>
    if depth > Extracted.depthLimit then .ok (false, v) ds []
    else
      (genFields S o E (setFields S o E fuel (depth+1)) (S.msg i).fields 0 (S.msg i).fields v.slots ds).map
        fun slots => (true, .msg slots v.unknown)

/-- the fuel the theorems are about -/
def fuelFor (depth : Nat) : Nat := Extracted.depthLimit + 2 - depth

/-- `MessageGenerator`: `msg := New()`, the `empty` draw for a type without fields, `setFields(msg, 0)`;
    every draw must have been consumed. On success the rest is `[]`. -/
def generate (S : Schema) (o : GenOpts) (E : List Int) (i : Nat) (ds : List Draw) : R Val :=
  (if (S.msg i).fields.isEmpty then (draw .flag ds).map (fun _ => ()) else .ok () ds []).bind fun _ rest =>
    (setFields S o E (fuelFor 0) 0 i (emptyMsg S i) rest).bind fun r rest' =>
      if rest'.isEmpty then .ok r.2 [] [] else .stuck rest'.length .leftover

/-! ## Predicates of the theorems -/

/-- the bit pattern is the int32 pattern of a declared enum number -/
def enumDeclared (E : List Int) (v : Val) : Bool := (E.map ofInt32).contains v.getBits

def enumElem (E : List Int) (child : Nat → Val → Bool) (e : Elem) (v : Val) : Bool :=
  match e with
  | .scalar .enum => enumDeclared E v
  | .scalar _ => true
  | .message i => v.isNone || child i v

def enumSlot (E : List Int) (child : Nat → Val → Bool) (f : FieldDesc) (v : Val) : Bool :=
  match f.shape with
  | .singular => enumElem E child f.elem v
  | .repeated _ => v.elems.all (enumElem E child f.elem)
  | .map kk => v.elems.all (fun en => (kk != .enum || enumDeclared E en.key) && enumElem E child f.elem en.value)
  | .oneof _ => (match v with | .one x => enumElem E child f.elem x | _ => true)

/-- every enum-kind field (singular, list element, map value, oneof member) holds a declared number, at
    every depth (same shape as `utf8OK`) -/
def enumsOK (S : Schema) (E : List Int) : Nat → Nat → Val → Bool
  | 0, _, _ => true
  | fuel+1, i, v => ((S.msg i).fields.zip v.slots).all (fun p => enumSlot E (enumsOK S E fuel) p.1 p.2)

/-! ### "for every message of the tree" -/

def evElem (child : Nat → Val → Bool) (e : Elem) (v : Val) : Bool :=
  match e with
  | .scalar _ => true
  | .message i => v.isNone || child i v

def evSlot (child : Nat → Val → Bool) (f : FieldDesc) (v : Val) : Bool :=
  match f.shape with
  | .singular => evElem child f.elem v
  | .repeated _ => v.elems.all (evElem child f.elem)
  | .map _ => v.elems.all (fun en => evElem child f.elem en.value)
  | .oneof _ => (match v with | .one x => evElem child f.elem x | _ => true)

/-- `mp d j m` holds for every message `m` in the tree of `v` — `v` itself (type `i`) at depth `depth`,
    the messages its fields hold (singular, list elements, map values, oneof members) at `depth + 1`, and so
    on. `d` is the `depth` argument of the `setFields` call that filled (or would fill) `m`. -/
def everywhere (mp : Nat → Nat → Val → Bool) (S : Schema) : (fuel depth i : Nat) → Val → Bool
  | 0, _, _, _ => true
  | fuel+1, depth, i, v =>
    mp depth i v && ((S.msg i).fields.zip v.slots).all (fun p => evSlot (everywhere mp S fuel (depth+1)) p.1 p.2)

/-- `NoEmptyLists`, one field: a repeated scalar field has an element; a repeated message field has one when
    `needMsg` (the field is certainly generated: `DisallowNilMessages`) and the elements are generated
    within the depth limit. -/
def nelField (needMsg : Bool) (depth : Nat) (f : FieldDesc) (x : Val) : Bool :=
  match f.shape, f.elem with
  | .repeated _, .scalar _ => decide (1 ≤ x.elems.length)
  | .repeated _, .message _ =>
    !(needMsg && decide (depth < Extracted.depthLimit)) || decide (1 ≤ x.elems.length)
  | _, _ => true

/-- `NoEmptyLists`, one message filled by `setFields(…, depth)` (nothing is claimed beyond the limit, where
    `setFields` does nothing) -/
def nelLocal (S : Schema) (needMsg : Bool) (depth i : Nat) (v : Val) : Bool :=
  decide (depth > Extracted.depthLimit) ||
    ((S.msg i).fields.zip v.slots).all (fun p => nelField needMsg depth p.1 p.2)

/-- `DisallowNilMessages`, one field: a singular message field is present -/
def presentField (f : FieldDesc) (x : Val) : Bool :=
  match f.shape, f.elem with
  | .singular, .message _ => !x.isNone
  | _, _ => true

/-- `DisallowNilMessages`, one message filled by `setFields(…, depth)` with `depth < depthLimit` -/
def nonilLocal (S : Schema) (depth i : Nat) (v : Val) : Bool :=
  decide (depth ≥ Extracted.depthLimit) ||
    ((S.msg i).fields.zip v.slots).all (fun p => presentField p.1 p.2)

/-! ### `FieldMaps` -/

/-- what the harness must supply for the well-formedness theorems: a mapper value has the shape of its kind
    (`scalarOK`: bits within the width / a blob), is valid UTF-8 for the string kind and a declared number for
    the enum kind. `fun _ => none` (no `FieldMaps`) satisfies it. -/
structure MapperOK (E : List Int) (o : GenOpts) : Prop where
  typed : ∀ k w, o.mapper k = some w → scalarOK k w = true
  utf8 : ∀ w, o.mapper .string = some w → utf8Valid w.getBlob = true
  enum : ∀ w, o.mapper .enum = some w → enumDeclared E w = true

/-- the part of `MapperOK` that `msgOK` needs -/
def MapperTyped (o : GenOpts) : Prop := ∀ k w, o.mapper k = some w → scalarOK k w = true

/-- a scalar of kind `k` holds exactly the mapper's value when the mapper answers for `k` (`Val.beq` is
    equality: `rp_val_beq_iff`) -/
def mapVal (o : GenOpts) (k : Kind) (v : Val) : Bool :=
  match o.mapper k with
  | some w => Val.beq v w
  | none => true

/-- `FieldMaps`, one field: every scalar position of the field holds the mapper's value — a singular scalar
    field (`sing`; it is always set), a oneof scalar member that is set, every list element, every map key
    and every scalar map value. `sing = false` leaves out the singular scalar fields: this is what a message
    that has not been filled yet satisfies (its singular scalars hold the zero value). -/
def mapField (o : GenOpts) (sing : Bool) (f : FieldDesc) (x : Val) : Bool :=
  match f.shape, f.elem with
  | .singular, .scalar k => !sing || mapVal o k x
  | .oneof _, .scalar k => (match x with | .one y => mapVal o k y | _ => true)
  | .repeated _, .scalar k => x.elems.all (mapVal o k)
  | .map kk, .scalar vk => x.elems.all (fun en => mapVal o kk en.key && mapVal o vk en.value)
  | .map kk, .message _ => x.elems.all (fun en => mapVal o kk en.key)
  | _, _ => true

/-- `FieldMaps`, one message filled by `setFields(…, depth)`. Nothing is claimed beyond the limit, where
    `setFields` does nothing: the messages the Truncate quirk leaves behind (created at depth
    `depthLimit + 1`, never filled) hold zero values, not the mapper's. -/
def mapLocal (S : Schema) (o : GenOpts) (depth i : Nat) (v : Val) : Bool :=
  decide (depth > Extracted.depthLimit) ||
    ((S.msg i).fields.zip v.slots).all (fun p => mapField o true p.1 p.2)

/-- what a message given to `setFields` must satisfy for `mapLocal` to hold afterwards: the same without the
    singular scalar fields. An empty message satisfies it; so does every message that satisfies `mapLocal`
    (the value `Map.Mutable` returns for a key that was generated before). -/
def mapLocalPre (S : Schema) (o : GenOpts) (depth i : Nat) (v : Val) : Bool :=
  decide (depth > Extracted.depthLimit) ||
    ((S.msg i).fields.zip v.slots).all (fun p => mapField o false p.1 p.2)

/-- a consumed draw that is not a scalar draw for a mapped kind: a `gen-`/`empty` flag, a count, or the draw
    of the generator of a kind for which no mapper answers -/
def Ev.unmapped (o : GenOpts) (E : List Int) (e : Ev) : Prop :=
  e.gen = .flag ∨ (∃ m, e.gen = .count m) ∨ ∃ k, o.mapper k = none ∧ e.gen = scalarGen E k

end Pulsar.Rapidproto
