/-
  Pulsar.GenTables — the Go type table and the dependency index table that the embedded protoc-gen-go
  (`features/protoc/main.go: genReflectFileDescriptor`) emits as `file_x_goTypes` / `file_x_depIdxs` and hands to
  `protoimpl.TypeBuilder`. protobuf-go resolves the type of every enum / message typed field, and the input and
  output type of every method, POSITIONALLY through these tables (`filetype.TypeBuilder.DependencyIndexes`): the
  k-th entry of the "field type_name" section belongs to the k-th typed field in declaration order.

  Inputs (all full names): the enums and messages the file declares in flattened order (`f.allEnums`,
  `f.allMessages`; map-entry messages included), for every message the type names of its enum / message / map
  typed fields in declaration order, for every extension the file declares (at file level or nested in a message,
  `f.allExtensions`) its extendee and, when it is enum / message typed, its type name, and (input, output) of
  every method.

  Core-only (the driver answers `deptab` lines with `typeTables`).
-/
namespace Pulsar.Gen

structure TypeTab where
  /-- `goTypes`: one row per distinct type, `seen[name]` = position of `name` in it -/
  goTypes : List String := []
  /-- `depIdxs` without the trailing offsets -/
  deps : List Nat := []
  deriving Repr, DecidableEq

/-- `genEnum(e, "")` / `genMessage(m, "")`: a row for the type unless it has one. -/
def TypeTab.decl (t : TypeTab) (name : String) : TypeTab :=
  if name ∈ t.goTypes then t else { t with goTypes := t.goTypes ++ [name] }

/-- `genEnum(e, source)` / `genMessage(m, source)`: a row for the type unless it has one, then
    `depIdxs = append(depIdxs, seen[name])`. -/
def TypeTab.dep (t : TypeTab) (name : String) : TypeTab :=
  let t' := t.decl name
  { t' with deps := t'.deps ++ [t'.goTypes.idxOf name] }

structure Tables where
  goTypes : List String
  /-- dependency indexes, section by section: field type_name, extension extendee, extension type_name,
      method input_type, method output_type -/
  deps : List Nat
  /-- the five section offsets, in the order they are appended: method output_type, method input_type,
      extension type_name, extension extendee, field type_name -/
  offsets : List Nat
  deriving Repr, DecidableEq

/-- extendees of the declared extensions / type names of the enum or message typed ones, in declaration order -/
def extendees (exts : List (String × Option String)) : List String := exts.map (·.1)
def extTypes (exts : List (String × Option String)) : List String := exts.filterMap (·.2)

/-- `genReflectFileDescriptor`'s tables. -/
def typeTables (enums msgs : List String) (fieldDeps : List (List String)) (exts : List (String × Option String))
    (methods : List (String × String)) : Tables :=
  let t0 := (enums ++ msgs).foldl TypeTab.decl {}
  let t1 := fieldDeps.flatten.foldl TypeTab.dep t0
  let t1a := (extendees exts).foldl TypeTab.dep t1
  let t1b := (extTypes exts).foldl TypeTab.dep t1a
  let t2 := (methods.map (·.1)).foldl TypeTab.dep t1b
  let t3 := (methods.map (·.2)).foldl TypeTab.dep t2
  { goTypes := t3.goTypes, deps := t3.deps,
    offsets := [t2.deps.length, t1b.deps.length, t1a.deps.length, t1.deps.length, 0] }

/-- the emitted `depIdxs` slice -/
def Tables.depIdxs (t : Tables) : List Nat := t.deps ++ t.offsets

/-- the dependencies in the order protobuf-go consumes them -/
def allDeps (fieldDeps : List (List String)) (exts : List (String × Option String)) (methods : List (String × String)) :
    List String :=
  fieldDeps.flatten ++ extendees exts ++ extTypes exts ++ methods.map (·.1) ++ methods.map (·.2)

end Pulsar.Gen
