/-
  Pulsar.Timepb — model of /repo/support/timepb/cmp.go (Compare, DurationIsNegative, Add, overflowPanic)
  over Go's int64 seconds and int32 nanos with wrap-around, plus the exact-instant specification.
  A nil `*Timestamp` is `none`.
-/
import Pulsar.Basic
namespace Pulsar.Timepb
open Pulsar

/-- A `timestamppb.Timestamp` / `durationpb.Duration` value: `sec` is an int64, `nanos` an int32
    (both kept as mathematical integers inside their Go ranges). -/
structure SN where
  sec : Int
  nanos : Int
  deriving DecidableEq, Repr

def InRange (x : SN) : Prop :=
  -9223372036854775808 ≤ x.sec ∧ x.sec ≤ 9223372036854775807 ∧ -2147483648 ≤ x.nanos ∧ x.nanos ≤ 2147483647

/-- `time.Second` as int32. -/
def second : Int := 1000000000

/-- `timestamppb.Timestamp.CheckValid` (range 0001-01-01 .. 9999-12-31, nanos in [0,1e9)). -/
def ValidTS (t : SN) : Prop :=
  -62135596800 ≤ t.sec ∧ t.sec ≤ 253402300799 ∧ 0 ≤ t.nanos ∧ t.nanos < 1000000000

/-- `durationpb.Duration.CheckValid`. -/
def ValidDur (d : SN) : Prop :=
  -315576000000 ≤ d.sec ∧ d.sec ≤ 315576000000 ∧ -1000000000 < d.nanos ∧ d.nanos < 1000000000 ∧
  ¬ (d.sec > 0 ∧ d.nanos < 0) ∧ ¬ (d.sec < 0 ∧ d.nanos > 0)

/-- normalised: nanos within [0, 1e9). -/
def Normalised (t : SN) : Prop := 0 ≤ t.nanos ∧ t.nanos < 1000000000

/-- The instant (or signed span) denoted, in nanoseconds. -/
def inst (x : SN) : Int := x.sec * 1000000000 + x.nanos

/-- `timepb.Compare` for non-nil arguments. -/
def compare (a b : SN) : Int :=
  if a.sec = b.sec ∧ a.nanos = b.nanos then 0
  else if a.sec < b.sec ∨ (a.sec = b.sec ∧ a.nanos < b.nanos) then -1
  else 1

/-- `timepb.Compare` including the nil panic. -/
def compareOpt (a b : Option SN) : Res Int :=
  match a, b with
  | some a, some b => .ok (compare a b)
  | _, _ => .panic

/-- `timepb.DurationIsNegative`. -/
def durationIsNegative (d : SN) : Bool := decide (d.sec < 0) || (decide (d.sec = 0) && decide (d.nanos < 0))

/-- `overflowPanic(t1, t2, negative)`: true iff it panics. -/
def overflowPanics (t1 t2 : SN) (negative : Bool) : Bool :=
  let c := compare t1 t2
  if negative then decide (c < 0) else decide (c > 0)

/-- `timepb.Add(t, d)` with `t` possibly nil; `d` non-nil (a nil `d` dereferences nil: outside the property). -/
def add (t : Option SN) (d : SN) : Res (Option SN) :=
  match t with
  | none => .ok none
  | some t =>
    if d.sec = 0 ∧ d.nanos = 0 then .ok (some t)
    else
      let s0 := wrap64 (t.sec + d.sec)
      let n0 := wrap32 (t.nanos + d.nanos)
      let t2 : SN :=
        if n0 ≥ second then ⟨wrap64 (s0 + 1), wrap32 (n0 - second)⟩
        else if n0 < 0 then ⟨wrap64 (s0 - 1), wrap32 (n0 + second)⟩
        else ⟨s0, n0⟩
      if overflowPanics t t2 (durationIsNegative d) then .panic else .ok (some t2)

/-- Specification of `AddStd` on the domain where `time.Time` arithmetic is exact: the normalised
    representation of instant `t + d` (d in nanoseconds). `time` itself is trusted stdlib. -/
def addStdSpec (t : SN) (dn : Int) : SN :=
  let total := inst t + dn
  ⟨total / 1000000000, total % 1000000000⟩

end Pulsar.Timepb
