/-
  Pulsar.Encode — the three encoders, per nesting level with the child codec as a parameter:

  * `specEncodeLvl`   — protobuf-go's reflection-driven deterministic encoder (`marshalMessageSlow`
                        with `order.LegacyFieldOrder` and `order.GenericKeyOrder`).
  * `implSizeLvl`     — the generated `size` closure (declaration order, Sov/Soz expressions).
  * `implMarshalLvl`  — the generated `marshal` closure: `size` first, then a buffer of that size filled
                        from the end: unknown fields, oneofs in reverse declaration order, other fields
                        by descending number.
  Tree recursion (`specEncode`, `implSize`, `implMarshal`) is by fuel on the nesting depth.
-/
import Pulsar.Scalar
namespace Pulsar

/-- Marshal options that matter: Deterministic, and the Go runtime's map iteration order as an
    adversarial parameter (`perm es` must be a permutation of `es`; theorems quantify over it). -/
structure MOpts where
  det : Bool
  perm : List Val → List Val

/-! ## Reference encoder -/

/-- Reference bytes of one element after the tag. -/
def specElem (child : Nat → Val → Bytes) (e : Elem) (v : Val) : Bytes :=
  match e with
  | .scalar k => specScalar k v
  | .message i => let b := child i v; varint b.length ++ b

def specTag (f : FieldDesc) : Bytes :=
  tag f.num (match f.elem with | .scalar k => k.specWireType | .message _ => 2)

/-- One map entry record body (key always emitted as field 1, value as field 2). -/
def specEntry (child : Nat → Val → Bytes) (kk : Kind) (e : Elem) (en : Val) : Bytes :=
  tag 1 kk.specWireType ++ specScalar kk en.key ++
  tag 2 (match e with | .scalar k => k.specWireType | .message _ => 2) ++ specElem child e en.value

/-- Reference bytes of one field given its slot value (empty when not populated). -/
def specField (child : Nat → Val → Bytes) (f : FieldDesc) (v : Val) : Bytes :=
  match f.shape with
  | .singular =>
    (match f.elem with
     | .scalar k => if specPresent k v then specTag f ++ specScalar k v else []
     | .message _ => if v.isNone then [] else specTag f ++ specElem child f.elem v)
  | .oneof _ =>
    (match v with
     | .one x => specTag f ++ specElem child f.elem x
     | _ => [])
  | .repeated packed =>
    if v.elems.isEmpty then []
    else if packed then
      let body := (v.elems.map (specElem child f.elem)).flatten
      tag f.num 2 ++ varint body.length ++ body
    else (v.elems.map (fun x => specTag f ++ specElem child f.elem x)).flatten
  | .map kk =>
    ((sortEntries kk v.elems).map (fun en =>
      let body := specEntry child kk f.elem en
      tag f.num 2 ++ varint body.length ++ body)).flatten

/-- `order.LegacyFieldOrder` as a sort key: non-oneof fields by number, then oneof members by
    oneof declaration index, then number. -/
def legacyLt (a b : FieldDesc × Val) : Bool :=
  match a.1.group?, b.1.group? with
  | none, none => a.1.num < b.1.num
  | none, some _ => true
  | some _, none => false
  | some g, some h => g < h || (g == h && a.1.num < b.1.num)

def insertFV (x : FieldDesc × Val) : List (FieldDesc × Val) → List (FieldDesc × Val)
  | [] => [x]
  | y :: ys => if legacyLt x y then x :: y :: ys else y :: insertFV x ys

def sortFV : List (FieldDesc × Val) → List (FieldDesc × Val)
  | [] => []
  | x :: xs => insertFV x (sortFV xs)

/-- One level of the reference encoder. -/
def specEncodeLvl (S : Schema) (i : Nat) (child : Nat → Val → Bytes) (v : Val) : Bytes :=
  ((sortFV ((S.msg i).fields.zip v.slots)).map (fun p => specField child p.1 p.2)).flatten ++ v.unknown

/-- Reference deterministic encoding (tree recursion by fuel ≥ depth). A nil message encodes as empty. -/
def specEncode (S : Schema) : Nat → Nat → Val → Bytes
  | 0, _, _ => []
  | fuel+1, i, v => if v.isNone then [] else specEncodeLvl S i (specEncode S fuel) v

/-! ## Generated `size` closure -/

def implElemSize (childSize : Nat → Val → Nat) (e : Elem) (v : Val) : Nat :=
  match e with
  | .scalar k => implScalarSize k v
  | .message i => let l := childSize i v; l + sov l

/-- `SiZeMaP(k, v)`: size contribution of one map entry, including the field key and entry length. -/
def implEntrySize (childSize : Nat → Val → Nat) (num : Nat) (kk : Kind) (e : Elem) (en : Val) : Nat :=
  let keyPart := keySize 1 (Extracted.wireType kk) + implScalarSize kk en.key
  let valPart :=
    match e with
    | .scalar k => keySize 2 (Extracted.wireType k) + implScalarSize k en.value
    | .message i =>
      let l := if en.value.isNone then 0 else childSize i en.value
      l + (keySize 2 Extracted.messageWireType + sov l)
  let mapEntrySize := keyPart + valPart
  mapEntrySize + keySize num Extracted.messageWireType + sov mapEntrySize

/-- Contribution of one field to `n` in the size closure. -/
def implFieldSize (o : MOpts) (childSize : Nat → Val → Nat) (f : FieldDesc) (v : Val) : Nat :=
  let key := keySize f.num f.elem.wireType
  match f.shape with
  | .singular =>
    (match f.elem with
     | .scalar k => if implPresent k v then key + implScalarSize k v else 0
     | .message _ => if v.isNone then 0 else key + implElemSize childSize f.elem v)
  | .oneof _ =>
    (match v with
     | .one x => key + implElemSize childSize f.elem x
     | _ => 0)   -- inactive member, or typed-nil wrapper (`if x == nil { break }`)
  | .repeated packed =>
    if v.elems.isEmpty then 0
    else if packed then
      let l := (v.elems.map (implElemSize childSize f.elem)).sum
      keySize f.num 2 + sov l + l
    else (v.elems.map (fun x => key + implElemSize childSize f.elem x)).sum
  | .map kk =>
    let es := if o.det then sortEntries kk v.elems else o.perm v.elems
    (es.map (implEntrySize childSize f.num kk f.elem)).sum

def implSizeLvl (S : Schema) (i : Nat) (o : MOpts) (childSize : Nat → Val → Nat) (v : Val) : Nat :=
  (((S.msg i).fields.zip v.slots).map (fun p => implFieldSize o childSize p.1 p.2)).sum + v.unknown.length

/-- `proto.Size` on a generated message: nil receiver ⇒ 0. -/
def implSize (S : Schema) (o : MOpts) : Nat → Nat → Val → Nat
  | 0, _, _ => 0
  | fuel+1, i, v => if v.isNone then 0 else implSizeLvl S i o (implSize S o fuel) v

/-! ## Generated `marshal` closure -/

/-- Bytes written for one element after its key: scalar bytes, or `options.Marshal(child)` copied
    behind its length varint. -/
def implElemBytes (childEnc : Nat → Val → Res Bytes) (e : Elem) (v : Val) : Res Bytes :=
  match e with
  | .scalar k => .ok (implScalarBytes k v)
  | .message i =>
    match childEnc i v with
    | .ok b => .ok (varint b.length ++ b)
    | .err e => .err e
    | .panic => .panic

/-- sequence a list of results, concatenating -/
def concatRes : List (Res Bytes) → Res Bytes
  | [] => .ok []
  | r :: rs =>
    match r with
    | .ok b => (match concatRes rs with | .ok bs => .ok (b ++ bs) | .err e => .err e | .panic => .panic)
    | .err e => .err e
    | .panic => .panic

/-- `MaRsHaLmAp(k, v)`: one entry, in final byte order. The entry length prefix is the number of bytes
    actually written (`baseI - i`). -/
def implEntryBytes (childEnc : Nat → Val → Res Bytes) (num : Nat) (kk : Kind) (e : Elem) (en : Val) : Res Bytes :=
  match implElemBytes childEnc e en.value with
  | .ok vb =>
    let body := keyBytes 1 (Extracted.wireType kk) ++ implScalarBytes kk en.key ++
                keyBytes 2 e.wireType ++ vb
    .ok (keyBytes num Extracted.messageWireType ++ varint body.length ++ body)
  | .err e => .err e
  | .panic => .panic

/-- What `marshalField` leaves in the buffer for one field (final byte order), or a panic. -/
def implFieldBytes (o : MOpts) (childEnc : Nat → Val → Res Bytes) (f : FieldDesc) (v : Val) : Res Bytes :=
  let key := keyBytes f.num f.elem.wireType
  match f.shape with
  | .singular =>
    (match f.elem with
     | .scalar k => if implPresent k v then .ok (key ++ implScalarBytes k v) else .ok []
     | .message _ =>
       if v.isNone then .ok []
       else match implElemBytes childEnc f.elem v with
            | .ok b => .ok (key ++ b) | .err e => .err e | .panic => .panic)
  | .oneof _ =>
    (match v with
     | .one x =>
       (match implElemBytes childEnc f.elem x with
        | .ok b => .ok (key ++ b) | .err e => .err e | .panic => .panic)
     | .oneNil => .ok []          -- `case *W: if x == nil { break }` (typed-nil wrapper, fix 424cbe1)
     | _ => .ok [])
  | .repeated packed =>
    if v.elems.isEmpty then .ok []
    else if packed then
      (match f.elem with
       | .scalar k =>
         let body := (v.elems.map (implScalarBytes k)).flatten
         -- varint kinds: `i -= Σ Sov; j := i; forward loop`; a mismatch between the reserved and the
         -- written length would corrupt the buffer — folded into `panic`, shown impossible.
         let reserved := match Extracted.wireType k with
           | 0 => (v.elems.map (implScalarSize k)).sum
           | _ => body.length
         if reserved = body.length then .ok (keyBytes f.num 2 ++ varint reserved ++ body) else .panic
       | .message _ => .panic)
    else
      concatRes (v.elems.map (fun x =>
        match implElemBytes childEnc f.elem x with
        | .ok b => .ok (key ++ b) | .err e => .err e | .panic => .panic))
  | .map kk =>
    -- deterministic: keys sorted ascending, iterated in reverse, each entry prepended ⇒ ascending.
    -- otherwise: Go's iteration order, each entry prepended ⇒ some permutation.
    let es := if o.det then sortEntries kk v.elems else o.perm v.elems
    concatRes (es.map (implEntryBytes childEnc f.num kk f.elem))

/-- The back-filled buffer: `i` free bytes in front of `suffix`. -/
structure BackBuf where
  i : Nat
  suffix : Bytes

/-- Write a chunk immediately before the filled part: index panic iff it does not fit. -/
def BackBuf.write (b : BackBuf) (chunk : Res Bytes) : Res BackBuf :=
  match chunk with
  | .ok c => if c.length ≤ b.i then .ok ⟨b.i - c.length, c ++ b.suffix⟩ else .panic
  | .err e => .err e
  | .panic => .panic

def BackBuf.writeAll (b : BackBuf) : List (Res Bytes) → Res BackBuf
  | [] => .ok b
  | c :: cs =>
    match b.write c with
    | .ok b' => b'.writeAll cs
    | .err e => .err e
    | .panic => .panic

def numGt (a b : FieldDesc × Val) : Bool := a.1.num > b.1.num

def insertDesc (x : FieldDesc × Val) : List (FieldDesc × Val) → List (FieldDesc × Val)
  | [] => [x]
  | y :: ys => if numGt x y then x :: y :: ys else y :: insertDesc x ys

/-- non-oneof fields by descending number: `sort.Slice` ascending, iterated from the end. -/
def sortDesc : List (FieldDesc × Val) → List (FieldDesc × Val)
  | [] => []
  | x :: xs => insertDesc x (sortDesc xs)

/-- oneof groups present in a message, ascending declaration index (`message.Oneofs` order). -/
def groupsOf (fs : List FieldDesc) : List Nat :=
  let gs := fs.filterMap FieldDesc.group?
  (List.range (gs.foldl max 0 + 1)).filter (fun g => gs.contains g)

/-- The write sequence of the marshal closure (each item is one field's chunk). -/
def implWriteSeq (o : MOpts) (childEnc : Nat → Val → Res Bytes) (fvs : List (FieldDesc × Val)) (unknown : Bytes) :
    List (Res Bytes) :=
  let groups := (groupsOf (fvs.map (·.1))).reverse
  let oneofChunks := groups.flatMap (fun g =>
      (fvs.filter (fun p => p.1.group? == some g)).reverse.map (fun p => implFieldBytes o childEnc p.1 p.2))
  let plain := sortDesc (fvs.filter (fun p => !p.1.isOneof))
  [.ok unknown] ++ oneofChunks ++ plain.map (fun p => implFieldBytes o childEnc p.1 p.2)

/-- One level of the marshal closure: returns `dAtA` (any unused prefix stays zero). -/
def implMarshalLvl (S : Schema) (i : Nat) (o : MOpts) (size : Nat) (childEnc : Nat → Val → Res Bytes) (v : Val) :
    Res Bytes :=
  match (BackBuf.mk size []).writeAll (implWriteSeq o childEnc ((S.msg i).fields.zip v.slots) v.unknown) with
  | .ok b => .ok (List.replicate b.i 0 ++ b.suffix)
  | .err e => .err e
  | .panic => .panic

/-- `options.Marshal(x)` for a nested value / the closure part of `proto.Marshal`: nil ⇒ no bytes. -/
def implMarshalClosure (S : Schema) (o : MOpts) : Nat → Nat → Val → Res Bytes
  | 0, _, _ => .ok []
  | fuel+1, i, v =>
    if v.isNone then .ok []
    else implMarshalLvl S i o (implSize S o (fuel+1) i v) (implMarshalClosure S o fuel) v

end Pulsar
