/-
  Pulsar.Basic — shared vocabulary of the model.

  * `Bytes`  : byte strings as lists (no capacity, no aliasing — see DESIGN §3 C04/C07).
  * `Res α`  : the three observable outcomes of a Go call: a value, a returned `error`, a panic.
  * wrap helpers for Go's fixed-width integer arithmetic.
-/
namespace Pulsar

abbrev Bytes := List UInt8

inductive Err
  | eof | overflow | invalidLength | wrongWireType | endGroup | illegalTag | illegalWire
  | depth | utf8 | other
  deriving DecidableEq, Repr, Inhabited

/-- Outcome of a Go call: value, returned `error`, or `panic`. -/
inductive Res (α : Type)
  | ok (a : α)
  | err (e : Err)
  | panic
  deriving Repr, DecidableEq

namespace Res
@[inline] def bind {α β} (r : Res α) (f : α → Res β) : Res β :=
  match r with
  | ok a => f a
  | err e => err e
  | panic => panic
instance : Monad Res where
  pure := ok
  bind := bind

def isOk {α} : Res α → Bool | ok _ => true | _ => false
def isPanic {α} : Res α → Bool | panic => true | _ => false

@[simp] theorem bind_ok {α β} (a : α) (f : α → Res β) : (ok a >>= f) = f a := rfl
@[simp] theorem bind_err {α β} (e : Err) (f : α → Res β) : ((err e : Res α) >>= f) = err e := rfl
@[simp] theorem bind_panic {α β} (f : α → Res β) : ((panic : Res α) >>= f) = panic := rfl
@[simp] theorem pure_eq {α} (a : α) : (pure a : Res α) = ok a := rfl
end Res

/-- 2^64, 2^63, 2^32, 2^31 as plain numerals (kept as `def`s so `omega` can unfold them). -/
def two64 : Nat := 18446744073709551616
def two63 : Nat := 9223372036854775808
def two32 : Nat := 4294967296
def two31 : Nat := 2147483648

/-- Reinterpret the low 64 bits of an integer as a Go `int64`/`int`. -/
def wrap64 (x : Int) : Int :=
  let m := x % 18446744073709551616
  if m < 9223372036854775808 then m else m - 18446744073709551616

/-- Reinterpret the low 32 bits of an integer as a Go `int32`. -/
def wrap32 (x : Int) : Int :=
  let m := x % 4294967296
  if m < 2147483648 then m else m - 4294967296

/-- Signed reading of a 64-bit pattern. -/
def toInt64 (n : Nat) : Int := wrap64 (n : Int)
/-- Signed reading of a 32-bit pattern. -/
def toInt32 (n : Nat) : Int := wrap32 (n : Int)
/-- The 64-bit pattern of an integer (`uint64(x)`). -/
def ofInt64 (x : Int) : Nat := (x % 18446744073709551616).toNat
/-- The 32-bit pattern of an integer (`uint32(x)`). -/
def ofInt32 (x : Int) : Nat := (x % 4294967296).toNat

/-- Sign-extend a 32-bit pattern to a 64-bit pattern: Go `uint64(int32v)`. -/
def sext32 (n : Nat) : Nat := if n < 2147483648 then n else n + (18446744073709551616 - 4294967296)

end Pulsar
