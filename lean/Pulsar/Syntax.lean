/-
  Pulsar.Syntax — text syntax of schemas and values on the line protocol (driver side only; not used
  by any theorem).
-/
import Pulsar.Entry
namespace Pulsar.Syntax
open Pulsar

def hexDigit (n : Nat) : Char := if n < 10 then Char.ofNat (48 + n) else Char.ofNat (87 + n)

def hexOfBytes (bs : Bytes) : String :=
  String.ofList (bs.flatMap (fun b => [hexDigit (b.toNat / 16), hexDigit (b.toNat % 16)]))

def hexVal (c : Char) : Option Nat :=
  if '0' ≤ c ∧ c ≤ '9' then some (c.toNat - 48)
  else if 'a' ≤ c ∧ c ≤ 'f' then some (c.toNat - 87)
  else if 'A' ≤ c ∧ c ≤ 'F' then some (c.toNat - 55)
  else none

def bytesOfHexChars : List Char → Option Bytes
  | [] => some []
  | [_] => none
  | a :: b :: rest => do
    let x ← hexVal a
    let y ← hexVal b
    let r ← bytesOfHexChars rest
    pure ((x * 16 + y).toUInt8 :: r)

def bytesOfHex (s : String) : Option Bytes := bytesOfHexChars s.toList

def natOfHexChars (cs : List Char) : Option Nat :=
  cs.foldlM (fun acc c => do let d ← hexVal c; pure (acc * 16 + d)) 0

def natToHex (n : Nat) : String :=
  if n = 0 then "0" else String.ofList (go n [])
where
  go (n : Nat) (acc : List Char) : List Char :=
    if h : n = 0 then acc else go (n / 16) (hexDigit (n % 16) :: acc)
  termination_by n
  decreasing_by omega

def parseKind : String → Option Kind
  | "int32" => some .int32 | "int64" => some .int64 | "uint32" => some .uint32 | "uint64" => some .uint64
  | "sint32" => some .sint32 | "sint64" => some .sint64 | "bool" => some .bool | "enum" => some .enum
  | "fixed32" => some .fixed32 | "sfixed32" => some .sfixed32 | "float" => some .float
  | "fixed64" => some .fixed64 | "sfixed64" => some .sfixed64 | "double" => some .double
  | "string" => some .string | "bytes" => some .bytes
  | _ => none

def parseElem (s : String) : Option Elem :=
  match s.splitOn ":" with
  | ["k", k] => (parseKind k).map Elem.scalar
  | ["m", n] => n.toNat?.map Elem.message
  | _ => none

def parseShape (s : String) : Option Shape :=
  match s.splitOn ":" with
  | ["s"] => some .singular
  | ["r0"] => some (.repeated false)
  | ["r1"] => some (.repeated true)
  | ["o", g] => g.toNat?.map Shape.oneof
  | ["p", k] => (parseKind k).map Shape.map
  | _ => none

def parseField (s : String) : Option FieldDesc :=
  match s.splitOn "," with
  | [n, e, sh] => do
    let num ← n.toNat?
    let elem ← parseElem e
    let shape ← parseShape sh
    pure ⟨num, elem, shape⟩
  | _ => none

/-- tokens of a schema: fields, with `|` separating messages. -/
def parseSchema (toks : List String) : Option Schema := do
  let groups := splitBar toks [] []
  let msgs ← groups.mapM (fun g => do let fs ← g.mapM parseField; pure (MsgDesc.mk fs))
  pure ⟨msgs⟩
where
  splitBar : List String → List String → List (List String) → List (List String)
    | [], cur, acc => (acc ++ [cur])
    | "|" :: rest, cur, acc => splitBar rest [] (acc ++ [cur])
    | t :: rest, cur, acc => splitBar rest (cur ++ [t]) acc

-- recursive-descent value parser; fuel = number of tokens.
mutual
def parseVal : Nat → List String → Option (Val × List String)
  | 0, _ => none
  | fuel+1, tok :: rest =>
    if tok == "_" then some (.none, rest)
    else if tok == "O" then some (.oneNil, rest)
    else if tok == "(m" then
      match parseVals fuel rest with
      | some (vs, u :: ")" :: rest') =>
        if u.startsWith "u" then (bytesOfHex (u.drop 1).toString).map (fun b => (Val.msg vs b, rest')) else none
      | _ => none
    else if tok == "(l" ∨ tok == "(L" then
      match parseVals fuel rest with
      | some (vs, ")" :: rest') => some (.list (tok == "(L") vs, rest')
      | _ => none
    else if tok == "(p" ∨ tok == "(P" then
      match parseVals fuel rest with
      | some (vs, ")" :: rest') => some (.map (tok == "(P") vs, rest')
      | _ => none
    else if tok == "(e" then
      match parseVal fuel rest with
      | some (k, rest1) =>
        (match parseVal fuel rest1 with
         | some (v, ")" :: rest2) => some (.entry k v, rest2)
         | _ => none)
      | none => none
    else if tok == "(o" then
      match parseVal fuel rest with
      | some (v, ")" :: rest1) => some (.one v, rest1)
      | _ => none
    else if tok.startsWith "b" then (natOfHexChars (tok.drop 1).toString.toList).map (fun n => (Val.bits n, rest))
    else if tok.startsWith "s" then (bytesOfHex (tok.drop 1).toString).map (fun b => (Val.blob false b, rest))
    else if tok.startsWith "S" then (bytesOfHex (tok.drop 1).toString).map (fun b => (Val.blob true b, rest))
    else none
  | _, [] => none
/-- values until a token that cannot start a value (`)` or `u…`). -/
def parseVals : Nat → List String → Option (List Val × List String)
  | 0, toks => some ([], toks)
  | fuel+1, toks =>
    match toks with
    | [] => some ([], [])
    | tok :: _ =>
      if tok == ")" ∨ tok.startsWith "u" then some ([], toks)
      else match parseVal fuel toks with
        | some (v, rest) =>
          (match parseVals fuel rest with
           | some (vs, rest') => some (v :: vs, rest')
           | none => none)
        | none => none
end

mutual
def printVal : Val → String
  | .bits n => "b" ++ natToHex n
  | .blob false b => "s" ++ hexOfBytes b
  | .blob true b => "S" ++ hexOfBytes b
  | .none => "_"
  | .oneNil => "O"
  | .msg s u => "(m " ++ printVals s ++ "u" ++ hexOfBytes u ++ " )"
  | .list nn e => (if nn then "(L " else "(l ") ++ printVals e ++ ")"
  | .map nn e => (if nn then "(P " else "(p ") ++ printVals e ++ ")"
  | .entry k v => "(e " ++ printVal k ++ " " ++ printVal v ++ " )"
  | .one v => "(o " ++ printVal v ++ " )"
def printVals : List Val → String
  | [] => ""
  | v :: vs => printVal v ++ " " ++ printVals vs
end

-- canonical form for comparison: map entries sorted by key (schema-directed), recursively.
mutual
def canonMsg (S : Schema) : Nat → Nat → Val → Val
  | 0, _, v => v
  | fuel+1, i, v =>
    match v with
    | .msg slots u => .msg (canonSlots S fuel (S.msg i).fields slots) u
    | x => x
def canonSlots (S : Schema) : Nat → List FieldDesc → List Val → List Val
  | _, [], vs => vs
  | _, _, [] => []
  | fuel, f :: fs, v :: vs =>
    let v' :=
      match f.shape, f.elem, v with
      | .singular, .message i, v => canonMsg S fuel i v
      | .oneof _, .message i, .one x => .one (canonMsg S fuel i x)
      | .repeated _, .message i, .list nn es => .list nn (es.map (canonMsg S fuel i))
      | .map kk, .message i, .map nn es =>
        .map nn (sortEntries kk (es.map (fun en => .entry en.key (canonMsg S fuel i en.value))))
      | .map kk, .scalar _, .map nn es => .map nn (sortEntries kk es)
      | _, _, v => v
    v' :: canonSlots S fuel fs vs
end

end Pulsar.Syntax
