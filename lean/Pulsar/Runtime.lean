/-
  Pulsar.Runtime — model of /repo/runtime/runtime.go as the code is written
  (Sov via bits.Len64, EncodeVarint writing backwards from an offset into a buffer with Go index
  panics, Skip with Go `int` wrap-around on lengths).
-/
import Pulsar.Wire
namespace Pulsar

/-- `math/bits.Len64` (trusted stdlib): number of bits needed to represent `n`. -/
def bitLen (n : Nat) : Nat := if h : n = 0 then 0 else bitLen (n / 2) + 1
termination_by n
decreasing_by omega

/-- `runtime.Sov(x) = (bits.Len64(x|1) + 6) / 7`. -/
def sov (x : Nat) : Nat := (bitLen (x ||| 1) + 6) / 7

/-- `runtime.Soz(x) = Sov((x << 1) ^ uint64(int64(x) >> 63))` on a 64-bit pattern `x`. -/
def soz (x : Nat) : Nat :=
  sov (((x * 2) % 18446744073709551616) ^^^ (if x < 9223372036854775808 then 0 else 18446744073709551615))

/-- Go slice store `d[i] = b` with index panic. -/
def setAt (d : Bytes) (i : Int) (b : UInt8) : Res Bytes :=
  if i < 0 then .panic
  else if i.toNat < d.length then .ok (d.set i.toNat b) else .panic

/-- The loop of `runtime.EncodeVarint` starting at `pos` (already `offset - Sov(v)`). -/
def encodeVarintLoop (d : Bytes) (pos : Int) (v : Nat) : Res Bytes :=
  if h : v < 128 then setAt d pos v.toUInt8
  else
    match setAt d pos (v % 128 + 128).toUInt8 with
    | .ok d' => encodeVarintLoop d' (pos + 1) (v / 128)
    | .err e => .err e
    | .panic => .panic
termination_by v
decreasing_by omega

/-- `runtime.EncodeVarint(dAtA, offset, v)`: returns the new buffer and the returned base offset. -/
def encodeVarint (d : Bytes) (offset : Nat) (v : Nat) : Res (Bytes × Int) :=
  let base : Int := (offset : Int) - (sov v : Int)
  match encodeVarintLoop d base v with
  | .ok d' => .ok (d', base)
  | .err e => .err e
  | .panic => .panic

/-- Read a varint the way `runtime.Skip` reads tags and lengths: up to 10 bytes (shift 0..63), any
    tenth byte, accumulating into 64 bits (`acc` is kept mod 2^64). Returns value, bytes consumed, rest.
    `k` counts bytes already read. -/
def skipReadVarint : (k : Nat) → (acc : Nat) → Bytes → Res (Nat × Nat × Bytes)
  | _, _, [] => .err .eof
  | k, acc, b :: rest =>
    if k ≥ 10 then .err .overflow
    else
      let acc' := (acc + (b.toNat % 128) * 2 ^ (7 * k)) % 18446744073709551616
      if b.toNat < 128 then .ok (acc', k + 1, rest)
      else if k + 1 ≥ 10 then .err .overflow   -- next iteration has shift ≥ 64, checked before EOF
      else skipReadVarint (k + 1) acc' rest

/-- The main loop of `runtime.Skip`. `consumed` is `iNdEx`, `rest` is `dAtA[iNdEx:]`, `fuel` bounds the
    number of records (each consumes at least one byte). -/
def skipLoop : (fuel : Nat) → (rest : Bytes) → (consumed : Nat) → (depth : Nat) → Res Nat
  | 0, _, _, _ => .err .eof
  | fuel+1, rest, consumed, depth =>
    if rest = [] then .err .eof else
    match skipReadVarint 0 0 rest with
    | .err e => .err e
    | .panic => .panic
    | .ok (wire, n, rest1) =>
      let consumed1 := consumed + n
      let wt := wire % 8
      -- after the switch: (rest2, consumed2, depth2) or an error
      let after : Res (Bytes × Nat × Nat) :=
        if wt = 0 then
          match skipReadVarint 0 0 rest1 with
          | .ok (_, m, r) => .ok (r, consumed1 + m, depth)
          | .err e => .err e
          | .panic => .panic
        else if wt = 1 then .ok (rest1.drop 8, consumed1 + 8, depth)
        else if wt = 2 then
          match skipReadVarint 0 0 rest1 with
          | .ok (len, m, r) =>
            if len ≥ 9223372036854775808 then .err .invalidLength   -- `length < 0`
            else .ok (r.drop len, consumed1 + m + len, depth)
          | .err e => .err e
          | .panic => .panic
        else if wt = 3 then .ok (rest1, consumed1, depth + 1)
        else if wt = 4 then
          if depth = 0 then .err .endGroup else .ok (rest1, consumed1, depth - 1)
        else if wt = 5 then .ok (rest1.drop 4, consumed1 + 4, depth)
        else .err .illegalWire
      match after with
      | .err e => .err e
      | .panic => .panic
      | .ok (rest2, consumed2, depth2) =>
        if consumed2 ≥ 9223372036854775808 then .err .invalidLength   -- `iNdEx < 0` after wrap
        else if depth2 = 0 then .ok consumed2
        else skipLoop fuel rest2 consumed2 depth2

/-- `runtime.Skip(dAtA)`. -/
def skip (bs : Bytes) : Res Nat := skipLoop bs.length bs 0 0

end Pulsar
