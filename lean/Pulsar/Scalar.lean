/-
  Pulsar.Scalar — per-kind scalar encoding: the reference (protowire) form and the forms the
  templates emit (marshal bytes, size expression, proto3 presence test, decode truncations, key order).
-/
import Pulsar.Value
import Pulsar.Extracted
namespace Pulsar

/-! ### Reference side (google.golang.org/protobuf/proto, reflection-driven) -/

/-- The uint64 handed to `protowire.AppendVarint` for a varint-kind scalar whose Go value has bit
    pattern `n` (`proto/encode_gen.go: marshalSingular`). -/
def Kind.toVarint (k : Kind) (n : Nat) : Nat :=
  match k with
  | .int32 | .enum => sext32 n
  | .sint32 => zigzag64 (sext32 n)
  | .sint64 => zigzag64 n
  | _ => n

/-- Reference bytes of one scalar element (without tag). -/
def specScalar (k : Kind) (v : Val) : Bytes :=
  match k with
  | .double | .fixed64 | .sfixed64 => fixed64 v.getBits
  | .float | .fixed32 | .sfixed32 => fixed32 v.getBits
  | .string | .bytes => varint v.getBlob.length ++ v.getBlob
  | k => varint (k.toVarint v.getBits)

/-- proto3 implicit presence (`Has`) of a singular scalar: non-zero bits / non-empty. Floats are
    compared as bit patterns (−0.0 and NaN are present). -/
def specPresent (k : Kind) (v : Val) : Bool :=
  if k.isBlob then v.getBlob.length > 0 else v.getBits != 0

/-! ### Implementation side (what the templates emit) -/

/-- `encodeKey`: generation-time constant bytes of `uint32(num)<<3 | uint32(wt)` (32-bit arithmetic). -/
def keyWord (num wt : Nat) : Nat := (((num % 4294967296) * 8) % 4294967296) ||| wt

def keyBytesLoop (x : Nat) : Bytes :=
  if h : x > 127 then (128 + x % 128).toUInt8 :: keyBytesLoop (x / 128) else [x.toUInt8]
termination_by x
decreasing_by omega

def keyBytes (num wt : Nat) : Bytes := keyBytesLoop (keyWord num wt)

/-- `generator.KeySize`. -/
def keySizeLoop (x : Nat) : Nat := if h : x > 127 then keySizeLoop (x / 128) + 1 else 1
termination_by x
decreasing_by omega

def keySize (num wt : Nat) : Nat := keySizeLoop (keyWord num wt)

/-- wire type the generator uses for a field's key (`generator.ProtoWireType`, table extracted from source). -/
def Elem.wireType : Elem → Nat
  | .scalar k => Extracted.wireType k
  | .message _ => Extracted.messageWireType

/-- Bytes written by `marshalField`/`mapField` for one scalar (what ends up between key and next key).
    `varint` here stands for `runtime.EncodeVarint` (justified by C15_encodeVarint_writes_minimal_varint). -/
def implScalarBytes (k : Kind) (v : Val) : Bytes :=
  match k with
  | .double | .fixed64 | .sfixed64 => fixed64 v.getBits
  | .float | .fixed32 | .sfixed32 => fixed32 v.getBits
  | .int64 | .uint64 | .uint32 => varint v.getBits
  | .int32 | .enum => varint (sext32 v.getBits)
  | .bool => [if v.getBits != 0 then 1 else 0]
  | .string | .bytes => varint v.getBlob.length ++ v.getBlob
  | .sint32 => varint (zigzag32 v.getBits)
  | .sint64 => varint (zigzag64 v.getBits)

/-- Size expression the size template emits for one scalar (without key). -/
def implScalarSize (k : Kind) (v : Val) : Nat :=
  match k with
  | .double | .fixed64 | .sfixed64 => 8
  | .float | .fixed32 | .sfixed32 => 4
  | .int64 | .uint64 | .uint32 => sov v.getBits
  | .int32 | .enum => sov (sext32 v.getBits)
  | .bool => 1
  | .string | .bytes => v.getBlob.length + sov v.getBlob.length
  | .sint32 => soz (sext32 v.getBits)
  | .sint64 => soz v.getBits

/-- The `if x.F != 0 {` / `len(x.F) > 0` / `x.F != 0 || Signbit(x.F)` guard of proto3 singular scalars.
    (For floats `x != 0 || Signbit(x)` is true exactly when the bit pattern is non-zero.) -/
def implPresent (k : Kind) (v : Val) : Bool :=
  match k with
  | .string | .bytes => v.getBlob.length > 0
  | _ => v.getBits != 0

/-! ### Map key order -/

def bytesLt : Bytes → Bytes → Bool
  | [], [] => false
  | [], _ :: _ => true
  | _ :: _, [] => false
  | a :: as, b :: bs => a < b || (a == b && bytesLt as bs)

/-- Go `<` on the map key type (= protobuf-go `order.GenericKeyOrder`): signed kinds compare as signed,
    unsigned as unsigned, bool false<true, strings bytewise. -/
def keyLt (k : Kind) (a b : Val) : Bool :=
  match k with
  | .int32 | .sint32 | .sfixed32 => toInt32 a.getBits < toInt32 b.getBits
  | .int64 | .sint64 | .sfixed64 => toInt64 a.getBits < toInt64 b.getBits
  | .string | .bytes => bytesLt a.getBlob b.getBlob
  | _ => a.getBits < b.getBits

def insertBy (lt : Val → Val → Bool) (x : Val) : List Val → List Val
  | [] => [x]
  | y :: ys => if lt x y then x :: y :: ys else y :: insertBy lt x ys

/-- sort (insertion sort; the result of any correct sort on distinct keys). -/
def sortBy (lt : Val → Val → Bool) : List Val → List Val
  | [] => []
  | x :: xs => insertBy lt x (sortBy lt xs)

def sortEntries (k : Kind) (es : List Val) : List Val := sortBy (fun a b => keyLt k a.key b.key) es

end Pulsar
