/-
  Pulsar.Schema — deeply embedded proto3 schemas: the `programs` quantifier of the properties.
  Everything the generated codec does is decided by (kind, shape, number) of each field.
-/
import Pulsar.Runtime
namespace Pulsar

/-- The 15 scalar kinds + enum (protoreflect.Kind minus message/group). -/
inductive Kind
  | int32 | int64 | uint32 | uint64 | sint32 | sint64 | bool | enum
  | fixed32 | sfixed32 | float | fixed64 | sfixed64 | double | string | bytes
  deriving DecidableEq, Repr, Inhabited

/-- Element type of a field: scalar or message (index into `Schema.msgs`). -/
inductive Elem
  | scalar (k : Kind)
  | message (idx : Nat)
  deriving DecidableEq, Repr, Inhabited

/-- Cardinality / container shape. For `map`, the field's `elem` is the value element. -/
inductive Shape
  | singular
  | repeated (packed : Bool)
  | oneof (group : Nat)
  | map (key : Kind)
  deriving DecidableEq, Repr, Inhabited

structure FieldDesc where
  num : Nat
  elem : Elem
  shape : Shape
  deriving DecidableEq, Repr, Inhabited

/-- A message: fields in declaration order (the generator's `message.Fields`). -/
structure MsgDesc where
  fields : List FieldDesc
  deriving DecidableEq, Repr, Inhabited

structure Schema where
  msgs : List MsgDesc
  deriving DecidableEq, Repr, Inhabited

def Schema.msg (S : Schema) (i : Nat) : MsgDesc := S.msgs.getD i ⟨[]⟩

/-- Bit width of the Go type that holds a numeric kind (`0` for string/bytes). -/
def Kind.width : Kind → Nat
  | .int32 | .uint32 | .sint32 | .enum | .fixed32 | .sfixed32 | .float => 32
  | .int64 | .uint64 | .sint64 | .fixed64 | .sfixed64 | .double => 64
  | .bool => 1
  | .string | .bytes => 0

/-- Wire type by the wire-format specification (0 varint, 1 fixed64, 2 bytes, 5 fixed32). -/
def Kind.specWireType : Kind → Nat
  | .int32 | .int64 | .uint32 | .uint64 | .sint32 | .sint64 | .bool | .enum => 0
  | .fixed64 | .sfixed64 | .double => 1
  | .string | .bytes => 2
  | .fixed32 | .sfixed32 | .float => 5

def Kind.isBlob : Kind → Bool
  | .string | .bytes => true
  | _ => false

/-- Kinds whose repeated form can be packed. -/
def Kind.packable (k : Kind) : Bool := !k.isBlob

/-- Kinds admissible as map keys by the protobuf language. -/
def Kind.validMapKey : Kind → Bool
  | .float | .double | .bytes | .enum => false
  | _ => true

def FieldDesc.isOneof (f : FieldDesc) : Bool := match f.shape with | .oneof _ => true | _ => false
def FieldDesc.group? (f : FieldDesc) : Option Nat := match f.shape with | .oneof g => some g | _ => none

def allDistinct : List Nat → Bool
  | [] => true
  | x :: xs => !xs.contains x && allDistinct xs

/-- Field-level well-formedness (what protoc accepts, restricted to the supported proto3 subset). -/
def FieldDesc.wf (nmsgs : Nat) (f : FieldDesc) : Bool :=
  (1 ≤ f.num && f.num < 536870912 && !(19000 ≤ f.num && f.num ≤ 19999)) &&
  (match f.elem with | .message i => decide (i < nmsgs) | .scalar _ => true) &&
  (match f.shape, f.elem with
   | .repeated true, .scalar k => k.packable
   | .repeated true, .message _ => false
   | .map key, _ => key.validMapKey
   | _, _ => true)

def MsgDesc.wf (nmsgs : Nat) (m : MsgDesc) : Bool :=
  m.fields.all (FieldDesc.wf nmsgs) && allDistinct (m.fields.map (·.num))

/-- Schema well-formedness: decidable, and exactly what the corpus generator produces. -/
def Schema.WF (S : Schema) : Bool := S.msgs.all (MsgDesc.wf S.msgs.length)

end Pulsar
