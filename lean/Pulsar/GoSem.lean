/-
  Pulsar.GoSem — the few Go notions the translated functions (`Pulsar/ExtractedFns.lean`, written by
  /verif/tools/go2lean on every run) are expressed in: nil dereference, byte-slice reads and writes with Go's
  index panics, `math/bits.Len64`, narrow signed wrap-around. Hand-written, core-only, part of the trusted base.
-/
import Pulsar.Runtime
import Pulsar.Timepb
namespace Pulsar.Go
open Pulsar

/-- `*p` / `p.f` on a pointer: a nil pointer panics. -/
def deref {α : Type} : Option α → Res α
  | some a => .ok a
  | none => .panic

/-- flatten a computation that yields a computation (call with effectful arguments). -/
def join {α : Type} (r : Res (Res α)) : Res α :=
  match r with
  | .ok x => x
  | .err e => .err e
  | .panic => .panic

/-- `math/bits.Len64` (trusted stdlib; same reading as `Pulsar.bitLen`). -/
def bitsLen64 (x : Nat) : Int := (bitLen x : Int)

/-- signed wrap-around to a width given by its modulus (int8 / int16). -/
def wrapS (m : Int) (x : Int) : Int :=
  let r := x % m
  if r < m / 2 then r else r - m

/-- bitwise operator on signed values of a type with 2^n = `m` bit patterns (two's complement): applied to the
    bit patterns, the result read back as a signed value -/
def sbits (m : Int) (op : Nat → Nat → Nat) (a b : Int) : Int :=
  let r : Int := ((op (a % m).toNat (b % m).toNat : Nat) : Int) % m
  if r < m / 2 then r else r - m

/-- `d[i]` -/
def getAt (d : Bytes) (i : Int) : Res Nat :=
  if i < 0 then .panic
  else match d[i.toNat]? with
    | some b => .ok b.toNat
    | none => .panic

/-- `d[i] = b` (b already reduced to a byte by the conversion in the source) -/
def setAt (d : Bytes) (i : Int) (b : Nat) : Res Bytes := Pulsar.setAt d i b.toUInt8

@[simp] theorem deref_some {α : Type} (a : α) : deref (some a) = .ok a := rfl
@[simp] theorem deref_none {α : Type} : deref (none : Option α) = .panic := rfl
@[simp] theorem join_ok {α : Type} (x : Res α) : join (.ok x) = x := rfl

end Pulsar.Go
