import Pulsar.Basic
import Pulsar.Wire
import Pulsar.Runtime
import Pulsar.Timepb
import Pulsar.Properties.C15
import Pulsar.Properties.C17
import Pulsar.Entry
