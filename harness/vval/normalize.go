package vval

import (
	"unicode/utf8"

	"github.com/cosmos/cosmos-proto/internal/verifh/vschema"
)

func ValidUTF8(b []byte) bool { return utf8.Valid(b) }

func normScalar(k vschema.Kind, v *Val, container bool) *Val {
	switch k {
	case vschema.String:
		return VBlob(false, v.B)
	case vschema.Bytes:
		if container || len(v.B) > 0 {
			return VBlob(true, v.B)
		}
		return VBlob(false, nil)
	}
	return VBits(v.N)
}

// Normalize returns the representation a decoder rebuilds for an equal value: empty containers are
// nil, decoded bytes are non-nil, everything else unchanged (scalars bit-exact).
func Normalize(s *vschema.Schema, mi int, v *Val) *Val {
	if v.T != Msg {
		return v
	}
	out := &Val{T: Msg, B: v.B}
	for j, f := range s.Msgs[mi].Fields {
		if j >= len(v.Kids) {
			break
		}
		slot := v.Kids[j]
		el := func(x *Val, container bool) *Val {
			if f.IsMsg {
				if container && x.T == None {
					return Empty(s, f.Msg) // a nil element encodes as an empty message
				}
				return Normalize(s, f.Msg, x)
			}
			return normScalar(f.Kind, x, container)
		}
		switch f.Shape {
		case vschema.Singular:
			out.Kids = append(out.Kids, el(slot, false))
		case vschema.Repeated:
			if len(slot.Kids) == 0 {
				out.Kids = append(out.Kids, VList(false, nil))
			} else {
				l := &Val{T: List, NonNil: true}
				for _, e := range slot.Kids {
					l.Kids = append(l.Kids, el(e, true))
				}
				out.Kids = append(out.Kids, l)
			}
		case vschema.Map:
			if len(slot.Kids) == 0 {
				out.Kids = append(out.Kids, VMap(false, nil))
			} else {
				m := &Val{T: Map, NonNil: true}
				for _, e := range slot.Kids {
					m.Kids = append(m.Kids, VEntry(normScalar(f.Key, e.Kids[0], true), el(e.Kids[1], true)))
				}
				out.Kids = append(out.Kids, m)
			}
		case vschema.Oneof:
			if slot.T == One {
				out.Kids = append(out.Kids, VOne(el(slot.Kids[0], true)))
			} else if slot.T == OneNil {
				out.Kids = append(out.Kids, VNone()) // a typed-nil wrapper is an unset oneof
			} else {
				out.Kids = append(out.Kids, slot)
			}
		}
	}
	return out
}

// PermuteMaps returns an equal value built differently: map entries reversed/rotated, and (variant odd)
// nil-vs-empty flipped on empty containers.
func PermuteMaps(v *Val, variant int) *Val {
	out := &Val{T: v.T, N: v.N, NonNil: v.NonNil, B: v.B}
	for _, k := range v.Kids {
		out.Kids = append(out.Kids, PermuteMaps(k, variant))
	}
	if v.T == Map && len(out.Kids) > 1 {
		n := len(out.Kids)
		switch variant % 3 {
		case 0:
			for i, j := 0, n-1; i < j; i, j = i+1, j-1 {
				out.Kids[i], out.Kids[j] = out.Kids[j], out.Kids[i]
			}
		case 1:
			out.Kids = append(out.Kids[n/2:], out.Kids[:n/2]...)
		}
	}
	if (v.T == Map || v.T == List) && len(v.Kids) == 0 && variant%2 == 1 {
		out.NonNil = !v.NonNil
	}
	if v.T == Blob && len(v.B) == 0 && variant%2 == 1 {
		// nil-vs-empty bytes (singular, list element, map value, oneof member); no effect on strings
		out.NonNil = !v.NonNil
	}
	return out
}
