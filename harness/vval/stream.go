package vval

import (
	"strings"
	"sort"

	"github.com/cosmos/cosmos-proto/internal/verifh/vschema"
	"google.golang.org/protobuf/encoding/protowire"
)

// StreamGen builds well-typed wire streams from records (not from an encoder): arbitrary order,
// duplicates, packed/unpacked alternation, split packed runs, non-minimal varints, partial /
// duplicated / reordered map-entry parts, unknown records at every level. Features records which
// constructs occurred (used to classify disagreements against the known-findings list).
type StreamGen struct {
	R        *vschema.Rand
	S        *vschema.Schema
	G        *GenOpts
	Features map[string]bool
	MaxDepth int
	// plainTags > 0 while generating the content of a message type that is not implemented by the generated code
	plainTags int
}

func (g *StreamGen) feat(f string) { g.Features[f] = true }

func (g *StreamGen) FeatureKey() string {
	var fs []string
	for f := range g.Features {
		fs = append(fs, f)
	}
	sort.Strings(fs)
	out := ""
	for _, f := range fs {
		out += "[" + f + "]"
	}
	return out
}

// varint, sometimes non-minimal (still ≤ 10 bytes and valid for protowire)
func (g *StreamGen) appendVarint(b []byte, v uint64) []byte {
	enc := protowire.AppendVarint(nil, v)
	if g.R.Chance(12) && len(enc) < 9 {
		g.feat("nonminimal-varint")
		pad := 1 + g.R.Intn(9-len(enc))
		if g.R.Chance(25) {
			pad = 10 - len(enc) // exactly ten bytes, the last one 0x00
		}
		enc[len(enc)-1] |= 0x80
		for i := 0; i < pad-1; i++ {
			enc = append(enc, 0x80)
		}
		enc = append(enc, 0x00)
	}
	return append(b, enc...)
}

func wireTypeOf(k vschema.Kind) protowire.Type {
	switch k {
	case vschema.Fixed32, vschema.Sfixed32, vschema.Float:
		return protowire.Fixed32Type
	case vschema.Fixed64, vschema.Sfixed64, vschema.Double:
		return protowire.Fixed64Type
	case vschema.String, vschema.Bytes:
		return protowire.BytesType
	}
	return protowire.VarintType
}

// scalar payload for a random value of kind k (valid UTF-8 for strings)
func (g *StreamGen) scalarPayload(b []byte, k vschema.Kind) []byte {
	v := g.G.Scalar(g.R, k)
	switch wireTypeOf(k) {
	case protowire.Fixed32Type:
		return protowire.AppendFixed32(b, uint32(v.N))
	case protowire.Fixed64Type:
		return protowire.AppendFixed64(b, v.N)
	case protowire.BytesType:
		b = g.appendVarint(b, uint64(len(v.B)))
		return append(b, v.B...)
	}
	n := v.N
	switch k {
	case vschema.Int32, vschema.Enum:
		n = uint64(int64(int32(uint32(n))))
		if g.R.Chance(5) { // int32 sent as a truncated-to-be 64-bit varint with junk high bits
			n = uint64(uint32(v.N)) | uint64(1+g.R.Intn(0xFFFF))<<(32+uint(g.R.Intn(16)))
			g.feat("wide-varint-for-32bit")
		}
	case vschema.Sint32:
		n = protowire.EncodeZigZag(int64(int32(uint32(n)))) & 0xFFFFFFFF
		if g.R.Chance(8) { // junk above bit 31: decoders keep the low 32 bits, then zig-zag decode
			n |= uint64(1+g.R.Intn(0xFFFF)) << (32 + uint(g.R.Intn(16)))
			g.feat("wide-varint-for-32bit")
		}
	case vschema.Sint64:
		n = protowire.EncodeZigZag(int64(n))
	case vschema.Bool:
		if g.R.Chance(10) {
			n = 2 + uint64(g.R.Intn(300)) // any non-zero varint is true
			if g.R.Chance(30) {
				n = uint64(1+g.R.Intn(255)) << (8 * uint(1+g.R.Intn(7))) // low byte / low 32 bits all zero
			}
		}
	case vschema.Uint32:
		n &= 0xFFFFFFFF
		if g.R.Chance(8) {
			n |= uint64(1+g.R.Intn(0xFFFF)) << (32 + uint(g.R.Intn(16)))
			g.feat("wide-varint-for-32bit")
		}
	}
	return g.appendVarint(b, n)
}

func (g *StreamGen) unknownRecord(b []byte, used map[int]bool) []byte {
	g.feat("unknown")
	tail := UnknownTail(g.R, used, 0)
	if g.plainTags == 0 && g.R.Chance(15) {
		// the tag of the first unknown record encoded with more bytes than needed (same number, same wire type)
		if _, n := protowire.ConsumeVarint(tail); n > 0 && n < 9 {
			g.feat("nonminimal-tag")
			enc := append([]byte{}, tail[:n]...)
			enc[n-1] |= 0x80
			// one to three extra bytes, now and then all the way to the ten bytes a varint may have
			extra := g.R.Intn(3)
			if g.R.Chance(30) {
				extra = 9 - len(enc)
			}
			for i := extra; i > 0 && len(enc) < 9; i-- {
				enc = append(enc, 0x80)
			}
			enc = append(enc, 0x00)
			tail = append(enc, tail[n:]...)
		}
	}
	return append(b, tail...)
}

// appendTag: the key of a record, now and then encoded with more bytes than needed (valid for every decoder)
func (g *StreamGen) appendTag(b []byte, num protowire.Number, wt protowire.Type) []byte {
	enc := protowire.AppendTag(nil, num, wt)
	if g.plainTags == 0 && g.R.Chance(4) && len(enc) < 9 {
		g.feat("nonminimal-tag")
		enc[len(enc)-1] |= 0x80
		extra := g.R.Intn(2)
		if g.R.Chance(30) {
			extra = 9 - len(enc) // the longest encoding a decoder has to accept: ten bytes
		}
		for i := extra; i > 0 && len(enc) < 9; i-- {
			enc = append(enc, 0x80)
		}
		enc = append(enc, 0x00)
	}
	return append(b, enc...)
}

func (g *StreamGen) elemRecord(b []byte, f *vschema.Field, depth int) []byte {
	if f.IsMsg {
		b = g.appendTag(b, protowire.Number(f.Num), protowire.BytesType)
		var sub []byte
		if depth < g.MaxDepth {
			sub = g.Message(f.Msg, depth+1)
		}
		b = g.appendVarint(b, uint64(len(sub)))
		return append(b, sub...)
	}
	b = g.appendTag(b, protowire.Number(f.Num), wireTypeOf(f.Kind))
	return g.scalarPayload(b, f.Kind)
}

// Message: a well-typed record sequence for message index mi.
func (g *StreamGen) Message(mi int, depth int) []byte {
	m := &g.S.Msgs[mi]
	if strings.HasPrefix(m.FullName, "google.protobuf.") {
		// a message type implemented by protobuf-go itself (well-known type): its table-driven decoder re-encodes
		// the tags of the unknown records it keeps, so over-long tags are not comparable there (and say nothing
		// about the generated code)
		g.plainTags++
		defer func() { g.plainTags-- }()
	}
	var b []byte
	if len(m.Fields) == 0 {
		if g.R.Chance(30) {
			return g.unknownRecord(b, map[int]bool{})
		}
		return b
	}
	used := map[int]bool{}
	for _, f := range m.Fields {
		used[f.Num] = true
	}
	n := g.R.Intn(7)
	seenField := map[int]int{}
	seenGroup := map[int]int{}
	for i := 0; i < n; i++ {
		if g.R.Chance(15) {
			b = g.unknownRecord(b, used)
			continue
		}
		var f *vschema.Field
		if len(seenField) > 0 && g.R.Chance(25) { // deliberately repeat an earlier field
			k := g.R.Intn(len(m.Fields))
			for j := 0; j < len(m.Fields); j++ {
				c := &m.Fields[(k+j)%len(m.Fields)]
				if seenField[c.Num] > 0 {
					f = c
					break
				}
			}
		}
		if f == nil {
			f = &m.Fields[g.R.Intn(len(m.Fields))]
		}
		seenField[f.Num]++
		switch f.Shape {
		case vschema.Singular:
			if seenField[f.Num] > 1 {
				if f.IsMsg {
					g.feat("dup-singular-msg")
				} else {
					g.feat("dup-singular-scalar")
				}
			}
			b = g.elemRecord(b, f, depth)
		case vschema.Oneof:
			if seenField[f.Num] > 1 && f.IsMsg {
				g.feat("dup-oneof-msg")
			}
			seenGroup[f.Group]++
			if seenGroup[f.Group] > 1 {
				g.feat("oneof-replaced")
			}
			b = g.elemRecord(b, f, depth)
		case vschema.Repeated:
			if !f.IsMsg && f.Kind.Packable() && g.R.Chance(55) {
				// packed run (possibly empty), regardless of the declared packedness
				g.feat("packed-run")
				cnt := g.R.Intn(5)
				var body []byte
				for j := 0; j < cnt; j++ {
					body = g.scalarPayload(body, f.Kind)
				}
				b = g.appendTag(b, protowire.Number(f.Num), protowire.BytesType)
				b = g.appendVarint(b, uint64(len(body)))
				b = append(b, body...)
			} else {
				b = g.elemRecord(b, f, depth)
			}
		case vschema.Map:
			b = g.appendTag(b, protowire.Number(f.Num), protowire.BytesType)
			var body []byte
			parts := g.R.Intn(5)
			nk, nv := 0, 0
			for j := 0; j < parts; j++ {
				switch g.R.Intn(7) {
				case 0, 1, 2:
					nk++
					if nk > 1 {
						g.feat("dup-map-key")
						if wireTypeOf(f.Key) == protowire.VarintType && f.Key != vschema.Bool && f.Key != vschema.Sint32 && f.Key != vschema.Sint64 {
							g.feat("dup-map-varint-key")
						}
					}
					body = protowire.AppendTag(body, 1, wireTypeOf(f.Key))
					body = g.scalarPayload(body, f.Key)
				case 3, 4, 5:
					nv++
					if nv > 1 {
						g.feat("dup-map-value")
						if f.IsMsg {
							g.feat("dup-map-value-msg")
						} else if wireTypeOf(f.Kind) == protowire.VarintType && f.Kind != vschema.Bool && f.Kind != vschema.Sint32 && f.Kind != vschema.Sint64 {
							g.feat("dup-map-varint-value")
						}
					}
					vf := *f
					vf.Num = 2
					body = g.elemRecord(body, &vf, depth)
				default:
					g.feat("unknown-in-map-entry")
					body = append(body, UnknownTail(g.R, map[int]bool{1: true, 2: true}, 0)...)
				}
			}
			if nk == 0 {
				g.feat("map-missing-key")
			}
			if nv == 0 {
				g.feat("map-missing-value")
				if f.IsMsg {
					g.feat("map-missing-msg-value")
				}
			}
			b = g.appendVarint(b, uint64(len(body)))
			b = append(b, body...)
		}
	}
	return b
}

// ScalarRecord: tag + payload of a random value of kind k under field number num.
func (g *StreamGen) ScalarRecord(num int, k vschema.Kind) []byte {
	b := protowire.AppendTag(nil, protowire.Number(num), wireTypeOf(k))
	return g.scalarPayload(b, k)
}

// ElemRecord: one record (tag + payload) for an element of field f appended to b.
func (g *StreamGen) ElemRecord(b []byte, f *vschema.Field, depth int) []byte {
	return g.elemRecord(b, f, depth)
}
