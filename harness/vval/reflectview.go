package vval

import (
	"math"

	"github.com/cosmos/cosmos-proto/internal/verifh/vschema"
	"google.golang.org/protobuf/reflect/protoreflect"
)

// RepNorm: representation-independent form (all nonNil flags cleared, map entries sorted): mirrors the
// Lean `repNorm`.
func RepNorm(s *vschema.Schema, mi int, v *Val) *Val {
	c := Canon(s, mi, v)
	var clr func(x *Val) *Val
	clr = func(x *Val) *Val {
		o := &Val{T: x.T, N: x.N, B: x.B}
		for _, k := range x.Kids {
			o.Kids = append(o.Kids, clr(k))
		}
		return o
	}
	return clr(c)
}

func scalarFromValue(k vschema.Kind, v protoreflect.Value) *Val {
	switch k {
	case vschema.Bool:
		if v.Bool() {
			return VBits(1)
		}
		return VBits(0)
	case vschema.Int32, vschema.Sint32, vschema.Sfixed32:
		return VBits(uint64(uint32(int32(v.Int()))))
	case vschema.Int64, vschema.Sint64, vschema.Sfixed64:
		return VBits(uint64(v.Int()))
	case vschema.Uint32, vschema.Fixed32, vschema.Uint64, vschema.Fixed64:
		return VBits(v.Uint())
	case vschema.Enum:
		return VBits(uint64(uint32(int32(v.Enum()))))
	case vschema.Float:
		return VBits(uint64(math.Float32bits(float32(v.Float()))))
	case vschema.Double:
		return VBits(math.Float64bits(v.Float()))
	case vschema.String:
		return VBlob(false, []byte(v.String()))
	case vschema.Bytes:
		return VBlob(false, append([]byte(nil), v.Bytes()...))
	}
	panic("scalarFromValue")
}

// FromReflect reads any protoreflect.Message (reference dynamicpb, slow struct reflection, or the
// fast reflection under test) into the representation-independent Val form.
func FromReflect(s *vschema.Schema, mi int, m protoreflect.Message) *Val {
	out := &Val{T: Msg}
	md := m.Descriptor()
	for _, f := range s.Msgs[mi].Fields {
		f := f
		fd := md.Fields().ByNumber(protoreflect.FieldNumber(f.Num))
		el := func(v protoreflect.Value) *Val {
			if f.IsMsg {
				return FromReflect(s, f.Msg, v.Message())
			}
			return scalarFromValue(f.Kind, v)
		}
		switch f.Shape {
		case vschema.Singular:
			if f.IsMsg {
				if !m.Has(fd) {
					out.Kids = append(out.Kids, VNone())
				} else {
					out.Kids = append(out.Kids, el(m.Get(fd)))
				}
			} else {
				out.Kids = append(out.Kids, el(m.Get(fd)))
			}
		case vschema.Repeated:
			l := &Val{T: List}
			if m.Has(fd) {
				lv := m.Get(fd).List()
				for i := 0; i < lv.Len(); i++ {
					l.Kids = append(l.Kids, el(lv.Get(i)))
				}
			}
			out.Kids = append(out.Kids, l)
		case vschema.Map:
			mv := &Val{T: Map}
			if m.Has(fd) {
				m.Get(fd).Map().Range(func(k protoreflect.MapKey, v protoreflect.Value) bool {
					mv.Kids = append(mv.Kids, VEntry(scalarFromValue(f.Key, k.Value()), el(v)))
					return true
				})
			}
			out.Kids = append(out.Kids, mv)
		case vschema.Oneof:
			if m.Has(fd) {
				out.Kids = append(out.Kids, VOne(el(m.Get(fd))))
			} else {
				out.Kids = append(out.Kids, VNone())
			}
		}
	}
	out.B = append([]byte(nil), m.GetUnknown()...)
	return RepNorm(s, mi, out)
}

// ScalarFromValue exposes the scalar conversion (protoreflect.Value -> bits/blob token) for engines.
func ScalarFromValue(k vschema.Kind, v protoreflect.Value) *Val { return scalarFromValue(k, v) }
