package vval

import (
	"math"

	"github.com/cosmos/cosmos-proto/internal/verifh/vschema"
	"google.golang.org/protobuf/reflect/protoreflect"
)

// RepNorm: representation-independent form (all nonNil flags cleared, map entries sorted): mirrors the
// Lean `repNorm`.
func RepNorm(s *vschema.Schema, mi int, v *Val) *Val {
	c := Canon(s, mi, v)
	var clr func(x *Val) *Val
	clr = func(x *Val) *Val {
		o := &Val{T: x.T, N: x.N, B: x.B}
		for _, k := range x.Kids {
			o.Kids = append(o.Kids, clr(k))
		}
		return o
	}
	return clr(c)
}

func scalarFromValue(k vschema.Kind, v protoreflect.Value) *Val {
	switch k {
	case vschema.Bool:
		if v.Bool() {
			return VBits(1)
		}
		return VBits(0)
	case vschema.Int32, vschema.Sint32, vschema.Sfixed32:
		return VBits(uint64(uint32(int32(v.Int()))))
	case vschema.Int64, vschema.Sint64, vschema.Sfixed64:
		return VBits(uint64(v.Int()))
	case vschema.Uint32, vschema.Fixed32, vschema.Uint64, vschema.Fixed64:
		return VBits(v.Uint())
	case vschema.Enum:
		return VBits(uint64(uint32(int32(v.Enum()))))
	case vschema.Float:
		return VBits(uint64(math.Float32bits(float32(v.Float()))))
	case vschema.Double:
		return VBits(math.Float64bits(v.Float()))
	case vschema.String:
		return VBlob(false, []byte(v.String()))
	case vschema.Bytes:
		return VBlob(false, append([]byte(nil), v.Bytes()...))
	}
	panic("scalarFromValue")
}

// FromReflect reads any protoreflect.Message (reference dynamicpb, slow struct reflection, or the
// fast reflection under test) into the representation-independent Val form.
func FromReflect(s *vschema.Schema, mi int, m protoreflect.Message) *Val {
	out := &Val{T: Msg}
	md := m.Descriptor()
	for _, f := range s.Msgs[mi].Fields {
		f := f
		fd := md.Fields().ByNumber(protoreflect.FieldNumber(f.Num))
		el := func(v protoreflect.Value) *Val {
			if f.IsMsg {
				return FromReflect(s, f.Msg, v.Message())
			}
			return scalarFromValue(f.Kind, v)
		}
		switch f.Shape {
		case vschema.Singular:
			if f.IsMsg {
				if !m.Has(fd) {
					out.Kids = append(out.Kids, VNone())
				} else {
					out.Kids = append(out.Kids, el(m.Get(fd)))
				}
			} else {
				out.Kids = append(out.Kids, el(m.Get(fd)))
			}
		case vschema.Repeated:
			l := &Val{T: List}
			if m.Has(fd) {
				lv := m.Get(fd).List()
				for i := 0; i < lv.Len(); i++ {
					l.Kids = append(l.Kids, el(lv.Get(i)))
				}
			}
			out.Kids = append(out.Kids, l)
		case vschema.Map:
			mv := &Val{T: Map}
			if m.Has(fd) {
				m.Get(fd).Map().Range(func(k protoreflect.MapKey, v protoreflect.Value) bool {
					mv.Kids = append(mv.Kids, VEntry(scalarFromValue(f.Key, k.Value()), el(v)))
					return true
				})
			}
			out.Kids = append(out.Kids, mv)
		case vschema.Oneof:
			if m.Has(fd) {
				out.Kids = append(out.Kids, VOne(el(m.Get(fd))))
			} else {
				out.Kids = append(out.Kids, VNone())
			}
		}
	}
	out.B = append([]byte(nil), m.GetUnknown()...)
	return RepNorm(s, mi, out)
}

// ScalarFromValue exposes the scalar conversion (protoreflect.Value -> bits/blob token) for engines.
func ScalarFromValue(k vschema.Kind, v protoreflect.Value) *Val { return scalarFromValue(k, v) }

func valueOfScalar(k vschema.Kind, v *Val) (protoreflect.Value, bool) {
	switch k {
	case vschema.Bool:
		return protoreflect.ValueOfBool(v.N != 0), v.T == Bits
	case vschema.Int32, vschema.Sint32, vschema.Sfixed32:
		return protoreflect.ValueOfInt32(int32(uint32(v.N))), v.T == Bits
	case vschema.Int64, vschema.Sint64, vschema.Sfixed64:
		return protoreflect.ValueOfInt64(int64(v.N)), v.T == Bits
	case vschema.Uint32, vschema.Fixed32:
		return protoreflect.ValueOfUint32(uint32(v.N)), v.T == Bits
	case vschema.Uint64, vschema.Fixed64:
		return protoreflect.ValueOfUint64(v.N), v.T == Bits
	case vschema.Enum:
		return protoreflect.ValueOfEnum(protoreflect.EnumNumber(int32(uint32(v.N)))), v.T == Bits
	case vschema.Float:
		return protoreflect.ValueOfFloat32(math.Float32frombits(uint32(v.N))), v.T == Bits
	case vschema.Double:
		return protoreflect.ValueOfFloat64(math.Float64frombits(v.N)), v.T == Bits
	case vschema.String:
		return protoreflect.ValueOfString(string(v.B)), v.T == Blob
	case vschema.Bytes:
		return protoreflect.ValueOfBytes(append([]byte{}, v.B...)), v.T == Blob
	}
	return protoreflect.Value{}, false
}

// ToReflect stores the value v into the (empty) message m through the reflection API alone: an INDEPENDENT way to
// a reference message holding v (no encoder or decoder of the code under test in between). Returns false when v
// has no such counterpart (nil junk in element positions, malformed trees); proto3 scalars equal to zero stay unset.
func ToReflect(s *vschema.Schema, mi int, v *Val, m protoreflect.Message) bool {
	if v == nil || v.T != Msg || len(v.Kids) != len(s.Msgs[mi].Fields) {
		return false
	}
	md := m.Descriptor()
	ok := true
	for j, f := range s.Msgs[mi].Fields {
		f := f
		fd := md.Fields().ByNumber(protoreflect.FieldNumber(f.Num))
		if fd == nil {
			return false
		}
		slot := v.Kids[j]
		elem := func(x *Val, newMsg func() protoreflect.Message) (protoreflect.Value, bool) {
			if f.IsMsg {
				sub := newMsg()
				if !ToReflect(s, f.Msg, x, sub) {
					return protoreflect.Value{}, false
				}
				return protoreflect.ValueOfMessage(sub), true
			}
			return valueOfScalar(f.Kind, x)
		}
		switch f.Shape {
		case vschema.Singular:
			if slot.T == None {
				continue
			}
			if !f.IsMsg && ((slot.T == Bits && slot.N == 0) || (slot.T == Blob && len(slot.B) == 0)) {
				continue
			}
			val, o := elem(slot, func() protoreflect.Message { return m.NewField(fd).Message() })
			if !o {
				return false
			}
			m.Set(fd, val)
		case vschema.Oneof:
			if slot.T == None {
				continue
			}
			if slot.T != One || len(slot.Kids) != 1 {
				return false
			}
			val, o := elem(slot.Kids[0], func() protoreflect.Message { return m.NewField(fd).Message() })
			if !o {
				return false
			}
			m.Set(fd, val)
		case vschema.Repeated:
			if slot.T != List {
				return false
			}
			if len(slot.Kids) == 0 {
				continue
			}
			l := m.Mutable(fd).List()
			for _, e := range slot.Kids {
				val, o := elem(e, func() protoreflect.Message { return l.NewElement().Message() })
				if !o {
					return false
				}
				l.Append(val)
			}
		case vschema.Map:
			if slot.T != Map {
				return false
			}
			if len(slot.Kids) == 0 {
				continue
			}
			mp := m.Mutable(fd).Map()
			for _, e := range slot.Kids {
				if e.T != Entry || len(e.Kids) != 2 {
					return false
				}
				kv, o1 := valueOfScalar(f.Key, e.Kids[0])
				val, o2 := elem(e.Kids[1], func() protoreflect.Message { return mp.NewValue().Message() })
				if !o1 || !o2 {
					return false
				}
				mp.Set(kv.MapKey(), val)
			}
		}
	}
	if len(v.B) > 0 {
		m.SetUnknown(append(protoreflect.RawFields(nil), v.B...))
	}
	return ok
}
