package vval

import (
	"encoding/binary"
	"math"

	"github.com/cosmos/cosmos-proto/internal/verifh/vschema"
	"google.golang.org/protobuf/encoding/protowire"
)

type GenOpts struct {
	// BigBlobs: now and then a bytes value of 32 KiB .. 70 KB (larger than block / pool sizes a codec may use)
	BigBlobs bool
	MaxDepth  int
	NilJunk   bool // nil list elements, nil message map values, typed-nil wrappers, wrappers holding nil
	Unknown   bool // unknown-field tails
	BadUTF8   bool // allow invalid UTF-8 in strings
	BigMaps   bool
	EnumNums  []int32 // declared numbers to favour for enum fields (undeclared also drawn)
	Budget    int     // remaining node budget (bounds the size of one generated value)
}

var boundary64 = []uint64{0, 1, 2, 127, 128, 129, 255, 256, 16383, 16384, 1<<21 - 1, 1 << 21, 1<<28 - 1, 1 << 28,
	1<<31 - 1, 1 << 31, 1<<32 - 1, 1 << 32, 1<<35 - 1, 1 << 35, 1<<42 - 1, 1 << 42, 1<<49 - 1, 1 << 49, 1<<56 - 1, 1 << 56,
	1<<63 - 1, 1 << 63, 1<<64 - 1, 1<<64 - 2, 1<<63 + 1, 0xFFFFFFFF80000000, 0xFFFFFFFF7FFFFFFF}

var floatBits32 = []uint64{0, 0x80000000, 0x3f800000, 0xbf800000, 0x7f800000, 0xff800000, 0x7fc00000, 0x7fa00000, 0xffc00001, 0x7f800001, 1, 0x007fffff, 0x7f7fffff}
var floatBits64 = []uint64{0, 0x8000000000000000, 0x3ff0000000000000, 0xbff0000000000000, 0x7ff0000000000000, 0xfff0000000000000,
	0x7ff8000000000000, 0x7ff4000000000000, 0xfff8000000000001, 0x7ff0000000000001, 1, 0x000fffffffffffff, 0x7fefffffffffffff}

var strPool = []string{"", "a", "hi", "héllo", "日本語", "\x00", "emoji😀", "with space", "k", "key", "zz", "߿ࠀ￿", "a\x7fb"}

// textPool: values that stress every text rendering of a message (String(), prototext, protojson): escapes at the
// end of a literal, runs of blanks (which a whitespace-normalising post-processor would collapse), quotes, braces,
// comment and separator characters, control characters
var textPool = []string{"a\\", "C:\\dir\\", "two  blanks", "   ", "x   y  z", "\"quoted\"", "\\\"", "tab\there", "line\nbreak", "'", "\\", "  lead", "trail  ",
	"{}", "<a: 1>", "[x]", "# c", "a;b,c", "\\  \\", "k: \"v\"  ", "\r\n", "end\\ ", "\\'"}
var badStr = []string{"\xff", "a\xc0\xafb", "\xed\xa0\x80", "\xf4\x90\x80\x80", "\xe2\x82"}

func (o *GenOpts) Scalar(r *vschema.Rand, k vschema.Kind) *Val {
	switch k {
	case vschema.String:
		if o.BadUTF8 && r.Chance(10) {
			return VBlob(false, []byte(badStr[r.Intn(len(badStr))]))
		}
		switch r.Intn(40) {
		case 0, 2, 3:
			b := make([]byte, 126+r.Intn(4))
			for i := range b {
				b[i] = byte('a' + r.Intn(26))
			}
			return VBlob(false, b)
		case 1:
			b := make([]byte, 2000+r.Intn(3000))
			for i := range b {
				b[i] = byte('A' + r.Intn(26))
			}
			return VBlob(false, b)
		}
		if r.Chance(22) {
			return VBlob(false, []byte(textPool[r.Intn(len(textPool))]))
		}
		return VBlob(false, []byte(strPool[r.Intn(len(strPool))]))
	case vschema.Bytes:
		if r.Chance(10) {
			return VBlob(true, []byte(textPool[r.Intn(len(textPool))]))
		}
		if o.BigBlobs && r.Chance(6) {
			b := make([]byte, []int{32767, 32768, 32769, 40000, 65536, 70001}[r.Intn(6)])
			for i := range b {
				b[i] = byte(i*31 + 7)
			}
			return VBlob(true, b)
		}
		switch r.Intn(8) {
		case 0:
			return VBlob(false, nil)
		case 1:
			return VBlob(true, []byte{})
		case 2:
			b := make([]byte, 127+r.Intn(3))
			for i := range b {
				b[i] = byte(r.U64())
			}
			return VBlob(true, b)
		}
		b := make([]byte, 1+r.Intn(6))
		for i := range b {
			b[i] = byte(r.U64())
		}
		return VBlob(true, b)
	case vschema.Bool:
		return VBits(uint64(r.Intn(2)))
	case vschema.Float:
		if r.Chance(60) {
			return VBits(floatBits32[r.Intn(len(floatBits32))])
		}
		return VBits(r.U64() & 0xFFFFFFFF)
	case vschema.Double:
		if r.Chance(60) {
			return VBits(floatBits64[r.Intn(len(floatBits64))])
		}
		return VBits(r.U64())
	case vschema.Enum:
		if len(o.EnumNums) > 0 && r.Chance(70) {
			return VBits(uint64(uint32(o.EnumNums[r.Intn(len(o.EnumNums))])))
		}
	}
	var n uint64
	switch r.Intn(4) {
	case 0:
		n = r.U64()
	case 1:
		n = uint64(r.Intn(300))
	default:
		n = boundary64[r.Intn(len(boundary64))]
		if r.Chance(30) {
			n = -n
		}
	}
	if k.Width() == 32 {
		n &= 0xFFFFFFFF
	}
	return VBits(n)
}

// UnknownTail: well-formed records with numbers not in `used`.
func UnknownTail(r *vschema.Rand, used map[int]bool, depth int) []byte {
	var out []byte
	n := 1 + r.Intn(3)
	for i := 0; i < n; i++ {
		var num int
		for {
			switch r.Intn(5) {
			case 0:
				num = 1 + r.Intn(536870911)
			case 1:
				num = 536870911
			case 2:
				// numbers no schema can declare (19000..19999 are reserved for the protobuf implementation) but that are
				// ordinary field numbers on the wire, and the tag-width boundaries
				// ... and small numbers that corpus messages declare as `reserved` (5 to 7, 10, 100 to 200)
				num = []int{18999, 19000, 19001, 19500, 19999, 20000, 15, 16, 2047, 2048, 262143, 262144, 33554431, 33554432, 5, 6, 7, 10, 100, 150, 200}[r.Intn(21)]
			default:
				num = 1 + r.Intn(3000)
			}
			if !used[num] {
				break
			}
		}
		out = appendUnknownRecord(out, r, protowire.Number(num), depth)
	}
	return out
}

func appendUnknownRecord(out []byte, r *vschema.Rand, num protowire.Number, depth int) []byte {
	switch r.Intn(5) {
	case 0:
		out = protowire.AppendTag(out, num, protowire.VarintType)
		out = protowire.AppendVarint(out, boundary64[r.Intn(len(boundary64))])
	case 1:
		out = protowire.AppendTag(out, num, protowire.Fixed32Type)
		out = protowire.AppendFixed32(out, uint32(r.U64()))
	case 2:
		out = protowire.AppendTag(out, num, protowire.Fixed64Type)
		out = protowire.AppendFixed64(out, r.U64())
	case 3:
		out = protowire.AppendTag(out, num, protowire.BytesType)
		b := make([]byte, r.Intn(5))
		for i := range b {
			b[i] = byte(r.U64())
		}
		out = protowire.AppendBytes(out, b)
	case 4:
		out = protowire.AppendTag(out, num, protowire.StartGroupType)
		if depth < 3 {
			k := r.Intn(3)
			for j := 0; j < k; j++ {
				out = appendUnknownRecord(out, r, protowire.Number(1+r.Intn(100)), depth+1)
			}
		}
		out = protowire.AppendTag(out, num, protowire.EndGroupType)
	}
	return out
}

// Message generates a value of message index mi.
func (o *GenOpts) Message(r *vschema.Rand, s *vschema.Schema, mi int, depth int) *Val {
	m := &s.Msgs[mi]
	if depth == 0 && o.Budget == 0 {
		o.Budget = 250
	}
	o.Budget -= len(m.Fields) + 1
	if o.Budget <= 0 && depth > 0 {
		return Empty(s, mi)
	}
	out := &Val{T: Msg}
	// choose at most one active member per oneof group
	active := map[int]int{}
	groupMembers := map[int][]int{}
	for j, f := range m.Fields {
		if f.Shape == vschema.Oneof {
			groupMembers[f.Group] = append(groupMembers[f.Group], j)
		}
	}
	// iterate the groups in index order: ranging over the map would consume the random stream in a
	// run-dependent order (non-reproducible values for messages with several oneofs)
	ngroups := 0
	for g := range groupMembers {
		if g+1 > ngroups {
			ngroups = g + 1
		}
	}
	for g := 0; g < ngroups; g++ {
		ms, ok := groupMembers[g]
		if !ok {
			continue
		}
		if r.Chance(75) {
			active[g] = ms[r.Intn(len(ms))]
		} else {
			active[g] = -1
		}
	}
	elem := func(f *vschema.Field) *Val {
		if f.IsMsg {
			if depth >= o.MaxDepth {
				return Empty(s, f.Msg)
			}
			return o.Message(r, s, f.Msg, depth+1)
		}
		return o.Scalar(r, f.Kind)
	}
	for j := range m.Fields {
		f := &m.Fields[j]
		switch f.Shape {
		case vschema.Singular:
			if f.IsMsg {
				if depth >= o.MaxDepth || o.Budget <= 0 || r.Chance(40) {
					out.Kids = append(out.Kids, VNone())
				} else {
					out.Kids = append(out.Kids, o.Message(r, s, f.Msg, depth+1))
				}
			} else if r.Chance(25) {
				out.Kids = append(out.Kids, ZeroSlot(f))
			} else {
				out.Kids = append(out.Kids, o.Scalar(r, f.Kind))
			}
		case vschema.Repeated:
			n := []int{0, 0, 1, 2, 3, 5}[r.Intn(6)]
			if r.Chance(5) {
				n = 20
			}
			if f.IsMsg && (depth >= o.MaxDepth || o.Budget <= 0) {
				n = 0
			}
			if n > o.Budget/2+1 {
				n = o.Budget/2 + 1
			}
			o.Budget -= n
			l := &Val{T: List, NonNil: n > 0 || r.Bool()}
			for i := 0; i < n; i++ {
				if f.IsMsg && o.NilJunk && r.Chance(15) {
					l.Kids = append(l.Kids, VNone())
				} else {
					l.Kids = append(l.Kids, elem(f))
				}
			}
			out.Kids = append(out.Kids, l)
		case vschema.Map:
			n := []int{0, 0, 1, 2, 3, 8}[r.Intn(6)]
			if o.BigMaps && r.Chance(20) {
				n = 64
			}
			if f.IsMsg && (depth >= o.MaxDepth || o.Budget <= 0) {
				n = 0
			}
			if n > o.Budget/2+1 {
				n = o.Budget/2 + 1
			}
			o.Budget -= n
			mv := &Val{T: Map}
			seen := map[string]bool{}
			for i := 0; i < n; i++ {
				k := o.Scalar(r, f.Key)
				if f.Key == vschema.String && !o.BadUTF8 {
					// keys must be valid UTF-8 for the reference encoder
				}
				id := k.String()
				if seen[id] {
					continue
				}
				seen[id] = true
				var v *Val
				if f.IsMsg && o.NilJunk && r.Chance(15) {
					v = VNone()
				} else {
					v = elem(f)
				}
				mv.Kids = append(mv.Kids, VEntry(k, v))
			}
			mv.NonNil = len(mv.Kids) > 0 || r.Bool()
			out.Kids = append(out.Kids, mv)
		case vschema.Oneof:
			if active[f.Group] != j {
				out.Kids = append(out.Kids, VNone())
				continue
			}
			if o.NilJunk && r.Chance(10) {
				out.Kids = append(out.Kids, VOneNil())
				continue
			}
			if f.IsMsg {
				if o.NilJunk && r.Chance(15) {
					out.Kids = append(out.Kids, VOne(VNone()))
				} else if depth >= o.MaxDepth {
					out.Kids = append(out.Kids, VOne(Empty(s, f.Msg)))
				} else {
					out.Kids = append(out.Kids, VOne(o.Message(r, s, f.Msg, depth+1)))
				}
			} else if r.Chance(30) {
				z := ZeroSlot(&vschema.Field{Shape: vschema.Singular, Kind: f.Kind})
				if f.Kind == vschema.Bytes && r.Bool() {
					z = VBlob(true, []byte{})
				}
				out.Kids = append(out.Kids, VOne(z))
			} else {
				out.Kids = append(out.Kids, VOne(o.Scalar(r, f.Kind)))
			}
		}
	}
	if o.Unknown && r.Chance(35) {
		used := map[int]bool{}
		for _, f := range m.Fields {
			used[f.Num] = true
		}
		out.B = UnknownTail(r, used, 0)
	}
	return out
}

var _ = binary.LittleEndian
var _ = math.MaxInt32
