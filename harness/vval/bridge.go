package vval

import (
	"fmt"
	"reflect"
	"strconv"
	"strings"
	"unsafe"

	"github.com/cosmos/cosmos-proto/internal/verifh/vschema"
	"google.golang.org/protobuf/proto"
	"google.golang.org/protobuf/reflect/protoreflect"
)

// Bridge converts between Val trees and the generated Go structs using only Go reflection over the
// struct fields (by their `protobuf:"…"` tags): a view of the value that does not go through the
// generated fast-reflection code under test.
type Bridge struct {
	S     *vschema.Schema
	types []reflect.Type // struct type per message index
	// per message, per schema field: index of the struct field (for oneof members: of the interface field)
	fieldIdx [][]int
	wrappers [][]reflect.Type // per message, per schema field: *Wrapper type for oneof members
	unkIdx   []int
}

// NewBridge: typeOf returns the pointer-to-struct type of a message full name; wrapperOf the pointer
// type of the oneof wrapper of (message, field number).
func NewBridge(s *vschema.Schema, typeOf func(full string) reflect.Type, wrapperOf func(full string, num int) reflect.Type) (*Bridge, error) {
	b := &Bridge{S: s}
	for _, m := range s.Msgs {
		pt := typeOf(m.FullName)
		if pt == nil || pt.Kind() != reflect.Ptr {
			return nil, fmt.Errorf("no Go type for %s", m.FullName)
		}
		st := pt.Elem()
		byNum := map[int]int{}
		byOneof := map[string]int{}
		unk := -1
		for i := 0; i < st.NumField(); i++ {
			sf := st.Field(i)
			if sf.Name == "unknownFields" {
				unk = i
			}
			if tag, ok := sf.Tag.Lookup("protobuf"); ok {
				parts := strings.Split(tag, ",")
				if len(parts) >= 2 {
					if n, err := strconv.Atoi(parts[1]); err == nil {
						byNum[n] = i
					}
				}
			}
			if tag, ok := sf.Tag.Lookup("protobuf_oneof"); ok {
				byOneof[tag] = i
			}
		}
		idx := make([]int, len(m.Fields))
		wr := make([]reflect.Type, len(m.Fields))
		for j, f := range m.Fields {
			if f.Shape == vschema.Oneof {
				name := fmt.Sprintf("g%d", f.Group)
				if f.Group < len(m.OneofNames) && m.OneofNames[f.Group] != "" {
					name = m.OneofNames[f.Group]
				}
				i, ok := byOneof[name]
				if !ok {
					return nil, fmt.Errorf("%s: no oneof struct field %s", m.FullName, name)
				}
				idx[j] = i
				wr[j] = wrapperOf(m.FullName, f.Num)
				if wr[j] == nil {
					return nil, fmt.Errorf("%s: no wrapper type for field %d", m.FullName, f.Num)
				}
			} else {
				i, ok := byNum[f.Num]
				if !ok {
					return nil, fmt.Errorf("%s: no struct field for number %d", m.FullName, f.Num)
				}
				idx[j] = i
			}
		}
		b.types = append(b.types, st)
		b.fieldIdx = append(b.fieldIdx, idx)
		b.wrappers = append(b.wrappers, wr)
		b.unkIdx = append(b.unkIdx, unk)
	}
	return b, nil
}

func settable(v reflect.Value) reflect.Value {
	if v.CanSet() {
		return v
	}
	return reflect.NewAt(v.Type(), unsafe.Pointer(v.UnsafeAddr())).Elem()
}

func (b *Bridge) setScalar(dst reflect.Value, k vschema.Kind, v *Val) {
	switch dst.Kind() {
	case reflect.Bool:
		dst.SetBool(v.N != 0)
	case reflect.Int32:
		dst.SetInt(int64(int32(uint32(v.N))))
	case reflect.Int64:
		dst.SetInt(int64(v.N))
	case reflect.Uint32:
		dst.SetUint(uint64(uint32(v.N)))
	case reflect.Uint64:
		dst.SetUint(v.N)
	case reflect.Float32:
		*(*uint32)(unsafe.Pointer(dst.UnsafeAddr())) = uint32(v.N)
	case reflect.Float64:
		*(*uint64)(unsafe.Pointer(dst.UnsafeAddr())) = v.N
	case reflect.String:
		dst.SetString(string(v.B))
	case reflect.Slice: // []byte
		if v.NonNil || len(v.B) > 0 {
			c := make([]byte, len(v.B))
			copy(c, v.B)
			dst.SetBytes(c)
		} else {
			dst.Set(reflect.Zero(dst.Type()))
		}
	default:
		panic("setScalar: unexpected kind " + dst.Kind().String())
	}
}

func (b *Bridge) getScalar(src reflect.Value, k vschema.Kind) *Val {
	switch src.Kind() {
	case reflect.Bool:
		if src.Bool() {
			return VBits(1)
		}
		return VBits(0)
	case reflect.Int32:
		return VBits(uint64(uint32(int32(src.Int()))))
	case reflect.Int64:
		return VBits(uint64(src.Int()))
	case reflect.Uint32, reflect.Uint64:
		return VBits(src.Uint())
	case reflect.Float32:
		if src.CanAddr() {
			return VBits(uint64(*(*uint32)(unsafe.Pointer(src.UnsafeAddr()))))
		}
		c := reflect.New(src.Type()).Elem()
		c.Set(src)
		return VBits(uint64(*(*uint32)(unsafe.Pointer(c.UnsafeAddr()))))
	case reflect.Float64:
		if src.CanAddr() {
			return VBits(*(*uint64)(unsafe.Pointer(src.UnsafeAddr())))
		}
		c := reflect.New(src.Type()).Elem()
		c.Set(src)
		return VBits(*(*uint64)(unsafe.Pointer(c.UnsafeAddr())))
	case reflect.String:
		return VBlob(false, []byte(src.String()))
	case reflect.Slice:
		if src.IsNil() {
			return VBlob(false, nil)
		}
		c := make([]byte, src.Len())
		copy(c, src.Bytes())
		return VBlob(true, c)
	}
	panic("getScalar: unexpected kind " + src.Kind().String())
}

// setElem stores an element (scalar or message pointer) into dst.
func (b *Bridge) setElem(dst reflect.Value, f *vschema.Field, v *Val) {
	if f.IsMsg {
		if v.T == None {
			dst.Set(reflect.Zero(dst.Type()))
		} else {
			dst.Set(b.toPtr(f.Msg, v))
		}
		return
	}
	b.setScalar(dst, f.Kind, v)
}

func (b *Bridge) getElem(src reflect.Value, f *vschema.Field) *Val {
	if f.IsMsg {
		if src.IsNil() {
			return VNone()
		}
		return b.fromPtr(f.Msg, src)
	}
	return b.getScalar(src, f.Kind)
}

func (b *Bridge) toPtr(mi int, v *Val) reflect.Value {
	st := b.types[mi]
	p := reflect.New(st)
	s := p.Elem()
	m := &b.S.Msgs[mi]
	for j := range m.Fields {
		f := &m.Fields[j]
		if j >= len(v.Kids) {
			break
		}
		slot := v.Kids[j]
		fv := settable(s.Field(b.fieldIdx[mi][j]))
		switch f.Shape {
		case vschema.Singular:
			b.setElem(fv, f, slot)
		case vschema.Repeated:
			if slot.T != List || (!slot.NonNil && len(slot.Kids) == 0) {
				continue
			}
			sl := reflect.MakeSlice(fv.Type(), len(slot.Kids), len(slot.Kids))
			for i, e := range slot.Kids {
				b.setElem(sl.Index(i), f, e)
			}
			fv.Set(sl)
		case vschema.Map:
			if slot.T != Map || (!slot.NonNil && len(slot.Kids) == 0) {
				continue
			}
			mp := reflect.MakeMap(fv.Type())
			for _, e := range slot.Kids {
				kv := reflect.New(fv.Type().Key()).Elem()
				b.setScalar(kv, f.Key, e.Kids[0])
				vv := reflect.New(fv.Type().Elem()).Elem()
				b.setElem(vv, f, e.Kids[1])
				mp.SetMapIndex(kv, vv)
			}
			fv.Set(mp)
		case vschema.Oneof:
			wt := b.wrappers[mi][j]
			switch slot.T {
			case One:
				w := reflect.New(wt.Elem())
				b.setElem(settable(w.Elem().Field(0)), f, slot.Kids[0])
				fv.Set(w)
			case OneNil:
				fv.Set(reflect.Zero(wt))
			}
		}
	}
	if b.unkIdx[mi] >= 0 && len(v.B) > 0 {
		uf := settable(s.Field(b.unkIdx[mi]))
		c := make([]byte, len(v.B))
		copy(c, v.B)
		uf.SetBytes(c)
	}
	return p
}

func (b *Bridge) fromPtr(mi int, p reflect.Value) *Val {
	s := p.Elem()
	m := &b.S.Msgs[mi]
	out := &Val{T: Msg}
	for j := range m.Fields {
		f := &m.Fields[j]
		fv := s.Field(b.fieldIdx[mi][j])
		switch f.Shape {
		case vschema.Singular:
			out.Kids = append(out.Kids, b.getElem(fv, f))
		case vschema.Repeated:
			l := &Val{T: List, NonNil: !fv.IsNil()}
			for i := 0; i < fv.Len(); i++ {
				l.Kids = append(l.Kids, b.getElem(fv.Index(i), f))
			}
			out.Kids = append(out.Kids, l)
		case vschema.Map:
			mv := &Val{T: Map, NonNil: !fv.IsNil()}
			it := fv.MapRange()
			for it.Next() {
				mv.Kids = append(mv.Kids, VEntry(b.getScalar(it.Key(), f.Key), b.getElem(it.Value(), f)))
			}
			out.Kids = append(out.Kids, mv)
		case vschema.Oneof:
			wt := b.wrappers[mi][j]
			if fv.IsNil() || fv.Elem().Type() != wt {
				out.Kids = append(out.Kids, VNone())
			} else if fv.Elem().IsNil() {
				out.Kids = append(out.Kids, VOneNil())
			} else {
				out.Kids = append(out.Kids, VOne(b.getElem(fv.Elem().Elem().Field(0), f)))
			}
		}
	}
	if b.unkIdx[mi] >= 0 {
		uf := s.Field(b.unkIdx[mi])
		out.B = append([]byte(nil), uf.Bytes()...)
	}
	return out
}

// ToMessage materialises v as a generated struct of message index mi.
func (b *Bridge) ToMessage(mi int, v *Val) proto.Message {
	if v.T == None {
		return reflect.Zero(reflect.PtrTo(b.types[mi])).Interface().(proto.Message)
	}
	return b.toPtr(mi, v).Interface().(proto.Message)
}

// FromMessage reads a generated struct back into a Val through Go reflection only.
func (b *Bridge) FromMessage(mi int, m proto.Message) *Val {
	p := reflect.ValueOf(m)
	if p.IsNil() {
		return VNone()
	}
	return b.fromPtr(mi, p)
}

// Empty is the zero message (&T{}) as a Val.
func Empty(s *vschema.Schema, mi int) *Val {
	out := &Val{T: Msg}
	for _, f := range s.Msgs[mi].Fields {
		out.Kids = append(out.Kids, ZeroSlot(&f))
	}
	return out
}

func ZeroSlot(f *vschema.Field) *Val {
	switch f.Shape {
	case vschema.Singular:
		if f.IsMsg {
			return VNone()
		}
		if f.Kind.IsBlob() {
			return VBlob(false, nil)
		}
		return VBits(0)
	case vschema.Repeated:
		return VList(false, nil)
	case vschema.Map:
		return VMap(false, nil)
	}
	return VNone()
}

// AddStaleCapacity gives every repeated field of the root struct (and of its direct message-typed children) spare
// capacity whose slots hold STALE data just past len — what the reuse idiom `x.F = x.F[:0]` (or any reslice) leaves
// behind. Slots beyond len are not part of the value: nothing a decoder, codec or accessor does may depend on them.
func AddStaleCapacity(m proto.Message, depth int) {
	rv := reflect.ValueOf(m)
	if rv.Kind() != reflect.Ptr || rv.IsNil() {
		return
	}
	sv := rv.Elem()
	if sv.Kind() != reflect.Struct {
		return
	}
	for i := 0; i < sv.NumField(); i++ {
		fv := sv.Field(i)
		if !fv.CanSet() || sv.Type().Field(i).Tag.Get("protobuf") == "" {
			continue
		}
		switch fv.Kind() {
		case reflect.Slice:
			et := fv.Type().Elem()
			if et.Kind() == reflect.Uint8 { // []byte: a bytes field, spare capacity with junk as well
				nb := reflect.MakeSlice(fv.Type(), fv.Len(), fv.Len()+3)
				reflect.Copy(nb, fv)
				ext := nb.Slice(0, fv.Len()+3)
				for k := fv.Len(); k < fv.Len()+3; k++ {
					ext.Index(k).SetUint(0xEE)
				}
				if fv.IsNil() {
					continue // keep nil-ness of an unset bytes field
				}
				fv.Set(nb)
				continue
			}
			if fv.IsNil() {
				continue // a nil list stays nil (nil-versus-empty is part of the representation the harness tracks)
			}
			ns := reflect.MakeSlice(fv.Type(), fv.Len(), fv.Len()+2)
			reflect.Copy(ns, fv)
			ext := ns.Slice(0, fv.Len()+2)
			for k := fv.Len(); k < fv.Len()+2; k++ {
				slot := ext.Index(k)
				switch et.Kind() {
				case reflect.Ptr:
					if pm, ok := reflect.New(et.Elem()).Interface().(proto.Message); ok {
						// a stale element with content: unknown fields survive every merge
						pr := pm.ProtoReflect()
						pr.SetUnknown([]byte{0x98, 0x3f, 0x2a})
						fs := pr.Descriptor().Fields()
						for q := 0; q < fs.Len(); q++ {
							fd := fs.Get(q)
							if fd.IsList() || fd.IsMap() || fd.ContainingOneof() != nil {
								continue
							}
							done := true
							switch fd.Kind() {
							case protoreflect.StringKind:
								pr.Set(fd, protoreflect.ValueOfString("stale"))
							case protoreflect.BytesKind:
								pr.Set(fd, protoreflect.ValueOfBytes([]byte("stale")))
							case protoreflect.BoolKind:
								pr.Set(fd, protoreflect.ValueOfBool(true))
							case protoreflect.Int32Kind, protoreflect.Sint32Kind, protoreflect.Sfixed32Kind:
								pr.Set(fd, protoreflect.ValueOfInt32(7))
							case protoreflect.Int64Kind, protoreflect.Sint64Kind, protoreflect.Sfixed64Kind:
								pr.Set(fd, protoreflect.ValueOfInt64(7))
							case protoreflect.Uint32Kind, protoreflect.Fixed32Kind:
								pr.Set(fd, protoreflect.ValueOfUint32(7))
							case protoreflect.Uint64Kind, protoreflect.Fixed64Kind:
								pr.Set(fd, protoreflect.ValueOfUint64(7))
							default:
								done = false
							}
							if done {
								break
							}
						}
						slot.Set(reflect.ValueOf(pm))
					}
				case reflect.String:
					slot.SetString("stale")
				case reflect.Slice:
					if et.Elem().Kind() == reflect.Uint8 {
						slot.SetBytes([]byte("stale"))
					}
				case reflect.Bool:
					slot.SetBool(true)
				case reflect.Int32, reflect.Int64:
					slot.SetInt(-7)
				case reflect.Uint32, reflect.Uint64:
					slot.SetUint(7)
				case reflect.Float32, reflect.Float64:
					slot.SetFloat(7.5)
				}
			}
			fv.Set(ns)
			if depth > 0 && et.Kind() == reflect.Ptr {
				for k := 0; k < fv.Len(); k++ {
					if pm, ok := fv.Index(k).Interface().(proto.Message); ok && !fv.Index(k).IsNil() {
						AddStaleCapacity(pm, depth-1)
					}
				}
			}
		case reflect.Ptr:
			if depth > 0 && !fv.IsNil() {
				if pm, ok := fv.Interface().(proto.Message); ok {
					AddStaleCapacity(pm, depth-1)
				}
			}
		}
	}
}

// AssignInPlace makes the message object dst hold the value of src WITHOUT replacing dst or any message object
// reachable from it that also exists (same position, same Go type) in src: fields are overwritten one by one,
// child messages, list elements, map values and oneof payloads are updated in place. Everything a generated type
// keeps in its object besides the declared fields and the unknown-field set (state, size cache, anything a
// changed generator adds) therefore survives — which is what "the same object was changed and used again" means.
func AssignInPlace(dst, src proto.Message) {
	assignStruct(reflect.ValueOf(dst), reflect.ValueOf(src))
}

func isMsgPtr(t reflect.Type) bool {
	return t.Kind() == reflect.Ptr && t.Elem().Kind() == reflect.Struct && t.Implements(reflect.TypeOf((*proto.Message)(nil)).Elem())
}

func assignStruct(dp, sp reflect.Value) {
	if dp.Kind() != reflect.Ptr || dp.IsNil() || sp.IsNil() || dp.Type() != sp.Type() {
		return
	}
	d, s := dp.Elem(), sp.Elem()
	for i := 0; i < d.NumField(); i++ {
		sf := d.Type().Field(i)
		data := sf.Tag.Get("protobuf") != "" || sf.Tag.Get("protobuf_oneof") != "" || sf.Name == "unknownFields"
		if !data {
			continue
		}
		dv, sv := settable(d.Field(i)), settable(s.Field(i))
		assignValue(dv, sv)
	}
}

func assignValue(dv, sv reflect.Value) {
	t := dv.Type()
	switch {
	case isMsgPtr(t):
		if !dv.IsNil() && !sv.IsNil() {
			assignStruct(dv, sv)
		} else {
			dv.Set(sv)
		}
	case t.Kind() == reflect.Slice && isMsgPtr(t.Elem()):
		if sv.IsNil() {
			dv.Set(sv)
			return
		}
		n := dv.Len()
		if sv.Len() < n {
			n = sv.Len()
		}
		out := reflect.MakeSlice(t, 0, sv.Len())
		for i := 0; i < sv.Len(); i++ {
			if i < n && !dv.Index(i).IsNil() && !sv.Index(i).IsNil() {
				assignStruct(dv.Index(i), sv.Index(i))
				out = reflect.Append(out, dv.Index(i))
			} else {
				out = reflect.Append(out, sv.Index(i))
			}
		}
		dv.Set(out)
	case t.Kind() == reflect.Map && isMsgPtr(t.Elem()):
		if sv.IsNil() || dv.IsNil() {
			dv.Set(sv)
			return
		}
		for _, k := range dv.MapKeys() {
			if !sv.MapIndex(k).IsValid() {
				dv.SetMapIndex(k, reflect.Value{})
			}
		}
		it := sv.MapRange()
		for it.Next() {
			old := dv.MapIndex(it.Key())
			if old.IsValid() && !old.IsNil() && !it.Value().IsNil() {
				assignStruct(old, it.Value())
			} else {
				dv.SetMapIndex(it.Key(), it.Value())
			}
		}
	case t.Kind() == reflect.Interface:
		// oneof: same wrapper type on both sides, both non-nil pointers: update the payload in place
		if !dv.IsNil() && !sv.IsNil() && dv.Elem().Type() == sv.Elem().Type() && dv.Elem().Kind() == reflect.Ptr &&
			!dv.Elem().IsNil() && !sv.Elem().IsNil() && dv.Elem().Elem().Kind() == reflect.Struct && dv.Elem().Elem().NumField() == 1 {
			assignValue(settable(dv.Elem().Elem().Field(0)), settable(sv.Elem().Elem().Field(0)))
		} else {
			dv.Set(sv)
		}
	default:
		dv.Set(sv)
	}
}

// EmptyChildren: v with every message below the root replaced by the empty message of its type (same shape:
// lists keep their length, maps their keys, oneofs their member) — the value an object tree has after its children
// were cleared in place.
func EmptyChildren(s *vschema.Schema, mi int, v *Val) *Val {
	if v.T != Msg {
		return v
	}
	out := &Val{T: Msg, B: v.B}
	m := &s.Msgs[mi]
	for j, slot := range v.Kids {
		if j >= len(m.Fields) || !m.Fields[j].IsMsg {
			out.Kids = append(out.Kids, slot)
			continue
		}
		f := &m.Fields[j]
		em := func(x *Val) *Val {
			if x.T == Msg {
				return Empty(s, f.Msg)
			}
			return x
		}
		switch slot.T {
		case Msg:
			out.Kids = append(out.Kids, em(slot))
		case List, Map:
			c := &Val{T: slot.T, NonNil: slot.NonNil}
			for _, e := range slot.Kids {
				if e.T == Entry {
					c.Kids = append(c.Kids, VEntry(e.Kids[0], em(e.Kids[1])))
				} else {
					c.Kids = append(c.Kids, em(e))
				}
			}
			out.Kids = append(out.Kids, c)
		case One:
			out.Kids = append(out.Kids, VOne(em(slot.Kids[0])))
		default:
			out.Kids = append(out.Kids, slot)
		}
	}
	return out
}
