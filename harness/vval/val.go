// Package vval mirrors the Lean `Val` type: positional message values with raw scalar bits, nil-vs-empty
// containers and oneof wrapper states; with the line-protocol printer/parser and a type-directed generator.
package vval

import (
	"encoding/hex"
	"fmt"
	"sort"
	"strconv"
	"strings"

	"github.com/cosmos/cosmos-proto/internal/verifh/vschema"
)

type Tag int

const (
	Bits Tag = iota
	Blob
	None
	Msg
	List
	Map
	Entry
	One
	OneNil
)

type Val struct {
	T       Tag
	N       uint64 // Bits
	NonNil  bool   // Blob/List/Map
	B       []byte // Blob payload / Msg unknown
	Kids    []*Val // Msg slots / List elems / Map entries / Entry{k,v} / One{v}
}

func VBits(n uint64) *Val            { return &Val{T: Bits, N: n} }
func VBlob(nn bool, b []byte) *Val   { return &Val{T: Blob, NonNil: nn, B: b} }
func VNone() *Val                    { return &Val{T: None} }
func VMsg(s []*Val, u []byte) *Val   { return &Val{T: Msg, Kids: s, B: u} }
func VList(nn bool, e []*Val) *Val   { return &Val{T: List, NonNil: nn, Kids: e} }
func VMap(nn bool, e []*Val) *Val    { return &Val{T: Map, NonNil: nn, Kids: e} }
func VEntry(k, v *Val) *Val          { return &Val{T: Entry, Kids: []*Val{k, v}} }
func VOne(v *Val) *Val               { return &Val{T: One, Kids: []*Val{v}} }
func VOneNil() *Val                  { return &Val{T: OneNil} }

func (v *Val) String() string {
	var sb strings.Builder
	v.print(&sb)
	return sb.String()
}

func (v *Val) print(sb *strings.Builder) {
	switch v.T {
	case Bits:
		sb.WriteString("b" + strconv.FormatUint(v.N, 16))
	case Blob:
		if v.NonNil {
			sb.WriteString("S")
		} else {
			sb.WriteString("s")
		}
		sb.WriteString(hex.EncodeToString(v.B))
	case None:
		sb.WriteString("_")
	case OneNil:
		sb.WriteString("O")
	case Msg:
		sb.WriteString("(m ")
		for _, k := range v.Kids {
			k.print(sb)
			sb.WriteString(" ")
		}
		sb.WriteString("u" + hex.EncodeToString(v.B) + " )")
	case List, Map:
		c := "(l "
		if v.T == Map {
			c = "(p "
		}
		if v.NonNil {
			c = strings.ToUpper(c[:2]) + " "
		}
		sb.WriteString(c)
		for _, k := range v.Kids {
			k.print(sb)
			sb.WriteString(" ")
		}
		sb.WriteString(")")
	case Entry:
		sb.WriteString("(e ")
		v.Kids[0].print(sb)
		sb.WriteString(" ")
		v.Kids[1].print(sb)
		sb.WriteString(" )")
	case One:
		sb.WriteString("(o ")
		v.Kids[0].print(sb)
		sb.WriteString(" )")
	}
}

// Depth of message nesting.
func (v *Val) Depth() int {
	d := 0
	for _, k := range v.Kids {
		if kd := k.Depth(); kd > d {
			d = kd
		}
	}
	if v.T == Msg {
		d++
	}
	return d
}

// KeyLess orders two key values of kind k the way Go `<` / GenericKeyOrder do.
func KeyLess(k vschema.Kind, a, b *Val) bool {
	switch k {
	case vschema.String, vschema.Bytes:
		return string(a.B) < string(b.B)
	case vschema.Int32, vschema.Sint32, vschema.Sfixed32:
		return int32(uint32(a.N)) < int32(uint32(b.N))
	case vschema.Int64, vschema.Sint64, vschema.Sfixed64:
		return int64(a.N) < int64(b.N)
	}
	return a.N < b.N
}

// Canon sorts map entries by key, recursively, schema-directed (comparison form).
func Canon(s *vschema.Schema, mi int, v *Val) *Val {
	if v.T != Msg {
		return v
	}
	out := &Val{T: Msg, B: v.B}
	m := s.Msgs[mi]
	for j, slot := range v.Kids {
		if j >= len(m.Fields) {
			out.Kids = append(out.Kids, slot)
			continue
		}
		f := m.Fields[j]
		ns := slot
		switch {
		case f.Shape == vschema.Singular && f.IsMsg:
			ns = Canon(s, f.Msg, slot)
		case f.Shape == vschema.Oneof && f.IsMsg && slot.T == One:
			ns = VOne(Canon(s, f.Msg, slot.Kids[0]))
		case f.Shape == vschema.Repeated && f.IsMsg && slot.T == List:
			ns = &Val{T: List, NonNil: slot.NonNil}
			for _, e := range slot.Kids {
				ns.Kids = append(ns.Kids, Canon(s, f.Msg, e))
			}
		case f.Shape == vschema.Map && slot.T == Map:
			ns = &Val{T: Map, NonNil: slot.NonNil}
			for _, e := range slot.Kids {
				val := e.Kids[1]
				if f.IsMsg {
					val = Canon(s, f.Msg, val)
				}
				ns.Kids = append(ns.Kids, VEntry(e.Kids[0], val))
			}
			// insertion sort semantics identical to the Lean `sortBy` on distinct keys
			sort.SliceStable(ns.Kids, func(a, b int) bool { return KeyLess(f.Key, ns.Kids[a].Kids[0], ns.Kids[b].Kids[0]) })
		}
		out.Kids = append(out.Kids, ns)
	}
	return out
}

// Parse parses the printed form.
func Parse(s string) (*Val, error) {
	toks := strings.Fields(s)
	v, rest, err := parse(toks)
	if err != nil {
		return nil, err
	}
	if len(rest) != 0 {
		return nil, fmt.Errorf("trailing tokens")
	}
	return v, nil
}

func parse(toks []string) (*Val, []string, error) {
	if len(toks) == 0 {
		return nil, nil, fmt.Errorf("eof")
	}
	t := toks[0]
	rest := toks[1:]
	switch {
	case t == "_":
		return VNone(), rest, nil
	case t == "O":
		return VOneNil(), rest, nil
	case t == "(m":
		var kids []*Val
		for len(rest) > 0 && !strings.HasPrefix(rest[0], "u") {
			k, r, err := parse(rest)
			if err != nil {
				return nil, nil, err
			}
			kids = append(kids, k)
			rest = r
		}
		if len(rest) < 2 || rest[1] != ")" {
			return nil, nil, fmt.Errorf("bad msg")
		}
		u, err := hex.DecodeString(rest[0][1:])
		if err != nil {
			return nil, nil, err
		}
		return VMsg(kids, u), rest[2:], nil
	case t == "(l" || t == "(L" || t == "(p" || t == "(P":
		var kids []*Val
		for len(rest) > 0 && rest[0] != ")" {
			k, r, err := parse(rest)
			if err != nil {
				return nil, nil, err
			}
			kids = append(kids, k)
			rest = r
		}
		if len(rest) == 0 {
			return nil, nil, fmt.Errorf("bad list")
		}
		v := &Val{T: List, NonNil: t == "(L" || t == "(P", Kids: kids}
		if t == "(p" || t == "(P" {
			v.T = Map
		}
		return v, rest[1:], nil
	case t == "(e":
		k, r, err := parse(rest)
		if err != nil {
			return nil, nil, err
		}
		v, r2, err := parse(r)
		if err != nil {
			return nil, nil, err
		}
		if len(r2) == 0 || r2[0] != ")" {
			return nil, nil, fmt.Errorf("bad entry")
		}
		return VEntry(k, v), r2[1:], nil
	case t == "(o":
		v, r, err := parse(rest)
		if err != nil {
			return nil, nil, err
		}
		if len(r) == 0 || r[0] != ")" {
			return nil, nil, fmt.Errorf("bad one")
		}
		return VOne(v), r[1:], nil
	case strings.HasPrefix(t, "b"):
		n, err := strconv.ParseUint(t[1:], 16, 64)
		if err != nil {
			return nil, nil, err
		}
		return VBits(n), rest, nil
	case strings.HasPrefix(t, "s") || strings.HasPrefix(t, "S"):
		b, err := hex.DecodeString(t[1:])
		if err != nil {
			return nil, nil, err
		}
		return VBlob(t[0] == 'S', b), rest, nil
	}
	return nil, nil, fmt.Errorf("bad token %q", t)
}
