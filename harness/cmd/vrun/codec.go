package main

import (
	"bytes"
	"encoding/hex"
	"fmt"
	"runtime"
	"strings"

	"github.com/cosmos/cosmos-proto/internal/verifh/vschema"
	"github.com/cosmos/cosmos-proto/internal/verifh/vval"
	"google.golang.org/protobuf/proto"
	"google.golang.org/protobuf/types/dynamicpb"
)

func init() { engines["codec"] = runCodec }

// guard runs f and reports a panic as (true, message).
func guard(f func()) (panicked bool, msg string) {
	defer func() {
		if r := recover(); r != nil {
			panicked = true
			msg = fmt.Sprint(r) + " @ " + panicSite()
		}
	}()
	f()
	return
}

// panicSite: the innermost non-runtime frames of the panicking goroutine (called from the deferred
// recover, so the panicking frames are still on the stack), for replays.
func panicSite() string {
	pcs := make([]uintptr, 64)
	n := runtime.Callers(3, pcs)
	frames := runtime.CallersFrames(pcs[:n])
	var out []string
	for {
		fr, more := frames.Next()
		fn := fr.Function
		if fn != "" && !strings.HasPrefix(fn, "runtime.") && !strings.Contains(fn, "cmd/vrun.guard") {
			if i := strings.LastIndex(fn, "/"); i >= 0 {
				fn = fn[i+1:]
			}
			out = append(out, fmt.Sprintf("%s:%d", fn, fr.Line))
		}
		if !more || len(out) >= 6 {
			break
		}
	}
	return strings.Join(out, " < ")
}

func hexs(b []byte) string { return hex.EncodeToString(b) }

// hasJunk: nil list element / nil message map value / typed-nil wrapper / wrapper holding nil message.
func hasJunk(s *vschema.Schema, mi int, v *vval.Val) bool {
	if v.T != vval.Msg {
		return false
	}
	for j, f := range s.Msgs[mi].Fields {
		if j >= len(v.Kids) {
			break
		}
		slot := v.Kids[j]
		switch f.Shape {
		case vschema.Singular:
			if f.IsMsg && slot.T == vval.Msg && hasJunk(s, f.Msg, slot) {
				return true
			}
		case vschema.Repeated:
			if f.IsMsg {
				for _, e := range slot.Kids {
					if e.T == vval.None || hasJunk(s, f.Msg, e) {
						return true
					}
				}
			}
		case vschema.Map:
			if f.IsMsg {
				for _, e := range slot.Kids {
					if e.Kids[1].T == vval.None || hasJunk(s, f.Msg, e.Kids[1]) {
						return true
					}
				}
			}
		case vschema.Oneof:
			if slot.T == vval.OneNil {
				return true
			}
			if slot.T == vval.One && f.IsMsg {
				if slot.Kids[0].T == vval.None || hasJunk(s, f.Msg, slot.Kids[0]) {
					return true
				}
			}
		}
	}
	return false
}

func utf8ok(s *vschema.Schema, mi int, v *vval.Val) bool {
	ok := true
	var walk func(mi int, v *vval.Val)
	chk := func(k vschema.Kind, x *vval.Val) {
		if k == vschema.String && !validUTF8(x.B) {
			ok = false
		}
	}
	walk = func(mi int, v *vval.Val) {
		if v.T != vval.Msg {
			return
		}
		for j, f := range s.Msgs[mi].Fields {
			if j >= len(v.Kids) {
				break
			}
			slot := v.Kids[j]
			el := func(x *vval.Val) {
				if f.IsMsg {
					walk(f.Msg, x)
				} else {
					chk(f.Kind, x)
				}
			}
			switch f.Shape {
			case vschema.Singular:
				el(slot)
			case vschema.Repeated:
				for _, e := range slot.Kids {
					el(e)
				}
			case vschema.Map:
				for _, e := range slot.Kids {
					chk(f.Key, e.Kids[0])
					el(e.Kids[1])
				}
			case vschema.Oneof:
				if slot.T == vval.One {
					el(slot.Kids[0])
				}
			}
		}
	}
	walk(mi, v)
	return ok
}

func enumNums(t *Target) []int32 {
	var out []int32
	fs := t.Desc.Fields()
	for i := 0; i < fs.Len(); i++ {
		fd := fs.Get(i)
		if e := fd.Enum(); e != nil {
			for j := 0; j < e.Values().Len(); j++ {
				out = append(out, int32(e.Values().Get(j).Number()))
			}
		}
	}
	return out
}

func runCodec(cfg *Cfg) {
	out := newOut(cfg.Out, "codec")
	defer out.Close()
	targets := loadTargets()
	n := cfg.N
	if n == 0 {
		n = 12000
		if cfg.Tier == "thorough" {
			n = 400000
		}
	}
	r := vschema.NewRand(cfg.Seed)
	out.res.Rule = "type-directed values (boundary pools per kind, nil-vs-empty containers, depth<=4, unknown tails, optional nil junk) for every registered generated message type; distinct = distinct printed value, non-trivial = at least one populated field"
	perTarget := n / len(targets)
	if perTarget < 20 {
		perTarget = 20
	}
	for _, t := range targets {
		if cfg.Only != "" && !strings.Contains(t.Full, cfg.Only) {
			continue
		}
		out.res.Programs++
		modelOK := t.S.Supported
		if modelOK {
			out.Line("schema", t.S.Line(), "schema wf msgs="+fmt.Sprint(len(t.S.Msgs)))
		} else {
			out.Count("targets_without_model:" + t.S.Why)
		}
		en := enumNums(t)
		boundaryPass(out, t, cfg.Tier, modelOK)
		reusePass(out, t, r, cfg.Tier, en)
		bigMapPass(out, t, modelOK)
		adjacentValuePass(out, t, modelOK)
		for c := 0; c < perTarget; c++ {
			g := &vval.GenOpts{MaxDepth: 1 + r.Intn(4), Unknown: r.Chance(50), NilJunk: r.Chance(12), BadUTF8: r.Chance(8), BigMaps: r.Chance(10), BigBlobs: r.Chance(8), EnumNums: en}
			v := g.Message(r, t.S, 0, 0)
			vs := v.String()
			nontrivial := len(vs) > 4*len(v.Kids)+8
			out.Case(t.Full+vs, nontrivial)
			junk := hasJunk(t.S, 0, v)
			u8 := utf8ok(t.S, 0, v)
			if junk {
				out.Count("values_with_nil_junk")
			}
			if !u8 {
				out.Count("values_with_bad_utf8")
			}
			if c < 1 {
				out.Sample(t.Full + " " + vs)
			}
			codecCase(out, t, v, vs, junk, u8, modelOK)
		}
	}
}

func codecCase(out *Out, t *Target, v *vval.Val, vs string, junk, u8, modelOK bool) {
	msg := t.B.ToMessage(0, v)
	// struct view must reproduce the value we put in (bridge self-check)
	back := t.B.FromMessage(0, msg)
	if vval.Canon(t.S, 0, back).String() != vval.Canon(t.S, 0, v).String() {
		out.Violate("HARNESS", "bridge", "bridge round trip differs for "+t.Full, vs)
		return
	}
	replay := func(extra string) string { return t.S.Line() + "\n" + extra + " " + t.Full + " " + vs }

	var detBytes, ndBytes []byte
	var detErr, ndErr error
	var size int
	pSize, mSize := guard(func() { size = proto.Size(msg) })
	pDet, mDet := guard(func() { detBytes, detErr = proto.MarshalOptions{Deterministic: true}.Marshal(msg) })
	pNd, _ := guard(func() { ndBytes, ndErr = proto.MarshalOptions{}.Marshal(msg) })

	// model lines
	if modelOK {
		exp := "ok " + hexs(detBytes)
		if pDet {
			exp = "panic"
		} else if detErr != nil {
			exp = "err"
		}
		out.Line("C01,C02,C04,C05", "enc "+t.S.ID+" 0 1 "+vs, exp)
		if !pSize {
			out.Line("C04", "size "+t.S.ID+" 0 1 "+vs, fmt.Sprintf("ok %d", size))
		}
	}

	// ---- direct oracles ----
	if pSize {
		key := "size-panic"
		if junk {
			key = "nil-junk-size-panic"
		}
		out.Violate("C04", key, "proto.Size panicked: "+mSize, replay("size"))
	}
	if pDet || pNd {
		key := "marshal-panic"
		if junk {
			key = "nil-junk-marshal-panic"
		}
		out.Violate("C01", key, "proto.Marshal panicked: "+mDet, replay("enc"))
		out.Violate("C04", key, "proto.Marshal panicked (Size returned "+fmt.Sprint(size)+"): "+mDet, replay("enc"))
		return
	}
	if detErr != nil || ndErr != nil {
		if u8 {
			out.Violate("C01", "marshal-error", fmt.Sprintf("proto.Marshal failed on valid-UTF8 value: %v %v", detErr, ndErr), replay("enc"))
		}
		return
	}
	// C14: re-encoding emits the unknown bytes unchanged after all known fields (top level: a suffix)
	if len(v.B) > 0 && (!bytes.HasSuffix(detBytes, v.B) || !bytes.HasSuffix(ndBytes, v.B)) {
		out.Violate("C14", "reencode-unknown-not-last", "unknown fields are not emitted unchanged after the known fields", replay("enc"))
	}
	// C04: size == len
	if size != len(detBytes) || size != len(ndBytes) {
		out.Violate("C04", "size-mismatch", fmt.Sprintf("Size=%d det=%d nondet=%d", size, len(detBytes), len(ndBytes)), replay("size"))
	}
	// C04: append with and without capacity, canary behind len
	for _, capExtra := range []int{0, 1, 64, 4096} {
		pre := make([]byte, 5, 5+capExtra)
		copy(pre, "PREFX")
		full := pre[:cap(pre)]
		for i := 5; i < len(full); i++ {
			full[i] = 0xA5
		}
		var got []byte
		var err error
		p, m := guard(func() { got, err = proto.MarshalOptions{Deterministic: true}.MarshalAppend(pre, msg) })
		if p || err != nil {
			out.Violate("C04", "append-fail", fmt.Sprintf("MarshalAppend failed: %v %v", m, err), replay("enc"))
			break
		}
		if !bytes.Equal(got[:5], []byte("PREFX")) || !bytes.Equal(got[5:], detBytes) {
			out.Violate("C04", "append-prefix", fmt.Sprintf("MarshalAppend(cap+%d) result differs", capExtra), replay("enc"))
			if len(got) >= 5 && bytes.Equal(got[:5], []byte("PREFX")) {
				// the prefix is intact but the encoding written behind it is not the encoding of the value: the bytes depend
				// on what the spare capacity of the caller's buffer held
				out.Violate("C02", "append-bytes-differ", fmt.Sprintf("deterministic MarshalAppend(cap+%d) wrote %s, Marshal gives %s", capExtra, hexs(got[5:]), hexs(detBytes)), replay("enc"))
				out.Violate("C05", "append-bytes-differ", fmt.Sprintf("deterministic bytes depend on the spare capacity of the destination buffer (cap+%d)", capExtra), replay("enc"))
			}
			break
		}
	}
	// C02 / C04: reference encoder and size on a dynamicpb message holding the same value.
	// protoreflect.Value stores float32 as float64, which quiets signalling NaNs: the reference cannot
	// hold such a value at all, so those values are outside the comparison (counted).
	snan := hasSNaN32(t.S, 0, v)
	if snan {
		out.Count("values_with_float32_snan_skipped_for_reference")
	}
	if u8 && !junk && !snan {
		dyn := dynamicpb.NewMessage(t.Desc)
		if err := (proto.UnmarshalOptions{}).Unmarshal(detBytes, dyn); err != nil {
			out.Violate("C01", "reference-rejects-output", "reference decoder rejects pulsar output: "+err.Error(), replay("enc"))
		} else {
			refBytes, err := proto.MarshalOptions{Deterministic: true}.Marshal(dyn)
			if err != nil {
				out.Violate("C02", "reference-error", err.Error(), replay("enc"))
			} else if !bytes.Equal(refBytes, detBytes) {
				out.Violate("C02", "det-bytes-differ", "deterministic bytes differ from reference: pulsar="+hexs(detBytes)+" ref="+hexs(refBytes), replay("enc"))
				if hasUnknown(v) {
					out.Violate("C14", "reencode-differs-with-unknown", "re-encoding of a message holding unknown fields differs from the reference", replay("enc"))
				}
			}
			if rs := proto.Size(dyn); rs != size {
				out.Violate("C04", "size-vs-reference", fmt.Sprintf("Size=%d reference=%d", size, rs), replay("size"))
			}
			// the same two comparisons against a reference message that was filled through the reflection API alone:
			// the reference above was decoded from the generated encoder's own bytes, so it cannot see what that
			// encoder leaves out consistently (in Size and Marshal alike)
			ind := dynamicpb.NewMessage(t.Desc)
			built := false
			pb, _ := guard(func() { built = vval.ToReflect(t.S, 0, v, ind.ProtoReflect()) })
			if built && !pb {
				out.Count("independent_reference_values")
				if ib, err := (proto.MarshalOptions{Deterministic: true}).Marshal(ind); err == nil && !bytes.Equal(ib, detBytes) {
					out.Violate("C02", "det-bytes-differ-independent", "deterministic bytes differ from the reference encoding of the same value built through reflection: pulsar="+hexs(detBytes)+" ref="+hexs(ib), replay("enc"))
					if len(ib) != size {
						out.Violate("C04", "size-vs-independent-reference", fmt.Sprintf("Size=%d, the reference encoding of the same value has %d bytes", size, len(ib)), replay("size"))
					}
				}
			}
			if modelOK {
				out.Line("C02", "renc "+t.S.ID+" 0 "+vs, "ok "+hexs(refBytes))
			}
		}
	}
	// values holding nil junk (nil list elements, nil map values, wrappers without payload, typed-nil wrappers) cannot be
	// given to the reference as they are; they must size and encode exactly like the same value with the junk replaced
	// by what it stands for (an empty message / an unset oneof), which IS compared with the reference above
	if junk && u8 && !snan {
		clean := t.B.ToMessage(0, normalize(t.S, 0, v))
		var cb []byte
		var cs int
		if p, _ := guard(func() { cs = proto.Size(clean); cb, _ = proto.MarshalOptions{Deterministic: true}.Marshal(clean) }); !p {
			if size != cs {
				out.Violate("C04", "nil-junk-size", fmt.Sprintf("Size=%d for a value holding nil junk, %d for the value it stands for", size, cs), replay("size"))
			}
			if !bytes.Equal(detBytes, cb) {
				out.Violate("C04", "nil-junk-bytes", "value holding nil junk encodes as "+hexs(detBytes)+", the value it stands for as "+hexs(cb), replay("enc"))
				out.Violate("C02", "nil-junk-bytes", "value holding nil junk encodes as "+hexs(detBytes)+", the value it stands for as "+hexs(cb), replay("enc"))
			}
		}
	}
	// C01: round trip through both encodings, compared through the struct view
	want := vval.Canon(t.S, 0, normalize(t.S, 0, v)).String()
	for _, enc := range [][]byte{detBytes, ndBytes} {
		fresh := t.B.ToMessage(0, vval.Empty(t.S, 0))
		var err error
		p, m := guard(func() { err = proto.Unmarshal(enc, fresh) })
		if p {
			key := "roundtrip-unmarshal-panic"
			if junk {
				key = "nil-junk-roundtrip"
			}
			out.Violate("C01", key, "Unmarshal of own output panicked: "+m, replay("enc"))
			break
		}
		if err != nil {
			out.Violate("C01", "roundtrip-unmarshal-error", "Unmarshal of own output failed: "+err.Error(), replay("enc"))
			break
		}
		got := vval.Canon(t.S, 0, normalize(t.S, 0, t.B.FromMessage(0, fresh))).String()
		if got != want {
			out.Violate("C01", "roundtrip-differs", "round trip changed the value: got "+got+" WANT "+want, replay("enc"))
			break
		}
	}
	// C07: reads leave the struct unchanged; returned bytes share no memory with the message
	aliasChecks(out, t, v, replay)
	// C05: repeat deterministic marshal; rebuilt equal value (different map insertion order, nil-vs-empty)
	for rep := 0; rep < 4; rep++ {
		m2 := t.B.ToMessage(0, permuteMaps(v, rep))
		b2, err := proto.MarshalOptions{Deterministic: true}.Marshal(m2)
		if err != nil || !bytes.Equal(b2, detBytes) {
			out.Violate("C05", "det-unstable", "deterministic bytes differ between equal values / repetitions", replay("enc"))
			break
		}
	}
}

func validUTF8(b []byte) bool                                    { return vval.ValidUTF8(b) }
func normalize(s *vschema.Schema, mi int, v *vval.Val) *vval.Val { return vval.Normalize(s, mi, v) }
func permuteMaps(v *vval.Val, variant int) *vval.Val             { return vval.PermuteMaps(v, variant) }

func isSNaN32(n uint64) bool {
	return n&0x7f800000 == 0x7f800000 && n&0x007fffff != 0 && n&0x00400000 == 0
}

func hasSNaN32(s *vschema.Schema, mi int, v *vval.Val) bool {
	if v.T != vval.Msg {
		return false
	}
	for j, f := range s.Msgs[mi].Fields {
		if j >= len(v.Kids) {
			break
		}
		slot := v.Kids[j]
		var el func(x *vval.Val) bool
		el = func(x *vval.Val) bool {
			if f.IsMsg {
				return hasSNaN32(s, f.Msg, x)
			}
			return f.Kind == vschema.Float && x.T == vval.Bits && isSNaN32(x.N)
		}
		switch f.Shape {
		case vschema.Singular:
			if el(slot) {
				return true
			}
		case vschema.Repeated:
			for _, e := range slot.Kids {
				if el(e) {
					return true
				}
			}
		case vschema.Map:
			for _, e := range slot.Kids {
				if el(e.Kids[1]) {
					return true
				}
			}
		case vschema.Oneof:
			if slot.T == vval.One && el(slot.Kids[0]) {
				return true
			}
		}
	}
	return false
}

// anyScalar reports whether pred holds for some scalar (field, element, map key/value, oneof member).
func anyScalar(s *vschema.Schema, mi int, v *vval.Val, pred func(k vschema.Kind, x *vval.Val) bool) bool {
	if v.T != vval.Msg {
		return false
	}
	for j, f := range s.Msgs[mi].Fields {
		if j >= len(v.Kids) {
			break
		}
		slot := v.Kids[j]
		el := func(x *vval.Val) bool {
			if f.IsMsg {
				return anyScalar(s, f.Msg, x, pred)
			}
			return pred(f.Kind, x)
		}
		switch f.Shape {
		case vschema.Singular:
			if el(slot) {
				return true
			}
		case vschema.Repeated:
			for _, e := range slot.Kids {
				if el(e) {
					return true
				}
			}
		case vschema.Map:
			for _, e := range slot.Kids {
				if pred(f.Key, e.Kids[0]) || el(e.Kids[1]) {
					return true
				}
			}
		case vschema.Oneof:
			if slot.T == vval.One && el(slot.Kids[0]) {
				return true
			}
		}
	}
	return false
}

func hasNaN(s *vschema.Schema, mi int, v *vval.Val) bool {
	return anyScalar(s, mi, v, func(k vschema.Kind, x *vval.Val) bool {
		if x.T != vval.Bits {
			return false
		}
		switch k {
		case vschema.Float:
			return x.N&0x7f800000 == 0x7f800000 && x.N&0x007fffff != 0
		case vschema.Double:
			return x.N&0x7ff0000000000000 == 0x7ff0000000000000 && x.N&0x000fffffffffffff != 0
		}
		return false
	})
}

// reusePass: Size / Marshal must be functions of the CURRENT value of a message object, whatever the object held
// (and whatever was computed from it) before. An object is built from v1 and sized / marshalled in every mode; it
// is then changed IN PLACE (vval.AssignInPlace: no message object that exists on both sides is replaced) into v2 —
// the empty value, an unrelated value, v1 with its children emptied — and must size and marshal exactly like a
// fresh object holding v2 (and like the reference). State kept between calls (a size cache, a memoised encoding)
// shows as a difference here.
func reusePass(out *Out, t *Target, r *vschema.Rand, tier string, en []int32) {
	n := 10
	if tier == "thorough" {
		n = 150
	}
	for c := 0; c < n; c++ {
		g := &vval.GenOpts{MaxDepth: 2 + r.Intn(3), Unknown: r.Chance(30), BigMaps: r.Chance(10), EnumNums: en}
		v1 := g.Message(r, t.S, 0, 0)
		var v2 *vval.Val
		kind := c % 4
		switch kind {
		case 0:
			v2 = vval.Empty(t.S, 0)
		case 1:
			v2 = vval.EmptyChildren(t.S, 0, v1)
		case 2:
			v2 = g.Message(r, t.S, 0, 0)
		default:
			v2 = vval.EmptyChildren(t.S, 0, g.Message(r, t.S, 0, 0))
		}
		if !utf8ok(t.S, 0, v1) || !utf8ok(t.S, 0, v2) {
			continue
		}
		obj := t.B.ToMessage(0, v1)
		replay := t.S.Line() + "\nreuse " + t.Full + " first " + v1.String() + " then-in-place " + v2.String()
		if p, pm := guard(func() {
			_ = proto.Size(obj)
			_, _ = proto.MarshalOptions{Deterministic: true}.Marshal(obj)
			_, _ = proto.Marshal(obj)
			_, _ = proto.MarshalOptions{Deterministic: true}.MarshalAppend(make([]byte, 3, 64), obj)
		}); p {
			continue // reported by the ordinary cases
		} else {
			_ = pm
		}
		vval.AssignInPlace(obj, t.B.ToMessage(0, v2))
		if vval.Canon(t.S, 0, t.B.FromMessage(0, obj)).String() != vval.Canon(t.S, 0, v2).String() {
			out.Violate("HARNESS", "assign-in-place", "AssignInPlace did not produce the target value for "+t.Full, replay)
			continue
		}
		fresh := t.B.ToMessage(0, v2)
		var sz, fsz int
		var bs, fbs, abs []byte
		var err, ferr error
		out.Case("reuse:"+t.Full+v1.String()+v2.String(), true)
		out.Count("reuse_cases")
		if p, pm := guard(func() {
			sz = proto.Size(obj)
			bs, err = proto.MarshalOptions{Deterministic: true}.Marshal(obj)
			abs, _ = proto.MarshalOptions{Deterministic: true}.MarshalAppend([]byte("PRE"), obj)
		}); p {
			out.Violate("C04", "reuse-panic", "Size/Marshal of an object changed in place panicked: "+firstLine(pm), replay)
			out.Violate("C01", "reuse-panic", "Marshal of an object changed in place panicked: "+firstLine(pm), replay)
			continue
		}
		if p, _ := guard(func() {
			fsz = proto.Size(fresh)
			fbs, ferr = proto.MarshalOptions{Deterministic: true}.Marshal(fresh)
		}); p || err != nil || ferr != nil {
			continue
		}
		if sz != fsz || sz != len(bs) {
			out.Violate("C04", "reuse-size", fmt.Sprintf("object changed in place: Size=%d, len(Marshal)=%d; a fresh object holding the same value: Size=%d", sz, len(bs), fsz), replay)
		}
		if !bytes.Equal(bs, fbs) || !bytes.Equal(abs, append([]byte("PRE"), fbs...)) {
			out.Violate("C04", "reuse-marshal", "object changed in place marshals differently from a fresh object holding the same value: "+hexs(bs)+" vs "+hexs(fbs), replay)
			out.Violate("C05", "reuse-marshal", "deterministic bytes depend on what the object held before: "+hexs(bs)+" vs "+hexs(fbs), replay)
			out.Violate("C02", "reuse-marshal", "deterministic bytes of an object changed in place differ from those of the value: "+hexs(bs)+" vs "+hexs(fbs), replay)
		}
	}
}

// bigMapPass: every map field of the type filled with MANY entries (more than any small-size fast path: 17, 33,
// 40), and — where map values are messages that have map fields themselves — the nested maps filled as well with a
// different count, so that a nested deterministic marshal of a big map runs while the enclosing one is still
// iterating over its own sorted keys. Goes through the whole codecCase oracle set (reference bytes, repetition).
func bigMapPass(out *Out, t *Target, modelOK bool) {
	hasMap := false
	for _, f := range t.S.Msgs[0].Fields {
		if f.Shape == vschema.Map {
			hasMap = true
		}
	}
	if !hasMap {
		return
	}
	keyVal := func(k vschema.Kind, i int) *vval.Val {
		switch k {
		case vschema.String:
			return vval.VBlob(false, []byte(fmt.Sprintf("key-%03d", (i*37)%1000)))
		case vschema.Bool:
			return vval.VBits(uint64(i % 2))
		}
		n := uint64(i*7919 + 1)
		if k.Width() == 32 {
			n &= 0x7FFFFFFF
		}
		return vval.VBits(n)
	}
	var build func(mi, outer, inner, depth int) *vval.Val
	build = func(mi, outer, inner, depth int) *vval.Val {
		v := vval.Empty(t.S, mi)
		for j, f := range t.S.Msgs[mi].Fields {
			if f.Shape != vschema.Map || f.Extern != "" {
				continue
			}
			n := outer
			if f.Key == vschema.Bool && n > 2 {
				n = 2
			}
			var es []*vval.Val
			for i := 0; i < n; i++ {
				var val *vval.Val
				if f.IsMsg {
					if depth > 0 {
						val = build(f.Msg, inner, outer, depth-1)
					} else {
						val = vval.Empty(t.S, f.Msg)
					}
				} else if f.Kind.IsBlob() {
					val = vval.VBlob(f.Kind == vschema.Bytes, []byte{byte('a' + i%26)})
				} else {
					val = vval.VBits(uint64(i % 2))
				}
				es = append(es, vval.VEntry(keyVal(f.Key, i), val))
			}
			v.Kids[j] = vval.VMap(true, es)
		}
		return v
	}
	for _, sz := range [][2]int{{17, 20}, {33, 35}, {40, 17}} {
		v := build(0, sz[0], sz[1], 1)
		vs := v.String()
		out.Case("bigmap:"+t.Full+fmt.Sprint(sz), true)
		out.Count("big_map_cases")
		// twice: state left behind by the first marshal (a pooled buffer that grew) must not change the second
		codecCase(out, t, v, vs, false, true, modelOK)
		codecCase(out, t, v, vs, false, true, modelOK)
	}
}

// adjacentValuePass: values in which the LAST thing written before a short string / bytes field (a oneof member is
// written after all regular fields; a regular field with a larger number) is a repeated message / bytes / string
// field, with payload lengths 0, 1, 2, 3 and (number of the repeated field) >> 4 — see adjacencyPass of the decode
// engine; here as a round trip through the generated encoder.
func adjacentValuePass(out *Out, t *Target, modelOK bool) {
	m := &t.S.Msgs[0]
	cases := 0
	for j := range m.Fields {
		f := &m.Fields[j]
		if f.Shape != vschema.Repeated || !(f.IsMsg || f.Kind.IsBlob()) || f.Extern != "" {
			continue
		}
		for k := range m.Fields {
			g := &m.Fields[k]
			if k == j || g.IsMsg || !g.Kind.IsBlob() || !(g.Shape == vschema.Oneof || (g.Shape == vschema.Singular && g.Num > f.Num)) {
				continue
			}
			for _, l := range []int{1, 2, 3, (f.Num >> 4) & 0x7f} {
				for _, fill := range []byte{'y', 0} {
					if l == 0 {
						continue
					}
					if cases++; cases > 120 {
						return
					}
					v := vval.Empty(t.S, 0)
					var el *vval.Val
					if f.IsMsg {
						el = vval.Empty(t.S, f.Msg)
					} else {
						el = vval.VBlob(f.Kind == vschema.Bytes, []byte("e"))
					}
					v.Kids[j] = vval.VList(true, []*vval.Val{el, el})
					blob := vval.VBlob(g.Kind == vschema.Bytes, bytes.Repeat([]byte{fill}, l))
					if g.Shape == vschema.Oneof {
						v.Kids[k] = vval.VOne(blob)
					} else {
						v.Kids[k] = blob
					}
					out.Count("adjacent_value_cases")
					codecCase(out, t, v, v.String(), false, true, modelOK)
				}
			}
		}
	}
}
