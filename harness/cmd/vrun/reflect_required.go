package main

// C10: proto.CheckInitialized and the codecs' "required fields set?" answers on generated messages from which a
// proto2 message with required fields is reachable, against dynamicpb holding the same value. Values are built
// through reflection only (the value bridge does not cover proto2 messages).

import (
	"fmt"

	"github.com/cosmos/cosmos-proto/internal/verifh/vreg"
	"google.golang.org/protobuf/encoding/protojson"
	"google.golang.org/protobuf/encoding/prototext"
	"google.golang.org/protobuf/proto"
	"google.golang.org/protobuf/reflect/protoreflect"
	"google.golang.org/protobuf/types/dynamicpb"
)

// pathsToRequired: simple paths of message-typed fields (by field number) from md to a message that has required fields.
func pathsToRequired(md protoreflect.MessageDescriptor, maxLen int) [][]protoreflect.FieldDescriptor {
	var out [][]protoreflect.FieldDescriptor
	var rec func(md protoreflect.MessageDescriptor, cur []protoreflect.FieldDescriptor)
	rec = func(md protoreflect.MessageDescriptor, cur []protoreflect.FieldDescriptor) {
		if md.RequiredNumbers().Len() > 0 && len(cur) > 0 {
			out = append(out, append([]protoreflect.FieldDescriptor(nil), cur...))
			return
		}
		if len(cur) == maxLen {
			return
		}
		fs := md.Fields()
		for i := 0; i < fs.Len(); i++ {
			fd := fs.Get(i)
			next := fd.Message()
			if fd.IsMap() {
				next = fd.MapValue().Message()
			}
			if next == nil {
				continue
			}
			rec(next, append(cur, fd))
		}
	}
	rec(md, nil)
	return out
}

// descend creates the message at the end of the path (every step through Mutable / AppendMutable / Map.Mutable) and
// returns it; fill=true sets its required fields.
func descend(m protoreflect.Message, path []protoreflect.FieldDescriptor, fill bool) {
	for _, fd := range path {
		// the descriptor of the SAME field in m's own descriptor (generated and dynamic messages share descriptors
		// here, but stay on the safe side)
		f := m.Descriptor().Fields().ByNumber(fd.Number())
		switch {
		case f.IsList():
			m = m.Mutable(f).List().AppendMutable().Message()
		case f.IsMap():
			var k protoreflect.MapKey
			switch f.MapKey().Kind() {
			case protoreflect.StringKind:
				k = protoreflect.ValueOfString("k").MapKey()
			case protoreflect.BoolKind:
				k = protoreflect.ValueOfBool(true).MapKey()
			case protoreflect.Int32Kind, protoreflect.Sint32Kind, protoreflect.Sfixed32Kind:
				k = protoreflect.ValueOfInt32(1).MapKey()
			case protoreflect.Int64Kind, protoreflect.Sint64Kind, protoreflect.Sfixed64Kind:
				k = protoreflect.ValueOfInt64(1).MapKey()
			case protoreflect.Uint32Kind, protoreflect.Fixed32Kind:
				k = protoreflect.ValueOfUint32(1).MapKey()
			default:
				k = protoreflect.ValueOfUint64(1).MapKey()
			}
			m = m.Mutable(f).Map().Mutable(k).Message()
		default:
			m = m.Mutable(f).Message()
		}
	}
	if fill {
		fs := m.Descriptor().Fields()
		for i := 0; i < fs.Len(); i++ {
			f := fs.Get(i)
			if f.Cardinality() != protoreflect.Required {
				continue
			}
			switch f.Kind() {
			case protoreflect.StringKind:
				m.Set(f, protoreflect.ValueOfString("x"))
			case protoreflect.BoolKind:
				m.Set(f, protoreflect.ValueOfBool(true))
			case protoreflect.BytesKind:
				m.Set(f, protoreflect.ValueOfBytes([]byte{1}))
			case protoreflect.MessageKind:
				m.Mutable(f)
			default:
				m.Set(f, f.Default())
			}
		}
	}
}

func requiredPass(b *tbuf) {
	for _, p := range vreg.Pkgs {
		for i := range p.Messages {
			mi := &p.Messages[i]
			md := mi.Proto.ProtoReflect().Descriptor()
			paths := pathsToRequired(md, 5)
			if len(paths) == 0 {
				continue
			}
			b.Count("required_reachable_types")
			if len(paths) > 60 {
				paths = paths[:60]
			}
			for _, path := range paths {
				for _, fill := range []bool{false, true} {
					var names []string
					for _, fd := range path {
						names = append(names, string(fd.Name()))
					}
					replay := fmt.Sprintf("required-pass type %s path %v required fields of the last message set: %v", md.FullName(), names, fill)
					gen := mi.Proto.ProtoReflect().New()
					dyn := dynamicpb.NewMessage(md)
					if pn, pm := guard(func() { descend(gen, path, fill); descend(dyn, path, fill) }); pn {
						b.Violate("C10", "lib:required-build", "building the value through reflection panicked: "+pm, replay)
						continue
					}
					b.Count("required_cases")
					cmp := func(what string, fg, fd func() error) {
						var eg, ed error
						if pn, pm := guard(func() { eg = fg() }); pn {
							b.Violate("C10", "lib:required-"+what, what+" panicked on the generated message: "+pm, replay)
							return
						}
						ed = fd()
						if (eg == nil) != (ed == nil) {
							b.Violate("C10", "lib:required-"+what, fmt.Sprintf("%s: generated message answers %v, reference %v", what, eg, ed), replay)
						}
					}
					g, d := gen.Interface(), proto.Message(dyn)
					cmp("check-initialized", func() error { return proto.CheckInitialized(g) }, func() error { return proto.CheckInitialized(d) })
					cmp("marshal", func() error { _, e := proto.Marshal(g); return e }, func() error { _, e := proto.Marshal(d); return e })
					cmp("protojson-marshal", func() error { _, e := protojson.Marshal(g); return e }, func() error { _, e := protojson.Marshal(d); return e })
					cmp("prototext-marshal", func() error { _, e := prototext.Marshal(g); return e }, func() error { _, e := prototext.Marshal(d); return e })
					partial, _ := proto.MarshalOptions{AllowPartial: true}.Marshal(d)
					cmp("unmarshal", func() error { return proto.Unmarshal(partial, mi.Proto.ProtoReflect().New().Interface()) },
						func() error { return proto.Unmarshal(partial, dynamicpb.NewMessage(md)) })
					js, _ := protojson.MarshalOptions{AllowPartial: true}.Marshal(d)
					cmp("protojson-unmarshal", func() error { return protojson.Unmarshal(js, mi.Proto.ProtoReflect().New().Interface()) },
						func() error { return protojson.Unmarshal(js, dynamicpb.NewMessage(md)) })
				}
			}
		}
	}
}
