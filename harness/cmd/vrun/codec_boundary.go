package main

// Length-prefix boundaries: every length-delimited construct of every generated type (strings, bytes, packed
// lists, nested messages, map entries — in singular, list, oneof and map positions) is given payload sizes right
// around the points where the length varint grows (128, 16384; thorough: 2^21), because a size computed as
// "prefix of (payload + something)" is wrong exactly there and nowhere else. All codec oracles run on each value.

import (
	"fmt"

	"github.com/cosmos/cosmos-proto/internal/verifh/vschema"
	"github.com/cosmos/cosmos-proto/internal/verifh/vval"
)

func span(lo, hi int) []int {
	var out []int
	for i := lo; i <= hi; i++ {
		out = append(out, i)
	}
	return out
}

func blobOf(n int, str bool) *vval.Val {
	b := make([]byte, n)
	for i := range b {
		b[i] = byte('a' + i%26)
	}
	return vval.VBlob(!str, b)
}

func defaultKey(k vschema.Kind) *vval.Val {
	if k == vschema.String {
		return vval.VBlob(false, []byte("k"))
	}
	return vval.VBits(1)
}

func boundaryPass(out *Out, t *Target, tier string, modelOK bool) {
	S := t.S
	near := append(span(116, 132), span(16374, 16388)...)
	if tier == "thorough" {
		near = append(append(span(100, 140), span(16360, 16400)...), span(2097146, 2097153)...)
	}
	huge := 0
	run := func(what string, v *vval.Val) {
		vs := v.String()
		out.Case("boundary:"+t.Full+":"+what, true)
		out.Count("boundary_cases")
		codecCase(out, t, v, vs, false, true, modelOK && len(vs) < 1200)
	}
	// blobLen: message value of type mi whose first blob field holds n bytes (nil when it has none)
	blobChild := func(mi, n int) *vval.Val {
		for j, f := range S.Msgs[mi].Fields {
			if !f.IsMsg && f.Shape == vschema.Singular && f.Kind.IsBlob() {
				c := vval.Empty(S, mi)
				c.Kids[j] = blobOf(n, f.Kind == vschema.String)
				return c
			}
		}
		return nil
	}
	place := func(j int, f *vschema.Field, elem *vval.Val) *vval.Val {
		v := vval.Empty(S, 0)
		switch f.Shape {
		case vschema.Singular:
			v.Kids[j] = elem
		case vschema.Repeated:
			v.Kids[j] = vval.VList(true, []*vval.Val{elem})
		case vschema.Oneof:
			v.Kids[j] = vval.VOne(elem)
		case vschema.Map:
			v.Kids[j] = vval.VMap(true, []*vval.Val{vval.VEntry(defaultKey(f.Key), elem)})
		}
		return v
	}
	full := near
	for j := range S.Msgs[0].Fields {
		f := &S.Msgs[0].Fields[j]
		if f.Extern != "" {
			continue
		}
		// the 2^21 boundary (2 MiB values) only for the first three eligible fields of a type
		near = full
		if huge >= 3 {
			near = nil
			for _, n := range full {
				if n < 1<<20 {
					near = append(near, n)
				}
			}
		}
		if f.IsMsg || f.Kind.IsBlob() || (f.Shape == vschema.Repeated && f.Packed) {
			huge++
		}
		switch {
		case f.IsMsg:
			for _, n := range near {
				if c := blobChild(f.Msg, n); c != nil {
					run(fmt.Sprintf("msg:%d:%d", j, n), place(j, f, c))
				}
			}
		case f.Kind.IsBlob():
			for _, n := range near {
				run(fmt.Sprintf("blob:%d:%d", j, n), place(j, f, blobOf(n, f.Kind == vschema.String)))
			}
		case f.Shape == vschema.Repeated && f.Packed:
			w := f.Kind.Width() / 8
			if f.Kind == vschema.Bool {
				w = 0
			}
			isFixed := false
			switch f.Kind {
			case vschema.Fixed32, vschema.Sfixed32, vschema.Float, vschema.Fixed64, vschema.Sfixed64, vschema.Double:
				isFixed = true
			}
			seen := map[int]bool{}
			for _, n := range near {
				var counts []int
				var elem *vval.Val
				if isFixed {
					counts, elem = []int{n / w}, vval.VBits(1)
				} else {
					// one-byte elements, and (signed kinds) ten-byte elements
					counts, elem = []int{n}, vval.VBits(1)
				}
				for _, c := range counts {
					if c <= 0 || seen[c] {
						continue
					}
					seen[c] = true
					l := vval.VList(true, nil)
					for i := 0; i < c; i++ {
						l.Kids = append(l.Kids, elem)
					}
					v := vval.Empty(S, 0)
					v.Kids[j] = l
					run(fmt.Sprintf("packed:%d:%d", j, c), v)
				}
				if !isFixed && f.Kind.Signed() && f.Kind != vschema.Sint32 && f.Kind != vschema.Sint64 && n >= 20 && n < 1<<20 {
					// the same payload size n made of ten-byte elements (negative values) plus one-byte fill
					tens, ones := (n-10)/10, (n-10)%10+10
					if (n-10)%10 == 0 {
						tens, ones = n/10, 0
					}
					if !seen[-n] {
						seen[-n] = true
						neg := uint64(0xFFFFFFFFFFFFFFFF)
						if f.Kind.Width() == 32 {
							neg = 0xFFFFFFFF
						}
						l := vval.VList(true, nil)
						for i := 0; i < tens; i++ {
							l.Kids = append(l.Kids, vval.VBits(neg))
						}
						for i := 0; i < ones; i++ {
							l.Kids = append(l.Kids, vval.VBits(1))
						}
						v := vval.Empty(S, 0)
						v.Kids[j] = l
						run(fmt.Sprintf("packed10:%d:%d", j, n), v)
					}
				}
			}
		}
		// string map keys at the boundaries
		if f.Shape == vschema.Map && f.Key == vschema.String {
			for _, n := range near {
				if n > 20000 {
					continue
				}
				var val *vval.Val
				if f.IsMsg {
					val = vval.Empty(S, f.Msg)
				} else if f.Kind.IsBlob() {
					val = blobOf(1, f.Kind == vschema.String)
				} else {
					val = vval.VBits(1)
				}
				v := vval.Empty(S, 0)
				v.Kids[j] = vval.VMap(true, []*vval.Val{vval.VEntry(blobOf(n, true), val)})
				run(fmt.Sprintf("key:%d:%d", j, n), v)
			}
		}
	}
}
