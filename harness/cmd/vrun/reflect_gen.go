package main

// Type-directed generator of reflection ops. The generator looks at the current abstract state of the
// reference message (RepNorm form) to choose mostly-valid indexes and keys.

import (
	"github.com/cosmos/cosmos-proto/internal/verifh/vschema"
	"github.com/cosmos/cosmos-proto/internal/verifh/vval"
)

type opGen struct {
	r    *vschema.Rand
	s    *vschema.Schema
	en   []int32
	long bool // thorough: allow deeper paths
	// misuseBudget: number of misuse ops (`set j (l )`) the current history may still contain; set per
	// history so that at most ~1% of the histories are misuse histories.
	misuseBudget int
	// getters: per message index, per field index the generated Get<GoName> method ("" = none known); nil = the
	// `getter` op is never generated (library pass).
	getters [][]string
}

const maxBlobInOp = 96

func blobTooLong(v *vval.Val) bool {
	if v.T == vval.Blob && len(v.B) > maxBlobInOp {
		return true
	}
	for _, k := range v.Kids {
		if blobTooLong(k) {
			return true
		}
	}
	return false
}

var smallKeys = []uint64{0, 1, 2, 0xffffffffffffffff, 7}
var smallStrKeys = []string{"", "a", "k", "key", "zz"}

func (g *opGen) scalar(k vschema.Kind) *vval.Val {
	o := &vval.GenOpts{EnumNums: g.en}
	for {
		v := o.Scalar(g.r, k)
		if blobTooLong(v) {
			continue
		}
		if k == vschema.Float && isSNaN32(v.N) {
			continue
		}
		if k == vschema.Bytes && len(v.B) > 0 {
			v.NonNil = true
		}
		return v
	}
}

func (g *opGen) newKey(k vschema.Kind) *vval.Val {
	if g.r.Chance(55) {
		switch {
		case k == vschema.String:
			return vval.VBlob(false, []byte(smallStrKeys[g.r.Intn(len(smallStrKeys))]))
		case k == vschema.Bool:
			return vval.VBits(uint64(g.r.Intn(2)))
		default:
			n := smallKeys[g.r.Intn(len(smallKeys))]
			if k.Width() == 32 {
				n &= 0xFFFFFFFF
			}
			return vval.VBits(n)
		}
	}
	v := g.scalar(k)
	v.NonNil = false
	return v
}

// normWrite makes a generated message value buildable exactly through the reflection API: empty
// containers are nil, non-empty ones non-nil.
func normWrite(v *vval.Val) *vval.Val {
	o := &vval.Val{T: v.T, N: v.N, NonNil: v.NonNil, B: v.B}
	for _, k := range v.Kids {
		o.Kids = append(o.Kids, normWrite(k))
	}
	if v.T == vval.List || v.T == vval.Map {
		o.NonNil = len(v.Kids) > 0
	}
	return o
}

func (g *opGen) message(mi int) *vval.Val {
	for {
		o := &vval.GenOpts{MaxDepth: 1, EnumNums: g.en, Unknown: g.r.Chance(20), Budget: 24}
		if g.r.Chance(30) {
			o.MaxDepth = 0
		}
		v := o.Message(g.r, g.s, mi, 0)
		if blobTooLong(v) || hasSNaN32(g.s, mi, v) {
			continue
		}
		return normWrite(v)
	}
}

func (g *opGen) elem(f *vschema.Field) *vval.Val {
	if f.IsMsg {
		return g.message(f.Msg)
	}
	if f.Kind == vschema.Bytes && g.r.Chance(35) {
		// the two empty bytes values: nil (what NewElement / NewValue hand out) and allocated-empty
		return vval.VBlob(g.r.Bool(), nil)
	}
	return g.scalar(f.Kind)
}

// fieldValue: a value for `set j`.
func (g *opGen) fieldValue(f *vschema.Field) *vval.Val {
	switch f.Shape {
	case vschema.Repeated:
		n := []int{0, 1, 1, 2, 3}[g.r.Intn(5)]
		l := vval.VList(true, nil)
		for i := 0; i < n; i++ {
			l.Kids = append(l.Kids, g.elem(f))
		}
		return l
	case vschema.Map:
		n := []int{0, 1, 1, 2, 3}[g.r.Intn(5)]
		m := vval.VMap(true, nil)
		seen := map[string]bool{}
		for i := 0; i < n; i++ {
			k := g.newKey(f.Key)
			if seen[k.String()] {
				continue
			}
			seen[k.String()] = true
			m.Kids = append(m.Kids, vval.VEntry(k, g.elem(f)))
		}
		return m
	}
	return g.elem(f)
}

// slotOf returns the shadow slot j of cur (nil cur = empty message).
func (g *opGen) slotOf(cur *vval.Val, mi, j int) *vval.Val {
	if cur == nil || j >= len(cur.Kids) {
		f := g.s.Msgs[mi].Fields[j]
		return vval.ZeroSlot(&f)
	}
	return cur.Kids[j]
}

func pick(r *vschema.Rand, xs []int) int { return xs[r.Intn(len(xs))] }

// gen produces one op against the abstract state `state` (RepNorm form of the root).
func (g *opGen) gen(state *vval.Val) *rop {
	r := g.r
	op := &rop{}
	mi := 0
	cur := state
	pure := true // resolving the path with Mutable creates nothing
	badAt := false
	missingKey := false
	maxDepth := 2
	if g.long {
		maxDepth = 3
	}
	// ---- path
pathLoop:
	for d := 0; d < maxDepth; d++ {
		sm := &g.s.Msgs[mi]
		var msgFields []int
		for j, f := range sm.Fields {
			if f.IsMsg {
				msgFields = append(msgFields, j)
			}
		}
		if len(msgFields) == 0 || !r.Chance(38) {
			break
		}
		// favour populated message fields
		j := pick(r, msgFields)
		for try := 0; try < 3; try++ {
			sl := g.slotOf(cur, mi, j)
			if sl.T == vval.Msg || sl.T == vval.One || len(sl.Kids) > 0 {
				break
			}
			j = pick(r, msgFields)
		}
		f := &sm.Fields[j]
		sl := g.slotOf(cur, mi, j)
		st := rstep{j: j}
		var next *vval.Val
		switch f.Shape {
		case vschema.Singular:
			st.kind = "in"
			if sl.T == vval.Msg {
				next = sl
			} else {
				pure = false
			}
		case vschema.Oneof:
			st.kind = "in"
			if sl.T == vval.One {
				next = sl.Kids[0]
			} else {
				pure = false
			}
		case vschema.Repeated:
			st.kind = "at"
			n := len(sl.Kids)
			if n > 0 && !(pure && r.Chance(1)) {
				st.i = r.Intn(n)
				next = sl.Kids[st.i]
			} else if n > 0 {
				st.i = n + r.Intn(2)
				badAt = true
			} else {
				// empty list: a write through `at` would first allocate the list (Mutable) and then panic,
				// i.e. a panicking op that changes the representation: never generated
				break pathLoop
			}
		case vschema.Map:
			st.kind = "mv"
			n := len(sl.Kids)
			if n > 0 && r.Chance(80) {
				e := sl.Kids[r.Intn(n)]
				st.key = e.Kids[0]
				next = e.Kids[1]
			} else {
				st.key = g.newKey(f.Key)
				for _, e := range sl.Kids {
					if e.Kids[0].String() == st.key.String() {
						next = e.Kids[1]
					}
				}
				if next == nil {
					missingKey = true
					pure = false
				}
			}
		}
		op.path = append(op.path, st)
		mi = f.Msg
		cur = next
		if badAt || missingKey {
			break
		}
	}
	sm := &g.s.Msgs[mi]
	nf := len(sm.Fields)
	var lists, maps, comps, scalars, all []int
	for j, f := range sm.Fields {
		all = append(all, j)
		switch {
		case f.Shape == vschema.Repeated:
			lists = append(lists, j)
			comps = append(comps, j)
		case f.Shape == vschema.Map:
			maps = append(maps, j)
			comps = append(comps, j)
		case f.IsMsg:
			comps = append(comps, j)
		default:
			scalars = append(scalars, j)
		}
	}
	ngroups := len(sm.OneofNames)
	var oneofs, populated []int
	for j, f := range sm.Fields {
		if f.Shape == vschema.Oneof {
			oneofs = append(oneofs, j)
		}
		sl := g.slotOf(cur, mi, j)
		if sl.T == vval.Msg || sl.T == vval.One || len(sl.Kids) > 0 || (sl.T == vval.Bits && sl.N != 0) || (sl.T == vval.Blob && len(sl.B) > 0) {
			populated = append(populated, j)
		}
	}
	// pickAny: biased towards oneof members (history-dependent behaviour) and populated fields
	pickAny := func() int {
		c := r.Intn(100)
		if c < 22 && len(oneofs) > 0 {
			return pick(r, oneofs)
		}
		if c < 40 && len(populated) > 0 {
			return pick(r, populated)
		}
		return pick(r, all)
	}
	if badAt {
		op.expectPanic = true
	}
	// a missing map key / bad index on the path: reads only half of the time (writes create the entry)
	existingKey := func(j int) *vval.Val {
		sl := g.slotOf(cur, mi, j)
		if len(sl.Kids) > 0 && r.Chance(75) {
			return sl.Kids[r.Intn(len(sl.Kids))].Kids[0]
		}
		return g.newKey(sm.Fields[j].Key)
	}
	hasKey := func(j int, k *vval.Val) bool {
		for _, e := range g.slotOf(cur, mi, j).Kids {
			if e.Kids[0].String() == k.String() {
				return true
			}
		}
		return false
	}
	_ = hasKey
	for {
		c := r.Intn(1065)
		if g.misuseBudget > 0 && r.Chance(10) {
			c = 520
		}
		switch {
		// ---------------- the generated plain-Go accessor (about 6%); like every read it is also addressed through
		// in/at/mv paths, so it runs on nested messages and on nil receivers (unpopulated message fields)
		case c >= 1000:
			if nf == 0 || g.getters == nil || mi >= len(g.getters) {
				continue
			}
			j := pickAny()
			if c >= 1040 {
				// composite fields: message pointers, slices, maps
				if len(comps) == 0 {
					continue
				}
				j = pick(r, comps)
			}
			if j >= len(g.getters[mi]) || g.getters[mi][j] == "" {
				continue
			}
			op.name, op.j = "getter", j
		// ---------------- reads (about 38%)
		case c < 50:
			if nf == 0 {
				continue
			}
			op.name, op.j = "has", pickAny()
		case c < 120:
			if nf == 0 {
				continue
			}
			op.name, op.j = "get", pickAny()
		case c < 150:
			if ngroups == 0 {
				continue
			}
			op.name, op.j = "which", r.Intn(ngroups)
		case c < 190:
			op.name = "range"
		case c < 205:
			op.name = "getu"
		case c < 220:
			op.name = "valid"
		case c < 240:
			if len(lists) == 0 {
				continue
			}
			op.name, op.j = "llen", pick(r, lists)
		case c < 280:
			if len(lists) == 0 {
				continue
			}
			op.name, op.j = "lget", pick(r, lists)
			n := len(g.slotOf(cur, mi, op.j).Kids)
			if n > 0 && !r.Chance(3) {
				op.i = r.Intn(n)
			} else {
				if n > 0 || r.Chance(10) {
					op.i = n + r.Intn(2)
					op.expectPanic = true
				} else {
					continue
				}
			}
		case c < 295:
			if len(maps) == 0 {
				continue
			}
			op.name, op.j = "mlen", pick(r, maps)
		case c < 320:
			if len(maps) == 0 {
				continue
			}
			op.name, op.j = "mhas", pick(r, maps)
			op.key = existingKey(op.j)
		case c < 350:
			if len(maps) == 0 {
				continue
			}
			op.name, op.j = "mget", pick(r, maps)
			op.key = existingKey(op.j)
		case c < 365:
			if len(maps) == 0 {
				continue
			}
			op.name, op.j = "mrange", pick(r, maps)
		case c < 375:
			op.name = "size"
		case c < 385:
			op.name = "enc"

		// ---------------- writes
		case c < 520:
			if nf == 0 {
				continue
			}
			op.name, op.j = "set", pickAny()
			op.val = g.fieldValue(&sm.Fields[op.j])
		case c < 522:
			// misuse: Set(fd, Get(fd)) of an unpopulated list/map field
			var cand []int
			for _, j := range comps {
				f := sm.Fields[j]
				if (f.Shape == vschema.Repeated || f.Shape == vschema.Map) && len(g.slotOf(cur, mi, j).Kids) == 0 {
					cand = append(cand, j)
				}
			}
			if len(cand) == 0 || !pure || g.misuseBudget == 0 {
				continue
			}
			g.misuseBudget--
			op.name, op.j, op.misuse = "set", pick(r, cand), true
			if sm.Fields[op.j].Shape == vschema.Repeated {
				op.val = vval.VList(false, nil)
			} else {
				op.val = vval.VMap(false, nil)
			}
		case c < 590:
			if nf == 0 {
				continue
			}
			op.name, op.j = "clear", pickAny()
		case c < 640:
			if len(comps) > 0 && !(pure && len(scalars) > 0 && r.Chance(3)) {
				op.name, op.j = "mut", pick(r, comps)
				if r.Chance(30) {
					op.name = "mutset"
				}
			} else if pure && len(scalars) > 0 && r.Chance(8) {
				op.name, op.j = "mut", pick(r, scalars)
				op.expectPanic = true
			} else {
				continue
			}
		case c < 665:
			if nf == 0 {
				continue
			}
			op.name, op.j = "newf", pick(r, all)
		case c < 690:
			op.name = "setu"
			if r.Chance(75) {
				used := map[int]bool{}
				for _, f := range sm.Fields {
					used[f.Num] = true
				}
				op.raw = vval.UnknownTail(r, used, 0)
			}
		case c < 740:
			if len(lists) == 0 {
				continue
			}
			op.name, op.j = "lset", pick(r, lists)
			n := len(g.slotOf(cur, mi, op.j).Kids)
			switch {
			case n > 0 && !(pure && r.Chance(2)):
				op.i = r.Intn(n)
			case n > 0:
				op.i = n + r.Intn(2)
				op.expectPanic = true
			default:
				continue
			}
			op.val = g.elem(&sm.Fields[op.j])
		case c < 820:
			if len(lists) == 0 {
				continue
			}
			op.name, op.j = "lapp", pick(r, lists)
			op.val = g.elem(&sm.Fields[op.j])
		case c < 855:
			if len(lists) == 0 {
				continue
			}
			op.name, op.j = "lappm", pick(r, lists)
			f := sm.Fields[op.j]
			if !f.IsMsg {
				// scalar list: panics; only rarely, on a populated list reached without allocation
				if !(pure && len(g.slotOf(cur, mi, op.j).Kids) > 0 && r.Chance(6)) {
					continue
				}
				op.expectPanic = true
			}
		case c < 890:
			if len(lists) == 0 {
				continue
			}
			op.name, op.j = "ltrunc", pick(r, lists)
			// Truncate(n > len) is capacity-dependent in every implementation (s[:n] within cap succeeds): never generated
			op.i = r.Intn(len(g.slotOf(cur, mi, op.j).Kids) + 1)
		case c < 940:
			if len(maps) == 0 {
				continue
			}
			op.name, op.j = "mset", pick(r, maps)
			op.key = existingKey(op.j)
			op.val = g.elem(&sm.Fields[op.j])
		case c < 965:
			if len(maps) == 0 {
				continue
			}
			op.name, op.j = "mclr", pick(r, maps)
			op.key = existingKey(op.j)
		case c < 990:
			if len(maps) == 0 {
				continue
			}
			op.name, op.j = "mmut", pick(r, maps)
			f := sm.Fields[op.j]
			op.key = existingKey(op.j)
			if !f.IsMsg {
				if !(pure && len(g.slotOf(cur, mi, op.j).Kids) > 0 && r.Chance(6)) {
					continue
				}
				op.expectPanic = true
			}
		default:
			if len(op.path) != 0 {
				continue
			}
			op.name = "reset"
		}
		break
	}
	// a write through a missing map key creates the entry (valid); a write through a bad index panics.
	return op
}
