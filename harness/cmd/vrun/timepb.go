package main

import (
	"fmt"
	"math"
	"math/big"
	"time"

	"github.com/cosmos/cosmos-proto/internal/verifh/vschema"
	"github.com/cosmos/cosmos-proto/support/timepb"
	durpb "google.golang.org/protobuf/types/known/durationpb"
	tspb "google.golang.org/protobuf/types/known/timestamppb"
)

func init() { engines["timepb"] = runTimepb }

// C17: timepb.Add/AddStd/Compare against exact big-integer arithmetic, plus model lines.
func runTimepb(cfg *Cfg) {
	out := newOut(cfg.Out, "timepb")
	defer out.Close()
	out.res.Programs = 1
	out.res.Rule = "valid (seconds,nanos) timestamps x valid durations of either sign from boundary pools (range extremes, every carry/borrow boundary of nanos) and random draws; overflow cases with seconds near the int64 limits; Compare on normalised and arbitrary pairs"
	r := vschema.NewRand(cfg.Seed)
	const minS, maxS = -62135596800, 253402300799
	secPool := []int64{minS, minS + 1, -1, 0, 1, 10, 1700000000, maxS - 1, maxS}
	nanoPool := []int32{0, 1, 2, 5, 499999999, 500000000, 999999998, 999999999}
	// incl. the boundary of what a time.Duration can express (±9223372036.854775807 s)
	dsecPool := []int64{-315576000000, -315575999999, -2, -1, 0, 1, 2, 315575999999, 315576000000,
		9223372035, 9223372036, 9223372037, -9223372035, -9223372036, -9223372037, 9223372036, -9223372036}
	dnanoPool := []int32{0, 1, 5, 999999999, 999999998, 500000000, 854775806, 854775807, 854775808, 854775809}
	n := 30000
	if cfg.Tier == "thorough" {
		n = 1000000
	}
	instOf := func(s int64, ns int32) *big.Int {
		x := new(big.Int).Mul(big.NewInt(s), big.NewInt(1e9))
		return x.Add(x, big.NewInt(int64(ns)))
	}
	for i := 0; i < n; i++ {
		var s, ds int64
		var ns, dn int32
		if r.Chance(60) {
			s, ns = secPool[r.Intn(len(secPool))], nanoPool[r.Intn(len(nanoPool))]
		} else {
			s, ns = minS+int64(r.U64()%uint64(maxS-minS+1)), int32(r.Intn(1000000000))
		}
		if r.Chance(60) {
			ds, dn = dsecPool[r.Intn(len(dsecPool))], dnanoPool[r.Intn(len(dnanoPool))]
		} else {
			ds, dn = int64(r.U64()%uint64(2*315576000000+1))-315576000000, int32(r.Intn(1000000000))
		}
		if ds < 0 || (ds == 0 && r.Bool()) {
			dn = -dn
		}
		if r.Chance(12) {
			// durations whose length in nanoseconds sits on (or next to) a multiple of 2^64, 2^63, 2^62 or 2^32: where
			// an intermediate computed in wrapping 64-bit (or 32-bit) arithmetic comes out as 0 or changes sign
			unit := []uint{64, 63, 62, 32}[r.Intn(4)]
			k := int64(1 + r.Intn(17))
			if unit == 32 {
				k = int64(1 + r.Intn(1<<20))
			}
			total := new(big.Int).Lsh(big.NewInt(k), unit)
			total.Add(total, big.NewInt(int64(r.Intn(3)-1)))
			if r.Bool() {
				total.Neg(total)
			}
			q, m := new(big.Int).QuoRem(total, big.NewInt(1e9), new(big.Int)) // truncated: both parts carry the sign
			if q.IsInt64() && q.Int64() >= -315576000000 && q.Int64() <= 315576000000 {
				ds, dn = q.Int64(), int32(m.Int64())
				out.Count("durations_at_power_of_two_nanos")
			}
		}
		overflowMode := r.Chance(8)
		if overflowMode { // seconds near the int64 limits, normalised nanos, valid duration
			if r.Bool() {
				s = math.MaxInt64 - int64(r.Intn(3))
			} else {
				s = math.MinInt64 + int64(r.Intn(3))
			}
		}
		t := &tspb.Timestamp{Seconds: s, Nanos: ns}
		d := &durpb.Duration{Seconds: ds, Nanos: dn}
		line := fmt.Sprintf("tsadd %d %d %d %d", s, ns, ds, dn)
		out.Case(line, true)
		if i < 3 {
			out.Sample(line)
		}
		var res *tspb.Timestamp
		p, _ := guard(func() { res = timepb.Add(t, d) })
		exact := new(big.Int).Add(instOf(s, ns), instOf(ds, dn))
		q, m := new(big.Int).DivMod(exact, big.NewInt(1e9), new(big.Int))
		fits := q.IsInt64()
		if p {
			out.Line("C17", line, "panic")
			if fits {
				out.Violate("C17", "add-spurious-panic", "Add panicked although t+d is representable", line)
			}
			out.Count("add_panics")
			continue
		}
		out.Line("C17", line, fmt.Sprintf("ok %d %d", res.Seconds, res.Nanos))
		if !fits {
			out.Violate("C17", "add-wrapped", fmt.Sprintf("Add returned {%d,%d} although the seconds sum overflows", res.Seconds, res.Nanos), line)
			continue
		}
		if res.Seconds != q.Int64() || int64(res.Nanos) != m.Int64() {
			key := "add-inexact"
			if res.Nanos < 0 || res.Nanos >= 1e9 {
				key = "add-not-normalised"
			}
			out.Violate("C17", key, fmt.Sprintf("Add=%d,%d exact normalised=%d,%d", res.Seconds, res.Nanos, q.Int64(), m.Int64()), line)
		}
		if res == t {
			out.Violate("C17", "add-not-fresh", "Add returned its argument", line)
		}
		if !overflowMode {
			if q.Int64() >= minS && q.Int64() <= maxS && res.CheckValid() != nil {
				out.Violate("C17", "add-invalid", "result fails CheckValid: "+res.CheckValid().Error(), line)
			}
			// AddStd agreement for durations expressible as time.Duration
			dd := new(big.Int).Set(instOf(ds, dn))
			if dd.IsInt64() {
				var std *tspb.Timestamp
				ps, _ := guard(func() { std = timepb.AddStd(t, time.Duration(dd.Int64())) })
				if ps || std.Seconds != res.Seconds || std.Nanos != res.Nanos {
					out.Violate("C17", "add-vs-addstd", fmt.Sprintf("Add=%v AddStd=%v (panic=%v)", res, std, ps), line)
				}
				if !ps && std == t {
					out.Violate("C17", "addstd-not-fresh", "AddStd returned its argument", line)
				}
				out.Line("C17", fmt.Sprintf("tsstd %d %d %d", s, ns, dd.Int64()), fmt.Sprintf("ok %d %d", res.Seconds, res.Nanos))
			}
		}
		// Compare
		s2, n2 := s, ns
		switch r.Intn(4) {
		case 0:
			s2 = secPool[r.Intn(len(secPool))]
		case 1:
			n2 = nanoPool[r.Intn(len(nanoPool))]
		case 2:
			s2, n2 = res.Seconds, res.Nanos
		}
		c := timepb.Compare(t, &tspb.Timestamp{Seconds: s2, Nanos: n2})
		want := instOf(s, ns).Cmp(instOf(s2, n2))
		out.Line("C17", fmt.Sprintf("tscmp %d %d %d %d", s, ns, s2, n2), fmt.Sprint(c))
		if c != want {
			out.Violate("C17", "compare", fmt.Sprintf("Compare=%d chronological=%d", c, want), fmt.Sprintf("tscmp %d %d %d %d", s, ns, s2, n2))
		}
		if c2 := timepb.Compare(&tspb.Timestamp{Seconds: s2, Nanos: n2}, t); c2 != -c {
			out.Violate("C17", "compare-antisym", "Compare(a,b) != -Compare(b,a)", fmt.Sprintf("tscmp %d %d %d %d", s, ns, s2, n2))
		}
	}
	// exhaustive pass over boundary values taken from the SOURCE (integer constants of support/timepb incl. folded
	// constant expressions, VERIF_SRC_CONSTS): every such constant c as seconds, next to c±1, -c, MaxInt64-c,
	// MinInt64+c, crossed with the duration boundaries and with nanos pairs that carry, borrow or do neither
	var hsec []int64
	seenS := map[int64]bool{}
	addS := func(v *big.Int) {
		if v.IsInt64() && !seenS[v.Int64()] {
			seenS[v.Int64()] = true
			hsec = append(hsec, v.Int64())
		}
	}
	maxI, minI := big.NewInt(math.MaxInt64), big.NewInt(math.MinInt64)
	consts := srcConsts("support/timepb")
	consts = append(consts, big.NewInt(315576000000), big.NewInt(maxS), big.NewInt(minS))
	for _, c := range consts {
		for d := int64(-1); d <= 1; d++ {
			cd := new(big.Int).Add(c, big.NewInt(d))
			addS(cd)
			addS(new(big.Int).Neg(cd))
			addS(new(big.Int).Sub(maxI, cd))
			addS(new(big.Int).Add(minI, cd))
		}
	}
	var hdsec []int64
	for _, v := range append(append([]int64{}, dsecPool...), hsec...) {
		if v >= -315576000000 && v <= 315576000000 {
			hdsec = append(hdsec, v)
		}
	}
	nanoPairs := [][2]int32{{0, 0}, {999999999, 1}, {999999999, 999999999}, {0, -1}, {1, -999999999}, {500000000, 499999999}, {0, 999999999}, {999999999, -999999999}}
	for _, s := range hsec {
		for _, ds := range hdsec {
			for _, np := range nanoPairs {
				ns, dn := np[0], np[1]
				if (ds > 0 && dn < 0) || (ds < 0 && dn > 0) {
					dn = -dn
				}
				t := &tspb.Timestamp{Seconds: s, Nanos: ns}
				d := &durpb.Duration{Seconds: ds, Nanos: dn}
				line := fmt.Sprintf("tsadd %d %d %d %d", s, ns, ds, dn)
				out.Case(line, true)
				out.Count("source_constant_cases")
				var res *tspb.Timestamp
				p, _ := guard(func() { res = timepb.Add(t, d) })
				exact := new(big.Int).Add(instOf(s, ns), instOf(ds, dn))
				q, m := new(big.Int).DivMod(exact, big.NewInt(1e9), new(big.Int))
				if ds == 0 && dn == 0 {
					q, m = big.NewInt(s), big.NewInt(int64(ns))
				}
				switch {
				case p && q.IsInt64():
					out.Violate("C17", "add-spurious-panic", "Add panicked although t+d is representable", line)
				case p:
					out.Line("C17", line, "panic")
				case !q.IsInt64():
					out.Violate("C17", "add-wrapped", fmt.Sprintf("Add returned {%d,%d} although the seconds sum overflows", res.Seconds, res.Nanos), line)
				case res.Seconds != q.Int64() || int64(res.Nanos) != m.Int64():
					out.Violate("C17", "add-inexact", fmt.Sprintf("Add=%d,%d exact normalised=%d,%d", res.Seconds, res.Nanos, q.Int64(), m.Int64()), line)
				default:
					out.Line("C17", line, fmt.Sprintf("ok %d %d", res.Seconds, res.Nanos))
				}
			}
		}
	}
	// call histories: Add is a function of its arguments. The same call repeated, with the EARLIER RESULT modified by
	// the caller in between (it is the caller's own value) and with other calls in between, must give the same
	// answer every time; results of different calls share no memory.
	for h := 0; h < 400; h++ {
		s, ns := secPool[r.Intn(len(secPool))], nanoPool[r.Intn(len(nanoPool))]
		ds, dn := int64(1+r.Intn(100000)), nanoPool[r.Intn(len(nanoPool))]
		if r.Bool() {
			ds, dn = -ds, -dn
		}
		line := fmt.Sprintf("tsadd %d %d %d %d", s, ns, ds, dn)
		out.Case("history:"+line+fmt.Sprint(h), true)
		out.Count("add_history_cases")
		bad := ""
		p, pm := guard(func() {
			t := &tspb.Timestamp{Seconds: s, Nanos: ns}
			d := &durpb.Duration{Seconds: ds, Nanos: dn}
			r1 := timepb.Add(t, d)
			want := [2]int64{r1.Seconds, int64(r1.Nanos)}
			if h%2 == 0 {
				_ = timepb.Add(&tspb.Timestamp{Seconds: s + 7, Nanos: ns}, d) // another call in between
			}
			r1.Seconds, r1.Nanos = r1.Seconds+3600, 1 // the caller edits ITS result
			r2 := timepb.Add(&tspb.Timestamp{Seconds: s, Nanos: ns}, &durpb.Duration{Seconds: ds, Nanos: dn})
			if r2.Seconds != want[0] || int64(r2.Nanos) != want[1] {
				bad = fmt.Sprintf("the same Add gave {%d,%d} first and {%d,%d} after the caller had edited the first result", want[0], want[1], r2.Seconds, r2.Nanos)
			}
			r2.Nanos = 2
			r3 := timepb.Add(t, d)
			if bad == "" && (r3.Seconds != want[0] || int64(r3.Nanos) != want[1] || r3 == r2 || r3 == r1) {
				bad = fmt.Sprintf("third identical Add gave {%d,%d}, first {%d,%d}", r3.Seconds, r3.Nanos, want[0], want[1])
			}
		})
		if p {
			out.Violate("C17", "add-history-panic", "Add panicked in a call history: "+firstLine(pm), line+" (history: Add, edit result, Add again)")
		} else if bad != "" {
			out.Violate("C17", "add-depends-on-history", bad, line+" (history: Add, edit result, Add again)")
		}
	}
	if timepb.Add(nil, &durpb.Duration{Seconds: 1}) != nil || timepb.AddStd(nil, time.Second) != nil {
		out.Violate("C17", "nil", "Add(nil) != nil", "tsadd nil")
	}
}
