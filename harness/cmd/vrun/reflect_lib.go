package main

// C10: generic library algorithms on generated vs reference (dynamicpb) messages holding the same value.

import (
	"fmt"
	"reflect"
	"strings"

	"github.com/cosmos/cosmos-proto/internal/verifh/vschema"
	"github.com/cosmos/cosmos-proto/internal/verifh/vval"
	"google.golang.org/protobuf/encoding/protojson"
	"google.golang.org/protobuf/encoding/prototext"
	"google.golang.org/protobuf/proto"
	"google.golang.org/protobuf/reflect/protoreflect"
	"google.golang.org/protobuf/types/dynamicpb"
)

type libCtx struct {
	b *tbuf
	t *Target
	g *opGen
	// sharedMapDone: the shared-empty-map histories are value independent, run once per type
	sharedMapDone  bool
	sharedListDone bool
}

// pair builds the generated message and the reference holding v (transported through the wire).
func (c *libCtx) pair(v *vval.Val) (proto.Message, *dynamicpb.Message, bool) {
	a := c.t.B.ToMessage(0, v)
	dyn := dynamicpb.NewMessage(c.t.Desc)
	bs, err := proto.Marshal(a)
	if err != nil || proto.Unmarshal(bs, dyn) != nil {
		c.b.Count("lib_transport_failed")
		return nil, nil, false
	}
	return a, dyn, true
}

func (c *libCtx) view(m proto.Message) string {
	// Normalize: a nil list element / map value / oneof payload reads as an empty message, a typed-nil
	// oneof wrapper as an unset oneof (no effect on junk-free values beyond nil-vs-empty, which RepNorm erases)
	return vval.RepNorm(c.t.S, 0, vval.Normalize(c.t.S, 0, c.t.B.FromMessage(0, m))).String()
}
func (c *libCtx) canon(m proto.Message) string {
	return vval.Canon(c.t.S, 0, c.t.B.FromMessage(0, m)).String()
}
func (c *libCtx) rview(m *dynamicpb.Message) string { return vval.FromReflect(c.t.S, 0, m).String() }

// mutateBoth applies up to n random successful write ops to the generated message and the reference.
func (c *libCtx) mutateBoth(a proto.Message, dyn *dynamicpb.Message, n int) (applied []string) {
	ma := newMach("fast", c.t.S, a.ProtoReflect())
	var mb *rmach
	if dyn != nil {
		mb = newMach("dyn", c.t.S, dyn)
	}
	for tries := 0; tries < 40 && len(applied) < n; tries++ {
		state := vval.RepNorm(c.t.S, 0, c.t.B.FromMessage(0, a))
		op := c.g.gen(state)
		if !op.isWrite() || op.misuse || op.expectPanic || op.name == "newf" {
			continue
		}
		oa, _ := ma.exec(op)
		if mb != nil {
			mb.exec(op)
		}
		if oa == "ok" {
			applied = append(applied, op.String())
		}
	}
	return applied
}

func libPass(b *tbuf, t *Target, r *vschema.Rand, en []int32, reached []*vval.Val, n int) {
	c := &libCtx{b: b, t: t, g: &opGen{r: r, s: t.S, en: en}} // misuseBudget 0: never misuse
	S := t.S
	var vals []*vval.Val
	for i := 0; i < n; i++ {
		vals = append(vals, genInit(r, t, en))
	}
	for i := 0; i < n/3+1; i++ {
		// hand-built states no decoder produces: nil list elements / map values / oneof payloads, typed-nil wrappers
		o := &vval.GenOpts{MaxDepth: 2, EnumNums: en, Budget: 40, NilJunk: true}
		v := o.Message(r, t.S, 0, 0)
		if !blobTooLong(v) {
			vals = append(vals, v)
		}
	}
	nRandom := len(vals)
	vals = append(vals, reached...)
	for i, v := range vals {
		if !utf8ok(S, 0, v) || hasSNaN32(S, 0, v) {
			b.Count("lib_value_skipped")
			continue
		}
		if hasJunk(S, 0, v) {
			// nil list elements / map values / oneof payloads, typed-nil wrappers: the library algorithms
			// must see them as the reference sees the value that the wire transports (C09 + C10)
			b.Count("lib_cases_with_nil_junk")
		}
		src := "random"
		if i >= nRandom {
			src = "reached"
		}
		b.Count("lib_cases_" + src)
		vs := v.String()
		b.Case("lib "+t.Full+" "+vs, len(vs) > 4*len(v.Kids)+8)
		replay := S.Line() + "\n# lib-pass type " + t.Full + " value " + vs
		other := vals[r.Intn(len(vals))]
		if hasJunk(S, 0, other) || hasSNaN32(S, 0, other) {
			other = vval.Empty(S, 0)
		}
		if p, pm := guard(func() { c.libCase(v, other, replay) }); p {
			b.Violate("C10", "lib:panic", "library pass panicked: "+pm, replay)
		}
	}
}

func (c *libCtx) libCase(v, other *vval.Val, replay string) {
	b, t, S := c.b, c.t, c.t.S
	viol := func(what, desc string) { b.Violate("C10", "lib:"+what, desc, replay) }
	a, dyn, ok := c.pair(v)
	if !ok {
		return
	}
	want := c.rview(dyn)
	if got := c.view(a); got != want {
		b.Violate("HARNESS", "lib-transport", "struct view differs from reference after transport", replay)
		return
	}
	// ---- Equal with itself / cross implementation
	if g, w := proto.Equal(a, a), proto.Equal(dyn, dyn); g != w {
		viol("equal-self", fmt.Sprintf("Equal(a,a) = %v, reference %v", g, w))
	}
	if g, w := proto.Equal(a, dyn), proto.Equal(dyn, dyn); g != w {
		viol("equal-cross", fmt.Sprintf("Equal(generated, reference) = %v, Equal(reference, reference) = %v", g, w))
	}
	if g, w := proto.Equal(dyn, a), proto.Equal(dyn, dyn); g != w {
		viol("equal-cross", fmt.Sprintf("Equal(reference, generated) = %v, Equal(reference, reference) = %v", g, w))
	}
	// ---- Clone: same value, deep and independent
	before := c.canon(a)
	cl := proto.Clone(a)
	cd := proto.Clone(dyn).(*dynamicpb.Message)
	if fmt.Sprintf("%T", cl) != fmt.Sprintf("%T", a) {
		viol("clone", fmt.Sprintf("Clone returned %T for %T", cl, a))
		return
	}
	if got := c.view(cl); got != want {
		viol("clone", "clone "+clip(got, 400)+" differs from "+clip(want, 400))
	}
	if g, w := proto.Equal(a, cl), proto.Equal(dyn, cd); g != w {
		viol("equal-clone", fmt.Sprintf("Equal(a, clone) = %v, reference %v", g, w))
	}
	if g, w := proto.Equal(cl, a), proto.Equal(cd, dyn); g != w {
		viol("equal-clone", fmt.Sprintf("Equal(clone, a) = %v, reference %v", g, w))
	}
	// ---- one-or-two-writes-different variant (the clone, mutated through reflection on both sides)
	applied := c.mutateBoth(cl, cd, 1+c.g.r.Intn(2))
	if got := c.canon(a); got != before {
		viol("clone-independent", fmt.Sprintf("mutating the clone (%v) changed the original: %s -> %s", applied, clip(before, 300), clip(got, 300)))
	}
	if gv, wv := c.view(cl), c.rview(cd); gv != wv {
		// the reflection ops themselves diverged: that is the history oracle's business
		b.Count("lib_variant_diverged")
	} else {
		if g, w := proto.Equal(a, cl), proto.Equal(dyn, cd); g != w {
			viol("equal-variant", fmt.Sprintf("Equal(a, variant %v) = %v, reference %v", applied, g, w))
		}
		if g, w := proto.Equal(cl, a), proto.Equal(cd, dyn); g != w {
			viol("equal-variant", fmt.Sprintf("Equal(variant %v, a) = %v, reference %v", applied, g, w))
		}
		if proto.Equal(dyn, cd) {
			b.Count("lib_variant_equal")
		} else {
			b.Count("lib_variant_unequal")
		}
	}
	// ---- a clone shares no memory with the original: every byte of every []byte reachable from a second clone
	// is overwritten in place through the Go struct (the reflection API only ever replaces slices, which cannot
	// show shared backing arrays)
	{
		cl2 := proto.Clone(a)
		scribble(reflect.ValueOf(cl2), 0)
		if got := c.canon(a); got != before {
			viol("clone-shares-memory", fmt.Sprintf("overwriting the bytes of a clone in place changed the original: %s -> %s", clip(before, 300), clip(got, 300)))
		}
	}
	// ---- Merge(dst, src)
	if srcA, srcD, ok := c.pair(other); ok {
		dstA, dstD, _ := c.pair(v)
		srcBefore := c.canon(srcA)
		proto.Merge(dstA, srcA)
		proto.Merge(dstD, srcD)
		if got, w := c.view(dstA), c.rview(dstD); got != w {
			viol("merge", "Merge(dst, src) with src="+clip(other.String(), 300)+": got "+clip(got, 400)+" reference "+clip(w, 400))
		}
		if c.canon(srcA) != srcBefore {
			viol("merge", "Merge changed its source")
		}
		// the destination must not alias the source
		dstBefore := c.canon(dstA)
		ops := c.mutateBoth(srcA, nil, 2)
		if got := c.canon(dstA); got != dstBefore {
			viol("merge-independent", fmt.Sprintf("mutating the merge source (%v) changed the destination", ops))
		}
		// a destination whose lists have spare capacity holding STALE elements behind len (what `m.F = m.F[:k]` leaves):
		// slots beyond len are not part of the value, Merge must append copies of the source's elements
		{
			srcC, srcDC, _ := c.pair(other)
			dstC, dstDC, _ := c.pair(v)
			vval.AddStaleCapacity(dstC, 1)
			{
				proto.Merge(dstC, srcC)
				proto.Merge(dstDC, srcDC)
				if got, w := c.view(dstC), c.rview(dstDC); got != w {
					viol("merge-stale-capacity", "Merge(dst, src) into a destination whose lists have stale elements in their spare capacity: got "+clip(got, 400)+" reference "+clip(w, 400))
				}
			}
		}
		// ... also not through shared backing arrays of byte slices
		srcB, _, _ := c.pair(other)
		dstB, _, _ := c.pair(v)
		proto.Merge(dstB, srcB)
		dstBefore = c.canon(dstB)
		scribble(reflect.ValueOf(srcB), 0)
		if got := c.canon(dstB); got != dstBefore {
			viol("merge-shares-memory", "overwriting the bytes of the merge source in place changed the destination: "+clip(dstBefore, 300)+" -> "+clip(got, 300))
		}
	}
	// ---- reflective field copy dst.Set(fd, src.Get(fd)) of every populated list/map field, then the
	// source's fields are cleared and refilled: operations on one message must not change another one
	// (C08; outside the value-semantic model, decided on the real code only)
	{
		srcA, srcD, _ := c.pair(v)
		dstA := t.B.ToMessage(0, vval.Empty(S, 0))
		dstD := dynamicpb.NewMessage(t.Desc)
		sr, dr := srcA.ProtoReflect(), dstA.ProtoReflect()
		var copied []int
		for j := range S.Msgs[0].Fields {
			f := &S.Msgs[0].Fields[j]
			if f.Shape != vschema.Repeated && f.Shape != vschema.Map {
				continue
			}
			fd, fdD := fdOf(sr, f), fdOf(srcD, f)
			if !sr.Has(fd) || !srcD.Has(fdD) {
				continue
			}
			dr.Set(fd, sr.Get(fd))
			dstD.Set(fdD, srcD.Get(fdD))
			copied = append(copied, j)
		}
		if len(copied) > 0 {
			b.Count("lib_field_copy_cases")
			after := c.canon(dstA)
			if got, w := c.view(dstA), c.rview(dstD); got != w {
				b.Violate("C08", "field-copy", "dst.Set(fd, src.Get(fd)) gives "+clip(got, 300)+" reference "+clip(w, 300), replay)
			}
			for _, j := range copied {
				f := &S.Msgs[0].Fields[j]
				fd := fdOf(sr, f)
				var k0 protoreflect.MapKey
				if f.Shape == vschema.Map {
					sr.Get(fd).Map().Range(func(k protoreflect.MapKey, _ protoreflect.Value) bool { k0 = k; return false })
				}
				sr.Clear(fd)
				if f.Shape == vschema.Repeated {
					l := sr.Mutable(fd).List()
					l.Append(l.NewElement())
				} else {
					mp := sr.Mutable(fd).Map()
					mp.Set(k0, mp.NewValue())
				}
			}
			if got := c.canon(dstA); got != after {
				b.Violate("C08", "clear-changes-other-message", fmt.Sprintf("after dst.Set(fd, src.Get(fd)), clearing and refilling the source's fields %v changed the destination: %s -> %s", copied, clip(after, 300), clip(got, 300)), replay)
			}
		}
	}
	// ---- a map object shared through Set while it is still EMPTY (a NewField handle, or another message's
	// Mutable view): a later Mutable(fd) must keep handing out that same map. protoreflect leaves aliasing after Set
	// unspecified, so this is compared only where the two reference implementations (dynamicpb, protobuf-go's own
	// reflection over the same struct) agree with each other.
	if !c.sharedMapDone {
		c.sharedMapDone = true
		for j := range S.Msgs[0].Fields {
			f := &S.Msgs[0].Fields[j]
			if f.Shape != vschema.Map {
				continue
			}
			run := func(mk func() protoreflect.Message) (obs string) {
				if p, pm := guard(func() {
					m := mk()
					fd := fdOf(m, f)
					key := m.NewField(fd).Map()
					_ = key
					var k protoreflect.MapKey
					switch fd.MapKey().Kind() {
					case protoreflect.StringKind:
						k = protoreflect.ValueOfString("k").MapKey()
					case protoreflect.BoolKind:
						k = protoreflect.ValueOfBool(true).MapKey()
					case protoreflect.Int32Kind, protoreflect.Sint32Kind, protoreflect.Sfixed32Kind:
						k = protoreflect.ValueOfInt32(1).MapKey()
					case protoreflect.Int64Kind, protoreflect.Sint64Kind, protoreflect.Sfixed64Kind:
						k = protoreflect.ValueOfInt64(1).MapKey()
					case protoreflect.Uint32Kind, protoreflect.Fixed32Kind:
						k = protoreflect.ValueOfUint32(1).MapKey()
					default:
						k = protoreflect.ValueOfUint64(1).MapKey()
					}
					// A: handle from NewField, stored while empty, written after a later Mutable
					h := m.NewField(fd).Map()
					m.Set(fd, protoreflect.ValueOfMap(h))
					v := m.Mutable(fd).Map()
					h.Set(k, h.NewValue())
					obs = fmt.Sprintf("A:has=%v,len=%d,vlen=%d,vhas=%v", m.Has(fd), m.Get(fd).Map().Len(), v.Len(), v.Has(k))
					// B: another message given this message's (emptied) Mutable view
					m1, m2 := mk(), mk()
					m2.Set(fd, m1.Mutable(fd))
					w := m2.Mutable(fd).Map()
					w.Set(k, w.NewValue())
					obs += fmt.Sprintf(";B:m1len=%d,m2len=%d", m1.Get(fd).Map().Len(), m2.Get(fd).Map().Len())
				}); p {
					obs += ";panic:" + firstLine(pm)
				}
				return obs
			}
			og := run(func() protoreflect.Message { return t.Info.Proto.ProtoReflect().New() })
			od := run(func() protoreflect.Message { return dynamicpb.NewMessage(t.Desc) })
			os := od
			if t.Info.Slow != nil {
				os = run(func() protoreflect.Message { return t.Info.Slow(t.Info.Proto.ProtoReflect().New().Interface()) })
			}
			b.Count("shared_empty_map_cases")
			if od != os {
				b.Count("shared_empty_map_references_disagree")
				continue
			}
			if og != od {
				b.Violate("C08", "shared-map-detached", fmt.Sprintf("map field index %d shared through Set while empty: generated %s, references %s", j, og, od),
					S.Line()+"\n# shared-empty-map pass type "+t.Full)
			}
		}
	}
	// ---- a list value stored with Set while another owner keeps it (another message's Mutable view, a NewField
	// list), with and without spare capacity: later appends through the destination and element writes through the
	// retained list must show the same sharing as on the references (compared only where protobuf-go's own
	// struct-based reflection and dynamicpb agree with each other)
	if !c.sharedListDone {
		c.sharedListDone = true
		for j := range S.Msgs[0].Fields {
			f := &S.Msgs[0].Fields[j]
			if f.Shape != vschema.Repeated {
				continue
			}
			for _, n := range []int{1, 2, 3, 5, 6} {
				for _, viaNewField := range []bool{false, true} {
					run := func(mk func() protoreflect.Message) (obs string) {
						if p, pm := guard(func() {
							src, dst := mk(), mk()
							fd := fdOf(src, f)
							var sl protoreflect.List
							if viaNewField {
								sl = src.NewField(fd).List()
							} else {
								sl = src.Mutable(fd).List()
							}
							for i := 0; i < n; i++ {
								sl.Append(sl.NewElement())
							}
							dst.Set(fd, protoreflect.ValueOfList(sl))
							dl := dst.Mutable(fd).List()
							dl.Append(dl.NewElement())
							obs = fmt.Sprintf("srclen=%d|dstlen=%d|", sl.Len(), dst.Get(fd).List().Len())
							// write element 0 through the retained list; read it through the destination
							if fd.Message() != nil {
								e := sl.NewElement()
								e.Message().SetUnknown(protoreflect.RawFields{0x98, 0x3f, 0x07})
								sl.Set(0, e)
								obs += fmt.Sprintf("dst[0].unknown=%x", []byte(dst.Get(fd).List().Get(0).Message().GetUnknown()))
							} else {
								var nv protoreflect.Value
								switch fd.Kind() {
								case protoreflect.BoolKind:
									nv = protoreflect.ValueOfBool(true)
								case protoreflect.StringKind:
									nv = protoreflect.ValueOfString("w")
								case protoreflect.BytesKind:
									nv = protoreflect.ValueOfBytes([]byte("w"))
								case protoreflect.EnumKind:
									nv = protoreflect.ValueOfEnum(fd.Enum().Values().Get(fd.Enum().Values().Len() - 1).Number())
								case protoreflect.Int32Kind, protoreflect.Sint32Kind, protoreflect.Sfixed32Kind:
									nv = protoreflect.ValueOfInt32(7)
								case protoreflect.Int64Kind, protoreflect.Sint64Kind, protoreflect.Sfixed64Kind:
									nv = protoreflect.ValueOfInt64(7)
								case protoreflect.Uint32Kind, protoreflect.Fixed32Kind:
									nv = protoreflect.ValueOfUint32(7)
								case protoreflect.Uint64Kind, protoreflect.Fixed64Kind:
									nv = protoreflect.ValueOfUint64(7)
								case protoreflect.FloatKind:
									nv = protoreflect.ValueOfFloat32(7)
								default:
									nv = protoreflect.ValueOfFloat64(7)
								}
								sl.Set(0, nv)
								obs += fmt.Sprintf("dst[0]=%v", dst.Get(fd).List().Get(0).Interface())
							}
						}); p {
							obs += "|panic:" + firstLine(pm)
						}
						return obs
					}
					og := run(func() protoreflect.Message { return t.Info.Proto.ProtoReflect().New() })
					od := run(func() protoreflect.Message { return dynamicpb.NewMessage(t.Desc) })
					os := od
					if t.Info.Slow != nil {
						os = run(func() protoreflect.Message { return t.Info.Slow(t.Info.Proto.ProtoReflect().New().Interface()) })
					}
					b.Count("shared_list_cases")
					// observation by observation: whether the SOURCE grows with the destination differs between the two
					// references (dynamicpb keeps the list object, struct reflection copies the slice header): only what
					// both of them show is required of the generated code
					gs, ds, ss := strings.Split(og, "|"), strings.Split(od, "|"), strings.Split(os, "|")
					for k := range ds {
						if k >= len(ss) || ds[k] != ss[k] {
							b.Count("shared_list_observations_references_disagree")
							continue
						}
						b.Count("shared_list_observations_compared")
						if k >= len(gs) || gs[k] != ds[k] {
							b.Violate("C08", "shared-list-detached", fmt.Sprintf("list field index %d (%d elements, from NewField: %v) stored with Set while another owner keeps it, then appended to through the destination, then element 0 written through the kept list: generated shows %s, both references %s", j, n, viaNewField, og, od),
								S.Line()+"\n# shared-list pass type "+t.Full)
							break
						}
					}
				}
			}
		}
	}
	// ---- Reset
	{
		ra, rd, _ := c.pair(v)
		proto.Reset(ra)
		proto.Reset(rd)
		if got := c.canon(ra); got != vval.Canon(S, 0, vval.Empty(S, 0)).String() {
			viol("reset", "Reset left "+clip(got, 400))
		}
		if got, w := c.view(ra), c.rview(rd); got != w {
			viol("reset", "Reset differs from reference")
		}
	}
	// ---- CheckInitialized
	if ga, gd := proto.CheckInitialized(a), proto.CheckInitialized(dyn); (ga == nil) != (gd == nil) {
		viol("check-initialized", fmt.Sprintf("CheckInitialized %v, reference %v", ga, gd))
	}
	// ---- protojson / prototext
	type codec struct {
		name      string
		marshal   func(proto.Message) ([]byte, error)
		unmarshal func([]byte, proto.Message) error
	}
	for _, cd := range []codec{
		{"protojson", protojson.Marshal, protojson.Unmarshal},
		{"prototext", prototext.Marshal, prototext.Unmarshal},
	} {
		ja, ea := cd.marshal(a)
		jd, ed := cd.marshal(dyn)
		if (ea == nil) != (ed == nil) {
			viol(cd.name+"-marshal", fmt.Sprintf("marshal error %v, reference %v", ea, ed))
			continue
		}
		if ea != nil {
			b.Count("lib_" + cd.name + "_marshal_error_both")
			continue
		}
		// output is deliberately unstable w.r.t. whitespace: compare after parsing both with the reference
		pa, pd := dynamicpb.NewMessage(t.Desc), dynamicpb.NewMessage(t.Desc)
		ua, ud := cd.unmarshal(ja, pa), cd.unmarshal(jd, pd)
		if (ua == nil) != (ud == nil) {
			viol(cd.name+"-marshal", fmt.Sprintf("output of the generated message parses with %v, the reference's with %v: %s", ua, ud, clip(string(ja), 300)))
			continue
		}
		if ua != nil {
			b.Count("lib_" + cd.name + "_reparse_error_both")
			continue
		}
		if ga, gd := c.rview(pa), c.rview(pd); ga != gd {
			viol(cd.name+"-marshal", "output differs from the reference's after parsing: "+clip(string(ja), 300)+" REF "+clip(string(jd), 300))
			continue
		}
		// parse the reference's output INTO the generated type (Set/Mutable/Append driven by the library)
		fresh := t.B.ToMessage(0, vval.Empty(S, 0))
		if err := cd.unmarshal(jd, fresh); err != nil {
			viol(cd.name+"-unmarshal", "generated message rejects the reference's output: "+err.Error()+": "+clip(string(jd), 300))
			continue
		}
		if got, w := c.view(fresh), c.rview(pd); got != w {
			viol(cd.name+"-unmarshal", "parsed "+clip(got, 400)+" reference "+clip(w, 400))
		}
		if msg := checkInvariants(S, 0, fresh.ProtoReflect(), 0); msg != "" {
			viol(cd.name+"-unmarshal", "after parsing: "+msg)
		}
		// and into a non-empty generated message (merge semantics of the text/JSON parsers differ: only JSON/text into fresh is compared)
	}
}
