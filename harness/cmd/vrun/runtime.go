package main

import (
	"encoding/hex"
	"encoding/json"
	"fmt"
	"math/big"
	"math/bits"
	"os"
	"runtime/debug"
	"sort"
	"time"

	"github.com/cosmos/cosmos-proto/internal/verifh/vschema"
	"github.com/cosmos/cosmos-proto/internal/verifh/vval"
	"github.com/cosmos/cosmos-proto/runtime"
	"google.golang.org/protobuf/encoding/protowire"
)

func init() { engines["runtime"] = runRuntime }

// C15: runtime.Sov/Soz/EncodeVarint/Skip against protowire, plus model lines.
func runRuntime(cfg *Cfg) {
	out := newOut(cfg.Out, "runtime")
	defer out.Close()
	out.res.Programs = 1
	out.res.Rule = "Sov/Soz: every bit-length boundary ±2, the whole 32-bit range (thorough) or a 2^22 stride sample (quick), random 64-bit values; EncodeVarint: buffers x offsets x values incl. out-of-range offsets; Skip: protowire-well-formed records (all wire types, nested groups), truncations, bit flips, adversarial lengths, random bytes"
	r := vschema.NewRand(cfg.Seed)
	// --- Sov / Soz
	var vals []uint64
	for b := 0; b < 64; b++ {
		for d := -2; d <= 2; d++ {
			vals = append(vals, uint64(1)<<uint(b)+uint64(d))
		}
	}
	vals = append(vals, 0, 1, ^uint64(0), ^uint64(0)-1)
	for i := 0; i < 20000; i++ {
		vals = append(vals, r.U64()>>uint(r.Intn(64)))
	}
	chk := func(x uint64, model bool) {
		out.Case(fmt.Sprint("sov", x), true)
		if runtime.Sov(x) != protowire.SizeVarint(x) {
			out.Violate("C15", "sov", fmt.Sprintf("Sov(%d)=%d protowire=%d", x, runtime.Sov(x), protowire.SizeVarint(x)), fmt.Sprintf("sov %d", x))
		}
		zz := protowire.SizeVarint(protowire.EncodeZigZag(int64(x)))
		if runtime.Soz(x) != zz {
			out.Violate("C15", "soz", fmt.Sprintf("Soz(%d)=%d protowire=%d", x, runtime.Soz(x), zz), fmt.Sprintf("soz %d", x))
		}
		if model {
			out.Line("C15", fmt.Sprintf("sov %d", x), fmt.Sprint(runtime.Sov(x)))
			out.Line("C15", fmt.Sprintf("soz %d", x), fmt.Sprint(runtime.Soz(x)))
		}
	}
	for i, x := range vals {
		chk(x, i < 3000)
	}
	stride := uint64(1 << 10)
	if cfg.Tier == "thorough" {
		stride = 1
	}
	cnt := 0
	for x := uint64(0); x < 1<<32; x += stride {
		if runtime.Sov(x) != protowire.SizeVarint(x) || runtime.Soz(x) != protowire.SizeVarint(protowire.EncodeZigZag(int64(x))) ||
			runtime.Soz(-x) != protowire.SizeVarint(protowire.EncodeZigZag(int64(-x))) {
			out.Violate("C15", "sov32", fmt.Sprintf("Sov/Soz differ from protowire at %d", x), fmt.Sprintf("sov %d", x))
			break
		}
		cnt++
	}
	out.res.Evaluations += cnt
	out.res.Stats["sweep32_values"] = cnt
	// --- EncodeVarint
	for i := 0; i < 4000; i++ {
		n := r.Intn(24)
		buf := make([]byte, n)
		for j := range buf {
			buf[j] = byte(r.U64())
		}
		v := vals[r.Intn(len(vals))]
		off := r.Intn(n + 4) // may exceed len
		orig := append([]byte(nil), buf...)
		var ret int
		p, _ := guard(func() { ret = runtime.EncodeVarint(buf, off, v) })
		sz := protowire.SizeVarint(v)
		fits := sz <= off && off <= n
		out.Case(fmt.Sprint("encv", n, off, v), true)
		exp := "panic"
		if !p {
			exp = fmt.Sprintf("ok %s %d", hex.EncodeToString(buf), ret)
		}
		out.Line("C15", fmt.Sprintf("encv x%s %d %d", hex.EncodeToString(orig), off, v), exp)
		if p != !fits {
			out.Violate("C15", "encv-panic", fmt.Sprintf("EncodeVarint(len=%d, off=%d, v=%d): panicked=%v, fits=%v", n, off, v, p, fits), fmt.Sprintf("encv x%s %d %d", hex.EncodeToString(orig), off, v))
			continue
		}
		if !p {
			want := append(append(append([]byte(nil), orig[:off-sz]...), protowire.AppendVarint(nil, v)...), orig[off:]...)
			if ret != off-sz || hex.EncodeToString(want) != hex.EncodeToString(buf) {
				out.Violate("C15", "encv-bytes", fmt.Sprintf("EncodeVarint wrote %x want %x ret %d", buf, want, ret), fmt.Sprintf("encv x%s %d %d", hex.EncodeToString(orig), off, v))
			}
		}
	}
	// --- Skip
	nskip := 20000
	if cfg.Tier == "thorough" {
		nskip = 400000
	}
	skipCase := func(bs []byte, i int) {
		var n int
		var err error
		hx := "skip x" + hex.EncodeToString(bs)
		out.Watch("C15", "skip-hang", "runtime.Skip", hx, 60*time.Second)
		p, msg := guard(func() { n, err = runtime.Skip(bs) })
		out.Unwatch()
		out.Case("skip"+hex.EncodeToString(bs), len(bs) > 0)
		if p {
			out.Violate("C15", "skip-panic", "Skip panicked: "+msg, hx)
			out.Line("C15", hx, "panic")
			return
		}
		if err == nil && n <= 0 {
			out.Violate("C15", "skip-progress", fmt.Sprintf("Skip returned n=%d without error", n), hx)
		}
		_, _, want := protowire.ConsumeField(bs)
		if want > 0 {
			out.Count("skip_wellformed")
			if err != nil || n != want {
				out.Violate("C15", "skip-len", fmt.Sprintf("Skip=(%d,%v) protowire.ConsumeField=%d", n, err, want), hx)
			}
			if i < 6000 {
				out.Line("C15", "cfield x"+hex.EncodeToString(bs), fmt.Sprintf("ok %d", want))
			}
		} else {
			out.Count("skip_malformed")
			if i < 6000 {
				out.Line("C15", "cfield x"+hex.EncodeToString(bs), "err")
			}
		}
		if i < 12000 {
			if err != nil {
				out.Line("C15", hx, "err")
			} else {
				out.Line("C15", hx, fmt.Sprintf("ok %d", n))
			}
		}
	}
	for i := 0; i < nskip; i++ {
		var bs []byte
		mode := r.Intn(6)
		switch mode {
		case 0, 1, 2: // well-formed record + trailing bytes
			bs = vval.UnknownTail(r, map[int]bool{}, 0)
			tail := make([]byte, r.Intn(4))
			for j := range tail {
				tail[j] = byte(r.U64())
			}
			bs = append(bs, tail...)
		case 3: // truncated / flipped
			bs = vval.UnknownTail(r, map[int]bool{}, 0)
			if len(bs) > 0 {
				if r.Bool() {
					bs = bs[:r.Intn(len(bs))]
				} else {
					bs[r.Intn(len(bs))] ^= 1 << uint(r.Intn(8))
				}
			}
		case 4: // adversarial lengths
			lens := []uint64{1 << 31, 1<<63 - 1, 1 << 63, ^uint64(0), 1<<63 - 2, 1 << 62}
			if r.Bool() {
				// small negative lengths (as int64): an index that moves back into or before the record's header
				lens = []uint64{uint64(-int64(1 + r.Intn(24)))}
			}
			bs = protowire.AppendTag(nil, protowire.Number(1+r.Intn(100)), protowire.BytesType)
			if r.Bool() {
				bs = append(protowire.AppendTag(nil, 3, protowire.StartGroupType), bs...)
			}
			bs = protowire.AppendVarint(bs, lens[r.Intn(len(lens))])
			bs = append(bs, 1, 2, 3)
		default:
			bs = make([]byte, r.Intn(16))
			for j := range bs {
				bs[j] = byte(r.U64())
				if r.Chance(30) {
					bs[j] |= 0x80
				}
			}
		}
		skipCase(bs, i)
		if i < 3 {
			out.Sample("skip x" + hex.EncodeToString(bs))
		}
	}
	// length prefixes of every width (1..5 bytes and non-minimal ones): Skip returns tag + prefix + length whether or
	// not the payload is there (its callers do the bounds check), so only the header is needed
	for _, ln := range []uint64{0, 1, 127, 128, 16383, 16384, 1<<21 - 1, 1 << 21, 1<<21 + 12345, 3 << 21, 1<<28 - 1, 1 << 28, 1<<31 - 1, 1 << 31, 1<<35 + 7} {
		for _, pad := range []int{0, 1, 3} {
			bs := protowire.AppendTag(nil, protowire.Number(1+r.Intn(3000)), protowire.BytesType)
			v := protowire.AppendVarint(nil, ln)
			for k := 0; k < pad && len(v) < 10; k++ { // non-minimal: continuation bit on the last byte, then a zero byte
				v[len(v)-1] |= 0x80
				v = append(v, 0)
			}
			bs = append(bs, v...)
			bs = append(bs, 1, 2, 3)
			out.Count("skip_length_prefix_cases")
			skipCase(bs, 0)
		}
	}
	// every varint of a record (tag, value of wire type 0, length of wire type 2) padded to every length up to the ten
	// bytes a varint may have, the last byte 0x00 (and, for ten bytes, also the other legal last byte 0x01): protowire
	// accepts all of them, so Skip must return the record's length; at the top level and inside a group
	pad := func(v []byte, total int, last byte) []byte {
		v = append([]byte{}, v...)
		for len(v) < total {
			v[len(v)-1] |= 0x80
			v = append(v, 0x00)
		}
		if last != 0 && len(v) == 10 {
			v[9] = last
		}
		return v
	}
	for _, where := range []int{0, 1, 2} { // which varint is padded
		for total := 1; total <= 10; total++ {
			for _, last := range []byte{0, 1} {
				for _, inGroup := range []bool{false, true} {
					tag := protowire.AppendTag(nil, 1, protowire.VarintType)
					val := protowire.AppendVarint(nil, 5)
					var payload []byte
					if where == 2 {
						tag = protowire.AppendTag(nil, 1, protowire.BytesType)
						val = protowire.AppendVarint(nil, 3)
						payload = []byte{1, 2, 3}
					}
					if last == 1 && total == 10 {
						// a tenth byte of 0x01 sets bit 63 of the value: fine for a value, not for a tag or a length
						if where != 1 {
							continue
						}
					}
					switch where {
					case 0:
						if total > 5+5 || len(tag) > total {
							continue
						}
						tag = pad(tag, total, 0)
					default:
						if len(val) > total {
							continue
						}
						val = pad(val, total, last)
					}
					bs := append(append(append([]byte{}, tag...), val...), payload...)
					if inGroup {
						bs = append(protowire.AppendTag(nil, 9, protowire.StartGroupType), bs...)
						bs = protowire.AppendTag(bs, 9, protowire.EndGroupType)
					}
					bs = append(bs, 0x08, 0x01)
					out.Count("skip_padded_varint_cases")
					skipCase(bs, 0)
				}
			}
		}
	}
	// nesting depth of groups around protowire's limit (it accepts 10001 levels and refuses 10002): a record that
	// protowire accepts must be skipped with exactly its length, whatever its depth; same / alternating / distinct
	// field numbers per level, an inner record at the bottom, two bytes of the next record behind it
	for _, d := range []int{1, 2, 3, 4, 7, 100, 9999, 10000, 10001, 10002, 10003, 30000} {
		for shape := 0; shape < 3; shape++ {
			var bs []byte
			num := func(l int) protowire.Number {
				switch shape {
				case 0:
					return 5
				case 1:
					return protowire.Number(5 + l%2)
				}
				return protowire.Number(1 + l%1000)
			}
			for l := 0; l < d; l++ {
				bs = protowire.AppendTag(bs, num(l), protowire.StartGroupType)
			}
			if shape > 0 {
				bs = protowire.AppendTag(bs, 2, protowire.VarintType)
				bs = protowire.AppendVarint(bs, 300)
			}
			for l := d - 1; l >= 0; l-- {
				bs = protowire.AppendTag(bs, num(l), protowire.EndGroupType)
			}
			bs = append(bs, 0x08, 0x01)
			out.Count("skip_deep_group_cases")
			i := 0
			if d > 10003 {
				i = 1 << 30 // direct oracle only
			}
			skipCase(bs, i)
		}
	}
	// records whose encoded length sits on an integer-width boundary (2^31, 2^32) or next to an integer constant of
	// the runtime package's source (VERIF_SRC_CONSTS, written by the translator run): the buffers are allocated but
	// never touched beyond the few header / trailer bytes, so they cost address space, not memory
	hugeSizes := map[uint64]bool{}
	for _, c := range []uint64{1 << 31, 1 << 32} {
		for d := uint64(0); d < 3; d++ {
			hugeSizes[c-1+d] = true
		}
	}
	for _, c := range srcConsts("runtime") {
		if c.IsUint64() && c.Uint64() >= 1<<16 && c.Uint64() <= 1<<33 {
			for d := uint64(0); d < 4; d++ {
				hugeSizes[c.Uint64()-1+d] = true
			}
		}
	}
	var hs []uint64
	for h := range hugeSizes {
		hs = append(hs, h)
	}
	sort.Slice(hs, func(i, j int) bool { return hs[i] < hs[j] })
	// one allocation for all sizes (fresh from the OS, so the Go runtime does not clear it); every case restores the
	// bytes it wrote
	var hugeBuf []byte
	func() {
		defer func() {
			if e := recover(); e != nil {
				out.Count("skip_huge_alloc_failed")
			}
		}()
		if len(hs) > 0 {
			hugeBuf = make([]byte, hs[len(hs)-1]+2)
		}
	}()
	for _, total := range hs {
		if hugeBuf == nil {
			break
		}
		for shape := 0; shape < 2; shape++ {
			// shape 0: one length-delimited record of `total` bytes; shape 1: a group of `total` bytes holding one
			func() {
				defer func() {
					if e := recover(); e != nil {
						out.Count("skip_huge_alloc_failed")
					}
				}()
				buf := hugeBuf[: total+2 : total+2]
				defer func() {
					for i := 0; i < 16; i++ {
						buf[i] = 0
					}
					buf[total-1], buf[total], buf[total+1] = 0, 0, 0
				}()
				var hdr []byte
				inner := total
				if shape == 1 {
					hdr = protowire.AppendTag(hdr, 7, protowire.StartGroupType)
					inner = total - 2
				}
				// payload length p with len(tag)+len(varint(p))+p == inner
				p := inner - 2
				for 1+uint64(protowire.SizeVarint(p))+p > inner {
					p--
				}
				if 1+uint64(protowire.SizeVarint(p))+p != inner {
					return
				}
				hdr = protowire.AppendTag(hdr, 1, protowire.BytesType)
				hdr = protowire.AppendVarint(hdr, p)
				copy(buf, hdr)
				if shape == 1 {
					buf[total-1] = byte(7<<3 | 4)
				}
				buf[total], buf[total+1] = 0x08, 0x01
				desc := fmt.Sprintf("skip-huge total=%d shape=%d header=%s", total, shape, hex.EncodeToString(hdr))
				out.Watch("C15", "skip-hang", "runtime.Skip", desc, 120*time.Second)
				var n int
				var err error
				pn, msg := guard(func() { n, err = runtime.Skip(buf) })
				out.Unwatch()
				_, _, want := protowire.ConsumeField(buf)
				out.Count("skip_huge_records")
				out.Case(desc, true)
				if pn {
					out.Violate("C15", "skip-panic", "Skip panicked on a huge record: "+msg, desc)
				} else if want > 0 && (err != nil || n != want) {
					out.Violate("C15", "skip-len", fmt.Sprintf("Skip=(%d,%v) protowire.ConsumeField=%d on a record of %d bytes (buffer allocated, payload untouched)", n, err, want, total), desc)
				}
			}()
		}
	}
	hugeBuf = nil
	debug.FreeOSMemory()
	_ = bits.Len64
}

// srcConsts returns the integer constants that occur in the source of one package of the working tree, as
// reported by the translator run of this check (none when the file is absent).
func srcConsts(dir string) []*big.Int {
	var m map[string][]string
	b, err := os.ReadFile(os.Getenv("VERIF_SRC_CONSTS"))
	if err != nil || json.Unmarshal(b, &m) != nil {
		return nil
	}
	var out []*big.Int
	for _, s := range m[dir] {
		if v, ok := new(big.Int).SetString(s, 10); ok {
			out = append(out, v)
		}
	}
	return out
}
