package main

// Draw-level tie for C18 (RAPID_PROTOCOL.md): rapid's own draw log (`-rapid.log`) is captured for one
// generated example, turned into draw tokens, and the Lean model replays them (`rgen` / `rwkt` lines).

import (
	"bufio"
	"encoding/hex"
	"flag"
	"fmt"
	"go/ast"
	"go/parser"
	"go/token"
	"math"
	"math/big"
	"os"
	"strconv"
	"strings"

	"github.com/cosmos/cosmos-proto/internal/verifh/vschema"
	"github.com/cosmos/cosmos-proto/internal/verifh/vval"
	"github.com/cosmos/cosmos-proto/rapidproto"
	"google.golang.org/protobuf/proto"
	"google.golang.org/protobuf/reflect/protoreflect"
	"google.golang.org/protobuf/types/known/durationpb"
	"google.golang.org/protobuf/types/known/fieldmaskpb"
	"google.golang.org/protobuf/types/known/timestamppb"
)

const attemptMarker = "=== ATTEMPT ==="

// markMsg makes MessageGenerator's `msgType.New()` (called once per attempt of rapid.Custom) visible in the log.
type markMsg struct {
	proto.Message
	onNew func()
}

func (m markMsg) ProtoReflect() protoreflect.Message {
	return markRefl{m.Message.ProtoReflect(), m.onNew}
}

type markRefl struct {
	protoreflect.Message
	onNew func()
}

func (r markRefl) Type() protoreflect.MessageType { return markType{r.Message.Type(), r.onNew} }

type markType struct {
	protoreflect.MessageType
	onNew func()
}

func (t markType) New() protoreflect.Message { t.onNew(); return t.MessageType.New() }

// captureExample generates one example with rapid's draw log switched on and redirected to a file.
// It returns the message and the (label, value text) pairs of the LAST attempt.
func captureExample(dir string, x proto.Message, opts rapidproto.GeneratorOptions, seed int) (m proto.Message, draws [][2]string, attempts int, panicked bool, pmsg string) {
	f, err := os.CreateTemp(dir, "drawlog")
	if err != nil {
		panic(err)
	}
	defer os.Remove(f.Name())
	old := os.Stdout
	os.Stdout = f
	_ = flag.Set("rapid.log", "true")
	panicked, pmsg = guard(func() {
		m = genExample(markMsg{x, func() { fmt.Fprintln(f, attemptMarker) }}, opts, seed)
	})
	_ = flag.Set("rapid.log", "false")
	os.Stdout = old
	f.Close()
	rf, err := os.Open(f.Name())
	if err != nil {
		panic(err)
	}
	defer rf.Close()
	sc := bufio.NewScanner(rf)
	sc.Buffer(make([]byte, 1<<20), 1<<28)
	for sc.Scan() {
		line := sc.Text()
		if line == attemptMarker {
			attempts++
			draws = draws[:0]
			continue
		}
		i := strings.Index(line, "[rapid] draw ")
		if i < 0 {
			continue
		}
		rest := line[i+len("[rapid] draw "):]
		j := strings.Index(rest, ": ")
		if j < 0 {
			continue
		}
		draws = append(draws, [2]string{rest[:j], rest[j+2:]})
	}
	return
}

// drawToken turns the %#v text of one drawn value into a protocol token.
func drawToken(text string) (string, error) {
	switch text {
	case "true":
		return "b1", nil
	case "false":
		return "b0", nil
	case "[]byte(nil)", "[]uint8(nil)":
		return "x", nil
	case "[]string(nil)":
		return "l", nil
	}
	e, err := parser.ParseExpr(text)
	if err != nil {
		return "", fmt.Errorf("cannot parse %q: %v", text, err)
	}
	num := func(s string) string {
		is, f32, f64 := "-", "-", "-"
		if z, ok := new(big.Int).SetString(s, 0); ok {
			is = z.String()
		}
		if v, err := strconv.ParseFloat(s, 32); err == nil && !strings.HasPrefix(strings.TrimLeft(s, "+-"), "0x") {
			f32 = strconv.FormatUint(uint64(math.Float32bits(float32(v))), 16)
		}
		if v, err := strconv.ParseFloat(s, 64); err == nil && !strings.HasPrefix(strings.TrimLeft(s, "+-"), "0x") {
			f64 = strconv.FormatUint(math.Float64bits(v), 16)
		}
		return "n" + is + "/" + f32 + "/" + f64
	}
	switch v := e.(type) {
	case *ast.BasicLit:
		switch v.Kind {
		case token.INT, token.FLOAT:
			return num(v.Value), nil
		case token.STRING:
			s, err := strconv.Unquote(v.Value)
			if err != nil {
				return "", err
			}
			return "s" + hex.EncodeToString([]byte(s)), nil
		}
	case *ast.UnaryExpr:
		if bl, ok := v.X.(*ast.BasicLit); ok && (v.Op == token.SUB || v.Op == token.ADD) {
			return num(v.Op.String() + bl.Value), nil
		}
	case *ast.CompositeLit:
		at, ok := v.Type.(*ast.ArrayType)
		if !ok {
			break
		}
		el, _ := at.Elt.(*ast.Ident)
		if el == nil {
			break
		}
		switch el.Name {
		case "byte", "uint8":
			var bs []byte
			for _, x := range v.Elts {
				bl, ok := x.(*ast.BasicLit)
				if !ok {
					return "", fmt.Errorf("byte literal %q", text)
				}
				n, err := strconv.ParseUint(bl.Value, 0, 8)
				if err != nil {
					return "", err
				}
				bs = append(bs, byte(n))
			}
			return "x" + hex.EncodeToString(bs), nil
		case "string":
			var parts []string
			for _, x := range v.Elts {
				bl, ok := x.(*ast.BasicLit)
				if !ok {
					return "", fmt.Errorf("string literal %q", text)
				}
				s, err := strconv.Unquote(bl.Value)
				if err != nil {
					return "", err
				}
				parts = append(parts, hex.EncodeToString([]byte(s)))
			}
			return "l" + strings.Join(parts, ","), nil
		}
	}
	return "", fmt.Errorf("unsupported draw value %q", text)
}

func hasExtern(s *vschema.Schema) bool {
	for _, m := range s.Msgs {
		for _, f := range m.Fields {
			if f.Extern != "" {
				return true
			}
		}
	}
	return false
}

// drawLines emits the `rgen` model lines for one target: option sets without field mappers / Any.
func drawLines(out *Out, cfg *Cfg, t *Target, seeds int) {
	enums := reachableEnums(t.Desc)
	if !t.S.Supported || hasExtern(t.S) || len(enums) > 1 {
		out.Count("draw_targets_outside_model")
		return
	}
	enum := "E0"
	for e := range enums {
		enum = e
	}
	sets := []struct {
		flags string
		o     rapidproto.GeneratorOptions
	}{
		{"-", rapidproto.GeneratorOptions{}},
		{"e", rapidproto.GeneratorOptions{NoEmptyLists: true}},
		{"d", rapidproto.GeneratorOptions{}.WithDisallowNil()},
		{"ed", rapidproto.GeneratorOptions{NoEmptyLists: true, DisallowNilMessages: true}},
		// field mapper answering "mapped" for every string-kind scalar (no draw is consumed for those)
		{"-+mstring=s6d6170706564", rapidproto.GeneratorOptions{FieldMaps: []rapidproto.FieldMapper{stringMapper(new(int))}}},
		{"e+mstring=s6d6170706564", rapidproto.GeneratorOptions{NoEmptyLists: true, FieldMaps: []rapidproto.FieldMapper{stringMapper(new(int))}}},
	}
	dir := cfg.Out
	out.Line("schema", t.S.Line(), "schema wf msgs="+fmt.Sprint(len(t.S.Msgs)))
	for _, os := range sets {
		for seed := 0; seed < seeds; seed++ {
			sd := int(cfg.Seed)*100000 + 7000 + seed
			m, draws, attempts, p, pm := captureExample(dir, t.Info.Proto, os.o, sd)
			replay := fmt.Sprintf("rapid %s opts=%s seed=%d (draw level)", t.Full, os.flags, sd)
			if p {
				out.Violate("C18", "gen-panic:draws", "generator failed: "+firstLine(pm), replay)
				continue
			}
			out.Count("draw_examples")
			if attempts != 1 {
				out.Count("draw_examples_with_retries")
			}
			if len(draws) > 6000 {
				out.Count("draw_examples_too_long_for_a_line")
				continue
			}
			toks := make([]string, 0, len(draws))
			bad := ""
			for _, d := range draws {
				tk, err := drawToken(d[1])
				if err != nil {
					bad = err.Error()
					break
				}
				toks = append(toks, tk)
			}
			if bad != "" {
				out.Violate("HARNESS", "draw-token", bad, replay)
				continue
			}
			out.res.Stats["draws_replayed"] += len(toks)
			exp := "ok " + vval.RepNorm(t.S, 0, t.B.FromMessage(0, m)).String()
			out.Line("C18", fmt.Sprintf("rgen %s 0 %s %s %d %s", t.S.ID, os.flags, enum, len(toks), strings.Join(toks, " ")), exp)
		}
	}
}

// wktLines: Timestamp / Duration / FieldMask generators at draw level.
func wktLines(out *Out, cfg *Cfg, seeds int) {
	dir := cfg.Out
	for seed := 0; seed < seeds; seed++ {
		sd := int(cfg.Seed)*100000 + 9000 + seed
		for _, k := range []string{"ts", "dur", "fm"} {
			var x proto.Message
			switch k {
			case "ts":
				x = &timestamppb.Timestamp{}
			case "dur":
				x = &durationpb.Duration{}
			default:
				x = &fieldmaskpb.FieldMask{}
			}
			m, draws, _, p, pm := captureExample(dir, x, rapidproto.GeneratorOptions{}, sd)
			replay := fmt.Sprintf("rapid %s seed=%d (draw level)", x.ProtoReflect().Descriptor().FullName(), sd)
			if p {
				out.Violate("C18", "gen-panic:wkt", "generator failed: "+firstLine(pm), replay)
				continue
			}
			var toks []string
			for _, d := range draws {
				tk, err := drawToken(d[1])
				if err != nil {
					out.Violate("HARNESS", "draw-token", err.Error(), replay)
					toks = nil
					break
				}
				toks = append(toks, tk)
			}
			if toks == nil {
				continue
			}
			out.Count("draw_examples_wkt")
			switch v := m.(type) {
			case *timestamppb.Timestamp:
				out.Line("C18", "rwkt ts "+strings.Join(toks, " "), fmt.Sprintf("ok %d %d", v.Seconds, v.Nanos))
			case *durationpb.Duration:
				out.Line("C18", "rwkt dur "+strings.Join(toks, " "), fmt.Sprintf("ok %d %d", v.Seconds, v.Nanos))
			case *fieldmaskpb.FieldMask:
				var ps []string
				for _, pth := range v.Paths {
					ps = append(ps, "s"+hex.EncodeToString([]byte(pth)))
				}
				out.Line("C18", fmt.Sprintf("rwkt fm %d %s", len(toks), strings.Join(toks, " ")), strings.TrimSpace(fmt.Sprintf("ok %d %s", len(ps), strings.Join(ps, " "))))
			}
		}
	}
}

// reachableEnums: the distinct declarations ("E<n0>,<n1>,…", numbers in declaration order) of the enum types
// of all enum-kind fields reachable from md.
func reachableEnums(md protoreflect.MessageDescriptor) map[string]bool {
	out := map[string]bool{}
	seen := map[protoreflect.FullName]bool{}
	var walk func(md protoreflect.MessageDescriptor)
	walk = func(md protoreflect.MessageDescriptor) {
		if seen[md.FullName()] {
			return
		}
		seen[md.FullName()] = true
		fs := md.Fields()
		for i := 0; i < fs.Len(); i++ {
			fd := fs.Get(i)
			if fd.IsMap() {
				fd = fd.MapValue()
			}
			if e := fd.Enum(); e != nil {
				var ss []string
				for j := 0; j < e.Values().Len(); j++ {
					ss = append(ss, strconv.Itoa(int(e.Values().Get(j).Number())))
				}
				out["E"+strings.Join(ss, ",")] = true
			}
			if m := fd.Message(); m != nil {
				walk(m)
			}
		}
	}
	walk(md)
	return out
}
