package main

import (
	"bytes"
	"encoding/hex"
	"fmt"
	"runtime"
	"strings"
	"time"

	"github.com/cosmos/cosmos-proto/internal/verifh/vschema"
	"github.com/cosmos/cosmos-proto/internal/verifh/vval"
	"google.golang.org/protobuf/encoding/protowire"
	"google.golang.org/protobuf/proto"
	"google.golang.org/protobuf/types/dynamicpb"
)

func init() { engines["decode"] = runDecode }

func flagStr(merge, discard bool) string {
	s := ""
	if merge {
		s += "m"
	}
	if discard {
		s += "d"
	}
	if s == "" {
		s = "-"
	}
	return s
}

// C03 / C06 / C07 / C14: decoding real wire streams into generated messages.
func runDecode(cfg *Cfg) {
	out := newOut(cfg.Out, "decode")
	defer out.Close()
	targets := loadTargets()
	n := cfg.N
	if n == 0 {
		n = 14000
		if cfg.Tier == "thorough" {
			n = 500000
		}
	}
	r := vschema.NewRand(cfg.Seed + 77)
	out.res.Rule = "well-typed record streams built from records (any order, duplicates, packed/unpacked alternation, split runs, non-minimal varints, partial/duplicated/reordered map entries, unknown records of all wire types incl. nested groups at every level), decoded fresh / with Merge into a random non-empty message / with DiscardUnknown; plus a malformed stream (truncations, bit flips, adversarial lengths, random bytes); non-trivial = non-empty stream, distinct by bytes+flags+type"
	perTarget := n / len(targets)
	if perTarget < 30 {
		perTarget = 30
	}
	for _, t := range targets {
		if cfg.Only != "" && !strings.Contains(t.Full, cfg.Only) {
			continue
		}
		out.res.Programs++
		modelOK := t.S.Supported
		if modelOK {
			out.Line("schema", t.S.Line(), "schema wf msgs="+fmt.Sprint(len(t.S.Msgs)))
		}
		en := enumNums(t)
		deepAndBig(out, t, r, cfg.Tier)
		repeatedKeyPass(out, t, r, en, modelOK)
		largeUnknownPass(out, t, r, en)
		adjacencyPass(out, t, r, en, modelOK)
		nilJunkMergePass(out, t, r, en, modelOK)
		bigBlobPass(out, t, r, en)
		for c := 0; c < perTarget; c++ {
			g := &vval.StreamGen{R: r, S: t.S, G: &vval.GenOpts{EnumNums: en, BigBlobs: r.Chance(6)}, Features: map[string]bool{}, MaxDepth: 1 + r.Intn(3)}
			bs := g.Message(0, 0)
			malformed := false
			if r.Chance(22) {
				malformed = true
				bs = mutate(r, bs)
			}
			merge := r.Chance(20)
			discard := r.Chance(25)
			var into *vval.Val
			if merge {
				into = (&vval.GenOpts{MaxDepth: 2, EnumNums: en, Unknown: r.Bool(), NilJunk: r.Chance(25)}).Message(r, t.S, 0, 0)
				g.Features["merge-into-nonempty"] = true
			} else {
				into = vval.Empty(t.S, 0)
			}
			out.Case(t.Full+flagStr(merge, discard)+hex.EncodeToString(bs), len(bs) > 0)
			if c < 1 {
				out.Sample(fmt.Sprintf("%s flags=%s %x", t.Full, flagStr(merge, discard), bs))
			}
			decodeCase(out, t, g, bs, into, merge, discard, malformed, modelOK)
		}
	}
}

// adjacencyPass: records of a repeated field followed DIRECTLY by a short length-delimited record of another field
// of the same message (or of an unknown field with a small number), for every such pair and payload lengths 0, 1,
// 2, 3 and (number of the repeated field) >> 4: what a decoder that stays in a loop "while the same key follows"
// must tell apart from its own key (e.g. `0a 01` = field 1 with one byte vs. the first bytes of the key of field 17).
func adjacencyPass(out *Out, t *Target, r *vschema.Rand, en []int32, modelOK bool) {
	m := &t.S.Msgs[0]
	type ld struct {
		num  int
		kind int // 0 string, 1 bytes, 2 message (empty payload only), 3 unknown
	}
	var lds []ld
	for _, g := range m.Fields {
		switch {
		case g.Shape == vschema.Map:
			lds = append(lds, ld{g.Num, 2})
		case g.IsMsg:
			lds = append(lds, ld{g.Num, 2})
		case g.Kind == vschema.String:
			lds = append(lds, ld{g.Num, 0})
		case g.Kind == vschema.Bytes:
			lds = append(lds, ld{g.Num, 1})
		}
	}
	used := map[int]bool{}
	for _, f := range m.Fields {
		used[f.Num] = true
	}
	for _, n := range []int{1, 2, 15} {
		if !used[n] {
			lds = append(lds, ld{n, 3})
		}
	}
	cases := 0
	for j := range m.Fields {
		f := &m.Fields[j]
		if f.Shape != vschema.Repeated || !(f.IsMsg || f.Kind.IsBlob()) {
			continue
		}
		for _, g := range lds {
			if g.num == f.Num {
				continue
			}
			lens := []int{0, 1, 2, 3, (f.Num >> 4) & 0x7f}
			if g.kind == 2 {
				lens = []int{0}
			}
			for _, l := range lens {
				for _, fill := range []byte{'y', 0} {
					if cases++; cases > 400 {
						return
					}
					sg := &vval.StreamGen{R: r, S: t.S, G: &vval.GenOpts{EnumNums: en}, Features: map[string]bool{"adjacent-short-record": true}, MaxDepth: 1}
					if g.kind == 3 {
						sg.Features["unknown"] = true
					}
					var bs []byte
					for k := 0; k < 1+r.Intn(2); k++ {
						bs = sg.ElemRecord(bs, f, 1)
					}
					bs = protowire.AppendTag(bs, protowire.Number(g.num), protowire.BytesType)
					bs = protowire.AppendBytes(bs, bytes.Repeat([]byte{fill}, l))
					out.Count("adjacent_short_record_cases")
					decodeCase(out, t, sg, bs, vval.Empty(t.S, 0), false, false, false, modelOK)
					if l == 0 || g.kind == 2 {
						break
					}
				}
			}
		}
	}
}

// nilJunkMergePass: Merge-decoding INTO the hand-built nil states — a oneof wrapper holding a nil message, a nil map
// value under a key, a nil list element — a stream that carries exactly that member / key / field with a NON-EMPTY
// payload. The reference allocates and merges; silently dropping the bytes is a violation of C03 (and C09).
func nilJunkMergePass(out *Out, t *Target, r *vschema.Rand, en []int32, modelOK bool) {
	m := &t.S.Msgs[0]
	for j := range m.Fields {
		f := &m.Fields[j]
		if !f.IsMsg || f.Extern != "" {
			continue
		}
		into := vval.Empty(t.S, 0)
		sg := &vval.StreamGen{R: r, S: t.S, G: &vval.GenOpts{EnumNums: en}, Features: map[string]bool{"merge-into-nonempty": true, "merge-into-nil-junk": true}, MaxDepth: 2}
		var bs []byte
		switch f.Shape {
		case vschema.Oneof:
			into.Kids[j] = vval.VOne(vval.VNone())
		case vschema.Repeated:
			into.Kids[j] = vval.VList(true, []*vval.Val{vval.VNone(), vval.Empty(t.S, f.Msg)})
		case vschema.Singular:
			// (a nil singular message is the ordinary unset state)
		default:
			continue
		}
		for try := 0; try < 6; try++ {
			bs = sg.ElemRecord(nil, f, 1)
			if len(bs) > protowire.SizeTag(protowire.Number(f.Num))+1 {
				break
			}
		}
		out.Count("merge_into_nil_junk_cases")
		decodeCase(out, t, sg, bs, into, true, false, false, modelOK)
	}
}

// bigBlobPass: elements larger than any block / pool size a decoder may use (32 KiB + 1, 70 000 bytes) after small
// ones in the same repeated bytes / string field, in map values and oneof members; decodeCase overwrites the input
// afterwards, so an element left as a view of it shows.
var bigBlobTargets int

func bigBlobPass(out *Out, t *Target, r *vschema.Rand, en []int32) {
	m := &t.S.Msgs[0]
	for j := range m.Fields {
		f := &m.Fields[j]
		if f.IsMsg || !f.Kind.IsBlob() || f.Shape == vschema.Map {
			continue
		}
		if bigBlobTargets++; bigBlobTargets > 12 {
			return
		}
		sg := &vval.StreamGen{R: r, S: t.S, G: &vval.GenOpts{EnumNums: en}, Features: map[string]bool{"big-blob": true}, MaxDepth: 1}
		var bs []byte
		for _, l := range []int{3, 32769, 0, 70000, 5, 32768} {
			bs = protowire.AppendTag(bs, protowire.Number(f.Num), protowire.BytesType)
			bs = protowire.AppendBytes(bs, bytes.Repeat([]byte{byte('a' + l%26)}, l))
			if f.Shape != vschema.Repeated && l == 32769 {
				break
			}
		}
		out.Count("big_blob_cases")
		decodeCase(out, t, sg, bs, vval.Empty(t.S, 0), false, false, false, false)
	}
}

// largeUnknownPass: unknown length-delimited records whose length needs a 4-byte prefix (>= 2^21 bytes) — top
// level, followed by known records, and with a payload that itself looks like records of the message (a skipper
// that gets the length wrong continues parsing inside the payload). First targets only (2 MB inputs).
var largeUnknownTargets int

// manyUnknownRecords: ONE message carrying tens of thousands of separate small unknown records (and the same number
// of elements of a repeated field, where the type has one): what is allocated while decoding must stay proportional to
// the input (C06_alloc_linear: at most 192 bytes per input byte), also in the NUMBER of records -- a decoder that copies
// what it has collected so far for every record is quadratic here and nowhere else.
func manyUnknownRecords(out *Out, t *Target) {
	for _, n := range []int{40000} {
		var bs []byte
		for i := 0; i < n; i++ {
			bs = append(bs, 0xc0, 0x3e, byte(i%100)) // unknown field 1000, varint
		}
		for _, discard := range []bool{false, true} {
			msg := t.B.ToMessage(0, vval.Empty(t.S, 0))
			var ms0, ms1 runtime.MemStats
			runtime.ReadMemStats(&ms0)
			var err error
			replay := fmt.Sprintf("many-unknown %s: %d records c0 3e xx (unknown field 1000, varint), discard=%v", t.Full, n, discard)
			out.Watch("C06", "unmarshal-hang", "proto.Unmarshal", replay, 120*time.Second)
			p, pm := guard(func() { err = proto.UnmarshalOptions{DiscardUnknown: discard}.Unmarshal(bs, msg) })
			out.Unwatch()
			runtime.ReadMemStats(&ms1)
			out.Case(fmt.Sprintf("many-unknown:%s:%d:%v", t.Full, n, discard), true)
			out.Count("many_unknown_record_cases")
			if p {
				out.Violate("C06", "unmarshal-panic_many-unknown", "panic: "+firstLine(pm), replay)
				continue
			}
			if err != nil {
				out.Violate("C14", "rejects-unknown-record_many", "a stream of unknown varint records was rejected: "+err.Error(), replay)
				continue
			}
			if grown := ms1.TotalAlloc - ms0.TotalAlloc; grown > uint64(192*len(bs))+(1<<20) {
				out.Violate("C06", "alloc-disproportionate", fmt.Sprintf("%d input bytes in %d unknown records made Unmarshal allocate %d bytes (more than 192 per input byte: not linear in the number of records)", len(bs), n, grown), replay)
			}
			if !discard && len(msg.ProtoReflect().GetUnknown()) != len(bs) {
				out.Violate("C14", "decode-differs_many-unknown", fmt.Sprintf("%d bytes of unknown records kept, %d received", len(msg.ProtoReflect().GetUnknown()), len(bs)), replay)
			}
		}
	}
}

func largeUnknownPass(out *Out, t *Target, r *vschema.Rand, en []int32) {
	if largeUnknownTargets >= 3 {
		return
	}
	largeUnknownTargets++
	manyUnknownRecords(out, t)
	for _, n := range []int{1<<21 - 1, 1 << 21, 1<<21 + 12345, 3 << 21} {
		g := &vval.StreamGen{R: r, S: t.S, G: &vval.GenOpts{EnumNums: en}, Features: map[string]bool{"large-unknown": true, "unknown": true}, MaxDepth: 1}
		known := g.Message(0, 0)
		payload := make([]byte, 0, n+len(known))
		for len(payload) < n {
			if len(known) > 0 && len(known) <= n-len(payload) && r.Chance(50) {
				payload = append(payload, known...)
			} else {
				payload = append(payload, 0x08, 0x05)
			}
		}
		payload = payload[:n]
		bs := protowire.AppendTag(nil, 536870003, protowire.BytesType)
		bs = protowire.AppendBytes(bs, payload)
		bs = append(append([]byte(nil), known...), bs...)
		bs = append(bs, known...)
		out.Case(fmt.Sprintf("largeunknown:%s:%d", t.Full, n), true)
		out.Count("large_unknown_cases")
		decodeCase(out, t, g, bs, vval.Empty(t.S, 0), false, false, false, false)
	}
}

// repeatedKeyPass: the SAME map key in two entries of one stream, and in the stream and the Merge target — for
// string keys of every length class (empty, short, around 32 / 64 bytes, long). A decoder may treat "key already
// present" differently from "new key" (look-up before insert, interning, reuse of the stored key): the decoded value
// must still equal the reference and must not share memory with the input (decodeCase overwrites the input).
func repeatedKeyPass(out *Out, t *Target, r *vschema.Rand, en []int32, modelOK bool) {
	for j := range t.S.Msgs[0].Fields {
		f := &t.S.Msgs[0].Fields[j]
		if f.Shape != vschema.Map {
			continue
		}
		lens := []int{1}
		if f.Key == vschema.String {
			lens = []int{0, 1, 31, 32, 33, 40, 64, 65, 300}
		}
		for _, kl := range lens {
			g := &vval.StreamGen{R: r, S: t.S, G: &vval.GenOpts{EnumNums: en}, Features: map[string]bool{"repeated-map-key": true}, MaxDepth: 1}
			var key []byte
			if f.Key == vschema.String {
				key = make([]byte, kl)
				for i := range key {
					key[i] = byte('a' + (i*7+kl)%26)
				}
				key = protowire.AppendBytes(protowire.AppendTag(nil, 1, protowire.BytesType), key)
			} else {
				key = g.ScalarRecord(1, f.Key)
			}
			entry := func() []byte {
				body := append([]byte(nil), key...)
				vf := *f
				vf.Num, vf.Shape = 2, vschema.Singular
				body = g.ElemRecord(body, &vf, 1)
				e := protowire.AppendTag(nil, protowire.Number(f.Num), protowire.BytesType)
				return protowire.AppendBytes(e, body)
			}
			first, second := entry(), entry()
			bs := append(append(append([]byte(nil), first...), 0xc0, 0x3e, 0x01), second...)
			out.Case(fmt.Sprintf("repkey:%s:%d:%d", t.Full, f.Num, kl), true)
			out.Count("repeated_map_key_cases")
			decodeCase(out, t, g, bs, vval.Empty(t.S, 0), false, false, false, modelOK)
			// Merge: the target already holds the key (decode the first entry into it through the reference-checked path)
			holder := t.B.ToMessage(0, vval.Empty(t.S, 0))
			if err := proto.Unmarshal(append([]byte(nil), first...), holder); err == nil {
				g2 := &vval.StreamGen{R: r, S: t.S, G: g.G, Features: map[string]bool{"repeated-map-key": true, "merge-into-nonempty": true}, MaxDepth: 1}
				decodeCase(out, t, g2, append([]byte(nil), second...), t.B.FromMessage(0, holder), true, false, false, modelOK)
				// ... and the SAME entry again (key and value byte for byte what the target already holds): a decoder that
				// spares itself the copy when nothing would change keeps a view of this second input (scribble oracle)
				g3 := &vval.StreamGen{R: r, S: t.S, G: g.G, Features: map[string]bool{"repeated-map-key": true, "merge-into-nonempty": true, "identical-entry": true}, MaxDepth: 1}
				decodeCase(out, t, g3, append([]byte(nil), first...), t.B.FromMessage(0, holder), true, false, false, modelOK)
			}
			// the same entry twice in one stream
			g4 := &vval.StreamGen{R: r, S: t.S, G: g.G, Features: map[string]bool{"repeated-map-key": true, "identical-entry": true}, MaxDepth: 1}
			same := append(append(append([]byte(nil), first...), 0xc0, 0x3e, 0x01), first...)
			out.Count("identical_map_entry_cases")
			decodeCase(out, t, g4, same, vval.Empty(t.S, 0), false, false, false, modelOK)
		}
	}
}

// deepAndBig: C06 clauses that need dedicated inputs — nesting around and far beyond the protobuf-go
// recursion limit on every type that can nest (compared with the reference decoder's verdict), and
// adversarial length / count claims with the heap growth measured.
var deepTargets int
var deepGroupTargets int

// raggedPackedRuns: for every repeated fixed-width field, a packed run whose length is not a multiple of the
// element width, alone and followed by further records (so that a bound check against the whole input instead of
// the run does not notice), into an empty and into a non-empty list.
// backwardLengthPass: for every field that accepts length-delimited records, one or two well-formed records of the
// field followed back to back by a record of the same field whose length is NEGATIVE as an int64 (10-byte varint)
// and equals minus the distance back to every earlier byte of the stream (so in particular to the start of each
// earlier record, of the key and of the length of the record itself). A decoder that looks ahead, pre-counts or
// re-scans with `index += length` walks backwards onto bytes it has already seen: it must reject (as the unchanged
// code does) and must return. Each case runs under the unmarshal watchdog.
func backwardLengthPass(out *Out, t *Target) {
	for _, f := range t.S.Msgs[0].Fields {
		ld := f.IsMsg || f.Shape == vschema.Map || f.Kind == vschema.String || f.Kind == vschema.Bytes || (f.Shape == vschema.Repeated)
		if !ld {
			continue
		}
		payloads := [][]byte{{}}
		if !f.IsMsg && f.Shape != vschema.Map && (f.Kind == vschema.String || f.Kind == vschema.Bytes) {
			payloads = append(payloads, []byte("ab"))
		}
		for _, pl := range payloads {
			for _, nrec := range []int{1, 2} {
				var prefix []byte
				for i := 0; i < nrec; i++ {
					prefix = protowire.AppendTag(prefix, protowire.Number(f.Num), protowire.BytesType)
					prefix = protowire.AppendVarint(prefix, uint64(len(pl)))
					prefix = append(prefix, pl...)
				}
				tag := protowire.AppendTag(nil, protowire.Number(f.Num), protowire.BytesType)
				for k := 1; k <= len(prefix)+len(tag)+12; k++ {
					bs := append(append([]byte{}, prefix...), tag...)
					bs = protowire.AppendVarint(bs, uint64(-int64(k)))
					for _, tail := range []int{0, 3} {
						in := append(append([]byte{}, bs...), make([]byte, tail)...)
						msg := t.B.ToMessage(0, vval.Empty(t.S, 0))
						replay := fmt.Sprintf("%s\ndec %s 0 - x%x %s\n# field %d: %d well-formed record(s), then a record with length -%d", t.S.Line(), t.S.ID, in, vval.Empty(t.S, 0).String(), f.Num, nrec, k)
						var err error
						out.Watch("C06", "unmarshal-hang", "proto.Unmarshal", replay, 60*time.Second)
						p, pm := guard(func() { err = proto.Unmarshal(in, msg) })
						out.Unwatch()
						out.Case(fmt.Sprintf("backlen:%s:%d:%d:%d:%d:%d", t.Full, f.Num, len(pl), nrec, k, tail), true)
						out.Count("backward_length_cases")
						if p {
							out.Violate("C06", "unmarshal-panic_backward-length", "panic on a record with a negative length: "+firstLine(pm), replay)
						} else if err == nil {
							out.Violate("C06", "accepts-negative-length", "a record with a negative length was accepted", replay)
						}
					}
				}
			}
		}
	}
}

func raggedPackedRuns(out *Out, t *Target) {
	for _, f := range t.S.Msgs[0].Fields {
		if f.IsMsg || f.Shape != vschema.Repeated {
			continue
		}
		width := 0
		switch f.Kind {
		case vschema.Fixed32, vschema.Sfixed32, vschema.Float:
			width = 4
		case vschema.Fixed64, vschema.Sfixed64, vschema.Double:
			width = 8
		}
		if width == 0 {
			continue
		}
		for _, whole := range []int{0, 1, 3} {
			for _, extra := range []int{1, width - 1} {
				for _, tail := range []int{0, 12} {
					for _, prefill := range []bool{false, true} {
						var bs []byte
						if prefill {
							bs = protowire.AppendTag(bs, protowire.Number(f.Num), protowire.BytesType)
							bs = protowire.AppendVarint(bs, uint64(2*width))
							bs = append(bs, make([]byte, 2*width)...)
						}
						n := whole*width + extra
						bs = protowire.AppendTag(bs, protowire.Number(f.Num), protowire.BytesType)
						bs = protowire.AppendVarint(bs, uint64(n))
						for i := 0; i < n; i++ {
							bs = append(bs, byte(i+1))
						}
						for i := 0; i < tail/3; i++ {
							bs = append(bs, 0xc0, 0x3e, 0x01) // unknown field 1000, varint 1
						}
						msg := t.B.ToMessage(0, vval.Empty(t.S, 0))
						var err error
						replay := fmt.Sprintf("%s\ndec %s 0 - x%x %s\n# ragged packed run for field %d (width %d, run length %d, %d bytes follow)", t.S.Line(), t.S.ID, bs, vval.Empty(t.S, 0).String(), f.Num, width, n, tail)
						p, pm := guard(func() { err = proto.Unmarshal(bs, msg) })
						out.Case(fmt.Sprintf("ragged:%s:%d:%d:%d:%d:%v", t.Full, f.Num, whole, extra, tail, prefill), true)
						out.Count("ragged_packed_cases")
						if p {
							out.Violate("C06", "unmarshal-panic_ragged-packed-run", "panic on a packed run whose length is not a multiple of the element width: "+firstLine(pm), replay)
							continue
						}
						refErr := proto.Unmarshal(bs, dynamicpb.NewMessage(t.Desc))
						if err == nil && refErr != nil {
							out.Count("ragged_packed_accepted_where_reference_rejects")
						}
					}
				}
			}
		}
	}
}

func deepAndBig(out *Out, t *Target, r *vschema.Rand, tier string) {
	smallLimitWalks(out, t, r, tier)
	raggedPackedRuns(out, t)
	backwardLengthPass(out, t)
	// a cycle of singular / repeated / oneof message fields from the root back to the root
	path := nestPath(t.S)
	if len(path) > 0 {
		deepTargets++
	}
	if deepGroupTargets < 3 || tier == "thorough" {
		deepGroupTargets++
		deepUnknownGroups(out, t, path)
	}
	if len(path) > 0 && (tier == "thorough" || deepTargets <= 4) {
		depths := []int{9998, 9999, 10000, 10001, 20000}
		if tier == "thorough" {
			depths = append(depths, 100001, 400000)
		}
		for _, n := range depths {
			bs := nestBytes(t.S, path, n)
			msg := t.B.ToMessage(0, vval.Empty(t.S, 0))
			var err error
			p, pm := guard(func() { err = proto.Unmarshal(bs, msg) })
			out.Case(fmt.Sprintf("deep:%s:%d", t.Full, n), true)
			replay := fmt.Sprintf("deep %s nesting=%d along fields %v", t.Full, n, path)
			if p {
				out.Violate("C06", "deep-panic", "panic on deeply nested input: "+firstLine(pm), replay)
				continue
			}
			dyn := dynamicpb.NewMessage(t.Desc)
			refErr := proto.Unmarshal(bs, dyn)
			if (err == nil) != (refErr == nil) {
				out.Violate("C06", "depth-limit", fmt.Sprintf("nesting %d: generated code err=%v, reference err=%v", n, err, refErr), replay)
			}
			if err == nil {
				// Marshal of a chain is quadratic in its depth (no size cache): only in the thorough tier
				if p2, pm2 := guard(func() {
					_ = proto.Size(msg)
					if tier == "thorough" {
						_, _ = proto.Marshal(msg)
					}
				}); p2 {
					out.Violate("C06", "post-unusable-deep", "accepted deep message cannot be marshalled: "+firstLine(pm2), replay)
				}
			}
			out.Count("deep_cases")
		}
	}
	// over-read probe: N map entries of declared length 1 that hold only a key tag; their "length"
	// varint (3 bytes, value = everything that follows, ≡ 5 mod 8 so that it also parses as an unknown
	// fixed32 tag) and 4 filler bytes sit OUTSIDE the entry. A decoder that bounds an entry's records by
	// the whole input copies the rest of the input once per entry (quadratic; nested: exponential).
	for _, f := range t.S.Msgs[0].Fields {
		if f.Shape != vschema.Map || f.Key != vschema.String {
			continue
		}
		const N = 300
		tagb := protowire.AppendTag(nil, protowire.Number(f.Num), protowire.BytesType)
		tail := protowire.AppendTag(nil, 536870000, protowire.BytesType)
		tail = protowire.AppendBytes(tail, make([]byte, 12000))
		group := len(tagb) + 2 + 3 + 4
		total := group*N + len(tail)
		bs := make([]byte, 0, total)
		for j := 0; j < N; j++ {
			rem := total - (group*j + len(tagb) + 2 + 3)
			v := rem
			for v%8 != 5 {
				v--
			}
			bs = append(bs, tagb...)
			bs = append(bs, 0x01, 0x0a, byte(v&0x7f)|0x80, byte((v>>7)&0x7f)|0x80, byte(v>>14))
			bs = append(bs, 0x10, 0x00, 0x10, 0x00)
		}
		bs = append(bs, tail...)
		msg := t.B.ToMessage(0, vval.Empty(t.S, 0))
		var ms0, ms1 runtime.MemStats
		runtime.ReadMemStats(&ms0)
		p, pm := guard(func() { _ = proto.Unmarshal(bs, msg) })
		runtime.ReadMemStats(&ms1)
		out.Case(fmt.Sprintf("overread:%s:%d", t.Full, f.Num), true)
		replay := fmt.Sprintf("overread %s map field %d: %d entries of length 1 with the key length outside the entry, %d input bytes", t.Full, f.Num, N, len(bs))
		if p {
			out.Violate("C06", "unmarshal-panic", "panic on the over-read probe: "+firstLine(pm), replay)
		} else if grown := ms1.TotalAlloc - ms0.TotalAlloc; grown > uint64(64*len(bs))+(1<<20) {
			out.Violate("C06", "alloc-disproportionate", fmt.Sprintf("%d input bytes made Unmarshal allocate %d bytes (an entry's records read beyond the entry)", len(bs), grown), replay)
		}
		out.Count("overread_cases")
		break
	}
	// allocation in proportion to the input: length / element-count claims far beyond the input size
	for c := 0; c < 40; c++ {
		m := &t.S.Msgs[0]
		if len(m.Fields) == 0 {
			break
		}
		f := m.Fields[r.Intn(len(m.Fields))]
		var bs []byte
		bs = protowire.AppendTag(bs, protowire.Number(f.Num), protowire.BytesType)
		claim := []uint64{1 << 20, 1 << 30, 1<<31 - 1, 1 << 40, 1<<62 - 1}[r.Intn(5)]
		bs = protowire.AppendVarint(bs, claim)
		tail := make([]byte, r.Intn(64))
		for i := range tail {
			tail[i] = byte(r.Intn(3)) // mostly small varints: maximises the packed element count
		}
		bs = append(bs, tail...)
		msg := t.B.ToMessage(0, vval.Empty(t.S, 0))
		var ms0, ms1 runtime.MemStats
		runtime.ReadMemStats(&ms0)
		p, pm := guard(func() { _ = proto.Unmarshal(bs, msg) })
		runtime.ReadMemStats(&ms1)
		out.Case(fmt.Sprintf("alloc:%s:%x", t.Full, bs), true)
		replay := fmt.Sprintf("alloc %s x%x", t.Full, bs)
		if p {
			out.Violate("C06", "unmarshal-panic", "panic on adversarial length: "+firstLine(pm), replay)
			continue
		}
		grown := ms1.TotalAlloc - ms0.TotalAlloc
		if grown > uint64(64*len(bs))+(1<<20) {
			out.Violate("C06", "alloc-disproportionate", fmt.Sprintf("%d input bytes made Unmarshal allocate %d bytes", len(bs), grown), replay)
		}
		out.Count("alloc_cases")
	}
}

// nestPath: field indexes (into successive messages) of a cycle of message-typed singular / repeated /
// oneof fields leading from message 0 back to message 0; nil when the root cannot nest in itself.
// smallLimitWalks: every walk of message-typed edges from the root (singular, list element, oneof member
// and MAP VALUE edges, mixed) up to a length bound, decoded under every small explicit RecursionLimit:
// accept/reject must agree with the reference (which counts one level per message, map entries do not
// count). Mixed walks under small limits reach every "k levels of budget left at a message of shape X"
// state that a deep input under the default limit would need thousands of levels to reach.
func smallLimitWalks(out *Out, t *Target, r *vschema.Rand, tier string) {
	maxLen, maxWalks := 5, 1500
	if tier == "thorough" {
		maxLen, maxWalks = 8, 40000
	}
	type edge struct{ j, to int }
	edges := map[int][]edge{}
	for mi := range t.S.Msgs {
		for j, f := range t.S.Msgs[mi].Fields {
			if f.IsMsg && f.Extern == "" {
				edges[mi] = append(edges[mi], edge{j, f.Msg})
			}
		}
	}
	if len(edges[0]) == 0 {
		return
	}
	var walks [][]int // field indexes along the walk
	var rec func(mi int, cur []int)
	rec = func(mi int, cur []int) {
		if len(cur) > 0 {
			walks = append(walks, append([]int(nil), cur...))
		}
		if len(cur) == maxLen || len(walks) > 4*maxWalks {
			return
		}
		for _, e := range edges[mi] {
			rec(e.to, append(cur, e.j))
		}
	}
	rec(0, nil)
	if len(walks) > maxWalks {
		// keep the mixed-shape walks first (those with at least one map edge and one non-map edge), then sample
		r.Shuffle(len(walks), func(a, b int) { walks[a], walks[b] = walks[b], walks[a] })
		walks = walks[:maxWalks]
	}
	for _, w := range walks {
		// inside-out
		mis := []int{0}
		for _, j := range w {
			mis = append(mis, t.S.Msgs[mis[len(mis)-1]].Fields[j].Msg)
		}
		var inner []byte
		hasMap := false
		for k := len(w) - 1; k >= 0; k-- {
			f := t.S.Msgs[mis[k]].Fields[w[k]]
			if f.Shape == vschema.Map {
				hasMap = true
				e := protowire.AppendTag(nil, 2, protowire.BytesType)
				e = protowire.AppendBytes(e, inner)
				inner = e
			}
			b := protowire.AppendTag(nil, protowire.Number(f.Num), protowire.BytesType)
			inner = protowire.AppendBytes(b, inner)
		}
		for limit := 1; limit <= len(w)+2; limit++ {
			msg := t.B.ToMessage(0, vval.Empty(t.S, 0))
			var err error
			p, pm := guard(func() { err = proto.UnmarshalOptions{RecursionLimit: limit}.Unmarshal(inner, msg) })
			replay := fmt.Sprintf("%s\nwalk %s fields %v RecursionLimit=%d input x%x", t.S.Line(), t.Full, w, limit, inner)
			out.Case(fmt.Sprintf("walk:%s:%v:%d", t.Full, w, limit), true)
			if p {
				out.Violate("C06", "walk-panic", "panic on nested input under a small recursion limit: "+firstLine(pm), replay)
				continue
			}
			dyn := dynamicpb.NewMessage(t.Desc)
			refErr := proto.UnmarshalOptions{RecursionLimit: limit}.Unmarshal(inner, dyn)
			if (err == nil) != (refErr == nil) {
				out.Violate("C06", "depth-limit-walk", fmt.Sprintf("%d nested messages (map edge: %v) under RecursionLimit %d: generated code err=%v, reference err=%v", len(w), hasMap, limit, err, refErr), replay)
			}
			out.Count("limit_walk_cases")
			if hasMap {
				out.Count("limit_walk_cases_with_map_edge")
			}
		}
	}
	// unknown GROUPS at the end of a walk: the nesting of groups inside an unknown record is not message nesting —
	// the reference keeps such a record (byte for byte) whatever RecursionLimit says, as long as the messages
	// around it fit the limit
	if len(walks) > 120 {
		walks = walks[:120]
	}
	walks = append([][]int{nil}, walks...)
	for _, w := range walks {
		mis := []int{0}
		for _, j := range w {
			mis = append(mis, t.S.Msgs[mis[len(mis)-1]].Fields[j].Msg)
		}
		for _, g := range []int{1, len(w) + 2, len(w) + 5} {
			for _, limit := range []int{len(w) + 1, len(w) + 3} {
				var grp []byte
				for l := 0; l < g; l++ {
					grp = protowire.AppendTag(grp, protowire.Number(536870000+l%3), protowire.StartGroupType)
				}
				grp = protowire.AppendTag(grp, 1, protowire.VarintType)
				grp = protowire.AppendVarint(grp, 7)
				for l := g - 1; l >= 0; l-- {
					grp = protowire.AppendTag(grp, protowire.Number(536870000+l%3), protowire.EndGroupType)
				}
				inner := grp
				for k := len(w) - 1; k >= 0; k-- {
					f := t.S.Msgs[mis[k]].Fields[w[k]]
					if f.Shape == vschema.Map {
						e := protowire.AppendTag(nil, 2, protowire.BytesType)
						inner = protowire.AppendBytes(e, inner)
					}
					b := protowire.AppendTag(nil, protowire.Number(f.Num), protowire.BytesType)
					inner = protowire.AppendBytes(b, inner)
				}
				for _, discard := range []bool{false, true} {
					msg := t.B.ToMessage(0, vval.Empty(t.S, 0))
					var err error
					opts := proto.UnmarshalOptions{RecursionLimit: limit, DiscardUnknown: discard}
					p, pm := guard(func() { err = opts.Unmarshal(inner, msg) })
					replay := fmt.Sprintf("%s\nwalk %s fields %v then an unknown group nested %d deep, RecursionLimit=%d DiscardUnknown=%v input x%x", t.S.Line(), t.Full, w, g, limit, discard, inner)
					out.Case(fmt.Sprintf("walkgroup:%s:%v:%d:%d:%v", t.Full, w, g, limit, discard), true)
					out.Count("limit_walk_unknown_group_cases")
					if p {
						out.Violate("C06", "walk-panic", "panic on an unknown group under a small recursion limit: "+firstLine(pm), replay)
						continue
					}
					dyn := dynamicpb.NewMessage(t.Desc)
					refErr := opts.Unmarshal(inner, dyn)
					if refErr != nil {
						continue
					}
					if err != nil {
						out.Violate("C14", "rejects-unknown-group", fmt.Sprintf("a stream the reference accepts (unknown group nested %d deep below %d messages, RecursionLimit %d) is rejected: %v", g, len(w), limit, err), replay)
						out.Violate("C03", "rejects-unknown-group", fmt.Sprintf("well-typed stream rejected: %v", err), replay)
						continue
					}
					gb, e1 := proto.MarshalOptions{Deterministic: true}.Marshal(msg)
					rb, e2 := proto.MarshalOptions{Deterministic: true}.Marshal(dyn)
					if e1 == nil && e2 == nil && !bytes.Equal(gb, rb) {
						out.Violate("C14", "unknown-group-differs", fmt.Sprintf("after decoding an unknown group nested %d deep (DiscardUnknown=%v) the re-encoding differs from the reference: %x vs %x", g, discard, gb, rb), replay)
					}
				}
			}
		}
	}
}

// stackGrowth: how much the stack memory of the process grew while f ran on a fresh goroutine.
func stackGrowth(f func()) uint64 {
	var before, after runtime.MemStats
	done := make(chan struct{})
	go func() {
		defer close(done)
		runtime.ReadMemStats(&before)
		f()
		runtime.ReadMemStats(&after)
	}()
	<-done
	if after.StackInuse > before.StackInuse {
		return after.StackInuse - before.StackInuse
	}
	return 0
}

// deepUnknownGroups: nesting of GROUPS inside an unknown record. (a) Around protowire's limit (10001 levels are
// accepted, 10002 refused) at the top level and inside a nested message: what the reference accepts must be
// accepted and kept. (b) Far beyond it: the decoder may reject or accept, but it must not follow the nesting by
// recursion — stack use has to stay flat however deep the (cheap: one byte per level) nesting is.
func deepUnknownGroups(out *Out, t *Target, path []int) {
	nest := func(d int, closed bool) []byte {
		bs := make([]byte, 0, 10*d+8)
		for l := 0; l < d; l++ {
			bs = protowire.AppendTag(bs, 536870001, protowire.StartGroupType)
		}
		if closed {
			for l := 0; l < d; l++ {
				bs = protowire.AppendTag(bs, 536870001, protowire.EndGroupType)
			}
		}
		return bs
	}
	wrap := func(bs []byte) []byte {
		if len(path) == 0 {
			return nil
		}
		f := t.S.Msgs[0].Fields[path[0]]
		b := protowire.AppendTag(nil, protowire.Number(f.Num), protowire.BytesType)
		return protowire.AppendBytes(b, bs)
	}
	for _, d := range []int{9999, 10000, 10001} {
		for _, in := range [][]byte{nest(d, true), wrap(nest(d, true))} {
			if in == nil {
				continue
			}
			msg := t.B.ToMessage(0, vval.Empty(t.S, 0))
			var err error
			p, pm := guard(func() { err = proto.Unmarshal(in, msg) })
			replay := fmt.Sprintf("deep-groups %s: unknown group nested %d deep (%d bytes)", t.Full, d, len(in))
			out.Case(fmt.Sprintf("deepgroup:%s:%d:%d", t.Full, d, len(in)), true)
			out.Count("deep_unknown_group_cases")
			if p {
				out.Violate("C06", "deep-panic", "panic on deeply nested unknown groups: "+firstLine(pm), replay)
				continue
			}
			dyn := dynamicpb.NewMessage(t.Desc)
			if refErr := proto.Unmarshal(in, dyn); refErr == nil && err != nil {
				out.Violate("C14", "rejects-unknown-group", fmt.Sprintf("unknown group nested %d deep: accepted by the reference, rejected by the generated code: %v", d, err), replay)
			}
		}
	}
	for _, closed := range []bool{true, false} {
		const d = 600000
		in := nest(d, closed)
		msg := t.B.ToMessage(0, vval.Empty(t.S, 0))
		var p bool
		var pm string
		grown := stackGrowth(func() { p, pm = guard(func() { _ = proto.Unmarshal(in, msg) }) })
		replay := fmt.Sprintf("deep-groups %s: %d nested start-group tags of an unknown field (closed=%v, %d bytes)", t.Full, d, closed, len(in))
		out.Case(fmt.Sprintf("deepgroupstack:%s:%v", t.Full, closed), true)
		out.Count("deep_unknown_group_stack_cases")
		if p {
			out.Violate("C06", "deep-panic", "panic on deeply nested unknown groups: "+firstLine(pm), replay)
		} else if grown > 16<<20 {
			out.Violate("C06", "unbounded-recursion-unknown-groups", fmt.Sprintf("%d nested unknown groups (%d input bytes) made the stack grow by %d bytes: the nesting is followed by recursion, the stack overflows (a fatal error) for an input ~%d times larger", d, len(in), grown, (1<<30)/(grown+1)+1), replay)
		}
	}
}

func nestPath(s *vschema.Schema) []int {
	type st struct {
		msg  int
		path []int
	}
	seen := map[int]bool{}
	queue := []st{{0, nil}}
	for len(queue) > 0 {
		cur := queue[0]
		queue = queue[1:]
		for j, f := range s.Msgs[cur.msg].Fields {
			if !f.IsMsg || f.Shape == vschema.Map {
				continue
			}
			np := append(append([]int(nil), cur.path...), j)
			if f.Msg == 0 {
				return np
			}
			if !seen[f.Msg] {
				seen[f.Msg] = true
				queue = append(queue, st{f.Msg, np})
			}
		}
	}
	return nil
}

// nestBytes: n nested length-delimited records following the cycle.
func nestBytes(s *vschema.Schema, path []int, n int) []byte {
	// numbers along the cycle
	nums := make([]int, len(path))
	mi := 0
	for k, j := range path {
		f := s.Msgs[mi].Fields[j]
		nums[k] = f.Num
		mi = f.Msg
	}
	// lengths bottom-up, then one forward pass (linear)
	lens := make([]int, n+1)
	for level := n - 1; level >= 0; level-- {
		num := nums[level%len(nums)]
		lens[level] = protowire.SizeTag(protowire.Number(num)) + protowire.SizeVarint(uint64(lens[level+1])) + lens[level+1]
	}
	out := make([]byte, 0, lens[0])
	for level := 0; level < n; level++ {
		num := nums[level%len(nums)]
		out = protowire.AppendTag(out, protowire.Number(num), protowire.BytesType)
		out = protowire.AppendVarint(out, uint64(lens[level+1]))
	}
	return out
}

func mutate(r *vschema.Rand, bs []byte) []byte {
	b := append([]byte(nil), bs...)
	switch r.Intn(8) {
	case 0:
		if len(b) > 0 {
			b = b[:r.Intn(len(b))]
		}
	case 1:
		if len(b) > 0 {
			b[r.Intn(len(b))] ^= 1 << uint(r.Intn(8))
		}
	case 2:
		lens := []uint64{1 << 31, 1<<63 - 1, 1 << 63, ^uint64(0), 1<<31 - 1, 1 << 32}
		b = protowire.AppendTag(b, protowire.Number(1+r.Intn(40)), protowire.BytesType)
		b = protowire.AppendVarint(b, lens[r.Intn(len(lens))])
		b = append(b, 1, 2)
	case 3:
		k := r.Intn(12)
		for i := 0; i < k; i++ {
			b = append(b, byte(r.U64())|0x80)
		}
	case 4:
		if r.Bool() {
			b = protowire.AppendTag(b, protowire.Number(1+r.Intn(40)), protowire.EndGroupType)
			break
		}
		// an (unknown) group that contains a record with an adversarial length, at top level or wrapped
		// in a length-delimited record of a random (possibly map / message) field
		lens := []uint64{1<<63 - 1, 1<<63 - 9, 1 << 62, 1<<31 - 1, 1 << 32, ^uint64(0) >> 1}
		g := protowire.AppendTag(nil, protowire.Number(100+r.Intn(400)), protowire.StartGroupType)
		g = protowire.AppendTag(g, protowire.Number(1+r.Intn(9)), protowire.BytesType)
		g = protowire.AppendVarint(g, lens[r.Intn(len(lens))])
		g = append(g, 0, 0)
		g = protowire.AppendTag(g, protowire.Number(100), protowire.EndGroupType)
		if r.Bool() {
			w := protowire.AppendTag(nil, protowire.Number(1+r.Intn(40)), protowire.BytesType)
			w = protowire.AppendBytes(w, g)
			g = w
		}
		b = append(b, g...)
	case 5:
		// a length-delimited record of declared length 1 holding only a key / value tag (wire type 2),
		// followed by a length and bytes OUTSIDE the record: nothing inside may take its bytes from what
		// follows (map entries, nested messages, packed runs)
		b = protowire.AppendTag(b, protowire.Number(1+r.Intn(40)), protowire.BytesType)
		b = append(b, 0x01, []byte{0x0a, 0x12, 0x08, 0x10}[r.Intn(4)])
		n := r.Intn(40)
		b = protowire.AppendVarint(b, uint64(n))
		for i := 0; i < n+r.Intn(3); i++ {
			b = append(b, byte('A'+r.Intn(3)))
		}
	case 6:
		// a packed run of a fixed width whose length is NOT a multiple of the width, followed by enough further
		// bytes to hide the overrun from a bound check against the whole input (any field number: a repeated
		// fixed-width field of the target is hit with probability ~ its share of numbers 1..60)
		width := []int{4, 8}[r.Intn(2)]
		n := width*(1+r.Intn(4)) + 1 + r.Intn(width-1)
		b = protowire.AppendTag(b, protowire.Number(1+r.Intn(60)), protowire.BytesType)
		b = protowire.AppendVarint(b, uint64(n))
		for i := 0; i < n; i++ {
			b = append(b, byte(r.U64()))
		}
		for i := 0; i < 3+r.Intn(4); i++ {
			b = protowire.AppendTag(b, protowire.Number(1000+r.Intn(9)), protowire.VarintType)
			b = protowire.AppendVarint(b, uint64(r.Intn(200)))
		}
	default:
		k := 1 + r.Intn(10)
		b = make([]byte, k)
		for i := range b {
			b[i] = byte(r.U64())
		}
	}
	return b
}

func decodeCase(out *Out, t *Target, g *vval.StreamGen, bs []byte, into *vval.Val, merge, discard, malformed, modelOK bool) {
	fk := g.FeatureKey()
	hx := "x" + hex.EncodeToString(bs)
	intoS := into.String()
	flags := flagStr(merge, discard)
	staleNote := ""
	replay := func(cmd string) string {
		return t.S.Line() + "\n" + cmd + " " + t.S.ID + " 0 " + flags + " " + hx + " " + intoS + "\n# type " + t.Full + " features " + fk + staleNote
	}
	msg := t.B.ToMessage(0, into)
	if merge && len(bs)%2 == 0 {
		staleNote = "\n# the merge target's non-nil lists were given spare capacity holding stale elements past len (vval.AddStaleCapacity)"
		// the target of a Merge decode as a caller that recycles messages leaves it: lists with spare capacity
		// whose slots past len hold stale elements (not part of the value, must not influence the result)
		vval.AddStaleCapacity(msg, 1)
		out.Count("merge_targets_with_stale_capacity")
	}
	input := append([]byte(nil), bs...)
	var err error
	start := time.Now()
	out.Watch("C06", "unmarshal-hang", "proto.Unmarshal", replay("dec"), 120*time.Second)
	p, pm := guard(func() { err = proto.UnmarshalOptions{Merge: merge, DiscardUnknown: discard}.Unmarshal(input, msg) })
	out.Unwatch()
	if d := time.Since(start); d > 2*time.Second {
		// a loaded machine can stall any call: only a running time that repeats (and that the reference
		// decoder does not share) is reported
		slow := 1
		for rep := 0; rep < 2; rep++ {
			m2 := t.B.ToMessage(0, into)
			st := time.Now()
			guard(func() {
				_ = proto.UnmarshalOptions{Merge: merge, DiscardUnknown: discard}.Unmarshal(append([]byte(nil), bs...), m2)
			})
			if time.Since(st) > 2*time.Second {
				slow++
			}
		}
		st := time.Now()
		guard(func() { _ = proto.Unmarshal(bs, dynamicpb.NewMessage(t.Desc)) })
		if slow == 3 && time.Since(st) < d/4 {
			out.Violate("C06", "slow", fmt.Sprintf("Unmarshal of %d bytes took %v (repeatedly; the reference decoder is at least 4x faster)", len(bs), d), replay("dec"))
		} else {
			out.Count("slow_call_not_reproduced")
		}
	}
	exp := "err"
	var got *vval.Val
	if p {
		exp = "panic"
	} else if err == nil {
		got = t.B.FromMessage(0, msg)
		exp = "ok " + vval.Canon(t.S, 0, got).String()
	}
	prop := "C03,C14,C06"
	if malformed {
		// C06 quantifies over ALL byte strings: its theorems (no panic, termination, depth, linear
		// allocation) are about the model, so the model must describe the code on malformed input too
		prop = "C06"
	}
	if modelOK {
		out.Line(prop, "dec "+t.S.ID+" 0 "+flags+" "+hx+" "+intoS, exp)
	}
	// ---- C06: never panics
	if p {
		key := "unmarshal-panic" + fk
		out.Violate("C06", key, "proto.Unmarshal panicked: "+pm, replay("dec"))
		return
	}
	// input not modified (C07)
	if string(input) != string(bs) {
		out.Violate("C07", "input-modified", "Unmarshal modified its input", replay("dec"))
	}
	if malformed {
		out.Count("malformed")
		if err == nil {
			out.Count("malformed_accepted")
		}
	}
	// reference
	dyn := dynamicpb.NewMessage(t.Desc)
	var refErr error
	refInto := t.B.ToMessage(0, into)
	if merge {
		// same starting value on the reference side, transported through the wire
		ib, e := proto.Marshal(refInto)
		if e != nil || proto.Unmarshal(ib, dyn) != nil {
			return
		}
	}
	if rp, _ := guard(func() { refErr = proto.UnmarshalOptions{Merge: merge, DiscardUnknown: discard}.Unmarshal(bs, dyn) }); rp {
		out.Count("reference_itself_panics")
		refErr = fmt.Errorf("reference panicked")
	}
	if !malformed && refErr != nil {
		out.Violate("HARNESS", "stream-generator", "reference rejects a stream meant to be well-typed: "+refErr.Error(), replay("rdec"))
		return
	}
	if refErr == nil {
		out.Count("reference_accepts")
		refVal := vval.FromReflect(t.S, 0, dyn)
		if err == nil && hasSNaN32(t.S, 0, got) {
			// the reference stores float32 through float64 and quiets signalling NaNs: not comparable
			out.Count("float32_snan_skipped_for_reference")
			return
		}
		if modelOK && !merge && (err == nil || !malformed) {
			out.Line("B", "rdecn "+t.S.ID+" 0 "+flags+" "+hx+" "+vval.Empty(t.S, 0).String(), "ok "+refVal.String())
		}
		if err != nil {
			if !malformed {
				out.Violate("C03", "rejects-well-typed"+fk, "generated code rejects a well-typed stream: "+err.Error(), replay("dec"))
				// C14: if the same stream with its unknown records removed (by the reference) is accepted,
				// the rejection is caused by an unknown record that had to be stored
				if strings.Contains(fk, "unknown") && !merge {
					stripped := dynamicpb.NewMessage(t.Desc)
					if (proto.UnmarshalOptions{DiscardUnknown: true}).Unmarshal(bs, stripped) == nil {
						if sb, e := proto.Marshal(stripped); e == nil {
							m2 := t.B.ToMessage(0, vval.Empty(t.S, 0))
							var e2 error
							if p2, _ := guard(func() { e2 = proto.Unmarshal(sb, m2) }); !p2 && e2 == nil {
								out.Violate("C14", "rejects-unknown-record"+fk, "generated code rejects a well-typed stream because of an unknown record (accepts it once the unknown records are removed): "+err.Error(), replay("dec"))
							}
						}
					}
				}
			} else {
				out.Count("malformed_ref_ok_impl_err")
			}
			return
		}
		gotN := vval.RepNorm(t.S, 0, got)
		if merge && hasJunk(t.S, 0, into) {
			// the Merge target held nil list elements / nil map values / wrappers without payload: the reference reads
			// them as empty messages (that is how such a value reaches it), so what is left of them is compared as such
			gotN = vval.RepNorm(t.S, 0, vval.Normalize(t.S, 0, got))
			out.Count("merge_targets_with_nil_junk")
		}
		if gotN.String() != refVal.String() {
			if !malformed {
				prop := "C03"
				if unknownOnlyDiff(gotN, refVal) {
					prop = "C14"
				}
				out.Violate(prop, "decode-differs"+fk, "decoded value differs from reference: got "+gotN.String()+" REF "+refVal.String(), replay("dec"))
			} else {
				out.Count("malformed_value_differs")
			}
		}
	} else if err == nil {
		out.Count("malformed_ref_err_impl_ok")
	}
	if err != nil {
		return
	}
	// ---- C07: overwrite the input; the message must not change
	for i := range input {
		input[i] = 0xA5
	}
	after := vval.Canon(t.S, 0, t.B.FromMessage(0, msg)).String()
	if after != vval.Canon(t.S, 0, got).String() {
		out.Violate("C07", "aliases-input", "message changed when the input buffer was overwritten", replay("dec"))
	}
	// ---- C06: an accepted message is usable
	pu, pum := guard(func() {
		_ = proto.Size(msg)
		b, e := proto.MarshalOptions{Deterministic: true}.Marshal(msg)
		_ = b
		_ = e
		_ = proto.Equal(msg, msg)
		msg.ProtoReflect().Range(func(fd protoreflectFD, v protoreflectValue) bool { return true })
		_ = proto.Clone(msg)
	})
	if pu {
		out.Violate("C06", "post-unusable"+fk, "accepted message cannot be sized/marshalled/compared/ranged: "+pum, replay("dec"))
	}
	// ---- C14: DiscardUnknown leaves no unknown record anywhere and changes nothing else
	if discard && !merge && !malformed {
		if hasUnknown(got) {
			out.Violate("C14", "discard-leaves-unknown"+fk, "unknown fields survive DiscardUnknown", replay("dec"))
		}
		m2 := t.B.ToMessage(0, into)
		var e error
		if pp, _ := guard(func() { e = (proto.UnmarshalOptions{}).Unmarshal(bs, m2) }); !pp && e == nil {
			keep := t.B.FromMessage(0, m2)
			a := vval.RepNorm(t.S, 0, got).String()
			b := vval.RepNorm(t.S, 0, eraseUnknown(keep)).String()
			if a != b {
				out.Violate("C14", "discard-changes-known"+fk, "DiscardUnknown changed something other than unknown fields", replay("dec"))
			}
		}
	}
}

func hasUnknown(v *vval.Val) bool {
	if v.T == vval.Msg && len(v.B) > 0 {
		return true
	}
	for _, k := range v.Kids {
		if hasUnknown(k) {
			return true
		}
	}
	return false
}

func unknownOnlyDiff(a, b *vval.Val) bool {
	return eraseUnknown(a).String() == eraseUnknown(b).String()
}

func eraseUnknown(v *vval.Val) *vval.Val {
	o := &vval.Val{T: v.T, N: v.N, NonNil: v.NonNil}
	if v.T != vval.Msg {
		o.B = v.B
	}
	for _, k := range v.Kids {
		o.Kids = append(o.Kids, eraseUnknown(k))
	}
	return o
}
