// vrun runs the correspondence / oracle engines against the real generated code (working-tree build).
package main

import (
	"encoding/json"
	"fmt"
	"os"
	"path/filepath"
	"reflect"
	"sort"
	"strings"
	"sync"
	"time"

	"github.com/cosmos/cosmos-proto/internal/verifh/vreg"
	"github.com/cosmos/cosmos-proto/internal/verifh/vschema"
	"github.com/cosmos/cosmos-proto/internal/verifh/vval"
	"google.golang.org/protobuf/reflect/protoreflect"
	"google.golang.org/protobuf/reflect/protoregistry"
)

// Target: one generated message type under test, with its schema closure and struct bridge.
type Target struct {
	Pkg   string
	Full  string
	S     *vschema.Schema
	B     *vval.Bridge
	Info  *vreg.MsgInfo
	Desc  protoreflect.MessageDescriptor
	Enums map[string][]int32
}

func typeOfFull(full string) reflect.Type {
	if t := vreg.TypeOf(full); t != nil {
		return t
	}
	mt, err := protoregistry.GlobalTypes.FindMessageByName(protoreflect.FullName(full))
	if err != nil {
		return nil
	}
	return reflect.TypeOf(mt.New().Interface())
}

// specialPkgs: corpus packages that only dedicated passes use (types outside the value bridge: proto2 messages with
// required fields below them).
var specialPkgs = map[string]bool{"req": true}

func loadTargets() []*Target {
	var out []*Target
	for _, p := range vreg.Pkgs {
		if specialPkgs[p.Name] {
			continue
		}
		for i := range p.Messages {
			mi := &p.Messages[i]
			md := mi.Proto.ProtoReflect().Descriptor()
			s := vschema.FromMessage(md, vreg.IsPulsar)
			t := &Target{Pkg: p.Name, Full: string(md.FullName()), S: s, Info: mi, Desc: md, Enums: map[string][]int32{}}
			b, err := vval.NewBridge(s, typeOfFull, vreg.WrapperOf)
			if err != nil {
				fmt.Fprintln(os.Stderr, "bridge:", err)
				os.Exit(2)
			}
			t.B = b
			out = append(out, t)
		}
	}
	sort.Slice(out, func(i, j int) bool { return out[i].Full < out[j].Full })
	return out
}

// Violation found by a direct oracle on the implementation.
type Violation struct {
	Property string `json:"property"`
	Key      string `json:"key"` // stable classification key (matched against known-findings)
	Desc     string `json:"desc"`
	Replay   string `json:"replay"`
}

type Result struct {
	Engine      string         `json:"engine"`
	Evaluations int            `json:"evaluations"`
	Distinct    int            `json:"distinct_nontrivial"`
	Rule        string         `json:"rule"`
	Samples     []string       `json:"samples"`
	Violations  []Violation    `json:"violations"`
	Stats       map[string]int `json:"stats"`
	Notes       []string       `json:"notes,omitempty"`
	Programs    int            `json:"programs"`
}

type Out struct {
	dir                         string
	in                          *os.File
	expect                      *os.File
	meta                        *os.File
	res                         Result
	seen                        map[string]bool
	lines                       int
	wmu                         sync.Mutex
	wseq                        int
	wactive                     bool
	wrunning                    bool
	wstart                      time.Time
	wlimit                      time.Duration
	wprop, wkey, wdesc, wreplay string
}

func newOut(dir, engine string) *Out {
	os.MkdirAll(dir, 0o755)
	o := &Out{dir: dir, seen: map[string]bool{}}
	o.res.Engine = engine
	o.res.Stats = map[string]int{}
	o.in, _ = os.Create(filepath.Join(dir, "lean_in.txt"))
	o.expect, _ = os.Create(filepath.Join(dir, "lean_expect.txt"))
	o.meta, _ = os.Create(filepath.Join(dir, "lean_meta.txt"))
	return o
}

// Line adds one model line with the output observed on the implementation. props: properties whose
// correspondence this line belongs to; ctx: schema line needed to replay.
func (o *Out) Line(props, in, expect string) {
	fmt.Fprintln(o.in, in)
	fmt.Fprintln(o.expect, expect)
	fmt.Fprintln(o.meta, props)
	o.lines++
}

func (o *Out) Count(k string) { o.res.Stats[k]++ }

func (o *Out) Case(sig string, nontrivial bool) {
	o.res.Evaluations++
	if nontrivial && !o.seen[sig] {
		o.seen[sig] = true
		o.res.Distinct++
	}
}

func (o *Out) Sample(s string) {
	if len(o.res.Samples) < 6 {
		if len(s) > 400 {
			s = s[:400] + "…"
		}
		o.res.Samples = append(o.res.Samples, s)
	}
}

func (o *Out) Violate(prop, key, desc, replay string) {
	o.res.Stats["violations_"+prop]++
	if len(o.res.Violations) < 200 {
		o.res.Violations = append(o.res.Violations, Violation{prop, key, desc, replay})
	}
}

// Watch arms a watchdog for one call into the code under test: if Unwatch is not called within the limit
// the call is reported as a violation (non-termination / unbounded running time) with its replay, the
// results collected so far are written and the process exits (a spinning goroutine cannot be stopped).
func (o *Out) Watch(prop, key, desc, replay string, limit time.Duration) {
	o.wmu.Lock()
	o.wseq++
	o.wactive, o.wstart, o.wlimit = true, time.Now(), limit
	o.wprop, o.wkey, o.wdesc, o.wreplay = prop, key, desc, replay
	start := !o.wrunning
	o.wrunning = true
	o.wmu.Unlock()
	if start {
		go func() {
			for {
				time.Sleep(200 * time.Millisecond)
				o.wmu.Lock()
				expired := o.wactive && time.Since(o.wstart) > o.wlimit
				prop, key, desc, replay, limit := o.wprop, o.wkey, o.wdesc, o.wreplay, o.wlimit
				o.wmu.Unlock()
				if expired {
					o.Violate(prop, key, fmt.Sprintf("%s did not return within %v", desc, limit), replay)
					o.res.Stats["watchdog_expired"]++
					o.Close()
					os.Exit(0)
				}
			}
		}()
	}
}

// Unwatch disarms the current watchdog.
func (o *Out) Unwatch() {
	o.wmu.Lock()
	o.wactive = false
	o.wmu.Unlock()
}

func (o *Out) Close() {
	o.in.Close()
	o.expect.Close()
	o.meta.Close()
	js, _ := json.MarshalIndent(o.res, "", " ")
	os.WriteFile(filepath.Join(o.dir, "result.json"), js, 0o644)
}

func sortedKeys(m map[string]int) []string {
	var ks []string
	for k := range m {
		ks = append(ks, k)
	}
	sort.Strings(ks)
	return ks
}

var _ = strings.TrimSpace

type protoreflectFD = protoreflect.FieldDescriptor
type protoreflectValue = protoreflect.Value
