package main

import (
	"flag"
	"fmt"
	"os"

	_ "github.com/cosmos/cosmos-proto/internal/verifcorpus/all"
)

type Cfg struct {
	Seed  uint64
	Tier  string
	Out   string
	N     int
	Only  string
}

var engines = map[string]func(*Cfg){}

func main() {
	if len(os.Args) < 2 {
		fmt.Println("usage: vrun <engine> [flags]")
		os.Exit(2)
	}
	eng := os.Args[1]
	fs := flag.NewFlagSet(eng, flag.ExitOnError)
	cfg := &Cfg{}
	fs.Uint64Var(&cfg.Seed, "seed", 1, "seed")
	fs.StringVar(&cfg.Tier, "tier", "quick", "tier")
	fs.StringVar(&cfg.Out, "out", "", "output dir")
	fs.IntVar(&cfg.N, "n", 0, "cases (0 = tier default)")
	fs.StringVar(&cfg.Only, "only", "", "restrict to message full-name substring")
	fs.Parse(os.Args[2:])
	f, ok := engines[eng]
	if !ok {
		fmt.Println("unknown engine", eng)
		os.Exit(2)
	}
	f(cfg)
}
