package main

// Operation histories of the reflection protocol (REFLECT_PROTOCOL.md): op representation and printing,
// execution of one op on one protoreflect.Message implementation, value construction with the
// implementation's own constructors.

import (
	"encoding/hex"
	"math"
	"reflect"
	"sort"
	"strconv"
	"strings"

	"github.com/cosmos/cosmos-proto/internal/verifh/vschema"
	"github.com/cosmos/cosmos-proto/internal/verifh/vval"
	"google.golang.org/protobuf/proto"
	"google.golang.org/protobuf/reflect/protoreflect"
)

type rstep struct {
	kind string // in / at / mv
	j, i int
	key  *vval.Val
}

type rop struct {
	path   []rstep
	name   string
	j      int // field index (oneof group index for `which`)
	i      int // list index / truncate length
	key    *vval.Val
	val    *vval.Val
	raw    []byte
	misuse bool // set j (l ) / (p ): Set(fd, Get(fd)) of an unpopulated field
	// expectPanic: the generator produced this op on purpose outside the valid domain
	expectPanic bool
}

// newf is listed with the writes in the protocol but "never changes the state": it is addressed through
// reads (no Mutable on the path) so that the whole op is state-preserving.
var readOps = map[string]bool{"newf": true, "getter": true, "has": true, "get": true, "which": true, "range": true, "getu": true, "valid": true,
	"llen": true, "lget": true, "mlen": true, "mhas": true, "mget": true, "mrange": true, "size": true, "enc": true}

func (o *rop) isWrite() bool { return !readOps[o.name] }

func pathString(p []rstep) string {
	var sb strings.Builder
	for _, st := range p {
		sb.WriteString(st.kind)
		sb.WriteString(" ")
		sb.WriteString(strconv.Itoa(st.j))
		sb.WriteString(" ")
		switch st.kind {
		case "at":
			sb.WriteString(strconv.Itoa(st.i))
			sb.WriteString(" ")
		case "mv":
			sb.WriteString(st.key.String())
			sb.WriteString(" ")
		}
	}
	return sb.String()
}

func (o *rop) String() string {
	s := pathString(o.path) + o.name
	js := " " + strconv.Itoa(o.j)
	switch o.name {
	case "has", "get", "getter", "which", "llen", "mlen", "mrange", "clear", "mut", "mutset", "newf", "lappm":
		s += js
	case "lget", "ltrunc":
		s += js + " " + strconv.Itoa(o.i)
	case "mhas", "mget", "mclr", "mmut":
		s += js + " " + o.key.String()
	case "set", "lapp":
		s += js + " " + o.val.String()
	case "lset":
		s += js + " " + strconv.Itoa(o.i) + " " + o.val.String()
	case "mset":
		s += js + " " + o.key.String() + " " + o.val.String()
	case "setu":
		if len(o.raw) > 0 {
			s += " " + hex.EncodeToString(o.raw)
		}
	}
	return s
}

// ---- scalar conversions ------------------------------------------------------------------------

func scalarValue(k vschema.Kind, v *vval.Val) protoreflect.Value {
	switch k {
	case vschema.Bool:
		return protoreflect.ValueOfBool(v.N != 0)
	case vschema.Int32, vschema.Sint32, vschema.Sfixed32:
		return protoreflect.ValueOfInt32(int32(uint32(v.N)))
	case vschema.Int64, vschema.Sint64, vschema.Sfixed64:
		return protoreflect.ValueOfInt64(int64(v.N))
	case vschema.Uint32, vschema.Fixed32:
		return protoreflect.ValueOfUint32(uint32(v.N))
	case vschema.Uint64, vschema.Fixed64:
		return protoreflect.ValueOfUint64(v.N)
	case vschema.Enum:
		return protoreflect.ValueOfEnum(protoreflect.EnumNumber(int32(uint32(v.N))))
	case vschema.Float:
		return protoreflect.ValueOfFloat32(math.Float32frombits(uint32(v.N)))
	case vschema.Double:
		return protoreflect.ValueOfFloat64(math.Float64frombits(v.N))
	case vschema.String:
		return protoreflect.ValueOfString(string(v.B))
	case vschema.Bytes:
		if !v.NonNil && len(v.B) == 0 {
			return protoreflect.ValueOfBytes(nil)
		}
		return protoreflect.ValueOfBytes(append([]byte{}, v.B...))
	}
	panic("scalarValue: kind")
}

func keyOf(k vschema.Kind, v *vval.Val) protoreflect.MapKey { return scalarValue(k, v).MapKey() }

func scalarToken(k vschema.Kind, v protoreflect.Value) string {
	x := vval.ScalarFromValue(k, v)
	if x.T == vval.Blob {
		return "s" + hex.EncodeToString(x.B)
	}
	return x.String()
}

func validBit(b bool) string {
	if b {
		return "1"
	}
	return "0"
}

func tf(b bool) string {
	if b {
		return "t"
	}
	return "f"
}

// fmtElem: a scalar or message element (singular field value, list element, map value).
func fmtElem(f *vschema.Field, v protoreflect.Value) string {
	if f.IsMsg {
		return "M" + validBit(v.Message().IsValid())
	}
	return scalarToken(f.Kind, v)
}

// fmtField: the value of Get(fd)/NewField(fd).
func fmtField(f *vschema.Field, v protoreflect.Value) string {
	switch f.Shape {
	case vschema.Repeated:
		l := v.List()
		return "L" + validBit(l.IsValid()) + ":" + strconv.Itoa(l.Len())
	case vschema.Map:
		m := v.Map()
		return "P" + validBit(m.IsValid()) + ":" + strconv.Itoa(m.Len())
	}
	return fmtElem(f, v)
}

// getterTokens renders a Get(fd) token in the tokens of the `getter` op (REFLECT_PROTOCOL.md): a Go slice /
// map has a length and no validity bit (`L<valid>:<len>` -> `L:<len>`, `P<valid>:<len>` -> `P:<len>`); scalar
// and message tokens (`M1` = non-nil pointer = valid message) are unchanged.
func getterTokens(tok string) string {
	if len(tok) >= 3 && (tok[0] == 'L' || tok[0] == 'P') && (tok[1] == '0' || tok[1] == '1') && tok[2] == ':' {
		return tok[:1] + tok[2:]
	}
	return tok
}

// fmtGetter: the Go value returned by a generated Get<Field>() method, in getter tokens.
func fmtGetter(f *vschema.Field, res reflect.Value) string {
	switch {
	case f.Shape == vschema.Repeated:
		return "L:" + strconv.Itoa(res.Len())
	case f.Shape == vschema.Map:
		return "P:" + strconv.Itoa(res.Len())
	case f.IsMsg:
		return "M" + validBit(!res.IsNil())
	}
	v := goScalarVal(res)
	if v == nil {
		panic("harness: getter returned an unexpected Go kind " + res.Kind().String())
	}
	if v.T == vval.Blob {
		return "s" + hex.EncodeToString(v.B)
	}
	return v.String()
}

// callGetter calls the generated plain-Go accessor Get<GoName>() of field j on the message behind m (a nil
// *T for an unpopulated message field reached by reads: the nil receiver).
func (x *rmach) callGetter(m protoreflect.Message, mi, j int, f *vschema.Field) string {
	name := ""
	if x.getters != nil && mi < len(x.getters) && j < len(x.getters[mi]) {
		name = x.getters[mi][j]
	}
	if name == "" {
		panic("harness: no generated getter known for message " + strconv.Itoa(mi) + " field " + strconv.Itoa(j))
	}
	meth := reflect.ValueOf(m.Interface()).MethodByName(name)
	if !meth.IsValid() {
		panic("harness: method " + name + " not found")
	}
	return fmtGetter(f, meth.Call(nil)[0])
}

// ---- one implementation under a history ---------------------------------------------------------

type rmach struct {
	name  string
	s     *vschema.Schema
	root  protoreflect.Message
	views map[string]interface{} // pathKey|j -> protoreflect.List / protoreflect.Map obtained from Mutable
	// variant toggles the constructor used for detached messages (NewField/NewElement/NewValue vs Type().New())
	variant int
	// getters: per message index, per field index the name of the generated Get<GoName> method ("" = unknown).
	// Set only on the machine running the generated code: there `getter j` calls the method; the reference
	// machines (dynamicpb, slow reflection) render Get(fd) in getter tokens.
	getters [][]string
}

func newMach(name string, s *vschema.Schema, root protoreflect.Message) *rmach {
	return &rmach{name: name, s: s, root: root, views: map[string]interface{}{}}
}

func fdOf(m protoreflect.Message, f *vschema.Field) protoreflect.FieldDescriptor {
	return m.Descriptor().Fields().ByNumber(protoreflect.FieldNumber(f.Num))
}

func oneofOf(m protoreflect.Message, sm *vschema.Msg, g int) protoreflect.OneofDescriptor {
	return m.Descriptor().Oneofs().ByName(protoreflect.Name(sm.OneofNames[g]))
}

// invalidate drops cached views below field j of the message at pathKey (and the view of the field
// itself when self), for j and for the other members of its oneof.
func (x *rmach) invalidate(pathKey string, mi, j int, self bool) {
	sm := &x.s.Msgs[mi]
	js := []int{j}
	if sm.Fields[j].Shape == vschema.Oneof {
		for k, f := range sm.Fields {
			if k != j && f.Shape == vschema.Oneof && f.Group == sm.Fields[j].Group {
				js = append(js, k)
			}
		}
	}
	for _, k := range js {
		ks := strconv.Itoa(k)
		if self {
			delete(x.views, pathKey+"|"+ks)
		}
		for _, pre := range []string{pathKey + "in " + ks + " ", pathKey + "at " + ks + " ", pathKey + "mv " + ks + " "} {
			for key := range x.views {
				if strings.HasPrefix(key, pre) {
					delete(x.views, key)
				}
			}
		}
	}
}

// resolve walks the path: reads for read-only ops, Mutable for writes.
func (x *rmach) resolve(path []rstep, write bool) (m protoreflect.Message, mi int, absent bool) {
	m, mi = x.root, 0
	for n, st := range path {
		f := &x.s.Msgs[mi].Fields[st.j]
		fd := fdOf(m, f)
		switch st.kind {
		case "in":
			if write {
				if f.Shape == vschema.Oneof {
					// switching the oneof member drops what the siblings held
					x.invalidate(pathString(path[:n]), mi, st.j, false)
				}
				m = m.Mutable(fd).Message()
			} else {
				m = m.Get(fd).Message()
			}
		case "at":
			if write {
				m = m.Mutable(fd).List().Get(st.i).Message()
			} else {
				m = m.Get(fd).List().Get(st.i).Message()
			}
		case "mv":
			k := keyOf(f.Key, st.key)
			if write {
				m = m.Mutable(fd).Map().Mutable(k).Message()
			} else {
				v := m.Get(fd).Map().Get(k)
				if !v.IsValid() {
					return nil, 0, true
				}
				m = v.Message()
			}
		}
		mi = f.Msg
	}
	return m, mi, false
}

func (x *rmach) listView(m protoreflect.Message, pathKey string, j int, fd protoreflect.FieldDescriptor) protoreflect.List {
	k := pathKey + "|" + strconv.Itoa(j)
	if v, ok := x.views[k]; ok {
		return v.(protoreflect.List)
	}
	l := m.Mutable(fd).List()
	x.views[k] = l
	return l
}

func (x *rmach) mapView(m protoreflect.Message, pathKey string, j int, fd protoreflect.FieldDescriptor) protoreflect.Map {
	k := pathKey + "|" + strconv.Itoa(j)
	if v, ok := x.views[k]; ok {
		return v.(protoreflect.Map)
	}
	mp := m.Mutable(fd).Map()
	x.views[k] = mp
	return mp
}

// ---- value construction with the implementation's own constructors --------------------------------

func (x *rmach) fresh(v protoreflect.Value) protoreflect.Value {
	if x.variant%2 == 1 {
		return protoreflect.ValueOfMessage(v.Message().Type().New())
	}
	return v
}

func (x *rmach) fill(m protoreflect.Message, mi int, v *vval.Val) {
	sm := &x.s.Msgs[mi]
	for j := range sm.Fields {
		if j >= len(v.Kids) {
			break
		}
		f := &sm.Fields[j]
		slot := v.Kids[j]
		fd := fdOf(m, f)
		switch f.Shape {
		case vschema.Singular:
			if f.IsMsg {
				if slot.T == vval.Msg {
					m.Set(fd, buildValue(x, m, f, fd, slot))
				}
			} else {
				m.Set(fd, scalarValue(f.Kind, slot))
			}
		case vschema.Repeated, vschema.Map:
			if len(slot.Kids) > 0 || slot.NonNil {
				m.Set(fd, buildValue(x, m, f, fd, slot))
			}
		case vschema.Oneof:
			if slot.T == vval.One {
				m.Set(fd, buildValue(x, m, f, fd, slot.Kids[0]))
			}
		}
	}
	if len(v.B) > 0 {
		m.SetUnknown(append(protoreflect.RawFields{}, v.B...))
	}
}

// buildValue builds the value to store into field fd of m (a detached composite or a scalar).
func buildValue(x *rmach, m protoreflect.Message, f *vschema.Field, fd protoreflect.FieldDescriptor, val *vval.Val) protoreflect.Value {
	switch f.Shape {
	case vschema.Repeated:
		if val.T == vval.List {
			if !val.NonNil && len(val.Kids) == 0 {
				return m.Get(fd) // misuse: the empty read-only view
			}
			nv := m.NewField(fd)
			l := nv.List()
			for _, e := range val.Kids {
				l.Append(x.elemValue(f, e, l.NewElement))
			}
			return nv
		}
	case vschema.Map:
		if val.T == vval.Map {
			if !val.NonNil && len(val.Kids) == 0 {
				return m.Get(fd)
			}
			nv := m.NewField(fd)
			mp := nv.Map()
			for _, e := range val.Kids {
				mp.Set(keyOf(f.Key, e.Kids[0]), x.elemValue(f, e.Kids[1], mp.NewValue))
			}
			return nv
		}
	}
	if f.IsMsg {
		nv := x.fresh(m.NewField(fd))
		x.fill(nv.Message(), f.Msg, val)
		return nv
	}
	return scalarValue(f.Kind, val)
}

// elemValue: a list element / map value built with the container's constructor.
func (x *rmach) elemValue(f *vschema.Field, val *vval.Val, mk func() protoreflect.Value) protoreflect.Value {
	if f.IsMsg {
		nv := x.fresh(mk())
		x.fill(nv.Message(), f.Msg, val)
		return nv
	}
	return scalarValue(f.Kind, val)
}

// ---- executing one op ------------------------------------------------------------------------------

func (x *rmach) exec(op *rop) (out string, pmsg string) {
	p, msg := guard(func() { out = x.exec1(op) })
	if p {
		return "panic", msg
	}
	return out, ""
}

func (x *rmach) exec1(op *rop) string {
	write := op.isWrite()
	m, mi, absent := x.resolve(op.path, write)
	if absent {
		return "absent"
	}
	sm := &x.s.Msgs[mi]
	pk := pathString(op.path)
	var f *vschema.Field
	var fd protoreflect.FieldDescriptor
	switch op.name {
	case "which", "range", "getu", "valid", "size", "enc", "setu", "reset":
	default:
		f = &sm.Fields[op.j]
		fd = fdOf(m, f)
	}
	switch op.name {
	case "has":
		return tf(m.Has(fd))
	case "get":
		return fmtField(f, m.Get(fd))
	case "getter":
		if x.getters != nil {
			return x.callGetter(m, mi, op.j, f)
		}
		return getterTokens(fmtField(f, m.Get(fd)))
	case "which":
		w := m.WhichOneof(oneofOf(m, sm, op.j))
		if w == nil {
			return "-"
		}
		for j := range sm.Fields {
			if sm.Fields[j].Num == int(w.Number()) {
				return strconv.Itoa(j)
			}
		}
		return "?" + string(w.Name())
	case "range":
		var idx []int
		m.Range(func(d protoreflect.FieldDescriptor, _ protoreflect.Value) bool {
			k := -1
			for j := range sm.Fields {
				if sm.Fields[j].Num == int(d.Number()) {
					k = j
				}
			}
			idx = append(idx, k)
			return true
		})
		sort.Ints(idx)
		ss := make([]string, len(idx))
		for i, k := range idx {
			ss[i] = strconv.Itoa(k)
		}
		return "[" + strings.Join(ss, ",") + "]"
	case "getu":
		return "u" + hex.EncodeToString(m.GetUnknown())
	case "valid":
		return tf(m.IsValid())
	case "llen":
		return strconv.Itoa(m.Get(fd).List().Len())
	case "lget":
		return fmtElem(f, m.Get(fd).List().Get(op.i))
	case "mlen":
		return strconv.Itoa(m.Get(fd).Map().Len())
	case "mhas":
		return tf(m.Get(fd).Map().Has(keyOf(f.Key, op.key)))
	case "mget":
		v := m.Get(fd).Map().Get(keyOf(f.Key, op.key))
		if !v.IsValid() {
			return "absent"
		}
		return fmtElem(f, v)
	case "mrange":
		var ks []*vval.Val
		m.Get(fd).Map().Range(func(k protoreflect.MapKey, _ protoreflect.Value) bool {
			ks = append(ks, vval.ScalarFromValue(f.Key, k.Value()))
			return true
		})
		sort.SliceStable(ks, func(a, b int) bool { return vval.KeyLess(f.Key, ks[a], ks[b]) })
		ss := make([]string, len(ks))
		for i, k := range ks {
			ss[i] = k.String()
		}
		return "[" + strings.Join(ss, ",") + "]"
	case "size":
		return strconv.Itoa(proto.Size(m.Interface()))
	case "enc":
		b, err := proto.MarshalOptions{Deterministic: true}.Marshal(m.Interface())
		if err != nil {
			return "err"
		}
		return "x" + hex.EncodeToString(b)

	// ---- writes
	case "set":
		x.invalidate(pk, mi, op.j, true)
		m.Set(fd, buildValue(x, m, f, fd, op.val))
		return "ok"
	case "clear":
		x.invalidate(pk, mi, op.j, true)
		m.Clear(fd)
		return "ok"
	case "mut", "mutset":
		if f.Shape == vschema.Oneof {
			x.invalidate(pk, mi, op.j, false)
		}
		v := m.Mutable(fd)
		k := pk + "|" + strconv.Itoa(op.j)
		if _, ok := x.views[k]; !ok {
			switch f.Shape {
			case vschema.Repeated:
				x.views[k] = v.List()
			case vschema.Map:
				x.views[k] = v.Map()
			}
		}
		if op.name == "mutset" {
			// store the field's own mutable view back: an identity (the view aliases the field), and the
			// retained view keeps writing through afterwards
			m.Set(fd, v)
		}
		return "ok"
	case "newf":
		return fmtField(f, m.NewField(fd))
	case "setu":
		m.SetUnknown(append(protoreflect.RawFields{}, op.raw...))
		return "ok"
	case "lset":
		x.invalidate(pk, mi, op.j, false)
		l := x.listView(m, pk, op.j, fd)
		l.Set(op.i, x.elemValue(f, op.val, l.NewElement))
		return "ok"
	case "lapp":
		l := x.listView(m, pk, op.j, fd)
		l.Append(x.elemValue(f, op.val, l.NewElement))
		return "ok"
	case "lappm":
		l := x.listView(m, pk, op.j, fd)
		l.AppendMutable()
		return "ok"
	case "ltrunc":
		x.invalidate(pk, mi, op.j, false)
		x.listView(m, pk, op.j, fd).Truncate(op.i)
		return "ok"
	case "mset":
		x.invalidate(pk, mi, op.j, false)
		mp := x.mapView(m, pk, op.j, fd)
		mp.Set(keyOf(f.Key, op.key), x.elemValue(f, op.val, mp.NewValue))
		return "ok"
	case "mclr":
		x.invalidate(pk, mi, op.j, false)
		x.mapView(m, pk, op.j, fd).Clear(keyOf(f.Key, op.key))
		return "ok"
	case "mmut":
		x.mapView(m, pk, op.j, fd).Mutable(keyOf(f.Key, op.key))
		return "ok"
	case "reset":
		x.views = map[string]interface{}{}
		proto.Reset(m.Interface())
		return "ok"
	}
	panic("harness: unknown op " + op.name)
}
