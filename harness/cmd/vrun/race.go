package main

import (
	"google.golang.org/protobuf/runtime/protoiface"
	"fmt"
	"sync"

	"github.com/cosmos/cosmos-proto/internal/verifh/vschema"
	"github.com/cosmos/cosmos-proto/internal/verifh/vval"
	"google.golang.org/protobuf/encoding/protojson"
	"google.golang.org/protobuf/proto"
	"google.golang.org/protobuf/reflect/protoreflect"
)

func init() { engines["race"] = runRace }

// raceReadOps: the read-only operation set of C11, returning a digest of everything observed.
func raceReadOps(t *Target, msg proto.Message, other proto.Message, order int) string {
	var d string
	ops := []func(){
		func() { d += fmt.Sprint("size:", proto.Size(msg), ";") },
		func() {
			b, err := proto.MarshalOptions{Deterministic: true}.Marshal(msg)
			d += fmt.Sprintf("det:%x:%v;", b, err)
		},
		func() {
			b, err := proto.Marshal(msg)
			d += fmt.Sprintf("ndlen:%d:%v;", len(b), err)
		},
		func() {
			m := msg.ProtoReflect()
			fds := m.Descriptor().Fields()
			for i := 0; i < fds.Len(); i++ {
				fd := fds.Get(i)
				d += fmt.Sprint(m.Has(fd))
				v := m.Get(fd)
				switch {
				case fd.IsList():
					d += fmt.Sprint(v.List().Len())
				case fd.IsMap():
					d += fmt.Sprint(v.Map().Len())
				case fd.Message() != nil:
					d += fmt.Sprint(v.Message().IsValid())
				default:
					d += fmt.Sprintf("%v", v.Interface())
				}
			}
			ods := m.Descriptor().Oneofs()
			for i := 0; i < ods.Len(); i++ {
				if w := m.WhichOneof(ods.Get(i)); w != nil {
					d += string(w.Name())
				}
			}
			d += ";"
		},
		func() {
			n := 0
			msg.ProtoReflect().Range(func(fd protoreflect.FieldDescriptor, v protoreflect.Value) bool { n++; return true })
			d += fmt.Sprint("range:", n, ";")
		},
		func() { d += fmt.Sprint("eq:", proto.Equal(msg, other), ";") },
		func() {
			c := proto.Clone(msg)
			d += fmt.Sprint("clone:", proto.Size(c), ";")
		},
		func() {
			b, err := protojson.Marshal(msg)
			_ = b
			d += fmt.Sprint("json:", err == nil, ";")
		},
	}
	n := len(ops)
	outs := make([]string, n)
	for k := 0; k < n; k++ {
		i := (k*7 + order) % n // a different op order per goroutine (7 is coprime to 8)
		d = ""
		ops[i]()
		outs[i] = d
	}
	r := ""
	for _, o := range outs {
		r += o
	}
	return r
}

// C11: concurrent readers of a shared message. Built with -race by the check; a race report is
// written to $GORACE log_path and turned into a violation by the check script.
const gorBig = 8

func runRace(cfg *Cfg) {
	out := newOut(cfg.Out, "race")
	defer out.Close()
	out.res.Rule = "N goroutines perform the read-only operation set (Size, Marshal det/non-det, Has/Get of every field, WhichOneof, Range, Equal, Clone-from, JSON marshal) in different orders on one shared message of every generated type (incl. types embedding Any/Timestamp/Duration/FieldMask and messages just decoded from the wire), under the race detector; each goroutine's observations must equal the sequential ones"
	targets := loadTargets()
	// cold start: the FIRST codec / reflection calls of every message type in this process happen in several
	// unsynchronised goroutines at once (each on its own fresh message): anything initialised lazily per type
	// on a read path without synchronisation races here and nowhere else
	{
		var wg sync.WaitGroup
		for _, t := range targets {
			for g := 0; g < 4; g++ {
				wg.Add(1)
				go func(t *Target, g int) {
					defer wg.Done()
					guard(func() {
						m := t.Info.Proto.ProtoReflect().New().Interface()
						switch g % 4 {
						case 0:
							_ = proto.Size(m)
						case 1:
							_, _ = proto.Marshal(m)
						case 2:
							_ = proto.Unmarshal(nil, m)
						default:
							m.ProtoReflect().Range(func(protoreflect.FieldDescriptor, protoreflect.Value) bool { return true })
							_ = proto.Size(m)
						}
					})
				}(t, g)
			}
		}
		wg.Wait()
		out.res.Stats["cold_start_types"] = len(targets)
	}
	// large messages (encoded size beyond 64 KiB and beyond 1 MiB): buffers recycled between calls, or handed
	// out while still owned by a pool, only show with big encodings and overlapping Marshal calls
	bigTargets := 0
	for _, t := range targets {
		if bigTargets >= 6 && cfg.Tier != "thorough" {
			break
		}
		bj := -1
		for j, f := range t.S.Msgs[0].Fields {
			if !f.IsMsg && f.Shape == vschema.Singular && (f.Kind == vschema.Bytes || f.Kind == vschema.String) {
				bj = j
				break
			}
		}
		if bj < 0 {
			continue
		}
		bigTargets++
		for _, size := range []int{96 << 10, (1 << 20) + 4096} {
			var msgs []proto.Message
			var want [][]byte
			for k := 0; k < 2; k++ {
				v := vval.Empty(t.S, 0)
				blob := make([]byte, size+k*37)
				for i := range blob {
					blob[i] = byte('a' + (i+k)%23)
				}
				v.Kids[bj] = vval.VBlob(true, blob)
				m := t.B.ToMessage(0, v)
				b, err := proto.MarshalOptions{Deterministic: true}.Marshal(m)
				if err != nil {
					continue
				}
				msgs, want = append(msgs, m), append(want, append([]byte(nil), b...))
			}
			if len(msgs) < 2 {
				continue
			}
			var wg sync.WaitGroup
			var mu sync.Mutex
			bad := 0
			for g := 0; g < gorBig; g++ {
				wg.Add(1)
				go func(g int) {
					defer wg.Done()
					for it := 0; it < 6; it++ {
						k := (g + it) % 2
						b, err := proto.MarshalOptions{Deterministic: it%2 == 0}.Marshal(msgs[k])
						sz := proto.Size(msgs[k])
						ok := err == nil && sz == len(want[k]) && string(b) == string(want[k])
						if !ok {
							mu.Lock()
							bad++
							mu.Unlock()
						}
					}
				}(g)
			}
			wg.Wait()
			out.Case(fmt.Sprintf("race-big:%s:%d", t.Full, size), true)
			out.Count("race_big_message_cases")
			if bad > 0 {
				out.Violate("C11", "concurrent-read-differs", fmt.Sprintf("%d concurrent Marshal/Size calls on two large shared messages (%d bytes) returned something else than the sequential result", bad, size),
					fmt.Sprintf("race-big %s field index %d size %d", t.Full, bj, size))
			}
		}
	}
	// ONE protoiface.Methods value (a single ProtoMethods() call) shared by goroutines that call its Size and Marshal
	// functions directly, with and without the UseCachedSize flag, on two messages of different encoded sizes: the
	// functions of a methods value are as reentrant as the proto API built on them (protobuf-go keeps one methods value
	// per message type for its own generated code), so nothing may be carried from a Size call to a Marshal call
	{
		rr := vschema.NewRand(cfg.Seed + 23)
		shared := 0
		for _, t := range targets {
			if shared >= 10 && cfg.Tier != "thorough" {
				break
			}
			var msgs []proto.Message
			var want [][]byte
			for k := 0; k < 24 && len(msgs) < 2; k++ {
				v := (&vval.GenOpts{MaxDepth: 2, EnumNums: enumNums(t), BigBlobs: k%2 == 1}).Message(rr, t.S, 0, 0)
				m := t.B.ToMessage(0, v)
				b, err := proto.MarshalOptions{Deterministic: true}.Marshal(m)
				if err != nil || (len(msgs) == 1 && len(b) == len(want[0])) {
					continue
				}
				msgs, want = append(msgs, m), append(want, append([]byte(nil), b...))
			}
			if len(msgs) < 2 {
				continue
			}
			meth := protoMethodsOf(msgs[0])
			if meth == nil || meth.Size == nil || meth.Marshal == nil {
				continue
			}
			shared++
			var wg sync.WaitGroup
			var mu sync.Mutex
			bad, pan := 0, ""
			for g := 0; g < 8; g++ {
				wg.Add(1)
				go func(g int) {
					defer wg.Done()
					defer func() {
						if e := recover(); e != nil {
							mu.Lock()
							pan = fmt.Sprint(e)
							mu.Unlock()
						}
					}()
					for it := 0; it < 200; it++ {
						k := (g + it) % 2
						var flags uint8 = 1 // MarshalDeterministic
						if it%3 != 0 {
							flags |= 2 // MarshalUseCachedSize
						}
						so := meth.Size(protoiface.SizeInput{Message: msgs[k].ProtoReflect(), Flags: flags})
						mo, err := meth.Marshal(protoiface.MarshalInput{Message: msgs[k].ProtoReflect(), Flags: flags})
						if err != nil || so.Size != len(want[k]) || string(mo.Buf) != string(want[k]) {
							mu.Lock()
							bad++
							mu.Unlock()
						}
					}
				}(g)
			}
			wg.Wait()
			out.Case("race-shared-methods:"+t.Full, true)
			out.Count("race_shared_methods_types")
			replay := "race-shared-methods " + t.Full + ": one ProtoMethods() value, 8 goroutines, Size then Marshal (UseCachedSize in two of three rounds) on two messages of different sizes"
			if pan != "" {
				out.Violate("C11", "concurrent-read-panics", "Size/Marshal of one shared methods value panicked when called concurrently: "+firstLine(pan), replay)
			} else if bad > 0 {
				out.Violate("C11", "concurrent-read-differs", fmt.Sprintf("%d concurrent Size/Marshal calls through one shared methods value returned something else than the sequential result", bad), replay)
			}
		}
	}
	r := vschema.NewRand(cfg.Seed + 11)
	vals := 6
	gor := 8
	if cfg.Tier == "thorough" {
		vals, gor = 60, 16
	}
	for _, t := range targets {
		out.res.Programs++
		for c := 0; c < vals; c++ {
			// incl. the Go-only degenerate states (nil elements, typed-nil oneof wrappers): reads must
			// not "normalise" them either
			g := &vval.GenOpts{MaxDepth: 3, Unknown: r.Bool(), EnumNums: enumNums(t), BigMaps: r.Chance(30), NilJunk: c%3 == 2}
			v := g.Message(r, t.S, 0, 0)
			if c%3 == 2 {
				// every oneof of the root holds a typed-nil wrapper: reads must treat it as unset
				// without rewriting it
				seenG := map[int]bool{}
				for j, f := range t.S.Msgs[0].Fields {
					if f.Shape == vschema.Oneof && j < len(v.Kids) {
						if !seenG[f.Group] {
							seenG[f.Group] = true
							v.Kids[j] = vval.VOneNil()
						} else {
							v.Kids[j] = vval.VNone()
						}
					}
				}
			}
			msg := t.B.ToMessage(0, v)
			twin := t.B.ToMessage(0, v) // identical, unshared: the sequential baseline never touches `msg`
			if c%2 == 1 { // a message fresh from the decoder
				b, err := proto.Marshal(msg)
				fresh := t.B.ToMessage(0, vval.Empty(t.S, 0))
				fresh2 := t.B.ToMessage(0, vval.Empty(t.S, 0))
				if err == nil && proto.Unmarshal(b, fresh) == nil && proto.Unmarshal(b, fresh2) == nil {
					msg, twin = fresh, fresh2
				}
			}
			other := proto.Clone(twin)
			replay := "race " + t.Full + " " + v.String()
			out.Case(replay, true)
			if c == 0 && len(out.res.Samples) < 3 {
				out.Sample(replay)
			}
			var want string
			if p, pm := guard(func() { want = raceReadOps(t, twin, other, 0) }); p {
				out.Violate("C11", "sequential-panic", "read-only ops panicked sequentially: "+firstLine(pm), replay)
				continue
			}
			got := make([]string, gor)
			pan := make([]string, gor)
			var wg sync.WaitGroup
			start := make(chan struct{})
			for k := 0; k < gor; k++ {
				wg.Add(1)
				go func(k int) {
					defer wg.Done()
					defer func() {
						if e := recover(); e != nil {
							pan[k] = fmt.Sprint(e)
						}
					}()
					<-start
					for rep := 0; rep < 3; rep++ {
						got[k] = raceReadOps(t, msg, other, k)
					}
				}(k)
			}
			close(start)
			wg.Wait()
			if after := vval.Canon(t.S, 0, t.B.FromMessage(0, msg)).String(); after != vval.Canon(t.S, 0, t.B.FromMessage(0, twin)).String() {
				out.Violate("C11", "readers-changed-struct", "concurrent read-only operations changed the Go struct of the shared message", replay)
			}
			for k := 0; k < gor; k++ {
				if pan[k] != "" {
					out.Violate("C11", "concurrent-panic", "a concurrent reader panicked: "+firstLine(pan[k]), replay)
					break
				}
				if got[k] != want {
					out.Violate("C11", "concurrent-result-differs", "a concurrent reader observed different results than the sequential reader", replay)
					break
				}
			}
		}
	}
}


// protoMethodsOf: the fast-path method table of a generated message (nil when it has none).
func protoMethodsOf(m proto.Message) *protoiface.Methods {
	type hasMethods interface{ ProtoMethods() *protoiface.Methods }
	if h, ok := m.ProtoReflect().(hasMethods); ok {
		return h.ProtoMethods()
	}
	return nil
}
