package main

import (
	"bytes"
	"encoding/hex"
	"fmt"
	"strings"

	cosmos_proto "github.com/cosmos/cosmos-proto"
	"github.com/cosmos/cosmos-proto/anyutil"
	"github.com/cosmos/cosmos-proto/internal/verifh/vschema"
	"github.com/cosmos/cosmos-proto/internal/verifh/vval"
	"google.golang.org/protobuf/proto"
	"google.golang.org/protobuf/reflect/protodesc"
	"google.golang.org/protobuf/reflect/protoreflect"
	"google.golang.org/protobuf/reflect/protoregistry"
	"google.golang.org/protobuf/types/descriptorpb"
	"google.golang.org/protobuf/types/dynamicpb"
	"google.golang.org/protobuf/types/known/anypb"
)

func init() { engines["anyutil"] = runAnyutil }

// stub resolvers with scripted answers (m:<name> | n | nf | oe)
type stubTypes struct{ ans string }

func (s stubTypes) FindMessageByName(n protoreflect.FullName) (protoreflect.MessageType, error) {
	return s.FindMessageByURL(string(n))
}
func (s stubTypes) FindMessageByURL(url string) (protoreflect.MessageType, error) {
	switch {
	case strings.HasPrefix(s.ans, "m:"):
		return protoregistry.GlobalTypes.FindMessageByName(protoreflect.FullName(s.ans[2:]))
	case s.ans == "nf":
		return nil, protoregistry.NotFound
	}
	return nil, fmt.Errorf("scripted resolver error")
}

type stubFiles struct{ ans string }

func (s stubFiles) FindFileByPath(p string) (protoreflect.FileDescriptor, error) {
	return protoregistry.GlobalFiles.FindFileByPath(p)
}
func (s stubFiles) FindDescriptorByName(n protoreflect.FullName) (protoreflect.Descriptor, error) {
	switch {
	case strings.HasPrefix(s.ans, "m:"):
		return protoregistry.GlobalFiles.FindDescriptorByName(protoreflect.FullName(s.ans[2:]))
	case s.ans == "n":
		// some enum descriptor
		return protoregistry.GlobalFiles.FindDescriptorByName("google.protobuf.FieldDescriptorProto.Type")
	case strings.HasPrefix(s.ans, "n:"):
		// a non-message descriptor of another kind: field, oneof, enum value, (service, method when registered)
		return nonMessageDescriptor(s.ans[2:]), nil
	case s.ans == "nf":
		return nil, protoregistry.NotFound
	}
	return nil, fmt.Errorf("scripted resolver error")
}

// nonMessageDescriptor returns a registered descriptor of the given kind (nil-safe: falls back to an enum).
func nonMessageDescriptor(kind string) protoreflect.Descriptor {
	var found protoreflect.Descriptor
	protoregistry.GlobalFiles.RangeFiles(func(fd protoreflect.FileDescriptor) bool {
		switch kind {
		case "service":
			if fd.Services().Len() > 0 {
				found = fd.Services().Get(0)
			}
		case "method":
			if fd.Services().Len() > 0 && fd.Services().Get(0).Methods().Len() > 0 {
				found = fd.Services().Get(0).Methods().Get(0)
			}
		case "enumvalue":
			if fd.Enums().Len() > 0 {
				found = fd.Enums().Get(0).Values().Get(0)
			}
		default:
			for i := 0; i < fd.Messages().Len() && found == nil; i++ {
				md := fd.Messages().Get(i)
				if kind == "field" && md.Fields().Len() > 0 {
					found = md.Fields().Get(0)
				}
				if kind == "oneof" && md.Oneofs().Len() > 0 {
					found = md.Oneofs().Get(0)
				}
			}
		}
		return found == nil
	})
	if found == nil {
		found, _ = protoregistry.GlobalFiles.FindDescriptorByName("google.protobuf.FieldDescriptorProto.Type")
	}
	return found
}

func runAnyutil(cfg *Cfg) {
	out := newOut(cfg.Out, "anyutil")
	defer out.Close()
	out.res.Programs = 1
	out.res.Rule = "pack/unpack of random values of every registered generated message type through the global type registry, an empty type registry (file-registry + dynamicpb path) and both; scripted resolver answers (message / non-message descriptor / NotFound / other error) x URL shapes (bare, host-prefixed, enum, service, garbage, empty) x value bytes (valid, corrupt); MarshalFrom failure cases"
	r := vschema.NewRand(cfg.Seed + 5)
	targets := loadTargets()
	n := 40
	if cfg.Tier == "thorough" {
		n = 1500
	}
	emptyTypes := new(protoregistry.Types)
	for _, t := range targets {
		for c := 0; c < n; c++ {
			g := &vval.GenOpts{MaxDepth: 2, Unknown: r.Bool(), EnumNums: enumNums(t)}
			v := g.Message(r, t.S, 0, 0)
			msg := t.B.ToMessage(0, v)
			out.Case("pack"+t.Full+v.String(), true)
			opts := proto.MarshalOptions{Deterministic: r.Bool()}
			// what the destination holds before: something unrelated, or the SAME type under another spelling of
			// its URL (host-prefixed as anypb.New writes it, longer prefix, bare name): a successful pack must
			// leave exactly "/" + full name
			before := []string{"old", "type.googleapis.com/" + t.Full, "example.org/x/" + t.Full, t.Full, "/" + t.Full, ""}[c%6]
			dst := &anypb.Any{TypeUrl: before, Value: []byte("old")}
			var err error
			p, pm := guard(func() { err = anyutil.MarshalFrom(dst, msg, opts) })
			replay := "anypack " + t.Full + " dst.TypeUrl=" + before + " " + v.String()
			if p {
				out.Violate("C16", "pack-panic", "MarshalFrom panicked: "+pm, replay)
				continue
			}
			want, werr := opts.Marshal(msg)
			if (err != nil) != (werr != nil) {
				out.Violate("C16", "pack-error", fmt.Sprintf("MarshalFrom err=%v, Marshal err=%v", err, werr), replay)
				continue
			}
			if err != nil {
				if dst.TypeUrl != before || string(dst.Value) != "old" {
					out.Violate("C16", "pack-failure-touches-dst", "failed pack modified the destination", replay)
				}
				continue
			}
			if dst.TypeUrl != "/"+t.Full {
				out.Violate("C16", "pack-url", "type URL "+dst.TypeUrl+" want /"+t.Full, replay)
			}
			if !opts.Deterministic {
				// value must decode to the same message
				chk := t.B.ToMessage(0, vval.Empty(t.S, 0))
				if e := proto.Unmarshal(dst.Value, chk); e != nil || vval.RepNorm(t.S, 0, t.B.FromMessage(0, chk)).String() != vval.RepNorm(t.S, 0, vval.Normalize(t.S, 0, v)).String() {
					out.Violate("C16", "pack-value", "packed value does not decode to the message", replay)
				}
			} else if !bytes.Equal(dst.Value, want) {
				out.Violate("C16", "pack-value", "packed value differs from opts.Marshal", replay)
			}
			// unpack through the type registry, through the file registry, compare
			var m1, m2 proto.Message
			var e1, e2 error
			p1, pm1 := guard(func() { m1, e1 = anyutil.Unpack(dst, nil, nil) })
			p2, pm2 := guard(func() { m2, e2 = anyutil.Unpack(dst, nil, emptyTypes) })
			if p1 || p2 {
				out.Violate("C16", "unpack-panic", "Unpack panicked: "+pm1+pm2, replay)
				continue
			}
			if e1 != nil || e2 != nil {
				out.Violate("C16", "unpack-roundtrip-error", fmt.Sprintf("Unpack of a packed message failed: %v / %v", e1, e2), replay)
				continue
			}
			if _, isDyn := m2.(*dynamicpb.Message); !isDyn {
				out.Violate("C16", "unpack-files-not-dynamic", "file-registry path did not produce a dynamic message", replay)
			}
			// re-pack what the file-registry path returned (a dynamic message: every *dynamicpb.Message has the
			// same Go type whatever its descriptor): URL and value must still be those of this message type
			{
				re := &anypb.Any{}
				var rerr error
				if rp, rpm := guard(func() { rerr = anyutil.MarshalFrom(re, m2, proto.MarshalOptions{Deterministic: true}) }); rp || rerr != nil {
					out.Violate("C16", "repack-dynamic", fmt.Sprintf("MarshalFrom of the unpacked dynamic message failed: %v %s", rerr, rpm), replay)
				} else {
					if re.TypeUrl != "/"+t.Full {
						out.Violate("C16", "pack-url", "re-packed dynamic message: type URL "+re.TypeUrl+" want /"+t.Full, replay)
					}
					back := dynamicpb.NewMessage(t.Desc)
					b1, _ := proto.MarshalOptions{Deterministic: true}.Marshal(m2)
					// (bytes, not proto.Equal: NaN values are never Equal)
					if proto.Unmarshal(re.Value, back) != nil || !bytes.Equal(re.Value, b1) {
						out.Violate("C16", "pack-value", "re-packed dynamic message does not decode to the message", replay)
					}
				}
			}
			if fmt.Sprintf("%T", m1) != fmt.Sprintf("%T", msg) {
				out.Violate("C16", "unpack-type", fmt.Sprintf("type registry path produced %T", m1), replay)
			}
			w := vval.RepNorm(t.S, 0, vval.Normalize(t.S, 0, v)).String()
			if hasSNaN32(t.S, 0, v) {
				continue
			}
			if a := vval.FromReflect(t.S, 0, m2.ProtoReflect()).String(); a != w {
				out.Violate("C16", "unpack-files-value", "file-registry path value differs", replay)
			}
			if a := vval.RepNorm(t.S, 0, t.B.FromMessage(0, m1)).String(); a != w {
				out.Violate("C16", "unpack-types-value", "type-registry path value differs", replay)
			}
		}
	}
	// failed pack of a source whose marshalling fails AFTER bytes were written (invalid UTF-8 in a
	// protoc-gen-go / dynamicpb message): the destination, including the content of its Value, stays
	failing := []proto.Message{
		&anypb.Any{TypeUrl: "\xff", Value: bytes.Repeat([]byte{7}, 40)},
		&anypb.Any{TypeUrl: "ok/then/\xc0\xaf", Value: []byte{1, 2, 3}},
	}
	if len(targets) > 0 {
		// a dynamicpb copy of a generated type with an invalid string, when the type has a string field
		for _, t := range targets {
			fds := t.Desc.Fields()
			done := false
			for i := 0; i < fds.Len() && !done; i++ {
				fd := fds.Get(i)
				if fd.Kind() == protoreflect.StringKind && fd.Cardinality() != protoreflect.Repeated && !fd.IsMap() {
					d := dynamicpb.NewMessage(t.Desc)
					d.Set(fd, protoreflect.ValueOfString("bad\xffutf8"))
					failing = append(failing, d)
					done = true
				}
			}
			if len(failing) > 8 {
				break
			}
		}
	}
	for _, src := range failing {
		for _, capExtra := range []int{0, 16, 4096} {
			val := make([]byte, 24, 24+capExtra)
			for i := range val {
				val[i] = byte(0xC0 + i)
			}
			dst := &anypb.Any{TypeUrl: "/keep.Me", Value: val}
			before := append([]byte(nil), val...)
			var err error
			p, pm := guard(func() { err = anyutil.MarshalFrom(dst, src, proto.MarshalOptions{}) })
			out.Case(fmt.Sprintf("failpack:%T:%d", src, capExtra), true)
			rp := fmt.Sprintf("anypack-failing src=%T dstcap=+%d", src, capExtra)
			if p {
				out.Violate("C16", "pack-panic", "MarshalFrom panicked: "+pm, rp)
				continue
			}
			if err == nil {
				out.Count("failing_source_did_not_fail")
				continue
			}
			if dst.TypeUrl != "/keep.Me" || !bytes.Equal(dst.Value, before) || !bytes.Equal(val[:24], before) {
				out.Violate("C16", "pack-failure-touches-dst", "a failed pack modified the destination (type URL or the bytes of its Value)", rp)
			}
		}
	}
	// nil source
	{
		dst := &anypb.Any{TypeUrl: "old"}
		var err error
		p, _ := guard(func() { err = anyutil.MarshalFrom(dst, nil, proto.MarshalOptions{}) })
		if p || err == nil || dst.TypeUrl != "old" {
			out.Violate("C16", "pack-nil", "MarshalFrom(nil) must fail without touching dst", "anypack nil")
		}
		if a, err := anyutil.New(nil); err == nil || a != nil {
			out.Violate("C16", "pack-nil", "New(nil) must fail", "anypack nil")
		}
	}
	// scripted resolver matrix + URL shapes, with model lines
	some := targets[0].Full
	urls := []string{"/" + some, some, "type.googleapis.com/" + some, "/", "", "/nothing.Here", "//" + some, "/google.protobuf.FieldDescriptorProto.Type",
		"/google.protobuf.FieldDescriptorProto", "garbage/with/slashes", "/" + some + "/", "\x00", "/testpb.Enumeration", "/goproto.proto.test3.ForeignEnum"}
	answersT := []string{"m:" + some, "m:google.protobuf.FieldDescriptorProto", "nf", "oe"}
	answersF := []string{"m:" + some, "m:google.protobuf.FieldDescriptorProto", "n", "n:field", "n:oneof", "n:enumvalue", "n:service", "n:method", "nf", "oe"}
	goodVal, _ := proto.Marshal(targets[0].B.ToMessage(0, vval.Empty(targets[0].S, 0)))
	for _, u := range urls {
		for _, at := range answersT {
			for _, af := range answersF {
				for _, val := range [][]byte{goodVal, {0xff, 0xff}} {
					any := &anypb.Any{TypeUrl: u, Value: val}
					var m proto.Message
					var err error
					line := fmt.Sprintf("anyunpack x%s %s %s %s", hex.EncodeToString([]byte(u)), scriptAns(at), scriptAns(af), map[bool]string{true: "ok", false: "err"}[len(val) != 2])
					out.Case(line, true)
					p, pm := guard(func() { m, err = anyutil.Unpack(any, stubFiles{af}, stubTypes{at}) })
					exp := "err"
					if p {
						exp = "panic"
						out.Violate("C16", "unpack-panic", "Unpack panicked: "+pm, line)
					} else if err == nil {
						_, dyn := m.(*dynamicpb.Message)
						exp = "ok " + string(m.ProtoReflect().Descriptor().FullName()) + map[bool]string{true: " dyn", false: " go"}[dyn]
					}
					out.Line("C16", line, exp)
				}
			}
		}
	}
	// real registries with URLs naming enums / services / fields / oneofs / enum values / nothing
	realURLs := append([]string{}, urls...)
	for _, k := range []string{"field", "oneof", "enumvalue", "service", "method"} {
		realURLs = append(realURLs, "/"+string(nonMessageDescriptor(k).FullName()))
	}
	for _, t := range targets {
		if t.Desc.Fields().Len() > 0 {
			realURLs = append(realURLs, "/"+string(t.Desc.Fields().Get(0).FullName()))
		}
		if t.Desc.Oneofs().Len() > 0 {
			realURLs = append(realURLs, "/"+string(t.Desc.Oneofs().Get(0).FullName()))
		}
	}
	for _, u := range realURLs {
		for _, tr := range []protoregistry.MessageTypeResolver{nil, emptyTypes} {
			any := &anypb.Any{TypeUrl: u}
			p, pm := guard(func() { _, _ = anyutil.Unpack(any, nil, tr) })
			out.Case("real"+u, true)
			if p {
				out.Violate("C16", "unpack-panic", "Unpack panicked with real registries: "+pm, "anyunpack-real "+u)
			}
		}
	}
	retainedPass(out, targets)
	resolverHistoryPass(out, targets, r)
	extensionPass(out)
	out.Sample("anyunpack x" + hex.EncodeToString([]byte(urls[0])) + " m:… nf ok")
}

// retainedPass: a packed Any must keep its value whatever is packed afterwards. Messages whose encoding has
// EXACTLY a size at which buffers are typically dimensioned (powers of two and their neighbours) are packed one after
// the other through New and MarshalFrom; every Any is kept and checked again at the end (a pack that hands out a
// pooled or reused buffer is overwritten by a later one).
func retainedPass(out *Out, targets []*Target) {
	type kept struct {
		any  *anypb.Any
		want []byte
		what string
	}
	var all []kept
	sizes := []int{63, 64, 65, 127, 128, 129, 255, 256, 257, 511, 512, 513, 1023, 1024, 1025, 2047, 2048, 2049, 4095, 4096, 4097, 8191, 8192, 8193}
	done := 0
	for _, t := range targets {
		// a singular string or bytes field of the root message to stretch
		var fd protoreflect.FieldDescriptor
		for i := 0; i < t.Desc.Fields().Len(); i++ {
			f := t.Desc.Fields().Get(i)
			if f.Cardinality() != protoreflect.Repeated && f.ContainingOneof() == nil && (f.Kind() == protoreflect.StringKind || f.Kind() == protoreflect.BytesKind) {
				fd = f
				break
			}
		}
		if fd == nil {
			continue
		}
		if done++; done > 4 {
			break
		}
		for _, sz := range sizes {
			msg := t.B.ToMessage(0, vval.Empty(t.S, 0))
			set := func(n int) {
				if n < 0 {
					n = 0
				}
				b := bytes.Repeat([]byte{byte('a' + sz%26)}, n)
				if fd.Kind() == protoreflect.StringKind {
					msg.ProtoReflect().Set(fd, protoreflect.ValueOfString(string(b)))
				} else {
					msg.ProtoReflect().Set(fd, protoreflect.ValueOfBytes(b))
				}
			}
			n := sz
			for it := 0; it < 6; it++ { // adjust the payload until the whole encoding has the wanted size
				set(n)
				d := proto.Size(msg) - sz
				if d == 0 {
					break
				}
				n -= d
			}
			if proto.Size(msg) != sz {
				continue
			}
			want, _ := proto.MarshalOptions{Deterministic: true}.Marshal(msg)
			var a *anypb.Any
			var err error
			if len(all)%2 == 0 {
				a, err = anyutil.New(msg)
			} else {
				a = &anypb.Any{}
				err = anyutil.MarshalFrom(a, msg, proto.MarshalOptions{Deterministic: true})
			}
			out.Case(fmt.Sprintf("retained:%s:%d", t.Full, sz), true)
			out.Count("retained_any_cases")
			if err != nil {
				continue
			}
			all = append(all, kept{a, want, fmt.Sprintf("%s with an encoding of exactly %d bytes (pack number %d)", t.Full, sz, len(all))})
		}
	}
	for i, k := range all {
		if !bytes.Equal(k.any.Value, k.want) {
			out.Violate("C16", "packed-value-changed-later", fmt.Sprintf("the value of an Any packed earlier (%s) changed while %d later messages were packed", k.what, len(all)-1-i), "anyretained "+k.what)
			continue
		}
		if m, err := anyutil.Unpack(k.any, nil, nil); err != nil || proto.Size(m) != len(k.want) {
			out.Violate("C16", "unpack-roundtrip-error", fmt.Sprintf("an Any packed earlier (%s) no longer unpacks to its message: %v", k.what, err), "anyretained "+k.what)
		}
	}
}

// extensionPass: messages of another generator (descriptor.proto options) carrying EXTENSION fields, packed and
// unpacked under every resolver configuration. How the payload is decoded must not depend on the resolver that is
// only there to find the message TYPE: the result must equal what proto.Unmarshal gives for the same bytes
// (extension known to the global registry: a populated extension field, never unknown bytes), on the type-registry
// path and on the file-registry + dynamicpb path, and the two paths must agree.
func extensionPass(out *Out) {
	fo := &descriptorpb.FieldOptions{Deprecated: proto.Bool(true)}
	proto.SetExtension(fo, cosmos_proto.E_Scalar, "cosmos.Int")
	proto.SetExtension(fo, cosmos_proto.E_AcceptsInterface, "cosmos.Msg")
	mo := &descriptorpb.MessageOptions{}
	proto.SetExtension(mo, cosmos_proto.E_ImplementsInterface, []string{"a.B", "c.D"})
	fl := &descriptorpb.FileOptions{GoPackage: proto.String("x/y")}
	proto.SetExtension(fl, cosmos_proto.E_DeclareScalar, []*cosmos_proto.ScalarDescriptor{{Name: "cosmos.Int", Description: "d"}})
	onlyMsgs := new(protoregistry.Types) // a registry that knows the message types but no extension
	for _, m := range []proto.Message{fo, mo, fl} {
		_ = onlyMsgs.RegisterMessage(m.ProtoReflect().Type())
	}
	type cfgT struct {
		name  string
		files protodesc.Resolver
		types protoregistry.MessageTypeResolver
	}
	cfgs := []cfgT{
		{"default", nil, nil},
		{"global-files+empty-types", nil, new(protoregistry.Types)},
		{"global-files+global-types", protoregistry.GlobalFiles, protoregistry.GlobalTypes},
		{"global-files+types-without-extensions", protoregistry.GlobalFiles, onlyMsgs},
	}
	for _, src := range []proto.Message{fo, mo, fl} {
		any, err := anyutil.New(src)
		full := string(src.ProtoReflect().Descriptor().FullName())
		if err != nil {
			out.Violate("C16", "pack-error", "New failed for "+full+": "+err.Error(), "anyext "+full)
			continue
		}
		want, _ := proto.MarshalOptions{Deterministic: true}.Marshal(src)
		var results []string
		for _, c := range cfgs {
			var got proto.Message
			var uerr error
			replay := "anyext " + full + " resolvers=" + c.name + " value x" + hex.EncodeToString(any.Value)
			out.Case("anyext"+full+c.name, true)
			out.Count("extension_cases")
			if p, pm := guard(func() { got, uerr = anyutil.Unpack(any, c.files, c.types) }); p {
				out.Violate("C16", "unpack-panic", "Unpack panicked: "+firstLine(pm), replay)
				continue
			}
			if uerr != nil {
				out.Violate("C16", "unpack-roundtrip-error", "Unpack of a packed "+full+" failed: "+uerr.Error(), replay)
				continue
			}
			if !proto.Equal(got, src) {
				out.Violate("C16", "unpack-roundtrip", fmt.Sprintf("unpacked message differs from the packed one (unknown bytes after unpacking: %x)", []byte(got.ProtoReflect().GetUnknown())), replay)
			}
			gb, _ := proto.MarshalOptions{Deterministic: true}.Marshal(got)
			if !bytes.Equal(gb, want) {
				out.Violate("C16", "unpack-roundtrip", fmt.Sprintf("re-encoding of the unpacked message %x differs from the packed value %x", gb, want), replay)
			}
			results = append(results, fmt.Sprintf("%x|unknown=%x", gb, []byte(got.ProtoReflect().GetUnknown())))
		}
		for i := 1; i < len(results); i++ {
			if results[i] != results[0] {
				out.Violate("C16", "paths-disagree", fmt.Sprintf("resolver configuration %s gives %s, %s gives %s", cfgs[0].name, results[0], cfgs[i].name, results[i]), "anyext "+full)
			}
		}
	}
}

func scriptAns(a string) string {
	if strings.HasPrefix(a, "n:") {
		return "n" // the model has one class "descriptor that is not a message"
	}
	if strings.HasPrefix(a, "m:") {
		return "m:" + hex.EncodeToString([]byte(a[2:]))
	}
	return a
}


// mutableFiles: a file resolver whose content can be replaced between calls (same object).
type mutableFiles struct{ cur protodesc.Resolver }

func (m *mutableFiles) FindFileByPath(p string) (protoreflect.FileDescriptor, error) {
	return m.cur.FindFileByPath(p)
}
func (m *mutableFiles) FindDescriptorByName(n protoreflect.FullName) (protoreflect.Descriptor, error) {
	return m.cur.FindDescriptorByName(n)
}

// resolverHistoryPass: Unpack is a function of (any, what the resolvers answer NOW). Histories on ONE resolver
// object whose content changes between calls: the type is unknown to it at first (Unpack must fail), then the same
// object learns the type (RegisterFile on a protoregistry.Files / the content of a custom resolver replaced), then
// the type is replaced by another descriptor with the same full name. Every answer must be the one a fresh call
// with the current content gives; the type registry is empty throughout (file-registry + dynamicpb path).
func resolverHistoryPass(out *Out, targets []*Target, r *vschema.Rand) {
	emptyTypes := new(protoregistry.Types)
	done := 0
	for _, t := range targets {
		if done >= 12 {
			break
		}
		fdesc := t.Desc.ParentFile()
		if fdesc == nil || t.Desc.Parent() != protoreflect.Descriptor(fdesc) {
			continue
		}
		g := &vval.GenOpts{MaxDepth: 2, EnumNums: enumNums(t)}
		v := g.Message(r, t.S, 0, 0)
		msg := t.B.ToMessage(0, v)
		any, err := anyutil.New(msg)
		if err != nil {
			continue
		}
		done++
		replay := "# resolver history for " + t.Full + ": Unpack with a file resolver that does not know the type, the same resolver object after it learnt the type, Unpack again"
		check := func(step string, files protodesc.Resolver, wantOK bool) {
			var m proto.Message
			var uerr error
			p, pm := guard(func() { m, uerr = anyutil.Unpack(any, files, emptyTypes) })
			out.Case("resolver-history:"+t.Full+":"+step, true)
			out.Count("resolver_history_steps")
			switch {
			case p:
				out.Violate("C16", "unpack-panic", "Unpack panicked in a resolver history ("+step+"): "+firstLine(pm), replay)
			case wantOK && uerr != nil:
				out.Violate("C16", "unpack-stale-resolver-answer", "Unpack fails ("+uerr.Error()+") although the file resolver now defines the type ("+step+")", replay)
			case !wantOK && uerr == nil:
				out.Violate("C16", "unpack-stale-resolver-answer", "Unpack succeeds although the file resolver does not define the type ("+step+")", replay)
			case wantOK:
				// (the dynamic message cannot hold float32 signalling NaNs bit for bit: compare type and size only; the
				// content of unpacked messages is compared by the main loop)
				if proto.Size(m) != len(any.Value) || m.ProtoReflect().Descriptor().FullName() != t.Desc.FullName() {
					out.Violate("C16", "unpack-roundtrip", "unpacked message differs from the packed one in a resolver history ("+step+")", replay)
				}
			}
		}
		// (a) a protoregistry.Files that learns the file later
		files := new(protoregistry.Files)
		check("files-before-register", files, false)
		check("files-before-register-again", files, false)
		regOK := true
		var reg func(fd protoreflect.FileDescriptor)
		seen := map[string]bool{}
		reg = func(fd protoreflect.FileDescriptor) {
			if seen[fd.Path()] {
				return
			}
			seen[fd.Path()] = true
			im := fd.Imports()
			for i := 0; i < im.Len(); i++ {
				reg(im.Get(i).FileDescriptor)
			}
			if err := files.RegisterFile(fd); err != nil {
				regOK = false
			}
		}
		reg(fdesc)
		if regOK {
			check("files-after-register", files, true)
		}
		// (b) a custom resolver object whose content is replaced
		mf := &mutableFiles{cur: new(protoregistry.Files)}
		check("custom-empty", mf, false)
		mf.cur = protoregistry.GlobalFiles
		check("custom-global", mf, true)
		mf.cur = new(protoregistry.Files)
		check("custom-empty-again", mf, false)
	}
}
