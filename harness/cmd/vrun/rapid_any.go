package main

// C18: Any generation with interface hints. The schema is built in memory (protodesc + dynamicpb), so that an Any
// field can carry the (cosmos_proto.accepts_interface) option; rapidproto only needs descriptors and a resolver.

import (
	"bytes"
	"fmt"
	"google.golang.org/protobuf/types/known/wrapperspb"
	"pgregory.net/rapid"

	cosmos_proto "github.com/cosmos/cosmos-proto"
	"github.com/cosmos/cosmos-proto/rapidproto"
	"google.golang.org/protobuf/proto"
	"google.golang.org/protobuf/reflect/protodesc"
	"google.golang.org/protobuf/reflect/protoreflect"
	"google.golang.org/protobuf/reflect/protoregistry"
	"google.golang.org/protobuf/types/descriptorpb"
	"google.golang.org/protobuf/types/dynamicpb"
	"google.golang.org/protobuf/types/known/anypb"
)

func anyHintPass(out *Out, cfg *Cfg) {
	_ = anypb.Any{}
	opt := descriptorpb.FieldDescriptorProto_LABEL_OPTIONAL.Enum()
	rep := descriptorpb.FieldDescriptorProto_LABEL_REPEATED.Enum()
	msgT := descriptorpb.FieldDescriptorProto_TYPE_MESSAGE.Enum()
	hint := func() *descriptorpb.FieldOptions {
		o := &descriptorpb.FieldOptions{}
		proto.SetExtension(o, cosmos_proto.E_AcceptsInterface, "verif.Iface")
		return o
	}
	anyF := func(name string, num int32, label *descriptorpb.FieldDescriptorProto_Label, o *descriptorpb.FieldOptions) *descriptorpb.FieldDescriptorProto {
		return &descriptorpb.FieldDescriptorProto{Name: proto.String(name), JsonName: proto.String(name), Number: proto.Int32(num), Label: label, Type: msgT,
			TypeName: proto.String(".google.protobuf.Any"), Options: o}
	}
	fdp := &descriptorpb.FileDescriptorProto{
		Name: proto.String("verif/anyhint.proto"), Package: proto.String("verif.anyhint"), Syntax: proto.String("proto3"),
		Dependency: []string{"google/protobuf/any.proto", "cosmos_proto/cosmos.proto"},
		MessageType: []*descriptorpb.DescriptorProto{
			{Name: proto.String("Num"), Field: []*descriptorpb.FieldDescriptorProto{{Name: proto.String("n"), JsonName: proto.String("n"), Number: proto.Int32(1), Label: opt, Type: descriptorpb.FieldDescriptorProto_TYPE_INT32.Enum()}}},
			{Name: proto.String("Txt"), Field: []*descriptorpb.FieldDescriptorProto{{Name: proto.String("s"), JsonName: proto.String("s"), Number: proto.Int32(1), Label: opt, Type: descriptorpb.FieldDescriptorProto_TYPE_STRING.Enum()}}},
			{Name: proto.String("Holder"),
				Field: []*descriptorpb.FieldDescriptorProto{
					anyF("free", 1, opt, nil), anyF("hinted", 2, opt, hint()), anyF("hinted_list", 3, rep, hint()),
					{Name: proto.String("hinted_map"), JsonName: proto.String("hintedMap"), Number: proto.Int32(4), Label: rep, Type: msgT, TypeName: proto.String(".verif.anyhint.Holder.HintedMapEntry"), Options: hint()},
					anyF("free_list", 5, rep, nil),
				},
				NestedType: []*descriptorpb.DescriptorProto{{Name: proto.String("HintedMapEntry"), Options: &descriptorpb.MessageOptions{MapEntry: proto.Bool(true)},
					Field: []*descriptorpb.FieldDescriptorProto{
						{Name: proto.String("key"), JsonName: proto.String("key"), Number: proto.Int32(1), Label: opt, Type: descriptorpb.FieldDescriptorProto_TYPE_STRING.Enum()},
						anyF("value", 2, opt, nil)}}}},
		},
	}
	fd, err := protodesc.NewFile(fdp, protoregistry.GlobalFiles)
	if err != nil {
		out.Violate("HARNESS", "anyhint-schema", err.Error(), "anyhint")
		return
	}
	num, txt, holder := fd.Messages().ByName("Num"), fd.Messages().ByName("Txt"), fd.Messages().ByName("Holder")
	types := new(protoregistry.Types)
	_ = types.RegisterMessage(dynamicpb.NewMessageType(num))
	_ = types.RegisterMessage(dynamicpb.NewMessageType(txt))
	base := rapidproto.GeneratorOptions{Resolver: types}.WithAnyTypes(dynamicpb.NewMessage(txt), dynamicpb.NewMessage(num)).
		WithInterfaceHint("verif.Iface", dynamicpb.NewMessage(num))
	seeds := 150
	if cfg.Tier == "thorough" {
		seeds = 4000
	}
	for seed := 0; seed < seeds; seed++ {
		opts := base
		if seed%3 == 1 {
			opts.NoEmptyLists = true
		}
		if seed%3 == 2 {
			opts = opts.WithDisallowNil()
		}
		sd := int(cfg.Seed)*100000 + 11000 + seed
		replay := fmt.Sprintf("rapid verif.anyhint.Holder (Any fields free / hinted by accepts_interface) seed=%d", sd)
		var m proto.Message
		if p, pm := guard(func() { m = genExample(dynamicpb.NewMessage(holder), opts, sd) }); p {
			out.Violate("C18", "gen-panic:anyhint", "generator failed: "+firstLine(pm), replay)
			continue
		}
		out.Case(replay, true)
		check := func(fname string, hinted bool, v protoreflect.Message) {
			url := v.Get(v.Descriptor().Fields().ByName("type_url")).String()
			val := v.Get(v.Descriptor().Fields().ByName("value")).Bytes()
			out.Count("anyhint_anys")
			mt, err := types.FindMessageByURL(url)
			if err != nil {
				out.Violate("C18", "any-unresolvable", fmt.Sprintf("field %s: type URL %q does not resolve", fname, url), replay)
				return
			}
			if hinted {
				out.Count("anyhint_hinted")
				if url != "/verif.anyhint.Num" {
					out.Violate("C18", "any-hint-ignored", fmt.Sprintf("field %s accepts interface verif.Iface (hint: Num) but carries %q", fname, url), replay)
				}
			}
			inner := mt.New().Interface()
			if err := proto.Unmarshal(val, inner); err != nil {
				out.Violate("C18", "any-undecodable", fmt.Sprintf("field %s: value does not decode as %s", fname, url), replay)
				return
			}
			re, _ := proto.MarshalOptions{Deterministic: true}.Marshal(inner)
			if len(inner.ProtoReflect().GetUnknown()) > 0 || !bytes.Equal(re, val) {
				out.Violate("C18", "any-value-of-other-type", fmt.Sprintf("field %s: value %x is not an encoding of %s (unknown records %x left over)", fname, val, url, inner.ProtoReflect().GetUnknown()), replay)
			}
		}
		mr := m.ProtoReflect()
		fs := holder.Fields()
		for i := 0; i < fs.Len(); i++ {
			f := fs.Get(i)
			hinted := proto.HasExtension(f.Options(), cosmos_proto.E_AcceptsInterface)
			switch {
			case f.IsList():
				l := mr.Get(f).List()
				for k := 0; k < l.Len(); k++ {
					check(string(f.Name()), hinted, l.Get(k).Message())
				}
			case f.IsMap():
				mr.Get(f).Map().Range(func(_ protoreflect.MapKey, v protoreflect.Value) bool {
					check(string(f.Name()), hinted, v.Message())
					return true
				})
			default:
				if mr.Has(f) {
					check(string(f.Name()), hinted, mr.Get(f).Message())
				}
			}
		}
	}
	// ---- option sets DERIVED from a common base one after the other (WithAnyTypes appends to the base's URL slice:
	// with spare capacity two derived sets share a backing array), a generator created from the first before the
	// second is derived, examples drawn from both afterwards: every Any must still name the type its value encodes
	pool := []proto.Message{dynamicpb.NewMessage(txt), dynamicpb.NewMessage(num), &wrapperspb.BoolValue{}, &wrapperspb.BytesValue{}, &wrapperspb.StringValue{},
		&wrapperspb.Int64Value{}, &wrapperspb.UInt32Value{}, &wrapperspb.DoubleValue{}, &wrapperspb.FloatValue{}, &wrapperspb.Int32Value{}}
	for _, m := range pool[2:] {
		_ = types.RegisterMessage(m.ProtoReflect().Type())
	}
	checkAll := func(m proto.Message, replay string) {
		mr := m.ProtoReflect()
		visit := func(v protoreflect.Message) {
			url := v.Get(v.Descriptor().Fields().ByName("type_url")).String()
			val := v.Get(v.Descriptor().Fields().ByName("value")).Bytes()
			out.Count("derived_options_anys")
			mt, err := types.FindMessageByURL(url)
			if err != nil {
				out.Violate("C18", "any-unresolvable", fmt.Sprintf("type URL %q does not resolve", url), replay)
				return
			}
			inner := mt.New().Interface()
			if err := proto.Unmarshal(val, inner); err != nil {
				out.Violate("C18", "any-undecodable", fmt.Sprintf("value %x does not decode as %s: %v", val, url, err), replay)
				return
			}
			re, _ := proto.MarshalOptions{Deterministic: true}.Marshal(inner)
			if len(inner.ProtoReflect().GetUnknown()) > 0 || !bytes.Equal(re, val) {
				out.Violate("C18", "any-value-of-other-type", fmt.Sprintf("value %x is not an encoding of %s", val, url), replay)
			}
		}
		fs := holder.Fields()
		for i := 0; i < fs.Len(); i++ {
			f := fs.Get(i)
			switch {
			case f.IsList():
				l := mr.Get(f).List()
				for k := 0; k < l.Len(); k++ {
					visit(l.Get(k).Message())
				}
			case f.IsMap():
				mr.Get(f).Map().Range(func(_ protoreflect.MapKey, v protoreflect.Value) bool { visit(v.Message()); return true })
			default:
				if mr.Has(f) {
					visit(mr.Get(f).Message())
				}
			}
		}
	}
	for nBase := 1; nBase <= 7; nBase++ {
		b0 := rapidproto.GeneratorOptions{Resolver: types}.WithInterfaceHint("verif.Iface", dynamicpb.NewMessage(num)).WithAnyTypes(pool[:nBase]...)
		o1 := b0.WithAnyTypes(pool[8])
		g1 := rapidproto.MessageGenerator[proto.Message](dynamicpb.NewMessage(holder), o1)
		o2 := b0.WithAnyTypes(pool[9])
		g2 := rapidproto.MessageGenerator[proto.Message](dynamicpb.NewMessage(holder), o2)
		n := 40
		if cfg.Tier == "thorough" {
			n = 600
		}
		for seed := 0; seed < n; seed++ {
			sd := int(cfg.Seed)*100000 + 19000 + seed
			for gi, g := range []*rapid.Generator[proto.Message]{g1, g2} {
				replay := fmt.Sprintf("rapid verif.anyhint.Holder, option sets derived from a base of %d Any types: base.WithAnyTypes(X) -> generator 1, then base.WithAnyTypes(Y) -> generator 2; example of generator %d seed=%d", nBase, gi+1, sd)
				var m proto.Message
				if p, pm := guard(func() { m = g.Example(sd) }); p {
					out.Violate("C18", "gen-panic:derived-options", "generator failed: "+firstLine(pm), replay)
					continue
				}
				out.Count("derived_options_examples")
				checkAll(m, replay)
			}
		}
	}
}

// ownWktPass: a schema that carries its OWN descriptor instances of google/protobuf/{timestamp,duration,field_mask}
// (a self-contained FileDescriptorSet resolved with protodesc.NewFiles, messages through dynamicpb), generated AFTER
// the process has already generated the same well-known types from the global registry: anything remembered per
// well-known type name across generator calls (field descriptors, message types) is foreign to these messages.
func ownWktPass(out *Out, cfg *Cfg) {
	opt := descriptorpb.FieldDescriptorProto_LABEL_OPTIONAL.Enum()
	rep := descriptorpb.FieldDescriptorProto_LABEL_REPEATED.Enum()
	msgT := descriptorpb.FieldDescriptorProto_TYPE_MESSAGE.Enum()
	f := func(name string, num int32, label *descriptorpb.FieldDescriptorProto_Label, tn string) *descriptorpb.FieldDescriptorProto {
		return &descriptorpb.FieldDescriptorProto{Name: proto.String(name), JsonName: proto.String(name), Number: proto.Int32(num), Label: label, Type: msgT, TypeName: proto.String(tn)}
	}
	set := &descriptorpb.FileDescriptorSet{}
	for _, p := range []string{"google/protobuf/timestamp.proto", "google/protobuf/duration.proto", "google/protobuf/field_mask.proto"} {
		fd, err := protoregistry.GlobalFiles.FindFileByPath(p)
		if err != nil {
			out.Violate("HARNESS", "ownwkt-schema", err.Error(), "ownwkt")
			return
		}
		set.File = append(set.File, protodesc.ToFileDescriptorProto(fd))
	}
	set.File = append(set.File, &descriptorpb.FileDescriptorProto{
		Name: proto.String("verif/ownwkt.proto"), Package: proto.String("verif.ownwkt"), Syntax: proto.String("proto3"),
		Dependency: []string{"google/protobuf/timestamp.proto", "google/protobuf/duration.proto", "google/protobuf/field_mask.proto"},
		MessageType: []*descriptorpb.DescriptorProto{{Name: proto.String("Holder"), Field: []*descriptorpb.FieldDescriptorProto{
			f("at", 1, opt, ".google.protobuf.Timestamp"), f("took", 2, opt, ".google.protobuf.Duration"), f("mask", 3, opt, ".google.protobuf.FieldMask"),
			f("ats", 4, rep, ".google.protobuf.Timestamp")}}},
	})
	files, err := protodesc.NewFiles(set)
	if err != nil {
		out.Violate("HARNESS", "ownwkt-schema", err.Error(), "ownwkt")
		return
	}
	d, err := files.FindDescriptorByName("verif.ownwkt.Holder")
	if err != nil {
		out.Violate("HARNESS", "ownwkt-schema", err.Error(), "ownwkt")
		return
	}
	holder := d.(protoreflect.MessageDescriptor)
	seeds := 40
	if cfg.Tier == "thorough" {
		seeds = 1000
	}
	for seed := 0; seed < seeds; seed++ {
		sd := int(cfg.Seed)*100000 + 13000 + seed
		replay := fmt.Sprintf("rapid verif.ownwkt.Holder (own descriptor instances of the well-known types, dynamicpb) seed=%d", sd)
		opts := rapidproto.GeneratorOptions{}
		if seed%2 == 1 {
			opts = opts.WithDisallowNil()
		}
		var m proto.Message
		if p, pm := guard(func() { m = genExample(dynamicpb.NewMessage(holder), opts, sd) }); p {
			out.Violate("C18", "gen-panic:ownwkt", "generator failed on a schema with its own well-known-type descriptors: "+firstLine(pm), replay)
			return
		}
		out.Case(replay, true)
		out.Count("ownwkt_examples")
		walkGenerated(out, "ownwkt", opts, m.ProtoReflect(), replay, 0)
	}
}

// aliasEnumPass: enums with allow_alias (several names for one number) and undeclared numbers inside their range,
// in singular, repeated and map-value positions, sparse and negative: a drawn value must be a DECLARED number
// (counting values is not counting numbers once aliases exist).
func aliasEnumPass(out *Out, cfg *Cfg) {
	ev := func(n string, v int32) *descriptorpb.EnumValueDescriptorProto {
		return &descriptorpb.EnumValueDescriptorProto{Name: proto.String(n), Number: proto.Int32(v)}
	}
	alias := &descriptorpb.EnumOptions{AllowAlias: proto.Bool(true)}
	enums := []*descriptorpb.EnumDescriptorProto{
		{Name: proto.String("Level"), Options: alias, Value: []*descriptorpb.EnumValueDescriptorProto{ev("LOW", 0), ev("MID", 1), ev("NORMAL", 1), ev("TOP", 3)}},
		{Name: proto.String("Two"), Options: alias, Value: []*descriptorpb.EnumValueDescriptorProto{ev("TA", 0), ev("TB", 0), ev("TC", 2)}},
		{Name: proto.String("Neg"), Options: alias, Value: []*descriptorpb.EnumValueDescriptorProto{ev("NZ", 0), ev("NM", -2), ev("NMM", -2), ev("NP", 1)}},
		{Name: proto.String("Big"), Options: alias, Value: []*descriptorpb.EnumValueDescriptorProto{ev("BZ", 0), ev("BX", 5), ev("BY", 5), ev("BW", 7), ev("BV", 7), ev("BU", 10)}},
		{Name: proto.String("Trip"), Options: alias, Value: []*descriptorpb.EnumValueDescriptorProto{ev("RA", 0), ev("RB", 0), ev("RC", 0), ev("RD", 3), ev("RE", 4)}},
	}
	opt := descriptorpb.FieldDescriptorProto_LABEL_OPTIONAL.Enum()
	rep := descriptorpb.FieldDescriptorProto_LABEL_REPEATED.Enum()
	enT := descriptorpb.FieldDescriptorProto_TYPE_ENUM.Enum()
	f := func(name string, num int32, label *descriptorpb.FieldDescriptorProto_Label, tn string) *descriptorpb.FieldDescriptorProto {
		return &descriptorpb.FieldDescriptorProto{Name: proto.String(name), JsonName: proto.String(name), Number: proto.Int32(num), Label: label, Type: enT, TypeName: proto.String(tn)}
	}
	entry := &descriptorpb.DescriptorProto{Name: proto.String("ByNameEntry"), Options: &descriptorpb.MessageOptions{MapEntry: proto.Bool(true)}, Field: []*descriptorpb.FieldDescriptorProto{
		{Name: proto.String("key"), JsonName: proto.String("key"), Number: proto.Int32(1), Label: opt, Type: descriptorpb.FieldDescriptorProto_TYPE_STRING.Enum()},
		f("value", 2, opt, ".verif.alias.Level")}}
	holder := &descriptorpb.DescriptorProto{Name: proto.String("Holder"), NestedType: []*descriptorpb.DescriptorProto{entry}, Field: []*descriptorpb.FieldDescriptorProto{
		f("level", 1, opt, ".verif.alias.Level"), f("levels", 2, rep, ".verif.alias.Level"),
		{Name: proto.String("by_name"), JsonName: proto.String("byName"), Number: proto.Int32(3), Label: rep, Type: descriptorpb.FieldDescriptorProto_TYPE_MESSAGE.Enum(), TypeName: proto.String(".verif.alias.Holder.ByNameEntry")},
		f("two", 4, opt, ".verif.alias.Two"), f("negs", 5, rep, ".verif.alias.Neg"), f("big", 6, opt, ".verif.alias.Big"), f("trips", 7, rep, ".verif.alias.Trip")}}
	fdp := &descriptorpb.FileDescriptorProto{Name: proto.String("verif/alias.proto"), Package: proto.String("verif.alias"), Syntax: proto.String("proto3"),
		EnumType: enums, MessageType: []*descriptorpb.DescriptorProto{holder}}
	fd, err := protodesc.NewFile(fdp, nil)
	if err != nil {
		out.Violate("HARNESS", "alias-schema", err.Error(), "alias-enum")
		return
	}
	md := fd.Messages().ByName("Holder")
	seeds := 60
	if cfg.Tier == "thorough" {
		seeds = 1500
	}
	for seed := 0; seed < seeds; seed++ {
		sd := int(cfg.Seed)*100000 + 17000 + seed
		replay := fmt.Sprintf("rapid verif.alias.Holder (allow_alias enums: Level{0,1,1,3} Two{0,0,2} Neg{0,-2,-2,1} Big{0,5,5,7,7,10} Trip{0,0,0,3,4}; dynamicpb) seed=%d", sd)
		opts := rapidproto.GeneratorOptions{}
		if seed%2 == 1 {
			opts.NoEmptyLists = true
		}
		var m proto.Message
		if p, pm := guard(func() { m = genExample(dynamicpb.NewMessage(md), opts, sd) }); p {
			out.Violate("C18", "gen-panic:alias-enum", "generator failed on a schema with allow_alias enums: "+firstLine(pm), replay)
			return
		}
		out.Case(replay, true)
		out.Count("alias_enum_examples")
		walkGenerated(out, "alias", opts, m.ProtoReflect(), replay, 0)
	}
}


// deepChainPass: a recursive type whose every level holds a repeated message field and a message-valued map
// (Node{Node child; repeated Leaf leaves; map<string,Leaf> named; repeated int32 nums}), generated with
// DisallowNilMessages so that the chain ALWAYS runs down to the nesting limit, with and without NoEmptyLists: what the
// options promise must hold at every level, in particular at the last levels before the limit (holder at level 9,
// elements at level 10).
func deepChainPass(out *Out, cfg *Cfg) {
	opt := descriptorpb.FieldDescriptorProto_LABEL_OPTIONAL.Enum()
	rep := descriptorpb.FieldDescriptorProto_LABEL_REPEATED.Enum()
	msgT := descriptorpb.FieldDescriptorProto_TYPE_MESSAGE.Enum()
	i32 := descriptorpb.FieldDescriptorProto_TYPE_INT32.Enum()
	str := descriptorpb.FieldDescriptorProto_TYPE_STRING.Enum()
	f := func(name string, num int32, label *descriptorpb.FieldDescriptorProto_Label, typ *descriptorpb.FieldDescriptorProto_Type, tn string) *descriptorpb.FieldDescriptorProto {
		fp := &descriptorpb.FieldDescriptorProto{Name: proto.String(name), JsonName: proto.String(name), Number: proto.Int32(num), Label: label, Type: typ}
		if tn != "" {
			fp.TypeName = proto.String(tn)
		}
		return fp
	}
	entry := &descriptorpb.DescriptorProto{Name: proto.String("NamedEntry"), Options: &descriptorpb.MessageOptions{MapEntry: proto.Bool(true)},
		Field: []*descriptorpb.FieldDescriptorProto{f("key", 1, opt, str, ""), f("value", 2, opt, msgT, ".verif.deep.Leaf")}}
	fdp := &descriptorpb.FileDescriptorProto{Name: proto.String("verif/deep.proto"), Package: proto.String("verif.deep"), Syntax: proto.String("proto3"),
		MessageType: []*descriptorpb.DescriptorProto{
			{Name: proto.String("Leaf"), Field: []*descriptorpb.FieldDescriptorProto{f("x", 1, opt, i32, "")}},
			{Name: proto.String("Node"), NestedType: []*descriptorpb.DescriptorProto{entry}, Field: []*descriptorpb.FieldDescriptorProto{
				f("child", 1, opt, msgT, ".verif.deep.Node"), f("leaves", 2, rep, msgT, ".verif.deep.Leaf"),
				f("named", 3, rep, msgT, ".verif.deep.Node.NamedEntry"), f("nums", 4, rep, i32, "")}}}}
	fd, err := protodesc.NewFile(fdp, nil)
	if err != nil {
		out.Violate("HARNESS", "deep-schema", err.Error(), "deep-chain")
		return
	}
	node := fd.Messages().ByName("Node")
	seeds := 12
	if cfg.Tier == "thorough" {
		seeds = 300
	}
	for seed := 0; seed < seeds; seed++ {
		sd := int(cfg.Seed)*100000 + 17000 + seed
		opts := rapidproto.GeneratorOptions{}.WithDisallowNil()
		oname := "deep+disallownil"
		if seed%2 == 0 {
			opts.NoEmptyLists = true
			oname = "deep+noemptylists+disallownil"
		}
		replay := fmt.Sprintf("rapid verif.deep.Node (Node{Node child=1; repeated Leaf leaves=2; map<string,Leaf> named=3; repeated int32 nums=4}, dynamicpb) options=%s seed=%d", oname, sd)
		var m proto.Message
		if p, pm := guard(func() { m = genExample(dynamicpb.NewMessage(node), opts, sd) }); p {
			out.Violate("C18", "gen-panic:deep", "generator failed on a recursive schema: "+firstLine(pm), replay)
			return
		}
		out.Case(replay, true)
		out.Count("deep_chain_examples")
		// the chain must reach the nesting limit (DisallowNilMessages): otherwise the pass checks nothing
		depth := 0
		for cur := m.ProtoReflect(); cur.Has(node.Fields().ByName("child")); cur = cur.Get(node.Fields().ByName("child")).Message() {
			depth++
		}
		if depth >= 9 {
			out.Count("deep_chain_reached_level_9")
		}
		walkGenerated(out, oname, opts, m.ProtoReflect(), replay, 0)
	}
}
