package main

import (
	"bytes"
	"encoding/json"
	"fmt"
	"os"
	"os/exec"
	"path/filepath"
	"reflect"
	"regexp"
	"strings"

	"github.com/cosmos/cosmos-proto/internal/verifh/vreg"
	"github.com/cosmos/cosmos-proto/internal/verifh/vschema"
	"github.com/cosmos/cosmos-proto/internal/verifh/vval"
	"google.golang.org/protobuf/encoding/prototext"
	"google.golang.org/protobuf/proto"
	"google.golang.org/protobuf/reflect/protodesc"
	"google.golang.org/protobuf/reflect/protoreflect"
	"google.golang.org/protobuf/reflect/protoregistry"
	"google.golang.org/protobuf/types/descriptorpb"
	"google.golang.org/protobuf/types/pluginpb"
)

func init() {
	engines["gen"] = runGen
	engines["desc"] = runDesc
}

func pluginRun(plugin string, req *pluginpb.CodeGeneratorRequest) (*pluginpb.CodeGeneratorResponse, string, error) {
	return pluginRunEnv(plugin, req, 0)
}

// pluginRunEnv: variant 0 = the engine's own environment; other variants run the plugin in a different
// working directory with a different, minimal environment (time zone, HOME, USER, LANG, TMPDIR, PATH):
// the response must not depend on any of it (C13: hermetic).
func pluginRunEnv(plugin string, req *pluginpb.CodeGeneratorRequest, variant int) (*pluginpb.CodeGeneratorResponse, string, error) {
	in, err := proto.Marshal(req)
	if err != nil {
		return nil, "", err
	}
	cmd := exec.Command(plugin)
	cmd.Stdin = bytes.NewReader(in)
	cmd.Env = append(os.Environ(), "TZ=UTC")
	switch variant % 4 {
	case 1:
		cmd.Dir = "/"
		cmd.Env = []string{"TZ=Pacific/Kiritimati", "HOME=/nonexistent", "USER=verif-other-user", "LANG=tr_TR.UTF-8", "PATH=/usr/bin", "SOURCE_DATE_EPOCH=86400"}
	case 2:
		cmd.Dir = os.TempDir()
		cmd.Env = []string{"TZ=America/St_Johns", "HOME=" + os.TempDir(), "LC_ALL=C", "GOFLAGS=-mod=vendor", "GODEBUG=randautoseed=0", "PWD=/proc"}
	case 3:
		cmd.Dir = filepath.Dir(plugin)
		cmd.Env = nil // inherits
		cmd.Env = append(os.Environ(), "TZ=Asia/Kathmandu", "PROTOC_GEN_GO_PULSAR_DEBUG=1", "HOSTNAME=some-other-host")
	}
	var ob, eb bytes.Buffer
	cmd.Stdout, cmd.Stderr = &ob, &eb
	if err := cmd.Run(); err != nil {
		return nil, eb.String(), fmt.Errorf("plugin process failed: %v", err)
	}
	resp := &pluginpb.CodeGeneratorResponse{}
	if err := proto.Unmarshal(ob.Bytes(), resp); err != nil {
		return nil, eb.String(), fmt.Errorf("response does not parse: %v", err)
	}
	return resp, eb.String(), nil
}

type genReport struct {
	ID      string `json:"id"`
	Corpus  string `json:"corpus"`
	OK      bool   `json:"ok"`
	Error   string `json:"error"`
	ReqPath string `json:"req_path"`
	Line    string `json:"schema_line"`
}

func loadGenReport() ([]genReport, string) {
	dir := os.Getenv("VERIF_CORPUS")
	var reps []genReport
	b, err := os.ReadFile(filepath.Join(dir, "gen_report.json"))
	if err == nil {
		_ = json.Unmarshal(b, &reps)
	}
	return reps, dir
}

func loadReq(path string) *pluginpb.CodeGeneratorRequest {
	b, err := os.ReadFile(path)
	if err != nil {
		return nil
	}
	req := &pluginpb.CodeGeneratorRequest{}
	if proto.Unmarshal(b, req) != nil {
		return nil
	}
	return req
}

var suspicious = []*regexp.Regexp{
	regexp.MustCompile(`/var/tmp|/tmp/|/root/|/home/`),
	regexp.MustCompile(`20[0-9][0-9]-[01][0-9]-[0-3][0-9]`),
	regexp.MustCompile(`[0-2][0-9]:[0-5][0-9]:[0-5][0-9]`),
}

// C12 (negative requests, totality on the corpus) and C13 (determinism / hermeticity).
func runGen(cfg *Cfg) {
	out := newOut(cfg.Out, "gen")
	defer out.Close()
	plugin := os.Getenv("VERIF_PLUGIN")
	reps, _ := loadGenReport()
	out.res.Rule = "every corpus request (matrix kind x shape x tag width, names, graph/WKT across three Go packages, random schemas) answered with compilable sources (compile = the harness binary that runs this engine links all emitted packages); each request repeated in fresh processes and compared byte for byte; multi-file requests with permuted / sub-setted file_to_generate compared per file; parameter strings (features=, paths=, M mappings, unknown features); proto2 and unrequested files; emitted text scanned for paths/dates"
	runs := 6
	if cfg.Tier == "thorough" {
		runs = 48
	}
	r := vschema.NewRand(cfg.Seed)
	hostname, _ := os.Hostname()
	var reqs []*pluginpb.CodeGeneratorRequest
	for _, rep := range reps {
		out.res.Programs++
		out.Case("corpus:"+rep.ID, true)
		if !rep.OK {
			out.Violate("C12", "generator-fails:"+rep.Corpus, "plugin failed on a valid proto3 schema: "+rep.Error, "request "+rep.ReqPath+"\n"+rep.Line)
			continue
		}
		req := loadReq(rep.ReqPath)
		if req == nil {
			continue
		}
		reqs = append(reqs, req)
		// C13: byte-identical across fresh processes
		var first *pluginpb.CodeGeneratorResponse
		nruns := runs
		if len(req.ProtoFile) > 2 {
			nruns = runs * 3 // several imports: order-of-iteration effects are probabilistic per run
		}
		for k := 0; k < nruns; k++ {
			resp, _, err := pluginRunEnv(plugin, req, k)
			out.Case(fmt.Sprintf("rerun:%s:%d", rep.ID, k), true)
			if err != nil || resp.Error != nil {
				out.Violate("C13", "rerun-fails", fmt.Sprintf("repeat run failed: %v %v", err, resp.GetError()), "request "+rep.ReqPath)
				break
			}
			if first == nil {
				first = resp
				for _, f := range resp.File {
					for _, re := range suspicious {
						if m := re.FindString(f.GetContent()); m != "" {
							out.Violate("C13", "environment-text", "generated text contains "+m, "request "+rep.ReqPath)
						}
					}
					if hostname != "" && len(hostname) > 3 && strings.Contains(f.GetContent(), hostname) {
						out.Violate("C13", "environment-text", "generated text contains the hostname", "request "+rep.ReqPath)
					}
				}
				continue
			}
			if !sameFiles(first, resp) {
				out.Violate("C13", "nondeterministic", "two runs of the same request differ", "request "+rep.ReqPath)
				break
			}
		}
		if first != nil && len(first.File) == 1 {
			indexLines(out, req.ProtoFile[len(req.ProtoFile)-1], first.File[0].GetContent())
			nameLines(out, req.ProtoFile[len(req.ProtoFile)-1], first.File[0].GetContent())
			depLines(out, req.ProtoFile[len(req.ProtoFile)-1], first.File[0].GetContent())
		} else if first != nil {
			// several files generated by one request: match them to their .proto by base name
			for _, f := range first.File {
				base := strings.TrimSuffix(filepath.Base(f.GetName()), ".pulsar.go")
				for _, pf := range req.ProtoFile {
					if strings.TrimSuffix(filepath.Base(pf.GetName()), ".proto") == base {
						depLines(out, pf, f.GetContent())
					}
				}
			}
		}
		if len(out.res.Samples) < 3 {
			out.Sample("request " + rep.ID + " (" + rep.Corpus + "): " + fmt.Sprint(len(first.GetFile())) + " files")
		}
	}
	// C13: co-generation independence on the graph corpus (ga, gb, gc in one request)
	var all []*descriptorpb.FileDescriptorProto
	seen := map[string]bool{}
	var gen []string
	single := map[string]string{}
	for _, req := range reqs {
		name := req.FileToGenerate[0]
		if !strings.Contains(name, "/ga/") && !strings.Contains(name, "/gb/") && !strings.Contains(name, "/gc/") && !strings.Contains(name, "/mx/") &&
			!strings.Contains(name, "/dupa/") && !strings.Contains(name, "/dupb/") && !strings.Contains(name, "/nest/") &&
			!strings.Contains(name, "/nm/") && !strings.Contains(name, "/nu/") {
			continue
		}
		for _, f := range req.ProtoFile {
			if !seen[f.GetName()] {
				seen[f.GetName()] = true
				all = append(all, f)
			}
		}
		gen = append(gen, name)
		if resp, _, err := pluginRun(plugin, req); err == nil && len(resp.File) == 1 {
			single[resp.File[0].GetName()] = resp.File[0].GetContent()
		}
	}
	allFixed := topoSort(all)
	perms := 8
	if cfg.Tier == "thorough" {
		perms = 40
	}
	for k := 0; k < perms && len(gen) > 1; k++ {
		g := append([]string(nil), gen...)
		for i := len(g) - 1; i > 0; i-- {
			j := r.Intn(i + 1)
			g[i], g[j] = g[j], g[i]
		}
		if k%2 == 1 {
			g = g[:1+r.Intn(len(g)-1)]
		}
		// proto_file in a topological order too, but not always the same one among unrelated files
		all := allFixed
		if k%3 != 0 {
			sh := append([]*descriptorpb.FileDescriptorProto(nil), allFixed...)
			for i := len(sh) - 1; i > 0; i-- {
				j := r.Intn(i + 1)
				sh[i], sh[j] = sh[j], sh[i]
			}
			all = topoSort(sh)
		}
		req := &pluginpb.CodeGeneratorRequest{FileToGenerate: g, Parameter: proto.String("features=protoc+fast,paths=source_relative"), ProtoFile: all}
		resp, _, err := pluginRun(plugin, req)
		out.Case("cogen:"+strings.Join(g, ","), true)
		if err != nil || resp.Error != nil {
			out.Violate("C13", "cogen-fails", fmt.Sprintf("multi-file request failed: %v %v", err, resp.GetError()), "cogen "+strings.Join(g, ","))
			continue
		}
		if len(resp.File) != len(g) {
			out.Violate("C12", "unrequested-output", fmt.Sprintf("%d files requested, %d emitted", len(g), len(resp.File)), "cogen "+strings.Join(g, ","))
		}
		for _, f := range resp.File {
			if want, ok := single[f.GetName()]; ok && want != f.GetContent() {
				out.Violate("C13", "cogen-dependent", "content of "+f.GetName()+" depends on the co-generated files / their order", "cogen "+strings.Join(g, ","))
			}
		}
	}
	// C12: parameter strings and negative requests
	if len(reqs) > 0 {
		base := reqs[0]
		mk := func(param string) *pluginpb.CodeGeneratorRequest {
			q := proto.Clone(base).(*pluginpb.CodeGeneratorRequest)
			q.Parameter = proto.String(param)
			return q
		}
		type pcase struct {
			param          string
			wantErr, files bool
		}
		for _, pc := range []pcase{
			{"features=protoc+fast", false, true},
			{"features=fast", false, true},
			{"features=all", false, true},
			{"features=fast+protoc,paths=source_relative", false, true},
			{"features=protoc+fast,paths=import", false, true},
			{"features=protoc+fast,Mverifcorpus/mx/mx.proto=example.com/other/pkg", false, true},
			{"features=protoc", false, false},
			{"features=nosuchfeature", true, false},
			{"features=fast+nosuchfeature", true, false},
			{"features=all+nosuchfeature", true, false},
			{"features=nosuchfeature+all", true, false},
			{"features=all", false, true},
			{"features=", true, false},
		} {
			resp, _, err := pluginRun(plugin, mk(pc.param))
			out.Case("param:"+pc.param, true)
			rp := "param " + pc.param
			if err != nil {
				out.Violate("C12", "plugin-crash:param", "plugin crashed for parameter "+pc.param+": "+err.Error(), rp)
				continue
			}
			// model line: the Lean model of parameter parsing / feature selection / emit decision
			exp := "err"
			if resp.Error == nil {
				exp = "ok emits=" + map[bool]string{true: "t", false: "f"}[len(resp.File) > 0]
			}
			out.Line("C12,C13", "paramq "+pc.param, exp)
			if pc.wantErr && resp.Error == nil {
				out.Violate("C12", "unknown-feature-accepted", "request that cannot be served was not answered with an error: "+pc.param, rp)
			}
			if !pc.wantErr && resp.Error != nil {
				out.Violate("C12", "valid-param-rejected", "valid parameter rejected: "+pc.param+": "+resp.GetError(), rp)
			}
			if !pc.wantErr && resp.Error == nil && (len(resp.File) > 0) != pc.files {
				out.Violate("C12", "param-output", fmt.Sprintf("parameter %s: %d files emitted", pc.param, len(resp.File)), rp)
			}
		}
		// proto2 file and file not requested
		p2 := proto.Clone(base.ProtoFile[len(base.ProtoFile)-1]).(*descriptorpb.FileDescriptorProto)
		p2.Syntax = proto.String("proto2")
		p2.Name = proto.String("verifcorpus/p2/p2.proto")
		p2.Package = proto.String("vc.p2")
		retarget(p2, base.ProtoFile[len(base.ProtoFile)-1].GetPackage(), "vc.p2")
		for _, m := range p2.MessageType {
			stripProto3(m)
		}
		q := &pluginpb.CodeGeneratorRequest{FileToGenerate: []string{p2.GetName()}, Parameter: proto.String("features=protoc+fast"), ProtoFile: []*descriptorpb.FileDescriptorProto{p2}}
		resp, _, err := pluginRun(plugin, q)
		out.Case("proto2", true)
		if err != nil {
			out.Violate("C12", "plugin-crash:proto2", "plugin crashed on a proto2 file: "+err.Error(), "proto2")
		} else if resp.Error == nil && len(resp.File) != 0 {
			out.Violate("C12", "proto2-output", "proto2 file produced output", "proto2")
		}
		q2 := proto.Clone(base).(*pluginpb.CodeGeneratorRequest)
		q2.FileToGenerate = nil
		resp, _, err = pluginRun(plugin, q2)
		out.Case("unrequested", true)
		if err != nil {
			out.Violate("C12", "plugin-crash:unrequested", err.Error(), "unrequested")
		} else if len(resp.File) != 0 {
			out.Violate("C12", "unrequested-output", "file not in file_to_generate produced output", "unrequested")
		}
	}
}

func retarget(fd *descriptorpb.FileDescriptorProto, from, to string) {
	var fix func(m *descriptorpb.DescriptorProto)
	fix = func(m *descriptorpb.DescriptorProto) {
		for _, f := range m.Field {
			if f.TypeName != nil {
				f.TypeName = proto.String(strings.Replace(f.GetTypeName(), "."+from+".", "."+to+".", 1))
			}
		}
		for _, n := range m.NestedType {
			fix(n)
		}
	}
	for _, m := range fd.MessageType {
		fix(m)
	}
}

func stripProto3(m *descriptorpb.DescriptorProto) {
	for _, n := range m.NestedType {
		stripProto3(n)
	}
}

func sameFiles(a, b *pluginpb.CodeGeneratorResponse) bool {
	if len(a.File) != len(b.File) {
		return false
	}
	for i := range a.File {
		if a.File[i].GetName() != b.File[i].GetName() || a.File[i].GetContent() != b.File[i].GetContent() {
			return false
		}
	}
	return true
}

func topoSort(fs []*descriptorpb.FileDescriptorProto) []*descriptorpb.FileDescriptorProto {
	by := map[string]*descriptorpb.FileDescriptorProto{}
	for _, f := range fs {
		by[f.GetName()] = f
	}
	var out []*descriptorpb.FileDescriptorProto
	done := map[string]bool{}
	var visit func(n string)
	visit = func(n string) {
		if done[n] || by[n] == nil {
			return
		}
		done[n] = true
		for _, d := range by[n].Dependency {
			visit(d)
		}
		out = append(out, by[n])
	}
	// roots are visited in the order given (callers shuffle it to get different topological orders)
	for _, f := range fs {
		visit(f.GetName())
	}
	return out
}

// C19: generated Go API and descriptors are coherent with the schema.
func runDesc(cfg *Cfg) {
	out := newOut(cfg.Out, "desc")
	defer out.Close()
	reps, _ := loadGenReport()
	out.res.Rule = "every generated package (corpus + checked-in): registered file descriptor == request descriptor (options included); every message/enum reachable through the global registries and mapping back to its Go type; descriptor identity; Type/New/Zero; getters == Get on random values and nil receivers; Reset; String -> prototext.Unmarshal -> Equal; enum methods"
	r := vschema.NewRand(cfg.Seed + 19)
	// registered file descriptor equals the request's
	for _, rep := range reps {
		if !rep.OK {
			continue
		}
		req := loadReq(rep.ReqPath)
		if req == nil {
			continue
		}
		want := req.ProtoFile[len(req.ProtoFile)-1]
		out.Case("filedesc:"+rep.ID, true)
		fd, err := protoregistry.GlobalFiles.FindFileByPath(want.GetName())
		if err != nil {
			out.Violate("C19", "file-not-registered", "generated package did not register "+want.GetName(), "request "+rep.ReqPath)
			continue
		}
		got := protodesc.ToFileDescriptorProto(fd)
		if !proto.Equal(got, want) {
			out.Violate("C19", "file-descriptor-differs", "registered descriptor of "+want.GetName()+" differs from the schema given to the generator", "request "+rep.ReqPath)
		}
	}
	targets := loadTargets()
	n := 25
	if cfg.Tier == "thorough" {
		n = 1500
	}
	for _, t := range targets {
		out.res.Programs++
		replay := "desc " + t.Full
		md := t.Desc
		// registries
		mt, err := protoregistry.GlobalTypes.FindMessageByName(md.FullName())
		if err != nil {
			out.Violate("C19", "type-not-registered", t.Full+" not in GlobalTypes", replay)
			continue
		}
		d2, err := protoregistry.GlobalFiles.FindDescriptorByName(md.FullName())
		if err != nil || d2 != protoreflect.Descriptor(md) {
			out.Violate("C19", "descriptor-identity", "descriptor reported by the message is not the one the file registry holds", replay)
		}
		if mt.Descriptor() != md {
			out.Violate("C19", "descriptor-identity", "registered message type has another descriptor", replay)
		}
		goT := reflect.TypeOf(t.Info.Proto)
		for what, v := range map[string]interface{}{
			"registry.New":  mt.New().Interface(),
			"registry.Zero": mt.Zero().Interface(),
			"Type().New":    t.Info.Proto.ProtoReflect().Type().New().Interface(),
			"Type().Zero":   t.Info.Proto.ProtoReflect().Type().Zero().Interface(),
			"New":           t.Info.Proto.ProtoReflect().New().Interface(),
		} {
			if reflect.TypeOf(v) != goT {
				out.Violate("C19", "go-type:"+what, fmt.Sprintf("%s yields %T, want %v", what, v, goT), replay)
			}
		}
		if !reflect.ValueOf(mt.Zero().Interface()).IsNil() || reflect.ValueOf(mt.New().Interface()).IsNil() {
			out.Violate("C19", "zero-new", "Zero must be nil and New non-nil", replay)
		}
		if t.Info.Proto.ProtoReflect().Type().Descriptor() != md {
			out.Violate("C19", "descriptor-identity", "Type().Descriptor() differs", replay)
		}
		// every field's enum / message type is the descriptor the registry holds for that name — not a placeholder
		// frozen in while the declaring file was not registered yet (init order across the files of one package)
		{
			fs := md.Fields()
			for i := 0; i < fs.Len(); i++ {
				fd := fs.Get(i)
				var dep protoreflect.Descriptor
				switch {
				case fd.Enum() != nil:
					dep = fd.Enum()
				case fd.IsMap() && fd.MapValue().Message() != nil:
					dep = fd.MapValue().Message()
				case fd.IsMap() && fd.MapValue().Enum() != nil:
					dep = fd.MapValue().Enum()
				case fd.Message() != nil && !fd.IsMap():
					dep = fd.Message()
				}
				if dep == nil {
					continue
				}
				if dep.IsPlaceholder() {
					out.Violate("C19", "placeholder-dependency", fmt.Sprintf("field %s: its type %s is a placeholder descriptor (declaring file not resolved)", fd.FullName(), dep.FullName()), replay)
					continue
				}
				if reg, err := protoregistry.GlobalFiles.FindDescriptorByName(dep.FullName()); err != nil || reg != dep {
					out.Violate("C19", "descriptor-identity", fmt.Sprintf("field %s: its type %s is not the registered descriptor of that name", fd.FullName(), dep.FullName()), replay)
				}
			}
			imps := md.ParentFile().Imports()
			for i := 0; i < imps.Len(); i++ {
				if imps.Get(i).IsPlaceholder() {
					out.Violate("C19", "placeholder-dependency", fmt.Sprintf("file %s: import %s is a placeholder", md.ParentFile().Path(), imps.Get(i).Path()), replay)
				}
			}
		}
		// enums of this message's file: file-level ones and the ones nested in its messages (at any depth)
		var allEnums []protoreflect.EnumDescriptor
		{
			fe := md.ParentFile().Enums()
			for i := 0; i < fe.Len(); i++ {
				allEnums = append(allEnums, fe.Get(i))
			}
			var walkM func(ms protoreflect.MessageDescriptors)
			walkM = func(ms protoreflect.MessageDescriptors) {
				for i := 0; i < ms.Len(); i++ {
					ne := ms.Get(i).Enums()
					for k := 0; k < ne.Len(); k++ {
						allEnums = append(allEnums, ne.Get(k))
					}
					walkM(ms.Get(i).Messages())
				}
			}
			walkM(md.ParentFile().Messages())
		}
		for _, ed := range allEnums {
			et, err := protoregistry.GlobalTypes.FindEnumByName(ed.FullName())
			if err != nil {
				out.Violate("C19", "enum-not-registered", string(ed.FullName()), replay)
				continue
			}
			if et.Descriptor() != ed {
				out.Violate("C19", "enum-methods", "registered enum type of "+string(ed.FullName())+" has another descriptor", replay)
			}
			// a number the enum does not declare: String() is the decimal number, Number() keeps it
			undeclared := protoreflect.EnumNumber(1234567)
			if ed.Values().ByNumber(undeclared) == nil {
				e := et.New(undeclared)
				if s, ok := e.(fmt.Stringer); e.Number() != undeclared || e.Descriptor() != ed || (ok && s.String() != "1234567") {
					out.Violate("C19", "enum-methods", "undeclared number of "+string(ed.FullName())+fmt.Sprintf(": Number()=%d String()=%v", e.Number(), e), replay)
				}
			}
			for j := 0; j < ed.Values().Len(); j++ {
				ev := ed.Values().Get(j)
				e := et.New(ev.Number())
				if e.Number() != ev.Number() || e.Descriptor() != ed || e.Type().Descriptor() != ed {
					out.Violate("C19", "enum-methods", "enum Number/Descriptor/Type mismatch for "+string(ev.FullName()), replay)
				}
				if s, ok := e.(fmt.Stringer); ok && s.String() != string(ev.Name()) {
					// the first declared name wins for aliased numbers
					if ed.Values().ByNumber(ev.Number()).Name() != protoreflect.Name(s.String()) {
						out.Violate("C19", "enum-string", fmt.Sprintf("enum String()=%s want %s", s.String(), ev.Name()), replay)
					}
				}
			}
		}
		// getters, Reset, String on random values and nil
		getters := descGetters(goT)
		for c := 0; c < n; c++ {
			var msg proto.Message
			var vs string
			nan := false
			if c == 0 {
				msg = reflect.Zero(goT).Interface().(proto.Message)
				vs = "_"
			} else {
				g := &vval.GenOpts{MaxDepth: 2, EnumNums: enumNums(t)} // unknown fields do not survive text format
				v := g.Message(r, t.S, 0, 0)
				if hasSNaN32(t.S, 0, v) {
					continue
				}
				vs = v.String()
				msg = t.B.ToMessage(0, v)
				nan = hasNaN(t.S, 0, v) // text format does not preserve NaN payloads
			}
			out.Case(t.Full+vs, c > 0)
			rp := replay + " " + vs
			m := msg.ProtoReflect()
			fds := md.Fields()
			for i := 0; i < fds.Len(); i++ {
				fd := fds.Get(i)
				gm, ok := getters[string(fd.Name())]
				if !ok {
					continue
				}
				var gv reflect.Value
				p, pm := guard(func() { gv = reflect.ValueOf(msg).Method(gm).Call(nil)[0] })
				if p {
					out.Violate("C19", "getter-panic", "getter for "+string(fd.FullName())+" panicked: "+firstLine(pm), rp)
					continue
				}
				if !getterAgrees(gv, m.Get(fd), fd) {
					out.Violate("C19", "getter-differs", fmt.Sprintf("getter of %s returns %v, Get returns %v", fd.FullName(), gv, m.Get(fd)), rp)
				}
			}
			if c == 0 {
				continue
			}
			// String renders text that parses back to an equal message
			if s, ok := msg.(fmt.Stringer); ok && !nan {
				back := m.New().Interface()
				if err := prototext.Unmarshal([]byte(s.String()), back); err != nil {
					out.Violate("C19", "string-unparsable", "String() output does not parse: "+err.Error(), rp)
				} else if vval.FromReflect(t.S, 0, back.ProtoReflect()).String() != vval.FromReflect(t.S, 0, m).String() {
					out.Violate("C19", "string-roundtrip", "String() -> prototext.Unmarshal gives a different message", rp)
				}
			}
			// Reset empties the message
			cl := proto.Clone(msg)
			if rs, ok := cl.(interface{ Reset() }); ok {
				rs.Reset()
				if vval.RepNorm(t.S, 0, t.B.FromMessage(0, cl)).String() != vval.RepNorm(t.S, 0, vval.Empty(t.S, 0)).String() {
					out.Violate("C19", "reset", "Reset() did not empty the message", rp)
				}
			}
		}
	}
	_ = vreg.Pkgs
}

// getterTable: proto field name -> method index of Get<GoName>, discovered through the struct tags.
func descGetters(pt reflect.Type) map[string]int {
	out := map[string]int{}
	st := pt.Elem()
	add := func(sf reflect.StructField) {
		tag, ok := sf.Tag.Lookup("protobuf")
		if !ok {
			return
		}
		name := ""
		for _, p := range strings.Split(tag, ",") {
			if strings.HasPrefix(p, "name=") {
				name = p[5:]
			}
		}
		if m, ok := pt.MethodByName("Get" + sf.Name); ok && name != "" {
			out[name] = m.Index
		}
	}
	for i := 0; i < st.NumField(); i++ {
		add(st.Field(i))
	}
	// oneof members: wrapper struct fields
	for _, p := range vreg.Pkgs {
		for _, mi := range p.Messages {
			if reflect.TypeOf(mi.Proto) == pt {
				for _, w := range mi.Wrappers {
					add(reflect.TypeOf(w).Elem().Field(0))
				}
			}
		}
	}
	return out
}

func getterAgrees(g reflect.Value, v protoreflect.Value, fd protoreflect.FieldDescriptor) bool {
	switch {
	case fd.IsList():
		l := v.List()
		if g.Len() != l.Len() {
			return false
		}
		for i := 0; i < l.Len(); i++ {
			if !scalarAgrees(g.Index(i), l.Get(i), fd) {
				return false
			}
		}
		return true
	case fd.IsMap():
		mp := v.Map()
		if g.Len() != mp.Len() {
			return false
		}
		ok := true
		mp.Range(func(k protoreflect.MapKey, mv protoreflect.Value) bool {
			kv := reflect.ValueOf(k.Interface()).Convert(g.Type().Key())
			e := g.MapIndex(kv)
			if !e.IsValid() || !scalarAgrees(e, mv, fd.MapValue()) {
				ok = false
			}
			return ok
		})
		return ok
	}
	return scalarAgrees(g, v, fd)
}

func scalarAgrees(g reflect.Value, v protoreflect.Value, fd protoreflect.FieldDescriptor) bool {
	switch fd.Kind() {
	case protoreflect.MessageKind, protoreflect.GroupKind:
		if g.IsNil() {
			return !v.Message().IsValid()
		}
		return v.Message().IsValid() && g.Interface().(proto.Message).ProtoReflect() == v.Message() ||
			reflect.ValueOf(v.Message().Interface()).Pointer() == g.Pointer()
	case protoreflect.BoolKind:
		return g.Bool() == v.Bool()
	case protoreflect.EnumKind:
		return g.Int() == int64(v.Enum())
	case protoreflect.Int32Kind, protoreflect.Sint32Kind, protoreflect.Sfixed32Kind, protoreflect.Int64Kind, protoreflect.Sint64Kind, protoreflect.Sfixed64Kind:
		return g.Int() == v.Int()
	case protoreflect.Uint32Kind, protoreflect.Fixed32Kind, protoreflect.Uint64Kind, protoreflect.Fixed64Kind:
		return g.Uint() == v.Uint()
	case protoreflect.FloatKind, protoreflect.DoubleKind:
		a, b := g.Float(), v.Float()
		return a == b || (a != a && b != b)
	case protoreflect.StringKind:
		return g.String() == v.String()
	case protoreflect.BytesKind:
		return bytes.Equal(g.Bytes(), v.Bytes())
	}
	return false
}

var reMsgIdx = regexp.MustCompile(`func \(x \*(\w+)\) slowProtoReflect\(\) protoreflect\.Message \{\s*mi := &\w+_msgTypes\[(\d+)\]`)
var reChain = regexp.MustCompile(`md_(\w+) = File_\w+((?:\.Messages\(\)\.ByName\("\w+"\))+)`)
var reByName = regexp.MustCompile(`ByName\("(\w+)"\)`)

// indexLines: ties the Lean model of the flattened message order / index scan / parent chain to the
// tables actually emitted: for every message of the file, `msgindex <forest> <dotted name>` must give
// the N of `&file_x_msgTypes[N]` and the ByName chain printed in the emitted init().
func indexLines(out *Out, fd *descriptorpb.FileDescriptorProto, src string) {
	var forest func(ms []*descriptorpb.DescriptorProto) string
	forest = func(ms []*descriptorpb.DescriptorProto) string {
		var parts []string
		for _, m := range ms {
			if len(m.NestedType) > 0 {
				parts = append(parts, m.GetName()+"("+forest(m.NestedType)+")")
			} else {
				parts = append(parts, m.GetName())
			}
		}
		return strings.Join(parts, ",")
	}
	f := forest(fd.MessageType)
	if f == "" {
		return
	}
	idx := map[string]string{}
	for _, m := range reMsgIdx.FindAllStringSubmatch(src, -1) {
		idx[m[1]] = m[2]
	}
	chain := map[string]string{}
	for _, m := range reChain.FindAllStringSubmatch(src, -1) {
		var names []string
		for _, b := range reByName.FindAllStringSubmatch(m[2], -1) {
			names = append(names, b[1])
		}
		chain[m[1]] = strings.Join(names, ",")
	}
	var walk func(ms []*descriptorpb.DescriptorProto, dotted, goName []string)
	walk = func(ms []*descriptorpb.DescriptorProto, dotted, goName []string) {
		for _, m := range ms {
			d := append(append([]string(nil), dotted...), m.GetName())
			g := append(append([]string(nil), goName...), m.GetName())
			if !m.GetOptions().GetMapEntry() {
				gn := strings.Join(g, "_")
				if n, ok := idx[gn]; ok {
					out.Line("C19,C13", "msgindex "+f+" "+strings.Join(d, "."), "ok "+n+" "+chain[gn])
				}
			}
			walk(m.NestedType, d, g)
		}
	}
	walk(fd.MessageType, nil, nil)
}

var reStructField = regexp.MustCompile("(?m)^\\s+(\\w+)\\s+\\S+\\s+`protobuf:\"[^\"]*name=(\\w+)[,\"]")
var reOneofField = regexp.MustCompile("(?m)^\\s+(\\w+)\\s+is\\w+\\s+`protobuf_oneof:\"(\\w+)\"`")

// nameLines: ties the Lean model of the reserved-name rewrite to the struct field names actually
// emitted: `goname <protogen CamelCase name>` must give the Go field name found next to the
// `name=<proto name>` tag (fields) / the `protobuf_oneof:"<name>"` tag (oneofs).
func nameLines(out *Out, fd *descriptorpb.FileDescriptorProto, src string) {
	seen := map[string]bool{}
	for _, m := range reStructField.FindAllStringSubmatch(src, -1) {
		goName, protoName := m[1], m[2]
		camel := goCamel(protoName)
		if seen["f"+camel+goName] || strings.Contains(camel, "_") && false {
			continue
		}
		seen["f"+camel+goName] = true
		out.Line("C12", "goname "+protogenUnique(camel), goName)
	}
	for _, m := range reOneofField.FindAllStringSubmatch(src, -1) {
		goName, protoName := m[1], m[2]
		camel := goCamel(protoName)
		if seen["o"+camel+goName] {
			continue
		}
		seen["o"+camel+goName] = true
		out.Line("C12", "goname "+camel, goName)
	}
	_ = fd
}

// goCamel: protogen's GoCamelCase for the simple identifiers the corpus uses.
func goCamel(s string) string {
	var b []byte
	for i := 0; i < len(s); i++ {
		c := s[i]
		switch {
		case c == '_' && i+1 < len(s) && s[i+1] >= 'a' && s[i+1] <= 'z':
			// skip the underscore, upper-case the next letter
		case c == '.' && i+1 < len(s) && s[i+1] >= 'a' && s[i+1] <= 'z':
		case i == 0 && c == '_':
			b = append(b, 'X')
		case c >= '0' && c <= '9':
			b = append(b, c)
		default:
			if (i == 0 || s[i-1] == '_' || s[i-1] == '.') && c >= 'a' && c <= 'z' {
				c -= 'a' - 'A'
			}
			b = append(b, c)
		}
	}
	return string(b)
}

// protogenUnique: protogen (trusted) already suffixes names colliding with methods of every generated
// message before the plugin's own rewrite sees them.
func protogenUnique(n string) string {
	switch n {
	case "Reset", "String", "ProtoMessage", "Marshal", "Unmarshal", "ExtensionRangeArray", "ExtensionMap", "Descriptor":
		return n + "_"
	}
	return n
}

var reGoTypesBlock = regexp.MustCompile(`(?s)var file_\w+_goTypes = \[\]interface\{\}\{\n(.*?)\n\}`)
var reDepIdxsBlock = regexp.MustCompile(`(?s)var file_\w+_depIdxs = \[\]int32\{\n(.*?)\n\}`)
var reGoTypeRow = regexp.MustCompile(`// (\d+): (\S+)\s*$`)
var reDepRow = regexp.MustCompile(`^\s*(\d+),\s+//`)

// depLines: ties the Lean model of the Go type table and the dependency index table (Pulsar.GenTables, theorems
// C19_depIdx_points_at_declared_type …) to the `file_x_goTypes` / `file_x_depIdxs` variables actually emitted.
// Everything sent to the model is read from the REQUEST's descriptor: enums and messages in flattened order,
// the enum / message / map typed fields of every message in declaration order, the methods.
func depLines(out *Out, fd *descriptorpb.FileDescriptorProto, src string) {
	gb, db := reGoTypesBlock.FindStringSubmatch(src), reDepIdxsBlock.FindStringSubmatch(src)
	if gb == nil || db == nil {
		if len(fd.MessageType)+len(fd.EnumType) > 0 && strings.Contains(src, "_goTypes") {
			out.Count("deptab_tables_not_found")
		}
		return
	}
	var gotTypes, gotDeps []string
	for _, l := range strings.Split(gb[1], "\n") {
		if m := reGoTypeRow.FindStringSubmatch(l); m != nil {
			gotTypes = append(gotTypes, m[2])
		}
	}
	for _, l := range strings.Split(db[1], "\n") {
		if m := reDepRow.FindStringSubmatch(l); m != nil {
			gotDeps = append(gotDeps, m[1])
		}
	}
	if len(gotDeps) < 5 {
		return
	}
	pkg := fd.GetPackage()
	q := func(parent, n string) string {
		if parent == "" {
			if pkg == "" {
				return n
			}
			return pkg + "." + n
		}
		return parent + "." + n
	}
	var enums, msgs, deps []string
	for _, e := range fd.EnumType {
		enums = append(enums, q("", e.GetName()))
	}
	type node struct {
		m    *descriptorpb.DescriptorProto
		full string
	}
	var all []node
	for _, m := range fd.MessageType {
		all = append(all, node{m, q("", m.GetName())})
	}
	var walk func(ms []*descriptorpb.DescriptorProto, parent string)
	walk = func(ms []*descriptorpb.DescriptorProto, parent string) {
		for _, m := range ms {
			full := q(parent, m.GetName())
			for _, e := range m.EnumType {
				enums = append(enums, full+"."+e.GetName())
			}
			for _, c := range m.NestedType {
				all = append(all, node{c, full + "." + c.GetName()})
			}
			walk(m.NestedType, full)
		}
	}
	walk(fd.MessageType, "")
	for _, n := range all {
		msgs = append(msgs, n.full)
		var ds []string
		for _, f := range n.m.Field {
			if tn := f.GetTypeName(); tn != "" {
				ds = append(ds, strings.TrimPrefix(tn, "."))
			}
		}
		deps = append(deps, strings.Join(ds, ","))
	}
	var methods []string
	for _, sv := range fd.Service {
		for _, m := range sv.Method {
			methods = append(methods, strings.TrimPrefix(m.GetInputType(), ".")+">"+strings.TrimPrefix(m.GetOutputType(), "."))
		}
	}
	// extension declarations in flattened order: those of the file, then those nested in messages (pre-order)
	var exts []string
	addExts := func(xs []*descriptorpb.FieldDescriptorProto) {
		for _, x := range xs {
			t := strings.TrimPrefix(x.GetExtendee(), ".")
			if tn := x.GetTypeName(); tn != "" {
				t += ":" + strings.TrimPrefix(tn, ".")
			}
			exts = append(exts, t)
		}
	}
	addExts(fd.Extension)
	var walkExt func(ms []*descriptorpb.DescriptorProto)
	walkExt = func(ms []*descriptorpb.DescriptorProto) {
		for _, m := range ms {
			addExts(m.Extension)
			walkExt(m.NestedType)
		}
	}
	walkExt(fd.MessageType)
	ls := func(l []string) string {
		if len(l) == 0 {
			return "-"
		}
		return strings.Join(l, ",")
	}
	depTok := "-"
	if len(deps) > 0 {
		depTok = strings.Join(deps, ";")
		if depTok == "" {
			depTok = "-" // a single message without typed fields
			if len(deps) > 1 {
				depTok = strings.Repeat(";", len(deps)-1)
			}
		}
	}
	n := len(gotDeps)
	out.Count("deptab_lines")
	out.Line("C19,C12", "deptab "+ls(enums)+" "+ls(msgs)+" "+depTok+" "+ls(exts)+" "+ls(methods),
		"ok "+ls(gotTypes)+" "+ls(gotDeps[:n-5])+" "+ls(gotDeps[n-5:]))
}
