package main

import (
	"fmt"
	"reflect"
	"regexp"
	"runtime"
	"strings"
	"unicode/utf8"

	"github.com/cosmos/cosmos-proto/internal/verifh/vschema"
	"github.com/cosmos/cosmos-proto/rapidproto"
	"pgregory.net/rapid"
	"google.golang.org/protobuf/proto"
	"google.golang.org/protobuf/reflect/protoreflect"
	"google.golang.org/protobuf/reflect/protoregistry"
	"google.golang.org/protobuf/types/dynamicpb"
	"google.golang.org/protobuf/types/known/anypb"
	"google.golang.org/protobuf/types/known/durationpb"
	"google.golang.org/protobuf/types/known/fieldmaskpb"
	"google.golang.org/protobuf/types/known/timestamppb"
)

func init() { engines["rapid"] = runRapid }

var pathRe = regexp.MustCompile(`^[a-z]+([.][a-z]+){0,2}$`)

// exampleOf calls gen.Example(seed) through reflection (MessageGenerator is generic).
func exampleOf(t *Target, opts rapidproto.GeneratorOptions, seed int) (m proto.Message, panicked bool, msg string) {
	panicked, msg = guard(func() {
		m = genExample(t.Info.Proto, opts, seed)
	})
	return
}

// genExample instantiates rapidproto.MessageGenerator[proto.Message]: the generator only uses
// x.ProtoReflect().Type(), so the interface instantiation is enough.
func genExample(x proto.Message, opts rapidproto.GeneratorOptions, seed int) proto.Message {
	g := rapidproto.MessageGenerator[proto.Message](x, opts)
	return g.Example(seed)
}

// C18: rapidproto generators yield valid, well-formed messages.
func runRapid(cfg *Cfg) {
	out := newOut(cfg.Out, "rapid")
	defer out.Close()
	out.res.Rule = "MessageGenerator(x, opts).Example(seed) for every registered generated message type (incl. recursive ones and ones embedding Any/Timestamp/Duration/FieldMask) x option sets (default, NoEmptyLists, DisallowNilMessages, AnyTypeURLs+Resolver, field mapper) x seeds; each message checked: reference marshaller accepts, wire round trip, UTF-8, Timestamp/Duration valid, Any resolvable and decodable, FieldMask paths drawn (1..5, grammar), enum values declared, options honoured"
	targets := loadTargets()
	seeds := 12
	if cfg.Tier == "thorough" {
		seeds = 400
	}
	anyTypes := []proto.Message{}
	for _, t := range targets {
		if strings.HasPrefix(t.Full, "vc.ga.") || t.Full == "B" || t.Full == "vc.mx.M1" {
			anyTypes = append(anyTypes, t.Info.Proto)
		}
	}
	mapperHits := 0
	optSets := []struct {
		name string
		o    rapidproto.GeneratorOptions
	}{
		{"default", rapidproto.GeneratorOptions{}},
		{"noemptylists", rapidproto.GeneratorOptions{NoEmptyLists: true}},
		{"disallownil", rapidproto.GeneratorOptions{}.WithDisallowNil()},
		{"any", rapidproto.GeneratorOptions{Resolver: protoregistry.GlobalTypes}.WithAnyTypes(anyTypes...)},
		{"any+all", rapidproto.GeneratorOptions{Resolver: protoregistry.GlobalTypes, NoEmptyLists: true, DisallowNilMessages: true}.WithAnyTypes(anyTypes...)},
		{"mapper", rapidproto.GeneratorOptions{}},
	}
	drawSeeds := 3
	if cfg.Tier == "thorough" {
		drawSeeds = 60
	}
	wktLines(out, cfg, 4*drawSeeds)
	anyHintPass(out, cfg)
	ownWktPass(out, cfg)
	deepChainPass(out, cfg)
	aliasEnumPass(out, cfg)
	for _, t := range targets {
		if est := expectedNodes(t.S, 0, 0, map[[2]int]float64{}); est <= 20000 {
			// draw-level correspondence with the Lean model (RAPID_PROTOCOL.md)
			drawLines(out, cfg, t, drawSeeds)
		}
	}
	for _, t := range targets {
		if est := expectedNodes(t.S, 0, 0, map[[2]int]float64{}); est > 20000 {
			// the generator is exponential on types that reach themselves through repeated/map fields
			// (up to 10 elements per level, 10 levels): it terminates, but not within a test budget.
			// Such types are probed with a field mapper that watches the recursion depth of setFields
			// on the call stack (must stay within the nesting limit) and aborts on a draw budget.
			out.Count("types_probed_with_depth_guard")
			guardSeeds := 12
			if cfg.Tier == "thorough" {
				guardSeeds = 300
			}
			for seed := 0; seed < guardSeeds; seed++ {
				sd := int(cfg.Seed)*100000 + seed
				replay := fmt.Sprintf("rapid %s opts=depthguard seed=%d", t.Full, sd)
				calls := 0
				maxDepth := 0
				guardMapper := func(_ *rapidT, _ protoreflect.FieldDescriptor, _ string) (protoreflect.Value, bool) {
					calls++
					if calls < 20000 || calls%64 == 1 {
						pcs := make([]uintptr, 4096)
						n := runtime.Callers(0, pcs)
						frames := runtime.CallersFrames(pcs[:n])
						d := 0
						for {
							fr, more := frames.Next()
							if strings.HasSuffix(fr.Function, ".setFields") {
								d++
							}
							if !more {
								break
							}
						}
						if d > maxDepth {
							maxDepth = d
						}
						if d > 14 {
							panic(fmt.Sprintf("NESTING %d nested setFields calls: the nesting limit (10) is not enforced", d))
						}
					}
					if calls > 60000 {
						panic("BUDGET")
					}
					return protoreflect.Value{}, false
				}
				opts := rapidproto.GeneratorOptions{FieldMaps: []rapidproto.FieldMapper{guardMapper}}
				_, p, pm := exampleOf(t, opts, sd)
				out.Case(replay, true)
				if maxDepth > out.res.Stats["guard_max_setFields_depth"] {
					out.res.Stats["guard_max_setFields_depth"] = maxDepth
				}
				if maxDepth > 14 || (p && strings.Contains(pm, "NESTING")) {
					pm = fmt.Sprintf("NESTING %d nested setFields calls: the nesting limit (10) is not enforced", maxDepth)
					out.Violate("C18", "gen-exceeds-nesting-limit", firstLine(pm[strings.Index(pm, "NESTING"):]), replay)
					break
				}
				if p && !strings.Contains(pm, "BUDGET") && !strings.Contains(pm, "failed to generate") && !strings.Contains(pm, "NESTING") {
					out.Violate("C18", "gen-panic:depthguard", "generator failed: "+firstLine(pm), replay)
					break
				}
				if p {
					out.Count("depth_guard_budget_exhausted")
				}
			}
			continue
		}
		out.res.Programs++
		for _, os := range optSets {
			for seed := 0; seed < seeds; seed++ {
				sd := int(cfg.Seed)*100000 + seed
				replay := fmt.Sprintf("rapid %s opts=%s seed=%d", t.Full, os.name, sd)
				opts := os.o
				if os.name == "mapper" {
					opts.FieldMaps = []rapidproto.FieldMapper{stringMapper(&mapperHits)}
				}
				m, p, pm := exampleOf(t, opts, sd)
				out.Case(replay, true)
				if p {
					out.Violate("C18", "gen-panic:"+os.name, "generator failed: "+firstLine(pm), replay)
					continue
				}
				if seed == 0 && os.name == "default" && len(out.res.Samples) < 4 {
					out.Sample(replay)
				}
				checkGenerated(out, t, os.name, opts, m, replay)
			}
		}
	}
	out.res.Stats["mapper_hits"] = mapperHits
}

func firstLine(s string) string {
	if i := strings.IndexByte(s, '\n'); i >= 0 {
		s = s[:i]
	}
	if len(s) > 300 {
		s = s[:300]
	}
	return s
}

func stringMapper(hits *int) rapidproto.FieldMapper {
	return func(t *rapidT, fd protoreflect.FieldDescriptor, name string) (protoreflect.Value, bool) {
		if fd.Kind() == protoreflect.StringKind {
			*hits++
			return protoreflect.ValueOfString("mapped"), true
		}
		return protoreflect.Value{}, false
	}
}

func checkGenerated(out *Out, t *Target, oname string, opts rapidproto.GeneratorOptions, m proto.Message, replay string) {
	if m == nil || reflect.ValueOf(m).IsNil() {
		out.Violate("C18", "gen-nil", "generator returned nil", replay)
		return
	}
	// reference marshaller accepts: transport into dynamicpb through the wire and re-marshal there
	b, err := proto.Marshal(m)
	if err != nil {
		out.Violate("C18", "marshal", "generated message does not marshal: "+err.Error(), replay)
		return
	}
	dyn := dynamicpb.NewMessage(t.Desc)
	if err := proto.Unmarshal(b, dyn); err != nil {
		out.Violate("C18", "reference-rejects", "reference decoder rejects the generated message: "+err.Error(), replay)
		return
	}
	if _, err := proto.Marshal(dyn); err != nil {
		out.Violate("C18", "reference-marshal", "reference marshaller rejects: "+err.Error(), replay)
	}
	back := m.ProtoReflect().New().Interface()
	if err := proto.Unmarshal(b, back); err != nil || !proto.Equal(dyn, func() proto.Message {
		d2 := dynamicpb.NewMessage(t.Desc)
		bb, _ := proto.Marshal(back)
		_ = proto.Unmarshal(bb, d2)
		return d2
	}()) {
		// NaN makes Equal false legitimately; compare deterministic bytes instead
		b1, _ := proto.MarshalOptions{Deterministic: true}.Marshal(dyn)
		bb, _ := proto.MarshalOptions{Deterministic: true}.Marshal(back)
		d2 := dynamicpb.NewMessage(t.Desc)
		_ = proto.Unmarshal(bb, d2)
		b2, _ := proto.MarshalOptions{Deterministic: true}.Marshal(d2)
		if err != nil || string(b1) != string(b2) {
			out.Violate("C18", "roundtrip", "generated message does not round-trip through the wire", replay)
		}
	}
	walkGenerated(out, oname, opts, m.ProtoReflect(), replay, 0)
}

func walkGenerated(out *Out, oname string, opts rapidproto.GeneratorOptions, m protoreflect.Message, replay string, depth int) {
	md := m.Descriptor()
	switch md.FullName() {
	case "google.protobuf.Timestamp":
		ts := &timestamppb.Timestamp{}
		copyInto(m, ts)
		if err := ts.CheckValid(); err != nil {
			out.Violate("C18", "timestamp-invalid", err.Error(), replay)
		}
		out.Count("timestamps")
		return
	case "google.protobuf.Duration":
		d := &durationpb.Duration{}
		copyInto(m, d)
		if err := d.CheckValid(); err != nil {
			out.Violate("C18", "duration-invalid", err.Error(), replay)
		}
		out.Count("durations")
		return
	case "google.protobuf.FieldMask":
		fm := &fieldmaskpb.FieldMask{}
		copyInto(m, fm)
		out.Count("fieldmasks")
		if len(fm.Paths) < 1 || len(fm.Paths) > 5 {
			out.Violate("C18", "fieldmask-paths", fmt.Sprintf("FieldMask carries %d paths (1..5 are always drawn)", len(fm.Paths)), replay)
		}
		for _, p := range fm.Paths {
			if !pathRe.MatchString(p) {
				out.Violate("C18", "fieldmask-paths", "path not of the drawn grammar: "+p, replay)
			}
		}
		return
	case "google.protobuf.Any":
		a := &anypb.Any{}
		copyInto(m, a)
		out.Count("anys")
		if len(opts.AnyTypeURLs) == 0 {
			out.Count("anys_without_urls_configured")
			return
		}
		mt, err := protoregistry.GlobalTypes.FindMessageByURL(a.TypeUrl)
		if err != nil {
			out.Violate("C18", "any-unresolvable", "Any type URL "+a.TypeUrl+" does not resolve", replay)
			return
		}
		inner := mt.New().Interface()
		if err := proto.Unmarshal(a.Value, inner); err != nil {
			out.Violate("C18", "any-undecodable", "Any value does not decode as "+a.TypeUrl, replay)
			return
		}
		walkGenerated(out, oname, opts, inner.ProtoReflect(), replay, depth+1)
		return
	}
	fds := md.Fields()
	for i := 0; i < fds.Len(); i++ {
		fd := fds.Get(i)
		el := func(v protoreflect.Value, f protoreflect.FieldDescriptor) {
			switch f.Kind() {
			case protoreflect.StringKind:
				if !utf8.ValidString(v.String()) {
					out.Violate("C18", "utf8", "invalid UTF-8 string in field "+string(f.FullName()), replay)
				}
				if oname == "mapper" && v.String() != "mapped" {
					out.Violate("C18", "mapper-ignored", "field mapper not honoured for "+string(f.FullName()), replay)
				}
			case protoreflect.EnumKind:
				if f.Enum().Values().ByNumber(v.Enum()) == nil {
					out.Violate("C18", "enum-undeclared", fmt.Sprintf("enum field %s holds undeclared number %d", f.FullName(), v.Enum()), replay)
				}
				out.Count("enums")
			case protoreflect.MessageKind:
				if !v.Message().IsValid() {
					out.Violate("C18", "nil-element", "nil message inside a container in "+string(f.FullName()), replay)
					return
				}
				walkGenerated(out, oname, opts, v.Message(), replay, depth+1)
			}
		}
		switch {
		case fd.IsList():
			l := m.Get(fd).List()
			if opts.NoEmptyLists && l.Len() == 0 && depth <= 10 {
				// what the draw-level model proves (C18_draws_noEmptyLists, `nelField`): in every message filled within the
				// nesting limit (depth <= 10) a scalar list has an element; a MESSAGE list has one when nil messages are
				// disallowed as well and its holder sits at depth < 10 (its elements, one level down, are still within
				// the limit); without DisallowNilMessages the elements may all have been drawn as nil and truncated
				if fd.Kind() != protoreflect.MessageKind {
					if depth < 9 {
						out.Violate("C18", "empty-list", "NoEmptyLists: empty list in "+string(fd.FullName()), replay)
					}
				} else if opts.DisallowNilMessages && depth < 10 && !isWKT(m.Descriptor().FullName()) {
					out.Violate("C18", "empty-message-list", fmt.Sprintf("NoEmptyLists + DisallowNilMessages: empty message list %s in a message at nesting level %d (its elements would be within the nesting limit)", fd.FullName(), depth), replay)
				} else {
					out.Count("empty_message_lists_under_noemptylists")
				}
			}
			for j := 0; j < l.Len(); j++ {
				el(l.Get(j), fd)
			}
		case fd.IsMap():
			m.Get(fd).Map().Range(func(k protoreflect.MapKey, v protoreflect.Value) bool {
				if fd.MapKey().Kind() == protoreflect.StringKind && !utf8.ValidString(k.String()) {
					out.Violate("C18", "utf8", "invalid UTF-8 map key in "+string(fd.FullName()), replay)
				}
				el(v, fd.MapValue())
				return true
			})
		case fd.Kind() == protoreflect.MessageKind:
			if !m.Has(fd) {
				if fd.ContainingOneof() != nil {
					continue // only one member of a oneof can be set
				}
				if opts.DisallowNilMessages && depth < 9 && !(fd.Message().FullName() == "google.protobuf.Any" && len(opts.AnyTypeURLs) == 0) {
					out.Violate("C18", "nil-message", "DisallowNilMessages: unset message field "+string(fd.FullName())+fmt.Sprintf(" at depth %d", depth), replay)
				}
				continue
			}
			el(m.Get(fd), fd)
		default:
			if fd.ContainingOneof() != nil && !m.Has(fd) {
				continue
			}
			el(m.Get(fd), fd)
		}
	}
}

func copyInto(src protoreflect.Message, dst proto.Message) {
	b, _ := proto.Marshal(src.Interface())
	_ = proto.Unmarshal(b, dst)
}

type rapidT = rapid.T

// expectedNodes: rough expected number of messages rapidproto creates for message mi at depth d.
func expectedNodes(s *vschema.Schema, mi, d int, memo map[[2]int]float64) float64 {
	if d > 10 {
		return 0
	}
	if v, ok := memo[[2]int{mi, d}]; ok {
		return v
	}
	memo[[2]int{mi, d}] = 1e9 // cycle guard at the same depth (cannot happen: depth increases)
	n := 1.0
	for _, f := range s.Msgs[mi].Fields {
		if !f.IsMsg {
			continue
		}
		c := expectedNodes(s, f.Msg, d+1, memo)
		switch f.Shape {
		case vschema.Repeated, vschema.Map:
			n += 5 * c
		default:
			n += 0.75 * c
		}
		if n > 1e9 {
			n = 1e9
		}
	}
	memo[[2]int{mi, d}] = n
	return n
}


func isWKT(n protoreflect.FullName) bool {
	return strings.HasPrefix(string(n), "google.protobuf.")
}
