package main

import (
	"bytes"
	"reflect"
	"unsafe"

	"github.com/cosmos/cosmos-proto/internal/verifh/vval"
	"google.golang.org/protobuf/encoding/protojson"
	"google.golang.org/protobuf/proto"
	"google.golang.org/protobuf/reflect/protoreflect"
)

// scribble overwrites, in place, every byte of every []byte reachable from the generated struct
// (bytes fields in every position, unknownFields at every depth).
func scribble(v reflect.Value, depth int) {
	if depth > 12 {
		return
	}
	switch v.Kind() {
	case reflect.Ptr, reflect.Interface:
		if !v.IsNil() {
			scribble(v.Elem(), depth+1)
		}
	case reflect.Struct:
		for i := 0; i < v.NumField(); i++ {
			f := v.Field(i)
			name := v.Type().Field(i).Name
			if name == "state" || name == "sizeCache" {
				continue
			}
			if !f.CanSet() && f.CanAddr() {
				f = reflect.NewAt(f.Type(), unsafe.Pointer(f.UnsafeAddr())).Elem()
			}
			scribble(f, depth+1)
		}
	case reflect.Slice:
		if v.Type().Elem().Kind() == reflect.Uint8 {
			b := v.Bytes()
			for i := range b {
				b[i] ^= 0x5A
			}
			return
		}
		for i := 0; i < v.Len(); i++ {
			scribble(v.Index(i), depth+1)
		}
	case reflect.Map:
		it := v.MapRange()
		for it.Next() {
			scribble(it.Value(), depth+1)
		}
	}
}

// aliasChecks: C07 on the marshal / read-only side.
func aliasChecks(out *Out, t *Target, v *vval.Val, replay func(string) string) {
	msg := t.B.ToMessage(0, v)
	before := vval.Canon(t.S, 0, t.B.FromMessage(0, msg)).String()
	var det, nd []byte
	p, pm := guard(func() {
		_ = proto.Size(msg)
		det, _ = proto.MarshalOptions{Deterministic: true}.Marshal(msg)
		nd, _ = proto.Marshal(msg)
		_ = proto.Equal(msg, msg)
		m := msg.ProtoReflect()
		m.Range(func(fd protoreflect.FieldDescriptor, val protoreflect.Value) bool {
			_ = m.Has(fd)
			_ = m.Get(fd)
			if fd.IsList() {
				l := val.List()
				for i := 0; i < l.Len(); i++ {
					_ = l.Get(i)
				}
			}
			if fd.IsMap() {
				val.Map().Range(func(k protoreflect.MapKey, mv protoreflect.Value) bool { return true })
			}
			return true
		})
		fds := m.Descriptor().Fields()
		for i := 0; i < fds.Len(); i++ {
			_ = m.Get(fds.Get(i))
			_ = m.Has(fds.Get(i))
		}
		ods := m.Descriptor().Oneofs()
		for i := 0; i < ods.Len(); i++ {
			_ = m.WhichOneof(ods.Get(i))
		}
		_ = m.GetUnknown()
		_ = proto.Clone(msg)
		_, _ = protojson.Marshal(msg)
	})
	if p {
		out.Violate("C07", "read-panic", "read-only calls panicked: "+firstLine(pm), replay("alias"))
		return
	}
	after := vval.Canon(t.S, 0, t.B.FromMessage(0, msg)).String()
	if after != before {
		out.Violate("C07", "read-modifies-struct", "read-only calls (Size/Marshal/Equal/Range/Get/Clone/JSON) changed the Go struct", replay("alias"))
	}
	detCopy := append([]byte(nil), det...)
	ndCopy := append([]byte(nil), nd...)
	scribble(reflect.ValueOf(msg), 0)
	if !bytes.Equal(det, detCopy) || !bytes.Equal(nd, ndCopy) {
		out.Violate("C07", "marshal-aliases-message", "bytes returned by Marshal changed when the message's byte slices were overwritten", replay("alias"))
	}
}
