package main

// Engine "reflect": operation histories on the real fast reflection, on dynamicpb and on the struct-based
// slow reflection (REFLECT_PROTOCOL.md), with the direct oracles for C08 (op outputs, state, getters,
// oneof exclusivity, Range), C09 (nil / read-only empty messages, reflect_nil.go) and C10 (library
// algorithms, reflect_lib.go).

import (
	"bytes"
	"fmt"
	"hash/fnv"
	"math"
	"os"
	"reflect"
	"runtime"
	"sort"
	"strconv"
	"strings"
	"sync"

	"github.com/cosmos/cosmos-proto/internal/verifh/vreg"
	"github.com/cosmos/cosmos-proto/internal/verifh/vschema"
	"github.com/cosmos/cosmos-proto/internal/verifh/vval"
	"google.golang.org/protobuf/proto"
	"google.golang.org/protobuf/reflect/protoreflect"
	"google.golang.org/protobuf/types/dynamicpb"
)

func init() { engines["reflect"] = runReflect }

var debugReflect = os.Getenv("VDEBUG") != ""

// tbuf buffers everything one target produces so that targets can run concurrently and still be emitted
// in target order.
type tbuf struct {
	lines   [][3]string
	viols   []Violation
	counts  map[string]int
	cases   []tcase
	samples []string
	perKey  map[string]int
}
type tcase struct {
	sig string
	nt  bool
}

func newTbuf() *tbuf { return &tbuf{counts: map[string]int{}, perKey: map[string]int{}} }

func (b *tbuf) Line(props, in, exp string) { b.lines = append(b.lines, [3]string{props, in, exp}) }
func (b *tbuf) Count(k string)             { b.counts[k]++ }
func (b *tbuf) CountN(k string, n int)     { b.counts[k] += n }
func (b *tbuf) Case(sig string, nt bool) {
	h := fnv.New64a()
	h.Write([]byte(sig))
	b.cases = append(b.cases, tcase{strconv.FormatUint(h.Sum64(), 36), nt})
}
func (b *tbuf) Sample(s string) {
	if len(b.samples) < 2 {
		b.samples = append(b.samples, s)
	}
}
func (b *tbuf) Violate(prop, key, desc, replay string) {
	b.perKey[prop+key]++
	if b.perKey[prop+key] > 3 {
		b.counts["violations_suppressed_repeats_"+prop+":"+key]++
		return
	}
	b.viols = append(b.viols, Violation{prop, key, desc, replay})
}
func (b *tbuf) flush(out *Out) {
	for _, l := range b.lines {
		out.Line(l[0], l[1], l[2])
	}
	for _, v := range b.viols {
		out.Violate(v.Property, v.Key, v.Desc, v.Replay)
	}
	for k, n := range b.counts {
		out.res.Stats[k] += n
	}
	for _, c := range b.cases {
		out.Case(c.sig, c.nt)
	}
	for _, s := range b.samples {
		out.Sample(s)
	}
}

type reflCfg struct {
	histories int
	maxLen    int
	thorough  bool
	libCases  int
}

func runReflect(cfg *Cfg) {
	out := newOut(cfg.Out, "reflect")
	defer out.Close()
	all := loadTargets()
	var targets []*Target
	for _, t := range all {
		if cfg.Only == "" || strings.Contains(t.Full, cfg.Only) {
			targets = append(targets, t)
		}
	}
	rc := reflCfg{histories: 150, maxLen: 25, libCases: 40}
	if cfg.Tier == "thorough" {
		rc = reflCfg{histories: 5000, maxLen: 60, thorough: true, libCases: 600}
	}
	if cfg.N > 0 {
		rc.histories = cfg.N
	}
	out.res.Rule = fmt.Sprintf("for every registered generated message type: %d random operation histories of length 1..%d "+
		"(thorough: plus exhaustive histories up to length 3 over a small op alphabet on small types), each from a junk-free random initial value "+
		"(depth<=2, nil-vs-empty containers, unknown tails; no bad UTF-8, no float32 sNaN). Ops are type-directed by the schema and by the current "+
		"abstract state: all read ops (has get getter which range getu valid llen lget mlen mhas mget mrange size enc; getter = the generated plain-Go Get<Field>() "+
		"called through Go reflect, compared with Get(fd) of the same message and of the references: C19) and write ops (set clear mut newf setu "+
		"lset lapp lappm ltrunc mset mclr mmut reset), addressed to the root or through in/at/mv paths (depth<=%d); about 3%% deliberately invalid "+
		"(out-of-range indexes, mut on scalars, lappm/mmut on scalar containers, bad paths), <1%% flagged misuse (Set of the read-only empty view). "+
		"Every history runs on fast reflection, dynamicpb and slowProtoReflect; after every op outputs, struct view, getters, oneof exclusivity and Range "+
		"are compared. Then the exhaustive nil-message pass (C09) and library-algorithm pass (C10: Equal/Clone/Merge/Reset/CheckInitialized/"+
		"protojson/prototext) on random values and on values reached by histories. distinct = distinct (type, ops, initial value); "+
		"non-trivial = at least one write op that succeeded", rc.histories, rc.maxLen, map[bool]int{false: 2, true: 3}[rc.thorough])

	bufs := make([]*tbuf, len(targets))
	done := make([]chan struct{}, len(targets))
	for i := range done {
		done[i] = make(chan struct{})
	}
	sem := make(chan struct{}, runtime.GOMAXPROCS(0))
	var wg sync.WaitGroup
	go func() {
		for i, t := range targets {
			sem <- struct{}{}
			wg.Add(1)
			go func(i int, t *Target) {
				defer wg.Done()
				defer func() { <-sem }()
				b := newTbuf()
				defer func() {
					if r := recover(); r != nil {
						b.Violate("HARNESS", "engine-panic", fmt.Sprint(r), t.Full)
					}
					bufs[i] = b
					close(done[i])
				}()
				reflectTarget(b, t, cfg.Seed, uint64(i), &rc)
			}(i, t)
		}
	}()
	for i := range targets {
		<-done[i]
		out.res.Programs++
		bufs[i].flush(out)
		bufs[i] = nil
	}
	wg.Wait()
	rb := newTbuf()
	if p, pm := guard(func() { requiredPass(rb) }); p {
		rb.Violate("HARNESS", "required-pass-panic", pm, "required-pass")
	}
	rb.flush(out)
}

func reflectTarget(b *tbuf, t *Target, seed, idx uint64, rc *reflCfg) {
	h := fnv.New64a()
	h.Write([]byte(t.Full))
	r := vschema.NewRand(seed*1000003 + h.Sum64())
	modelOK := t.S.Supported
	if modelOK {
		b.Line("schema", t.S.Line(), "schema wf msgs="+fmt.Sprint(len(t.S.Msgs)))
	} else {
		b.Count("targets_without_model:" + t.S.Why)
	}
	if t.Info.Slow == nil {
		b.Count("targets_without_slow_reflection")
	}
	en := enumNums(t)
	gt := newGetterTable(t)
	g := &opGen{r: r, s: t.S, en: en, long: rc.thorough, getters: gt.names}
	for _, ns := range gt.names {
		for _, n := range ns {
			if n == "" {
				b.Count("getter_methods_not_found")
			} else {
				b.Count("getter_methods_found")
			}
		}
	}
	var reached []*vval.Val // struct views reached by histories (input of the library pass)
	for c := 0; c < rc.histories; c++ {
		init := genInit(r, t, en)
		n := 1 + r.Intn(rc.maxLen)
		g.misuseBudget = 0
		if r.Intn(100) == 0 {
			g.misuseBudget = 1
		}
		hr := &histRun{b: b, t: t, gt: gt, emit: modelOK}
		var final *vval.Val
		if p, pm := guard(func() { final = hr.run(init, n, func(state *vval.Val, k int) *rop { return g.gen(state) }) }); p {
			b.Violate("HARNESS", "history-panic", pm, hr.replay(init))
		}
		if final != nil && len(reached) < rc.libCases && r.Chance(40) {
			reached = append(reached, final)
		}
		if c < 2 && len(hr.line) > 0 {
			b.Sample(hr.line + "  ->  " + hr.expect)
		}
	}
	if rc.thorough {
		exhaustive(b, t, gt, modelOK)
	}
	bytesPass(b, t, gt, modelOK)
	unknownSetPass(b, t)
	rangeViewPass(b, t)
	nilPass(b, t, gt)
	libPass(b, t, r, en, reached, rc.libCases)
}

func genInit(r *vschema.Rand, t *Target, en []int32) *vval.Val {
	for {
		o := &vval.GenOpts{MaxDepth: 2, Unknown: r.Chance(30), EnumNums: en, Budget: 60}
		if r.Chance(15) {
			return vval.Empty(t.S, 0)
		}
		v := o.Message(r, t.S, 0, 0)
		if blobTooLong(v) || hasSNaN32(t.S, 0, v) {
			continue
		}
		return v
	}
}

// navigate follows a path in an abstract state; nil = the message does not exist (reads see the empty message).
func navigate(s *vschema.Schema, state *vval.Val, path []rstep) (cur *vval.Val, mi int) {
	cur = state
	for _, st := range path {
		f := &s.Msgs[mi].Fields[st.j]
		var next *vval.Val
		if cur != nil && st.j < len(cur.Kids) {
			sl := cur.Kids[st.j]
			switch st.kind {
			case "in":
				if sl.T == vval.Msg {
					next = sl
				} else if sl.T == vval.One {
					next = sl.Kids[0]
				}
			case "at":
				if st.i < len(sl.Kids) {
					next = sl.Kids[st.i]
				}
			case "mv":
				for _, e := range sl.Kids {
					if e.Kids[0].String() == st.key.String() {
						next = e.Kids[1]
					}
				}
			}
		}
		cur, mi = next, f.Msg
	}
	return cur, mi
}

// normFlags: validity flags of EMPTY composites are representation-level (allocated-but-empty vs absent).
func normFlags(s string, unpopMsg bool) string {
	switch s {
	case "L0:0", "L1:0":
		return "L?:0"
	case "P0:0", "P1:0":
		return "P?:0"
	case "M0", "M1":
		if unpopMsg {
			return "M?"
		}
	}
	return s
}

type histRun struct {
	b    *tbuf
	t    *Target
	gt   *getterTable
	emit bool
	// exhaustive: no generator statistics; discard = the history contained an op the generator contract excludes
	exhaustive bool
	discard    bool
	// results
	line, expect string
	ops          []*rop
}

func (h *histRun) replay(init *vval.Val) string {
	var ss []string
	for _, o := range h.ops {
		ss = append(ss, o.String())
	}
	return h.t.S.Line() + "\nrefl " + h.t.S.ID + " 0 " + strconv.Itoa(len(h.ops)) + " " + strings.Join(ss, " ; ") + " ; " + init.String() + "\n# type " + h.t.Full
}

// run executes a history of up to n ops produced by next; returns the final struct view of (a) (nil when
// the history could not start).
func (h *histRun) run(init *vval.Val, n int, next func(state *vval.Val, k int) *rop) *vval.Val {
	t, b := h.t, h.b
	S := t.S
	msgA := t.B.ToMessage(0, init)
	dyn := dynamicpb.NewMessage(t.Desc)
	bs, err := proto.Marshal(msgA)
	if err != nil {
		b.Count("init_marshal_error")
		return nil
	}
	if err := proto.Unmarshal(bs, dyn); err != nil {
		b.Count("init_reference_unmarshal_error")
		return nil
	}
	ma := newMach("fast", S, msgA.ProtoReflect())
	ma.getters = h.gt.names // `getter j` calls the generated Get<Field>() here and renders Get(fd) on the references
	mb := newMach("dyn", S, dyn)
	var mc *rmach
	if t.Info.Slow != nil {
		mc = newMach("slow", S, t.Info.Slow(t.B.ToMessage(0, init)))
	}
	state := vval.FromReflect(S, 0, dyn)
	if got := vval.RepNorm(S, 0, t.B.FromMessage(0, msgA)).String(); got != state.String() {
		b.Violate("HARNESS", "init-state", "initial struct view differs from the reference after transport: "+got+" REF "+state.String(), S.Line()+"\n"+init.String())
		return nil
	}
	var outsA, outsB []string
	misuse := false
	hasGetter := false
	wrote := false
	prevCanon := vval.Canon(S, 0, t.B.FromMessage(0, msgA)).String()
	for k := 0; k < n; k++ {
		op := next(state, k)
		if op == nil {
			break
		}
		h.ops = append(h.ops, op)
		ma.variant, mb.variant = k, k
		oa, pa := ma.exec(op)
		ob, _ := mb.exec(op)
		oc := ""
		if mc != nil {
			mc.variant = k
			oc, _ = mc.exec(op)
		}
		outsA = append(outsA, oa)
		outsB = append(outsB, ob)
		b.Count("ops:" + op.name)
		if len(op.path) > 0 {
			b.Count("ops_nested")
		}
		if oa == "panic" {
			b.Count("out_panic:" + op.name)
		} else if oa == "absent" {
			b.Count("out_absent:" + op.name)
		}
		stop := false
		// ---- outputs
		unpop := false
		if op.name == "getter" {
			hasGetter = true
			// C19: the plain Go accessor against reflection. oa = what Get<Field>() returned on the generated struct,
			// ob / oc = Get(fd) of dynamicpb / slow reflection rendered in getter tokens (compared below like every
			// other op), og = Get(fd) of the fast reflection itself on the same message.
			og, _ := ma.exec(&rop{path: op.path, name: "get", j: op.j})
			if cur, _ := navigate(S, state, op.path); cur == nil && oa != "absent" && oa != "panic" {
				b.Count("getter_on_nil_or_unpopulated_message")
			} else if cur != nil && len(op.path) > 0 {
				b.Count("getter_on_nested_message")
			}
			if oa != getterTokens(og) {
				b.Violate("C19", "getter-vs-get", fmt.Sprintf("op %d `%s`: the generated getter returned %s (%s) but Get(fd) of the same message gives %s", k, clip(op.String(), 200), oa, pa, og), h.replay(init))
				stop = true
			}
		}
		if op.name == "get" || op.name == "getter" {
			cur, mi := navigate(S, state, op.path)
			f := S.Msgs[mi].Fields[op.j]
			if f.IsMsg && (f.Shape == vschema.Singular || f.Shape == vschema.Oneof) {
				unpop = cur == nil || (cur.Kids[op.j].T != vval.Msg && cur.Kids[op.j].T != vval.One)
			}
		}
		same := func(x, y string) bool {
			if x == y {
				return true
			}
			if normFlags(x, unpop) == normFlags(y, unpop) {
				b.Count("validity_flag_differs:" + op.name)
				return true
			}
			return false
		}
		if op.misuse {
			misuse = true
			b.Count(fmt.Sprintf("misuse:%s fast=%s dyn=%s slow=%s", op.name, oa, ob, oc))
		} else {
			refAgree := mc == nil || same(ob, oc)
			if !refAgree {
				b.Count("contract_unspecified:" + op.name)
				b.Count(fmt.Sprintf("contract_unspecified_detail:%s dyn=%s slow=%s fast=%s", op.name, clip(ob, 12), clip(oc, 12), clip(oa, 12)))
				if op.isWrite() {
					stop = true
				}
			} else if !same(oa, ob) && op.name == "getter" {
				b.Violate("C19", "getter-output", fmt.Sprintf("op %d `%s`: the generated getter returned %s (%s), Get(fd) of dynamicpb gives %s, of slow reflection %s", k, clip(op.String(), 200), oa, pa, ob, oc), h.replay(init))
				stop = true
			} else if !same(oa, ob) {
				b.Violate("C08", "reflect-output:"+op.name, fmt.Sprintf("op %d `%s`: fast reflection returned %s (%s), dynamicpb %s, slow reflection %s", k, clip(op.String(), 200), oa, pa, ob, oc), h.replay(init))
				stop = true
			}
			if !h.exhaustive && oa != "absent" && (oa == "panic") != op.expectPanic && oa == ob {
				if op.expectPanic {
					b.Count("generator_expected_panic_but_ok:" + op.name)
				} else {
					b.Count("generator_unexpected_panic:" + op.name)
				}
			}
		}
		if oa == "ok" {
			wrote = true
		}
		// ---- state
		viewA := t.B.FromMessage(0, msgA)
		canonA := vval.Canon(S, 0, viewA).String()
		sa := vval.RepNorm(S, 0, viewA).String()
		newState := vval.FromReflect(S, 0, dyn)
		sb := newState.String()
		if !op.isWrite() && canonA != prevCanon {
			b.Violate("C08", "read-mutates:"+op.name, "a read-only op changed the struct: before "+clip(prevCanon, 300)+" after "+clip(canonA, 300), h.replay(init))
		}
		if oa == "panic" && canonA != prevCanon {
			if sa == vval.RepNorm(S, 0, mustParse(prevCanon)).String() {
				b.Count("panic_changed_representation:" + op.name)
				if debugReflect {
					fmt.Fprintf(os.Stderr, "PANIC-REPR %s op=%s (%s)\n  before %s\n  after  %s\n", t.Full, clip(op.String(), 150), pa, clip(prevCanon, 600), clip(canonA, 600))
				}
			} else {
				b.Count("panic_changed_state:" + op.name)
			}
		}
		refStateAgree := true
		if mc != nil {
			if sc := vval.FromReflect(S, 0, mc.root).String(); sc != sb {
				refStateAgree = false
				b.Count("contract_unspecified_state:" + op.name)
				stop = true
			}
		}
		if refStateAgree && sa != sb && !(op.misuse) {
			b.Violate("C08", "reflect-state:"+op.name, fmt.Sprintf("after op %d `%s` struct view %s differs from reference %s", k, clip(op.String(), 200), clip(sa, 400), clip(sb, 400)), h.replay(init))
			stop = true
		}
		// ---- getters, oneof exclusivity, Range on the fast reflection
		if msg := checkInvariants(S, 0, ma.root, 0); msg != "" {
			key := "range"
			if strings.HasPrefix(msg, "oneof") {
				key = "oneof"
			}
			b.Violate("C08", key, msg, h.replay(init))
			stop = true
		}
		if msg := h.gt.check(msgA); msg != "" {
			b.Violate("C08", "getter", msg, h.replay(init))
			stop = true
		}
		prevCanon = canonA
		state = newState
		if ob == "panic" && op.isWrite() {
			// the reference may have performed part of the op: contract-unspecified from here on
			b.Count("history_stopped_after_reference_panic")
			stop = true
		}
		if stop {
			break
		}
	}
	viewA := t.B.FromMessage(0, msgA)
	// deterministic bytes of the final messages
	ba, ea := proto.MarshalOptions{Deterministic: true}.Marshal(msgA)
	bb, eb := proto.MarshalOptions{Deterministic: true}.Marshal(dyn)
	if (ea == nil) != (eb == nil) || (ea == nil && !bytes.Equal(ba, bb)) {
		if !misuse && vval.RepNorm(S, 0, viewA).String() == state.String() {
			b.Violate("C08", "reflect-bytes", fmt.Sprintf("deterministic bytes after the history differ: fast %x (%v) reference %x (%v)", ba, ea, bb, eb), h.replay(init))
		}
	}
	if h.discard {
		return viewA
	}
	var ss []string
	for _, o := range h.ops {
		ss = append(ss, o.String())
	}
	sig := t.Full + " " + strings.Join(ss, ";") + init.String()
	b.Case(sig, wrote)
	b.CountN("ops_total", len(h.ops))
	if len(h.ops) > 0 {
		body := S.ID + " 0 " + strconv.Itoa(len(h.ops)) + " " + strings.Join(ss, " ; ") + " ; " + init.String()
		h.line = "refl " + body
		h.expect = strings.Join(outsA, " ; ") + " ; final " + vval.Canon(S, 0, viewA).String()
		if h.emit {
			pa, pb := "C08,C09,C10", "B"
			if hasGetter {
				pa = "C08,C09,C10,C19" // the history contains `getter` ops: correspondence of the plain-Go accessors
				b.Count("histories_with_getter")
			}
			if misuse {
				pa, pb = "MISUSE", "MISUSE"
				b.Count("histories_with_misuse")
			}
			b.Line(pa, h.line, h.expect)
			b.Line(pb, "rrefl "+body, strings.Join(outsB, " ; ")+" ; final "+state.String())
		}
	}
	return viewA
}

func mustParse(s string) *vval.Val {
	v, err := vval.Parse(s)
	if err != nil {
		panic("harness: cannot parse own value: " + err.Error())
	}
	return v
}

func clip(s string, n int) string {
	if len(s) > n {
		return s[:n] + "…"
	}
	return s
}

// checkInvariants: Range visits exactly the fields with Has, once each; at most one member per oneof and
// WhichOneof names it; recursively through populated message values.
func checkInvariants(S *vschema.Schema, mi int, m protoreflect.Message, depth int) string {
	md := m.Descriptor()
	visited := map[protoreflect.FieldNumber]int{}
	var kids []struct {
		mi int
		m  protoreflect.Message
	}
	m.Range(func(fd protoreflect.FieldDescriptor, v protoreflect.Value) bool {
		visited[fd.Number()]++
		return true
	})
	sm := &S.Msgs[mi]
	perGroup := map[int][]int{}
	for j := range sm.Fields {
		f := &sm.Fields[j]
		fd := md.Fields().ByNumber(protoreflect.FieldNumber(f.Num))
		has := m.Has(fd)
		n := visited[fd.Number()]
		if has && n != 1 || !has && n != 0 {
			return fmt.Sprintf("range: %s field %d (%s): Has=%v but Range visited it %d times", md.FullName(), j, fd.Name(), has, n)
		}
		if f.Shape == vschema.Oneof && has {
			perGroup[f.Group] = append(perGroup[f.Group], j)
		}
		if has && f.IsMsg && depth < 4 {
			v := m.Get(fd)
			switch f.Shape {
			case vschema.Repeated:
				l := v.List()
				for i := 0; i < l.Len(); i++ {
					kids = append(kids, struct {
						mi int
						m  protoreflect.Message
					}{f.Msg, l.Get(i).Message()})
				}
			case vschema.Map:
				v.Map().Range(func(_ protoreflect.MapKey, mv protoreflect.Value) bool {
					kids = append(kids, struct {
						mi int
						m  protoreflect.Message
					}{f.Msg, mv.Message()})
					return true
				})
			default:
				kids = append(kids, struct {
					mi int
					m  protoreflect.Message
				}{f.Msg, v.Message()})
			}
		}
	}
	for g, name := range sm.OneofNames {
		od := md.Oneofs().ByName(protoreflect.Name(name))
		w := m.WhichOneof(od)
		set := perGroup[g]
		if len(set) > 1 {
			return fmt.Sprintf("oneof: %s.%s has %d members populated: %v", md.FullName(), name, len(set), set)
		}
		if len(set) == 1 && (w == nil || int(w.Number()) != sm.Fields[set[0]].Num) {
			return fmt.Sprintf("oneof: %s.%s: Has names field index %d but WhichOneof says %v", md.FullName(), name, set[0], w)
		}
		if len(set) == 0 && w != nil {
			return fmt.Sprintf("oneof: %s.%s: no member Has but WhichOneof says %s", md.FullName(), name, w.Name())
		}
	}
	for _, k := range kids {
		if msg := checkInvariants(S, k.mi, k.m, depth+1); msg != "" {
			return msg
		}
	}
	return ""
}

// ---- generated getters vs Get ---------------------------------------------------------------------

type getterTable struct {
	t       *Target
	methods []int // per schema field of the root: method index of Get<Name> on *T, -1 if absent
	found   int
	// names: per message index of the schema, per field index: "Get<GoName>" of the generated accessor (for a
	// oneof member the member getter), "" when the Go type or the method is not known. Used by the `getter` op.
	names [][]string
}

// getterNames finds the generated accessors of one message type by Go reflection only: the Go name of a field
// is the name of the struct field carrying its `protobuf:"…,<num>,…"` tag, for a oneof member the name of the
// single field of its wrapper struct.
func getterNames(full string, fields []vschema.Field) (names []string, idx []int) {
	names, idx = make([]string, len(fields)), make([]int, len(fields))
	for j := range idx {
		idx[j] = -1
	}
	pt := typeOfFull(full)
	if pt == nil || pt.Kind() != reflect.Ptr || pt.Elem().Kind() != reflect.Struct {
		return
	}
	st := pt.Elem()
	nameByNum := map[int]string{}
	for i := 0; i < st.NumField(); i++ {
		sf := st.Field(i)
		if tag, ok := sf.Tag.Lookup("protobuf"); ok {
			parts := strings.Split(tag, ",")
			if len(parts) >= 2 {
				if n, err := strconv.Atoi(parts[1]); err == nil {
					nameByNum[n] = sf.Name
				}
			}
		}
	}
	for j, f := range fields {
		if f.Shape == vschema.Oneof {
			if wt := vreg.WrapperOf(full, f.Num); wt != nil && wt.Kind() == reflect.Ptr && wt.Elem().NumField() > 0 {
				nameByNum[f.Num] = wt.Elem().Field(0).Name
			} else {
				delete(nameByNum, f.Num)
			}
		}
		if name, ok := nameByNum[f.Num]; ok {
			if m, ok := pt.MethodByName("Get" + name); ok && m.Type.NumIn() == 1 && m.Type.NumOut() == 1 {
				names[j], idx[j] = "Get"+name, m.Index
			}
		}
	}
	return
}

func newGetterTable(t *Target) *getterTable {
	gt := &getterTable{t: t}
	for mi := range t.S.Msgs {
		names, idx := getterNames(t.S.Msgs[mi].FullName, t.S.Msgs[mi].Fields)
		gt.names = append(gt.names, names)
		if mi == 0 {
			gt.methods = idx
			for _, i := range idx {
				if i >= 0 {
					gt.found++
				}
			}
		}
	}
	return gt
}

func goScalarVal(v reflect.Value) *vval.Val {
	switch v.Kind() {
	case reflect.Bool:
		if v.Bool() {
			return vval.VBits(1)
		}
		return vval.VBits(0)
	case reflect.Int32:
		return vval.VBits(uint64(uint32(int32(v.Int()))))
	case reflect.Int64:
		return vval.VBits(uint64(v.Int()))
	case reflect.Uint32, reflect.Uint64:
		return vval.VBits(v.Uint())
	case reflect.Float32:
		return vval.VBits(uint64(math.Float32bits(float32(v.Float()))))
	case reflect.Float64:
		return vval.VBits(math.Float64bits(v.Float()))
	case reflect.String:
		return vval.VBlob(false, []byte(v.String()))
	case reflect.Slice:
		return vval.VBlob(false, append([]byte(nil), v.Bytes()...))
	}
	return nil
}

// check compares every generated getter of the root with Get(fd) of the fast reflection.
func (gt *getterTable) check(msg proto.Message) string {
	m := msg.ProtoReflect()
	pv := reflect.ValueOf(msg)
	for j, idx := range gt.methods {
		if idx < 0 {
			continue
		}
		f := &gt.t.S.Msgs[0].Fields[j]
		fd := fdOf(m, f)
		var res reflect.Value
		if p, pm := guard(func() { res = pv.Method(idx).Call(nil)[0] }); p {
			return fmt.Sprintf("getter of field index %d (%s) panicked: %s", j, fd.Name(), pm)
		}
		v := m.Get(fd)
		switch {
		case f.Shape == vschema.Repeated:
			if res.Len() != v.List().Len() {
				return fmt.Sprintf("getter of list field index %d: len %d, Get: %d", j, res.Len(), v.List().Len())
			}
			if !f.IsMsg {
				for i := 0; i < res.Len(); i++ {
					a, c := goScalarVal(res.Index(i)), vval.ScalarFromValue(f.Kind, v.List().Get(i))
					if a == nil || a.String() != c.String() {
						return fmt.Sprintf("getter of list field index %d element %d: %v, Get: %v", j, i, a, c)
					}
				}
			}
		case f.Shape == vschema.Map:
			if res.Len() != v.Map().Len() {
				return fmt.Sprintf("getter of map field index %d: len %d, Get: %d", j, res.Len(), v.Map().Len())
			}
		case f.IsMsg:
			has := m.Has(fd)
			if res.IsNil() == has {
				return fmt.Sprintf("getter of message field index %d: nil=%v but Has=%v", j, res.IsNil(), has)
			}
			if has {
				if res.Interface() != v.Message().Interface() {
					return fmt.Sprintf("getter of message field index %d returns a different pointer than Get", j)
				}
			}
		default:
			a, c := goScalarVal(res), vval.ScalarFromValue(f.Kind, v)
			if a == nil || a.String() != c.String() {
				return fmt.Sprintf("getter of field index %d (%s): %v, Get: %v", j, fd.Name(), a, c)
			}
		}
	}
	return ""
}

// ---- exhaustive short histories over a small alphabet (thorough) -------------------------------------

func alphabet(t *Target) []*rop {
	S := t.S
	sm := &S.Msgs[0]
	var ops []*rop
	add := func(o *rop) { ops = append(ops, o) }
	g := &opGen{r: vschema.NewRand(99), s: S, en: enumNums(t)}
	fixedElem := func(f *vschema.Field) *vval.Val {
		if f.IsMsg {
			return vval.Empty(S, f.Msg)
		}
		if f.Kind.IsBlob() {
			return vval.VBlob(f.Kind == vschema.Bytes, []byte("a"))
		}
		return vval.VBits(1)
	}
	fixedKey := func(k vschema.Kind) *vval.Val {
		if k == vschema.String {
			return vval.VBlob(false, []byte("k"))
		}
		return vval.VBits(1)
	}
	_ = g
	add(&rop{name: "range"})
	add(&rop{name: "reset"})
	for gi := range sm.OneofNames {
		add(&rop{name: "which", j: gi})
	}
	for j := range sm.Fields {
		f := &sm.Fields[j]
		add(&rop{name: "has", j: j})
		add(&rop{name: "get", j: j})
		add(&rop{name: "getter", j: j})
		add(&rop{name: "clear", j: j})
		switch f.Shape {
		case vschema.Repeated:
			add(&rop{name: "mut", j: j})
			add(&rop{name: "mutset", j: j})
			add(&rop{name: "set", j: j, val: vval.VList(true, []*vval.Val{fixedElem(f)})})
			add(&rop{name: "set", j: j, val: vval.VList(true, nil)})
			add(&rop{name: "lapp", j: j, val: fixedElem(f)})
			add(&rop{name: "ltrunc", j: j, i: 0})
			add(&rop{name: "lget", j: j, i: 0})
			if f.IsMsg {
				add(&rop{name: "lappm", j: j})
				add(&rop{path: []rstep{{kind: "at", j: j, i: 0}}, name: "setu", raw: []byte{0x98, 0x3f, 0x01}})
				add(&rop{path: []rstep{{kind: "at", j: j, i: 0}}, name: "getu"})
			}
		case vschema.Map:
			add(&rop{name: "mut", j: j})
			add(&rop{name: "mutset", j: j})
			add(&rop{name: "set", j: j, val: vval.VMap(true, []*vval.Val{vval.VEntry(fixedKey(f.Key), fixedElem(f))})})
			add(&rop{name: "mset", j: j, key: fixedKey(f.Key), val: fixedElem(f)})
			add(&rop{name: "mclr", j: j, key: fixedKey(f.Key)})
			add(&rop{name: "mget", j: j, key: fixedKey(f.Key)})
			add(&rop{name: "mlen", j: j})
			if f.IsMsg {
				add(&rop{name: "mmut", j: j, key: fixedKey(f.Key)})
				add(&rop{path: []rstep{{kind: "mv", j: j, key: fixedKey(f.Key)}}, name: "setu", raw: []byte{0x98, 0x3f, 0x01}})
				add(&rop{path: []rstep{{kind: "mv", j: j, key: fixedKey(f.Key)}}, name: "valid"})
			}
		default:
			add(&rop{name: "set", j: j, val: fixedElem(f)})
			if f.IsMsg {
				add(&rop{name: "mut", j: j})
				add(&rop{path: []rstep{{kind: "in", j: j}}, name: "setu", raw: []byte{0x98, 0x3f, 0x01}})
				add(&rop{path: []rstep{{kind: "in", j: j}}, name: "valid"})
			}
		}
	}
	return ops
}

func exhaustive(b *tbuf, t *Target, gt *getterTable, modelOK bool) {
	if len(t.S.Msgs[0].Fields) == 0 || len(t.S.Msgs[0].Fields) > 5 {
		return
	}
	ab := alphabet(t)
	n := len(ab)
	if n*n*n > 160000 { // 120000 before the `getter` ops joined the alphabet
		return
	}
	b.Count("exhaustive_targets")
	init := vval.Empty(t.S, 0)
	for L := 1; L <= 3; L++ {
		total := 1
		for i := 0; i < L; i++ {
			total *= n
		}
		for code := 0; code < total; code++ {
			seq := make([]*rop, L)
			c := code
			for i := 0; i < L; i++ {
				o := *ab[c%n]
				seq[i] = &o
				c /= n
			}
			hr := &histRun{b: b, t: t, gt: gt, emit: modelOK, exhaustive: true}
			next := func(state *vval.Val, k int) *rop {
				op := seq[k]
				// a write through `at` into an EMPTY list allocates the list and then panics (a panicking op that
				// changes the representation): excluded from generated histories, see reflect_gen.go
				if op.isWrite() {
					for n, st := range op.path {
						if st.kind == "at" {
							cur, mi := navigate(t.S, state, op.path[:n])
							_ = mi
							if cur == nil || len(cur.Kids[st.j].Kids) == 0 {
								hr.discard = true
								return nil
							}
						}
					}
				}
				return op
			}
			if p, pm := guard(func() { hr.run(init, L, next) }); p {
				b.Violate("HARNESS", "history-panic", pm, hr.replay(init))
			}
			if hr.discard {
				b.Count("exhaustive_histories_discarded")
			} else {
				b.Count("exhaustive_histories")
			}
		}
	}
}

var _ = sort.Ints

// bytesPass: scripted histories on every bytes-kind field with the two EMPTY bytes values — nil (what
// NewElement / NewValue / a zero Value hand out) and allocated-empty: presence in a container is about the
// entry / element, never about the stored slice being nil.
func bytesPass(b *tbuf, t *Target, gt *getterTable, modelOK bool) {
	sm := &t.S.Msgs[0]
	nilB, emptyB := vval.VBlob(false, nil), vval.VBlob(true, nil)
	for j := range sm.Fields {
		f := &sm.Fields[j]
		if f.IsMsg || f.Kind != vschema.Bytes {
			continue
		}
		var script []*rop
		switch f.Shape {
		case vschema.Map:
			k1 := vval.VBits(1)
			if f.Key == vschema.String {
				k1 = vval.VBlob(false, []byte("k"))
			}
			var k2 *vval.Val
			if f.Key == vschema.String {
				k2 = vval.VBlob(false, []byte("other"))
			} else if f.Key == vschema.Bool {
				k2 = vval.VBits(1 - k1.N)
			} else {
				k2 = vval.VBits(k1.N + 1)
			}
			script = []*rop{{name: "mset", j: j, key: k1, val: nilB}, {name: "mhas", j: j, key: k1}, {name: "mget", j: j, key: k1},
				{name: "mlen", j: j}, {name: "mrange", j: j}, {name: "has", j: j}, {name: "range"}, {name: "enc"},
				{name: "mset", j: j, key: k2, val: emptyB}, {name: "mhas", j: j, key: k2}, {name: "mlen", j: j},
				{name: "mclr", j: j, key: k1}, {name: "mhas", j: j, key: k1}, {name: "mhas", j: j, key: k2}, {name: "enc"}}
		case vschema.Repeated:
			script = []*rop{{name: "lapp", j: j, val: nilB}, {name: "llen", j: j}, {name: "lget", j: j, i: 0}, {name: "has", j: j},
				{name: "range"}, {name: "enc"}, {name: "lapp", j: j, val: emptyB}, {name: "lset", j: j, i: 0, val: emptyB},
				{name: "lget", j: j, i: 0}, {name: "llen", j: j}, {name: "enc"}}
		default:
			script = []*rop{{name: "set", j: j, val: nilB}, {name: "has", j: j}, {name: "get", j: j}, {name: "getter", j: j}, {name: "range"}, {name: "enc"},
				{name: "set", j: j, val: emptyB}, {name: "has", j: j}, {name: "get", j: j}, {name: "range"}, {name: "enc"}}
			if f.Shape == vschema.Oneof {
				script = append(script, &rop{name: "which", j: f.Group})
			}
		}
		init := vval.Empty(t.S, 0)
		hr := &histRun{b: b, t: t, gt: gt, emit: modelOK}
		if p, pm := guard(func() {
			hr.run(init, len(script), func(_ *vval.Val, k int) *rop { return script[k] })
		}); p {
			b.Violate("HARNESS", "history-panic", pm, hr.replay(init))
		}
		b.Count("bytes_container_histories")
	}
}

// unknownSetPass: GetUnknown / SetUnknown histories in which a value returned earlier is kept across later calls.
// SetUnknown REPLACES the set: a RawFields value obtained before must read the same afterwards (the reference
// swaps the slice header), whether the new payload is shorter, longer or as long as the old one; swapping the
// unknown sets of two messages and save / replace / restore on one message must behave like on the reference.
func unknownSetPass(b *tbuf, t *Target) {
	u1 := protoreflect.RawFields{0xc0, 0x3e, 0x01, 0xc8, 0x3e, 0x02, 0xd0, 0x3e, 0x03} // fields 1000, 1001, 1002
	pays := []protoreflect.RawFields{
		{0x80, 0x7d, 0x2a},                                                       // shorter
		{0x80, 0x7d, 0x2a, 0x88, 0x7d, 0x2b},                                     // shorter, two records
		{0x80, 0x7d, 0x01, 0x88, 0x7d, 0x02, 0x90, 0x7d, 0x03},                   // same length
		{0x80, 0x7d, 0x01, 0x88, 0x7d, 0x02, 0x90, 0x7d, 0x03, 0x98, 0x7d, 0x04}, // longer
		{},
		nil,
	}
	mk := func(gen bool) protoreflect.Message {
		if gen {
			return t.B.ToMessage(0, vval.Empty(t.S, 0)).ProtoReflect()
		}
		return dynamicpb.NewMessage(t.Desc)
	}
	replay := "# unknown-set pass type " + t.Full
	for pi, v := range pays {
		run := func(gen bool) (trace string) {
			a, c := mk(gen), mk(gen)
			a.SetUnknown(append(protoreflect.RawFields(nil), u1...))
			c.SetUnknown(append(protoreflect.RawFields(nil), v...))
			ua := a.GetUnknown()
			a.SetUnknown(append(protoreflect.RawFields(nil), v...)) // replace by an independent payload
			trace += fmt.Sprintf("kept=%x now=%x;", []byte(ua), []byte(a.GetUnknown()))
			a.SetUnknown(ua) // restore
			trace += fmt.Sprintf("restored=%x;", []byte(a.GetUnknown()))
			// swap between two messages
			x, y := a.GetUnknown(), c.GetUnknown()
			a.SetUnknown(y)
			c.SetUnknown(x)
			trace += fmt.Sprintf("swap a=%x c=%x;", []byte(a.GetUnknown()), []byte(c.GetUnknown()))
			ba, _ := proto.MarshalOptions{Deterministic: true}.Marshal(a.Interface())
			bc, _ := proto.MarshalOptions{Deterministic: true}.Marshal(c.Interface())
			trace += fmt.Sprintf("bytes a=%x c=%x", ba, bc)
			return
		}
		var got, want string
		pg, pmg := guard(func() { got = run(true) })
		pw, _ := guard(func() { want = run(false) })
		b.Count("unknown_set_histories")
		b.Case(fmt.Sprintf("unknownset:%s:%d", t.Full, pi), true)
		if pw {
			continue
		}
		if pg {
			b.Violate("C08", "unknown-set-history", "GetUnknown/SetUnknown history panicked: "+firstLine(pmg), replay)
		} else if got != want {
			b.Violate("C08", "unknown-set-history", fmt.Sprintf("GetUnknown/SetUnknown history with a kept value (payload %x): generated %s, reference %s", []byte(v), got, want), replay)
			b.Violate("C14", "unknown-set-history", fmt.Sprintf("GetUnknown/SetUnknown do not read and replace exactly the set: generated %s, reference %s", got, want), replay)
		}
	}
}


// secondKey: a map key different from zeroKey of the same kind.
func secondKey(kd protoreflect.FieldDescriptor) protoreflect.MapKey {
	switch kd.Kind() {
	case protoreflect.StringKind:
		return protoreflect.ValueOfString("second").MapKey()
	case protoreflect.BoolKind:
		return protoreflect.ValueOfBool(false).MapKey()
	case protoreflect.Int32Kind, protoreflect.Sint32Kind, protoreflect.Sfixed32Kind:
		return protoreflect.ValueOfInt32(-7).MapKey()
	case protoreflect.Int64Kind, protoreflect.Sint64Kind, protoreflect.Sfixed64Kind:
		return protoreflect.ValueOfInt64(-7).MapKey()
	case protoreflect.Uint32Kind, protoreflect.Fixed32Kind:
		return protoreflect.ValueOfUint32(7).MapKey()
	}
	return protoreflect.ValueOfUint64(7).MapKey()
}

// rangeViewPass: the List / Map values handed to the callback of Range are views of the message like those of Get
// and Mutable: written through while the callback runs and afterwards (Append, Truncate, Set of a new key), and
// showing later changes made through the message when kept. Same script on the generated type and on dynamicpb;
// the traces and the final deterministic bytes must agree.
func rangeViewPass(b *tbuf, t *Target) {
	run := func(gen bool) (trace string) {
		var m protoreflect.Message
		if gen {
			m = t.B.ToMessage(0, vval.Empty(t.S, 0)).ProtoReflect()
		} else {
			m = dynamicpb.NewMessage(t.Desc)
		}
		fds := m.Descriptor().Fields()
		var conts []protoreflect.FieldDescriptor
		for i := 0; i < fds.Len(); i++ {
			fd := fds.Get(i)
			switch {
			case fd.IsMap():
				mp := m.Mutable(fd).Map()
				mp.Set(zeroKey(fd.MapKey()), mp.NewValue())
				conts = append(conts, fd)
			case fd.IsList():
				l := m.Mutable(fd).List()
				l.Append(l.NewElement())
				l.Append(l.NewElement())
				conts = append(conts, fd)
			}
		}
		kept := map[protoreflect.FieldNumber]protoreflect.Value{}
		m.Range(func(fd protoreflect.FieldDescriptor, v protoreflect.Value) bool {
			if fd.IsList() {
				// a write through the view while Range is still running
				l := v.List()
				l.Append(l.NewElement())
				kept[fd.Number()] = v
			} else if fd.IsMap() {
				kept[fd.Number()] = v
			}
			return true
		})
		for _, fd := range conts {
			v, ok := kept[fd.Number()]
			if !ok {
				trace += fmt.Sprintf("%d:not-ranged;", fd.Number())
				continue
			}
			if fd.IsList() {
				l := v.List()
				trace += fmt.Sprintf("%d:in-callback msg=%d view=%d;", fd.Number(), m.Get(fd).List().Len(), l.Len())
				l.Append(l.NewElement())
				trace += fmt.Sprintf("append-via-view msg=%d view=%d;", m.Get(fd).List().Len(), l.Len())
				ml := m.Mutable(fd).List()
				ml.Append(ml.NewElement())
				trace += fmt.Sprintf("append-via-msg msg=%d view=%d;", m.Get(fd).List().Len(), l.Len())
				l.Truncate(1)
				trace += fmt.Sprintf("truncate-via-view msg=%d view=%d;", m.Get(fd).List().Len(), l.Len())
			} else {
				mp := v.Map()
				mp.Set(secondKey(fd.MapKey()), mp.NewValue())
				trace += fmt.Sprintf("%d:set-via-view msg=%d view=%d;", fd.Number(), m.Get(fd).Map().Len(), mp.Len())
				m.Mutable(fd).Map().Clear(zeroKey(fd.MapKey()))
				trace += fmt.Sprintf("clear-via-msg msg=%d view=%d has=%v;", m.Get(fd).Map().Len(), mp.Len(), mp.Has(zeroKey(fd.MapKey())))
			}
		}
		bs, err := proto.MarshalOptions{Deterministic: true}.Marshal(m.Interface())
		trace += fmt.Sprintf("bytes=%x err=%v", bs, err != nil)
		return
	}
	var got, want string
	pg, pmg := guard(func() { got = run(true) })
	pw, _ := guard(func() { want = run(false) })
	b.Count("range_view_histories")
	b.Case("rangeview:"+t.Full, true)
	replay := "# range-view pass type " + t.Full + ": lists/maps populated through Mutable, views captured inside Range, then Append/Truncate/Set through the views and changes through the message"
	if pw {
		return
	}
	if pg {
		b.Violate("C08", "range-view-history", "history over the views handed out by Range panicked: "+firstLine(pmg), replay)
	} else if got != want {
		b.Violate("C08", "range-view-history", fmt.Sprintf("views handed out by Range do not behave like the reference: generated %s, reference %s", clip(got, 600), clip(want, 600)), replay)
	}
}
