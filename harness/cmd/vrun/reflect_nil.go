package main

// C09: nil and read-only empty messages. Exhaustive per target: every way a nil message arises x every
// field x every read op and library call; every write must panic.

import (
	"bytes"
	"fmt"
	"google.golang.org/protobuf/runtime/protoiface"
	"strings"

	"github.com/cosmos/cosmos-proto/internal/verifh/vreg"
	"github.com/cosmos/cosmos-proto/internal/verifh/vschema"
	"github.com/cosmos/cosmos-proto/internal/verifh/vval"
	"google.golang.org/protobuf/encoding/protojson"
	"google.golang.org/protobuf/encoding/prototext"
	"google.golang.org/protobuf/proto"
	"google.golang.org/protobuf/reflect/protoreflect"
	"google.golang.org/protobuf/types/dynamicpb"
)

type nilCase struct {
	what string
	mi   int
	get  func() protoreflect.Message // produces the nil / read-only empty message
}

func squash(b []byte) string { return strings.Join(strings.Fields(string(b)), "") }

func nilWays(t *Target) []nilCase {
	S := t.S
	var ws []nilCase
	pulsar := func(mi int) bool { return vreg.IsPulsar(protoreflect.FullName(S.Msgs[mi].FullName)) }
	ws = append(ws, nilCase{"typed-nil", 0, func() protoreflect.Message { return t.Info.Proto.ProtoReflect() }})
	ws = append(ws, nilCase{"type-zero", 0, func() protoreflect.Message { return t.Info.Proto.ProtoReflect().Type().Zero() }})
	roots := []struct {
		name string
		mk   func() protoreflect.Message
	}{
		{"empty", func() protoreflect.Message { return t.B.ToMessage(0, vval.Empty(S, 0)).ProtoReflect() }},
		{"nil", func() protoreflect.Message { return t.Info.Proto.ProtoReflect() }},
	}
	sm := &S.Msgs[0]
	for _, rt := range roots {
		rt := rt
		for j := range sm.Fields {
			j := j
			f := &sm.Fields[j]
			if !f.IsMsg || !pulsar(f.Msg) || !(f.Shape == vschema.Singular || f.Shape == vschema.Oneof) {
				continue
			}
			get1 := func() protoreflect.Message {
				m := rt.mk()
				return m.Get(fdOf(m, f)).Message()
			}
			ws = append(ws, nilCase{fmt.Sprintf("get-unset(%s).f%d", rt.name, j), f.Msg, get1})
			cm := &S.Msgs[f.Msg]
			for j2 := range cm.Fields {
				f2 := &cm.Fields[j2]
				if !f2.IsMsg || !pulsar(f2.Msg) || !(f2.Shape == vschema.Singular || f2.Shape == vschema.Oneof) {
					continue
				}
				ws = append(ws, nilCase{fmt.Sprintf("get-unset(%s).f%d.f%d", rt.name, j, j2), f2.Msg, func() protoreflect.Message {
					m := get1()
					return m.Get(fdOf(m, f2)).Message()
				}})
			}
		}
	}
	// nil list element, nil map value, oneof wrapper holding nil: built through the struct bridge
	for j := range sm.Fields {
		j := j
		f := &sm.Fields[j]
		if !f.IsMsg || !pulsar(f.Msg) {
			continue
		}
		v := vval.Empty(S, 0)
		switch f.Shape {
		case vschema.Repeated:
			v.Kids[j] = vval.VList(true, []*vval.Val{vval.VNone(), vval.Empty(S, f.Msg)})
			ws = append(ws, nilCase{fmt.Sprintf("nil-list-elem.f%d", j), f.Msg, func() protoreflect.Message {
				m := t.B.ToMessage(0, v).ProtoReflect()
				return m.Get(fdOf(m, f)).List().Get(0).Message()
			}})
		case vschema.Map:
			var k *vval.Val
			if f.Key == vschema.String {
				k = vval.VBlob(false, []byte("k"))
			} else {
				k = vval.VBits(1)
			}
			v.Kids[j] = vval.VMap(true, []*vval.Val{vval.VEntry(k, vval.VNone())})
			ws = append(ws, nilCase{fmt.Sprintf("nil-map-value.f%d", j), f.Msg, func() protoreflect.Message {
				m := t.B.ToMessage(0, v).ProtoReflect()
				return m.Get(fdOf(m, f)).Map().Get(keyOf(f.Key, k)).Message()
			}})
		case vschema.Oneof:
			v.Kids[j] = vval.VOne(vval.VNone())
			ws = append(ws, nilCase{fmt.Sprintf("oneof-wrapper-nil.f%d", j), f.Msg, func() protoreflect.Message {
				m := t.B.ToMessage(0, v).ProtoReflect()
				return m.Get(fdOf(m, f)).Message()
			}})
		}
	}
	return ws
}

func nilPass(b *tbuf, t *Target, gt *getterTable) {
	S := t.S
	nilRootGetters(b, t, gt)
	for _, w := range nilWays(t) {
		w := w
		viol := func(what, desc string) {
			b.Violate("C09", "nil-read:"+what, fmt.Sprintf("%s [%s, message %s]: %s", what, w.what, S.Msgs[w.mi].FullName, desc), "# nil-pass type "+t.Full+" way "+w.what)
		}
		var nm protoreflect.Message
		if p, pm := guard(func() { nm = w.get() }); p {
			viol("obtain", "obtaining the message panicked: "+pm)
			continue
		}
		b.Count("nil_cases")
		md := nm.Descriptor()
		ref := dynamicpb.NewMessage(md)               // valid empty reference
		refNil := dynamicpb.NewMessageType(md).Zero() // invalid (read-only) reference
		sm := &S.Msgs[w.mi]
		check := func(what string, f func() string) {
			b.Count("nil_checks")
			var msg string
			if p, pm := guard(func() { msg = f() }); p {
				viol(what, "panicked: "+pm)
			} else if msg != "" {
				viol(what, msg)
			}
		}
		check("IsValid", func() string {
			if nm.IsValid() {
				return "IsValid() = true"
			}
			return ""
		})
		check("Range", func() string {
			n := 0
			nm.Range(func(protoreflect.FieldDescriptor, protoreflect.Value) bool { n++; return true })
			if n != 0 {
				return fmt.Sprintf("Range visited %d fields", n)
			}
			return ""
		})
		check("GetUnknown", func() string {
			if len(nm.GetUnknown()) != 0 {
				return "GetUnknown not empty"
			}
			return ""
		})
		check("Descriptor/Type/New/Interface", func() string {
			if nm.Type().Descriptor() != md {
				return "Type().Descriptor() differs"
			}
			if !nm.New().IsValid() || !nm.Type().New().IsValid() {
				return "New() is not valid"
			}
			_ = nm.Interface()
			return ""
		})
		for gi, name := range sm.OneofNames {
			od := md.Oneofs().ByName(protoreflect.Name(name))
			check("WhichOneof", func() string {
				if fd := nm.WhichOneof(od); fd != nil {
					return fmt.Sprintf("WhichOneof(%d) = %s", gi, fd.Name())
				}
				return ""
			})
		}
		for j := range sm.Fields {
			f := &sm.Fields[j]
			fd := md.Fields().ByNumber(protoreflect.FieldNumber(f.Num))
			check("Has", func() string {
				if nm.Has(fd) {
					return fmt.Sprintf("Has(field %d) = true", j)
				}
				return ""
			})
			check("Get", func() string {
				got, want, wantNil := fmtField(f, nm.Get(fd)), fmtField(f, ref.Get(fd)), fmtField(f, refNil.Get(fd))
				if got != want || got != wantNil {
					return fmt.Sprintf("Get(field %d) = %s, reference empty %s, reference read-only %s", j, got, want, wantNil)
				}
				return ""
			})
			// C19: the generated plain-Go getter on the nil receiver returns what Get returns (the default)
			if w.mi < len(gt.names) && gt.names[w.mi][j] != "" {
				b.Count("nil_getter_checks")
				mg := newMach("fast", S, nm)
				mg.getters = gt.names
				var got, pmsg string
				// the op is addressed to nm itself: message index w.mi, no path
				if p, pm := guard(func() { got = mg.callGetter(nm, w.mi, j, f) }); p {
					got, pmsg = "panic", pm
				}
				if want, wantNil := getterTokens(fmtField(f, nm.Get(fd))), getterTokens(fmtField(f, refNil.Get(fd))); got != want || got != wantNil {
					b.Violate("C19", "getter-nil", fmt.Sprintf("%s() on a nil message [%s, message %s] returned %s (%s); Get(fd) of the same message gives %s, of the read-only reference %s",
						gt.names[w.mi][j], w.what, S.Msgs[w.mi].FullName, got, pmsg, want, wantNil), "# nil-pass type "+t.Full+" way "+w.what)
				}
			}
			switch f.Shape {
			case vschema.Repeated:
				check("List-view", func() string {
					l := nm.Get(fd).List()
					if l.Len() != 0 || l.IsValid() {
						return fmt.Sprintf("list view of field %d: len %d valid %v", j, l.Len(), l.IsValid())
					}
					_ = l.NewElement()
					return ""
				})
			case vschema.Map:
				check("Map-view", func() string {
					mp := nm.Get(fd).Map()
					var k *vval.Val
					if f.Key == vschema.String {
						k = vval.VBlob(false, []byte("k"))
					} else {
						k = vval.VBits(1)
					}
					n := 0
					mp.Range(func(protoreflect.MapKey, protoreflect.Value) bool { n++; return true })
					if mp.Len() != 0 || mp.IsValid() || n != 0 || mp.Has(keyOf(f.Key, k)) || mp.Get(keyOf(f.Key, k)).IsValid() {
						return fmt.Sprintf("map view of field %d is not an empty read-only map", j)
					}
					_ = mp.NewValue()
					return ""
				})
			}
		}
		// ---- library calls
		var iface proto.Message
		if p, _ := guard(func() { iface = nm.Interface() }); p || iface == nil {
			continue
		}
		check("proto.Size", func() string {
			if n := proto.Size(iface); n != 0 {
				return fmt.Sprintf("Size = %d", n)
			}
			return ""
		})
		check("proto.Marshal", func() string {
			for _, det := range []bool{false, true} {
				bs, err := proto.MarshalOptions{Deterministic: det}.Marshal(iface)
				if err != nil || len(bs) != 0 {
					return fmt.Sprintf("Marshal = %x, %v", bs, err)
				}
			}
			return ""
		})
		check("proto.MarshalAppend", func() string {
			// appending the (empty) encoding of a nil message leaves the caller's buffer as it is
			for _, det := range []bool{false, true} {
				for _, spare := range []int{0, 32} {
					pre := make([]byte, 5, 5+spare)
					copy(pre, []byte{0x0a, 0x03, 'a', 'b', 'c'})
					got, err := proto.MarshalOptions{Deterministic: det}.MarshalAppend(pre, iface)
					if err != nil || !bytes.Equal(got, []byte{0x0a, 0x03, 'a', 'b', 'c'}) {
						return fmt.Sprintf("MarshalAppend(prefix 0a03616263, spare capacity %d) = %x, %v", spare, got, err)
					}
					out, err := proto.MarshalOptions{Deterministic: det}.MarshalState(protoiface.MarshalInput{Message: nm, Buf: pre})
					if err != nil || !bytes.Equal(out.Buf, []byte{0x0a, 0x03, 'a', 'b', 'c'}) {
						return fmt.Sprintf("MarshalState(Buf 0a03616263) returned Buf %x, %v", out.Buf, err)
					}
				}
			}
			return ""
		})
		check("inside-generic-parent", func() string {
			// the nil message as list element / map value of a parent that is NOT generated code (dynamicpb): the
			// reflective encoder of protobuf-go reaches it through ProtoMethods with a non-empty buffer
			for _, pd := range parentsOf(t.Desc, md) {
				for i := 0; i < pd.Fields().Len(); i++ {
					fd := pd.Fields().Get(i)
					if fd.Message() == nil || (!fd.IsList() && !fd.IsMap()) {
						continue
					}
					vd := fd
					if fd.IsMap() {
						vd = fd.MapValue()
					}
					if vd.Message() == nil || vd.Message().FullName() != md.FullName() {
						continue
					}
					mk := func(child protoreflect.Message) (bs []byte, err error, pm string) {
						_, pm = guard(func() {
							parent := dynamicpb.NewMessage(pd)
							// something in front of the child, so that the encoder's buffer is not empty when it gets there
							parent.SetUnknown(protoreflect.RawFields{0x08, 0x01})
							if fd.IsList() {
								parent.Mutable(fd).List().Append(protoreflect.ValueOfMessage(child))
							} else {
								parent.Mutable(fd).Map().Set(zeroKey(fd.MapKey()), protoreflect.ValueOfMessage(child))
							}
							bs, err = proto.MarshalOptions{Deterministic: true}.Marshal(parent)
						})
						return
					}
					want, werr, wpm := mk(refNil)
					if wpm != "" || werr != nil {
						continue // the reference itself does not accept this construction
					}
					got, gerr, gpm := mk(nm)
					if gpm != "" {
						return fmt.Sprintf("as %s of a dynamicpb %s: proto.Marshal panicked: %s", fd.Name(), pd.FullName(), firstLine(gpm))
					}
					if gerr != nil || !bytes.Equal(got, want) {
						return fmt.Sprintf("as %s of a dynamicpb %s: Marshal = %x, %v; with a reference nil child %x", fd.Name(), pd.FullName(), got, gerr, want)
					}
				}
			}
			return ""
		})
		check("proto.Equal", func() string {
			emptyGen := nm.Type().New().Interface()
			type pair struct {
				name string
				got  bool
				want bool
			}
			ps := []pair{
				{"Equal(nil,nil)", proto.Equal(iface, iface), proto.Equal(refNil.Interface(), refNil.Interface())},
				{"Equal(nil,empty)", proto.Equal(iface, emptyGen), proto.Equal(refNil.Interface(), ref)},
				{"Equal(empty,nil)", proto.Equal(emptyGen, iface), proto.Equal(ref, refNil.Interface())},
				{"Equal(nil,refNil)", proto.Equal(iface, refNil.Interface()), true},
				{"Equal(nil,refEmpty)", proto.Equal(iface, ref), proto.Equal(refNil.Interface(), ref)},
			}
			for _, p := range ps {
				if p.got != p.want {
					return fmt.Sprintf("%s = %v, reference %v", p.name, p.got, p.want)
				}
			}
			return ""
		})
		check("proto.Clone", func() string {
			c := proto.Clone(iface)
			rc := proto.Clone(refNil.Interface())
			if c.ProtoReflect().IsValid() != rc.ProtoReflect().IsValid() {
				return fmt.Sprintf("Clone validity %v, reference %v", c.ProtoReflect().IsValid(), rc.ProtoReflect().IsValid())
			}
			if proto.Size(c) != 0 {
				return "Clone is not empty"
			}
			return ""
		})
		check("proto.Merge-from", func() string {
			dst := nm.Type().New().Interface()
			dst.ProtoReflect().SetUnknown(protoreflect.RawFields{0x98, 0x3f, 0x01})
			before, _ := proto.MarshalOptions{Deterministic: true}.Marshal(dst)
			proto.Merge(dst, iface)
			after, _ := proto.MarshalOptions{Deterministic: true}.Marshal(dst)
			if !bytes.Equal(before, after) {
				return "Merge from a nil message changed the destination"
			}
			rd := dynamicpb.NewMessage(md)
			proto.Merge(rd, refNil.Interface())
			return ""
		})
		check("proto.Merge-into", func() string {
			// data stored INTO a nil / read-only message must not be dropped silently: the reference panics
			// ("cannot merge into invalid ... message"); a non-empty source of the same type
			src := nm.Type().New().Interface()
			src.ProtoReflect().SetUnknown(protoreflect.RawFields{0x98, 0x3f, 0x01})
			fds := md.Fields()
			for i := 0; i < fds.Len(); i++ {
				fd := fds.Get(i)
				if fd.Cardinality() != protoreflect.Repeated && fd.Message() == nil && fd.ContainingOneof() == nil && fd.Kind() != protoreflect.EnumKind {
					switch fd.Kind() {
					case protoreflect.StringKind:
						src.ProtoReflect().Set(fd, protoreflect.ValueOfString("x"))
					case protoreflect.BytesKind:
						src.ProtoReflect().Set(fd, protoreflect.ValueOfBytes([]byte("x")))
					case protoreflect.BoolKind:
						src.ProtoReflect().Set(fd, protoreflect.ValueOfBool(true))
					}
				}
			}
			refPanics, _ := guard(func() { proto.Merge(refNil.Interface(), src) })
			if !refPanics {
				return "" // the reference accepts it for this kind of nil: nothing to compare
			}
			if p, _ := guard(func() { proto.Merge(iface, src) }); !p {
				return "proto.Merge into the nil / read-only message returned normally (the data was dropped silently), the reference panics"
			}
			return ""
		})
		check("proto.CheckInitialized", func() string {
			if err := proto.CheckInitialized(iface); err != nil {
				return err.Error()
			}
			return ""
		})
		check("protojson.Marshal", func() string {
			got, err := protojson.Marshal(iface)
			want, werr := protojson.Marshal(refNil.Interface())
			if (err == nil) != (werr == nil) || squash(got) != squash(want) {
				return fmt.Sprintf("protojson %q (%v), reference %q (%v)", got, err, want, werr)
			}
			return ""
		})
		check("prototext.Marshal", func() string {
			got, err := prototext.Marshal(iface)
			want, werr := prototext.Marshal(refNil.Interface())
			if (err == nil) != (werr == nil) || squash(got) != squash(want) {
				return fmt.Sprintf("prototext %q (%v), reference %q (%v)", got, err, want, werr)
			}
			return ""
		})
		// ---- writes must panic
		silent := func(what string, f func()) {
			b.Count("nil_write_checks")
			var fresh protoreflect.Message
			if p, pm := guard(func() { fresh = w.get() }); p {
				viol("obtain", pm)
				return
			}
			nm = fresh
			if p, _ := guard(f); !p {
				b.Violate("C09", "nil-write-silent:"+what, fmt.Sprintf("%s on a nil message did not panic [%s, message %s]", what, w.what, S.Msgs[w.mi].FullName), "# nil-pass type "+t.Full+" way "+w.what)
			}
		}
		donor := nm.Type().New()
		for j := range sm.Fields {
			f := &sm.Fields[j]
			fd := md.Fields().ByNumber(protoreflect.FieldNumber(f.Num))
			var val protoreflect.Value
			if p, _ := guard(func() { val = donor.NewField(fd) }); p {
				continue
			}
			silent("Set", func() { nm.Set(fd, val) })
			silent("Clear", func() { nm.Clear(fd) })
			silent("Mutable", func() { nm.Mutable(fd) })
		}
		silent("SetUnknown", func() { nm.SetUnknown(protoreflect.RawFields{0x98, 0x3f, 0x01}) })
		silent("SetUnknown-empty", func() { nm.SetUnknown(nil) })
	}
	nilContainers(b, t, gt)
}

// nilContainers: messages HOLDING a nil list element / nil map value / wrapper with nil message are read and
// run through the library; they must behave like the same message with an empty message in that place.
func nilContainers(b *tbuf, t *Target, gt *getterTable) {
	S := t.S
	sm := &S.Msgs[0]
	for pass := 0; pass < 2; pass++ {
		for j := range sm.Fields {
			f := &sm.Fields[j]
			junk, clean := vval.Empty(S, 0), vval.Empty(S, 0)
			var what string
			if pass == 1 {
				// typed-nil oneof wrapper (any member kind): behaves as "oneof not set"
				if f.Shape != vschema.Oneof {
					continue
				}
				what = "typed-nil-wrapper"
				junk.Kids[j] = vval.VOneNil()
			} else {
				if !f.IsMsg || !vreg.IsPulsar(protoreflect.FullName(S.Msgs[f.Msg].FullName)) {
					continue
				}
				switch f.Shape {
				case vschema.Repeated:
					what = "nil-list-elem"
					junk.Kids[j] = vval.VList(true, []*vval.Val{vval.VNone(), vval.Empty(S, f.Msg)})
					clean.Kids[j] = vval.VList(true, []*vval.Val{vval.Empty(S, f.Msg), vval.Empty(S, f.Msg)})
				case vschema.Map:
					what = "nil-map-value"
					k := vval.VBits(1)
					if f.Key == vschema.String {
						k = vval.VBlob(false, []byte("k"))
					}
					junk.Kids[j] = vval.VMap(true, []*vval.Val{vval.VEntry(k, vval.VNone())})
					clean.Kids[j] = vval.VMap(true, []*vval.Val{vval.VEntry(k, vval.Empty(S, f.Msg))})
				case vschema.Oneof:
					what = "oneof-wrapper-nil"
					junk.Kids[j] = vval.VOne(vval.VNone())
					clean.Kids[j] = vval.VOne(vval.Empty(S, f.Msg))
				default:
					continue
				}
			}
			b.Count("nil_container_cases")
			viol := func(call, desc string) {
				b.Violate("C09", "nil-read:container-"+call, fmt.Sprintf("%s on a message with %s in field index %d: %s", call, what, j, desc),
					S.Line()+"\n# nil-pass type "+t.Full+" value "+junk.String())
			}
			mj := t.B.ToMessage(0, junk)
			mc := t.B.ToMessage(0, clean)
			if (pass == 1 || what == "oneof-wrapper-nil") && gt.names[0][j] != "" {
				typedNilWrapperGetter(b, t, gt, j, junk, t.B.ToMessage(0, junk))
			}
			dyn := dynamicpb.NewMessage(t.Desc)
			cb, err := proto.MarshalOptions{Deterministic: true}.Marshal(mc)
			if err != nil || proto.Unmarshal(cb, dyn) != nil {
				continue
			}
			check := func(call string, fn func() string) {
				b.Count("nil_checks")
				var msg string
				if p, pm := guard(func() { msg = fn() }); p {
					viol(call, "panicked: "+pm)
				} else if msg != "" {
					viol(call, msg)
				}
			}
			check("reads", func() string {
				if msg := checkInvariants(S, 0, mj.ProtoReflect(), 0); msg != "" {
					return msg
				}
				got := vval.FromReflect(S, 0, mj.ProtoReflect()).String()
				want := vval.FromReflect(S, 0, dyn).String()
				if got != want {
					return "reflection view " + clip(got, 300) + " reference " + clip(want, 300)
				}
				return ""
			})
			check("proto.Size", func() string {
				if n := proto.Size(mj); n != len(cb) {
					return fmt.Sprintf("Size %d, reference %d", n, len(cb))
				}
				return ""
			})
			check("proto.Marshal", func() string {
				bs, err := proto.MarshalOptions{Deterministic: true}.Marshal(mj)
				if err != nil || !bytes.Equal(bs, cb) {
					return fmt.Sprintf("Marshal %x (%v), reference %x", bs, err, cb)
				}
				return ""
			})
			if pass == 0 {
				check("merge-decode-into", func() string {
					// bytes that carry exactly this member / element / key with a NON-EMPTY payload, decoded with Merge
					// into the message holding the nil: the data must arrive (the reference allocates and merges)
					full := vval.Empty(S, 0)
					child := vval.Empty(S, f.Msg)
					child.B = []byte{0x98, 0x3f, 0x07}
					switch f.Shape {
					case vschema.Repeated:
						full.Kids[j] = vval.VList(true, []*vval.Val{child})
					case vschema.Map:
						full.Kids[j] = vval.VMap(true, []*vval.Val{vval.VEntry(clean.Kids[j].Kids[0].Kids[0], child)})
					case vschema.Oneof:
						full.Kids[j] = vval.VOne(child)
					}
					src, err := proto.MarshalOptions{Deterministic: true}.Marshal(t.B.ToMessage(0, full))
					if err != nil {
						return ""
					}
					mj2 := t.B.ToMessage(0, junk)
					dyn2 := dynamicpb.NewMessage(t.Desc)
					if proto.Unmarshal(cb, dyn2) != nil {
						return ""
					}
					e1 := proto.UnmarshalOptions{Merge: true}.Unmarshal(src, mj2)
					e2 := proto.UnmarshalOptions{Merge: true}.Unmarshal(src, dyn2)
					if (e1 == nil) != (e2 == nil) {
						return fmt.Sprintf("Merge-decode error %v, reference %v", e1, e2)
					}
					g, _ := proto.MarshalOptions{Deterministic: true}.Marshal(mj2)
					w, _ := proto.MarshalOptions{Deterministic: true}.Marshal(dyn2)
					if !bytes.Equal(g, w) {
						return fmt.Sprintf("after Merge-decoding %x the message encodes as %x, the reference as %x (data stored into the nil place was dropped?)", src, g, w)
					}
					return ""
				})
			}
			check("proto.Equal", func() string {
				// a nil element is an invalid message: Equal(invalid, valid-empty) is false in the library itself
				if !proto.Equal(mj, mj) {
					return "Equal(x, x) = false"
				}
				_ = proto.Equal(mj, mc)
				_ = proto.Equal(mc, mj)
				_ = proto.Equal(mj, dyn)
				return ""
			})
			check("proto.Clone", func() string {
				c := proto.Clone(mj)
				got := vval.FromReflect(S, 0, c.ProtoReflect()).String()
				want := vval.FromReflect(S, 0, dyn).String()
				if got != want {
					return "clone " + clip(got, 300) + " reference " + clip(want, 300)
				}
				return ""
			})
			check("proto.Merge-from", func() string {
				dst := t.B.ToMessage(0, vval.Empty(S, 0))
				proto.Merge(dst, mj)
				rd := dynamicpb.NewMessage(t.Desc)
				proto.Merge(rd, dyn)
				got := vval.RepNorm(S, 0, t.B.FromMessage(0, dst)).String()
				want := vval.FromReflect(S, 0, rd).String()
				if got != want {
					return "merged " + clip(got, 300) + " reference " + clip(want, 300)
				}
				return ""
			})
			check("protojson.Marshal", func() string {
				got, err := protojson.Marshal(mj)
				want, werr := protojson.Marshal(dyn)
				if (err == nil) != (werr == nil) || squash(got) != squash(want) {
					return fmt.Sprintf("protojson %q (%v), reference %q (%v)", got, err, want, werr)
				}
				return ""
			})
			check("prototext.Marshal", func() string {
				got, err := prototext.Marshal(mj)
				want, werr := prototext.Marshal(dyn)
				if (err == nil) != (werr == nil) || squash(got) != squash(want) {
					return fmt.Sprintf("prototext %q (%v), reference %q (%v)", got, err, want, werr)
				}
				return ""
			})
		}
	}
}

// nilRootGetters: every generated getter of the root type called on the typed-nil root (*T)(nil), as ONE model
// history from the nil state `_` (refl: the generated code; rrefl: Get(fd) of dynamicpb's read-only zero message).
func nilRootGetters(b *tbuf, t *Target, gt *getterTable) {
	S := t.S
	if !S.Supported || len(S.Msgs[0].Fields) == 0 {
		return
	}
	ma := newMach("fast", S, t.Info.Proto.ProtoReflect())
	ma.getters = gt.names
	mb := newMach("dyn", S, dynamicpb.NewMessageType(t.Desc).Zero())
	var ops, outsA, outsB []string
	for j := range S.Msgs[0].Fields {
		if gt.names[0][j] == "" {
			continue
		}
		op := &rop{name: "getter", j: j}
		oa, _ := ma.exec(op)
		ob, _ := mb.exec(op)
		ops, outsA, outsB = append(ops, op.String()), append(outsA, oa), append(outsB, ob)
		b.Count("ops:getter_nil_root")
	}
	if len(ops) == 0 {
		return
	}
	body := S.ID + " 0 " + fmt.Sprint(len(ops)) + " " + strings.Join(ops, " ; ") + " ; _"
	b.Line("C09,C19", "refl "+body, strings.Join(outsA, " ; ")+" ; final _")
	b.Line("B", "rrefl "+body, strings.Join(outsB, " ; ")+" ; final _")
}

// typedNilWrapperGetter: the one state on which a generated getter and Get(fd) differ BY CONSTRUCTION of
// protoc-gen-go's getter template: the oneof interface holds a typed-nil wrapper (*T_M)(nil). `x.GetOneof().(*T_M)`
// succeeds with a nil pointer and `x.M` dereferences it, while Get/Has treat the state as unset. No reflection op,
// decoder or constructor produces this state (it is outside the junk-free domain of C08), so it is recorded as a
// statistic and as a model line (the model panics as well), not as a violation.
func typedNilWrapperGetter(b *tbuf, t *Target, gt *getterTable, j int, junk *vval.Val, mj proto.Message) {
	S := t.S
	ma := newMach("fast", S, mj.ProtoReflect())
	ma.getters = gt.names
	hist := []*rop{{name: "getter", j: j}, {name: "get", j: j}, {name: "has", j: j}}
	// the sibling members' getters are unaffected (their type assertion fails)
	for k, f := range S.Msgs[0].Fields {
		if k != j && f.Shape == vschema.Oneof && f.Group == S.Msgs[0].Fields[j].Group && gt.names[0][k] != "" {
			hist = append(hist, &rop{name: "getter", j: k})
		}
	}
	mutAt := -1
	if S.Msgs[0].Fields[j].IsMsg {
		// Mutable must hand out a message that can be written (proto.Merge into such a message relies on it):
		// allocate when the wrapper is a typed nil / holds no message
		mutAt = len(hist)
		hist = append(hist, &rop{name: "mut", j: j}, &rop{name: "has", j: j},
			&rop{path: []rstep{{kind: "in", j: j}}, name: "setu", raw: []byte{0x98, 0x3f, 0x01}},
			&rop{path: []rstep{{kind: "in", j: j}}, name: "getu"})
	}
	var ops, outs []string
	for _, op := range hist {
		o, _ := ma.exec(op)
		ops, outs = append(ops, op.String()), append(outs, o)
	}
	if mutAt >= 0 && (outs[mutAt] != "ok" || outs[mutAt+1] != "t" || outs[mutAt+2] != "ok" || outs[mutAt+3] != "u983f01") {
		b.Violate("C10", "mutable-on-nil-wrapper", fmt.Sprintf("Mutable of oneof message member %d on a wrapper that is a typed nil / holds no message: outputs %v (want ok, t, ok, u983f01)", j, outs[mutAt:]),
			S.Line()+"\n# nil-pass type "+t.Full+" value "+junk.String()+" ops "+strings.Join(ops, " ; "))
	}
	b.Count("getter_on_typed_nil_wrapper:getter=" + outs[0] + ",get=" + clip(outs[1], 8) + ",has=" + outs[2])
	if S.Supported {
		final := vval.Canon(S, 0, t.B.FromMessage(0, mj)).String()
		b.Line("C19", "refl "+S.ID+" 0 "+fmt.Sprint(len(ops))+" "+strings.Join(ops, " ; ")+" ; "+junk.String(), strings.Join(outs, " ; ")+" ; final "+final)
	}
}

// parentsOf: the root descriptor and its directly nested / referenced message descriptors that have a list or map
// field whose element type is md.
func parentsOf(root, md protoreflect.MessageDescriptor) []protoreflect.MessageDescriptor {
	seen := map[protoreflect.FullName]bool{}
	var out []protoreflect.MessageDescriptor
	var walk func(d protoreflect.MessageDescriptor, depth int)
	walk = func(d protoreflect.MessageDescriptor, depth int) {
		if d == nil || seen[d.FullName()] || depth > 3 {
			return
		}
		seen[d.FullName()] = true
		out = append(out, d)
		for i := 0; i < d.Fields().Len(); i++ {
			fd := d.Fields().Get(i)
			if fd.IsMap() {
				walk(fd.MapValue().Message(), depth+1)
			} else {
				walk(fd.Message(), depth+1)
			}
		}
	}
	walk(root, 0)
	_ = md
	return out
}

func zeroKey(kd protoreflect.FieldDescriptor) protoreflect.MapKey {
	switch kd.Kind() {
	case protoreflect.StringKind:
		return protoreflect.ValueOfString("k").MapKey()
	case protoreflect.BoolKind:
		return protoreflect.ValueOfBool(true).MapKey()
	case protoreflect.Int32Kind, protoreflect.Sint32Kind, protoreflect.Sfixed32Kind:
		return protoreflect.ValueOfInt32(1).MapKey()
	case protoreflect.Int64Kind, protoreflect.Sint64Kind, protoreflect.Sfixed64Kind:
		return protoreflect.ValueOfInt64(1).MapKey()
	case protoreflect.Uint32Kind, protoreflect.Fixed32Kind:
		return protoreflect.ValueOfUint32(1).MapKey()
	}
	return protoreflect.ValueOfUint64(1).MapKey()
}
