// vfacts extracts, from generated *.pulsar.go files, the syntactic facts two properties rest on:
//
//   - C11: the read paths of a generated message (fast-reflection reads, list/map view reads, getters, the size and
//     marshal closures) contain no statement that writes memory reachable from the message;
//   - C07: every use of a sub-slice of the input buffer inside the unmarshal closure is of a copying or reading form
//     (string conversion, append/copy into other storage, nested decode, skip, fixed-width read), and the buffer a
//     marshal closure returns is the one it built, never storage of the message.
//
// It is a go/ast walk without type information: "reachable from the message" is approximated by a taint set that
// starts with the receiver (and `x` inside closures) and follows := / range / type-switch bindings.
// Output: JSON on stdout. The check writes lean/Pulsar/ExtractedCode.lean from the violation lists.
package main

import (
	"bytes"
	"encoding/json"
	"fmt"
	"go/ast"
	"go/parser"
	"go/printer"
	"go/token"
	"os"
	"sort"
	"strings"
)

type Facts struct {
	Files              int            `json:"files"`
	ReadFuncs          int            `json:"read_funcs_scanned"`
	ReadFuncKinds      map[string]int `json:"read_func_kinds"`
	ReadPathWrites     []string       `json:"read_path_writes"`
	UnmarshalClosures  int            `json:"unmarshal_closures"`
	InputFlowKinds     map[string]int `json:"input_flow_kinds"`
	InputFlowOther     []string       `json:"input_flow_other"`
	MarshalClosures    int            `json:"marshal_closures"`
	MarshalBufRoots    map[string]int `json:"marshal_buf_roots"`
	MarshalBufOther    []string       `json:"marshal_buf_other"`
	UnparsableOrErrors []string       `json:"errors"`
	// package-level variables of the runtime package other than error values: state that survives a call
	RuntimeState []string `json:"runtime_state"`
	RuntimeFiles int      `json:"runtime_files"`
	// addresses of message memory handed to a call on a read path (a callee could write through them)
	ReadPathEscapes []string `json:"read_path_escapes"`
}

var fset = token.NewFileSet()

// functions of the runtime package (runtime/*.go), by name: helpers the generated closures may call
var runtimeFuncs = map[string]*ast.FuncDecl{}

var valueTypes = map[string]bool{"int": true, "int8": true, "int16": true, "int32": true, "int64": true, "uint": true,
	"uint8": true, "uint16": true, "uint32": true, "uint64": true, "uintptr": true, "bool": true, "error": true, "float32": true,
	"float64": true, "byte": true, "rune": true}

// helperReads: calling runtime.<name> with a piece of the input buffer as argument number argIdx can neither
// change the input nor make the result share memory with it: the parameter is never written through, and every
// result is of a value type (or a string built by a `string(...)` conversion, which copies). Storing the slice
// somewhere for later is excluded separately: the runtime package has no package-level variables (runtimeState).
func helperReads(name string, argIdx int) bool {
	fd := runtimeFuncs[name]
	if fd == nil || fd.Body == nil || fd.Recv != nil {
		return false
	}
	var params []string
	for _, f := range fd.Type.Params.List {
		if len(f.Names) == 0 {
			params = append(params, "_")
		}
		for _, n := range f.Names {
			params = append(params, n.Name)
		}
	}
	if argIdx >= len(params) {
		return false
	}
	if len(writesIn(fd.Body, params[argIdx])) > 0 {
		return false
	}
	stringResult := false
	if fd.Type.Results != nil {
		for _, r := range fd.Type.Results.List {
			id, ok := r.Type.(*ast.Ident)
			if !ok {
				return false
			}
			if id.Name == "string" {
				stringResult = true
			} else if !valueTypes[id.Name] {
				return false
			}
		}
	}
	ok := true
	ast.Inspect(fd.Body, func(n ast.Node) bool {
		switch v := n.(type) {
		case *ast.FuncLit:
			ok = false // keep it simple: no closures in such helpers
		case *ast.GoStmt, *ast.DeferStmt:
			ok = false
		case *ast.ReturnStmt:
			if stringResult {
				for _, e := range v.Results {
					if bl, isLit := e.(*ast.BasicLit); isLit && bl.Kind == token.STRING {
						continue
					}
					call, isCall := e.(*ast.CallExpr)
					if !isCall {
						if id, isId := e.(*ast.Ident); isId && (id.Name == "nil" || valueTypes[id.Name]) {
							continue
						}
						// other results of a (string, error)-style function are value typed; a bare identifier
						// could be a string built elsewhere: not accepted
						if _, isId := e.(*ast.Ident); isId {
							ok = false
						}
						continue
					}
					if id, isId := call.Fun.(*ast.Ident); !isId || id.Name != "string" {
						ok = false
					}
				}
			}
		}
		return ok
	})
	return ok
}

func show(n ast.Node) string {
	var b bytes.Buffer
	_ = printer.Fprint(&b, fset, n)
	s := strings.Join(strings.Fields(b.String()), " ")
	if len(s) > 160 {
		s = s[:160] + "…"
	}
	return s
}

// root identifier of an lvalue / expression, following selectors, indexes, stars, parens, slices, type assertions, &
func root(e ast.Expr) (id *ast.Ident, deref bool) {
	for {
		switch v := e.(type) {
		case *ast.Ident:
			return v, deref
		case *ast.SelectorExpr:
			e, deref = v.X, true
		case *ast.IndexExpr:
			e, deref = v.X, true
		case *ast.StarExpr:
			e, deref = v.X, true
		case *ast.SliceExpr:
			e = v.X
		case *ast.ParenExpr:
			e = v.X
		case *ast.TypeAssertExpr:
			e = v.X
		case *ast.UnaryExpr:
			if v.Op != token.AND {
				return nil, deref
			}
			e = v.X
		default:
			return nil, deref
		}
	}
}

func recvTypeName(fd *ast.FuncDecl) (name, recv string) {
	if fd.Recv == nil || len(fd.Recv.List) != 1 {
		return "", ""
	}
	f := fd.Recv.List[0]
	if len(f.Names) == 1 {
		recv = f.Names[0].Name
	}
	t := f.Type
	if st, ok := t.(*ast.StarExpr); ok {
		t = st.X
	}
	if id, ok := t.(*ast.Ident); ok {
		name = id.Name
	}
	return
}

var reflReads = map[string]bool{"Descriptor": true, "Type": true, "New": true, "Interface": true, "Range": true, "Has": true,
	"Get": true, "WhichOneof": true, "GetUnknown": true, "IsValid": true, "NewField": true}
var viewReads = map[string]bool{"Len": true, "Get": true, "Has": true, "Range": true, "IsValid": true, "NewElement": true, "NewValue": true}

// readKind classifies a method as a read path ("" = not one).
func readKind(fd *ast.FuncDecl, structs map[string]bool) string {
	tn, _ := recvTypeName(fd)
	switch {
	case tn == "":
		return ""
	case strings.HasPrefix(tn, "fastReflection_"):
		if reflReads[fd.Name.Name] {
			return "reflection-read"
		}
	case strings.HasPrefix(tn, "_") && (strings.HasSuffix(tn, "_list") || strings.HasSuffix(tn, "_map")):
		if viewReads[fd.Name.Name] {
			return "view-read"
		}
	case structs[tn]:
		if strings.HasPrefix(fd.Name.Name, "Get") && fd.Type.Params.NumFields() == 0 {
			return "getter"
		}
		if fd.Name.Name == "ProtoReflect" {
			return "proto-reflect"
		}
	}
	return ""
}

// writesIn: statements inside body that write through a tainted root.
func writesIn(body ast.Node, seeds ...string) []string {
	taint := map[string]bool{}
	for _, s := range seeds {
		if s != "" && s != "_" {
			taint[s] = true
		}
	}
	var out []string
	isT := func(e ast.Expr) bool {
		id, _ := root(e)
		return id != nil && taint[id.Name]
	}
	ast.Inspect(body, func(n ast.Node) bool {
		switch v := n.(type) {
		case *ast.AssignStmt:
			for _, l := range v.Lhs {
				if id, deref := root(l); id != nil && deref && taint[id.Name] {
					out = append(out, show(v))
					break
				}
			}
			if len(v.Lhs) == len(v.Rhs) {
				for i, r := range v.Rhs {
					if _, isCall := r.(*ast.CallExpr); isCall {
						continue
					}
					if isT(r) {
						if id, ok := v.Lhs[i].(*ast.Ident); ok && id.Name != "_" {
							taint[id.Name] = true
						}
					}
				}
			} else if len(v.Rhs) == 1 { // v, ok := m[k] / x.(T)
				if _, isCall := v.Rhs[0].(*ast.CallExpr); !isCall && isT(v.Rhs[0]) {
					if id, ok := v.Lhs[0].(*ast.Ident); ok && id.Name != "_" {
						taint[id.Name] = true
					}
				}
			}
		case *ast.IncDecStmt:
			if id, deref := root(v.X); id != nil && deref && taint[id.Name] {
				out = append(out, show(v))
			}
		case *ast.RangeStmt:
			if isT(v.X) {
				for _, e := range []ast.Expr{v.Key, v.Value} {
					if id, ok := e.(*ast.Ident); ok && id.Name != "_" {
						taint[id.Name] = true
					}
				}
			}
		case *ast.TypeSwitchStmt:
			if as, ok := v.Assign.(*ast.AssignStmt); ok && len(as.Lhs) == 1 && len(as.Rhs) == 1 && isT(as.Rhs[0]) {
				if id, ok := as.Lhs[0].(*ast.Ident); ok {
					taint[id.Name] = true
				}
			}
		case *ast.CallExpr:
			if id, ok := v.Fun.(*ast.Ident); ok && len(v.Args) > 0 {
				switch id.Name {
				case "delete", "clear":
					if isT(v.Args[0]) {
						out = append(out, show(v))
					}
				case "copy":
					if isT(v.Args[0]) {
						out = append(out, show(v))
					}
				}
			}
		}
		return true
	})
	return out
}

// globalWritesIn: assignments inside body (closures included) whose target is rooted at an identifier that is
// neither declared inside the function (parameters, results, :=, var, range / type-switch bindings) nor the
// receiver — that is, package-level state written on a read path (a lazily initialised cache, a counter).
func globalWritesIn(fd *ast.FuncDecl) []string {
	local := map[string]bool{"_": true}
	addFields := func(fl *ast.FieldList) {
		if fl == nil {
			return
		}
		for _, f := range fl.List {
			for _, n := range f.Names {
				local[n.Name] = true
			}
		}
	}
	addFields(fd.Recv)
	addFields(fd.Type.Params)
	addFields(fd.Type.Results)
	ast.Inspect(fd.Body, func(n ast.Node) bool {
		switch v := n.(type) {
		case *ast.FuncLit:
			addFields(v.Type.Params)
			addFields(v.Type.Results)
		case *ast.AssignStmt:
			if v.Tok == token.DEFINE {
				for _, l := range v.Lhs {
					if id, ok := l.(*ast.Ident); ok {
						local[id.Name] = true
					}
				}
			}
		case *ast.RangeStmt:
			if v.Tok == token.DEFINE {
				for _, e := range []ast.Expr{v.Key, v.Value} {
					if id, ok := e.(*ast.Ident); ok {
						local[id.Name] = true
					}
				}
			}
		case *ast.GenDecl:
			for _, sp := range v.Specs {
				if vs, ok := sp.(*ast.ValueSpec); ok {
					for _, n := range vs.Names {
						local[n.Name] = true
					}
				}
			}
		case *ast.LabeledStmt:
			local[v.Label.Name] = true
		}
		return true
	})
	var out []string
	ast.Inspect(fd.Body, func(n ast.Node) bool {
		switch v := n.(type) {
		case *ast.AssignStmt:
			if v.Tok == token.DEFINE {
				return true
			}
			for _, l := range v.Lhs {
				if id, _ := root(l); id != nil && !local[id.Name] {
					out = append(out, show(v))
					break
				}
			}
		case *ast.IncDecStmt:
			if id, _ := root(v.X); id != nil && !local[id.Name] {
				out = append(out, show(v))
			}
		}
		return true
	})
	return out
}

// mentions: does the expression mention the identifier anywhere?
func mentions(e ast.Node, name string) bool {
	found := false
	ast.Inspect(e, func(n ast.Node) bool {
		if id, ok := n.(*ast.Ident); ok && id.Name == name {
			found = true
		}
		return !found
	})
	return found
}

// inputFlows classifies every slice expression over the input buffer inside an unmarshal closure.
func inputFlows(body ast.Node, kinds map[string]int, other *[]string, where string) {
	var stack []ast.Node
	ast.Inspect(body, func(n ast.Node) bool {
		if n == nil {
			stack = stack[:len(stack)-1]
			return true
		}
		stack = append(stack, n)
		se, ok := n.(*ast.SliceExpr)
		if !ok {
			return true
		}
		if id, _ := root(se.X); id == nil || id.Name != "dAtA" {
			return true
		}
		kind := ""
		if len(stack) >= 2 {
			if rs, ok := stack[len(stack)-2].(*ast.RangeStmt); ok && rs.X == ast.Expr(se) {
				kind = "range-read" // ranging over a []byte yields byte values
			}
			if call, ok := stack[len(stack)-2].(*ast.CallExpr); ok {
				argIdx := -1
				for i, a := range call.Args {
					if a == ast.Expr(se) {
						argIdx = i
					}
				}
				switch f := call.Fun.(type) {
				case *ast.Ident:
					switch {
					case f.Name == "string" && argIdx == 0:
						kind = "string-copy"
					case f.Name == "append" && argIdx >= 1:
						// copies into the storage of the first argument, whatever that is (a field, a local, a fresh
						// make(...)), as long as it is not the input buffer itself
						if !mentions(call.Args[0], "dAtA") {
							kind = "append-copy"
						}
					case f.Name == "copy" && argIdx == 1:
						if !mentions(call.Args[0], "dAtA") {
							kind = "copy-copy"
						}
					}
				case *ast.SelectorExpr:
					fn := show(f)
					switch {
					case fn == "options.Unmarshal" && argIdx == 0:
						kind = "nested-decode"
					case fn == "runtime.Skip" && argIdx == 0:
						kind = "skip-read"
					case (fn == "binary.LittleEndian.Uint32" || fn == "binary.LittleEndian.Uint64") && argIdx == 0:
						kind = "fixed-read"
					case (fn == "bytes.Clone" || fn == "slices.Clone") && argIdx == 0:
						kind = "append-copy" // documented to return a copy
					case strings.HasPrefix(fn, "runtime.") && argIdx >= 0 && helperReads(strings.TrimPrefix(fn, "runtime."), argIdx):
						kind = "helper-read"
					}
				}
			}
		}
		if kind == "" {
			ctx := ast.Node(se)
			for i := len(stack) - 2; i >= 0; i-- {
				if _, ok := stack[i].(ast.Stmt); ok {
					ctx = stack[i]
					break
				}
			}
			*other = append(*other, where+": "+show(ctx))
			return true
		}
		kinds[kind]++
		return true
	})
}

func marshalBuf(body ast.Node, roots map[string]int, other *[]string, where string) {
	// the output buffer (input.Buf / dAtA) must only ever be (re)bound to storage the closure made itself:
	// make(...), append(<own buffer>, …), slices of its own buffers — never storage rooted at the message
	own := func(e ast.Expr) bool {
		if call, ok := e.(*ast.CallExpr); ok {
			if id, ok := call.Fun.(*ast.Ident); ok {
				switch id.Name {
				case "make":
					return true
				case "append":
					if len(call.Args) > 0 {
						r, _ := root(call.Args[0])
						return r != nil && (r.Name == "input" || r.Name == "dAtA")
					}
				}
			}
			return false
		}
		r, _ := root(e)
		return r != nil && (r.Name == "input" || r.Name == "dAtA" || r.Name == "nil")
	}
	ast.Inspect(body, func(n ast.Node) bool {
		as, ok := n.(*ast.AssignStmt)
		if !ok || len(as.Lhs) != len(as.Rhs) {
			return true
		}
		for i, l := range as.Lhs {
			ls := show(l)
			if ls != "input.Buf" && ls != "dAtA" {
				continue
			}
			// (this covers the definition `dAtA := …` as well: the buffer must be made here, not obtained from
			// a helper that may hand out storage it still owns)
			if own(as.Rhs[i]) {
				roots["rebind-own"]++
			} else {
				*other = append(*other, where+": "+show(as))
			}
		}
		return true
	})
	ast.Inspect(body, func(n ast.Node) bool {
		cl, ok := n.(*ast.CompositeLit)
		if !ok || !strings.HasSuffix(show(cl.Type), "MarshalOutput") {
			return true
		}
		for _, e := range cl.Elts {
			kv, ok := e.(*ast.KeyValueExpr)
			if !ok || show(kv.Key) != "Buf" {
				continue
			}
			id, _ := root(kv.Value)
			name := "?"
			if id != nil {
				name = id.Name
			}
			roots[name]++
			if name != "dAtA" && name != "input" {
				*other = append(*other, where+": "+show(cl))
			}
		}
		return true
	})
}

// escapesIn: `&<message memory>` handed to a call on a read path.
func escapesIn(body ast.Node, seeds ...string) []string {
	taint := map[string]bool{}
	for _, s := range seeds {
		if s != "" && s != "_" {
			taint[s] = true
		}
	}
	var out []string
	ast.Inspect(body, func(n ast.Node) bool {
		call, ok := n.(*ast.CallExpr)
		if !ok {
			return true
		}
		for _, a := range call.Args {
			ue, ok := a.(*ast.UnaryExpr)
			if !ok || ue.Op != token.AND {
				continue
			}
			if _, isLit := ue.X.(*ast.CompositeLit); isLit {
				continue
			}
			if id, _ := root(ue.X); id != nil && taint[id.Name] {
				out = append(out, show(call))
			}
		}
		return true
	})
	return out
}

// runtimeState: package-level `var`s of a runtime source file that are not plain error values.
// capturedWrites: assignments in a function literal to plain identifiers that the literal neither declares nor takes
// as a parameter / result (variables of the enclosing function or of the package).
func capturedWrites(fl *ast.FuncLit) []string {
	declared := map[string]bool{"_": true}
	addFields := func(fl *ast.FieldList) {
		if fl == nil {
			return
		}
		for _, f := range fl.List {
			for _, n := range f.Names {
				declared[n.Name] = true
			}
		}
	}
	addFields(fl.Type.Params)
	addFields(fl.Type.Results)
	ast.Inspect(fl.Body, func(n ast.Node) bool {
		switch x := n.(type) {
		case *ast.AssignStmt:
			if x.Tok == token.DEFINE {
				for _, l := range x.Lhs {
					if id, ok := l.(*ast.Ident); ok {
						declared[id.Name] = true
					}
				}
			}
		case *ast.ValueSpec:
			for _, id := range x.Names {
				declared[id.Name] = true
			}
		case *ast.RangeStmt:
			if x.Tok == token.DEFINE {
				for _, e := range []ast.Expr{x.Key, x.Value} {
					if id, ok := e.(*ast.Ident); ok {
						declared[id.Name] = true
					}
				}
			}
		case *ast.FuncLit:
			if x != fl {
				addFields(x.Type.Params)
				addFields(x.Type.Results)
			}
		}
		return true
	})
	var out []string
	ast.Inspect(fl.Body, func(n ast.Node) bool {
		var lhs []ast.Expr
		switch x := n.(type) {
		case *ast.AssignStmt:
			if x.Tok != token.DEFINE {
				lhs = x.Lhs
			}
		case *ast.IncDecStmt:
			lhs = []ast.Expr{x.X}
		}
		for _, l := range lhs {
			if id, ok := l.(*ast.Ident); ok && !declared[id.Name] {
				out = append(out, show(n))
			}
		}
		return true
	})
	return out
}

func runtimeState(f *ast.File, base string) (vars []string, names map[string]bool) {
	names = map[string]bool{}
	for _, d := range f.Decls {
		gd, ok := d.(*ast.GenDecl)
		if !ok || gd.Tok != token.VAR {
			continue
		}
		for _, sp := range gd.Specs {
			vs := sp.(*ast.ValueSpec)
			for i, n := range vs.Names {
				if n.Name == "_" {
					continue
				}
				isErr := false
				if i < len(vs.Values) {
					if call, ok := vs.Values[i].(*ast.CallExpr); ok {
						fn := show(call.Fun)
						isErr = fn == "errors.New" || fn == "fmt.Errorf"
					}
				}
				if !isErr {
					vars = append(vars, base+": var "+n.Name)
					names[n.Name] = true
				}
			}
		}
	}
	return
}

func main() {
	facts := Facts{ReadFuncKinds: map[string]int{}, InputFlowKinds: map[string]int{}, MarshalBufRoots: map[string]int{}}
	parsed := map[string]*ast.File{}
	for _, path := range os.Args[1:] {
		f, err := parser.ParseFile(fset, path, nil, 0)
		if err != nil {
			facts.UnparsableOrErrors = append(facts.UnparsableOrErrors, err.Error())
			continue
		}
		parsed[path] = f
		if !strings.HasSuffix(path, ".pulsar.go") {
			for _, d := range f.Decls {
				if fd, ok := d.(*ast.FuncDecl); ok && fd.Recv == nil {
					runtimeFuncs[fd.Name.Name] = fd
				}
			}
		}
	}
	for _, path := range os.Args[1:] {
		f := parsed[path]
		if f == nil {
			continue
		}
		base := path
		if i := strings.LastIndex(path, "internal/verifcorpus/"); i >= 0 {
			base = path[i+len("internal/verifcorpus/"):]
		} else if i := strings.LastIndex(path, "/repo/"); i >= 0 {
			base = path[i+len("/repo/"):]
		}
		if !strings.HasSuffix(path, ".pulsar.go") {
			// a source file of the runtime package
			facts.RuntimeFiles++
			vars, _ := runtimeState(f, base)
			facts.RuntimeState = append(facts.RuntimeState, vars...)
			continue
		}
		facts.Files++
		structs := map[string]bool{}
		for _, d := range f.Decls {
			if gd, ok := d.(*ast.GenDecl); ok && gd.Tok == token.TYPE {
				for _, sp := range gd.Specs {
					ts := sp.(*ast.TypeSpec)
					if _, ok := ts.Type.(*ast.StructType); ok {
						structs[ts.Name.Name] = true
					}
				}
			}
		}
		for _, d := range f.Decls {
			fd, ok := d.(*ast.FuncDecl)
			if !ok || fd.Body == nil {
				continue
			}
			tn, recv := recvTypeName(fd)
			where := fmt.Sprintf("%s %s.%s", base, tn, fd.Name.Name)
			if k := readKind(fd, structs); k != "" {
				facts.ReadFuncs++
				facts.ReadFuncKinds[k]++
				for _, w := range writesIn(fd.Body, recv) {
					facts.ReadPathWrites = append(facts.ReadPathWrites, where+": "+w)
				}
				for _, w := range globalWritesIn(fd) {
					facts.ReadPathWrites = append(facts.ReadPathWrites, where+": package-level state: "+w)
				}
				if k != "reflection-read" && k != "view-read" {
					// (reflection reads legitimately hand out views holding &x.Field inside composite literals only)
					for _, w := range escapesIn(fd.Body, recv) {
						facts.ReadPathEscapes = append(facts.ReadPathEscapes, where+": "+w)
					}
				}
			}
			if strings.HasPrefix(tn, "fastReflection_") && fd.Name.Name == "ProtoMethods" {
				// ProtoMethods itself runs on every Size / Marshal / Unmarshal call
				facts.ReadFuncs++
				facts.ReadFuncKinds["proto-methods"]++
				for _, w := range globalWritesIn(fd) {
					facts.ReadPathWrites = append(facts.ReadPathWrites, where+": package-level state: "+w)
				}
				ast.Inspect(fd.Body, func(n ast.Node) bool {
					as, ok := n.(*ast.AssignStmt)
					if !ok || len(as.Lhs) != 1 || len(as.Rhs) != 1 {
						return true
					}
					id, ok1 := as.Lhs[0].(*ast.Ident)
					fl, ok2 := as.Rhs[0].(*ast.FuncLit)
					if !ok1 || !ok2 {
						return true
					}
					w := where + "/" + id.Name
					switch id.Name {
					case "size", "marshal":
						facts.ReadFuncs++
						facts.ReadFuncKinds[id.Name+"-closure"]++
						for _, wr := range writesIn(fl.Body, "x", recv) {
							facts.ReadPathWrites = append(facts.ReadPathWrites, w+": "+wr)
						}
						for _, wr := range escapesIn(fl.Body, "x", recv) {
							facts.ReadPathEscapes = append(facts.ReadPathEscapes, w+": "+wr)
						}
						// state carried from one call to the next (or from the size closure to the marshal closure): a write
						// to a variable the closure captures instead of declaring it
						for _, wr := range capturedWrites(fl) {
							facts.ReadPathWrites = append(facts.ReadPathWrites, w+": captured variable: "+wr)
						}
						if id.Name == "marshal" {
							facts.MarshalClosures++
							marshalBuf(fl.Body, facts.MarshalBufRoots, &facts.MarshalBufOther, w)
						}
					case "unmarshal":
						facts.UnmarshalClosures++
						inputFlows(fl.Body, facts.InputFlowKinds, &facts.InputFlowOther, w)
					}
					return false
				})
			}
		}
	}
	sort.Strings(facts.RuntimeState)
	sort.Strings(facts.ReadPathEscapes)
	sort.Strings(facts.ReadPathWrites)
	sort.Strings(facts.InputFlowOther)
	sort.Strings(facts.MarshalBufOther)
	js, _ := json.MarshalIndent(facts, "", " ")
	fmt.Println(string(js))
}
