// vgen drives the working-tree plugin binary without protoc: it builds CodeGeneratorRequests from
// descriptorpb values, runs the plugin (fresh process per request), writes the emitted packages into
// internal/verifcorpus/<id>/ and generates the registry glue (zz_registry.go, all/all.go).
package main

import (
	"bytes"
	"encoding/json"
	"flag"
	"fmt"
	"go/ast"
	"go/parser"
	"go/token"
	"os"
	"os/exec"
	"path/filepath"
	"sort"
	"strings"

	"github.com/cosmos/cosmos-proto/internal/verifh/vschema"
	"google.golang.org/protobuf/proto"
	"google.golang.org/protobuf/reflect/protodesc"
	"google.golang.org/protobuf/reflect/protoregistry"
	_ "google.golang.org/protobuf/types/known/anypb"
	_ "google.golang.org/protobuf/types/known/durationpb"
	_ "google.golang.org/protobuf/types/known/emptypb"
	_ "google.golang.org/protobuf/types/known/fieldmaskpb"
	_ "google.golang.org/protobuf/types/known/structpb"
	_ "google.golang.org/protobuf/types/known/timestamppb"
	_ "google.golang.org/protobuf/types/known/wrapperspb"
	"google.golang.org/protobuf/types/descriptorpb"
	"google.golang.org/protobuf/types/pluginpb"
)

type genResult struct {
	ID      string   `json:"id"`
	Corpus  string   `json:"corpus"`
	OK      bool     `json:"ok"`
	Error   string   `json:"error,omitempty"`
	Files   []string `json:"files,omitempty"`
	ReqPath string   `json:"req_path"`
	Line    string   `json:"schema_line,omitempty"`
}

func runPlugin(plugin string, req *pluginpb.CodeGeneratorRequest) (*pluginpb.CodeGeneratorResponse, string, error) {
	in, err := proto.Marshal(req)
	if err != nil {
		return nil, "", err
	}
	cmd := exec.Command(plugin)
	cmd.Stdin = bytes.NewReader(in)
	var out, errb bytes.Buffer
	cmd.Stdout = &out
	cmd.Stderr = &errb
	if err := cmd.Run(); err != nil {
		return nil, errb.String(), fmt.Errorf("plugin process failed: %v: %s", err, tail(errb.String()))
	}
	resp := &pluginpb.CodeGeneratorResponse{}
	if err := proto.Unmarshal(out.Bytes(), resp); err != nil {
		return nil, errb.String(), fmt.Errorf("plugin response does not parse: %v", err)
	}
	return resp, errb.String(), nil
}

func tail(s string) string {
	if len(s) > 600 {
		return s[len(s)-600:]
	}
	return s
}

var corpusFiles = map[string]*descriptorpb.FileDescriptorProto{}

func main() {
	plugin := flag.String("plugin", "", "plugin binary")
	root := flag.String("root", "", "module root of the scratch copy")
	full := flag.Bool("full", false, "full matrix")
	nrandom := flag.Int("nrandom", 2, "random schemas")
	seed := flag.Uint64("seed", 1, "seed")
	flag.Parse()

	corpusDir := filepath.Join(*root, "internal", "verifcorpus")
	os.RemoveAll(corpusDir)
	os.MkdirAll(corpusDir, 0o755)
	var results []genResult
	var pkgs []string

	var emitFD func(corpus, id, line string, fd *descriptorpb.FileDescriptorProto)
	emit := func(corpus string, s *vschema.Schema) {
		dir := s.ID
		if s.Dir != "" {
			dir = s.Dir
		}
		fileName := "verifcorpus/" + dir + "/" + s.ID + ".proto"
		emitFD(corpus, s.ID, s.Line(), s.ToFile(fileName))
	}
	emitFD = func(corpus, id, line string, fd *descriptorpb.FileDescriptorProto) {
		fileName := fd.GetName()
		s := &struct{ ID string }{ID: id}
		// dependencies first (topological order): corpus files already emitted, then registered files
		var files []*descriptorpb.FileDescriptorProto
		seen := map[string]bool{}
		var addDep func(path string)
		addDep = func(path string) {
			if seen[path] {
				return
			}
			seen[path] = true
			if d, ok := corpusFiles[path]; ok {
				for _, dd := range d.Dependency {
					addDep(dd)
				}
				files = append(files, d)
				return
			}
			rf, err := protoregistry.GlobalFiles.FindFileByPath(path)
			if err != nil {
				fmt.Fprintln(os.Stderr, "unknown import", path)
				return
			}
			im := rf.Imports()
			for i := 0; i < im.Len(); i++ {
				addDep(im.Get(i).Path())
			}
			files = append(files, protodesc.ToFileDescriptorProto(rf))
		}
		for _, d := range fd.Dependency {
			addDep(d)
		}
		files = append(files, fd)
		corpusFiles[fileName] = fd
		req := &pluginpb.CodeGeneratorRequest{
			FileToGenerate: []string{fileName},
			Parameter:      proto.String("features=protoc+fast,paths=source_relative"),
			ProtoFile:      files,
		}
		res := genResult{ID: s.ID, Corpus: corpus, Line: line}
		reqBytes, _ := proto.Marshal(req)
		res.ReqPath = filepath.Join(corpusDir, s.ID+".req.bin")
		os.WriteFile(res.ReqPath, reqBytes, 0o644)
		resp, _, err := runPlugin(*plugin, req)
		switch {
		case err != nil:
			res.Error = err.Error()
		case resp.Error != nil:
			res.Error = "plugin error: " + resp.GetError()
		default:
			res.OK = true
			dir := filepath.Join(corpusDir, filepath.Base(filepath.Dir(fileName)))
			os.MkdirAll(dir, 0o755)
			for _, f := range resp.File {
				p := filepath.Join(dir, filepath.Base(f.GetName()))
				os.WriteFile(p, []byte(f.GetContent()), 0o644)
				res.Files = append(res.Files, p)
			}
			if len(resp.File) == 0 {
				res.OK = false
				res.Error = "no files in response"
			} else {
				pkg := "github.com/cosmos/cosmos-proto/internal/verifcorpus/" + filepath.Base(dir)
				known := false
				for _, p := range pkgs {
					known = known || p == pkg
				}
				if !known {
					pkgs = append(pkgs, pkg)
				}
				if err := writeRegistry(dir, filepath.Base(dir)); err != nil {
					res.OK = false
					res.Error = "registry: " + err.Error()
				}
			}
		}
		results = append(results, res)
	}

	for _, s := range vschema.Matrix(*full) {
		emit("matrix", s)
	}
	emitFD("nested", "nest", "", vschema.Nested())
	for _, s := range vschema.Graph() {
		emit("graph", s)
	}
	for _, s := range vschema.SamePkg() {
		emit("samepkg", s)
	}
	for _, s := range vschema.Dup() {
		emit("dup", s)
	}
	for _, s := range vschema.Names() {
		emit("names", s)
	}
	for _, s := range vschema.Random(*seed, *nrandom) {
		emit("random", s)
	}

	// registries for the checked-in packages
	for _, d := range []string{"testpb", filepath.Join("internal", "testprotos", "test3")} {
		if err := writeRegistry(filepath.Join(*root, d), d); err != nil {
			fmt.Fprintln(os.Stderr, "registry for", d, ":", err)
			os.Exit(2)
		}
	}
	pkgs = append(pkgs, "github.com/cosmos/cosmos-proto/testpb", "github.com/cosmos/cosmos-proto/internal/testprotos/test3")

	// all.go
	allDir := filepath.Join(corpusDir, "all")
	os.MkdirAll(allDir, 0o755)
	var sb strings.Builder
	sb.WriteString("// Code generated by vgen. DO NOT EDIT.\npackage all\n\nimport (\n")
	sort.Strings(pkgs)
	for _, p := range pkgs {
		sb.WriteString("\t_ \"" + p + "\"\n")
	}
	sb.WriteString(")\n")
	os.WriteFile(filepath.Join(allDir, "all.go"), []byte(sb.String()), 0o644)

	js, _ := json.MarshalIndent(results, "", " ")
	os.WriteFile(filepath.Join(corpusDir, "gen_report.json"), js, 0o644)
	bad := 0
	for _, r := range results {
		if !r.OK {
			bad++
			fmt.Printf("GENFAIL %s: %s\n", r.ID, r.Error)
		}
	}
	fmt.Printf("vgen: %d schemas, %d failed\n", len(results), bad)
}

// writeRegistry parses the *.pulsar.go files of a package directory and writes zz_registry.go.
func writeRegistry(dir string, id string) error {
	fset := token.NewFileSet()
	matches, _ := filepath.Glob(filepath.Join(dir, "*.pulsar.go"))
	if len(matches) == 0 {
		return fmt.Errorf("no pulsar files in %s", dir)
	}
	pkgName := ""
	type wrapper struct {
		name  string
		num   string
		iface string
	}
	msgs := []string{}
	structFields := map[string]map[string]string{} // msg -> field name -> type (ident)
	wrappers := map[string]*wrapper{}
	hasSlow := map[string]bool{}
	for _, mf := range matches {
		f, err := parser.ParseFile(fset, mf, nil, 0)
		if err != nil {
			return err
		}
		pkgName = f.Name.Name
		for _, d := range f.Decls {
			switch d := d.(type) {
			case *ast.GenDecl:
				for _, sp := range d.Specs {
					ts, ok := sp.(*ast.TypeSpec)
					if !ok {
						continue
					}
					st, ok := ts.Type.(*ast.StructType)
					if !ok {
						continue
					}
					isMsg := false
					fields := map[string]string{}
					for _, fl := range st.Fields.List {
						for _, n := range fl.Names {
							if n.Name == "unknownFields" {
								isMsg = true
							}
							if id, ok := fl.Type.(*ast.Ident); ok {
								fields[n.Name] = id.Name
							}
						}
					}
					if isMsg {
						msgs = append(msgs, ts.Name.Name)
						structFields[ts.Name.Name] = fields
					} else if len(st.Fields.List) == 1 && st.Fields.List[0].Tag != nil && strings.Contains(st.Fields.List[0].Tag.Value, ",oneof") {
						tag := st.Fields.List[0].Tag.Value
						i := strings.Index(tag, "protobuf:\"")
						parts := strings.Split(tag[i+10:], ",")
						if len(parts) >= 2 {
							wrappers[ts.Name.Name] = &wrapper{name: ts.Name.Name, num: parts[1]}
						}
					}
				}
			case *ast.FuncDecl:
				if d.Recv == nil || len(d.Recv.List) != 1 {
					continue
				}
				star, ok := d.Recv.List[0].Type.(*ast.StarExpr)
				if !ok {
					continue
				}
				rid, ok := star.X.(*ast.Ident)
				if !ok {
					continue
				}
				if d.Name.Name == "slowProtoReflect" {
					hasSlow[rid.Name] = true
				}
				if strings.HasPrefix(d.Name.Name, "is") {
					if w, ok := wrappers[rid.Name]; ok {
						w.iface = d.Name.Name
					} else {
						wrappers[rid.Name] = &wrapper{name: rid.Name, iface: d.Name.Name}
					}
				}
			}
		}
	}
	var sb strings.Builder
	sb.WriteString("// Code generated by vgen. DO NOT EDIT.\npackage " + pkgName + "\n\nimport (\n")
	sb.WriteString("\tvreg \"github.com/cosmos/cosmos-proto/internal/verifh/vreg\"\n")
	sb.WriteString("\tvproto \"google.golang.org/protobuf/proto\"\n")
	sb.WriteString("\tvprotoreflect \"google.golang.org/protobuf/reflect/protoreflect\"\n)\n\n")
	sb.WriteString("func init() {\n\tvreg.Register(vreg.Pkg{Name: \"" + id + "\", Messages: []vreg.MsgInfo{\n")
	sort.Strings(msgs)
	for _, m := range msgs {
		sb.WriteString("\t\t{Proto: (*" + m + ")(nil), Wrappers: map[int]interface{}{")
		ifaces := map[string]bool{}
		for _, t := range structFields[m] {
			ifaces[t] = true
		}
		var ws []*wrapper
		for _, w := range wrappers {
			if w.num != "" && w.iface != "" && ifaces[w.iface] {
				ws = append(ws, w)
			}
		}
		sort.Slice(ws, func(i, j int) bool { return ws[i].name < ws[j].name })
		for _, w := range ws {
			sb.WriteString(w.num + ": (*" + w.name + ")(nil), ")
		}
		sb.WriteString("}")
		if hasSlow[m] {
			sb.WriteString(", Slow: func(m vproto.Message) vprotoreflect.Message { return m.(*" + m + ").slowProtoReflect() }")
		}
		sb.WriteString("},\n")
	}
	sb.WriteString("\t}})\n}\n\nvar _ vproto.Message\nvar _ vprotoreflect.Message\n")
	return os.WriteFile(filepath.Join(dir, "zz_registry.go"), []byte(sb.String()), 0o644)
}
