// vregen regenerates the checked-in *.pulsar.go files' content from their registered descriptors by
// driving a plugin binary without protoc, and writes the result to an output directory.
// Used (a) to port template fixes to the checked-in files (diff old-plugin output vs new-plugin output,
// apply to the checked-in file) and (b) by the C13/C19 engines.
package main

import (
	"bytes"
	"flag"
	"fmt"
	"os"
	"os/exec"
	"path/filepath"

	_ "github.com/cosmos/cosmos-proto/internal/testprotos/test3"
	_ "github.com/cosmos/cosmos-proto/testpb"
	"google.golang.org/protobuf/proto"
	"google.golang.org/protobuf/reflect/protodesc"
	"google.golang.org/protobuf/reflect/protoreflect"
	"google.golang.org/protobuf/reflect/protoregistry"
	"google.golang.org/protobuf/types/descriptorpb"
	"google.golang.org/protobuf/types/pluginpb"
)

var targets = []struct{ file, out string }{
	{"1.proto", "testpb/1.pulsar.go"},
	{"2.proto", "testpb/2.pulsar.go"},
	{"3.proto", "testpb/3.pulsar.go"},
	{"internal/testprotos/test3/test.proto", "internal/testprotos/test3/test.pulsar.go"},
	{"internal/testprotos/test3/test_import.proto", "internal/testprotos/test3/test_import.pulsar.go"},
	{"internal/testprotos/test3/test_nesting.proto", "internal/testprotos/test3/test_nesting.pulsar.go"},
}

func closure(fd protoreflect.FileDescriptor, seen map[string]bool, out *[]*descriptorpb.FileDescriptorProto) {
	if seen[fd.Path()] {
		return
	}
	seen[fd.Path()] = true
	imps := fd.Imports()
	for i := 0; i < imps.Len(); i++ {
		closure(imps.Get(i).FileDescriptor, seen, out)
	}
	*out = append(*out, protodesc.ToFileDescriptorProto(fd))
}

func main() {
	plugin := flag.String("plugin", "", "plugin binary")
	outDir := flag.String("out", "", "output directory")
	flag.Parse()
	for _, t := range targets {
		fd, err := protoregistry.GlobalFiles.FindFileByPath(t.file)
		if err != nil {
			fmt.Println("missing", t.file, err)
			os.Exit(1)
		}
		var files []*descriptorpb.FileDescriptorProto
		closure(fd, map[string]bool{}, &files)
		req := &pluginpb.CodeGeneratorRequest{
			FileToGenerate: []string{t.file},
			Parameter:      proto.String("features=protoc+fast,paths=source_relative"),
			ProtoFile:      files,
		}
		in, _ := proto.Marshal(req)
		cmd := exec.Command(*plugin)
		cmd.Stdin = bytes.NewReader(in)
		var ob, eb bytes.Buffer
		cmd.Stdout, cmd.Stderr = &ob, &eb
		if err := cmd.Run(); err != nil {
			fmt.Println("plugin failed for", t.file, err, eb.String())
			os.Exit(1)
		}
		resp := &pluginpb.CodeGeneratorResponse{}
		if err := proto.Unmarshal(ob.Bytes(), resp); err != nil || resp.Error != nil {
			fmt.Println("plugin error for", t.file, err, resp.GetError())
			os.Exit(1)
		}
		if len(resp.File) != 1 {
			fmt.Println("expected one file for", t.file, "got", len(resp.File))
			os.Exit(1)
		}
		p := filepath.Join(*outDir, t.out)
		os.MkdirAll(filepath.Dir(p), 0o755)
		os.WriteFile(p, []byte(resp.File[0].GetContent()), 0o644)
	}
	fmt.Println("regenerated", len(targets), "files into", *outDir)
}
