// Package vschema is the neutral schema representation shared by the Go harness and the Lean model:
// the same value is rendered as a descriptorpb.FileDescriptorProto (for the plugin) and as the
// `schema` line of the line protocol (for the Lean driver), and it can be derived back from a
// registered message descriptor.
package vschema

import (
	"fmt"
	"sort"
	"strings"

	"google.golang.org/protobuf/proto"
	"google.golang.org/protobuf/reflect/protoreflect"
	"google.golang.org/protobuf/types/descriptorpb"
)

type Kind int

const (
	Int32 Kind = iota
	Int64
	Uint32
	Uint64
	Sint32
	Sint64
	Bool
	Enum
	Fixed32
	Sfixed32
	Float
	Fixed64
	Sfixed64
	Double
	String
	Bytes
	NumKinds
)

var kindNames = [...]string{"int32", "int64", "uint32", "uint64", "sint32", "sint64", "bool", "enum",
	"fixed32", "sfixed32", "float", "fixed64", "sfixed64", "double", "string", "bytes"}

func (k Kind) String() string { return kindNames[k] }

// Width in bits of the Go type holding the kind (0 for string/bytes, 1 for bool).
func (k Kind) Width() int {
	switch k {
	case Int32, Uint32, Sint32, Enum, Fixed32, Sfixed32, Float:
		return 32
	case Int64, Uint64, Sint64, Fixed64, Sfixed64, Double:
		return 64
	case Bool:
		return 1
	}
	return 0
}
func (k Kind) IsBlob() bool     { return k == String || k == Bytes }
func (k Kind) Packable() bool   { return !k.IsBlob() }
func (k Kind) ValidMapKey() bool { return k != Float && k != Double && k != Bytes && k != Enum }
func (k Kind) Signed() bool {
	switch k {
	case Int32, Int64, Sint32, Sint64, Sfixed32, Sfixed64, Enum:
		return true
	}
	return false
}

var protoKinds = map[protoreflect.Kind]Kind{
	protoreflect.Int32Kind: Int32, protoreflect.Int64Kind: Int64, protoreflect.Uint32Kind: Uint32,
	protoreflect.Uint64Kind: Uint64, protoreflect.Sint32Kind: Sint32, protoreflect.Sint64Kind: Sint64,
	protoreflect.BoolKind: Bool, protoreflect.EnumKind: Enum, protoreflect.Fixed32Kind: Fixed32,
	protoreflect.Sfixed32Kind: Sfixed32, protoreflect.FloatKind: Float, protoreflect.Fixed64Kind: Fixed64,
	protoreflect.Sfixed64Kind: Sfixed64, protoreflect.DoubleKind: Double, protoreflect.StringKind: String,
	protoreflect.BytesKind: Bytes,
}

var descTypes = map[Kind]descriptorpb.FieldDescriptorProto_Type{
	Int32: descriptorpb.FieldDescriptorProto_TYPE_INT32, Int64: descriptorpb.FieldDescriptorProto_TYPE_INT64,
	Uint32: descriptorpb.FieldDescriptorProto_TYPE_UINT32, Uint64: descriptorpb.FieldDescriptorProto_TYPE_UINT64,
	Sint32: descriptorpb.FieldDescriptorProto_TYPE_SINT32, Sint64: descriptorpb.FieldDescriptorProto_TYPE_SINT64,
	Bool: descriptorpb.FieldDescriptorProto_TYPE_BOOL, Enum: descriptorpb.FieldDescriptorProto_TYPE_ENUM,
	Fixed32: descriptorpb.FieldDescriptorProto_TYPE_FIXED32, Sfixed32: descriptorpb.FieldDescriptorProto_TYPE_SFIXED32,
	Float: descriptorpb.FieldDescriptorProto_TYPE_FLOAT, Fixed64: descriptorpb.FieldDescriptorProto_TYPE_FIXED64,
	Sfixed64: descriptorpb.FieldDescriptorProto_TYPE_SFIXED64, Double: descriptorpb.FieldDescriptorProto_TYPE_DOUBLE,
	String: descriptorpb.FieldDescriptorProto_TYPE_STRING, Bytes: descriptorpb.FieldDescriptorProto_TYPE_BYTES,
}

type ShapeKind int

const (
	Singular ShapeKind = iota
	Repeated
	Oneof
	Map
)

// Field: for Map, (IsMsg, Kind/Msg) describe the value element and Key the key kind.
type Field struct {
	Num    int
	IsMsg  bool
	Kind   Kind // scalar kind when !IsMsg
	Msg    int  // message index when IsMsg
	Shape  ShapeKind
	Packed bool // Repeated
	Group  int  // Oneof
	Key    Kind // Map
	Name   string
	// EnumName: full name of the enum type (derived schemas), "" for the corpus default enum.
	EnumName string
	// Extern: full name of a message type defined outside this schema (well-known type or a message
	// of another corpus package); only for building descriptors (IsMsg must be true, Msg ignored).
	Extern string
}

type Msg struct {
	Name     string // short name in corpus schemas, full name in derived schemas
	FullName string
	Fields   []Field
	// OneofNames: names of the oneof groups by index.
	OneofNames []string
}

type Schema struct {
	// Dir: directory (and proto path component) of the generated package, default ID; NoEnum: do not
	// declare the corpus enum E in this file (several files sharing one proto package).
	Dir    string
	NoEnum bool
	// Imports: proto file paths this schema's file depends on (for Extern fields).
	Imports []string
	ID      string
	Package string // proto package (corpus schemas)
	GoPkg   string // Go import path
	Msgs    []Msg
	// Supported: every reachable message is pulsar-generated and inside the modelled subset.
	Supported bool
	Why       string
}

// Line renders the `schema` line payload of the line protocol.
func (s *Schema) Line() string {
	var sb strings.Builder
	for i, m := range s.Msgs {
		if i > 0 {
			sb.WriteString(" |")
		}
		for _, f := range m.Fields {
			sb.WriteString(" ")
			sb.WriteString(fmt.Sprintf("%d,", f.Num))
			if f.IsMsg {
				sb.WriteString(fmt.Sprintf("m:%d,", f.Msg))
			} else {
				sb.WriteString("k:" + f.Kind.String() + ",")
			}
			switch f.Shape {
			case Singular:
				sb.WriteString("s")
			case Repeated:
				if f.Packed {
					sb.WriteString("r1")
				} else {
					sb.WriteString("r0")
				}
			case Oneof:
				sb.WriteString(fmt.Sprintf("o:%d", f.Group))
			case Map:
				sb.WriteString("p:" + f.Key.String())
			}
		}
	}
	return "schema " + s.ID + sb.String()
}

// EnumValues of the corpus default enum: sparse and negative numbers on purpose.
var CorpusEnumValues = []struct {
	Name string
	Num  int32
}{{"E_ZERO", 0}, {"E_ONE", 1}, {"E_NEG", -1}, {"E_BIG", 2147483647}, {"E_MIN", -2147483648}, {"E_SPARSE", 1000}}

func camel(s string) string { // mirrors protogen's GoCamelCase for the simple names the corpus uses
	out := []byte{}
	up := true
	for i := 0; i < len(s); i++ {
		c := s[i]
		if c == '_' {
			up = true
			continue
		}
		if up && c >= 'a' && c <= 'z' {
			c -= 32
		}
		up = false
		out = append(out, c)
	}
	return string(out)
}

// ToFile renders the schema as a proto3 file descriptor. Messages are top-level `Name`; enum kind
// fields reference the file-level enum `E`; map fields get synthesized entry messages; oneof groups
// are named from OneofNames or g<k>.
func (s *Schema) ToFile(fileName string) *descriptorpb.FileDescriptorProto {
	fd := &descriptorpb.FileDescriptorProto{
		Name:    proto.String(fileName),
		Package: proto.String(s.Package),
		Syntax:  proto.String("proto3"),
		Options: &descriptorpb.FileOptions{GoPackage: proto.String(s.GoPkg)},
	}
	fd.Dependency = append(fd.Dependency, s.Imports...)
	ed := &descriptorpb.EnumDescriptorProto{Name: proto.String("E")}
	for _, v := range CorpusEnumValues {
		ed.Value = append(ed.Value, &descriptorpb.EnumValueDescriptorProto{Name: proto.String(v.Name), Number: proto.Int32(v.Num)})
	}
	if !s.NoEnum {
		fd.EnumType = append(fd.EnumType, ed)
	}
	typeName := func(i int) string { return "." + s.Package + "." + s.Msgs[i].Name }
	_ = typeName
	for _, m := range s.Msgs {
		md := &descriptorpb.DescriptorProto{Name: proto.String(m.Name)}
		ngroups := 0
		for _, f := range m.Fields {
			if f.Shape == Oneof && f.Group+1 > ngroups {
				ngroups = f.Group + 1
			}
		}
		for g := 0; g < ngroups; g++ {
			name := fmt.Sprintf("g%d", g)
			if g < len(m.OneofNames) && m.OneofNames[g] != "" {
				name = m.OneofNames[g]
			}
			md.OneofDecl = append(md.OneofDecl, &descriptorpb.OneofDescriptorProto{Name: proto.String(name)})
		}
		var curExtern string
		setElem := func(fp *descriptorpb.FieldDescriptorProto, isMsg bool, k Kind, mi int) {
			if isMsg {
				fp.Type = descriptorpb.FieldDescriptorProto_TYPE_MESSAGE.Enum()
				if curExtern != "" {
					fp.TypeName = proto.String("." + curExtern)
				} else {
					fp.TypeName = proto.String(typeName(mi))
				}
			} else {
				fp.Type = descTypes[k].Enum()
				if k == Enum {
					fp.TypeName = proto.String("." + s.Package + ".E")
				}
			}
		}
		for _, f := range m.Fields {
			name := f.Name
			if name == "" {
				name = fmt.Sprintf("f%d", f.Num)
			}
			fp := &descriptorpb.FieldDescriptorProto{
				Name:     proto.String(name),
				JsonName: proto.String(jsonName(name)),
				Number:   proto.Int32(int32(f.Num)),
				Label:    descriptorpb.FieldDescriptorProto_LABEL_OPTIONAL.Enum(),
			}
			curExtern = f.Extern
			switch f.Shape {
			case Singular:
				setElem(fp, f.IsMsg, f.Kind, f.Msg)
			case Repeated:
				fp.Label = descriptorpb.FieldDescriptorProto_LABEL_REPEATED.Enum()
				setElem(fp, f.IsMsg, f.Kind, f.Msg)
				if !f.IsMsg && f.Kind.Packable() && !f.Packed {
					fp.Options = &descriptorpb.FieldOptions{Packed: proto.Bool(false)}
				}
			case Oneof:
				setElem(fp, f.IsMsg, f.Kind, f.Msg)
				fp.OneofIndex = proto.Int32(int32(f.Group))
			case Map:
				entryName := camel(name) + "Entry"
				fp.Label = descriptorpb.FieldDescriptorProto_LABEL_REPEATED.Enum()
				fp.Type = descriptorpb.FieldDescriptorProto_TYPE_MESSAGE.Enum()
				fp.TypeName = proto.String("." + s.Package + "." + m.Name + "." + entryName)
				kf := &descriptorpb.FieldDescriptorProto{Name: proto.String("key"), JsonName: proto.String("key"), Number: proto.Int32(1),
					Label: descriptorpb.FieldDescriptorProto_LABEL_OPTIONAL.Enum(), Type: descTypes[f.Key].Enum()}
				vf := &descriptorpb.FieldDescriptorProto{Name: proto.String("value"), JsonName: proto.String("value"), Number: proto.Int32(2),
					Label: descriptorpb.FieldDescriptorProto_LABEL_OPTIONAL.Enum()}
				setElem(vf, f.IsMsg, f.Kind, f.Msg)
				md.NestedType = append(md.NestedType, &descriptorpb.DescriptorProto{
					Name: proto.String(entryName), Field: []*descriptorpb.FieldDescriptorProto{kf, vf},
					Options: &descriptorpb.MessageOptions{MapEntry: proto.Bool(true)},
				})
			}
			md.Field = append(md.Field, fp)
		}
		fd.MessageType = append(fd.MessageType, md)
	}
	return fd
}

func jsonName(s string) string {
	out := []byte{}
	up := false
	for i := 0; i < len(s); i++ {
		c := s[i]
		if c == '_' {
			up = true
			continue
		}
		if up && c >= 'a' && c <= 'z' {
			c -= 32
		}
		up = false
		out = append(out, c)
	}
	return string(out)
}

// FromMessage derives the schema closure of a registered message descriptor. Root is index 0.
// isPulsar reports whether a message full name is implemented by pulsar-generated code.
func FromMessage(root protoreflect.MessageDescriptor, isPulsar func(protoreflect.FullName) bool) *Schema {
	s := &Schema{ID: string(root.FullName()), Supported: true}
	index := map[protoreflect.FullName]int{}
	var queue []protoreflect.MessageDescriptor
	add := func(md protoreflect.MessageDescriptor) int {
		if i, ok := index[md.FullName()]; ok {
			return i
		}
		i := len(queue)
		index[md.FullName()] = i
		queue = append(queue, md)
		return i
	}
	add(root)
	for qi := 0; qi < len(queue); qi++ {
		md := queue[qi]
		m := Msg{Name: string(md.FullName()), FullName: string(md.FullName())}
		if !isPulsar(md.FullName()) {
			s.Supported = false
			s.Why = "non-pulsar message " + string(md.FullName())
		}
		if md.Syntax() != protoreflect.Proto3 {
			s.Supported = false
			s.Why = "not proto3: " + string(md.FullName())
		}
		// real oneofs in declaration order
		groupIdx := map[protoreflect.FullName]int{}
		for i := 0; i < md.Oneofs().Len(); i++ {
			od := md.Oneofs().Get(i)
			if od.IsSynthetic() {
				s.Supported = false
				s.Why = "proto3 optional"
				continue
			}
			groupIdx[od.FullName()] = len(m.OneofNames)
			m.OneofNames = append(m.OneofNames, string(od.Name()))
		}
		for i := 0; i < md.Fields().Len(); i++ {
			fd := md.Fields().Get(i)
			f := Field{Num: int(fd.Number()), Name: string(fd.Name())}
			elem := func(d protoreflect.FieldDescriptor) {
				switch d.Kind() {
				case protoreflect.MessageKind:
					f.IsMsg = true
					f.Msg = add(d.Message())
				case protoreflect.GroupKind:
					s.Supported = false
					s.Why = "group"
				default:
					f.Kind = protoKinds[d.Kind()]
					if d.Kind() == protoreflect.EnumKind {
						f.EnumName = string(d.Enum().FullName())
					}
				}
			}
			switch {
			case fd.IsMap():
				f.Shape = Map
				f.Key = protoKinds[fd.MapKey().Kind()]
				elem(fd.MapValue())
			case fd.IsList():
				f.Shape = Repeated
				f.Packed = fd.IsPacked()
				elem(fd)
			case fd.ContainingOneof() != nil && !fd.ContainingOneof().IsSynthetic():
				f.Shape = Oneof
				f.Group = groupIdx[fd.ContainingOneof().FullName()]
				elem(fd)
			default:
				f.Shape = Singular
				elem(fd)
				if fd.HasOptionalKeyword() {
					s.Supported = false
					s.Why = "proto3 optional"
				}
			}
			m.Fields = append(m.Fields, f)
		}
		s.Msgs = append(s.Msgs, m)
	}
	return s
}

// SortedNums returns field numbers ascending (helper for generators).
func (m *Msg) SortedNums() []int {
	var ns []int
	for _, f := range m.Fields {
		ns = append(ns, f.Num)
	}
	sort.Ints(ns)
	return ns
}
